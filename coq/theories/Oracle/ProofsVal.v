(* Oracle/ProofsVal.v — invariants of the ValidateReadTS + single-flight interleaving semantics *)
From Verif Require Import Oracle.Model Oracle.ModelSys Oracle.ModelVal Oracle.ProofsSys.
From Coq Require Import Lia Arith.
Open Scope Z_scope.

Lemma pre_outcome_accept : forall read stale, pre_outcome read stale = Some OAccept -> read = max_uint64.
Proof.
  intros read stale H. unfold pre_outcome, validate_pre in H.
  destruct ((max_int64 <=? read) && (read <? max_uint64)); [discriminate|].
  destruct (read =? max_uint64) eqn:E; [lia|discriminate].
Qed.
Lemma pre_outcome_not_reject : forall read stale c, pre_outcome read stale <> Some (OReject c).
Proof.
  intros read stale c. unfold pre_outcome. destruct (validate_pre read stale) as [[]|]; try discriminate.
Qed.

Section Proofs.
Variable pd : nat -> Z.
Hypothesis pd_strict : forall i j, (i < j)%nat -> pd i < pd j.

Lemma pd_mono : forall i j, (i <= j)%nat -> pd i <= pd j.
Proof. intros i j H. destruct (Nat.eq_dec i j); [subst; lia|]. assert (pd i < pd j) by (apply pd_strict; lia). lia. Qed.

Definition constrained (th : vthread) : Prop :=
  match vp th with
  | VGot _ => True
  | VCheck | VJoin | VWait _ => vretry th = true
  | _ => False
  end.

Definition vgood (k : nat) (fl : option flightrec) (th : vthread) : Prop :=
  (vbegk th <= k)%nat /\
  (forall g, vp th = VWait g -> exists f, fl = Some f /\ fid f = g) /\
  (forall f, fl = Some f -> constrained th -> (vbegk th <= ffloor f)%nat) /\
  (forall v, vp th = VGot (Some v) ->
     (exists i, (i < k)%nat /\ v = pd i) /\ (vretry th = true -> forall i, (i < vbegk th)%nat -> pd i < v)) /\
  (forall c, vp th = VDone (OReject c) -> forall i, (i < vbegk th)%nat -> pd i < vread th) /\
  (vp th = VDone OAccept -> vread th <> max_uint64 -> exists i, (i < k)%nat /\ vread th <= pd i).

Definition fgood (k c : nat) (f : flightrec) : Prop :=
  (ffloor f <= k)%nat /\ (fid f < c)%nat /\ (forall i, fts f = Some i -> (ffloor f <= i < k)%nat).

Record VInv (s : vsys) : Prop := {
  V1 : forall l, vlast s = Some l -> exists i, (i < vk s)%nat /\ l = pd i;
  V2 : forall f, flight s = Some f -> fgood (vk s) (fcount s) f;
  V3 : forall t th, nth_error (vthr s) t = Some th -> vgood (vk s) (flight s) th
}.

Lemma vinv_init : forall n, VInv (init_vsys n).
Proof.
  intros n. constructor; cbn; try discriminate.
  intros t th H. apply nth_error_In, repeat_spec in H. subst th.
  unfold vgood; cbn. repeat split; intros; try discriminate; try lia; try contradiction.
Qed.

Lemma vgood_mono : forall k k' fl th, vgood k fl th -> (k <= k')%nat -> vgood k' fl th.
Proof.
  intros k k' fl th [A [B [C [D [E F]]]]] H. repeat split; auto; try lia.
  - destruct (D v H0) as [[i [X Y]] _]. exists i; split; [lia|auto].
  - destruct (D v H0) as [_ Z]. auto.
  - intros G1 G2. destruct (F G1 G2) as [i [X Y]]. exists i; split; [lia|auto].
Qed.

Lemma vgood_newflight : forall k c th, vgood k None th -> vgood k (Some (mkF c k None)) th.
Proof.
  intros k c th [A [B [C [D [E F]]]]]. repeat split; auto.
  - intros g H. destruct (B g H) as [f [X _]]. discriminate.
  - intros f H _. inversion H; subst; cbn. exact A.
  - apply D; auto.
  - apply D; auto.
Qed.

Lemma vgood_fts : forall k f x th, vgood k (Some f) th -> vgood k (Some (mkF (fid f) (ffloor f) x)) th.
Proof.
  intros k f x th [A [B [C [D [E F]]]]]. repeat split; auto.
  - intros g H. destruct (B g H) as [f' [X Y]]. inversion X; subst f'. eexists; split; [reflexivity|exact Y].
  - intros f' H Hc. inversion H; subst; cbn. apply (C f eq_refl Hc).
  - apply D; auto.
  - apply D; auto.
Qed.

Lemma vgood_drop_flight : forall k f th, vgood k (Some f) th -> (forall g, vp th <> VWait g) -> vgood k None th.
Proof.
  intros k f th [A [B [C [D [E F]]]]] H. repeat split; auto.
  - intros g Hg. destruct (H g Hg).
  - intros f' Hf. discriminate.
  - apply D; auto.
  - apply D; auto.
Qed.

(* delivery of the flight's result to a waiter, the flight leaves the map *)
Lemma vgood_deliver : forall k c f r th,
  fgood k c f -> vgood k (Some f) th ->
  (r = None \/ exists i, fts f = Some i /\ r = Some (pd i)) ->
  vgood k None (deliver (fid f) r th).
Proof.
  intros k c f r th [F1 [F2 F3]] G Hr. unfold deliver.
  destruct (vp th) eqn:Hp; try (apply (vgood_drop_flight k f th G); intros g Hg; rewrite Hp in Hg; discriminate).
  destruct G as [A [B [C [D [E F]]]]].
  destruct (B f0 Hp) as [f' [X Y]]. inversion X; subst f'. rewrite <- Y, Nat.eqb_refl.
  unfold vwith. repeat split; cbn [vp vbegk vretry vread]; auto; try (intros; discriminate).
  - cbn in H. inversion H; subst r. destruct Hr as [Hr|[i [Hi Hr]]]; [discriminate|]. inversion Hr; subst v.
    exists i; split; [apply (F3 i Hi)|reflexivity].
  - intros Hre j Hj. cbn in H. inversion H; subst r. destruct Hr as [Hr|[i [Hi Hr]]]; [discriminate|]. inversion Hr; subst v.
    assert (Hc : constrained th) by (unfold constrained; rewrite Hp; exact Hre).
    pose proof (C f eq_refl Hc). pose proof (F3 i Hi). apply pd_strict. lia.
Qed.

Lemma fgood_mono : forall k k' c f, fgood k c f -> (k <= k')%nat -> fgood k' c f.
Proof. intros k k' c f [A [B C]] H. repeat split; try lia; destruct (C i H0); lia. Qed.

Lemma vinv_put : forall s t th th',
  VInv s -> nth_error (vthr s) t = Some th -> vgood (vk s) (flight s) th' -> VInv (vput s t th').
Proof.
  intros s t th th' [A B C] Ht G. constructor; cbn [vput vlast vk flight fcount vthr]; auto.
  intros u thu Hu. rewrite nth_error_set_nth in Hu. destruct (Nat.eqb t u).
  - rewrite Ht in Hu. inversion Hu; subst; exact G.
  - eauto.
Qed.

Ltac vg := unfold vgood, constrained, vwith; cbn [vp vbegk vretry vread vstale].

Lemma vinv_step : forall s e, VInv s -> VInv (vstep pd true s e).
Proof.
  intros s e I. pose proof I as [A B C].
  destruct e as [t read stale|t|t| |i| | |]; cbn [vstep].
  - (* EBegin *)
    destruct (nth_error (vthr s) t) as [th|] eqn:Ht; [|exact I].
    destruct (vp th) eqn:Hp; try exact I.
    destruct (pre_outcome read stale) as [o|] eqn:Hpre; apply (vinv_put s t th _ I Ht); vg;
      repeat split; try lia; try (intros; discriminate); try (intros; contradiction).
    + intros c H. inversion H; subst o. destruct (pre_outcome_not_reject _ _ _ Hpre).
    + intros H Hne. inversion H; subst o. destruct (Hne (pre_outcome_accept _ _ Hpre)).
  - (* EStep *)
    destruct (nth_error (vthr s) t) as [th|] eqn:Ht; [|exact I].
    destruct (C t th Ht) as [Ga [Gb [Gc [Gd [Ge Gf]]]]].
    unfold vthread_step. destruct (vp th) eqn:Hp; try exact I.
    + (* VCheck *)
      destruct (match vlast s with Some l => vread th <=? l | None => false end) eqn:Hit;
        apply (vinv_put s t th _ I Ht); vg; repeat split; auto; try (intros; discriminate); try (intros; contradiction).
      * destruct (vlast s) as [l|] eqn:Hl; [|discriminate]. destruct (A l eq_refl) as [i [X Y]].
        intros _ _. exists i; split; [exact X|lia].
      * intros f Hf Hre. apply (Gc f Hf). unfold constrained. rewrite Hp. exact Hre.
    + (* VJoin *)
      destruct (flight s) as [f|] eqn:Hf.
      * apply (vinv_put s t th _ I Ht); vg; rewrite Hf; repeat split; auto; try (intros; discriminate); try (intros; contradiction).
        -- intros g Hg. inversion Hg; subst. eexists; split; reflexivity.
        -- intros f' Hf' Hre. apply (Gc f' Hf'). unfold constrained. rewrite Hp. exact Hre.
      * constructor; cbn [vlast vk flight fcount vthr]; auto.
        -- intros f Hf'. inversion Hf'; subst f. unfold fgood; cbn. repeat split; try lia; intros; discriminate.
        -- intros u thu Hu. rewrite nth_error_set_nth in Hu. destruct (Nat.eqb t u).
           ++ rewrite Ht in Hu. inversion Hu; subst thu. vg. repeat split; auto; try (intros; discriminate).
              ** intros g Hg. inversion Hg; subst. eexists; split; reflexivity.
              ** intros f Hf' _. inversion Hf'; subst f; cbn. exact Ga.
           ++ apply vgood_newflight. eauto.
    + (* VGot *)
      destruct r as [cur|].
      * destruct (cur <? vread th) eqn:Hlt.
        -- destruct (negb (vretry th)) eqn:Hre; cbn [andb].
           ++ apply (vinv_put s t th _ I Ht); vg; repeat split; auto; try (intros; discriminate); try (intros; contradiction).
              intros f Hf _. apply (Gc f Hf). unfold constrained. rewrite Hp. exact Logic.I.
           ++ apply (vinv_put s t th _ I Ht); vg; repeat split; auto; try (intros; discriminate); try (intros; contradiction).
              intros c Hc j Hj. destruct (Gd cur eq_refl) as [_ K]. assert (vretry th = true) by (destruct (vretry th); [reflexivity|discriminate]).
              specialize (K H j Hj). lia.
        -- apply (vinv_put s t th _ I Ht); vg; repeat split; auto; try (intros; discriminate); try (intros; contradiction).
           intros _ _. destruct (Gd cur eq_refl) as [[j [X Y]] _]. exists j; split; [exact X|lia].
      * apply (vinv_put s t th _ I Ht); vg; repeat split; auto; try (intros; discriminate); try (intros; contradiction).
  - (* ECancel *)
    destruct (nth_error (vthr s) t) as [th|] eqn:Ht; [|exact I].
    destruct (C t th Ht) as [Ga _].
    destruct (vp th) eqn:Hp; try exact I;
      apply (vinv_put s t th _ I Ht); vg; repeat split; auto; try (intros; discriminate); try (intros; contradiction).
  - (* EIssueEnv *)
    constructor; cbn [vlast vk flight fcount vthr].
    + intros l H. destruct (A l H) as [i [X Y]]. exists i; split; [lia|auto].
    + intros f H. eapply fgood_mono; [apply B; exact H|lia].
    + intros t th H. eapply vgood_mono; [apply (C t th H)|lia].
  - (* EPublish *)
    destruct ((i <? vk s)%nat && match vlast s with Some l => l <=? pd i | None => true end) eqn:Hg; [|exact I].
    apply andb_prop in Hg. destruct Hg as [Hi _]. apply Nat.ltb_lt in Hi.
    constructor; cbn [vlast vk flight fcount vthr]; auto.
    intros l H. inversion H; subst. eauto.
  - (* EFlightIssue *)
    destruct (flight s) as [f|] eqn:Hf; [|exact I]. destruct (fts f) eqn:Hts; [exact I|].
    destruct (B f eq_refl) as [F1 [F2 F3]].
    constructor; cbn [vlast vk flight fcount vthr].
    + intros l H. destruct (A l H) as [i [X Y]]. exists i; split; [lia|auto].
    + intros f' H. inversion H; subst f'. unfold fgood; cbn. repeat split; try lia; inversion H0; subst; lia.
    + intros t th H. eapply vgood_mono; [apply vgood_fts; apply (C t th H)|lia].
  - (* EFlightFail *)
    destruct (flight s) as [f|] eqn:Hf; [|exact I].
    constructor; cbn [vlast vk flight fcount vthr]; auto; try (intros; discriminate).
    intros t th H. rewrite nth_error_map in H. destruct (nth_error (vthr s) t) as [th0|] eqn:Ht; [|discriminate].
    inversion H; subst th. eapply vgood_deliver; [apply B; reflexivity|eauto|left; reflexivity].
  - (* EFlightFinish *)
    destruct (flight s) as [f|] eqn:Hf; [|exact I]. destruct (fts f) as [i|] eqn:Hts; [|exact I].
    constructor; cbn [vlast vk flight fcount vthr]; auto; try (intros; discriminate).
    intros t th H. rewrite nth_error_map in H. destruct (nth_error (vthr s) t) as [th0|] eqn:Ht; [|discriminate].
    inversion H; subst th. eapply vgood_deliver; [apply B; reflexivity|eauto|right; eauto].
Qed.

Lemma vinv_run : forall es s, VInv s -> VInv (vrun pd true s es).
Proof. induction es as [|e es IH]; intros s I; cbn; auto. apply IH, vinv_step, I. Qed.

Lemma accept_complete : forall n es t th c,
  nth_error (vthr (vrun pd true (init_vsys n) es)) t = Some th -> vp th = VDone (OReject c) ->
  forall i, (i < vbegk th)%nat -> pd i < vread th.
Proof.
  intros n es t th c Ht Hp. destruct (vinv_run es _ (vinv_init n)) as [_ _ C].
  destruct (C t th Ht) as [_ [_ [_ [_ [E _]]]]]. eapply E; eauto.
Qed.

Lemma reject_sound : forall n es t th,
  nth_error (vthr (vrun pd true (init_vsys n) es)) t = Some th -> vp th = VDone OAccept -> vread th <> max_uint64 ->
  exists i, (i < vk (vrun pd true (init_vsys n) es))%nat /\ vread th <= pd i.
Proof.
  intros n es t th Ht Hp Hne. destruct (vinv_run es _ (vinv_init n)) as [_ _ C].
  destruct (C t th Ht) as [_ [_ [_ [_ [_ F]]]]]. auto.
Qed.

(* once accepted, the bound stays valid in every later state (vk only grows): the statement above holds
   in particular in the state right after the accepting step *)
Lemma vk_step : forall r s e, (vk s <= vk (vstep pd r s e))%nat.
Proof.
  intros r s e. destruct e; cbn [vstep]; try lia.
  - destruct (nth_error (vthr s) t) as [th|]; [|lia]. destruct (vp th); try lia. destruct (pre_outcome read stale); cbn; lia.
  - destruct (nth_error (vthr s) t) as [th|]; [|lia]. unfold vthread_step.
    destruct (vp th); try lia.
    + destruct (match vlast s with Some l => vread th <=? l | None => false end); cbn; lia.
    + destruct (flight s); cbn; lia.
    + destruct r0 as [cur|]; [|cbn; lia]. destruct (cur <? vread th); [destruct (r && negb (vretry th))|]; cbn; lia.
  - destruct (nth_error (vthr s) t) as [th|]; [|lia]. destruct (vp th); cbn; lia.
  - cbn; lia.
  - destruct ((i <? vk s)%nat && match vlast s with Some l => l <=? pd i | None => true end); cbn; lia.
  - destruct (flight s) as [f|]; [|lia]. destruct (fts f); cbn; lia.
  - destruct (flight s) as [f|]; cbn; lia.
  - destruct (flight s) as [f|]; [|lia]. destruct (fts f); cbn; lia.
Qed.

End Proofs.

(* without the retry a timestamp issued before the call can be rejected: a stale single-flight result *)
Definition no_retry_sched : list vevent :=
  [EIssueEnv; EPublish 0; EBegin 0 1 false; EStep 0; EStep 0; EFlightIssue; EIssueEnv;
   EBegin 1 2 true; EStep 1; EStep 1; EFlightFinish; EStep 1].

Lemma no_retry_refuted :
  exists (pd : nat -> Z), (forall i j, (i < j)%nat -> pd i < pd j) /\
  exists n es t th c i,
    nth_error (vthr (vrun pd false (init_vsys n) es)) t = Some th /\ vp th = VDone (OReject c) /\
    (i < vbegk th)%nat /\ vread th = pd i.
Proof.
  exists Z.of_nat. split; [intros; lia|].
  exists 2%nat, no_retry_sched, 1%nat. eexists. exists 1, 2%nat.
  split; [vm_compute; reflexivity|]. cbn. repeat split; lia.
Qed.

(* the same schedule with the retry: the validator is not rejected, it starts a second flight *)
Lemma retry_same_schedule :
  voutcome_of (vrun Z.of_nat true (init_vsys 2) (no_retry_sched ++ [EStep 1; EStep 1; EFlightIssue; EFlightFinish; EStep 1])) 1 = Some OAccept.
Proof. vm_compute. reflexivity. Qed.

(* ------------------------------------------------------------------ cancellation is isolated:
   the flight's fetch is independent of every caller's context, so a cancel step of one validator
   fails that validator only.  OErr (a failed validation) can reach validator u only through a PD
   failure of a flight (EFlightFail) or through its own cancellation (ECancel u). *)
Section Cancel.
Variable pd : nat -> Z.
Variable u : nat.

Definition quiet (e : vevent) : Prop := e <> EFlightFail /\ e <> ECancel u.

Definition CInv (s : vsys) : Prop :=
  (forall t th, nth_error (vthr s) t = Some th -> vp th <> VGot None) /\
  (forall th, nth_error (vthr s) u = Some th -> vp th <> VDone OErr).

Lemma pre_outcome_not_err : forall read stale, pre_outcome read stale <> Some OErr.
Proof. intros read stale. unfold pre_outcome. destruct (validate_pre read stale) as [[]|]; discriminate. Qed.

Lemma cinv_put : forall s t th',
  CInv s -> vp th' <> VGot None -> (t = u -> vp th' <> VDone OErr) -> CInv (vput s t th').
Proof.
  intros s t th' [A B] H1 H2. split; cbn [vput vthr].
  - intros x thx Hx. rewrite nth_error_set_nth in Hx. destruct (Nat.eqb t x).
    + destruct (nth_error (vthr s) t); cbn in Hx; inversion Hx; subst; exact H1.
    + eauto.
  - intros thx Hx. rewrite nth_error_set_nth in Hx. destruct (Nat.eqb t u) eqn:E.
    + apply Nat.eqb_eq in E. destruct (nth_error (vthr s) t); cbn in Hx; inversion Hx; subst; auto.
    + eauto.
Qed.

Lemma deliver_vp : forall f v th0,
  vp (deliver f (Some v) th0) = vp th0 \/ vp (deliver f (Some v) th0) = VGot (Some v).
Proof.
  intros f v th0. unfold deliver. destruct (vp th0) eqn:Hp; auto.
  destruct (Nat.eqb f0 f); cbn; auto.
Qed.

Lemma cinv_deliver : forall s f v k l fl c,
  CInv s -> CInv (mkVS k l fl c (map (deliver f (Some v)) (vthr s))).
Proof.
  intros s f v k l fl c [A B]. split; cbn [vthr].
  - intros t th H. rewrite nth_error_map in H. destruct (nth_error (vthr s) t) as [th0|] eqn:Ht; cbn in H; [|discriminate].
    inversion H; subst th. destruct (deliver_vp f v th0) as [E|E]; rewrite E; [eapply A; eauto|discriminate].
  - intros th H. rewrite nth_error_map in H. destruct (nth_error (vthr s) u) as [th0|] eqn:Ht; cbn in H; [|discriminate].
    inversion H; subst th. destruct (deliver_vp f v th0) as [E|E]; rewrite E; [eapply B; eauto|discriminate].
Qed.

Lemma cinv_step : forall r s e, quiet e -> CInv s -> CInv (vstep pd r s e).
Proof.
  intros r s e [Q1 Q2] I. pose proof I as [A B].
  destruct e as [t read stale|t|t| |i| | |]; cbn [vstep]; try congruence.
  - destruct (nth_error (vthr s) t) as [th|] eqn:Ht; [|exact I]. destruct (vp th); try exact I.
    destruct (pre_outcome read stale) as [o|] eqn:Hpre; apply cinv_put; cbn; auto; try discriminate.
    intros _ E. inversion E; subst. exact (pre_outcome_not_err _ _ Hpre).
  - destruct (nth_error (vthr s) t) as [th|] eqn:Ht; [|exact I]. unfold vthread_step.
    destruct (vp th) eqn:Hp; try exact I.
    + destruct (match vlast s with Some l => vread th <=? l | None => false end); apply cinv_put; cbn; auto; discriminate.
    + destruct (flight s).
      * apply cinv_put; cbn; auto; discriminate.
      * destruct (cinv_put s t (vwith th (VWait (fcount s))) I) as [X Y]; cbn; try discriminate.
        split; cbn [vthr]; [exact X|exact Y].
    + destruct r0 as [cur|]; [|destruct (A t th Ht Hp)].
      destruct (cur <? vread th); [destruct (r && negb (vretry th))|]; apply cinv_put; cbn; auto; discriminate.
  - destruct (nth_error (vthr s) t) as [th|] eqn:Ht; [|exact I].
    assert (t <> u) by congruence.
    destruct (vp th); try exact I; apply cinv_put; cbn; auto; try discriminate; intros; contradiction.
  - exact I.
  - destruct ((i <? vk s)%nat && match vlast s with Some l => l <=? pd i | None => true end); exact I.
  - destruct (flight s) as [f|]; [|exact I]. destruct (fts f); exact I.
  - destruct (flight s) as [f|]; [|exact I]. destruct (fts f) as [i|]; [|exact I]. apply cinv_deliver; exact I.
Qed.

Lemma cancel_isolated : forall r n es,
  Forall quiet es -> voutcome_of (vrun pd r (init_vsys n) es) u <> Some OErr.
Proof.
  intros r n es Hq.
  assert (I : CInv (vrun pd r (init_vsys n) es)).
  { assert (I0 : CInv (init_vsys n)).
    { split; cbn; intros; apply nth_error_In, repeat_spec in H; subst; cbn; discriminate. }
    revert I0. generalize (init_vsys n). induction Hq as [|e es He _ IH]; intros s I0; cbn; auto.
    apply IH, cinv_step; auto. }
  destruct I as [_ B]. unfold voutcome_of. destruct (nth_error (vthr _) u) as [th|] eqn:Ht; [|discriminate].
  specialize (B th eq_refl). destruct (vp th); try discriminate. congruence.
Qed.
End Cancel.
