(* Oracle/ProofsSys.v — invariants of the GetTimestamp / setLastTS interleaving semantics *)
From Verif Require Import Oracle.Model Oracle.ModelSys.
From Coq Require Import Lia Arith.
Open Scope Z_scope.

Lemma nth_error_set_nth : forall A (l : list A) i j x,
  nth_error (set_nth l i x) j =
  if Nat.eqb i j then match nth_error l i with Some _ => Some x | None => None end else nth_error l j.
Proof.
  induction l as [|a r IH]; intros i j x.
  - destruct i, j; cbn [set_nth nth_error Nat.eqb]; try reflexivity; try (destruct (Nat.eqb i j); reflexivity).
  - destruct i, j; cbn [set_nth nth_error Nat.eqb]; auto.
Qed.

Definition held (p : pc) : option Z :=
  match p with
  | PMapLoad ts | PLoadOrStore ts | PLoad ts | PCmp ts _ _ | PCas ts _ _ | PRet ts => Some ts
  | PDone r => r
  | _ => None
  end.

Definition holds (l : list thread) (o : nat) (v : Z) : Prop :=
  exists th, nth_error l o = Some th /\ held (tpc th) = Some v.

Section Proofs.
Variable pd : nat -> Z.

(* ------------------------------------------------------------------ value invariant *)
Definition tgood (k : nat) (l : list thread) (th : thread) : Prop :=
  (forall ts, held (tpc th) = Some ts -> ts = pd (tidx th) /\ (tidx th < k)%nat /\ (tinvk th <= tidx th)%nat) /\
  (forall ts o v, tpc th = PCmp ts o v \/ tpc th = PCas ts o v -> holds l o v) /\
  (forall ts o v, tpc th = PCas ts o v -> v < ts) /\
  (tinvk th <= k)%nat.

Record Inv (s : sys) : Prop := {
  I_cell : forall o v, cell s = Some (o, v) -> holds (thr s) o v;
  I_thr : forall t th, nth_error (thr s) t = Some th -> tgood (issued s) (thr s) th
}.

Lemma holds_set_nth : forall l t th th' o v,
  nth_error l t = Some th ->
  (forall w, held (tpc th) = Some w -> held (tpc th') = Some w) ->
  holds l o v -> holds (set_nth l t th') o v.
Proof.
  intros l t th th' o v Ht Hst [tho [Ho Hh]]. unfold holds. rewrite nth_error_set_nth.
  destruct (Nat.eqb t o) eqn:E.
  - apply Nat.eqb_eq in E; subst o. rewrite Ht in *. inversion Ho; subst tho. eexists; split; [reflexivity|auto].
  - exists tho; auto.
Qed.

Lemma inv_update : forall s t th c' k' clk' th',
  Inv s -> nth_error (thr s) t = Some th ->
  (issued s <= k')%nat ->
  (forall w, held (tpc th) = Some w -> held (tpc th') = Some w) ->
  (c' = cell s \/ exists ts, c' = Some (t, ts) /\ held (tpc th') = Some ts) ->
  tgood k' (thr s) th' ->
  Inv (mkSys c' k' clk' (set_nth (thr s) t th')).
Proof.
  intros s t th c' k' clk' th' I Ht Hk Hst Hc Hg. destruct I as [Ic It]. constructor; cbn [cell thr issued].
  - intros o v E. destruct Hc as [Hc|[ts [Hc Hh]]].
    + subst c'. eapply holds_set_nth; eauto.
    + rewrite Hc in E. inversion E; subst o v. unfold holds. rewrite nth_error_set_nth, Nat.eqb_refl, Ht. eauto.
  - intros u thu Hu. rewrite nth_error_set_nth in Hu. destruct (Nat.eqb t u) eqn:E.
    + rewrite Ht in Hu. inversion Hu; subst thu. destruct Hg as [G1 [G2 [G3 G4]]]. split; [exact G1|split; [|split; [exact G3|exact G4]]].
      intros ts o v H. eapply holds_set_nth; eauto.
    + destruct (It u thu Hu) as [G1 [G2 [G3 G4]]]. split; [|split; [|split; [exact G3|lia]]].
      * intros ts H. destruct (G1 ts H) as [A [B C]]. repeat split; auto; lia.
      * intros ts o v H. eapply holds_set_nth; eauto.
Qed.

Lemma inv_tick : forall s, Inv s -> Inv (tick s).
Proof. intros s [Ic It]. constructor; auto. Qed.

Lemma inv_init : forall n, Inv (init_sys n).
Proof.
  intros n. constructor; cbn.
  - intros o v H; discriminate.
  - intros t th H. apply nth_error_In, repeat_spec in H. subst th.
    split; [|split; [|split]]; cbn; intros; try discriminate; try lia. destruct H as [H|H]; discriminate.
Qed.

Lemma tgood_same : forall k k' l th th',
  tgood k l th -> held (tpc th') = held (tpc th) -> tidx th' = tidx th -> tinvk th' = tinvk th -> (k <= k')%nat ->
  (forall ts o v, tpc th' = PCmp ts o v \/ tpc th' = PCas ts o v -> holds l o v) ->
  (forall ts o v, tpc th' = PCas ts o v -> v < ts) ->
  tgood k' l th'.
Proof.
  intros k k' l th th' [G1 [G2 [G3 G4]]] Hh Hi Hk Hle H2 H3. split; [|split; [|split]]; auto; try lia.
  intros ts H. rewrite Hh in H. destruct (G1 ts H) as [A [B C]]. rewrite Hi, Hk. repeat split; auto; lia.
Qed.

Ltac upd I Ht Hpc := eapply (inv_update _ _ _ _ _ _ _ I Ht); cbn [tpc tidx tinvk with_pc held]; rewrite ?Hpc; cbn [held];
  [ try lia | try (intros w Hw; first [exact Hw | discriminate]) | try (left; first [reflexivity | symmetry; eassumption]) | ].
Ltac same G Hpc := eapply tgood_same; [exact G | cbn [tpc tidx tinvk with_pc held]; rewrite ?Hpc; reflexivity | reflexivity | reflexivity | lia
  | cbn [tpc with_pc]; intros ? ? ? [HH|HH]; try discriminate HH | cbn [tpc with_pc]; intros ? ? ? HH; try discriminate HH ].

Lemma inv_step : forall s e, Inv s -> Inv (step pd s e).
Proof.
  intros s e I. pose proof I as [Ic It].
  destruct e as [t|t]; cbn [step]; destruct (nth_error (thr s) t) as [th|] eqn:Ht; try (apply inv_tick; assumption).
  - pose proof (It t th Ht) as G. pose proof G as [G1 [G2 [G3 G4]]].
    unfold thread_step. destruct (tpc th) eqn:Hpc.
    + (* PIdle *) upd I Ht Hpc. split; [|split; [|split]]; cbn; intros; try discriminate; try lia. destruct H; discriminate.
    + (* PWaitPD *) upd I Ht Hpc. split; [|split; [|split]]; cbn [tpc tidx tinvk held]; intros; try discriminate; try lia.
      * inversion H; subst. repeat split; lia.
      * destruct H; discriminate.
    + (* PMapLoad *) destruct (cell s) eqn:Hc; upd I Ht Hpc; same G Hpc.
    + (* PLoadOrStore *) destruct (cell s) eqn:Hc.
      * upd I Ht Hpc. same G Hpc.
      * upd I Ht Hpc; [right; eexists; split; reflexivity|]. same G Hpc.
    + (* PLoad *) destruct (cell s) as [[o v]|] eqn:Hc.
      * upd I Ht Hpc. same G Hpc; inversion HH; subst; auto.
      * upd I Ht Hpc. exact G.
    + (* PCmp *) destruct (ts <=? v) eqn:Hle; upd I Ht Hpc; same G Hpc.
      * inversion HH; subst. eapply G2; left; reflexivity.
      * inversion HH; subst. lia.
    + (* PCas *) destruct (cell s) as [[o' v']|] eqn:Hc.
      * destruct (Nat.eqb o' o) eqn:Ho.
        -- upd I Ht Hpc; [right; eexists; split; reflexivity|]. same G Hpc.
        -- upd I Ht Hpc. same G Hpc.
      * upd I Ht Hpc. same G Hpc.
    + (* PRet *) upd I Ht Hpc. same G Hpc.
    + (* PDone *) upd I Ht Hpc. exact G.
  - destruct (tpc th) eqn:Hpc; try (apply inv_tick; assumption).
    upd I Ht Hpc. split; [|split; [|split]]; cbn; intros; try discriminate.
    + destruct H; discriminate.
    + destruct (It t th Ht) as [_ [_ [_ G4]]]. exact G4.
Qed.

Lemma inv_run : forall es s, Inv s -> Inv (run pd s es).
Proof. induction es as [|e es IH]; intros s I; cbn; auto. apply IH, inv_step, I. Qed.

(* ------------------------------------------------------------------ the published value never decreases *)
Lemma holds_fun : forall l o v w, holds l o v -> holds l o w -> v = w.
Proof. intros l o v w [th [H1 H2]] [th' [H1' H2']]. congruence. Qed.

Definition lr (c : option (nat * Z)) : option Z := match c with Some (_, v) => Some v | None => None end.
Lemma lowres_lr : forall s, lowres s = lr (cell s).
Proof. reflexivity. Qed.

Lemma lr_step : forall s e, Inv s -> ole (lr (cell s)) (lr (cell (step pd s e))).
Proof.
  intros s e I. pose proof I as [Ic It].
  assert (R : ole (lr (cell s)) (lr (cell s))) by (unfold ole, lr; destruct (cell s) as [[o v]|]; lia).
  destruct e as [t|t]; cbn [step]; destruct (nth_error (thr s) t) as [th|] eqn:Ht; try exact R.
  - destruct (It t th Ht) as [G1 [G2 [G3 G4]]].
    unfold thread_step. destruct (tpc th) eqn:Hpc; cbn [cell]; try exact R.
    + destruct (cell s) eqn:Hc; cbn [cell]; try rewrite Hc in R; exact R.
    + destruct (cell s) eqn:Hc; cbn [cell]; [try rewrite Hc in R; exact R|exact Logic.I].
    + destruct (cell s) as [[o' v']|] eqn:Hc; cbn [cell]; try rewrite Hc in R; exact R.
    + destruct (ts <=? v); exact R.
    + destruct (cell s) as [[o' v']|] eqn:Hc; cbn [cell]; try (try rewrite Hc in R; exact R).
      destruct (Nat.eqb o' o) eqn:Ho; cbn [cell]; try (try rewrite Hc in R; exact R).
      apply Nat.eqb_eq in Ho; subst o'. cbn [lr ole].
      assert (v' = v) by (eapply holds_fun; [apply Ic; reflexivity|eapply G2; right; reflexivity]).
      subst. specialize (G3 _ _ _ eq_refl). lia.
  - destruct (tpc th); exact R.
Qed.

Lemma lr_run : forall es s, Inv s -> ole (lr (cell s)) (lr (cell (run pd s es))).
Proof.
  induction es as [|e es IH]; intros s I; cbn [run fold_left].
  - unfold ole, lr; destruct (cell s) as [[o v]|]; lia.
  - pose proof (lr_step s e I) as H1. pose proof (IH (step pd s e) (inv_step s e I)) as H2.
    unfold run in H2. unfold ole in *. destruct (lr (cell s)), (lr (cell (step pd s e))), (lr (cell (fold_left (step pd) es (step pd s e)))); try lia; contradiction.
Qed.

Lemma lr_issued : forall s v, Inv s -> lr (cell s) = Some v -> exists i, (i < issued s)%nat /\ v = pd i.
Proof.
  intros s v [Ic It] H. unfold lr in H. destruct (cell s) as [[o w]|] eqn:Hc; [|discriminate]. inversion H; subst w.
  destruct (Ic o v eq_refl) as [th [Hth Hh]]. destruct (It o th Hth) as [G1 _].
  destruct (G1 v Hh) as [A [B _]]. eauto.
Qed.

(* ------------------------------------------------------------------ ghost times: real-time order *)
Record TInv (s : sys) : Prop := {
  T1 : forall t th, nth_error (thr s) t = Some th -> tpc th <> PIdle -> (tinvt th < clock s)%nat /\ (tinvk th <= issued s)%nat;
  T2 : forall t th r, nth_error (thr s) t = Some th -> tpc th = PDone r ->
       (trett th < clock s)%nat /\ (tretk th <= issued s)%nat /\ (forall ts, r = Some ts -> (tidx th < tretk th)%nat);
  T3 : forall a b tha thb r, nth_error (thr s) a = Some tha -> nth_error (thr s) b = Some thb ->
       tpc tha = PDone r -> tpc thb <> PIdle -> (trett tha < tinvt thb)%nat -> (tretk tha <= tinvk thb)%nat
}.

Lemma tinv_init : forall n, TInv (init_sys n).
Proof.
  intros n. constructor; cbn; intros.
  - apply nth_error_In, repeat_spec in H. subst th. cbn in H0. congruence.
  - apply nth_error_In, repeat_spec in H. subst th. discriminate.
  - apply nth_error_In, repeat_spec in H. subst tha. discriminate.
Qed.

Lemma tinv_tick : forall s, TInv s -> TInv (tick s).
Proof.
  intros s [A B C]. constructor; cbn [tick thr clock issued]; intros.
  - destruct (A _ _ H H0). lia.
  - destruct (B _ _ _ H H0) as [? [? ?]]. repeat split; auto; lia.
  - eapply C; eauto.
Qed.

Definition pdone (p : pc) : bool := match p with PDone _ => true | _ => false end.
Definition pidle (p : pc) : bool := match p with PIdle => true | _ => false end.

Lemma tinv_update : forall s t th c' k' th',
  TInv s -> nth_error (thr s) t = Some th ->
  (issued s <= k')%nat ->
  (pidle (tpc th) = false -> pidle (tpc th') = false /\ tinvt th' = tinvt th /\ tinvk th' = tinvk th) ->
  (pidle (tpc th) = true -> pidle (tpc th') = false -> tinvt th' = clock s /\ tinvk th' = issued s) ->
  (pdone (tpc th) = true -> th' = th) ->
  (pdone (tpc th) = false -> pdone (tpc th') = true ->
     trett th' = clock s /\ tretk th' = issued s /\ pidle (tpc th) = false /\
     (forall ts, tpc th' = PDone (Some ts) -> (tidx th' < issued s)%nat)) ->
  TInv (mkSys c' k' (S (clock s)) (set_nth (thr s) t th')).
Proof.
  intros s t th c' k' th' [A B C] Ht Hk Hinv Hnew Hdone Hret.
  assert (IDLE : forall p, p <> PIdle <-> pidle p = false) by (intros p; destruct p; cbn; split; congruence).
  assert (DONE : forall p r, p = PDone r -> pdone p = true) by (intros p r E; subst; reflexivity).
  constructor; cbn [thr clock issued].
  - intros u thu Hu Hni. rewrite nth_error_set_nth in Hu. destruct (Nat.eqb t u) eqn:E.
    + rewrite Ht in Hu. inversion Hu; subst thu. apply IDLE in Hni.
      destruct (pidle (tpc th)) eqn:Hi.
      * destruct (Hnew eq_refl Hni) as [X Y]. lia.
      * destruct (Hinv eq_refl) as [_ [X Y]]. apply IDLE in Hi. destruct (A _ _ Ht Hi). lia.
    + destruct (A _ _ Hu Hni). lia.
  - intros u thu r Hu Hd. rewrite nth_error_set_nth in Hu. destruct (Nat.eqb t u) eqn:E.
    + rewrite Ht in Hu. inversion Hu; subst thu.
      destruct (pdone (tpc th)) eqn:Hdn.
      * rewrite (Hdone eq_refl) in *. destruct (B _ _ _ Ht Hd) as [? [? ?]]. repeat split; auto; lia.
      * destruct (Hret eq_refl (DONE _ _ Hd)) as [X [Y [Z W]]]. repeat split; try lia.
        intros ts Hr. subst r. specialize (W ts Hd). lia.
    + destruct (B _ _ _ Hu Hd) as [? [? ?]]. repeat split; auto; lia.
  - intros a b tha thb r Ha Hb Hda Hnb Hlt. rewrite nth_error_set_nth in Ha, Hb.
    destruct (Nat.eqb t a) eqn:Ea; destruct (Nat.eqb t b) eqn:Eb.
    + rewrite Ht in Ha, Hb. inversion Ha; inversion Hb; subst tha thb.
      destruct (pdone (tpc th)) eqn:Hdn.
      * rewrite (Hdone eq_refl) in *. eapply C; eauto.
      * destruct (Hret eq_refl (DONE _ _ Hda)) as [X [Y [Z W]]].
        destruct (Hinv Z) as [_ [X' Y']]. apply IDLE in Z. destruct (A _ _ Ht Z). lia.
    + rewrite Ht in Ha. inversion Ha; subst tha.
      destruct (pdone (tpc th)) eqn:Hdn.
      * rewrite (Hdone eq_refl) in *. eapply C; eauto.
      * destruct (Hret eq_refl (DONE _ _ Hda)) as [X [Y [Z W]]]. destruct (A _ _ Hb Hnb). lia.
    + rewrite Ht in Hb. inversion Hb; subst thb. apply IDLE in Hnb.
      destruct (pidle (tpc th)) eqn:Hi.
      * destruct (Hnew eq_refl Hnb) as [X Y]. destruct (B _ _ _ Ha Hda) as [? [? ?]]. lia.
      * destruct (Hinv eq_refl) as [_ [X Y]]. rewrite X in Hlt. rewrite Y. apply IDLE in Hi. eapply C; eauto.
    + eapply C; eauto.
Qed.

Ltac tupd TI Ht Hpc := eapply (tinv_update _ _ _ _ _ _ TI Ht); cbn [tpc tidx tinvk tinvt tretk trett with_pc pidle pdone]; rewrite ?Hpc; cbn [pidle pdone];
  [ try lia | try (intros _; repeat split; reflexivity); try discriminate | try (intros; discriminate); try (intros _ _; split; reflexivity)
  | try discriminate; try (intros _; reflexivity) | try (intros; discriminate) ].

Lemma tinv_step : forall s e, Inv s -> TInv s -> TInv (step pd s e).
Proof.
  intros s e I TI. pose proof I as [Ic It].
  destruct e as [t|t]; cbn [step]; destruct (nth_error (thr s) t) as [th|] eqn:Ht; try (apply tinv_tick; assumption).
  - pose proof (It t th Ht) as [G1 _].
    unfold thread_step. destruct (tpc th) eqn:Hpc.
    + tupd TI Ht Hpc.
    + tupd TI Ht Hpc.
    + destruct (cell s); tupd TI Ht Hpc.
    + destruct (cell s); tupd TI Ht Hpc.
    + destruct (cell s) as [[o v]|]; tupd TI Ht Hpc.
    + destruct (ts <=? v); tupd TI Ht Hpc.
    + destruct (cell s) as [[o' v']|]; [destruct (Nat.eqb o' o)|]; tupd TI Ht Hpc.
    + tupd TI Ht Hpc. intros _ _. repeat split. intros ts0 E. inversion E; subst.
      destruct (G1 ts0 eq_refl) as [_ [X _]]. exact X.
    + tupd TI Ht Hpc.
  - destruct (tpc th) eqn:Hpc; try (apply tinv_tick; assumption).
    tupd TI Ht Hpc. intros _ _. repeat split. intros ts E. discriminate.
Qed.

Lemma both_run : forall es s, Inv s -> TInv s -> Inv (run pd s es) /\ TInv (run pd s es).
Proof.
  induction es as [|e es IH]; intros s I TI; cbn; auto. apply IH; [apply inv_step|apply tinv_step]; assumption.
Qed.

(* a call that returned before another one was invoked returned a smaller PD index *)
Lemma realtime_index : forall s a b tha thb va vb,
  Inv s -> TInv s ->
  nth_error (thr s) a = Some tha -> nth_error (thr s) b = Some thb ->
  tpc tha = PDone (Some va) -> tpc thb = PDone (Some vb) -> (trett tha < tinvt thb)%nat ->
  va = pd (tidx tha) /\ vb = pd (tidx thb) /\ (tidx tha < tidx thb)%nat.
Proof.
  intros s a b tha thb va vb [Ic It] [A B C] Ha Hb Hda Hdb Hlt.
  destruct (It _ _ Ha) as [Ga _]. destruct (It _ _ Hb) as [Gb _].
  rewrite Hda in Ga. rewrite Hdb in Gb. destruct (Ga va eq_refl) as [Ea [_ _]]. destruct (Gb vb eq_refl) as [Eb [_ Lb]].
  destruct (B _ _ _ Ha Hda) as [_ [_ W]]. specialize (W va eq_refl).
  assert (Hnb : tpc thb <> PIdle) by (rewrite Hdb; discriminate).
  pose proof (C _ _ _ _ _ Ha Hb Hda Hnb Hlt). repeat split; auto; lia.
Qed.

End Proofs.
