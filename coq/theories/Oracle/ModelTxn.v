(* Oracle/ModelTxn.v — the consumers of the timestamp functions around a commit:
   * tikv/kv.go getTimestampWithRetry (CurrentTimestamp, GetTimestampWithRetry): ask the oracle until it answers
     or the back-off budget is used up;
   * txnkv/transaction/2pc.go twoPhaseCommitter.execute: WHERE the commit timestamp comes from in the three commit
     modes and when PD is asked before the prewrite:
       2PC:            prewrite; commit ts := GetTimestampForCommit()
       async / 1PC:    if needLinearizability (= not causal consistency) or a commit-wait constraint is registered:
                          latest := GetTimestampForCommit(); min_commit_ts := latest + 1
                       else min_commit_ts := start ts + 1   (optimistic transaction, no for-update ts)
                       prewrite carries min_commit_ts; the commit ts is what TiKV answers (tk), tk m >= m.
   `clause` = true is the code; false is the code without the `commitWaitUntilTSO > 0` clause (refutation only). *)
From Verif Require Export Oracle.Model.
Open Scope Z_scope.

(* getTimestampWithRetry: answers of the oracle one after the other; one unit of fuel per granted back-off *)
Fixpoint ts_with_retry (fuel : nat) (answers : list (option Z)) (calls : nat) {struct answers} : option Z * nat :=
  match answers with
  | [] => (None, calls)
  | Some ts :: _ => (Some ts, S calls)
  | None :: rest => match fuel with O => (None, S calls) | S f => ts_with_retry f rest (S calls) end
  end.

Inductive cmode := M2PC | MAsync | M1PC.

Definition pre_fetch (clause : bool) (m : cmode) (causal : bool) (bound : Z) : bool :=
  match m with
  | M2PC => false
  | _ => negb causal || (clause && (0 <? bound))
  end.

(* result: commit ts (None = Commit failed), min_commit_ts carried by the prewrite, GetTimestampWithRetry calls *)
Definition commit_txn (clause : bool) (tk : Z -> Z) (m : cmode) (causal : bool) (start : Z) (regs : list Z)
           (max_sleep_ns : Z) (fuel : nat) (script : list (option Z)) : option Z * Z * nat :=
  let bound := cw_bound regs in
  match m with
  | M2PC =>
      let '(r, c) := commit_wait bound max_sleep_ns fuel script in
      (match r with CwOk ts => Some ts | CwErr => None end, start + 1, c)
  | _ =>
      if pre_fetch clause m causal bound then
        let '(r, c) := commit_wait bound max_sleep_ns fuel script in
        match r with
        | CwOk latest => (Some (tk (latest + 1)), latest + 1, c)
        | CwErr => (None, 0, c)
        end
      else (Some (tk (start + 1)), start + 1, O)
  end.
