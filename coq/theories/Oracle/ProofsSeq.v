(* Oracle/ProofsSeq.v — the call-level setLastTS (Model.set_last: publish the maximum) is what the CAS-level
   system computes when the calls run one after the other. *)
From Verif Require Import Oracle.Model Oracle.ModelSys Oracle.ProofsArith Oracle.ProofsSys.
From Coq Require Import Lia Arith.
Open Scope Z_scope.

Lemma set_nth_twice : forall A (l : list A) t x y, set_nth (set_nth l t x) t y = set_nth l t y.
Proof. induction l as [|a r IH]; intros [|t] x y; cbn; auto. f_equal. apply IH. Qed.
Lemma set_nth_same : forall A (l : list A) t x, nth_error l t = Some x -> set_nth l t x = l.
Proof. induction l as [|a r IH]; intros [|t] x H; cbn in *; try discriminate; [congruence|]. f_equal. apply IH, H. Qed.
Lemma nth_set_nth_eq : forall A (l : list A) t x0 x, nth_error l t = Some x0 -> nth_error (set_nth l t x) t = Some x.
Proof. intros. rewrite nth_error_set_nth, Nat.eqb_refl, H. reflexivity. Qed.
Lemma nth_set_nth_ne : forall A (l : list A) t u x, t <> u -> nth_error (set_nth l t x) u = nth_error l u.
Proof. intros. rewrite nth_error_set_nth. destruct (Nat.eqb t u) eqn:E; [apply Nat.eqb_eq in E; contradiction|reflexivity]. Qed.

Section Seq.
Variable pd : nat -> Z.

Lemma step_norm : forall l t th0 c k clk th, nth_error l t = Some th0 ->
  step pd (mkSys c k clk (set_nth l t th)) (Ev t) = thread_step pd (mkSys c k clk (set_nth l t th)) t th.
Proof. intros. cbn [step thr]. rewrite (nth_set_nth_eq _ l t th0 th H). reflexivity. Qed.

Definition done_thread (ts : Z) (k clk : nat) (rk rt : nat) : thread := mkThread (PDone (Some ts)) k k clk rk rt.
Definition pub (c : option (nat * Z)) (ts : Z) : Z :=
  match c with Some (_, v) => if ts <=? v then v else ts | None => ts end.

Ltac st H := rewrite (step_norm _ _ _ _ _ _ _ H); unfold thread_step;
  cbn [tpc tidx tinvk tinvt tretk trett cell issued clock thr with_pc]; rewrite ?set_nth_twice.

(* thread t alone, from idle to done: nine scheduler slots are enough *)
Lemma run_alone_spec : forall c k clk l t,
  nth_error l t = Some idle_thread ->
  exists o th',
    run pd (mkSys c k clk l) (repeat (Ev t) 9) = mkSys (Some (o, pub c (pd k))) (S k) (9 + clk) (set_nth l t th') /\
    tpc th' = PDone (Some (pd k)).
Proof.
  intros c k clk l t H. replace (mkSys c k clk l) with (mkSys c k clk (set_nth l t idle_thread)) by (rewrite (set_nth_same _ l t idle_thread H); reflexivity).
  cbn [repeat run fold_left]. unfold idle_thread at 1.
  st H. st H.
  destruct c as [[o v]|]; cbn [pub].
  - st H. st H. st H. destruct (pd k <=? v) eqn:E.
    + st H. st H. st H. st H. eexists o, _. split; [reflexivity|reflexivity].
    + st H. rewrite Nat.eqb_refl. st H. st H. st H. eexists t, _. split; [reflexivity|reflexivity].
  - st H. st H. st H. st H. rewrite Z.leb_refl. st H. st H. st H. eexists t, _. split; [reflexivity|reflexivity].
Qed.

Definition seq_sched (m : nat) : list event := concat (map (fun t => repeat (Ev t) 9) (seq 0 m)).
Definition seq_state (m : nat) : list (Z * Z) := fold_left (fun st k => set_last st 1 (pd k)) (seq 0 m) [].

Lemma lowres_pub : forall c ts st,
  lowres (mkSys c O O []) = get_last st 1 ->
  Some (pub c ts) = get_last (set_last st 1 ts) 1.
Proof.
  intros c ts st H. rewrite set_last_max. rewrite <- H. unfold lowres, pub; cbn [cell].
  destruct c as [[o v]|]; [|reflexivity]. destruct (ts <=? v) eqn:E; f_equal; lia.
Qed.

Lemma seq_refines : forall n m, (m <= n)%nat ->
  let s := run pd (init_sys n) (seq_sched m) in
  lowres s = get_last (seq_state m) 1 /\ issued s = m /\
  (forall j, (m <= j < n)%nat -> nth_error (thr s) j = Some idle_thread) /\
  (forall j, (j < m)%nat -> exists th, nth_error (thr s) j = Some th /\ tpc th = PDone (Some (pd j))).
Proof.
  intros n m. induction m as [|m IH]; intros Hm; cbv zeta.
  - cbn. repeat split; auto; [|intros; lia]. intros j Hj. apply nth_error_repeat. lia.
  - specialize (IH ltac:(lia)). cbv zeta in IH. destruct IH as [L [K [Idle Done]]].
    unfold seq_sched, seq_state in *. rewrite seq_S, map_app, concat_app, fold_left_app. cbn [map concat Nat.add fold_left].
    rewrite app_nil_r. unfold run in *. rewrite fold_left_app.
    set (s := fold_left (step pd) (concat (map (fun t => repeat (Ev t) 9) (seq 0 m))) (init_sys n)) in *.
    destruct s as [c k clk l] eqn:Es. cbn [issued thr] in *. subst k.
    destruct (run_alone_spec c m clk l m (Idle m ltac:(lia))) as [o [th' [R Hd]]]. unfold run in R. rewrite R.
    cbn [issued thr]. repeat split.
    + unfold lowres at 1. cbn [cell]. apply lowres_pub. rewrite <- L. reflexivity.
    + intros j Hj. rewrite nth_set_nth_ne by lia. apply Idle. lia.
    + intros j Hj. destruct (Nat.eq_dec j m) as [->|Hne].
      * exists th'. split; [eapply nth_set_nth_eq; apply Idle; lia|exact Hd].
      * rewrite nth_set_nth_ne by lia. apply Done. lia.
Qed.

End Seq.
