(* Backoff/ProofsFloat.v — the Go expression  int(math.Min(float64(cap), float64(base)*math.Pow(2.0, float64(n))))
   written out with IEEE-754 binary64 rounding, and the range in which it equals the model's integer [expo].
   All quantities are non-negative integers here, so a double is represented by the integer it denotes (None = +Inf). *)
From Coq Require Import ZArith List Bool Lia.
From Verif Require Import Backoff.Model.
Open Scope Z_scope.

(* round to nearest, ties to even, 53 significant bits (no subnormals / underflow for integers >= 0) *)
Definition f64_round (x : Z) : Z :=
  if x <? 2 ^ 53 then x
  else
    let e := Z.log2 x - 52 in
    let q := x / 2 ^ e in
    let r := x mod 2 ^ e in
    let half := 2 ^ (e - 1) in
    let q' := if r <? half then q else if half <? r then q + 1 else if Z.even q then q else q + 1 in
    q' * 2 ^ e.

Definition f64_fin (x : Z) : option Z := if x <? 2 ^ 1024 then Some x else None.   (* overflow to +Inf *)

(* math.Pow(2.0, float64(n)) for an integer n >= 0: the exact power of two, +Inf from 2^1024 on *)
Definition f64_pow2 (n : Z) : option Z := if n <? 1024 then Some (2 ^ n) else None.

(* the Go expression; base >= 1, so base * +Inf = +Inf; the conversion int(m) is exact for m < 2^63 *)
Definition go_expo (base cap n : Z) : Z :=
  let fb := f64_round base in
  let fc := f64_round cap in
  let prod := match f64_pow2 n with
              | Some p => f64_fin (f64_round (fb * p))        (* one correctly rounded multiplication *)
              | None => None
              end in
  match prod with Some x => Z.min fc x | None => fc end.

Lemma f64_round_small x : x < 2 ^ 53 -> f64_round x = x.
Proof. intros H. unfold f64_round. apply Z.ltb_lt in H. rewrite H. reflexivity. Qed.

(* a 53-bit mantissa times a power of two is a double: rounding leaves it alone *)
Lemma f64_round_exact m k : 0 <= m < 2 ^ 53 -> 0 <= k -> f64_round (m * 2 ^ k) = m * 2 ^ k.
Proof.
  intros Hm Hk. unfold f64_round. destruct (m * 2 ^ k <? 2 ^ 53) eqn:E; auto. apply Z.ltb_ge in E.
  assert (P2 : 0 < 2 ^ k) by (apply Z.pow_pos_nonneg; lia).
  assert (Mp : 0 < m). { destruct (Z.eq_dec m 0); [subst; simpl in E; lia|lia]. }
  assert (L : Z.log2 (m * 2 ^ k) = k + Z.log2 m) by (apply Z.log2_mul_pow2; lia).
  assert (Lm : Z.log2 m < 53) by (apply Z.log2_lt_pow2; lia).
  assert (Lx : 53 <= Z.log2 (m * 2 ^ k)) by (apply Z.log2_le_pow2; lia).
  set (e := Z.log2 (m * 2 ^ k) - 52). assert (He : 1 <= e <= k) by (unfold e; lia).
  assert (Sp : 2 ^ k = 2 ^ (k - e) * 2 ^ e) by (rewrite <- Z.pow_add_r by lia; f_equal; lia).
  assert (Pe : 0 < 2 ^ e) by (apply Z.pow_pos_nonneg; lia).
  assert (X : m * 2 ^ k = (m * 2 ^ (k - e)) * 2 ^ e) by (rewrite Sp; ring).
  assert (Hmod : (m * 2 ^ k) mod 2 ^ e = 0) by (rewrite X; apply Z.mod_mul; lia).
  assert (Hdiv : (m * 2 ^ k) / 2 ^ e = m * 2 ^ (k - e)) by (rewrite X; apply Z.div_mul; lia).
  cbv zeta. rewrite Hmod, Hdiv.
  assert (Hh : 0 < 2 ^ (e - 1)) by (apply Z.pow_pos_nonneg; lia).
  assert (Hl : (0 <? 2 ^ (e - 1)) = true) by (apply Z.ltb_lt; lia). rewrite Hl. lia.
Qed.

(* THE statement: for base and cap below 2^53 (every shipped kind: cap <= 10 000) and every attempt count n >= 0 —
   including the range where base*2^n exceeds 2^53 (still a double), 2^1024 (the product overflows to +Inf) and
   n >= 1024 (math.Pow itself returns +Inf) — the float expression equals the model's integer expo *)
Lemma go_expo_exact base cap n : 1 <= base < 2 ^ 53 -> 0 <= cap < 2 ^ 53 -> 0 <= n ->
  go_expo base cap n = expo base cap n.
Proof.
  intros Hb Hc Hn. unfold go_expo, expo, f64_pow2, f64_fin.
  rewrite (f64_round_small base), (f64_round_small cap) by lia.
  assert (C1024 : 2 ^ 53 < 2 ^ 1024) by (apply Z.pow_lt_mono_r; lia).
  destruct (n <? 1024) eqn:En.
  - rewrite f64_round_exact by lia. destruct (base * 2 ^ n <? 2 ^ 1024) eqn:Ef; auto.
    apply Z.ltb_ge in Ef. lia.
  - apply Z.ltb_ge in En. assert (2 ^ 1024 <= 2 ^ n) by (apply Z.pow_le_mono_r; lia). nia.
Qed.

(* outside that range the expression is NOT the integer minimum: float64(2^53+1) = 2^53 *)
Lemma go_expo_inexact_beyond : go_expo 2 (2 ^ 53 + 1) 60 <> expo 2 (2 ^ 53 + 1) 60.
Proof. vm_compute. discriminate. Qed.
