(* Backoff/ProofsInv.v — shape of one step, world invariants over arbitrary op sequences *)
From Coq Require Import ZArith List Bool Lia.
From Verif Require Import Backoff.Model Backoff.ProofsBase Backoff.ProofsStep.
Import ListNotations.
Open Scope Z_scope.

(* every step changes the heap of back-offers in one of six ways *)
Inductive shape (e : env) (w : world) (o : op) : list bo -> Prop :=
| Sh_same : shape e w o (w_bos w)
| Sh_new ctx noop v m : shape e w o (w_bos w ++ [empty_bo ctx noop v m])
| Sh_copy i b ctx p : nth_error (w_bos w) i = Some b -> (p = b_parent b \/ p = Some i) ->
    shape e w o (w_bos w ++ [copy_bo b ctx p])
| Sh_slept i b c f s maxms errid : o = OBackoff i c maxms errid s -> nth_error (w_bos w) i = Some b ->
    pick_fn e w b c = Some f -> sleep_ok f s = true -> (0 <? b_max b) && exceeded e b (c_name c) = false ->
    shape e w o (upd i (slept_bo e b c f s maxms errid) (w_bos w))
| Sh_reset i b m : nth_error (w_bos w) i = Some b -> (m = b_max b \/ ~ not_resetmax o) ->
    shape e w o (upd i (reset_bo b m) (w_bos w))
| Sh_ctx i b c k : nth_error (w_bos w) i = Some b -> shape e w o (upd i (with_ctx b c k) (w_bos w))
| Sh_merge i j b f : o = OMerge i j -> nth_error (w_bos w) i = Some b -> nth_error (w_bos w) j = Some f ->
    on_chain (length (w_bos w)) (w_bos w) (b_parent f) i = true ->
    shape e w o (upd j (kill_bo f) (upd i (merged b f) (w_bos w))).

Ltac dm := repeat match goal with
  | |- context [match ?x with _ => _ end] => destruct x eqn:?
  end.

Lemma step_shape e w o : shape e w o (w_bos (fst (step e w o))).
Proof.
  destruct o; simpl.
  - apply Sh_same.
  - dm; simpl; try apply Sh_same; apply Sh_new.
  - destruct (do_backoff e w i c maxms errid sleep) as [w' r] eqn:E.
    apply do_backoff_cases in E as [[-> _]|(b & f & Hn & _ & _ & _ & Hx & Hf & Hs & -> & _)]; simpl.
    + apply Sh_same.
    + eapply Sh_slept; eauto.
  - dm; simpl; try apply Sh_same. eapply Sh_copy; eauto.
  - dm; simpl; try apply Sh_same. eapply Sh_copy; eauto.
  - dm; simpl; try apply Sh_same. eapply Sh_merge; eauto.
  - dm; simpl; try apply Sh_same. eapply Sh_reset; eauto.
  - dm; simpl; try apply Sh_same; eapply Sh_reset; eauto; right; simpl; tauto.
  - dm; simpl; apply Sh_same.
  - dm; simpl; apply Sh_same.
  - apply Sh_same.
  - dm; simpl; try apply Sh_same. eapply Sh_ctx; eauto.
  - dm; simpl; try apply Sh_same. eapply Sh_ctx; eauto.
Qed.

Definition bos_acct C L (w : world) := Forall (acct_inv C L) (w_bos w).
Definition bos_keys (w : world) := Forall keys_inv (w_bos w).

Lemma nth_lt {A} (l : list A) i x : nth_error l i = Some x -> (i < length l)%nat.
Proof. intros. apply nth_error_Some. congruence. Qed.

Lemma step_tree_ord e w o : tree_ord (w_bos w) -> tree_ord (w_bos (fst (step e w o))).
Proof.
  intros T. destruct (step_shape e w o); auto.
  - apply tree_ord_app; auto. simpl. discriminate.
  - apply tree_ord_app; auto. simpl. intros q Hq. apply nth_lt in H as L. destruct H0; subst.
    + pose proof (T _ _ _ H Hq). lia.
    + inversion Hq; subst; auto.
  - eapply tree_ord_upd; eauto.
  - eapply tree_ord_upd; eauto.
  - eapply tree_ord_upd; eauto.
  - pose proof (on_chain_lt _ T _ _ _ _ H1 H2) as Lt.
    eapply tree_ord_upd with (b := f); auto.
    + eapply tree_ord_upd; eauto.
    + rewrite nth_upd_other by lia. auto.
Qed.

Lemma step_tree_max e w o : not_resetmax o -> tree_ord (w_bos w) -> tree_max (w_bos w) -> tree_max (w_bos (fst (step e w o))).
Proof.
  intros NR TO T. destruct (step_shape e w o); auto.
  - apply tree_max_app; auto. simpl. discriminate.
  - apply tree_max_app; auto. simpl. intros q Hq. destruct H0; subst.
    + apply (T _ _ _ H Hq).
    + inversion Hq; subst. eauto.
  - eapply tree_max_upd; eauto.
  - destruct H0 as [->|N]; [|tauto]. eapply tree_max_upd; eauto.
  - eapply tree_max_upd; eauto.
  - pose proof (on_chain_lt _ TO _ _ _ _ H1 H2) as Lt.
    eapply tree_max_upd with (b := f); auto.
    + eapply tree_max_upd; eauto.
    + rewrite nth_upd_other by lia. auto.
Qed.

Lemma step_acct C L e w o : 0 <= C -> env_bound e L -> op_wf C o ->
  (not_merge o \/ tree_max (w_bos w)) -> bos_acct C L w -> bos_acct C L (fst (step e w o)).
Proof.
  intros HC HL WF M A. unfold bos_acct in *. destruct (step_shape e w o); auto.
  - apply Forall_app. split; auto. constructor; auto. apply empty_acct; auto.
  - apply Forall_app. split; auto. constructor; auto. apply copy_acct. eapply Forall_nth; eauto.
  - subst o. simpl in WF. pose proof (Forall_nth _ _ _ _ A H0) as Ab.
    apply Forall_upd; auto. eapply slept_acct; eauto. eapply pick_fn_wf; eauto.
  - apply Forall_upd; auto. apply reset_acct; auto. eapply Forall_nth; eauto.
  - apply Forall_upd; auto. exact (Forall_nth _ _ _ _ A H).
  - subst o. destruct M as [M|T]; [simpl in M; tauto|].
    destruct (on_chain_max _ T _ _ _ _ H1 H2) as (bi & Hi & Em). assert (bi = b) by congruence. subst bi.
    apply Forall_upd; [apply Forall_upd; auto|].
    + apply merged_acct; auto; eapply Forall_nth; eauto.
    + apply kill_acct. eapply Forall_nth; eauto.
Qed.

Lemma step_keys e w o : bos_keys w -> bos_keys (fst (step e w o)).
Proof.
  intros K. unfold bos_keys in *. destruct (step_shape e w o); auto.
  - apply Forall_app. split; auto. constructor; auto. intros n0 v0 [].
  - apply Forall_app. split; auto. constructor; auto. exact (Forall_nth _ _ _ _ K H).
  - apply Forall_upd; auto. apply slept_keys. eapply Forall_nth; eauto.
  - apply Forall_upd; auto. exact (Forall_nth _ _ _ _ K H).
  - apply Forall_upd; auto. exact (Forall_nth _ _ _ _ K H).
  - apply Forall_upd; [apply Forall_upd; auto|]; exact (Forall_nth _ _ _ _ K H1).
Qed.

(* ---------- reachability ---------- *)
Lemma run_app e w ops o : run e w (ops ++ [o]) = fst (step e (run e w ops) o).
Proof. unfold run. rewrite fold_left_app. reflexivity. Qed.

Lemma run_ind (P : world -> Prop) (Q : op -> Prop) e w ops :
  P w -> (forall w o, P w -> Q o -> P (fst (step e w o))) -> Forall Q ops -> P (run e w ops).
Proof.
  intros H0 Hs. revert w H0. induction ops; intros w H0 F; simpl; auto.
  inversion F; subst. apply IHops; auto.
Qed.

Lemma reach_tree_ord e ops : tree_ord (w_bos (run e init_world ops)).
Proof.
  apply (run_ind (fun w => tree_ord (w_bos w)) (fun _ => True)).
  - intros j b p H. destruct j; discriminate.
  - intros. apply step_tree_ord; auto.
  - apply Forall_forall; auto.
Qed.

Lemma reach_keys e ops : bos_keys (run e init_world ops).
Proof.
  apply (run_ind bos_keys (fun _ => True)).
  - constructor.
  - intros. apply step_keys; auto.
  - apply Forall_forall; auto.
Qed.

Lemma reach_acct_nomerge C L e ops : 0 <= C -> env_bound e L ->
  Forall (fun o => op_wf C o /\ not_merge o) ops -> bos_acct C L (run e init_world ops).
Proof.
  intros HC HL. apply run_ind.
  - constructor.
  - intros w o A [W N]. apply step_acct; auto.
Qed.

Lemma reach_acct_noresetmax C L e ops : 0 <= C -> env_bound e L ->
  Forall (fun o => op_wf C o /\ not_resetmax o) ops -> bos_acct C L (run e init_world ops).
Proof.
  intros HC HL F.
  assert (H : (fun w => bos_acct C L w /\ tree_ord (w_bos w) /\ tree_max (w_bos w)) (run e init_world ops)).
  { eapply run_ind; [| |exact F].
    - split; [constructor|]. split; intros j b p H; destruct j; discriminate.
    - intros w o (A & TO & TM) [W N]. split; [|split].
      + apply step_acct; auto.
      + apply step_tree_ord; auto.
      + apply step_tree_max; auto. }
  apply H.
Qed.

Lemma reach_acct C L e ops : 0 <= C -> env_bound e L -> Forall (op_wf C) ops ->
  Forall not_merge ops \/ Forall not_resetmax ops -> bos_acct C L (run e init_world ops).
Proof.
  intros HC HL W [N|N].
  - apply reach_acct_nomerge; auto. rewrite Forall_forall in *. auto.
  - apply reach_acct_noresetmax; auto. rewrite Forall_forall in *. auto.
Qed.

(* C20_budget *)
Lemma budget_thm C L e ops i b : 0 <= C -> env_bound e L -> Forall (op_wf C) ops ->
  Forall not_merge ops \/ Forall not_resetmax ops ->
  nth_error (w_bos (run e init_world ops)) i = Some b -> 0 < b_max b ->
  b_total b - b_excl b < b_max b + C /\ b_excl b < Z.max L (b_max b) + C /\ 0 <= b_excl b <= b_total b.
Proof.
  intros HC HL W N Hn P. pose proof (reach_acct C L e ops HC HL W N) as A.
  destruct (Forall_nth _ _ _ _ A Hn) as (A1 & A2 & A3 & _). auto.
Qed.

(* C20_step_bounds *)
Lemma step_bounds_thm C L e ops i c maxms errid s w' r real :
  0 <= C -> env_bound e L -> Forall (op_wf C) ops -> Forall not_merge ops \/ Forall not_resetmax ops -> 0 <= c_cap c <= C ->
  step e (run e init_world ops) (OBackoff i c maxms errid s) = (w', r) ->
  (r = ROk real \/ exists sig, r = RKilled real sig) ->
  exists b f, nth_error (w_bos (run e init_world ops)) i = Some b /\ pick_fn e (run e init_world ops) b c = Some f /\
    sleep_ok f s = true /\ real = cut s maxms /\
    0 <= real <= s /\ s <= f_cap f /\ f_cap f <= C /\ (0 <= maxms -> real <= maxms) /\
    (1 <= f_jit f <= 3 -> s <= expo (f_base f) (f_cap f) (f_att f)) /\
    (0 < b_max b -> b_total b - b_excl b < b_max b).
Proof.
  intros HC HL W N Hc E R. simpl in E.
  apply do_backoff_cases in E as [[_ [->|[->|(b & _ & _ & ->)]]]|(b & f & Hn & _ & _ & _ & Hx & Hf & Hs & _ & ->)].
  1-3: destruct R as [R|[sg R]]; discriminate.
  pose proof (reach_acct C L e ops HC HL W N) as A. pose proof (Forall_nth _ _ _ _ A Hn) as Ab.
  pose proof (pick_fn_wf _ _ _ _ _ _ _ Ab Hc Hf) as Wf. pose proof (sleep_ok_range _ _ _ Wf Hs) as Rg.
  destruct (cut_range s maxms ltac:(lia)) as [Hcut Hm]. destruct Wf as [Wc Wb].
  assert (real = cut s maxms).
  { unfold kill_res in R. destruct (kill_eff _ b =? 0); destruct R as [R|[sg R]]; congruence. }
  exists b, f. repeat split; auto; try lia.
  - intros J. destruct (sleep_ok_expo _ _ Hs J); auto. pose proof (expo_range (f_base f) (f_cap f) (f_att f)). lia.
  - intros P. apply Z.ltb_lt in P. rewrite P in Hx. simpl in Hx. unfold exceeded in Hx.
    apply orb_false_iff in Hx as [X _]. rewrite Z.geb_leb in X. apply Z.leb_gt in X. lia.
Qed.
