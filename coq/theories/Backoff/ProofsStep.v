(* Backoff/ProofsStep.v — case analysis of one back-off, preservation of the per-back-offer invariants *)
From Coq Require Import ZArith List Bool Lia.
From Verif Require Import Backoff.Model Backoff.ProofsBase.
Import ListNotations.
Open Scope Z_scope.

Definition kill_res (w : world) (b : bo) (real : Z) : res :=
  if kill_eff w b =? 0 then ROk real else RKilled real (kill_eff w b).

(* a back-off either leaves the world alone (error / bad) or performs exactly one accounted sleep *)
Lemma do_backoff_cases e w i c maxms errid s w' r :
  do_backoff e w i c maxms errid s = (w', r) ->
  (w' = w /\ (r = RBad \/ r = RErrOrig \/
              exists b, nth_error (w_bos w) i = Some b /\ (0 <? b_max b) && exceeded e b (c_name c) = true
                        /\ r = RExceeded (longest_cands e w b))) \/
  (exists b f, nth_error (w_bos w) i = Some b /\ b_live b = true /\ cancelled w (b_ctx b) = false /\
               b_noop b = false /\ (0 <? b_max b) && exceeded e b (c_name c) = false /\
               pick_fn e w b c = Some f /\ sleep_ok f s = true /\
               w' = set_bo w i (slept_bo e b c f s maxms errid) /\ r = kill_res w b (cut s maxms)).
Proof.
  unfold do_backoff. destruct (nth_error (w_bos w) i) as [b|] eqn:Hn.
  2:{ intros H; inversion H; auto. }
  destruct (b_live b) eqn:Hl; simpl. 2:{ intros H; inversion H; auto. }
  destruct (cancelled w (b_ctx b)) eqn:Hc. { intros H; inversion H; auto. }
  destruct (b_noop b) eqn:Hno. { intros H; inversion H; auto. }
  destruct ((0 <? b_max b) && exceeded e b (c_name c)) eqn:Hx.
  { intros H; inversion H. left. split; auto. right. right. exists b. auto. }
  destruct (pick_fn e w b c) as [f|] eqn:Hf. 2:{ intros H; inversion H; auto. }
  destruct (sleep_ok f s) eqn:Hs; simpl. 2:{ intros H; inversion H; auto. }
  intros H; inversion H. right. exists b, f. repeat split; auto.
Qed.

Lemma pick_fn_wf C L e w b c f : acct_inv C L b -> 0 <= c_cap c <= C -> pick_fn e w b c = Some f -> fn_wf C f.
Proof.
  intros (_ & _ & _ & Hf) Hc. unfold pick_fn.
  destruct (aget (c_name c) (b_fn b)) as [f0|] eqn:E.
  - intros X; inversion X; subst. apply (aget_Forall _ _ _ _ Hf E).
  - destruct (fn_base e w b c); [|discriminate]. intros X; inversion X. apply new_fn_wf; auto.
Qed.

Lemma is_excl_limit e n : is_excl e n = true -> exists lim, excl_limit e n = Some lim.
Proof. unfold is_excl. destruct (excl_limit e n); eauto; discriminate. Qed.

Lemma slept_acct C L e b c f s maxms errid :
  0 <= C -> env_bound e L -> acct_inv C L b -> fn_wf C f -> sleep_ok f s = true ->
  (0 <? b_max b) && exceeded e b (c_name c) = false ->
  acct_inv C L (slept_bo e b c f s maxms errid).
Proof.
  intros HC HL (H1 & H2 & H3 & H4) Hf Hs Hx.
  pose proof (sleep_ok_range C f s Hf Hs) as Hr. destruct Hf as [Hcap Hbase].
  destruct (cut_range s maxms ltac:(lia)) as [Hcut _]. set (real := cut s maxms) in *.
  assert (Hx' : 0 < b_max b -> exceeded e b (c_name c) = false).
  { intros P. apply Z.ltb_lt in P. rewrite P in Hx. exact Hx. }
  unfold acct_inv, slept_bo; simpl. fold real.
  unfold exceeded in Hx'.
  destruct (is_excl e (c_name c)) eqn:Ex.
  - destruct (is_excl_limit _ _ Ex) as [lim El]. rewrite El in Hx'. pose proof (HL _ _ El).
    refine (conj _ (conj _ (conj _ _))).
    + lia.
    + intros P. specialize (Hx' P). apply orb_false_iff in Hx' as [A _]. rewrite Z.geb_leb in A. apply Z.leb_gt in A. lia.
    + intros P. specialize (Hx' P). apply orb_false_iff in Hx' as [_ A].
      apply andb_false_iff in A as [A|A]; rewrite Z.geb_leb in A; apply Z.leb_gt in A; lia.
    + apply Forall_aset; auto. simpl. split; simpl; lia.
  - refine (conj _ (conj _ (conj _ _))).
    + lia.
    + intros P. specialize (Hx' P). apply orb_false_iff in Hx' as [A _]. rewrite Z.geb_leb in A. apply Z.leb_gt in A. lia.
    + intros P. specialize (H3 P). lia.
    + apply Forall_aset; auto. simpl. split; simpl; lia.
Qed.

Lemma slept_keys e b c f s maxms errid : keys_inv b -> keys_inv (slept_bo e b c f s maxms errid).
Proof.
  intros H n v. unfold slept_bo; simpl. unfold zadd. intros I. apply in_aset in I as [[-> _]|I].
  - exists c. split; auto. apply in_or_app; right; simpl; auto.
  - destruct (H _ _ I) as (c0 & I0 & E0). exists c0. split; auto. apply in_or_app; auto.
Qed.

Lemma reset_acct C L b m : 0 <= C -> acct_inv C L b -> acct_inv C L (reset_bo b m).
Proof. intros HC _. unfold acct_inv, reset_bo; simpl. repeat split; try lia. constructor. Qed.

Lemma copy_acct C L b ctx p : acct_inv C L b -> acct_inv C L (copy_bo b ctx p).
Proof. intros (H1 & H2 & H3 & _). unfold acct_inv, copy_bo; simpl. repeat split; auto; try lia. Qed.

Lemma merged_acct C L b f : acct_inv C L b -> acct_inv C L f -> b_max b = b_max f -> acct_inv C L (merged b f).
Proof. intros (_ & _ & _ & B4) (F1 & F2 & F3 & _) E. unfold acct_inv, merged; simpl. rewrite E. repeat split; auto; lia. Qed.

Lemma kill_acct C L f : acct_inv C L f -> acct_inv C L (kill_bo f).
Proof. intros H. exact H. Qed.

Lemma empty_acct C L ctx noop v m : 0 <= C -> acct_inv C L (empty_bo ctx noop v m).
Proof. intros. unfold acct_inv, empty_bo; simpl. repeat split; try lia. constructor. Qed.

(* ---------- the world-level invariants ---------- *)
Definition op_wf (C : Z) (o : op) : Prop :=
  match o with OBackoff _ c _ _ _ => 0 <= c_cap c <= C | _ => True end.
Definition not_resetmax (o : op) : Prop := match o with OResetMax _ _ => False | _ => True end.
Definition not_merge (o : op) : Prop := match o with OMerge _ _ => False | _ => True end.

(* parents are older than their children *)
Definition tree_ord (bs : list bo) : Prop :=
  forall j b p, nth_error bs j = Some b -> b_parent b = Some p -> (p < j)%nat.
(* a fork tree shares one budget (as long as ResetMaxSleep is not used) *)
Definition tree_max (bs : list bo) : Prop :=
  forall j b p, nth_error bs j = Some b -> b_parent b = Some p ->
                exists bp, nth_error bs p = Some bp /\ b_max bp = b_max b.

Lemma on_chain_lt bs : tree_ord bs -> forall fuel q i bq,
  nth_error bs q = Some bq -> on_chain fuel bs (b_parent bq) i = true -> (i < q)%nat.
Proof.
  intros T. induction fuel; intros q i bq Hq; simpl; [discriminate|].
  destruct (b_parent bq) as [p|] eqn:Ep; [|discriminate].
  pose proof (T _ _ _ Hq Ep). destruct (Nat.eqb p i) eqn:E.
  - apply Nat.eqb_eq in E. lia.
  - destruct (nth_error bs p) as [bp|] eqn:Hp; [|discriminate]. intros H'. specialize (IHfuel _ _ _ Hp H'). lia.
Qed.

Lemma on_chain_max bs : tree_max bs -> forall fuel q i bq,
  nth_error bs q = Some bq -> on_chain fuel bs (b_parent bq) i = true ->
  exists bi, nth_error bs i = Some bi /\ b_max bi = b_max bq.
Proof.
  intros T. induction fuel; intros q i bq Hq; simpl; [discriminate|].
  destruct (b_parent bq) as [p|] eqn:Ep; [|discriminate].
  destruct (T _ _ _ Hq Ep) as (bp & Hp & Em). destruct (Nat.eqb p i) eqn:E.
  - apply Nat.eqb_eq in E; subst. eauto.
  - rewrite Hp. intros H'. destruct (IHfuel _ _ _ Hp H') as (bi & Hi & Ei). exists bi. split; auto. congruence.
Qed.

(* updating a slot without touching parent (and max) keeps the tree invariants *)
Lemma tree_ord_upd bs i b b' : tree_ord bs -> nth_error bs i = Some b -> b_parent b' = b_parent b -> tree_ord (upd i b' bs).
Proof.
  intros T Hi Ep j x p Hj Hp. apply nth_upd in Hj as [[-> ->]|[N Hj]].
  - rewrite Ep in Hp. eapply T; eauto.
  - eapply T; eauto.
Qed.

Lemma tree_max_upd bs i b b' : tree_max bs -> nth_error bs i = Some b -> b_parent b' = b_parent b -> b_max b' = b_max b ->
  tree_max (upd i b' bs).
Proof.
  intros T Hi Ep Em j x p Hj Hp.
  assert (Hlen : (i < length bs)%nat) by (apply nth_error_Some; congruence).
  assert (K : forall q bq, nth_error bs q = Some bq -> exists bq', nth_error (upd i b' bs) q = Some bq' /\ b_max bq' = b_max bq).
  { intros q bq Hq. destruct (Nat.eq_dec i q) as [->|N].
    - rewrite nth_upd_same by auto. exists b'. split; auto. congruence.
    - rewrite nth_upd_other by auto. eauto. }
  apply nth_upd in Hj as [[-> ->]|[N Hj]].
  - rewrite Ep in Hp. destruct (T _ _ _ Hi Hp) as (bp & Hbp & E). destruct (K _ _ Hbp) as (bq' & ? & ?). exists bq'. split; auto. congruence.
  - destruct (T _ _ _ Hj Hp) as (bp & Hbp & E). destruct (K _ _ Hbp) as (bq' & ? & ?). exists bq'. split; auto. congruence.
Qed.

Lemma tree_ord_app bs nb : tree_ord bs -> (forall p, b_parent nb = Some p -> (p < length bs)%nat) -> tree_ord (bs ++ [nb]).
Proof.
  intros T H j x p Hj Hp. apply nth_app_inv in Hj as [[L Hj]|[-> ->]]; [eapply T; eauto|auto].
Qed.

Lemma tree_max_app bs nb : tree_max bs ->
  (forall p, b_parent nb = Some p -> exists bp, nth_error bs p = Some bp /\ b_max bp = b_max nb) -> tree_max (bs ++ [nb]).
Proof.
  intros T H j x p Hj Hp. apply nth_app_inv in Hj as [[L Hj]|[-> ->]].
  - destruct (T _ _ _ Hj Hp) as (bp & ? & ?). exists bp. split; auto. apply nth_app_l; auto.
  - destruct (H _ Hp) as (bp & ? & ?). exists bp. split; auto. apply nth_app_l; auto.
Qed.
