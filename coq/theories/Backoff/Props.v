(* Backoff/Props.v — property C20: the theorems, nothing else.
   Each is closed by [exact <lemma>] and followed by Print Assumptions.  [run e init_world ops] is the
   world reached by an ARBITRARY op sequence (new / backoff with any observed sleep / clone / fork /
   update-using-forked / reset / reset-max-sleep / cancel / kill), see Model.v. *)
From Coq Require Import ZArith List Bool.
From Verif Require Import Backoff.Model Backoff.ProofsBase Backoff.ProofsStep Backoff.ProofsInv Backoff.ProofsAcct Backoff.ProofsExt Backoff.ProofsCtx Backoff.ProofsWorker Backoff.ProofsTree Backoff.ProofsDomain Backoff.ProofsCount Backoff.ProofsFloat Backoff.Examples.
Import ListNotations.
Open Scope Z_scope.

(* Budget: C bounds the caps of all kinds used, L the limits of the excluded kinds.  On every back-offer
   with a positive budget the non-excluded sleep stays below budget + one step, the excluded sleep below
   max(limit, budget) + one step.  ResetMaxSleep and UpdateUsingForked may not both occur (a fork whose
   budget was changed imports its sleeps into a parent with another budget, see [budget_hypothesis_needed]). *)
Theorem C20_budget : forall C L e ops i b,
  0 <= C -> env_bound e L -> Forall (op_wf C) ops ->
  Forall not_merge ops \/ Forall not_resetmax ops ->
  nth_error (w_bos (run e init_world ops)) i = Some b -> 0 < b_max b ->
  b_total b - b_excl b < b_max b + C /\ b_excl b < Z.max L (b_max b) + C /\ 0 <= b_excl b <= b_total b.
Proof. exact budget_thm. Qed.
Print Assumptions C20_budget.

(* Each sleep: admissible for the closure state of its kind, cut by the per-call maximum, within the cap,
   within the exponential envelope base*2^attempts, and only taken while the budget is not exhausted. *)
Theorem C20_step_bounds : forall C L e ops i c maxms errid s w' r real,
  0 <= C -> env_bound e L -> Forall (op_wf C) ops -> Forall not_merge ops \/ Forall not_resetmax ops -> 0 <= c_cap c <= C ->
  step e (run e init_world ops) (OBackoff i c maxms errid s) = (w', r) ->
  (r = ROk real \/ exists sig, r = RKilled real sig) ->
  exists b f, nth_error (w_bos (run e init_world ops)) i = Some b /\ pick_fn e (run e init_world ops) b c = Some f /\
    sleep_ok f s = true /\ real = cut s maxms /\
    0 <= real <= s /\ s <= f_cap f /\ f_cap f <= C /\ (0 <= maxms -> real <= maxms) /\
    (1 <= f_jit f <= 3 -> s <= expo (f_base f) (f_cap f) (f_att f)) /\
    (0 < b_max b -> b_total b - b_excl b < b_max b).
Proof. exact step_bounds_thm. Qed.
Print Assumptions C20_step_bounds.

(* Budget exhausted: nothing changes, and every error the code may return is the error of the first
   recorded config of a non-excluded kind with the largest accumulated sleep (any op sequence, merges included). *)
Theorem C20_longest : forall e ops i c maxms errid s w' cands,
  step e (run e init_world ops) (OBackoff i c maxms errid s) = (w', RExceeded cands) ->
  w' = run e init_world ops /\
  exists b, nth_error (w_bos (run e init_world ops)) i = Some b /\ 0 < b_max b /\ exceeded e b (c_name c) = true /\
    cands <> [] /\
    (0 < longest_val e (b_sleep b) ->
       forall r, In r cands -> exists n cf, r = Some (cur_err (run e init_world ops) cf) /\ first_cfg n (b_cfgs b) = Some cf /\ c_name cf = n /\ is_longest e b n) /\
    (longest_val e (b_sleep b) <= 0 -> cands = [cand_err (run e init_world ops) b 0]).
Proof. exact longest_thm. Qed.
Print Assumptions C20_longest.

(* Cancellation: a back-off on a back-offer whose context (or an ancestor context) is cancelled returns the
   caller's error and changes nothing; cancellation is permanent over all later ops; OCancel cancels. *)
Theorem C20_cancel_kill_cancelled : forall e w i c maxms errid s b,
  nth_error (w_bos w) i = Some b -> b_live b = true -> cancelled w (b_ctx b) = true ->
  step e w (OBackoff i c maxms errid s) = (w, RErrOrig).
Proof. exact cancelled_backoff. Qed.
Print Assumptions C20_cancel_kill_cancelled.

Theorem C20_cancel_kill_permanent : forall e ops w c, cancelled w c = true -> cancelled (run e w ops) c = true.
Proof. exact cancelled_run. Qed.
Print Assumptions C20_cancel_kill_permanent.

Theorem C20_cancel_kill_frozen : forall e w ops, Forall (backoff_on_cancelled w) ops -> run e w ops = w.
Proof. exact cancelled_backoffs. Qed.
Print Assumptions C20_cancel_kill_frozen.

(* Kill: the code checks the flag AFTER the sleep of the current call, and only if the back-offer was not marked
   KeepGoingWhenKilled (release requests: commit, rollback, clean-up).  Flag off: the caller never gets nil, and at most
   that one admissible sleep is accounted.  Flag on: the kill flag never ends a back-off (it keeps backing off until the
   budget is exhausted or the context is cancelled). *)
Theorem C20_cancel_kill_killed : forall e w i c maxms errid s b w' r,
  nth_error (w_bos w) i = Some b ->
  step e w (OBackoff i c maxms errid s) = (w', r) ->
  (b_keep b = false -> killed_sig w b <> 0 ->
     (forall real, r <> ROk real) /\
     (w' = w \/ exists f, r = RKilled (cut s maxms) (killed_sig w b) /\ sleep_ok f s = true /\
                          w' = set_bo w i (slept_bo e b c f s maxms errid))) /\
  (b_keep b = true -> forall real sg, r <> RKilled real sg).
Proof. exact killed_backoff. Qed.
Print Assumptions C20_cancel_kill_killed.

(* the keep-going flag: set by KeepGoingWhenKilled (nothing else changes), copied by Fork and Clone, left alone by
   UpdateUsingForked and by back-offs *)
Theorem C20_keepgoing_flag : forall e w i b, nth_error (w_bos w) i = Some b -> b_live b = true ->
  (exists b', nth_error (w_bos (fst (step e w (OKeepGoing i)))) i = Some b' /\ b_keep b' = true /\
              b_total b' = b_total b /\ b_max b' = b_max b /\ b_ctx b' = b_ctx b) /\
  (exists nb, nth_error (w_bos (fst (step e w (OFork i)))) (length (w_bos w)) = Some nb /\ b_keep nb = b_keep b) /\
  (exists nb, nth_error (w_bos (fst (step e w (OClone i)))) (length (w_bos w)) = Some nb /\ b_keep nb = b_keep b) /\
  (forall j f, nth_error (w_bos w) j = Some f -> i <> j ->
     exists b', nth_error (w_bos (fst (step e w (OMerge i j)))) i = Some b' /\ b_keep b' = b_keep b) /\
  (forall c maxms errid s b', nth_error (w_bos (fst (step e w (OBackoff i c maxms errid s)))) i = Some b' -> b_keep b' = b_keep b).
Proof. exact keep_flag. Qed.
Print Assumptions C20_keepgoing_flag.

Theorem C20_fork_clone_start : forall e w i b, nth_error (w_bos w) i = Some b -> b_live b = true ->
  (exists w' nb, step e w (OFork i) = (w', RNone) /\
    nth_error (w_bos w') (length (w_bos w)) = Some nb /\ length (w_bos w') = S (length (w_bos w)) /\
    counters nb = counters b /\ b_max nb = b_max b /\ b_vars nb = b_vars b /\ b_parent nb = Some i /\ b_fn nb = [] /\
    b_live nb = true /\ b_noop nb = false /\
    nth_error (w_ctxs w') (b_ctx nb) = Some (Some (b_ctx b), false) /\
    (forall k x, nth_error (w_bos w) k = Some x -> nth_error (w_bos w') k = Some x)) /\
  (exists w' nb, step e w (OClone i) = (w', RNone) /\
    nth_error (w_bos w') (length (w_bos w)) = Some nb /\ length (w_bos w') = S (length (w_bos w)) /\
    counters nb = counters b /\ b_max nb = b_max b /\ b_vars nb = b_vars b /\ b_parent nb = b_parent b /\ b_fn nb = [] /\
    b_live nb = true /\ b_noop nb = false /\ b_ctx nb = b_ctx b /\ w_ctxs w' = w_ctxs w /\
    (forall k x, nth_error (w_bos w) k = Some x -> nth_error (w_bos w') k = Some x)).
Proof. exact fork_clone_start. Qed.
Print Assumptions C20_fork_clone_start.

(* UpdateUsingForked in any reachable world, along a parent chain of any length: the ancestor's counters
   (total, excluded, errors, configs, per-kind sleep and times) become exactly the fork's, its budget, closures,
   parent and context stay, nobody else changes; off the chain nothing happens. *)
Theorem C20_merge_exact : forall e ops i j b f,
  let w := run e init_world ops in
  nth_error (w_bos w) i = Some b -> nth_error (w_bos w) j = Some f -> b_live b = true -> b_live f = true ->
  if on_chain (length (w_bos w)) (w_bos w) (b_parent f) i
  then exists w' b', step e w (OMerge i j) = (w', RNone) /\ nth_error (w_bos w') i = Some b' /\
         counters b' = counters f /\ b_max b' = b_max b /\ b_fn b' = b_fn b /\ b_parent b' = b_parent b /\ b_ctx b' = b_ctx b /\
         nth_error (w_bos w') j = Some (kill_bo f) /\
         (forall k, k <> i -> k <> j -> nth_error (w_bos w') k = nth_error (w_bos w) k)
  else step e w (OMerge i j) = (w, RNone).
Proof. exact merge_exact. Qed.
Print Assumptions C20_merge_exact.

(* fork, any number of back-offs in the fork, merge: the parent ends with exactly its counters at the fork
   plus the logged sleeps of the fork — nothing lost, nothing counted twice. *)
Theorem C20_merge_sum : forall e w i b bops,
  nth_error (w_bos w) i = Some b -> b_live b = true ->
  let j := length (w_bos w) in
  Forall (is_backoff_on j) bops ->
  let w1 := fst (step e w (OFork i)) in
  let w2 := fst (run_log e w1 bops) in
  let lg := snd (run_log e w1 bops) in
  let w3 := fst (step e w2 (OMerge i j)) in
  exists b3, nth_error (w_bos w3) i = Some b3 /\
    b_total b3 = b_total b + sum_all lg /\
    b_excl b3 = b_excl b + sum_if (is_excl e) lg /\
    (forall n, zget n (b_sleep b3) = zget n (b_sleep b) + sum_if (Z.eqb n) lg /\
               zget n (b_times b3) = zget n (b_times b) + cnt_if (Z.eqb n) lg) /\
    b_max b3 = b_max b.
Proof. exact fork_merge_sum. Qed.
Print Assumptions C20_merge_sum.

(* ---------- extension round ---------- *)
(* Budget for ALL op sequences (ResetMaxSleep and merges freely mixed).  [b_hi] is a ghost field of the model:
   the largest budget under which the back-offer's current total was accumulated (own budget after New / Reset /
   ResetMaxSleep; copied by Fork / Clone; max(own budget, fork's ghost) after UpdateUsingForked; None as soon as
   an unlimited budget (<= 0) took part). *)
Theorem C20_budget_general : forall C L e ops i b h,
  0 <= C -> env_bound e L -> Forall (op_wf C) ops ->
  nth_error (w_bos (run e init_world ops)) i = Some b -> b_hi b = Some h ->
  b_max b <= h /\ b_total b - b_excl b < h + C /\ b_excl b < Z.max L h + C /\ 0 <= b_excl b <= b_total b.
Proof. exact budget_general. Qed.
Print Assumptions C20_budget_general.

(* the ghost is the back-offer's own budget whenever ResetMaxSleep and merges are not mixed (=> C20_budget) *)
Theorem C20_budget_ghost_own : forall e ops, Forall not_merge ops \/ Forall not_resetmax ops ->
  Forall (fun b => b_hi b = budget_hi (b_max b)) (w_bos (run e init_world ops)).
Proof. exact reach_hi_own. Qed.
Print Assumptions C20_budget_ghost_own.

(* ghost-free corollary: if every back-offer's budget stays within (0, B] during the whole run (any mixture of
   ResetMaxSleep, forks and merges), every back-offer stays below B + one step *)
Theorem C20_budget_bounded : forall C L B e ops i b,
  0 <= C -> env_bound e L -> Forall (op_wf C) ops -> always (budgets_in B) e init_world ops ->
  nth_error (w_bos (run e init_world ops)) i = Some b ->
  b_total b - b_excl b < B + C /\ b_excl b < Z.max L B + C /\ 0 <= b_excl b <= b_total b.
Proof. exact budget_bounded. Qed.
Print Assumptions C20_budget_bounded.

(* Integer ranges: after n ops every int the code keeps is within [0, n*C] (times, errorsNum, attempts within
   [0, n]; lastSleep within [0, max(cap, base)]) — the model's unbounded Z never leaves the int64 range. *)
Theorem C20_no_overflow : forall C e ops i b, 0 <= C -> Forall (op_wf C) ops ->
  nth_error (w_bos (run e init_world ops)) i = Some b -> size_inv C (Z.of_nat (length ops)) b.
Proof. exact no_overflow. Qed.
Print Assumptions C20_no_overflow.

Theorem C20_no_overflow_62 : forall C e ops i b, 0 <= C <= 2 ^ 31 -> Z.of_nat (length ops) <= 2 ^ 20 -> Forall (op_wf C) ops ->
  nth_error (w_bos (run e init_world ops)) i = Some b ->
  b_total b < 2 ^ 62 /\ b_excl b < 2 ^ 62 /\ b_errnum b < 2 ^ 62 /\
  (forall n v, In (n, v) (b_sleep b) -> 0 <= v < 2 ^ 62) /\ (forall n v, In (n, v) (b_times b) -> 0 <= v < 2 ^ 62) /\
  (forall n f, In (n, f) (b_fn b) -> 0 <= f_att f < 2 ^ 62 /\ (f_base f < 2 ^ 60 -> 0 <= f_last f * 3 - f_base f + f_base f < 2 ^ 62)).
Proof. exact no_overflow_62. Qed.
Print Assumptions C20_no_overflow_62.

(* expo: the value only depends on min(attempts, 62); up to there base*2^n is an exact double (53-bit mantissa,
   exponent <= 62), beyond the result is the cap whatever the float product is (finite or +Inf) *)
Theorem C20_expo_saturates : forall base cap n, 1 <= base -> cap < 2 ^ 62 -> 0 <= n ->
  expo base cap n = expo base cap (Z.min n 62) /\ (62 <= n -> expo base cap n = cap).
Proof. exact expo_saturates. Qed.
Print Assumptions C20_expo_saturates.

(* the Go expression int(math.Min(float64(cap), float64(base)*math.Pow(2.0, float64(n)))) written out with IEEE-754
   binary64 rounding ([go_expo], ProofsFloat.v: round-to-nearest-even to 53 bits, +Inf from 2^1024, Pow = +Inf from
   n = 1024) equals the model's integer expo for 1 <= base < 2^53, 0 <= cap < 2^53 and EVERY n >= 0 (large n included:
   the product stays a double while finite, overflows to +Inf, the minimum is then the cap).  Outside that range it
   is not exact (go_expo_inexact_beyond: float64(2^53+1) = 2^53).  [go_expo] is tied to the code by the differential. *)
Theorem C20_expo_float_exact : forall base cap n, 1 <= base < 2 ^ 53 -> 0 <= cap < 2 ^ 53 -> 0 <= n ->
  go_expo base cap n = expo base cap n.
Proof. exact go_expo_exact. Qed.
Print Assumptions C20_expo_float_exact.

(* kinds that pass [cfg_okb] (0 < base, 2 <= cap, jitter 1..4, Decorr: max(2,base) <= cap and base not from vars):
   the jitter draw is never from an empty interval (rand.Intn never panics) and, except for FullJitter, every
   sleep is at least 1 ms — a retry loop cannot spin without backing off *)
Theorem C20_kinds_live : forall e ops i c b, Forall (op_good e) ops -> cfg_okb (e_lfnames e) c = true ->
  nth_error (w_bos (run e init_world ops)) i = Some b ->
  forall f, pick_fn e (run e init_world ops) b c = Some f ->
    fn_good f /\ (exists s, sleep_ok f s = true) /\ (f_jit f <> 2 -> forall s, sleep_ok f s = true -> 1 <= s).
Proof. exact kinds_live. Qed.
Print Assumptions C20_kinds_live.

(* instantiated on every run with the table read from config/retry/config.go (build/coq_cases/C20Table.v) *)
Theorem C20_table_applies : forall lf t, forallb (cfg_okb lf) t = true ->
  0 <= table_cap t /\
  forall c, In c t -> cfg_okb lf c = true /\ 0 < c_base c /\ 2 <= c_cap c <= table_cap t /\
    (forall i m er s, op_wf (table_cap t) (OBackoff i c m er s)).
Proof. exact table_applies. Qed.
Print Assumptions C20_table_applies.

(* Fork's context: inherits the parent's cancellation, its cancel function touches no older context (in particular
   not the parent's), the parent's cancel function cancels the fork *)
Theorem C20_cancel_scope : forall e ops i b,
  let w := run e init_world ops in
  nth_error (w_bos w) i = Some b -> b_live b = true ->
  let w1 := fst (step e w (OFork i)) in
  let cj := length (w_ctxs w) in
  (exists nb, nth_error (w_bos w1) (length (w_bos w)) = Some nb /\ b_ctx nb = cj) /\
  cancelled w1 cj = cancelled w (b_ctx b) /\
  (forall c', (c' < cj)%nat -> cancelled (fst (step e w1 (OCancel cj))) c' = cancelled w1 c') /\
  cancelled (fst (step e w1 (OCancel cj))) cj = true /\
  cancelled (fst (step e w1 (OCancel (b_ctx b)))) cj = true.
Proof. exact cancel_scope. Qed.
Print Assumptions C20_cancel_scope.

(* The consumers' pattern (txnsnapshot.batchGetKeysByRegions, txnlock.checkAllSecondaries): fork the caller's back-offer,
   clone the FORK once per further worker, let the workers back off (any interleaving, never on the caller's
   back-offer), merge the worker k that finished last.  Whichever k in [fork .. last clone] that is, the caller ends with
   exactly its accounting at the fork plus the sleeps logged for k.  (Cloning the CALLER instead makes the merge a no-op:
   Example ex_clone_of_parent_not_merged.) *)
Theorem C20_worker_pattern : forall e w i b n wops k,
  nth_error (w_bos w) i = Some b -> b_live b = true ->
  let j := length (w_bos w) in
  Forall (worker_op i) wops -> (j <= k <= j + n)%nat ->
  let w1 := fst (step e w (OFork i)) in
  let w2 := run e w1 (repeat (OClone j) n) in
  let w3 := fst (run_logi e w2 wops) in
  let lg := for_idx k (snd (run_logi e w2 wops)) in
  let w4 := fst (step e w3 (OMerge i k)) in
  exists b4, nth_error (w_bos w4) i = Some b4 /\
    b_total b4 = b_total b + sum_all lg /\
    b_excl b4 = b_excl b + sum_if (is_excl e) lg /\
    (forall nm, zget nm (b_sleep b4) = zget nm (b_sleep b) + sum_if (Z.eqb nm) lg /\
                zget nm (b_times b4) = zget nm (b_times b) + cnt_if (Z.eqb nm) lg) /\
    b_max b4 = b_max b.
Proof. exact worker_pattern. Qed.
Print Assumptions C20_worker_pattern.

(* Merge accounting for trees of ANY depth (generalises C20_merge_sum / C20_worker_pattern): fork i, then a descent of
   levels — at each level arbitrary frame ops (back-offs anywhere but on i, forks and clones of anything) and then the
   tip is forked (true) or cloned (false), the new node is the next tip — then more frame ops, then
   bos[i].UpdateUsingForked(last tip).  The walk up forked.parent finds i, and i ends with its accounting at the first
   fork plus, per level, the sleeps the tip of that level made before the next node was taken from it, plus the last
   tip's sleeps: nothing else in the tree is counted, nothing on the path is lost.  [tree_ord] (parents are older) holds
   in every reachable world (reach_tree_ord). *)
Theorem C20_merge_sum_tree : forall e w i b lv fin,
  tree_ord (w_bos w) -> nth_error (w_bos w) i = Some b -> b_live b = true ->
  Forall (fun l : level => Forall (frame_op i) (fst l)) lv -> Forall (frame_op i) fin ->
  let r := descend e (fst (step e w (OFork i))) (length (w_bos w)) lv in
  let t := snd (fst r) in
  let wl := run_logi e (fst (fst r)) fin in
  let lg := snd r ++ for_idx t (snd wl) in
  let w5 := fst (step e (fst wl) (OMerge i t)) in
  exists b5, nth_error (w_bos w5) i = Some b5 /\
    b_total b5 = b_total b + sum_all lg /\
    b_excl b5 = b_excl b + sum_if (is_excl e) lg /\
    (forall n, zget n (b_sleep b5) = zget n (b_sleep b) + sum_if (Z.eqb n) lg /\
               zget n (b_times b5) = zget n (b_times b) + cnt_if (Z.eqb n) lg) /\
    b_max b5 = b_max b /\ b_fn b5 = b_fn b.
Proof. exact merge_sum_tree. Qed.
Print Assumptions C20_merge_sum_tree.

(* ---------- domain guards: where the model answers RBad, the code panics (driver class "domain") ---------- *)
(* withVars: `b.maxSleep > 0 && math.MaxInt32/b.vars.BackOffWeight >= b.maxSleep` — integer divide by zero for
   BackOffWeight = 0 (NewBackofferWithVars and ResetMaxSleep with a positive budget; with a budget <= 0 the code
   short-circuits, does not divide, and the model proceeds as well). *)
Theorem C20_domain_weight0 : forall e w v x,
  nth_error (w_vars w) v = Some x -> v_weight x = 0 ->
  (forall m, 0 < m -> step e w (ONew m v 0) = (w, RBad)) /\
  (forall i b m, nth_error (w_bos w) i = Some b -> b_live b = true -> 0 < m -> b_vars b = Some v ->
                 step e w (OResetMax i m) = (w, RBad)).
Proof. exact domain_weight0. Qed.
Print Assumptions C20_domain_weight0.

(* NewNoopBackoff ("create a Backoffer do nothing just return error directly") has vars = nil and noop = true.
   It returns the caller's error and changes nothing; Fork / Clone copy vars (nil) but NOT the noop flag, so the copy
   is an ordinary unlimited back-offer that really sleeps; on a back-offer with nil vars ResetMaxSleep(>0) and the
   first back-off of a txnLockFast-named kind are outside the model's domain (the code dereferences nil vars). *)
Theorem C20_domain_noop : forall e w i b,
  nth_error (w_bos w) i = Some b -> b_live b = true ->
  (b_noop b = true -> cancelled w (b_ctx b) = false ->
     forall c maxms errid s, step e w (OBackoff i c maxms errid s) = (w, RErrOrig)) /\
  (b_noop b = true -> b_vars b = None ->
     (exists nb, nth_error (w_bos (fst (step e w (OFork i)))) (length (w_bos w)) = Some nb /\ b_noop nb = false /\ b_vars nb = None /\ b_max nb = b_max b) /\
     (exists nb, nth_error (w_bos (fst (step e w (OClone i)))) (length (w_bos w)) = Some nb /\ b_noop nb = false /\ b_vars nb = None /\ b_max nb = b_max b)) /\
  (b_vars b = None -> forall m, 0 < m -> step e w (OResetMax i m) = (w, RBad)) /\
  (b_vars b = None -> cancelled w (b_ctx b) = false -> b_noop b = false ->
     forall c maxms errid s, (0 <? b_max b) && exceeded e b (c_name c) = false ->
       existsb (Z.eqb (c_name c)) (e_lfnames e) = true -> aget (c_name c) (b_fn b) = None ->
       step e w (OBackoff i c maxms errid s) = (w, RBad)).
Proof. exact domain_noop. Qed.
Print Assumptions C20_domain_noop.

(* ---------- second extension round: theorems behind oracles that existed only in the check ---------- *)
(* oracle C20_accounting: a back-off either changes nothing (error results) or accounts exactly one sleep on exactly one
   back-offer: total / excluded / the kind's sleep and times / errorsNum / configs; nothing else in the world moves *)
Theorem C20_step_exact : forall e w i c maxms errid s w' r,
  step e w (OBackoff i c maxms errid s) = (w', r) ->
  (w' = w /\ (forall real, r <> ROk real) /\ (forall real sg, r <> RKilled real sg)) \/
  (exists b b' real, nth_error (w_bos w) i = Some b /\ nth_error (w_bos w') i = Some b' /\
     (r = ROk real \/ exists sg, r = RKilled real sg) /\ real = cut s maxms /\
     b_total b' = b_total b + real /\
     b_excl b' = b_excl b + (if is_excl e (c_name c) then real else 0) /\
     zget (c_name c) (b_sleep b') = zget (c_name c) (b_sleep b) + real /\
     zget (c_name c) (b_times b') = zget (c_name c) (b_times b) + 1 /\
     (forall n, n <> c_name c -> zget n (b_sleep b') = zget n (b_sleep b) /\ zget n (b_times b') = zget n (b_times b)) /\
     b_errnum b' = b_errnum b + 1 /\ b_cfgs b' = b_cfgs b ++ [c] /\
     b_max b' = b_max b /\ b_parent b' = b_parent b /\ b_ctx b' = b_ctx b /\ b_vars b' = b_vars b /\
     (forall k, k <> i -> nth_error (w_bos w') k = nth_error (w_bos w) k) /\
     w_ctxs w' = w_ctxs w /\ w_vars w' = w_vars w /\ w_cerr w' = w_cerr w).
Proof. exact step_exact. Qed.
Print Assumptions C20_step_exact.

(* oracle C20_getters: on every back-offer of every reachable world GetTotalBackoffTimes (sum of backoffTimes) =
   ErrorsNum = number of recorded configs (what String() and GetTypes list); the errors ring has its 3 slots *)
Theorem C20_counters_agree : forall e ops i b, nth_error (w_bos (run e init_world ops)) i = Some b ->
  sum_all (b_times b) = b_errnum b /\ b_errnum b = Z.of_nat (length (b_cfgs b)) /\ length (b_errs b) = 3%nat.
Proof. exact counters_agree. Qed.
Print Assumptions C20_counters_agree.

(* latestErrors: after a back-off the ring reads as the last (at most 3) of "what it read before ++ the new error",
   oldest first; it holds min(3, errorsNum) entries *)
Theorem C20_errors_ring : forall e ops i b, nth_error (w_bos (run e init_world ops)) i = Some b ->
  forall c f s maxms errid,
    latest_errs (slept_bo e b c f s maxms errid) = last3 (latest_errs b ++ [errid]) /\
    Z.of_nat (length (latest_errs b)) = Z.min 3 (b_errnum b).
Proof. exact errors_ring. Qed.
Print Assumptions C20_errors_ring.

(* KVSnapshot.recordBackoffInfo over the calls made on one snapshot: the statistics of kind n are the sum, over the
   calls whose back-offer slept at all (total <> 0), of that back-offer's backoffSleepMS[n] / backoffTimes[n] *)
Theorem C20_stats_accumulate : forall e ops (idx : list nat) (bs : list bo) n,
  Forall2 (fun i b => nth_error (w_bos (run e init_world ops)) i = Some b) idx bs ->
  zget n (fst (record_all bs)) = fold_right (fun b a => (if counted b then zget n (b_sleep b) else 0) + a) 0 bs /\
  zget n (snd (record_all bs)) = fold_right (fun b a => (if counted b then zget n (b_times b) else 0) + a) 0 bs.
Proof. exact stats_thm. Qed.
Print Assumptions C20_stats_accumulate.

(* ---------- non-vacuity ---------- *)
Example ex_longest_after_merge :
  snd (step ex_env (run ex_env init_world ex_ops) (OBackoff 0 regionMiss (-1) 4 2)) = RExceeded [Some 2].
Proof. vm_compute. reflexivity. Qed.
Example ex_budget_hyps : Forall (op_wf 10000) ex_ops /\ Forall not_resetmax ex_ops /\ env_bound ex_env 600000 /\
  exists b, nth_error (w_bos (run ex_env init_world ex_ops)) 0 = Some b /\ b_max b = 400 /\ b_total b = 525.
Proof.
  split; [repeat constructor; simpl; discriminate|]. split; [repeat constructor|]. split.
  - intros n lim. unfold excl_limit, ex_env; simpl. destruct (n =? 4); intros H; inversion H. apply Z.le_refl.
  - eexists. vm_compute. repeat split.
Qed.
(* excluded sleep does not eat the budget *)
Example ex_excluded : exists b, nth_error (w_bos (run ex_env init_world
    [ONewVars 1 10; ONew 400 1 0; OBackoff 0 busy (-1) 1 1500; OBackoff 0 regionMiss (-1) 2 2])) 0 = Some b /\
    b_total b = 1502 /\ b_excl b = 1500.
Proof. eexists. vm_compute. repeat split. Qed.
(* an inadmissible sleep is rejected by the model (jitter window of attempt 0 of txnLock is [50,100)) *)
Example ex_sleep_rejected : snd (step ex_env (run ex_env init_world [ONewVars 1 10; ONew 400 1 0]) (OBackoff 0 txnLock (-1) 1 100)) = RBad.
Proof. vm_compute. reflexivity. Qed.
(* cancel and kill *)
Example ex_cancel : snd (step ex_env (run ex_env init_world [ONewVars 1 10; ONew 400 1 0; OFork 0; OCancel 0]) (OBackoff 1 txnLock (-1) 1 75)) = RErrOrig.
Proof. vm_compute. reflexivity. Qed.
Example ex_kill : snd (step ex_env (run ex_env init_world [ONewVars 1 10; ONew 400 1 0; OKill 1 7]) (OBackoff 0 txnLock 20 1 75)) = RKilled 20 7.
Proof. vm_compute. reflexivity. Qed.
(* why C20_budget excludes ResetMaxSleep together with a merge: the fork's budget is raised, it sleeps 525 ms,
   the merge imports them into the parent whose budget is 100 *)
Example budget_hypothesis_needed : exists b, nth_error (w_bos (run ex_env init_world
    [ONewVars 1 10; ONew 100 1 0; OFork 0; OResetMax 1 5000;
     OBackoff 1 txnLock (-1) 1 75; OBackoff 1 txnLock (-1) 2 150; OBackoff 1 txnLock (-1) 3 300; OMerge 0 1])) 0 = Some b /\
    b_max b = 100 /\ b_total b = 525.
Proof. eexists. vm_compute. repeat split. Qed.
(* the same run under the general theorem: the ghost is the fork's raised budget, 525 < 5000 + C holds *)
Example ex_budget_general : exists b, nth_error (w_bos (run ex_env init_world
    [ONewVars 1 10; ONew 100 1 0; OFork 0; OResetMax 1 5000;
     OBackoff 1 txnLock (-1) 1 75; OBackoff 1 txnLock (-1) 2 150; OBackoff 1 txnLock (-1) 3 300; OMerge 0 1])) 0 = Some b /\
    b_hi b = Some 5000 /\ b_max b = 100.
Proof. eexists. vm_compute. repeat split. Qed.
(* SetErrors after the config was recorded: the exhausted back-off reports the config's CURRENT error (9) *)
Example ex_seterrors :
  snd (step ex_env (run ex_env init_world (ex_ops ++ [OSetErr 1 9])) (OBackoff 0 regionMiss (-1) 4 2)) = RExceeded [Some 9].
Proof. vm_compute. reflexivity. Qed.
Example ex_real_kinds_ok : forallb (cfg_okb [6]) [txnLock; regionMiss; busy] = true.
Proof. vm_compute. reflexivity. Qed.
(* worker pattern: fork 0 -> 1, clone of the FORK -> 2 sleeps 2 ms, merge 0 2: the caller gets the 2 ms *)
Example ex_clone_of_fork_merged : exists b, nth_error (w_bos (run ex_env init_world
    [ONewVars 1 10; ONew 400 1 0; OFork 0; OClone 1; OBackoff 2 regionMiss (-1) 1 2; OMerge 0 2])) 0 = Some b /\ b_total b = 2.
Proof. eexists. vm_compute. repeat split. Qed.
(* the same with a clone of the CALLER (parent chain of the clone does not contain the caller): the merge does nothing,
   the worker's 2 ms never reach the caller *)
Example ex_clone_of_parent_not_merged :
  let w := run ex_env init_world [ONewVars 1 10; ONew 400 1 0; OFork 0; OClone 0; OBackoff 2 regionMiss (-1) 1 2] in
  step ex_env w (OMerge 0 2) = (w, RNone) /\
  (exists b, nth_error (w_bos w) 0 = Some b /\ b_total b = 0) /\ (exists f, nth_error (w_bos w) 2 = Some f /\ b_total f = 2 /\ b_parent f = None).
Proof. vm_compute. repeat split; eexists; repeat split. Qed.
(* two-level fork (the shape of rawkv's batch requests and of seed C20-3): 0 -> fork 1 -> fork 2; 2 sleeps 75+150 after
   1 slept 2 before forking; 1 sleeps 2 more afterwards (not inherited); merging 2 into 0 gives 2+75+150 *)
Example ex_two_level_merge : exists b, nth_error (w_bos (run ex_env init_world
    [ONewVars 1 10; ONew 4000 1 0; OFork 0; OBackoff 1 regionMiss (-1) 1 2; OFork 1;
     OBackoff 2 txnLock (-1) 2 75; OBackoff 1 regionMiss (-1) 3 4; OBackoff 2 txnLock (-1) 4 150; OMerge 0 2])) 0 = Some b /\
    b_total b = 227 /\ zget 3 (b_sleep b) = 2 /\ zget 2 (b_sleep b) = 225 /\ zget 3 (b_times b) = 1.
Proof. eexists. vm_compute. repeat split. Qed.
Example ex_descend_shape : (* the same run, written as the descent of C20_merge_sum_tree *)
  let w := run ex_env init_world [ONewVars 1 10; ONew 4000 1 0] in
  let r := descend ex_env (fst (step ex_env w (OFork 0))) 1 [([OBackoff 1 regionMiss (-1) 1 2], true)] in
  snd (fst r) = 2%nat /\ snd r = [(3, 2)].
Proof. vm_compute. split; reflexivity. Qed.
Example ex_domain_weight0 : snd (step ex_env (run ex_env init_world [ONewVars 0 10]) (ONew 100 1 0)) = RBad.
Proof. vm_compute. reflexivity. Qed.
Example ex_domain_noop_fork_sleeps : exists b, nth_error (w_bos (run ex_env init_world
    [ONew 0 0 2; OFork 0; OBackoff 0 regionMiss (-1) 1 2; OBackoff 1 regionMiss (-1) 2 2])) 1 = Some b /\ b_total b = 2 /\ b_noop b = false.
Proof. eexists. vm_compute. repeat split. Qed.
(* ring: four errors 1..4 recorded, the ring reads 2,3,4 *)
Example ex_errors_ring : exists b, nth_error (w_bos (run ex_env init_world
    [ONewVars 1 10; ONew 0 1 0; OBackoff 0 regionMiss (-1) 1 2; OBackoff 0 regionMiss (-1) 2 4;
     OBackoff 0 regionMiss (-1) 3 8; OBackoff 0 regionMiss (-1) 4 16])) 0 = Some b /\
    latest_errs b = [2; 3; 4] /\ b_errnum b = 4 /\ sum_all (b_times b) = 4 /\ length (b_cfgs b) = 4%nat.
Proof. eexists. vm_compute. repeat split. Qed.
(* statistics over two calls: back-offers 0 (slept 2+4 of regionMiss) and 1 (slept 2 of regionMiss, 75 of txnLock);
   a third back-offer that only "slept" 0 ms (per-call maximum 0) is not recorded although its times counter is 1 *)
Example ex_stats : let w := run ex_env init_world
    [ONewVars 1 10; ONew 0 1 0; ONew 0 1 0; ONew 0 1 0;
     OBackoff 0 regionMiss (-1) 1 2; OBackoff 0 regionMiss (-1) 2 4;
     OBackoff 1 regionMiss (-1) 3 2; OBackoff 1 txnLock (-1) 4 75; OBackoff 2 regionMiss 0 5 2] in
  let st := record_all (w_bos w) in
  zget 3 (fst st) = 8 /\ zget 3 (snd st) = 3 /\ zget 2 (fst st) = 75 /\ zget 2 (snd st) = 1.
Proof. vm_compute. repeat split. Qed.
(* keep going when killed: the marked back-offer and its fork sleep on under a raised kill flag until the budget (400)
   is exhausted; then the budget error (txnLock's, id 2) is returned, never the kill error *)
Example ex_keepgoing :
  let w := run ex_env init_world [ONewVars 1 10; ONew 400 1 0; OKeepGoing 0; OKill 1 7; OFork 0;
                                  OBackoff 0 txnLock (-1) 1 75; OBackoff 1 txnLock (-1) 2 75; OBackoff 1 txnLock (-1) 3 150;
                                  OBackoff 1 txnLock (-1) 4 300] in
  snd (step ex_env (run ex_env init_world [ONewVars 1 10; ONew 400 1 0; OKeepGoing 0; OKill 1 7]) (OBackoff 0 txnLock (-1) 1 75)) = ROk 75 /\
  snd (step ex_env w (OBackoff 1 txnLock (-1) 5 600)) = RExceeded [Some 2] /\
  snd (step ex_env (run ex_env init_world [ONewVars 1 10; ONew 400 1 0; OKill 1 7]) (OBackoff 0 txnLock (-1) 1 75)) = RKilled 75 7.
Proof. vm_compute. repeat split. Qed.
Example ex_expo_float : go_expo 100 3000 3 = 800 /\ go_expo 100 3000 2000 = 3000 /\ go_expo (2 ^ 53 - 1) (2 ^ 53 - 1) 1023 = 2 ^ 53 - 1 /\
  go_expo 2 (2 ^ 53 + 1) 60 = 2 ^ 53.
Proof. vm_compute. repeat split. Qed.
