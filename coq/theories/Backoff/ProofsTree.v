(* Backoff/ProofsTree.v — merge accounting for fork / clone trees of any depth: UpdateUsingForked walks up
   forked.parent until it meets the receiver; the receiver then holds its accounting at the first fork plus the sleeps
   made along the path (each node's sleeps up to the moment the next node was forked / cloned from it). *)
From Coq Require Import ZArith List Bool Lia.
From Verif Require Import Backoff.Model Backoff.ProofsBase Backoff.ProofsStep Backoff.ProofsInv Backoff.ProofsAcct Backoff.ProofsWorker.
Import ListNotations.
Open Scope Z_scope.

(* ops that never write the caller's back-offer [i]: back-offs elsewhere, forks and clones of anything *)
Definition frame_op (i : nat) (o : op) : Prop :=
  match o with OBackoff j _ _ _ _ => j <> i | OFork _ => True | OClone _ => True | _ => False end.

(* [i] is on the parent chain that starts at [p] *)
Inductive reaches (bs : list bo) (i : nat) : option nat -> Prop :=
| R_here : reaches bs i (Some i)
| R_up q bq : nth_error bs q = Some bq -> reaches bs i (b_parent bq) -> reaches bs i (Some q).

Definition ext (bs bs' : list bo) : Prop :=
  forall q x, nth_error bs q = Some x -> exists x', nth_error bs' q = Some x' /\ b_parent x' = b_parent x.

Lemma reaches_ext bs bs' i p : ext bs bs' -> reaches bs i p -> reaches bs' i p.
Proof.
  intros E. induction 1; [constructor|]. destruct (E _ _ H) as (x' & N & P). econstructor; eauto. rewrite P. auto.
Qed.

Lemma reaches_on_chain bs i : tree_ord bs -> forall fuel p, (forall q, p = Some q -> (q < fuel)%nat) ->
  reaches bs i p -> on_chain fuel bs p i = true.
Proof.
  intros T. induction fuel; intros p B R.
  - inversion R; subst; specialize (B _ eq_refl); lia.
  - inversion R; subst; simpl.
    + rewrite Nat.eqb_refl. auto.
    + destruct (Nat.eqb q i); auto. rewrite H. apply IHfuel; auto.
      intros q' E. pose proof (T _ _ _ H E). specialize (B _ eq_refl). lia.
Qed.

Lemma run_logi_fst e ops : forall w, fst (run_logi e w ops) = run e w ops.
Proof. induction ops; intros; simpl; auto. Qed.

Lemma run_tree_ord e ops : forall w, tree_ord (w_bos w) -> tree_ord (w_bos (run e w ops)).
Proof. induction ops; intros; simpl; auto. apply IHops. apply step_tree_ord; auto. Qed.

Lemma sum_all_app a b : sum_all (a ++ b) = sum_all a + sum_all b.
Proof. unfold sum_all. induction a; simpl; lia. Qed.
Lemma sum_if_app p a b : sum_if p (a ++ b) = sum_if p a + sum_if p b.
Proof. unfold sum_if. induction a; cbn [app fold_right]; [lia|]. destruct (p (fst a)); lia. Qed.
Lemma cnt_if_app p a b : cnt_if p (a ++ b) = cnt_if p a + cnt_if p b.
Proof. unfold cnt_if. induction a; cbn [app fold_right]; [lia|]. destruct (p (fst a)); lia. Qed.
Lemma for_idx_app k a b : for_idx k (a ++ b) = for_idx k a ++ for_idx k b.
Proof. unfold for_idx. rewrite filter_app, map_app. auto. Qed.

(* the accounting of one node k under frame ops; everybody keeps parent and liveness; [i] is untouched *)
Definition same_plus (e : env) (f f' : bo) (lg : list (Z * Z)) : Prop :=
  b_total f' = b_total f + sum_all lg /\ b_excl f' = b_excl f + sum_if (is_excl e) lg /\
  (forall n, zget n (b_sleep f') = zget n (b_sleep f) + sum_if (Z.eqb n) lg /\
             zget n (b_times f') = zget n (b_times f) + cnt_if (Z.eqb n) lg) /\
  b_parent f' = b_parent f /\ b_max f' = b_max f /\ b_live f' = b_live f.

Lemma same_plus_nil e f : same_plus e f f [].
Proof. unfold same_plus, sum_all, sum_if, cnt_if. simpl. repeat split; lia. Qed.

Lemma same_plus_trans e f f' f'' a b : same_plus e f f' a -> same_plus e f' f'' b -> same_plus e f f'' (a ++ b).
Proof.
  intros (A1 & A2 & A3 & A4 & A5 & A6) (B1 & B2 & B3 & B4 & B5 & B6). unfold same_plus.
  rewrite sum_all_app, sum_if_app. repeat split; try lia; try congruence;
    destruct (A3 n), (B3 n); rewrite ?sum_if_app, ?cnt_if_app; lia.
Qed.

Lemma append_case (bs bs' : list bo) i k f : (bs' = bs \/ exists x, bs' = bs ++ [x]) -> nth_error bs k = Some f ->
  nth_error bs' k = Some f /\ ext bs bs' /\ (forall x, nth_error bs i = Some x -> nth_error bs' i = Some x).
Proof.
  intros [->|[x ->]] H.
  - split; auto. split; auto. intros q y Hq. eauto.
  - split; [apply nth_app_l; auto|]. split.
    + intros q y Hq. exists y. split; auto. apply nth_app_l; auto.
    + intros y Hy. apply nth_app_l; auto.
Qed.

Lemma frame_acct e i k ops : Forall (frame_op i) ops -> forall w f,
  nth_error (w_bos w) k = Some f ->
  exists f', nth_error (w_bos (fst (run_logi e w ops))) k = Some f' /\
    same_plus e f f' (for_idx k (snd (run_logi e w ops))) /\
    ext (w_bos w) (w_bos (fst (run_logi e w ops))) /\
    (forall x, nth_error (w_bos w) i = Some x -> nth_error (w_bos (fst (run_logi e w ops))) i = Some x).
Proof.
  induction 1 as [|o r Ho _ IH]; intros w f Hf.
  - simpl. exists f. split; auto. split; [apply same_plus_nil|]. split; auto. intros q x Hq. eauto.
  - cbn [run_logi fst snd].
    assert (K : exists f1, nth_error (w_bos (fst (step e w o))) k = Some f1 /\
                same_plus e f f1 (for_idx k (log_entry_i o (snd (step e w o)))) /\
                ext (w_bos w) (w_bos (fst (step e w o))) /\
                (forall x, nth_error (w_bos w) i = Some x -> nth_error (w_bos (fst (step e w o))) i = Some x)).
    { destruct o; simpl in Ho; try tauto.
      - (* back-off on i0 <> i *)
        destruct (step e w (OBackoff i0 c maxms errid sleep)) as [w1 r1] eqn:E. cbn [fst snd].
        simpl in E. apply do_backoff_cases in E as [[-> R]|(b & fs & Hn & Lv & _ & _ & _ & _ & _ & -> & ->)].
        + assert (log_entry_i (OBackoff i0 c maxms errid sleep) r1 = []) as ->.
          { destruct R as [->|[->|(b0 & _ & _ & ->)]]; reflexivity. }
          exists f. split; auto. split; [apply same_plus_nil|]. split; auto. intros q x Hq. eauto.
        + assert (log_entry_i (OBackoff i0 c maxms errid sleep) (kill_res w b (cut sleep maxms)) = [(i0, (c_name c, cut sleep maxms))]) as ->.
          { unfold kill_res. destruct (_ =? 0); reflexivity. }
          assert (X : ext (w_bos w) (w_bos (set_bo w i0 (slept_bo e b c fs sleep maxms errid)))).
          { intros q x Hq. simpl. destruct (Nat.eq_dec i0 q) as [->|N].
            - rewrite nth_upd_same by (eapply nth_lt; eauto). eexists. split; eauto. simpl. congruence.
            - rewrite nth_upd_other by auto. eauto. }
          assert (Y : forall x, nth_error (w_bos w) i = Some x -> nth_error (w_bos (set_bo w i0 (slept_bo e b c fs sleep maxms errid))) i = Some x).
          { intros x Hx. simpl. rewrite nth_upd_other by auto. auto. }
          unfold for_idx. cbn [filter fst]. destruct (Nat.eq_dec i0 k) as [->|N].
          * rewrite Nat.eqb_refl. cbn [map snd]. assert (b = f) by congruence. subst b.
            exists (slept_bo e f c fs sleep maxms errid). split; [simpl; apply nth_upd_same; eapply nth_lt; eauto|].
            split; auto. unfold same_plus, sum_all, sum_if, cnt_if. cbn [fold_right fst snd slept_bo b_total b_excl b_sleep b_times b_parent b_max b_live].
            split; [lia|]. split; [destruct (is_excl e (c_name c)); lia|]. split; [|repeat split; auto].
            intros n. destruct (n =? c_name c) eqn:Q.
            -- apply Z.eqb_eq in Q. subst n. rewrite !zget_zadd_same. lia.
            -- apply Z.eqb_neq in Q. rewrite !zget_zadd_other by congruence. lia.
          * apply Nat.eqb_neq in N as N'. rewrite N'. cbn [map]. exists f. split; [simpl; rewrite nth_upd_other by auto; auto|].
            split; [apply same_plus_nil|]. auto.
      - (* clone *)
        assert (A : w_bos (fst (step e w (OClone i0))) = w_bos w \/ exists x, w_bos (fst (step e w (OClone i0))) = w_bos w ++ [x]).
        { simpl. dm; simpl; eauto. }
        assert (L : log_entry_i (OClone i0) (snd (step e w (OClone i0))) = []) by reflexivity. rewrite L.
        destruct (append_case _ _ i k f A Hf) as (A1 & A2 & A3).
        exists f. split; auto. split; [apply same_plus_nil|]. split; auto.
      - (* fork *)
        assert (A : w_bos (fst (step e w (OFork i0))) = w_bos w \/ exists x, w_bos (fst (step e w (OFork i0))) = w_bos w ++ [x]).
        { simpl. dm; simpl; eauto. }
        assert (L : log_entry_i (OFork i0) (snd (step e w (OFork i0))) = []) by reflexivity. rewrite L.
        destruct (append_case _ _ i k f A Hf) as (A1 & A2 & A3).
        exists f. split; auto. split; [apply same_plus_nil|]. split; auto. }
    destruct K as (f1 & N1 & S1 & X1 & Y1). destruct (IH _ _ N1) as (f' & N & S2 & X2 & Y2).
    exists f'. split; auto. split; [rewrite for_idx_app; eapply same_plus_trans; eauto|]. split.
    + intros q x Hq. destruct (X1 _ _ Hq) as (x1 & Hq1 & P1). destruct (X2 _ _ Hq1) as (x2 & Hq2 & P2). exists x2. split; auto. congruence.
    + intros x Hx. apply Y2. apply Y1. auto.
Qed.

(* a descent: at every level some frame ops run, then the tip is forked (true) or cloned (false); the new node is the
   next tip.  The path log collects, per level, the sleeps of the tip of that level. *)
Definition level := (list op * bool)%type.
Fixpoint descend (e : env) (w : world) (tip : nat) (lv : list level) : world * nat * list (Z * Z) :=
  match lv with
  | [] => (w, tip, [])
  | (ops, fk) :: rest =>
    let wl := run_logi e w ops in
    let w2 := fst (step e (fst wl) (if fk then OFork tip else OClone tip)) in
    let r := descend e w2 (length (w_bos (fst wl))) rest in
    (fst (fst r), snd (fst r), for_idx tip (snd wl) ++ snd r)
  end.

Definition tip_inv (e : env) (i : nat) (b : bo) (w : world) (tip : nat) (acc : list (Z * Z)) : Prop :=
  tree_ord (w_bos w) /\ nth_error (w_bos w) i = Some b /\ (i < tip)%nat /\
  exists ft, nth_error (w_bos w) tip = Some ft /\ b_live ft = true /\ reaches (w_bos w) i (b_parent ft) /\
    b_total ft = b_total b + sum_all acc /\ b_excl ft = b_excl b + sum_if (is_excl e) acc /\
    (forall n, zget n (b_sleep ft) = zget n (b_sleep b) + sum_if (Z.eqb n) acc /\
               zget n (b_times ft) = zget n (b_times b) + cnt_if (Z.eqb n) acc).

Lemma tip_frame e i b w tip acc ops : tip_inv e i b w tip acc -> Forall (frame_op i) ops ->
  tip_inv e i b (fst (run_logi e w ops)) tip (acc ++ for_idx tip (snd (run_logi e w ops))).
Proof.
  intros (T & Hi & Lt & ft & Ht & Lv & R & A1 & A2 & A3) F.
  destruct (frame_acct e i tip ops F w ft Ht) as (f' & N & (S1 & S2 & S3 & S4 & S5 & S6) & X & Y).
  split; [rewrite run_logi_fst; apply run_tree_ord; auto|]. split; [apply Y; auto|]. split; auto.
  exists f'. split; auto. split; [congruence|]. split; [rewrite S4; eapply reaches_ext; eauto|].
  rewrite sum_all_app, sum_if_app. split; [lia|]. split; [lia|].
  intros n. destruct (A3 n), (S3 n). rewrite sum_if_app, cnt_if_app. lia.
Qed.

Lemma tip_next e i b w tip acc (fk : bool) : tip_inv e i b w tip acc ->
  tip_inv e i b (fst (step e w (if fk then OFork tip else OClone tip))) (length (w_bos w)) acc.
Proof.
  intros (T & Hi & Lt & ft & Ht & Lv & R & A1 & A2 & A3).
  pose proof (nth_lt _ _ _ Ht) as Ltip.
  assert (X : forall w', (forall k x, nth_error (w_bos w) k = Some x -> nth_error (w_bos w') k = Some x) -> ext (w_bos w) (w_bos w')).
  { intros w' K q x Hq. exists x. split; auto. }
  destruct fk.
  - destruct (fork_start e w tip ft Ht Lv) as (w' & nb & E & Hnb & Len & Cn & Mx & _ & Pa & _ & Lnb & _ & _ & Keep).
    rewrite E. cbn [fst]. split; [pose proof (step_tree_ord e w (OFork tip) T) as Q; rewrite E in Q; exact Q|].
    split; [apply Keep; auto|]. split; [lia|]. exists nb. split; auto. split; auto. inversion Cn as [[C1 C2 C3 C4 C5 C6 C7]].
    split; [|rewrite C1, C2, C6, C7; auto].
    rewrite Pa. econstructor; [apply Keep; eauto|]. eapply reaches_ext; [apply X; exact Keep|]. auto.
  - destruct (clone_start e w tip ft Ht Lv) as (w' & nb & E & Hnb & Len & Cn & Mx & _ & Pa & _ & Lnb & _ & _ & _ & Keep).
    rewrite E. cbn [fst]. split; [pose proof (step_tree_ord e w (OClone tip) T) as Q; rewrite E in Q; exact Q|].
    split; [apply Keep; auto|]. split; [lia|]. exists nb. split; auto. split; auto. inversion Cn as [[C1 C2 C3 C4 C5 C6 C7]].
    split; [|rewrite C1, C2, C6, C7; auto].
    rewrite Pa. eapply reaches_ext; [apply X; exact Keep|]. auto.
Qed.

Lemma descend_inv e i b : forall lv w tip acc, tip_inv e i b w tip acc ->
  Forall (fun l : level => Forall (frame_op i) (fst l)) lv ->
  tip_inv e i b (fst (fst (descend e w tip lv))) (snd (fst (descend e w tip lv))) (acc ++ snd (descend e w tip lv)).
Proof.
  induction lv as [|[ops fk] rest IH]; intros w tip acc Inv F.
  - simpl. rewrite app_nil_r. auto.
  - inversion F; subst. cbn [descend fst snd]. rewrite app_assoc. apply IH; auto.
    apply tip_next. apply tip_frame; auto.
Qed.

(* the theorem: any depth, forks and clones mixed, arbitrary other activity in the tree *)
Lemma merge_sum_tree e w i b lv fin :
  tree_ord (w_bos w) -> nth_error (w_bos w) i = Some b -> b_live b = true ->
  Forall (fun l : level => Forall (frame_op i) (fst l)) lv -> Forall (frame_op i) fin ->
  let r := descend e (fst (step e w (OFork i))) (length (w_bos w)) lv in
  let t := snd (fst r) in
  let wl := run_logi e (fst (fst r)) fin in
  let lg := snd r ++ for_idx t (snd wl) in
  let w5 := fst (step e (fst wl) (OMerge i t)) in
  exists b5, nth_error (w_bos w5) i = Some b5 /\
    b_total b5 = b_total b + sum_all lg /\
    b_excl b5 = b_excl b + sum_if (is_excl e) lg /\
    (forall n, zget n (b_sleep b5) = zget n (b_sleep b) + sum_if (Z.eqb n) lg /\
               zget n (b_times b5) = zget n (b_times b) + cnt_if (Z.eqb n) lg) /\
    b_max b5 = b_max b /\ b_fn b5 = b_fn b.
Proof.
  intros T Hi Li F Ff r t wl lg w5.
  assert (I0 : tip_inv e i b (fst (step e w (OFork i))) (length (w_bos w)) []).
  { destruct (fork_start e w i b Hi Li) as (w' & nb & E & Hnb & Len & Cn & Mx & _ & Pa & _ & Lnb & _ & _ & Keep).
    rewrite E. cbn [fst]. split; [pose proof (step_tree_ord e w (OFork i) T) as Q; rewrite E in Q; exact Q|].
    split; [apply Keep; auto|]. split; [eapply nth_lt; eauto|]. exists nb. split; auto. split; auto.
    inversion Cn as [[C1 C2 C3 C4 C5 C6 C7]]. split; [rewrite Pa; constructor|].
    unfold sum_all, sum_if, cnt_if. simpl. rewrite C1, C2, C6, C7. repeat split; lia. }
  pose proof (descend_inv e i b lv _ _ [] I0 F) as I1. fold r in I1. simpl app in I1. fold t in I1.
  pose proof (tip_frame e i b _ _ _ fin I1 Ff) as (T2 & Hi2 & Lt2 & ft & Ht & Lv & R & A1 & A2 & A3). fold wl lg in T2, Hi2, Ht, R, A1, A2, A3.
  pose proof (nth_lt _ _ _ Ht) as Ltip.
  assert (Oc : on_chain (length (w_bos (fst wl))) (w_bos (fst wl)) (b_parent ft) i = true).
  { apply reaches_on_chain; auto. intros q E. pose proof (T2 _ _ _ Ht E). lia. }
  pose proof (merge_exact_gen e (fst wl) i t b ft T2 Hi2 Ht Li Lv) as M. rewrite Oc in M.
  destruct M as (w' & b' & E & Hb' & Cn & Mx & Fn & _).
  exists b'. unfold w5. rewrite E. cbn [fst]. split; auto. inversion Cn as [[C1 C2 C3 C4 C5 C6 C7]].
  rewrite C1, C2, C6, C7. repeat split; auto; apply A3.
Qed.
