(* Backoff/ProofsCount.v — theorems behind the oracles that so far existed only in the check: exact accounting of one
   step, agreement of the counters (sum of backoffTimes = errorsNum = number of recorded configs), the errors ring *)
From Coq Require Import ZArith List Bool Lia ZifyBool.
From Verif Require Import Backoff.Model Backoff.ProofsBase Backoff.ProofsStep Backoff.ProofsInv Backoff.ProofsAcct.
Import ListNotations.
Open Scope Z_scope.
Ltac Zify.zify_post_hook ::= Z.div_mod_to_equations.

(* ---------- one step, exactly ---------- *)
Lemma step_exact e w i c maxms errid s w' r :
  step e w (OBackoff i c maxms errid s) = (w', r) ->
  (w' = w /\ (forall real, r <> ROk real) /\ (forall real sg, r <> RKilled real sg)) \/
  (exists b b' real, nth_error (w_bos w) i = Some b /\ nth_error (w_bos w') i = Some b' /\
     (r = ROk real \/ exists sg, r = RKilled real sg) /\ real = cut s maxms /\
     b_total b' = b_total b + real /\
     b_excl b' = b_excl b + (if is_excl e (c_name c) then real else 0) /\
     zget (c_name c) (b_sleep b') = zget (c_name c) (b_sleep b) + real /\
     zget (c_name c) (b_times b') = zget (c_name c) (b_times b) + 1 /\
     (forall n, n <> c_name c -> zget n (b_sleep b') = zget n (b_sleep b) /\ zget n (b_times b') = zget n (b_times b)) /\
     b_errnum b' = b_errnum b + 1 /\ b_cfgs b' = b_cfgs b ++ [c] /\
     b_max b' = b_max b /\ b_parent b' = b_parent b /\ b_ctx b' = b_ctx b /\ b_vars b' = b_vars b /\
     (forall k, k <> i -> nth_error (w_bos w') k = nth_error (w_bos w) k) /\
     w_ctxs w' = w_ctxs w /\ w_vars w' = w_vars w /\ w_cerr w' = w_cerr w).
Proof.
  intros E. simpl in E.
  apply do_backoff_cases in E as [[-> R]|(b & f & Hn & _ & _ & _ & _ & _ & _ & -> & ->)].
  - left. split; auto. destruct R as [->|[->|(b0 & _ & _ & ->)]]; split; intros; discriminate.
  - right. exists b, (slept_bo e b c f s maxms errid), (cut s maxms).
    split; auto. split; [simpl; apply nth_upd_same; eapply nth_lt; eauto|].
    split. { unfold kill_res. destruct (_ =? 0); eauto. }
    split; auto. cbn [slept_bo b_total b_excl b_sleep b_times b_errnum b_cfgs b_max b_parent b_ctx b_vars push_err snd].
    split; auto. split. { destruct (is_excl e (c_name c)); lia. }
    split; [apply zget_zadd_same|]. split; [apply zget_zadd_same|].
    split. { intros n N. split; apply zget_zadd_other; congruence. }
    repeat split; auto. intros k N. simpl. apply nth_upd_other. auto.
Qed.

(* ---------- counters agree ---------- *)
Lemma sum_all_zadd k d l : sum_all (zadd k d l) = sum_all l + d.
Proof.
  unfold zadd, zget, sum_all. induction l as [|[k' v'] r]; simpl.
  - lia.
  - destruct (k =? k') eqn:E; simpl; [lia|]. rewrite IHr. lia.
Qed.

Definition count_inv (b : bo) : Prop :=
  sum_all (b_times b) = b_errnum b /\ b_errnum b = Z.of_nat (length (b_cfgs b)) /\ length (b_errs b) = 3%nat.

Lemma step_count e w o : Forall count_inv (w_bos w) -> Forall count_inv (w_bos (fst (step e w o))).
Proof.
  intros A. destruct (step_shape e w o); auto.
  - apply Forall_app. split; auto. constructor; auto. unfold count_inv, empty_bo, sum_all; simpl. auto.
  - apply Forall_app. split; auto. constructor; auto. exact (Forall_nth _ _ _ _ A H).
  - apply Forall_upd; auto. destruct (Forall_nth _ _ _ _ A H0) as (A1 & A2 & A3).
    unfold count_inv, slept_bo, push_err; simpl. rewrite sum_all_zadd, app_length, length_upd. simpl. repeat split; auto; lia.
  - apply Forall_upd; auto. exact (Forall_nth _ _ _ _ A H).
  - apply Forall_upd; auto. exact (Forall_nth _ _ _ _ A H).
  - apply Forall_upd; [apply Forall_upd; auto|]; exact (Forall_nth _ _ _ _ A H1).
Qed.

Lemma counters_agree e ops i b : nth_error (w_bos (run e init_world ops)) i = Some b ->
  sum_all (b_times b) = b_errnum b /\ b_errnum b = Z.of_nat (length (b_cfgs b)) /\ length (b_errs b) = 3%nat.
Proof.
  intros Hn.
  assert (A : Forall count_inv (w_bos (run e init_world ops))).
  { apply (run_ind (fun w => Forall count_inv (w_bos w)) (fun _ => True)).
    - constructor. - intros. apply step_count; auto. - apply Forall_forall; auto. }
  exact (Forall_nth _ _ _ _ A Hn).
Qed.

(* ---------- the errors ring: latestErrors = the last (at most 3) recorded errors, oldest first ---------- *)
Definition last3 (l : list Z) : list Z := skipn (length l - 3) l.

Lemma ring_push e b c f s maxms errid : length (b_errs b) = 3%nat -> 0 <= b_errnum b ->
  latest_errs (slept_bo e b c f s maxms errid) = last3 (latest_errs b ++ [errid]) /\
  Z.of_nat (length (latest_errs b)) = Z.min 3 (b_errnum b).
Proof.
  intros L P. destruct (b_errs b) as [|x [|y [|z [|]]]] eqn:Eb; try discriminate. clear L.
  unfold latest_errs, slept_bo, push_err; cbn [b_errs b_errnum fst snd]. rewrite Eb.
  set (n := b_errnum b) in *.
  assert (C : n = 0 \/ n = 1 \/ n = 2 \/ n = 3 \/ 3 < n) by lia.
  destruct C as [->|[->|[->|[->|G]]]]; try (vm_compute; split; reflexivity).
  assert (Lt : (n <=? 3) = false) by lia. assert (Lt' : (n + 1 <=? 3) = false) by lia. rewrite Lt, Lt'.
  assert (M : n mod 3 = 0 \/ n mod 3 = 1 \/ n mod 3 = 2) by lia.
  destruct M as [M|[M|M]].
  - assert (M' : (n + 1) mod 3 = 1) by lia. rewrite M, M'. split; [reflexivity|simpl; lia].
  - assert (M' : (n + 1) mod 3 = 2) by lia. rewrite M, M'. split; [reflexivity|simpl; lia].
  - assert (M' : (n + 1) mod 3 = 0) by lia. rewrite M, M'. split; [reflexivity|simpl; lia].
Qed.

Lemma errors_ring e ops i b : nth_error (w_bos (run e init_world ops)) i = Some b ->
  forall c f s maxms errid,
    latest_errs (slept_bo e b c f s maxms errid) = last3 (latest_errs b ++ [errid]) /\
    Z.of_nat (length (latest_errs b)) = Z.min 3 (b_errnum b).
Proof.
  intros Hn c f s maxms errid. destruct (counters_agree e ops i b Hn) as (_ & E & L).
  apply ring_push; auto. lia.
Qed.

(* ---------- KVSnapshot.recordBackoffInfo: runtime statistics accumulated over the calls made on one snapshot ----------
   after every Get / BatchGet the per-kind maps of that call's back-offer are added to the snapshot's statistics, unless
   the back-offer's total sleep is 0 *)
Definition madd (m add : list (Z * Z)) : list (Z * Z) := fold_left (fun acc nv => zadd (fst nv) (snd nv) acc) add m.
Definition record (st : list (Z * Z) * list (Z * Z)) (b : bo) : list (Z * Z) * list (Z * Z) :=
  if b_total b =? 0 then st else (madd (fst st) (b_sleep b), madd (snd st) (b_times b)).
Definition record_all (bs : list bo) : list (Z * Z) * list (Z * Z) := fold_left record bs ([], []).

(* value of key n summed over all entries (the per-kind maps of a back-offer have unique keys, see keys_unique) *)
Definition msum (n : Z) (l : list (Z * Z)) : Z := sum_if (Z.eqb n) l.

Lemma zget_madd n add : forall m, zget n (madd m add) = zget n m + msum n add.
Proof.
  unfold madd, msum, sum_if. induction add as [|[k v] r]; intros m; simpl; [lia|].
  rewrite IHr. destruct (n =? k) eqn:E.
  - apply Z.eqb_eq in E; subst. rewrite zget_zadd_same. lia.
  - apply Z.eqb_neq in E. rewrite zget_zadd_other by congruence. lia.
Qed.

Definition counted (b : bo) : bool := negb (b_total b =? 0).

Lemma stats_accumulate n : forall bs st,
  zget n (fst (fold_left record bs st)) = zget n (fst st) + fold_right (fun b a => (if counted b then msum n (b_sleep b) else 0) + a) 0 bs /\
  zget n (snd (fold_left record bs st)) = zget n (snd st) + fold_right (fun b a => (if counted b then msum n (b_times b) else 0) + a) 0 bs.
Proof.
  induction bs as [|b r]; intros st; simpl; [lia|].
  destruct (IHr (record st b)) as [A B]. rewrite A, B. unfold record, counted.
  destruct (b_total b =? 0); simpl; [lia|]. rewrite !zget_madd. lia.
Qed.

(* the maps of a back-offer never hold a key twice, so msum is the map lookup *)
Fixpoint keys_unique (l : list (Z * Z)) : Prop :=
  match l with [] => True | (k, _) :: r => aget k r = None /\ keys_unique r end.

Lemma msum_unique n l : keys_unique l -> msum n l = zget n l.
Proof.
  unfold msum, sum_if, zget. induction l as [|[k v] r]; simpl; auto. intros [N U]. specialize (IHr U).
  destruct (n =? k) eqn:E.
  - apply Z.eqb_eq in E; subst. rewrite N in IHr. lia.
  - auto.
Qed.

Lemma aget_aset_none {A} k k' (v : A) l : k <> k' -> aget k' l = None -> aget k' (aset k v l) = None.
Proof. intros. rewrite aget_aset_other; auto. Qed.

Lemma keys_unique_aset k v l : keys_unique l -> keys_unique (aset k v l).
Proof.
  induction l as [|[k' v'] r]; simpl; auto. intros [N U]. destruct (k =? k') eqn:E; simpl.
  - apply Z.eqb_eq in E; subst. auto.
  - apply Z.eqb_neq in E. split; auto. apply aget_aset_none; auto.
Qed.

Definition uniq_inv (b : bo) : Prop := keys_unique (b_sleep b) /\ keys_unique (b_times b).

Lemma step_uniq e w o : Forall uniq_inv (w_bos w) -> Forall uniq_inv (w_bos (fst (step e w o))).
Proof.
  intros A. destruct (step_shape e w o); auto.
  - apply Forall_app. split; auto. constructor; auto. split; simpl; auto.
  - apply Forall_app. split; auto. constructor; auto. exact (Forall_nth _ _ _ _ A H).
  - apply Forall_upd; auto. destruct (Forall_nth _ _ _ _ A H0). split; simpl; apply keys_unique_aset; auto.
  - apply Forall_upd; auto. exact (Forall_nth _ _ _ _ A H).
  - apply Forall_upd; auto. exact (Forall_nth _ _ _ _ A H).
  - apply Forall_upd; [apply Forall_upd; auto|]; exact (Forall_nth _ _ _ _ A H1).
Qed.

Lemma reach_uniq e ops i b : nth_error (w_bos (run e init_world ops)) i = Some b -> uniq_inv b.
Proof.
  intros Hn.
  assert (A : Forall uniq_inv (w_bos (run e init_world ops))).
  { apply (run_ind (fun w => Forall uniq_inv (w_bos w)) (fun _ => True)).
    - constructor. - intros. apply step_uniq; auto. - apply Forall_forall; auto. }
  exact (Forall_nth _ _ _ _ A Hn).
Qed.

(* statistics = sum, over the calls whose back-offer slept at all, of that back-offer's per-kind counters *)
Lemma stats_thm e ops (idx : list nat) (bs : list bo) n :
  Forall2 (fun i b => nth_error (w_bos (run e init_world ops)) i = Some b) idx bs ->
  zget n (fst (record_all bs)) = fold_right (fun b a => (if counted b then zget n (b_sleep b) else 0) + a) 0 bs /\
  zget n (snd (record_all bs)) = fold_right (fun b a => (if counted b then zget n (b_times b) else 0) + a) 0 bs.
Proof.
  intros F. unfold record_all. destruct (stats_accumulate n bs ([], [])) as [A B]. rewrite A, B. simpl.
  assert (U : Forall uniq_inv bs).
  { clear A B. induction F; constructor; auto. eapply reach_uniq; eauto. }
  assert (Z0 : zget n (@nil (Z * Z)) = 0) by reflexivity. try rewrite Z0. clear A B F.
  assert (K : fold_right (fun b a => (if counted b then msum n (b_sleep b) else 0) + a) 0 bs =
              fold_right (fun b a => (if counted b then zget n (b_sleep b) else 0) + a) 0 bs /\
              fold_right (fun b a => (if counted b then msum n (b_times b) else 0) + a) 0 bs =
              fold_right (fun b a => (if counted b then zget n (b_times b) else 0) + a) 0 bs).
  { induction U as [|b r [U1 U2] _ IH]; cbn [fold_right]; [split; reflexivity|].
    destruct IH as [I1 I2]. rewrite (msum_unique n _ U1), (msum_unique n _ U2), I1, I2. split; reflexivity. }
  destruct K as [K1 K2]. rewrite K1, K2. split; lia.
Qed.
