(* Backoff/ProofsCtx.v — the context tree: Fork's cancel function cancels the fork only, the parent's cancels both *)
From Coq Require Import ZArith List Bool Lia.
From Verif Require Import Backoff.Model Backoff.ProofsBase Backoff.ProofsStep Backoff.ProofsInv Backoff.ProofsAcct.
Import ListNotations.
Open Scope Z_scope.

Definition ctx_ord (cs : list (option nat * bool)) : Prop :=
  forall c p f, nth_error cs c = Some (Some p, f) -> (p < c)%nat.
Definition ctx_wf (w : world) : Prop :=
  ctx_ord (w_ctxs w) /\ Forall (fun b => (b_ctx b < length (w_ctxs w))%nat) (w_bos w).

Lemma ord_app cs x : ctx_ord cs -> (forall p, fst x = Some p -> (p < length cs)%nat) -> ctx_ord (cs ++ [x]).
Proof.
  intros T H c p f Hc. apply nth_app_inv in Hc as [[L Hc]|[-> E]]; [eapply T; eauto|]. subst x. apply H. reflexivity.
Qed.

Lemma ord_upd cs c p f : ctx_ord cs -> nth_error cs c = Some (p, f) -> ctx_ord (upd c (p, true) cs).
Proof.
  intros T H c' q g Hc. apply nth_upd in Hc as [[-> E]|[N Hc]]; [|eapply T; eauto].
  inversion E; subst. eapply T; eauto.
Qed.

Lemma Forall_lt_app (bs : list bo) (cs : list (option nat * bool)) x :
  Forall (fun b => (b_ctx b < length cs)%nat) bs -> Forall (fun b => (b_ctx b < length (cs ++ [x]))%nat) bs.
Proof. intros H. eapply Forall_impl; [|exact H]. intros a L. simpl in *. rewrite app_length. simpl. lia. Qed.

Lemma step_ctx_wf e w o : ctx_wf w -> ctx_wf (fst (step e w o)).
Proof.
  intros [T F]. unfold ctx_wf. destruct o; simpl.
  - split; auto.
  - dm; simpl; try (split; auto; fail);
      (split; [apply ord_app; auto; simpl; discriminate|];
       apply Forall_app; split; [apply Forall_lt_app; auto|constructor; auto; simpl; rewrite app_length; simpl; lia]).
  - destruct (do_backoff e w i c maxms errid sleep) as [w' r] eqn:E.
    apply do_backoff_cases in E as [[-> _]|(b & f & Hn & _ & _ & _ & _ & _ & _ & -> & _)]; simpl; [split; auto|].
    split; auto. apply Forall_upd; auto. simpl. exact (Forall_nth _ _ _ _ F Hn).
  - dm; simpl; try (split; auto; fail). split; auto. apply Forall_app. split; auto. constructor; auto. simpl.
    exact (Forall_nth _ _ _ _ F Heqo).
  - dm; simpl; try (split; auto; fail). pose proof (Forall_nth _ _ _ _ F Heqo) as L. simpl in L. split.
    + apply ord_app; auto. simpl. intros p X. inversion X; subst; auto.
    + apply Forall_app; split; [apply Forall_lt_app; auto|constructor; auto; simpl; rewrite app_length; simpl; lia].
  - dm; simpl; try (split; auto; fail). split; auto. apply Forall_upd; [apply Forall_upd; auto|]; simpl.
    + exact (Forall_nth _ _ _ _ F Heqo).
    + exact (Forall_nth _ _ _ _ F Heqo0).
  - dm; simpl; try (split; auto; fail). split; auto. apply Forall_upd; auto. simpl. exact (Forall_nth _ _ _ _ F Heqo).
  - dm; simpl; try (split; auto; fail); (split; auto; apply Forall_upd; auto; simpl; exact (Forall_nth _ _ _ _ F Heqo)).
  - dm; simpl; try (split; auto; fail). split; [eapply ord_upd; eauto|]. rewrite length_upd. auto.
  - dm; simpl; split; auto.
  - split; auto.
  - dm; simpl; try (split; auto; fail). split; auto. apply Forall_upd; auto. simpl. eapply nth_lt; eauto.
  - dm; simpl; try (split; auto; fail). split; auto. apply Forall_upd; auto. simpl. exact (Forall_nth _ _ _ _ F Heqo).
Qed.

Lemma reach_ctx_wf e ops : ctx_wf (run e init_world ops).
Proof.
  apply (run_ind ctx_wf (fun _ => True)).
  - split; [intros c p f H; destruct c; discriminate|constructor].
  - intros. apply step_ctx_wf; auto.
  - apply Forall_forall; auto.
Qed.

Lemma cf_prefix cs x : ctx_ord cs -> forall k c, (c < length cs)%nat ->
  cancelled_fuel k (cs ++ [x]) c = cancelled_fuel k cs c.
Proof.
  intros T. induction k; intros c L; simpl; auto. rewrite nth_error_app1 by auto.
  destruct (nth_error cs c) as [[p f]|] eqn:E; auto. destruct p as [p|]; auto.
  rewrite IHk; auto. pose proof (T _ _ _ E). lia.
Qed.

Lemma cf_upd_other cs c p : ctx_ord cs -> forall k c', (c' < c)%nat ->
  cancelled_fuel k (upd c (p, true) cs) c' = cancelled_fuel k cs c'.
Proof.
  intros T. induction k; intros c' L; simpl; auto. rewrite nth_upd_other by lia.
  destruct (nth_error cs c') as [[q f]|] eqn:E; auto. destruct q as [q|]; auto.
  rewrite IHk; auto. pose proof (T _ _ _ E). lia.
Qed.

Lemma cf_child cs k c p : nth_error cs c = Some (Some p, false) -> cancelled_fuel (S k) cs c = cancelled_fuel k cs p.
Proof. intros H. simpl. rewrite H. reflexivity. Qed.
Lemma cf_self cs k c p : nth_error cs c = Some (p, true) -> cancelled_fuel (S k) cs c = true.
Proof. intros H. simpl. rewrite H. reflexivity. Qed.

Lemma cancel_scope e ops i b :
  let w := run e init_world ops in
  nth_error (w_bos w) i = Some b -> b_live b = true ->
  let w1 := fst (step e w (OFork i)) in
  let cj := length (w_ctxs w) in
  (exists nb, nth_error (w_bos w1) (length (w_bos w)) = Some nb /\ b_ctx nb = cj) /\
  cancelled w1 cj = cancelled w (b_ctx b) /\
  (forall c', (c' < cj)%nat -> cancelled (fst (step e w1 (OCancel cj))) c' = cancelled w1 c') /\
  cancelled (fst (step e w1 (OCancel cj))) cj = true /\
  cancelled (fst (step e w1 (OCancel (b_ctx b)))) cj = true.
Proof.
  intros w Hn Lv w1 cj. destruct (reach_ctx_wf e ops) as [T F]. fold w in T, F.
  pose proof (Forall_nth _ _ _ _ F Hn) as Lb. simpl in Lb. fold cj in Lb.
  assert (E1 : w1 = mkWorld (w_bos w ++ [copy_bo b cj (Some i)]) (w_ctxs w ++ [(Some (b_ctx b), false)]) (w_vars w) (w_cerr w)).
  { unfold w1. simpl. rewrite Hn, Lv. reflexivity. }
  assert (T1 : ctx_ord (w_ctxs w1)).
  { rewrite E1. simpl. apply ord_app; auto. simpl. intros p X. inversion X; subst; auto. }
  assert (Nj : nth_error (w_ctxs w1) cj = Some (Some (b_ctx b), false)). { rewrite E1. simpl. apply nth_app_new. }
  assert (Len1 : length (w_ctxs w1) = S cj). { rewrite E1. simpl. rewrite app_length. simpl. unfold cj. lia. }
  split; [|split; [|split; [|split]]].
  - exists (copy_bo b cj (Some i)). rewrite E1. simpl. split; auto. apply nth_app_new.
  - unfold cancelled. rewrite Len1. rewrite (cf_child _ _ _ _ Nj). rewrite E1. cbn [w_ctxs]. apply cf_prefix; auto.
  - intros c' L. cbn [step]. rewrite Nj. cbn [fst]. unfold cancelled. cbn [w_ctxs]. rewrite length_upd. apply cf_upd_other; auto.
  - eapply cancel_sets; eauto.
  - assert (Lb1 : (b_ctx b < length (w_ctxs w1))%nat) by lia.
    destruct (nth_error (w_ctxs w1) (b_ctx b)) as [[p f]|] eqn:Eb; [|apply nth_error_None in Eb; lia].
    cbn [step]. rewrite Eb. cbn [fst]. unfold cancelled. cbn [w_ctxs]. rewrite length_upd, Len1.
    rewrite (cf_child _ _ _ (b_ctx b)); [|rewrite nth_upd_other by lia; exact Nj].
    destruct cj; [lia|]. apply (cf_self _ _ _ p). apply nth_upd_same. lia.
Qed.
