(* Backoff/Model.v — executable model of config/retry (Backoffer, Config, newBackoffFn) for C20.
   A world is a heap (list) of back-offers, a heap of contexts (tree with cancel flags) and a heap
   of kv.Variables (weight, lock-fast base, killed signal).  Sleeping is virtual; the random
   jitter is relational: the op carries the sleep the implementation chose ([o_sleep], the value
   before the per-call cut) and the model checks that it is admissible ([sleep_ok]). *)
From Coq Require Import ZArith List Bool.
Import ListNotations.
Open Scope Z_scope.

(* ---- configuration of one back-off kind (retry.Config + BackoffFnCfg) ---- *)
Record cfg := mkCfg { c_id : Z; c_name : Z; c_base : Z; c_cap : Z; c_jit : Z; c_err : Z }.
(* c_name: id of the name string (0 = ""); c_jit: 1 NoJitter 2 FullJitter 3 EqualJitter 4 DecorrJitter *)

(* static environment: isSleepExcluded (name -> limit) and the name id of "txnLockFast" *)
Record env := mkEnv { e_excl : list (Z * Z); e_lfnames : list Z }.
(* e_lfnames: ids of the names n with strings.EqualFold(n, "txnLockFast") *)

(* closure state of newBackoffFn *)
Record fnst := mkFn { f_base : Z; f_cap : Z; f_jit : Z; f_att : Z; f_last : Z }.

Record vars := mkVars { v_weight : Z; v_lockfast : Z; v_killed : Z }.

Record bo := mkBo {
  b_ctx : nat; b_noop : bool; b_vars : option nat;
  b_max : Z; b_total : Z; b_excl : Z;
  b_fn : list (Z * fnst);
  b_errs : list Z; b_errnum : Z;          (* errors [3] ring, errorsNum *)
  b_cfgs : list cfg;
  b_sleep : list (Z * Z); b_times : list (Z * Z);   (* backoffSleepMS, backoffTimes *)
  b_parent : option nat;
  b_live : bool;                            (* false once handed to UpdateUsingForked (contract) *)
  b_keep : bool;                            (* keepGoingWhenKilled: back-offs are not ended by the kill flag *)
  b_hi : option Z                           (* GHOST (not in the code): largest budget under which the current
                                               total was accumulated; None = some unlimited budget took part *)
}.

Record world := mkWorld {
  w_bos : list bo;
  w_ctxs : list (option nat * bool);       (* parent ctx, cancelled *)
  w_vars : list vars;
  w_cerr : list (Z * Z)                    (* Config.SetErrors: config id -> current error id *)
}.

Inductive op :=
| ONewVars (weight lockfast : Z)
| ONew (max : Z) (v : nat) (mode : Z)      (* 0 NewBackofferWithVars, 1 NewBackoffer, 2 NewNoopBackoff *)
| OBackoff (i : nat) (c : cfg) (maxms : Z) (errid : Z) (sleep : Z)
| OClone (i : nat)
| OFork (i : nat)
| OMerge (i j : nat)                        (* bos[i].UpdateUsingForked(bos[j]) *)
| OReset (i : nat)
| OResetMax (i : nat) (m : Z)
| OCancel (c : nat)
| OKill (v : nat) (sig : Z)
| OSetErr (cid : Z) (err : Z)               (* Config.SetErrors on the config with pointer identity cid *)
| OSetCtx (i : nat) (c : nat)               (* bos[i].SetCtx(ctx c) *)
| OKeepGoing (i : nat).                     (* bos[i].KeepGoingWhenKilled() *)

Inductive res :=
| RNone                                      (* op without a result *)
| ROk (real : Z)                             (* slept [real] ms, nil error *)
| RKilled (real : Z) (sig : Z)               (* slept [real] ms, then ErrQueryInterrupted *)
| RErrOrig                                   (* the caller's error, nothing happened *)
| RExceeded (cands : list (option Z))        (* budget exhausted: admissible returned errors; None = caller's error *)
| RBad.                                      (* precondition of the model violated / inadmissible observation *)

(* ---- assoc helpers ---- *)
Fixpoint aget {A} (k : Z) (l : list (Z * A)) : option A :=
  match l with [] => None | (k', v) :: r => if k =? k' then Some v else aget k r end.
Definition zget (k : Z) (l : list (Z * Z)) : Z := match aget k l with Some v => v | None => 0 end.
Fixpoint aset {A} (k : Z) (v : A) (l : list (Z * A)) : list (Z * A) :=
  match l with [] => [(k, v)] | (k', v') :: r => if k =? k' then (k, v) :: r else (k', v') :: aset k v r end.
Definition zadd (k d : Z) (l : list (Z * Z)) := aset k (zget k l + d) l.

Fixpoint upd {A} (i : nat) (x : A) (l : list A) : list A :=
  match l, i with
  | [], _ => []
  | _ :: r, O => x :: r
  | y :: r, S i' => y :: upd i' x r
  end.

(* ---- newBackoffFn / expo ---- *)
Definition new_fn (base cap jit : Z) : fnst :=
  let b := if base <? 2 then 2 else base in mkFn b cap jit 0 b.
Definition expo (base cap n : Z) : Z := Z.min cap (base * 2 ^ n).

(* [s] is a value the closure may compute as [sleep] in state [f] *)
Definition sleep_ok (f : fnst) (s : Z) : bool :=
  let v := expo (f_base f) (f_cap f) (f_att f) in
  if f_jit f =? 1 then s =? v
  else if f_jit f =? 2 then (0 <=? s) && (s <? v)
  else if f_jit f =? 3 then (Z.quot v 2 <=? s) && (s <? Z.quot v 2 + Z.quot v 2)
  else if f_jit f =? 4 then
    let hi := f_base f + (f_last f * 3 - f_base f) in       (* exclusive bound of base + Intn(..) *)
    ((f_base f <=? s) && (s <? hi) && (s <=? f_cap f)) || ((s =? f_cap f) && (f_cap f <? hi) && (f_base f <? hi))
  else s =? 0.
Definition cut (s maxms : Z) : Z := if (0 <=? maxms) && (maxms <? s) then maxms else s.
Definition fn_next (f : fnst) (s : Z) : fnst := mkFn (f_base f) (f_cap f) (f_jit f) (f_att f + 1) s.

(* ---- contexts ---- *)
Fixpoint cancelled_fuel (fuel : nat) (cs : list (option nat * bool)) (c : nat) : bool :=
  match fuel with
  | O => false
  | S k => match nth_error cs c with
           | None => false
           | Some (p, x) => x || match p with Some p' => cancelled_fuel k cs p' | None => false end
           end
  end.
Definition cancelled (w : world) (c : nat) : bool := cancelled_fuel (S (length (w_ctxs w))) (w_ctxs w) c.

(* ---- budget test and longest sleeper ---- *)
Definition excl_limit (e : env) (name : Z) : option Z := aget name (e_excl e).
Definition is_excl (e : env) (name : Z) : bool := match excl_limit e name with Some _ => true | None => false end.

Definition exceeded (e : env) (b : bo) (name : Z) : bool :=
  ((b_total b - b_excl b) >=? b_max b)
  || match excl_limit e name with
     | Some lim => (b_excl b >=? lim) && (b_excl b >=? b_max b)
     | None => false
     end.

(* largest sleep among the non-excluded names (0 if none is positive) *)
Fixpoint longest_val (e : env) (l : list (Z * Z)) : Z :=
  match l with
  | [] => 0
  | (n, v) :: r => if is_excl e n then longest_val e r else Z.max v (longest_val e r)
  end.
Fixpoint first_cfg (name : Z) (l : list cfg) : option cfg :=
  match l with [] => None | c :: r => if c_name c =? name then Some c else first_cfg name r end.
(* the error a config carries NOW (SetErrors may have replaced the one it had when it was recorded) *)
Definition cur_err (w : world) (c : cfg) : Z :=
  match aget (c_id c) (w_cerr w) with Some e => e | None => c_err c end.
Definition cand_err (w : world) (b : bo) (name : Z) : option Z :=
  match first_cfg name (b_cfgs b) with Some c => Some (cur_err w c) | None => None end.
(* map iteration order is arbitrary and the comparison is strict: every name that attains the
   maximum may be the candidate; with no positive non-excluded sleep the candidate is "" *)
Definition longest_cands (e : env) (w : world) (b : bo) : list (option Z) :=
  let m := longest_val e (b_sleep b) in
  if 0 <? m
  then map (fun nv => cand_err w b (fst nv))
           (filter (fun nv => negb (is_excl e (fst nv)) && (snd nv =? m)) (b_sleep b))
  else [cand_err w b 0].

(* ---- errors ring ---- *)
Definition push_err (b : bo) (errid : Z) : list Z * Z :=
  (upd (Z.to_nat (Z.modulo (b_errnum b) 3)) errid (b_errs b), b_errnum b + 1).
Definition latest_errs (b : bo) : list Z :=
  if b_errnum b <=? 3 then firstn (Z.to_nat (b_errnum b)) (b_errs b)
  else let k := Z.to_nat (Z.modulo (b_errnum b) 3) in skipn k (b_errs b) ++ firstn k (b_errs b).

(* ---- withVars ---- *)
Definition max_int32 : Z := 2147483647.
Definition weighted (m w : Z) : Z :=
  if (0 <? m) && (m <=? Z.quot max_int32 w) then m * w else m.

(* ---- operations ---- *)
Definition set_bo (w : world) (i : nat) (b : bo) : world := mkWorld (upd i b (w_bos w)) (w_ctxs w) (w_vars w) (w_cerr w).

Definition killed_sig (w : world) (b : bo) : Z :=
  match b_vars b with
  | Some v => match nth_error (w_vars w) v with Some x => v_killed x | None => 0 end
  | None => 0
  end.

(* the kill signal as Backoff sees it: `if !b.keepGoingWhenKilled { CheckKilled() }` *)
Definition kill_eff (w : world) (b : bo) : Z := if b_keep b then 0 else killed_sig w b.

Definition fn_base (e : env) (w : world) (b : bo) (c : cfg) : option Z :=
  if existsb (Z.eqb (c_name c)) (e_lfnames e)
  then match b_vars b with
       | Some v => match nth_error (w_vars w) v with Some x => Some (v_lockfast x) | None => None end
       | None => None
       end
  else Some (c_base c).

Definition pick_fn (e : env) (w : world) (b : bo) (c : cfg) : option fnst :=
  match aget (c_name c) (b_fn b) with
  | Some f => Some f
  | None => match fn_base e w b c with
            | Some base => Some (new_fn base (c_cap c) (c_jit c))
            | None => None
            end
  end.

Definition budget_hi (m : Z) : option Z := if 0 <? m then Some m else None.
Definition join_hi (a b : option Z) : option Z :=
  match a, b with Some x, Some y => Some (Z.max x y) | _, _ => None end.

(* the back-offer after a sleep of [cut s maxms] ms of kind [c] through closure state [f] *)
Definition slept_bo (e : env) (b : bo) (c : cfg) (f : fnst) (s maxms errid : Z) : bo :=
  let name := c_name c in
  let real := cut s maxms in
  mkBo (b_ctx b) (b_noop b) (b_vars b) (b_max b)
       (b_total b + real)
       (if is_excl e name then b_excl b + real else b_excl b)
       (aset name (fn_next f s) (b_fn b))
       (fst (push_err b errid)) (snd (push_err b errid)) (b_cfgs b ++ [c])
       (zadd name real (b_sleep b)) (zadd name 1 (b_times b))
       (b_parent b) true (b_keep b) (b_hi b).

Definition do_backoff (e : env) (w : world) (i : nat) (c : cfg) (maxms errid s : Z) : world * res :=
  match nth_error (w_bos w) i with
  | None => (w, RBad)
  | Some b =>
    if negb (b_live b) then (w, RBad)
    else if cancelled w (b_ctx b) then (w, RErrOrig)
    else if b_noop b then (w, RErrOrig)
    else if (0 <? b_max b) && exceeded e b (c_name c) then (w, RExceeded (longest_cands e w b))
    else
      match pick_fn e w b c with
      | None => (w, RBad)
      | Some f =>
        if negb (sleep_ok f s) then (w, RBad)
        else
          let k := kill_eff w b in
          (set_bo w i (slept_bo e b c f s maxms errid),
           if k =? 0 then ROk (cut s maxms) else RKilled (cut s maxms) k)
      end
  end.

Definition copy_bo (b : bo) (ctx : nat) (parent : option nat) : bo :=
  mkBo ctx false (b_vars b) (b_max b) (b_total b) (b_excl b) [] (b_errs b) (b_errnum b)
       (b_cfgs b) (b_sleep b) (b_times b) parent true (b_keep b) (b_hi b).

(* is [i] on the parent chain that starts at [p]? *)
Fixpoint on_chain (fuel : nat) (bs : list bo) (p : option nat) (i : nat) : bool :=
  match fuel, p with
  | S k, Some q => if Nat.eqb q i then true
                   else match nth_error bs q with Some b => on_chain k bs (b_parent b) i | None => false end
  | _, _ => false
  end.

Definition merged (b f : bo) : bo :=
  mkBo (b_ctx b) (b_noop b) (b_vars b) (b_max b) (b_total f) (b_excl f) (b_fn b)
       (b_errs f) (b_errnum f) (b_cfgs f) (b_sleep f) (b_times f) (b_parent b) (b_live b) (b_keep b)
       (join_hi (budget_hi (b_max b)) (b_hi f)).
Definition kill_bo (f : bo) : bo :=
  mkBo (b_ctx f) (b_noop f) (b_vars f) (b_max f) (b_total f) (b_excl f) (b_fn f)
       (b_errs f) (b_errnum f) (b_cfgs f) (b_sleep f) (b_times f) (b_parent f) false (b_keep f) (b_hi f).

Definition reset_bo (b : bo) (m : Z) : bo :=
  mkBo (b_ctx b) (b_noop b) (b_vars b) m 0 0 [] (b_errs b) (b_errnum b)
       (b_cfgs b) (b_sleep b) (b_times b) (b_parent b) (b_live b) (b_keep b) (budget_hi m).

(* SetCtx / KeepGoingWhenKilled: the context and the keep-going flag are the only fields that change *)
Definition with_ctx (b : bo) (c : nat) (k : bool) : bo :=
  mkBo c (b_noop b) (b_vars b) (b_max b) (b_total b) (b_excl b) (b_fn b) (b_errs b) (b_errnum b)
       (b_cfgs b) (b_sleep b) (b_times b) (b_parent b) (b_live b) k (b_hi b).

Definition empty_bo (ctx : nat) (noop : bool) (v : option nat) (m : Z) : bo :=
  mkBo ctx noop v m 0 0 [] [0; 0; 0] 0 [] [] [] None true false (budget_hi m).

Definition step (e : env) (w : world) (o : op) : world * res :=
  match o with
  | ONewVars wt lf => (mkWorld (w_bos w) (w_ctxs w) (w_vars w ++ [mkVars wt lf 0]) (w_cerr w), RNone)
  | ONew m v mode =>
    let c := length (w_ctxs w) in
    let ctxs := w_ctxs w ++ [(None, false)] in
    if mode =? 2 then (mkWorld (w_bos w ++ [empty_bo c true None 0]) ctxs (w_vars w) (w_cerr w), RNone)
    else if mode =? 1 then (mkWorld (w_bos w ++ [empty_bo c false (Some O) m]) ctxs (w_vars w) (w_cerr w), RNone)
    else match nth_error (w_vars w) v with
         | None => (w, RBad)
         | Some x => if (v_weight x =? 0) && (0 <? m) then (w, RBad)   (* the code divides by the weight only if m > 0 *)
                     else (mkWorld (w_bos w ++ [empty_bo c false (Some v) (weighted m (v_weight x))]) ctxs (w_vars w) (w_cerr w), RNone)
         end
  | OBackoff i c maxms errid s => do_backoff e w i c maxms errid s
  | OClone i =>
    match nth_error (w_bos w) i with
    | Some b => if b_live b then (mkWorld (w_bos w ++ [copy_bo b (b_ctx b) (b_parent b)]) (w_ctxs w) (w_vars w) (w_cerr w), RNone)
                else (w, RBad)
    | None => (w, RBad)
    end
  | OFork i =>
    match nth_error (w_bos w) i with
    | Some b => if b_live b
                then (mkWorld (w_bos w ++ [copy_bo b (length (w_ctxs w)) (Some i)])
                              (w_ctxs w ++ [(Some (b_ctx b), false)]) (w_vars w) (w_cerr w), RNone)
                else (w, RBad)
    | None => (w, RBad)
    end
  | OMerge i j =>
    match nth_error (w_bos w) i, nth_error (w_bos w) j with
    | Some b, Some f =>
      if negb (b_live b && b_live f) then (w, RBad)
      else if on_chain (length (w_bos w)) (w_bos w) (b_parent f) i
      then (mkWorld (upd j (kill_bo f) (upd i (merged b f) (w_bos w))) (w_ctxs w) (w_vars w) (w_cerr w), RNone)
      else (w, RNone)
    | _, _ => (w, RBad)
    end
  | OReset i =>
    match nth_error (w_bos w) i with
    | Some b => if b_live b then (set_bo w i (reset_bo b (b_max b)), RNone) else (w, RBad)
    | None => (w, RBad)
    end
  | OResetMax i m =>
    match nth_error (w_bos w) i with
    | Some b =>
      if negb (b_live b) then (w, RBad)
      else if 0 <? m
      then match b_vars b with
           | Some v => match nth_error (w_vars w) v with
                       | Some x => if v_weight x =? 0 then (w, RBad)
                                   else (set_bo w i (reset_bo b (weighted m (v_weight x))), RNone)
                       | None => (w, RBad)
                       end
           | None => (w, RBad)
           end
      else (set_bo w i (reset_bo b m), RNone)
    | None => (w, RBad)
    end
  | OCancel c =>
    match nth_error (w_ctxs w) c with
    | Some (p, _) => (mkWorld (w_bos w) (upd c (p, true) (w_ctxs w)) (w_vars w) (w_cerr w), RNone)
    | None => (w, RBad)
    end
  | OKill v sig =>
    match nth_error (w_vars w) v with
    | Some x => (mkWorld (w_bos w) (w_ctxs w) (upd v (mkVars (v_weight x) (v_lockfast x) sig) (w_vars w)) (w_cerr w), RNone)
    | None => (w, RBad)
    end
  | OSetErr cid err => (mkWorld (w_bos w) (w_ctxs w) (w_vars w) (aset cid err (w_cerr w)), RNone)
  | OSetCtx i c =>
    match nth_error (w_bos w) i, nth_error (w_ctxs w) c with
    | Some b, Some _ => if b_live b then (set_bo w i (with_ctx b c (b_keep b)), RNone) else (w, RBad)
    | _, _ => (w, RBad)
    end
  | OKeepGoing i =>
    match nth_error (w_bos w) i with
    | Some b => if b_live b then (set_bo w i (with_ctx b (b_ctx b) true), RNone) else (w, RBad)
    | None => (w, RBad)
    end
  end.

(* DefaultVars is variables #0 *)
Definition init_world : world := mkWorld [] [] [mkVars 2 10 0] [].

Definition run (e : env) (w : world) (ops : list op) : world :=
  fold_left (fun w o => fst (step e w o)) ops w.

(* GetTypes: names of the configs of this back-offer and of all its ancestors *)
Fixpoint types_fuel (fuel : nat) (bs : list bo) (i : option nat) : list Z :=
  match fuel, i with
  | S k, Some q => match nth_error bs q with
                   | Some b => map c_name (b_cfgs b) ++ types_fuel k bs (b_parent b)
                   | None => []
                   end
  | _, _ => []
  end.
Definition get_types (w : world) (i : nat) : list Z := types_fuel (S (length (w_bos w))) (w_bos w) (Some i).
