(* Backoff/ProofsDomain.v — the domain guards of the model made explicit: where the model answers RBad the code
   panics (checked by the driver's class "domain"); no-op back-offers *)
From Coq Require Import ZArith List Bool Lia.
From Verif Require Import Backoff.Model Backoff.ProofsBase Backoff.ProofsStep Backoff.ProofsInv Backoff.ProofsAcct.
Import ListNotations.
Open Scope Z_scope.

(* withVars: "maxSleep is the max sleep time in millisecond. When it is multiplied by BackOffWeight, it should not be
   greater than MaxInt32": `b.maxSleep > 0 && math.MaxInt32/b.vars.BackOffWeight >= b.maxSleep` divides by zero for
   BackOffWeight = 0 *)
Lemma dom_weight0_new e w m v x : nth_error (w_vars w) v = Some x -> v_weight x = 0 -> 0 < m -> step e w (ONew m v 0) = (w, RBad).
Proof. intros H H0 P. simpl. apply Z.ltb_lt in P. rewrite H, H0, P. reflexivity. Qed.

Lemma dom_weight0_resetmax e w i b m v x : nth_error (w_bos w) i = Some b -> b_live b = true -> 0 < m ->
  b_vars b = Some v -> nth_error (w_vars w) v = Some x -> v_weight x = 0 -> step e w (OResetMax i m) = (w, RBad).
Proof. intros H L P V X W. simpl. rewrite H, L. simpl. apply Z.ltb_lt in P. rewrite P, V, X, W. reflexivity. Qed.

(* NewNoopBackoff "create a Backoffer do nothing just return error directly": vars is nil; Fork/Clone copy vars but not
   the noop flag.  ResetMaxSleep(>0) reads b.vars.BackOffWeight, createBackoffFn reads vars.BackoffLockFast for txnLockFast *)
Lemma dom_nilvars_resetmax e w i b m : nth_error (w_bos w) i = Some b -> b_live b = true -> 0 < m ->
  b_vars b = None -> step e w (OResetMax i m) = (w, RBad).
Proof. intros H L P V. simpl. rewrite H, L. simpl. apply Z.ltb_lt in P. rewrite P, V. reflexivity. Qed.

Lemma dom_nilvars_lockfast e w i b c maxms errid s : nth_error (w_bos w) i = Some b -> b_live b = true ->
  cancelled w (b_ctx b) = false -> b_noop b = false -> (0 <? b_max b) && exceeded e b (c_name c) = false ->
  b_vars b = None -> existsb (Z.eqb (c_name c)) (e_lfnames e) = true -> aget (c_name c) (b_fn b) = None ->
  step e w (OBackoff i c maxms errid s) = (w, RBad).
Proof.
  intros H L C N X V F A. simpl. unfold do_backoff. rewrite H, L, C, N, X. simpl.
  unfold pick_fn, fn_base. rewrite A, F, V. reflexivity.
Qed.

Lemma dom_noop e w i b c maxms errid s : nth_error (w_bos w) i = Some b -> b_live b = true ->
  cancelled w (b_ctx b) = false -> b_noop b = true -> step e w (OBackoff i c maxms errid s) = (w, RErrOrig).
Proof. intros H L C N. simpl. unfold do_backoff. rewrite H, L, C, N. reflexivity. Qed.

Lemma dom_noop_fork e w i b : nth_error (w_bos w) i = Some b -> b_live b = true -> b_noop b = true -> b_vars b = None ->
  (exists nb, nth_error (w_bos (fst (step e w (OFork i)))) (length (w_bos w)) = Some nb /\ b_noop nb = false /\ b_vars nb = None /\ b_max nb = b_max b) /\
  (exists nb, nth_error (w_bos (fst (step e w (OClone i)))) (length (w_bos w)) = Some nb /\ b_noop nb = false /\ b_vars nb = None /\ b_max nb = b_max b).
Proof.
  intros H L N V. split.
  - destruct (fork_start e w i b H L) as (w' & nb & E & Hnb & _ & _ & Mx & Vr & _ & _ & _ & No & _). rewrite E. exists nb. repeat split; auto. congruence.
  - destruct (clone_start e w i b H L) as (w' & nb & E & Hnb & _ & _ & Mx & Vr & _ & _ & _ & No & _). rewrite E. exists nb. repeat split; auto. congruence.
Qed.

Lemma domain_weight0 : forall e w v x,
  nth_error (w_vars w) v = Some x -> v_weight x = 0 ->
  (forall m, 0 < m -> step e w (ONew m v 0) = (w, RBad)) /\
  (forall i b m, nth_error (w_bos w) i = Some b -> b_live b = true -> 0 < m -> b_vars b = Some v ->
                 step e w (OResetMax i m) = (w, RBad)).
Proof. intros e w v x H H0. split; intros; [eapply dom_weight0_new|eapply dom_weight0_resetmax]; eauto. Qed.

Lemma domain_noop : forall e w i b,
  nth_error (w_bos w) i = Some b -> b_live b = true ->
  (b_noop b = true -> cancelled w (b_ctx b) = false ->
     forall c maxms errid s, step e w (OBackoff i c maxms errid s) = (w, RErrOrig)) /\
  (b_noop b = true -> b_vars b = None ->
     (exists nb, nth_error (w_bos (fst (step e w (OFork i)))) (length (w_bos w)) = Some nb /\ b_noop nb = false /\ b_vars nb = None /\ b_max nb = b_max b) /\
     (exists nb, nth_error (w_bos (fst (step e w (OClone i)))) (length (w_bos w)) = Some nb /\ b_noop nb = false /\ b_vars nb = None /\ b_max nb = b_max b)) /\
  (b_vars b = None -> forall m, 0 < m -> step e w (OResetMax i m) = (w, RBad)) /\
  (b_vars b = None -> cancelled w (b_ctx b) = false -> b_noop b = false ->
     forall c maxms errid s, (0 <? b_max b) && exceeded e b (c_name c) = false ->
       existsb (Z.eqb (c_name c)) (e_lfnames e) = true -> aget (c_name c) (b_fn b) = None ->
       step e w (OBackoff i c maxms errid s) = (w, RBad)).
Proof.
  intros e w i b H L. split; [|split; [|split]]; intros.
  - eapply dom_noop; eauto.
  - eapply dom_noop_fork; eauto.
  - eapply dom_nilvars_resetmax; eauto.
  - eapply dom_nilvars_lockfast; eauto.
Qed.
