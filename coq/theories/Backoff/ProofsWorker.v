(* Backoff/ProofsWorker.v — the consumers' pattern: fork; one clone of the FORK per further worker; every worker backs
   off on its own back-offer; the last finished worker is merged into the caller's back-offer. *)
From Coq Require Import ZArith List Bool Lia.
From Verif Require Import Backoff.Model Backoff.ProofsBase Backoff.ProofsStep Backoff.ProofsInv Backoff.ProofsAcct.
Import ListNotations.
Open Scope Z_scope.

Definition op_target (o : op) : option nat := match o with OBackoff i _ _ _ _ => Some i | _ => None end.
Definition log_entry_i (o : op) (r : res) : list (nat * (Z * Z)) :=
  match o, r with
  | OBackoff i c _ _ _, ROk x => [(i, (c_name c, x))]
  | OBackoff i c _ _ _, RKilled x _ => [(i, (c_name c, x))]
  | _, _ => []
  end.
Fixpoint run_logi (e : env) (w : world) (ops : list op) : world * list (nat * (Z * Z)) :=
  match ops with
  | [] => (w, [])
  | o :: r => let wr := step e w o in let wl := run_logi e (fst wr) r in (fst wl, log_entry_i o (snd wr) ++ snd wl)
  end.
(* the log of worker k *)
Definition for_idx (k : nat) (lg : list (nat * (Z * Z))) : list (Z * Z) :=
  map snd (filter (fun x => Nat.eqb (fst x) k) lg).

(* the workers' phase: only back-offs, never on the caller's back-offer [i] *)
Definition worker_op (i : nat) (o : op) : Prop := exists j c m er s, o = OBackoff j c m er s /\ j <> i.

Lemma workers_acct e i k ops : Forall (worker_op i) ops -> forall w f,
  nth_error (w_bos w) k = Some f ->
  exists f', nth_error (w_bos (fst (run_logi e w ops))) k = Some f' /\
    b_total f' = b_total f + sum_all (for_idx k (snd (run_logi e w ops))) /\
    b_excl f' = b_excl f + sum_if (is_excl e) (for_idx k (snd (run_logi e w ops))) /\
    (forall n, zget n (b_sleep f') = zget n (b_sleep f) + sum_if (Z.eqb n) (for_idx k (snd (run_logi e w ops))) /\
               zget n (b_times f') = zget n (b_times f) + cnt_if (Z.eqb n) (for_idx k (snd (run_logi e w ops)))) /\
    b_parent f' = b_parent f /\ b_max f' = b_max f /\ b_live f' = b_live f /\
    length (w_bos (fst (run_logi e w ops))) = length (w_bos w) /\
    nth_error (w_bos (fst (run_logi e w ops))) i = nth_error (w_bos w) i.
Proof.
  induction 1 as [|o r Ho _ IH]; intros w f Hf.
  - simpl. exists f. unfold for_idx, sum_all, sum_if, cnt_if. simpl. repeat split; auto; lia.
  - destruct Ho as (j & c & m & er & s & -> & Nj). cbn [run_logi].
    destruct (step e w (OBackoff j c m er s)) as [w1 r1] eqn:E. cbn [fst snd].
    simpl in E. apply do_backoff_cases in E as [[-> R]|(b & fs & Hn & Lv & _ & _ & _ & _ & _ & -> & ->)].
    + assert (log_entry_i (OBackoff j c m er s) r1 = []) as ->.
      { destruct R as [->|[->|(b0 & _ & _ & ->)]]; reflexivity. }
      simpl. apply IH; auto.
    + assert (log_entry_i (OBackoff j c m er s) (kill_res w b (cut s m)) = [(j, (c_name c, cut s m))]) as ->.
      { unfold kill_res. destruct (_ =? 0); reflexivity. }
      assert (Li : nth_error (w_bos (set_bo w j (slept_bo e b c fs s m er))) i = nth_error (w_bos w) i).
      { simpl. apply nth_upd_other. auto. }
      destruct (Nat.eq_dec j k) as [->|Njk].
      * assert (b = f) by congruence. subst b.
        assert (Hj : nth_error (w_bos (set_bo w k (slept_bo e f c fs s m er))) k = Some (slept_bo e f c fs s m er)).
        { simpl. apply nth_upd_same. eapply nth_lt; eauto. }
        destruct (IH _ _ Hj) as (f' & N & T & X & M & P & Mx & Lv' & Len & Oth).
        exists f'. unfold for_idx in *. simpl app. cbn [filter fst]. rewrite Nat.eqb_refl. cbn [map snd].
        unfold sum_all, sum_if, cnt_if in *. cbn [fold_right fst snd].
        split; auto. split; [rewrite T; simpl; lia|]. split.
        { rewrite X. simpl. destruct (is_excl e (c_name c)); lia. }
        split.
        { intros n. destruct (M n) as [M1 M2]. rewrite M1, M2. cbn [slept_bo b_sleep b_times].
          destruct (n =? c_name c) eqn:Q.
          - apply Z.eqb_eq in Q. subst n. rewrite !zget_zadd_same. lia.
          - apply Z.eqb_neq in Q. rewrite !zget_zadd_other by congruence. lia. }
        simpl in *. rewrite length_upd in Len. repeat split; auto; try congruence.
      * assert (Hk : nth_error (w_bos (set_bo w j (slept_bo e b c fs s m er))) k = Some f).
        { simpl. rewrite nth_upd_other by auto. auto. }
        destruct (IH _ _ Hk) as (f' & N & T & X & M & P & Mx & Lv' & Len & Oth).
        exists f'. unfold for_idx in *. simpl app. cbn [filter fst].
        apply Nat.eqb_neq in Njk. rewrite Njk.
        simpl in Len. rewrite length_upd in Len. repeat split; auto; try apply M; congruence.
Qed.

(* n clones of the fork [j]: everybody in [j, j+n] carries the caller's accounting and has the caller as parent *)
Definition worker_like (i : nat) (b f : bo) : Prop :=
  counters f = counters b /\ b_max f = b_max b /\ b_parent f = Some i /\ b_live f = true.

Lemma run_cons e w o r : run e w (o :: r) = run e (fst (step e w o)) r.
Proof. reflexivity. Qed.

Lemma clones_state e i j b : forall n w,
  nth_error (w_bos w) i = Some b -> (i < j)%nat -> (j < length (w_bos w))%nat ->
  (forall k, (j <= k < length (w_bos w))%nat -> exists f, nth_error (w_bos w) k = Some f /\ worker_like i b f) ->
  let w' := run e w (repeat (OClone j) n) in
  nth_error (w_bos w') i = Some b /\ length (w_bos w') = (length (w_bos w) + n)%nat /\
  (forall k, (j <= k < length (w_bos w'))%nat -> exists f, nth_error (w_bos w') k = Some f /\ worker_like i b f).
Proof.
  induction n; intros w Hi Lt Lj All.
  - simpl. repeat split; auto; lia.
  - destruct (All j ltac:(lia)) as (fj & Hj & Cj & Mj & Pj & Lvj).
    cbn [repeat]. rewrite run_cons.
    assert (E : fst (step e w (OClone j)) = mkWorld (w_bos w ++ [copy_bo fj (b_ctx fj) (b_parent fj)]) (w_ctxs w) (w_vars w) (w_cerr w)).
    { simpl. rewrite Hj, Lvj. reflexivity. }
    rewrite E. set (w1 := mkWorld _ _ _ _).
    assert (L1 : length (w_bos w1) = S (length (w_bos w))). { unfold w1. simpl. rewrite app_length. simpl. lia. }
    destruct (IHn w1) as (A & B & D).
    + unfold w1. simpl. apply nth_app_l. auto.
    + auto.
    + lia.
    + intros k Hk. unfold w1. simpl. destruct (Nat.eq_dec k (length (w_bos w))) as [->|Nk].
      * rewrite nth_app_new. eexists. split; eauto. unfold worker_like, copy_bo; simpl.
        inversion Cj. unfold counters. simpl. repeat split; auto; congruence.
      * destruct (All k ltac:(lia)) as (f & Hf & W). exists f. split; auto. apply nth_app_l. auto.
    + split; auto. split; [lia|]. auto.
Qed.

(* the theorem of the pattern: whichever worker k (the fork or one of its clones) finished last and is merged, the caller
   ends with exactly its own accounting at the fork plus the sleeps logged for worker k — no other worker's sleep is
   counted, none of k's is lost *)
Lemma worker_pattern e w i b n wops k :
  nth_error (w_bos w) i = Some b -> b_live b = true ->
  let j := length (w_bos w) in
  Forall (worker_op i) wops -> (j <= k <= j + n)%nat ->
  let w1 := fst (step e w (OFork i)) in
  let w2 := run e w1 (repeat (OClone j) n) in
  let w3 := fst (run_logi e w2 wops) in
  let lg := for_idx k (snd (run_logi e w2 wops)) in
  let w4 := fst (step e w3 (OMerge i k)) in
  exists b4, nth_error (w_bos w4) i = Some b4 /\
    b_total b4 = b_total b + sum_all lg /\
    b_excl b4 = b_excl b + sum_if (is_excl e) lg /\
    (forall nm, zget nm (b_sleep b4) = zget nm (b_sleep b) + sum_if (Z.eqb nm) lg /\
                zget nm (b_times b4) = zget nm (b_times b) + cnt_if (Z.eqb nm) lg) /\
    b_max b4 = b_max b.
Proof.
  intros Hi Li j F Hk w1 w2 w3 lg w4.
  destruct (fork_start e w i b Hi Li) as (w1' & nb & E & Hnb & Len & Cn & Mx & _ & Pa & _ & Lnb & _ & _ & Keep).
  assert (w1 = w1') by (unfold w1; rewrite E; reflexivity). subst w1'. fold j in Hnb.
  pose proof (nth_lt _ _ _ Hi) as Lt. fold j in Lt.
  destruct (clones_state e i j b n w1) as (Hi2 & Len2 & All2); auto; try lia.
  { intros q Hq. assert (q = j) by lia. subst q. exists nb. split; auto. repeat split; auto. }
  fold w2 in Hi2, Len2, All2.
  destruct (All2 k ltac:(lia)) as (fk & Hfk & Ck & Mk & Pk & Lk).
  destruct (workers_acct e i k wops F w2 fk Hfk) as (f' & N & T & X & M & P & Mx' & Lv & Len' & Keep3).
  fold w3 lg in N, T, X, M, Len', Keep3.
  assert (Hi3 : nth_error (w_bos w3) i = Some b) by (rewrite Keep3; auto).
  unfold w4. simpl. rewrite Hi3, N, Li, Lv, Lk. simpl. rewrite P, Pk.
  destruct (length (w_bos w3)) eqn:Z0; [rewrite Len', Len2, Len in Z0; lia|].
  simpl. rewrite Nat.eqb_refl. simpl.
  exists (merged b f'). split.
  { rewrite nth_upd_other by lia. apply nth_upd_same. eapply nth_lt; eauto. }
  inversion Ck as [[C1 C2 C3 C4 C5 C6 C7]]. simpl.
  split; [rewrite T, C1; reflexivity|]. split; [rewrite X, C2; reflexivity|]. split; [|auto].
  intros nm. destruct (M nm) as [M1 M2]. rewrite M1, M2, C6, C7. auto.
Qed.
