(* Backoff/ProofsBase.v — list / assoc lemmas, range of an admissible sleep, per-back-offer invariants *)
From Coq Require Import ZArith List Bool Lia.
From Verif Require Import Backoff.Model.
Import ListNotations.
Open Scope Z_scope.

(* ---------- upd / nth_error ---------- *)
Lemma length_upd {A} i (x : A) l : length (upd i x l) = length l.
Proof. revert i; induction l; destruct i; simpl; auto. Qed.

Lemma nth_upd_same {A} i (x : A) l : (i < length l)%nat -> nth_error (upd i x l) i = Some x.
Proof. revert i; induction l; destruct i; simpl; intros; try lia; auto. apply IHl; lia. Qed.

Lemma nth_upd_other {A} i j (x : A) l : i <> j -> nth_error (upd i x l) j = nth_error l j.
Proof. revert i j; induction l; destruct i, j; simpl; intros; try congruence; auto. Qed.

Lemma nth_upd {A} i j (x y : A) l : nth_error (upd i x l) j = Some y ->
  (i = j /\ y = x) \/ (i <> j /\ nth_error l j = Some y).
Proof.
  intros H. destruct (Nat.eq_dec i j) as [->|N].
  - left. split; auto. assert (j < length l)%nat.
    { rewrite <- (length_upd j x l). apply nth_error_Some. congruence. }
    rewrite nth_upd_same in H by auto. congruence.
  - right. rewrite nth_upd_other in H by auto. auto.
Qed.

Lemma Forall_upd {A} (P : A -> Prop) i x l : Forall P l -> P x -> Forall P (upd i x l).
Proof. intros H Hx; revert i; induction H; destruct i; simpl; auto. Qed.

Lemma Forall_nth {A} (P : A -> Prop) l i x : Forall P l -> nth_error l i = Some x -> P x.
Proof. intros H E. rewrite Forall_forall in H. apply H. eapply nth_error_In; eauto. Qed.

Lemma nth_app_l {A} (l r : list A) i x : nth_error l i = Some x -> nth_error (l ++ r) i = Some x.
Proof. intros. rewrite nth_error_app1; auto. apply nth_error_Some. congruence. Qed.

Lemma nth_app_new {A} (l : list A) x : nth_error (l ++ [x]) (length l) = Some x.
Proof. rewrite nth_error_app2 by lia. rewrite Nat.sub_diag. reflexivity. Qed.

Lemma nth_app_inv {A} (l : list A) x j y : nth_error (l ++ [x]) j = Some y ->
  (j < length l /\ nth_error l j = Some y)%nat \/ (j = length l /\ y = x).
Proof.
  intros H. destruct (Nat.lt_ge_cases j (length l)).
  - left. rewrite nth_error_app1 in H by auto. auto.
  - right. assert (j < length (l ++ [x]))%nat by (apply nth_error_Some; congruence).
    rewrite app_length in H1; simpl in H1. assert (j = length l) by lia. subst.
    rewrite nth_app_new in H. split; congruence.
Qed.

(* ---------- assoc lists ---------- *)
Lemma aget_aset_same {A} k (v : A) l : aget k (aset k v l) = Some v.
Proof. induction l as [|[k' v'] r]; simpl; [rewrite Z.eqb_refl; auto|].
  destruct (k =? k') eqn:E; simpl; rewrite ?Z.eqb_refl, ?E; auto. Qed.

Lemma aget_aset_other {A} k k' (v : A) l : k <> k' -> aget k' (aset k v l) = aget k' l.
Proof. intros N. induction l as [|[k2 v2] r]; simpl.
  - destruct (k' =? k) eqn:E; auto. apply Z.eqb_eq in E. congruence.
  - destruct (k =? k2) eqn:E; simpl.
    + apply Z.eqb_eq in E; subst. destruct (k' =? k2) eqn:E2; auto. apply Z.eqb_eq in E2. congruence.
    + rewrite IHr. auto.
Qed.

Lemma in_aset {A} k (v : A) l n x : In (n, x) (aset k v l) -> (n = k /\ x = v) \/ In (n, x) l.
Proof. induction l as [|[k2 v2] r]; simpl.
  - intros [E|[]]. inversion E; auto.
  - destruct (k =? k2) eqn:E; simpl; intros [H|H]; auto.
    + inversion H; auto.
    + destruct (IHr H); auto.
Qed.

Lemma zget_zadd_same k d l : zget k (zadd k d l) = zget k l + d.
Proof. unfold zadd, zget at 1. rewrite aget_aset_same. reflexivity. Qed.
Lemma zget_zadd_other k k' d l : k <> k' -> zget k' (zadd k d l) = zget k' l.
Proof. intros. unfold zadd, zget. rewrite aget_aset_other; auto. Qed.

(* ---------- admissible sleeps ---------- *)
Definition fn_wf (C : Z) (f : fnst) : Prop := 0 <= f_cap f <= C /\ 2 <= f_base f.

Lemma new_fn_wf C base cap jit : 0 <= cap <= C -> fn_wf C (new_fn base cap jit).
Proof. unfold fn_wf, new_fn; simpl. destruct (base <? 2) eqn:E; [|apply Z.ltb_ge in E]; lia. Qed.

Lemma expo_range base cap n : 0 <= cap -> 2 <= base -> 0 <= expo base cap n <= cap.
Proof. intros. unfold expo. assert (0 <= 2 ^ n) by (apply Z.pow_nonneg; lia). nia. Qed.

Lemma quot2 v : 0 <= v -> 0 <= Z.quot v 2 /\ Z.quot v 2 + Z.quot v 2 <= v.
Proof. intros. rewrite Z.quot_div_nonneg by lia. pose proof (Z.div_mod v 2). pose proof (Z.mod_pos_bound v 2). lia. Qed.

Lemma sleep_ok_range C f s : fn_wf C f -> sleep_ok f s = true -> 0 <= s <= f_cap f.
Proof.
  intros [Hc Hb]. unfold sleep_ok.
  pose proof (expo_range (f_base f) (f_cap f) (f_att f) ltac:(lia) Hb) as Hv.
  set (v := expo (f_base f) (f_cap f) (f_att f)) in *.
  destruct (f_jit f =? 1). { intros E. apply Z.eqb_eq in E. lia. }
  destruct (f_jit f =? 2). { intros E. apply andb_true_iff in E as [E1 E2]. apply Z.leb_le in E1. apply Z.ltb_lt in E2. lia. }
  destruct (f_jit f =? 3). { intros E. apply andb_true_iff in E as [E1 E2]. apply Z.leb_le in E1. apply Z.ltb_lt in E2.
    pose proof (quot2 v ltac:(lia)). lia. }
  destruct (f_jit f =? 4).
  { intros E. apply orb_true_iff in E as [E|E].
    - apply andb_true_iff in E as [E E3]. apply andb_true_iff in E as [E1 E2]. apply Z.leb_le in E1, E3. lia.
    - apply andb_true_iff in E as [E _]. apply andb_true_iff in E as [E1 _]. apply Z.eqb_eq in E1. lia. }
  intros E. apply Z.eqb_eq in E. lia.
Qed.

Lemma cut_range s m : 0 <= s -> 0 <= cut s m <= s /\ (0 <= m -> cut s m <= m).
Proof. intros. unfold cut. destruct (0 <=? m) eqn:E1; destruct (m <? s) eqn:E2; simpl;
  try apply Z.leb_le in E1; try apply Z.leb_gt in E1; try apply Z.ltb_lt in E2; try apply Z.ltb_ge in E2; lia. Qed.

(* the exponential envelope for the three jitters that use [expo] *)
Lemma sleep_ok_expo f s : sleep_ok f s = true -> 1 <= f_jit f <= 3 ->
  s <= expo (f_base f) (f_cap f) (f_att f) \/ expo (f_base f) (f_cap f) (f_att f) < 0.
Proof.
  unfold sleep_ok. set (v := expo _ _ _). intros E J.
  destruct (f_jit f =? 1) eqn:J1. { apply Z.eqb_eq in E. lia. }
  destruct (f_jit f =? 2) eqn:J2. { apply andb_true_iff in E as [_ E]. apply Z.ltb_lt in E. lia. }
  destruct (f_jit f =? 3) eqn:J3.
  { apply andb_true_iff in E as [_ E]. apply Z.ltb_lt in E. destruct (Z.lt_ge_cases v 0); auto.
    pose proof (quot2 v ltac:(lia)). lia. }
  apply Z.eqb_neq in J1, J2, J3. lia.
Qed.

(* ---------- per-back-offer invariants ---------- *)
(* accounting invariant: C bounds every cap, L bounds every excluded limit *)
Definition acct_inv (C L : Z) (b : bo) : Prop :=
  0 <= b_excl b <= b_total b /\
  (0 < b_max b -> b_total b - b_excl b < b_max b + C) /\
  (0 < b_max b -> b_excl b < Z.max L (b_max b) + C) /\
  Forall (fun nf => fn_wf C (snd nf)) (b_fn b).

(* every kind that has a sleep counter also has a config recorded *)
Definition keys_inv (b : bo) : Prop :=
  forall n v, In (n, v) (b_sleep b) -> exists c, In c (b_cfgs b) /\ c_name c = n.

Definition env_bound (e : env) (L : Z) : Prop := forall n lim, excl_limit e n = Some lim -> lim <= L.

Lemma aget_Forall {A} (P : Z * A -> Prop) k l v : Forall P l -> aget k l = Some v -> P (k, v).
Proof. induction 1 as [|[k' v'] r]; simpl; [discriminate|].
  destruct (k =? k') eqn:E; auto. apply Z.eqb_eq in E; subst. intros X; inversion X; subst; auto. Qed.

Lemma Forall_aset {A} (P : Z * A -> Prop) k v l : Forall P l -> P (k, v) -> Forall P (aset k v l).
Proof. induction 1 as [|[k' v'] r]; simpl; auto. destruct (k =? k'); auto. Qed.
