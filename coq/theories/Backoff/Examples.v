(* Backoff/Examples.v — constants used by the non-vacuity Examples of Props.v *)
From Coq Require Import ZArith List.
From Verif Require Import Backoff.Model.
Import ListNotations.
Open Scope Z_scope.

Definition ex_env := mkEnv [(4, 600000)] [6].
Definition txnLock := mkCfg 1 2 100 3000 3 2.
Definition regionMiss := mkCfg 2 3 2 500 1 3.
Definition busy := mkCfg 3 4 2000 10000 3 4.
(* the regression scenario of the fixed UpdateUsingForked defect: budget 400, 525 ms of txnLock in a fork,
   merge, next back-off on the parent reports txnLock's error (id 2) *)
Definition ex_ops := [ONewVars 1 10; ONew 400 1 0; OFork 0;
                      OBackoff 1 txnLock (-1) 1 75; OBackoff 1 txnLock (-1) 2 150; OBackoff 1 txnLock (-1) 3 300;
                      OMerge 0 1].
