(* Backoff/ProofsAcct.v — longest sleeper, cancel / kill, fork / clone start, exact merge accounting *)
From Coq Require Import ZArith List Bool Lia.
From Verif Require Import Backoff.Model Backoff.ProofsBase Backoff.ProofsStep Backoff.ProofsInv.
Import ListNotations.
Open Scope Z_scope.

(* ---------- longest sleeper ---------- *)
Lemma longest_val_nonneg e l : 0 <= longest_val e l.
Proof. induction l as [|[n v] r]; simpl; [lia|]. destruct (is_excl e n); lia. Qed.

Lemma longest_val_max e l n v : In (n, v) l -> is_excl e n = false -> v <= longest_val e l.
Proof.
  induction l as [|[n' v'] r]; simpl; [tauto|]. intros [E|I] X.
  - inversion E; subst. rewrite X. lia.
  - specialize (IHr I X). destruct (is_excl e n'); lia.
Qed.

Lemma longest_val_attained e l : 0 < longest_val e l -> exists n, In (n, longest_val e l) l /\ is_excl e n = false.
Proof.
  induction l as [|[n v] r]; simpl; [lia|]. destruct (is_excl e n) eqn:X.
  - intros P. destruct (IHr P) as (n0 & I & E). eauto.
  - intros P. destruct (Z.max_spec v (longest_val e r)) as [[Lt ->]|[Ge ->]].
    + destruct (IHr ltac:(lia)) as (n0 & I & E). eauto.
    + exists n. auto.
Qed.

Lemma first_cfg_some n l : (exists c, In c l /\ c_name c = n) ->
  exists cf, first_cfg n l = Some cf /\ c_name cf = n /\ In cf l.
Proof.
  induction l as [|c0 r]; intros (c & I & E); simpl in *; [tauto|].
  destruct (c_name c0 =? n) eqn:X.
  - apply Z.eqb_eq in X. eauto.
  - destruct I as [->|I]; [apply Z.eqb_neq in X; congruence|].
    destruct IHr as (cf & F & N & I'); eauto.
Qed.

Definition is_longest (e : env) (b : bo) (n : Z) : Prop :=
  is_excl e n = false /\ In (n, longest_val e (b_sleep b)) (b_sleep b) /\
  forall n' v', In (n', v') (b_sleep b) -> is_excl e n' = false -> v' <= longest_val e (b_sleep b).

Lemma longest_thm e ops i c maxms errid s w' cands :
  step e (run e init_world ops) (OBackoff i c maxms errid s) = (w', RExceeded cands) ->
  w' = run e init_world ops /\
  exists b, nth_error (w_bos (run e init_world ops)) i = Some b /\ 0 < b_max b /\ exceeded e b (c_name c) = true /\
    cands <> [] /\
    (0 < longest_val e (b_sleep b) ->
       forall r, In r cands -> exists n cf, r = Some (cur_err (run e init_world ops) cf) /\ first_cfg n (b_cfgs b) = Some cf /\ c_name cf = n /\ is_longest e b n) /\
    (longest_val e (b_sleep b) <= 0 -> cands = [cand_err (run e init_world ops) b 0]).
Proof.
  simpl. intros E.
  apply do_backoff_cases in E as [[-> [X|[X|(b & Hn & Hx & X)]]]|(b & f & _ & _ & _ & _ & _ & _ & _ & _ & X)]; try discriminate.
  2:{ unfold kill_res in X. destruct (_ =? 0); discriminate. }
  split; auto. exists b. apply andb_true_iff in Hx as [Hm Hx]. apply Z.ltb_lt in Hm.
  inversion X; subst cands; clear X. repeat split; auto.
  - unfold longest_cands. destruct (0 <? longest_val e (b_sleep b)) eqn:P; [|discriminate].
    apply Z.ltb_lt in P. destruct (longest_val_attained _ _ P) as (n & I & Ex).
    intros Z0. apply (f_equal (@length _)) in Z0. rewrite map_length in Z0. simpl in Z0. apply length_zero_iff_nil in Z0.
    assert (In (n, longest_val e (b_sleep b)) (filter (fun nv => negb (is_excl e (fst nv)) && (snd nv =? longest_val e (b_sleep b))) (b_sleep b))).
    { apply filter_In. split; auto. simpl. rewrite Ex, Z.eqb_refl. auto. }
    rewrite Z0 in H. destruct H.
  - intros P r I. unfold longest_cands in I. apply Z.ltb_lt in P as P'. rewrite P' in I.
    apply in_map_iff in I as ([n v] & <- & I). apply filter_In in I as [I F]. simpl in *.
    apply andb_true_iff in F as [F1 F2]. apply negb_true_iff in F1. apply Z.eqb_eq in F2. subst v.
    pose proof (Forall_nth _ _ _ _ (reach_keys e ops) Hn) as K.
    destruct (first_cfg_some n (b_cfgs b) (K _ _ I)) as (cf & Fc & Nc & _).
    exists n, cf. unfold cand_err. rewrite Fc. repeat split; auto. intros. eapply longest_val_max; eauto.
  - intros P. unfold longest_cands. destruct (0 <? longest_val e (b_sleep b)) eqn:Q; auto. apply Z.ltb_lt in Q. lia.
Qed.

(* ---------- cancellation ---------- *)
Definition ctx_le (cs cs' : list (option nat * bool)) : Prop :=
  forall x p f, nth_error cs x = Some (p, f) -> exists f', nth_error cs' x = Some (p, f') /\ (f = true -> f' = true).

Lemma cancelled_fuel_mono cs cs' : ctx_le cs cs' -> forall k k' c, (k <= k')%nat ->
  cancelled_fuel k cs c = true -> cancelled_fuel k' cs' c = true.
Proof.
  intros Le. induction k; intros k' c Hk; simpl; [discriminate|].
  destruct k'; [lia|]. simpl. destruct (nth_error cs c) as [[p f]|] eqn:E; [|discriminate].
  destruct (Le _ _ _ E) as (f' & E' & Hf). rewrite E'. intros H. apply orb_true_iff in H as [H|H].
  - rewrite (Hf H). auto.
  - apply orb_true_iff. right. destruct p as [p|]; [|discriminate]. apply IHk; auto. lia.
Qed.

Lemma ctx_le_refl cs : ctx_le cs cs.
Proof. intros x p f H. eauto. Qed.

Lemma step_ctxs e w o : ctx_le (w_ctxs w) (w_ctxs (fst (step e w o))) /\
  (length (w_ctxs w) <= length (w_ctxs (fst (step e w o))))%nat.
Proof.
  assert (A : forall x : option nat * bool, ctx_le (w_ctxs w) (w_ctxs w ++ [x]) /\ (length (w_ctxs w) <= length (w_ctxs w ++ [x]))%nat).
  { intros x0. split; [|rewrite app_length; lia]. intros x p f H. exists f. split; auto. apply nth_app_l; auto. }
  pose proof (conj (ctx_le_refl (w_ctxs w)) (Nat.le_refl (length (w_ctxs w)))) as R.
  destruct o; simpl; auto.
  - dm; simpl; auto.
  - destruct (do_backoff e w i c maxms errid sleep) as [w' r] eqn:E.
    apply do_backoff_cases in E as [[-> _]|(b & f & _ & _ & _ & _ & _ & _ & _ & -> & _)]; simpl; auto.
  - dm; simpl; auto.
  - dm; simpl; auto.
  - dm; simpl; auto.
  - dm; simpl; auto.
  - dm; simpl; auto.
  - dm; simpl; auto. split; [|rewrite length_upd; lia].
    intros x q f H. destruct (Nat.eq_dec c x) as [->|N].
    + rewrite nth_upd_same by (eapply nth_lt; eauto). assert (q = o) by congruence. subst. eauto.
    + rewrite nth_upd_other by auto. eauto.
  - dm; simpl; auto.
  - dm; simpl; auto.
  - dm; simpl; auto.
Qed.

Lemma cancelled_step e w o c : cancelled w c = true -> cancelled (fst (step e w o)) c = true.
Proof.
  unfold cancelled. destruct (step_ctxs e w o) as [Le Len]. apply cancelled_fuel_mono; auto. lia.
Qed.

Lemma cancelled_run e ops w c : cancelled w c = true -> cancelled (run e w ops) c = true.
Proof. revert w; induction ops; simpl; auto. intros. apply IHops. apply cancelled_step; auto. Qed.

Lemma cancel_sets e w c p f : nth_error (w_ctxs w) c = Some (p, f) -> cancelled (fst (step e w (OCancel c))) c = true.
Proof.
  intros H. simpl. rewrite H. simpl. unfold cancelled. simpl.
  rewrite nth_upd_same by (eapply nth_lt; eauto). reflexivity.
Qed.

Definition backoff_on_cancelled (w : world) (o : op) : Prop :=
  match o with
  | OBackoff i _ _ _ _ => exists b, nth_error (w_bos w) i = Some b /\ b_live b = true /\ cancelled w (b_ctx b) = true
  | _ => False
  end.

Lemma cancelled_backoff e w i c maxms errid s b :
  nth_error (w_bos w) i = Some b -> b_live b = true -> cancelled w (b_ctx b) = true ->
  step e w (OBackoff i c maxms errid s) = (w, RErrOrig).
Proof. intros H L C. simpl. unfold do_backoff. rewrite H, L, C. reflexivity. Qed.

Lemma cancelled_backoffs e w ops : Forall (backoff_on_cancelled w) ops -> run e w ops = w.
Proof.
  induction 1 as [|o r Ho _ IH]; simpl; auto. destruct o; simpl in Ho; try tauto.
  destruct Ho as (b & H & L & C). change (run e (fst (step e w (OBackoff i c maxms errid sleep))) r = w).
  rewrite (cancelled_backoff e w i c maxms errid sleep b H L C). exact IH.
Qed.

(* a killed query never gets a nil error from a back-off, and pays for at most the one sleep of that call — unless the
   back-offer was marked KeepGoingWhenKilled (release requests): then the kill flag never ends a back-off *)
Lemma killed_backoff e w i c maxms errid s b w' r :
  nth_error (w_bos w) i = Some b ->
  step e w (OBackoff i c maxms errid s) = (w', r) ->
  (b_keep b = false -> killed_sig w b <> 0 ->
     (forall real, r <> ROk real) /\
     (w' = w \/ exists f, r = RKilled (cut s maxms) (killed_sig w b) /\ sleep_ok f s = true /\
                          w' = set_bo w i (slept_bo e b c f s maxms errid))) /\
  (b_keep b = true -> forall real sg, r <> RKilled real sg).
Proof.
  intros H E. simpl in E.
  apply do_backoff_cases in E as [[-> [->|[->|(b0 & _ & _ & ->)]]]|(b0 & f & Hn & _ & _ & _ & _ & _ & Hs & -> & ->)].
  1-3: split; [intros; split; [intros; discriminate|auto]|intros; discriminate].
  assert (b0 = b) by congruence. subst b0. unfold kill_res, kill_eff. split.
  - intros Kp K. rewrite Kp. apply Z.eqb_neq in K. rewrite K.
    split; [intros; discriminate|]. right. exists f. auto.
  - intros Kp real sg. rewrite Kp. simpl. discriminate.
Qed.

(* the flag: set by KeepGoingWhenKilled, copied by Fork and Clone, left alone by UpdateUsingForked, SetCtx and back-offs *)
Lemma keep_flag e w i b : nth_error (w_bos w) i = Some b -> b_live b = true ->
  (exists b', nth_error (w_bos (fst (step e w (OKeepGoing i)))) i = Some b' /\ b_keep b' = true /\
              b_total b' = b_total b /\ b_max b' = b_max b /\ b_ctx b' = b_ctx b) /\
  (exists nb, nth_error (w_bos (fst (step e w (OFork i)))) (length (w_bos w)) = Some nb /\ b_keep nb = b_keep b) /\
  (exists nb, nth_error (w_bos (fst (step e w (OClone i)))) (length (w_bos w)) = Some nb /\ b_keep nb = b_keep b) /\
  (forall j f, nth_error (w_bos w) j = Some f -> i <> j ->
     exists b', nth_error (w_bos (fst (step e w (OMerge i j)))) i = Some b' /\ b_keep b' = b_keep b) /\
  (forall c maxms errid s b', nth_error (w_bos (fst (step e w (OBackoff i c maxms errid s)))) i = Some b' -> b_keep b' = b_keep b).
Proof.
  intros H L. pose proof (nth_lt _ _ _ H) as Lt. split; [|split; [|split; [|split]]].
  - simpl. rewrite H, L. simpl. rewrite nth_upd_same by auto. eexists. split; eauto.
  - simpl. rewrite H, L. simpl. rewrite nth_app_new. eexists. split; eauto.
  - simpl. rewrite H, L. simpl. rewrite nth_app_new. eexists. split; eauto.
  - intros j f Hj N. simpl. rewrite H, Hj. destruct (negb (b_live b && b_live f)); simpl; eauto.
    destruct (on_chain _ _ _ _); simpl; eauto. rewrite nth_upd_other by auto. rewrite nth_upd_same by auto. eexists. split; eauto.
  - intros c maxms errid s b' Hb. destruct (step e w (OBackoff i c maxms errid s)) as [w' r] eqn:E. simpl in E.
    apply do_backoff_cases in E as [[-> _]|(b0 & f & Hn & _ & _ & _ & _ & _ & _ & -> & _)]; simpl in Hb.
    + congruence.
    + rewrite nth_upd_same in Hb by auto. assert (b0 = b) by congruence. subst. inversion Hb. reflexivity.
Qed.

(* ---------- fork / clone ---------- *)
Definition counters (b : bo) := (b_total b, b_excl b, b_errs b, b_errnum b, b_cfgs b, b_sleep b, b_times b).

Lemma fork_start e w i b : nth_error (w_bos w) i = Some b -> b_live b = true ->
  exists w' nb, step e w (OFork i) = (w', RNone) /\
    nth_error (w_bos w') (length (w_bos w)) = Some nb /\ length (w_bos w') = S (length (w_bos w)) /\
    counters nb = counters b /\ b_max nb = b_max b /\ b_vars nb = b_vars b /\ b_parent nb = Some i /\ b_fn nb = [] /\
    b_live nb = true /\ b_noop nb = false /\
    nth_error (w_ctxs w') (b_ctx nb) = Some (Some (b_ctx b), false) /\
    (forall k x, nth_error (w_bos w) k = Some x -> nth_error (w_bos w') k = Some x).
Proof.
  intros H L. simpl. rewrite H, L. eexists _, _. split; [reflexivity|]. simpl.
  rewrite nth_app_new, app_length. simpl. repeat split; auto; try lia.
  - apply nth_app_new.
  - intros. apply nth_app_l; auto.
Qed.

Lemma clone_start e w i b : nth_error (w_bos w) i = Some b -> b_live b = true ->
  exists w' nb, step e w (OClone i) = (w', RNone) /\
    nth_error (w_bos w') (length (w_bos w)) = Some nb /\ length (w_bos w') = S (length (w_bos w)) /\
    counters nb = counters b /\ b_max nb = b_max b /\ b_vars nb = b_vars b /\ b_parent nb = b_parent b /\ b_fn nb = [] /\
    b_live nb = true /\ b_noop nb = false /\ b_ctx nb = b_ctx b /\ w_ctxs w' = w_ctxs w /\
    (forall k x, nth_error (w_bos w) k = Some x -> nth_error (w_bos w') k = Some x).
Proof.
  intros H L. simpl. rewrite H, L. eexists _, _. split; [reflexivity|]. simpl.
  rewrite nth_app_new, app_length. simpl. repeat split; auto; try lia.
  intros. apply nth_app_l; auto.
Qed.

(* ---------- merge ---------- *)
Lemma merge_exact_gen e w i j b f : tree_ord (w_bos w) ->
  nth_error (w_bos w) i = Some b -> nth_error (w_bos w) j = Some f -> b_live b = true -> b_live f = true ->
  if on_chain (length (w_bos w)) (w_bos w) (b_parent f) i
  then exists w' b', step e w (OMerge i j) = (w', RNone) /\ nth_error (w_bos w') i = Some b' /\
         counters b' = counters f /\ b_max b' = b_max b /\ b_fn b' = b_fn b /\ b_parent b' = b_parent b /\ b_ctx b' = b_ctx b /\
         nth_error (w_bos w') j = Some (kill_bo f) /\
         (forall k, k <> i -> k <> j -> nth_error (w_bos w') k = nth_error (w_bos w) k)
  else step e w (OMerge i j) = (w, RNone).
Proof.
  intros T Hi Hj Li Lj. simpl. rewrite Hi, Hj, Li, Lj. simpl.
  destruct (on_chain _ _ _ _) eqn:Oc; auto.
  pose proof (on_chain_lt _ T _ _ _ _ Hj Oc) as Lt.
  eexists _, (merged b f). split; [reflexivity|]. simpl. repeat split; auto.
  - rewrite nth_upd_other by lia. apply nth_upd_same. eapply nth_lt; eauto.
  - apply nth_upd_same. rewrite length_upd. eapply nth_lt; eauto.
  - intros k N1 N2. rewrite !nth_upd_other by auto. auto.
Qed.

Lemma merge_exact e ops i j b f :
  let w := run e init_world ops in
  nth_error (w_bos w) i = Some b -> nth_error (w_bos w) j = Some f -> b_live b = true -> b_live f = true ->
  if on_chain (length (w_bos w)) (w_bos w) (b_parent f) i
  then exists w' b', step e w (OMerge i j) = (w', RNone) /\ nth_error (w_bos w') i = Some b' /\
         counters b' = counters f /\ b_max b' = b_max b /\ b_fn b' = b_fn b /\ b_parent b' = b_parent b /\ b_ctx b' = b_ctx b /\
         nth_error (w_bos w') j = Some (kill_bo f) /\
         (forall k, k <> i -> k <> j -> nth_error (w_bos w') k = nth_error (w_bos w) k)
  else step e w (OMerge i j) = (w, RNone).
Proof. intros w. apply merge_exact_gen. apply reach_tree_ord. Qed.

(* ---------- exact accounting of a run of back-offs on one back-offer ---------- *)
Definition log_entry (o : op) (r : res) : list (Z * Z) :=
  match o, r with
  | OBackoff _ c _ _ _, ROk x => [(c_name c, x)]
  | OBackoff _ c _ _ _, RKilled x _ => [(c_name c, x)]
  | _, _ => []
  end.
Fixpoint run_log (e : env) (w : world) (ops : list op) : world * list (Z * Z) :=
  match ops with
  | [] => (w, [])
  | o :: r => let wr := step e w o in let wl := run_log e (fst wr) r in (fst wl, log_entry o (snd wr) ++ snd wl)
  end.
Definition sum_all (lg : list (Z * Z)) : Z := fold_right (fun nv acc => snd nv + acc) 0 lg.
Definition sum_if (p : Z -> bool) (lg : list (Z * Z)) : Z := fold_right (fun nv acc => if p (fst nv) then snd nv + acc else acc) 0 lg.
Definition cnt_if (p : Z -> bool) (lg : list (Z * Z)) : Z := fold_right (fun nv acc => if p (fst nv) then 1 + acc else acc) 0 lg.

Definition is_backoff_on (j : nat) (o : op) : Prop := exists c m er s, o = OBackoff j c m er s.

Lemma backoffs_acct e j ops : Forall (is_backoff_on j) ops -> forall w f,
  nth_error (w_bos w) j = Some f ->
  exists f', nth_error (w_bos (fst (run_log e w ops))) j = Some f' /\
    b_total f' = b_total f + sum_all (snd (run_log e w ops)) /\
    b_excl f' = b_excl f + sum_if (is_excl e) (snd (run_log e w ops)) /\
    (forall n, zget n (b_sleep f') = zget n (b_sleep f) + sum_if (Z.eqb n) (snd (run_log e w ops)) /\
               zget n (b_times f') = zget n (b_times f) + cnt_if (Z.eqb n) (snd (run_log e w ops))) /\
    b_parent f' = b_parent f /\ b_max f' = b_max f /\ b_live f' = b_live f /\
    length (w_bos (fst (run_log e w ops))) = length (w_bos w) /\
    (forall k, k <> j -> nth_error (w_bos (fst (run_log e w ops))) k = nth_error (w_bos w) k).
Proof.
  induction 1 as [|o r Ho _ IH]; intros w f Hf.
  - simpl. exists f. unfold sum_all, sum_if, cnt_if. simpl. repeat split; auto; lia.
  - destruct Ho as (c & m & er & s & ->). cbn [run_log].
    destruct (step e w (OBackoff j c m er s)) as [w1 r1] eqn:E. cbn [fst snd].
    simpl in E. apply do_backoff_cases in E as [[-> R]|(b & fs & Hn & Lv & _ & _ & _ & _ & _ & -> & ->)].
    + assert (log_entry (OBackoff j c m er s) r1 = []) as ->.
      { destruct R as [->|[->|(b0 & _ & _ & ->)]]; reflexivity. }
      simpl. apply IH; auto.
    + assert (b = f) by congruence. subst b.
      assert (log_entry (OBackoff j c m er s) (kill_res w f (cut s m)) = [(c_name c, cut s m)]) as ->.
      { unfold kill_res. destruct (_ =? 0); reflexivity. }
      assert (Hj : nth_error (w_bos (set_bo w j (slept_bo e f c fs s m er))) j = Some (slept_bo e f c fs s m er)).
      { simpl. apply nth_upd_same. eapply nth_lt; eauto. }
      destruct (IH _ _ Hj) as (f' & N & T & X & M & P & Mx & Lv' & Len & Oth).
      exists f'. simpl app. unfold sum_all, sum_if, cnt_if in *. cbn [fold_right fst snd].
      split; auto. split; [rewrite T; simpl; lia|]. split.
      { rewrite X. simpl. destruct (is_excl e (c_name c)); lia. }
      split.
      { intros n. destruct (M n) as [M1 M2]. rewrite M1, M2. cbn [slept_bo b_sleep b_times].
        destruct (n =? c_name c) eqn:Q.
        - apply Z.eqb_eq in Q. subst n. rewrite !zget_zadd_same. lia.
        - apply Z.eqb_neq in Q. rewrite !zget_zadd_other by congruence. lia. }
      simpl in *. rewrite length_upd in Len. repeat split; auto; try congruence.
      intros k Nk. rewrite Oth by auto. apply nth_upd_other. auto.
Qed.

(* fork, sleep only in the fork, merge back: the parent has exactly its own counters plus the fork's sleeps *)
Lemma fork_merge_sum e w i b bops :
  nth_error (w_bos w) i = Some b -> b_live b = true ->
  let j := length (w_bos w) in
  Forall (is_backoff_on j) bops ->
  let w1 := fst (step e w (OFork i)) in
  let w2 := fst (run_log e w1 bops) in
  let lg := snd (run_log e w1 bops) in
  let w3 := fst (step e w2 (OMerge i j)) in
  exists b3, nth_error (w_bos w3) i = Some b3 /\
    b_total b3 = b_total b + sum_all lg /\
    b_excl b3 = b_excl b + sum_if (is_excl e) lg /\
    (forall n, zget n (b_sleep b3) = zget n (b_sleep b) + sum_if (Z.eqb n) lg /\
               zget n (b_times b3) = zget n (b_times b) + cnt_if (Z.eqb n) lg) /\
    b_max b3 = b_max b.
Proof.
  intros Hi Li j F w1 w2 lg w3.
  destruct (fork_start e w i b Hi Li) as (w1' & nb & E & Hnb & Len & Cn & Mx & _ & Pa & _ & Lnb & _ & _ & Keep).
  assert (w1 = w1') by (unfold w1; rewrite E; reflexivity). subst w1'. fold j in Hnb.
  destruct (backoffs_acct e j bops F w1 nb Hnb) as (f' & N & T & X & M & P & Mx' & Lv & Len' & Oth).
  fold w2 lg in N, T, X, M, Len', Oth.
  pose proof (nth_lt _ _ _ Hi) as Lt. fold j in Lt.
  assert (Hi2 : nth_error (w_bos w2) i = Some b). { rewrite Oth by lia. apply Keep; auto. }
  unfold w3. simpl. rewrite Hi2, N, Li, Lv, Lnb. simpl.
  rewrite P, Pa. destruct (length (w_bos w2)) eqn:Z0; [rewrite Len', Len in Z0; lia|].
  simpl. rewrite Nat.eqb_refl. simpl.
  exists (merged b f'). split.
  { rewrite nth_upd_other by lia. apply nth_upd_same. eapply nth_lt; eauto. }
  inversion Cn as [[C1 C2 C3 C4 C5 C6 C7]]. simpl.
  split; [rewrite T, C1; reflexivity|]. split; [rewrite X, C2; reflexivity|]. split; [|auto].
  intros nm. destruct (M nm) as [M1 M2]. rewrite M1, M2, C6, C7. auto.
Qed.

Lemma fork_clone_start : forall e w i b, nth_error (w_bos w) i = Some b -> b_live b = true ->
  (exists w' nb, step e w (OFork i) = (w', RNone) /\
    nth_error (w_bos w') (length (w_bos w)) = Some nb /\ length (w_bos w') = S (length (w_bos w)) /\
    counters nb = counters b /\ b_max nb = b_max b /\ b_vars nb = b_vars b /\ b_parent nb = Some i /\ b_fn nb = [] /\
    b_live nb = true /\ b_noop nb = false /\
    nth_error (w_ctxs w') (b_ctx nb) = Some (Some (b_ctx b), false) /\
    (forall k x, nth_error (w_bos w) k = Some x -> nth_error (w_bos w') k = Some x)) /\
  (exists w' nb, step e w (OClone i) = (w', RNone) /\
    nth_error (w_bos w') (length (w_bos w)) = Some nb /\ length (w_bos w') = S (length (w_bos w)) /\
    counters nb = counters b /\ b_max nb = b_max b /\ b_vars nb = b_vars b /\ b_parent nb = b_parent b /\ b_fn nb = [] /\
    b_live nb = true /\ b_noop nb = false /\ b_ctx nb = b_ctx b /\ w_ctxs w' = w_ctxs w /\
    (forall k x, nth_error (w_bos w) k = Some x -> nth_error (w_bos w') k = Some x)).
Proof. intros. split; [apply fork_start|apply clone_start]; auto. Qed.
