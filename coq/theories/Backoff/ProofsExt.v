(* Backoff/ProofsExt.v — extension round: budget for ALL sequences (ghost high-water budget), integer ranges
   (no overflow), expo saturation, closures of well-formed kinds never draw from an empty interval. *)
From Coq Require Import ZArith List Bool Lia.
From Verif Require Import Backoff.Model Backoff.ProofsBase Backoff.ProofsStep Backoff.ProofsInv.
Import ListNotations.
Open Scope Z_scope.

(* ---------- general budget invariant ---------- *)
Definition gen_inv (C L : Z) (b : bo) : Prop :=
  0 <= b_excl b <= b_total b /\
  Forall (fun nf => fn_wf C (snd nf)) (b_fn b) /\
  (b_max b <= 0 -> b_hi b = None) /\
  (forall h, b_hi b = Some h -> b_max b <= h /\ b_total b - b_excl b < h + C /\ b_excl b < Z.max L h + C).

Lemma budget_hi_spec m : (m <= 0 -> budget_hi m = None) /\ (forall h, budget_hi m = Some h -> h = m /\ 0 < m).
Proof. unfold budget_hi. destruct (0 <? m) eqn:E; [apply Z.ltb_lt in E|apply Z.ltb_ge in E]; split; intros; try lia; try congruence.
  inversion H; lia. Qed.

Lemma gen_pick_fn_wf C L e w b c f : gen_inv C L b -> 0 <= c_cap c <= C -> pick_fn e w b c = Some f -> fn_wf C f.
Proof.
  intros (_ & Hf & _) Hc. unfold pick_fn.
  destruct (aget (c_name c) (b_fn b)) as [f0|] eqn:E.
  - intros X; inversion X; subst. apply (aget_Forall _ _ _ _ Hf E).
  - destruct (fn_base e w b c); [|discriminate]. intros X; inversion X. apply new_fn_wf; auto.
Qed.

Lemma slept_gen C L e b c f s maxms errid :
  0 <= C -> env_bound e L -> gen_inv C L b -> fn_wf C f -> sleep_ok f s = true ->
  (0 <? b_max b) && exceeded e b (c_name c) = false ->
  gen_inv C L (slept_bo e b c f s maxms errid).
Proof.
  intros HC HL (H1 & H4 & H5 & H6) Hf Hs Hx.
  pose proof (sleep_ok_range C f s Hf Hs) as Hr. destruct Hf as [Hcap Hbase].
  destruct (cut_range s maxms ltac:(lia)) as [Hcut _]. set (real := cut s maxms) in *.
  assert (Hx' : 0 < b_max b -> exceeded e b (c_name c) = false).
  { intros P. apply Z.ltb_lt in P. rewrite P in Hx. exact Hx. }
  unfold gen_inv, slept_bo; simpl. fold real. unfold exceeded in Hx'.
  assert (Fn : Forall (fun nf => fn_wf C (snd nf)) (aset (c_name c) (fn_next f s) (b_fn b))).
  { apply Forall_aset; auto. simpl. split; simpl; lia. }
  destruct (is_excl e (c_name c)) eqn:Ex.
  - destruct (is_excl_limit _ _ Ex) as [lim El]. rewrite El in Hx'. pose proof (HL _ _ El).
    refine (conj _ (conj Fn (conj H5 _))); [lia|]. intros h Hh. destruct (H6 h Hh) as (A & B & D).
    destruct (Z.lt_ge_cases 0 (b_max b)) as [P|P]; [|rewrite (H5 P) in Hh; discriminate].
    specialize (Hx' P). apply orb_false_iff in Hx' as [X1 X2]. rewrite Z.geb_leb in X1. apply Z.leb_gt in X1.
    split; auto. split; [lia|].
    apply andb_false_iff in X2 as [X2|X2]; rewrite Z.geb_leb in X2; apply Z.leb_gt in X2; lia.
  - refine (conj _ (conj Fn (conj H5 _))); [lia|]. intros h Hh. destruct (H6 h Hh) as (A & B & D).
    destruct (Z.lt_ge_cases 0 (b_max b)) as [P|P]; [|rewrite (H5 P) in Hh; discriminate].
    specialize (Hx' P). apply orb_false_iff in Hx' as [X1 _]. rewrite Z.geb_leb in X1. apply Z.leb_gt in X1.
    split; auto. split; lia.
Qed.

Lemma reset_gen C L b m : 0 <= C -> gen_inv C L (reset_bo b m).
Proof.
  intros HC. unfold gen_inv, reset_bo; simpl. destruct (budget_hi_spec m) as [A B].
  refine (conj _ (conj _ (conj A _))); [lia|constructor|]. intros h Hh. destruct (B h Hh). lia.
Qed.

Lemma empty_gen C L ctx noop v m : 0 <= C -> gen_inv C L (empty_bo ctx noop v m).
Proof.
  intros HC. unfold gen_inv, empty_bo; simpl. destruct (budget_hi_spec m) as [A B].
  refine (conj _ (conj _ (conj A _))); [lia|constructor|]. intros h Hh. destruct (B h Hh). lia.
Qed.

Lemma copy_gen C L b ctx p : gen_inv C L b -> gen_inv C L (copy_bo b ctx p).
Proof. intros (H1 & _ & H5 & H6). unfold gen_inv, copy_bo; simpl. repeat split; auto; try lia; apply (H6 h H). Qed.

Lemma merged_gen C L b f : gen_inv C L b -> gen_inv C L f -> gen_inv C L (merged b f).
Proof.
  intros (_ & B4 & _ & _) (F1 & _ & _ & F6). unfold gen_inv, merged; simpl.
  destruct (budget_hi_spec (b_max b)) as [A B].
  refine (conj F1 (conj B4 (conj _ _))).
  - intros P. rewrite (A P). reflexivity.
  - intros h. destruct (budget_hi (b_max b)) as [bm|] eqn:E1; [|discriminate]. destruct (b_hi f) as [fh|] eqn:E2; [|discriminate].
    simpl. intros X; inversion X; subst h. destruct (B bm eq_refl) as [-> P]. destruct (F6 fh eq_refl) as (_ & Q & R). lia.
Qed.

Definition bos_gen C L (w : world) := Forall (gen_inv C L) (w_bos w).

Lemma step_gen C L e w o : 0 <= C -> env_bound e L -> op_wf C o -> bos_gen C L w -> bos_gen C L (fst (step e w o)).
Proof.
  intros HC HL WF A. unfold bos_gen in *. destruct (step_shape e w o); auto.
  - apply Forall_app. split; auto. constructor; auto. apply empty_gen; auto.
  - apply Forall_app. split; auto. constructor; auto. apply copy_gen. eapply Forall_nth; eauto.
  - subst o. simpl in WF. pose proof (Forall_nth _ _ _ _ A H0) as Ab.
    apply Forall_upd; auto. eapply slept_gen; eauto. eapply gen_pick_fn_wf; eauto.
  - apply Forall_upd; auto. apply reset_gen; auto.
  - apply Forall_upd; auto. exact (Forall_nth _ _ _ _ A H).
  - apply Forall_upd; [apply Forall_upd; auto|].
    + apply merged_gen; eapply Forall_nth; eauto.
    + exact (Forall_nth _ _ _ _ A H1).
Qed.

Lemma budget_general C L e ops i b h : 0 <= C -> env_bound e L -> Forall (op_wf C) ops ->
  nth_error (w_bos (run e init_world ops)) i = Some b -> b_hi b = Some h ->
  b_max b <= h /\ b_total b - b_excl b < h + C /\ b_excl b < Z.max L h + C /\ 0 <= b_excl b <= b_total b.
Proof.
  intros HC HL W Hn Hh.
  assert (A : bos_gen C L (run e init_world ops)).
  { apply (run_ind (bos_gen C L) (op_wf C)); auto. constructor. intros. apply step_gen; auto. }
  destruct (Forall_nth _ _ _ _ A Hn) as (A1 & _ & _ & A6). destruct (A6 h Hh) as (X & Y & Z0). auto.
Qed.

(* what the ghost is: (a) the back-offer's own budget whenever ResetMaxSleep and merges are not mixed *)
Definition hi_own (b : bo) : Prop := b_hi b = budget_hi (b_max b).

Lemma join_same x : join_hi x x = x.
Proof. destruct x; simpl; auto. rewrite Z.max_id. auto. Qed.

Lemma step_hi_own e w o : (not_merge o \/ tree_max (w_bos w)) -> Forall hi_own (w_bos w) -> Forall hi_own (w_bos (fst (step e w o))).
Proof.
  intros M A. destruct (step_shape e w o); auto.
  - apply Forall_app. split; auto. constructor; auto. reflexivity.
  - apply Forall_app. split; auto. constructor; auto. exact (Forall_nth _ _ _ _ A H).
  - apply Forall_upd; auto. exact (Forall_nth _ _ _ _ A H0).
  - apply Forall_upd; auto. reflexivity.
  - apply Forall_upd; auto. exact (Forall_nth _ _ _ _ A H).
  - subst o. destruct M as [M|T]; [simpl in M; tauto|].
    destruct (on_chain_max _ T _ _ _ _ H1 H2) as (bi & Hi & Em). assert (bi = b) by congruence. subst bi.
    apply Forall_upd; [apply Forall_upd; auto|].
    + unfold hi_own, merged; simpl. rewrite (Forall_nth _ _ _ _ A H1 : hi_own f). rewrite Em. apply join_same.
    + exact (Forall_nth _ _ _ _ A H1).
Qed.

Lemma reach_hi_own e ops : Forall not_merge ops \/ Forall not_resetmax ops ->
  Forall hi_own (w_bos (run e init_world ops)).
Proof.
  intros [N|N].
  - apply (run_ind (fun w => Forall hi_own (w_bos w)) not_merge); auto. constructor. intros. apply step_hi_own; auto.
  - assert (H : (fun w => Forall hi_own (w_bos w) /\ tree_ord (w_bos w) /\ tree_max (w_bos w)) (run e init_world ops)).
    { eapply run_ind; [| |exact N].
      - split; [constructor|]. split; intros j b p H; destruct j; discriminate.
      - intros w o (A & TO & TM) NR. split; [|split].
        + apply step_hi_own; auto.
        + apply step_tree_ord; auto.
        + apply step_tree_max; auto. }
    apply H.
Qed.

(* (b) never above the largest budget any back-offer had during the run, never None if all budgets were positive *)
Fixpoint always (P : world -> Prop) (e : env) (w : world) (ops : list op) : Prop :=
  P w /\ match ops with [] => True | o :: r => always P e (fst (step e w o)) r end.

Lemma always_run (P Q : world -> Prop) e :
  (forall w o, P w -> P (fst (step e w o)) -> Q w -> Q (fst (step e w o))) ->
  forall ops w, Q w -> always P e w ops -> Q (run e w ops).
Proof.
  intros S. induction ops; intros w Hq Ha; simpl in *; auto.
  destruct Ha as [Pw Ha]. apply IHops; auto. apply S; auto. destruct ops; simpl in Ha; tauto.
Qed.

Definition budgets_in (B : Z) (w : world) : Prop := Forall (fun b => 0 < b_max b <= B) (w_bos w).
Definition hi_in (B : Z) (b : bo) : Prop := exists h, b_hi b = Some h /\ h <= B.

Lemma step_hi_in B e w o : budgets_in B w -> budgets_in B (fst (step e w o)) ->
  Forall (hi_in B) (w_bos w) -> Forall (hi_in B) (w_bos (fst (step e w o))).
Proof.
  intros P P' A. unfold budgets_in in *. destruct (step_shape e w o) as [| ctx noop v m | | | i b m | |]; auto.
  - apply Forall_app. split; auto. constructor; auto.
    apply Forall_app in P' as [_ P']. inversion P' as [|x l Hx _]; subst. simpl in Hx.
    exists m. unfold empty_bo; simpl. unfold budget_hi. destruct (0 <? m) eqn:E; [split; auto; lia|apply Z.ltb_ge in E; lia].
  - apply Forall_app. split; auto. constructor; auto. exact (Forall_nth _ _ _ _ A H).
  - apply Forall_upd; auto. exact (Forall_nth _ _ _ _ A H0).
  - apply Forall_upd; auto.
    assert (X : 0 < m <= B).
    { pose proof (nth_upd_same i (reset_bo b m) (w_bos w) (nth_lt _ _ _ H)) as Y. exact (Forall_nth _ _ _ _ P' Y). }
    exists m. unfold reset_bo; simpl. unfold budget_hi. destruct (0 <? m) eqn:E; [split; auto; lia|apply Z.ltb_ge in E; lia].
  - apply Forall_upd; auto. exact (Forall_nth _ _ _ _ A H).
  - apply Forall_upd; [apply Forall_upd; auto|].
    + destruct (Forall_nth _ _ _ _ A H1) as (fh & Ef & Lf). pose proof (Forall_nth _ _ _ _ P H0) as Pb. simpl in Pb.
      unfold hi_in, merged; simpl. rewrite Ef. unfold budget_hi. destruct (0 <? b_max b) eqn:E; [|apply Z.ltb_ge in E; lia].
      simpl. eexists. split; eauto. lia.
    + exact (Forall_nth _ _ _ _ A H1).
Qed.

Lemma budget_bounded C L B e ops i b : 0 <= C -> env_bound e L -> Forall (op_wf C) ops ->
  always (budgets_in B) e init_world ops ->
  nth_error (w_bos (run e init_world ops)) i = Some b ->
  b_total b - b_excl b < B + C /\ b_excl b < Z.max L B + C /\ 0 <= b_excl b <= b_total b.
Proof.
  intros HC HL W Al Hn.
  assert (H : Forall (hi_in B) (w_bos (run e init_world ops))).
  { apply (always_run (budgets_in B) (fun w => Forall (hi_in B) (w_bos w))); auto.
    - intros. apply step_hi_in; auto.
    - constructor. }
  destruct (Forall_nth _ _ _ _ H Hn) as (h & Eh & Lh).
  destruct (budget_general C L e ops i b h HC HL W Hn Eh) as (_ & X & Y & Z0). lia.
Qed.

(* ---------- integer ranges: nothing the code keeps in an int leaves [0, (#ops)*C] ---------- *)
Definition fn_sz (k : Z) (f : fnst) : Prop := 0 <= f_att f <= k /\ 0 <= f_last f <= Z.max (f_cap f) (f_base f).
Definition size_inv (C k : Z) (b : bo) : Prop :=
  0 <= b_total b <= k * C /\ 0 <= b_excl b <= b_total b /\ 0 <= b_errnum b <= k /\
  (forall n v, In (n, v) (b_sleep b) -> 0 <= v <= k * C) /\
  (forall n v, In (n, v) (b_times b) -> 0 <= v <= k) /\
  Forall (fun nf => fn_wf C (snd nf) /\ fn_sz k (snd nf)) (b_fn b).

Lemma aget_In {A} k (l : list (Z * A)) v : aget k l = Some v -> In (k, v) l.
Proof. induction l as [|[k' v'] r]; simpl; [discriminate|]. destruct (k =? k') eqn:E; auto.
  apply Z.eqb_eq in E; subst. intros X; inversion X; auto. Qed.

Lemma zget_range k l M : 0 <= M -> (forall n v, In (n, v) l -> 0 <= v <= M) -> 0 <= zget k l <= M.
Proof. intros HM H. unfold zget. destruct (aget k l) eqn:E; [apply aget_In in E; eauto|lia]. Qed.

Lemma size_mono C k k' b : 0 <= C -> 0 <= k <= k' -> size_inv C k b -> size_inv C k' b.
Proof.
  intros HC Hk (A & B & D & E & F & G). unfold size_inv. assert (k * C <= k' * C) by nia.
  repeat split; try lia.
  - apply (E n v H0). - specialize (E n v H0); lia. - apply (F n v H0). - specialize (F n v H0); lia.
  - eapply Forall_impl; [|exact G]. intros [n f] [W [S1 S2]]. simpl in *. split; auto. split; auto. lia.
Qed.

Lemma slept_size C k e b c f s maxms errid : 0 <= C -> 0 <= k ->
  size_inv C k b -> fn_wf C f -> fn_sz k f -> sleep_ok f s = true ->
  size_inv C (k + 1) (slept_bo e b c f s maxms errid).
Proof.
  intros HC Hk (A & B & D & E & F & G) Hf Hz Hs.
  pose proof (sleep_ok_range C f s Hf Hs) as Hr. destruct Hf as [Hcap Hbase].
  destruct (cut_range s maxms ltac:(lia)) as [Hcut _]. set (real := cut s maxms) in *.
  assert (K : (k + 1) * C = k * C + C) by lia. assert (0 <= k * C) by nia.
  unfold size_inv, slept_bo; simpl. fold real. rewrite K.
  refine (conj _ (conj _ (conj _ (conj _ (conj _ _))))).
  - lia.
  - destruct (is_excl e (c_name c)); lia.
  - lia.
  - intros n v I. unfold zadd in I. apply in_aset in I as [[-> ->]|I].
    + pose proof (zget_range (c_name c) (b_sleep b) (k * C) ltac:(lia) E). lia.
    + specialize (E n v I). lia.
  - intros n v I. unfold zadd in I. apply in_aset in I as [[-> ->]|I].
    + pose proof (zget_range (c_name c) (b_times b) k ltac:(lia) F). lia.
    + specialize (F n v I). lia.
  - apply Forall_aset.
    + eapply Forall_impl; [|exact G]. intros [n g] [W [S1 S2]]. simpl in *. split; auto. split; auto. lia.
    + destruct Hz as [Z1 Z2]. simpl. split; [split; simpl; lia|]. split; simpl; lia.
Qed.

Lemma pick_fn_size C k e w b c f : 0 <= k -> size_inv C k b -> 0 <= c_cap c <= C -> pick_fn e w b c = Some f -> fn_wf C f /\ fn_sz k f.
Proof.
  intros Hk (_ & _ & _ & _ & _ & G) Hc. unfold pick_fn.
  destruct (aget (c_name c) (b_fn b)) as [f0|] eqn:E.
  - intros X; inversion X; subst. apply (aget_Forall _ _ _ _ G E).
  - destruct (fn_base e w b c); [|discriminate]. intros X; inversion X. split; [apply new_fn_wf; auto|].
    unfold fn_sz, new_fn; simpl. destruct (z <? 2) eqn:Q; [|apply Z.ltb_ge in Q]; lia.
Qed.

Lemma step_size C k e w o : 0 <= C -> 0 <= k -> op_wf C o ->
  Forall (size_inv C k) (w_bos w) -> Forall (size_inv C (k + 1)) (w_bos (fst (step e w o))).
Proof.
  intros HC Hk WF A.
  assert (M : Forall (size_inv C (k + 1)) (w_bos w)).
  { eapply Forall_impl; [|exact A]. intros. eapply size_mono; eauto. lia. }
  assert (Z0 : 0 <= (k + 1) * C) by nia.
  destruct (step_shape e w o); auto.
  - apply Forall_app. split; auto. constructor; auto. unfold size_inv, empty_bo; simpl. repeat split; try lia; try tauto. constructor.
  - apply Forall_app. split; auto. constructor; auto. destruct (Forall_nth _ _ _ _ M H) as (A1 & A2 & A3 & A4 & A5 & _).
    unfold size_inv, copy_bo; simpl. repeat split; try lia; try apply (A4 _ _ H1); try apply (A5 _ _ H1). constructor.
  - subst o. simpl in WF. pose proof (Forall_nth _ _ _ _ A H0) as Ab.
    destruct (pick_fn_size _ _ _ _ _ _ _ Hk Ab WF H1). apply Forall_upd; auto. eapply slept_size; eauto.
  - apply Forall_upd; auto. destruct (Forall_nth _ _ _ _ M H) as (A1 & A2 & A3 & A4 & A5 & _).
    unfold size_inv, reset_bo; simpl. repeat split; try lia; try apply (A4 _ _ H1); try apply (A5 _ _ H1). constructor.
  - apply Forall_upd; auto. exact (Forall_nth _ _ _ _ M H).
  - apply Forall_upd; [apply Forall_upd; auto|].
    + destruct (Forall_nth _ _ _ _ M H1) as (A1 & A2 & A3 & A4 & A5 & _). destruct (Forall_nth _ _ _ _ M H0) as (_ & _ & _ & _ & _ & G).
      unfold size_inv, merged; simpl. repeat split; try lia; try apply (A4 _ _ H3); try apply (A5 _ _ H3). exact G.
    + exact (Forall_nth _ _ _ _ M H1).
Qed.

Lemma run_size C e : 0 <= C -> forall ops w k, 0 <= k -> Forall (op_wf C) ops ->
  Forall (size_inv C k) (w_bos w) -> Forall (size_inv C (k + Z.of_nat (length ops))) (w_bos (run e w ops)).
Proof.
  intros HC. induction ops; intros w k Hk W A.
  - simpl. rewrite Z.add_0_r. auto.
  - inversion W; subst. cbn [run fold_left length]. change (fold_left _ ops ?x) with (run e x ops).
    replace (k + Z.of_nat (S (length ops))) with ((k + 1) + Z.of_nat (length ops)) by lia.
    apply IHops; auto; try lia. apply step_size; auto.
Qed.

Lemma no_overflow C e ops i b : 0 <= C -> Forall (op_wf C) ops ->
  nth_error (w_bos (run e init_world ops)) i = Some b ->
  size_inv C (Z.of_nat (length ops)) b.
Proof.
  intros HC W Hn. pose proof (run_size C e HC ops init_world 0 ltac:(lia) W ltac:(constructor)) as A.
  simpl in A. exact (Forall_nth _ _ _ _ A Hn).
Qed.

(* concrete instance: caps up to 2^31 and a million ops stay far below 2^62 *)
Lemma no_overflow_62 C e ops i b : 0 <= C <= 2 ^ 31 -> Z.of_nat (length ops) <= 2 ^ 20 -> Forall (op_wf C) ops ->
  nth_error (w_bos (run e init_world ops)) i = Some b ->
  b_total b < 2 ^ 62 /\ b_excl b < 2 ^ 62 /\ b_errnum b < 2 ^ 62 /\
  (forall n v, In (n, v) (b_sleep b) -> 0 <= v < 2 ^ 62) /\ (forall n v, In (n, v) (b_times b) -> 0 <= v < 2 ^ 62) /\
  (forall n f, In (n, f) (b_fn b) -> 0 <= f_att f < 2 ^ 62 /\ (f_base f < 2 ^ 60 -> 0 <= f_last f * 3 - f_base f + f_base f < 2 ^ 62)).
Proof.
  intros HC HN W Hn. destruct (no_overflow C e ops i b ltac:(lia) W Hn) as (A & B & D & E & F & G).
  set (k := Z.of_nat (length ops)) in *. assert (Kb : 0 <= k <= 2 ^ 20).
  { unfold k. split; [lia|exact HN]. }
  assert (P : k * C <= 2 ^ 51). { change (2 ^ 51) with (2 ^ 20 * 2 ^ 31). nia. }
  assert (2 ^ 51 < 2 ^ 62) by (vm_compute; reflexivity). assert (2 ^ 20 < 2 ^ 62) by (vm_compute; reflexivity).
  assert (2 ^ 31 < 2 ^ 60) by (vm_compute; reflexivity). assert (2 ^ 60 * 4 = 2 ^ 62) by (vm_compute; reflexivity).
  repeat split; try lia.
  - apply (E n v H3). - specialize (E n v H3); lia. - apply (F n v H3). - specialize (F n v H3); lia.
  - rewrite Forall_forall in G. destruct (G _ H3) as [_ [S1 _]]. simpl in S1. lia.
  - rewrite Forall_forall in G. destruct (G _ H3) as [_ [S1 _]]. simpl in S1. lia.
  - rewrite Forall_forall in G. destruct (G _ H3) as [[W1 W2] [_ S2]]. simpl in *. lia.
  - rewrite Forall_forall in G. destruct (G _ H3) as [[W1 W2] [_ S2]]. simpl in *. lia.
Qed.

(* ---------- expo saturates: attempts beyond 62 (or beyond log2(cap/base)) are irrelevant ---------- *)
Lemma expo_clamp base cap n : cap <= base * 2 ^ n -> expo base cap n = cap.
Proof. intros. unfold expo. lia. Qed.

Lemma expo_sat62 base cap n : 1 <= base -> cap < 2 ^ 62 -> 62 <= n -> expo base cap n = cap.
Proof.
  intros Hb Hc Hn. apply expo_clamp. assert (2 ^ 62 <= 2 ^ n) by (apply Z.pow_le_mono_r; lia). nia.
Qed.

Lemma expo_min62 base cap n : 1 <= base -> cap < 2 ^ 62 -> 0 <= n -> expo base cap n = expo base cap (Z.min n 62).
Proof.
  intros. destruct (Z.le_gt_cases n 62); [rewrite Z.min_l by lia; auto|].
  rewrite Z.min_r by lia. rewrite !expo_sat62; auto; lia.
Qed.

Lemma expo_mono base cap n n' : 0 <= base -> 0 <= n <= n' -> expo base cap n <= expo base cap n'.
Proof. intros. unfold expo. assert (2 ^ n <= 2 ^ n') by (apply Z.pow_le_mono_r; lia). nia. Qed.

(* the product the float code forms is an exactly representable double as long as it matters:
   mantissa [base] < 2^53, exponent <= 62; beyond that the result is the cap anyway (expo_min62) *)
Lemma expo_arg_exact base n : 0 <= base < 2 ^ 53 -> 0 <= n <= 62 ->
  exists m ex, base * 2 ^ n = m * 2 ^ ex /\ 0 <= m < 2 ^ 53 /\ 0 <= ex <= 62 /\ base * 2 ^ n < 2 ^ 115.
Proof.
  intros Hb Hn. exists base, n. repeat split; try lia.
  assert (2 ^ n <= 2 ^ 62) by (apply Z.pow_le_mono_r; lia). assert (0 < 2 ^ n) by (apply Z.pow_pos_nonneg; lia).
  change (2 ^ 115) with (2 ^ 53 * 2 ^ 62). nia.
Qed.

(* ---------- well-formed kinds: a closure never draws from an empty interval, sleeps are positive ---------- *)
Definition fn_good (f : fnst) : Prop :=
  2 <= f_base f /\ 2 <= f_cap f /\ 1 <= f_jit f <= 4 /\ 0 <= f_att f /\
  (f_jit f = 4 -> f_base f <= f_cap f /\ f_base f <= f_last f).

(* [lf] = names that take their base from vars.BackoffLockFast *)
Definition cfg_okb (lf : list Z) (c : cfg) : bool :=
  (0 <? c_base c) && (2 <=? c_cap c) && (1 <=? c_jit c) && (c_jit c <=? 4) &&
  (if c_jit c =? 4 then (Z.max 2 (c_base c) <=? c_cap c) && negb (existsb (Z.eqb (c_name c)) lf) else true).

Lemma cfg_okb_spec lf c : cfg_okb lf c = true ->
  0 < c_base c /\ 2 <= c_cap c /\ 1 <= c_jit c <= 4 /\
  (c_jit c = 4 -> Z.max 2 (c_base c) <= c_cap c /\ existsb (Z.eqb (c_name c)) lf = false).
Proof.
  unfold cfg_okb. intros H.
  apply andb_true_iff in H as [H E5]. apply andb_true_iff in H as [H E4]. apply andb_true_iff in H as [H E3].
  apply andb_true_iff in H as [E1 E2]. apply Z.ltb_lt in E1. apply Z.leb_le in E2, E3, E4.
  split; [lia|]. split; [lia|]. split; [lia|]. intros J. apply Z.eqb_eq in J. rewrite J in E5.
  apply andb_true_iff in E5 as [A B]. apply Z.leb_le in A. apply negb_true_iff in B. split; [lia|exact B].
Qed.

Lemma new_fn_good lf c base : cfg_okb lf c = true ->
  (existsb (Z.eqb (c_name c)) lf = false -> base = c_base c) -> fn_good (new_fn base (c_cap c) (c_jit c)).
Proof.
  intros H Hb. destruct (cfg_okb_spec lf c H) as (B1 & B2 & B3 & B4).
  unfold fn_good, new_fn; simpl.
  destruct (base <? 2) eqn:Q; [apply Z.ltb_lt in Q|apply Z.ltb_ge in Q];
    (split; [lia|]; split; [lia|]; split; [lia|]; split; [lia|]; intros J; destruct (B4 J) as [X Y]).
  - lia.
  - rewrite (Hb Y). lia.
Qed.

Lemma expo_ge2 f : fn_good f -> 2 <= expo (f_base f) (f_cap f) (f_att f).
Proof. intros (A & B & _ & D & _). unfold expo. assert (1 <= 2 ^ f_att f) by (pose proof (Z.pow_pos_nonneg 2 (f_att f)); lia). nia. Qed.

Lemma draw_nonempty f : fn_good f -> exists s, sleep_ok f s = true.
Proof.
  intros G. pose proof (expo_ge2 f G) as V. destruct G as (A & B & J & D & E). unfold sleep_ok.
  set (v := expo (f_base f) (f_cap f) (f_att f)) in *.
  destruct (f_jit f =? 1) eqn:J1. { exists v. apply Z.eqb_refl. }
  destruct (f_jit f =? 2) eqn:J2. { exists 0. apply andb_true_iff. split; [apply Z.leb_le|apply Z.ltb_lt]; lia. }
  destruct (f_jit f =? 3) eqn:J3.
  { exists (Z.quot v 2). assert (1 <= Z.quot v 2). { rewrite Z.quot_div_nonneg by lia. apply Z.div_le_lower_bound; lia. }
    apply andb_true_iff. split; [apply Z.leb_le|apply Z.ltb_lt]; lia. }
  destruct (f_jit f =? 4) eqn:J4.
  { apply Z.eqb_eq in J4. destruct (E J4). exists (f_base f). apply orb_true_iff. left.
    rewrite !andb_true_iff. repeat split; [apply Z.leb_le|apply Z.ltb_lt|apply Z.leb_le]; lia. }
  apply Z.eqb_neq in J1, J2, J3, J4. lia.
Qed.

Lemma sleep_pos f s : fn_good f -> f_jit f <> 2 -> sleep_ok f s = true -> 1 <= s.
Proof.
  intros G N. pose proof (expo_ge2 f G) as V. destruct G as (A & B & J & D & E). unfold sleep_ok.
  set (v := expo (f_base f) (f_cap f) (f_att f)) in *.
  destruct (f_jit f =? 1) eqn:J1. { intros X. apply Z.eqb_eq in X. lia. }
  destruct (f_jit f =? 2) eqn:J2. { apply Z.eqb_eq in J2. lia. }
  destruct (f_jit f =? 3) eqn:J3.
  { intros X. apply andb_true_iff in X as [X _]. apply Z.leb_le in X.
    assert (1 <= Z.quot v 2). { rewrite Z.quot_div_nonneg by lia. apply Z.div_le_lower_bound; lia. } lia. }
  destruct (f_jit f =? 4) eqn:J4.
  { apply Z.eqb_eq in J4. destruct (E J4). intros X. apply orb_true_iff in X as [X|X].
    - rewrite !andb_true_iff in X. destruct X as [[X _] _]. apply Z.leb_le in X. lia.
    - rewrite !andb_true_iff in X. destruct X as [[X _] _]. apply Z.eqb_eq in X. lia. }
  apply Z.eqb_neq in J1, J2, J3, J4. lia.
Qed.

Lemma fn_next_good f s : fn_good f -> sleep_ok f s = true -> fn_good (fn_next f s).
Proof.
  intros G Hs. destruct G as (A & B & J & D & E). unfold fn_good, fn_next; simpl.
  split; [lia|]. split; [lia|]. split; [lia|]. split; [lia|].
  intros J4. destruct (E J4) as [E1 E2]. split; [exact E1|]. unfold sleep_ok in Hs. apply Z.eqb_eq in J4 as J4'.
  assert (H1 : f_jit f =? 1 = false) by (apply Z.eqb_neq; lia). assert (H2 : f_jit f =? 2 = false) by (apply Z.eqb_neq; lia).
  assert (H3 : f_jit f =? 3 = false) by (apply Z.eqb_neq; lia). rewrite H1, H2, H3, J4' in Hs.
  apply orb_true_iff in Hs as [X|X]; rewrite !andb_true_iff in X.
  - destruct X as [[X _] _]. apply Z.leb_le in X. lia.
  - destruct X as [[X _] _]. apply Z.eqb_eq in X. lia.
Qed.

Definition op_good (e : env) (o : op) : Prop :=
  match o with OBackoff _ c _ _ _ => cfg_okb (e_lfnames e) c = true | _ => True end.
Definition bos_good (w : world) : Prop := Forall (fun b => Forall (fun nf => fn_good (snd nf)) (b_fn b)) (w_bos w).

Lemma pick_fn_good e w b c f : Forall (fun nf => fn_good (snd nf)) (b_fn b) -> cfg_okb (e_lfnames e) c = true ->
  pick_fn e w b c = Some f -> fn_good f.
Proof.
  intros G Hc. unfold pick_fn. destruct (aget (c_name c) (b_fn b)) as [f0|] eqn:E.
  - intros X; inversion X; subst. apply (aget_Forall _ _ _ _ G E).
  - unfold fn_base. destruct (existsb (Z.eqb (c_name c)) (e_lfnames e)) eqn:Lf.
    + destruct (b_vars b); [|discriminate]. destruct (nth_error (w_vars w) n); [|discriminate].
      intros X; inversion X. eapply new_fn_good; eauto. rewrite Lf. discriminate.
    + intros X; inversion X. eapply new_fn_good; eauto.
Qed.

Lemma step_good e w o : op_good e o -> bos_good w -> bos_good (fst (step e w o)).
Proof.
  intros WF A. unfold bos_good in *. destruct (step_shape e w o); auto.
  - apply Forall_app. split; auto. constructor; auto. constructor.
  - apply Forall_app. split; auto. constructor; auto. constructor.
  - subst o. simpl in WF. pose proof (Forall_nth _ _ _ _ A H0) as Ab. apply Forall_upd; auto.
    unfold slept_bo; simpl. apply Forall_aset; auto. simpl. apply fn_next_good; auto. exact (pick_fn_good e w b c f Ab WF H1).
  - apply Forall_upd; auto. constructor.
  - apply Forall_upd; auto. exact (Forall_nth _ _ _ _ A H).
  - apply Forall_upd; [apply Forall_upd; auto|].
    + exact (Forall_nth _ _ _ _ A H0).
    + exact (Forall_nth _ _ _ _ A H1).
Qed.

(* with well-formed kinds: whenever the code reaches the jitter draw an admissible sleep exists (rand.Intn never
   gets a non-positive argument), and every admissible sleep of a non-Full-jitter kind is at least 1 ms *)
Lemma kinds_live e ops i c b : Forall (op_good e) ops -> cfg_okb (e_lfnames e) c = true ->
  nth_error (w_bos (run e init_world ops)) i = Some b ->
  forall f, pick_fn e (run e init_world ops) b c = Some f ->
    fn_good f /\ (exists s, sleep_ok f s = true) /\ (f_jit f <> 2 -> forall s, sleep_ok f s = true -> 1 <= s).
Proof.
  intros W Hc Hn f Hf.
  assert (A : bos_good (run e init_world ops)).
  { apply (run_ind bos_good (op_good e)); auto. constructor. intros. apply step_good; auto. }
  pose proof (pick_fn_good _ _ _ _ _ (Forall_nth _ _ _ _ A Hn) Hc Hf) as G.
  split; auto. split; [apply draw_nonempty; auto|]. intros. eapply sleep_pos; eauto.
Qed.

(* a table of kinds that passes the boolean check satisfies the hypotheses of the budget theorems with
   C = the largest cap of the table *)
Definition table_cap (t : list cfg) : Z := fold_right (fun c m => Z.max (c_cap c) m) 0 t.

Lemma table_cap_ge t c : In c t -> c_cap c <= table_cap t.
Proof. unfold table_cap. induction t; cbn [fold_right In]; [tauto|]. intros [->|I]; [lia|]. specialize (IHt I). lia. Qed.

Lemma table_applies lf t : forallb (cfg_okb lf) t = true ->
  0 <= table_cap t /\
  forall c, In c t -> cfg_okb lf c = true /\ 0 < c_base c /\ 2 <= c_cap c <= table_cap t /\
    (forall i m er s, op_wf (table_cap t) (OBackoff i c m er s)).
Proof.
  intros H. split. { clear H. unfold table_cap. induction t; cbn [fold_right]; lia. }
  intros c I. rewrite forallb_forall in H. pose proof (H c I) as K. pose proof (table_cap_ge t c I).
  destruct (cfg_okb_spec lf c K) as (B1 & B2 & B3 & B4). repeat split; auto; simpl; lia.
Qed.

Lemma expo_saturates : forall base cap n, 1 <= base -> cap < 2 ^ 62 -> 0 <= n ->
  expo base cap n = expo base cap (Z.min n 62) /\ (62 <= n -> expo base cap n = cap).
Proof. intros. split; [apply expo_min62|intros; apply expo_sat62]; auto. Qed.
