(* SendReq/Model.v — executable model of RegionRequestSender.SendReqCtx + replicaSelector
   (internal/locate/region_request.go, replica_selector.go, config/retry/backoff.go) AS THE CODE IS NOW,
   for one TiKV region with n replicas (with and without forwarding through a proxy), without TiFlash.
   One outcome of the fault script is consumed per RPC attempt; random tie-breaks (randIntn) and the
   jittered sleep lengths are oracle inputs.  Not modelled: wall-clock (attemptedTime, region TTL,
   decay of the estimated wait), health-check goroutines, store re-resolution.  The call starts from ANY cache
   state: per-replica/store state [c_reps] (liveness, slow, stale epoch, ...), the cached leader [c_leader0] and the proxy memoised
   by an earlier call [c_proxy0] (proxyTiKVIdx is set by onSendSuccess, i.e. when a call ends).
   [fixed = true] is the code as it is ([run]): replica.onUpdateLeader(maxRearm = len(replicas) - 1) re-arms an exhausted replica
   only while its counter [rearmed] is below maxRearm (fix cb7d671 of finding F10).  [fixed = false] is the rule before that
   fix (re-arm on every hint), kept only to state why the fix is needed ([run_before_fix]). *)
From Coq Require Import List Bool Arith NArith Lia.
Import ListNotations.

Inductive read_type := RTLeader | RTFollower | RTMixed | RTLearner | RTPreferLeader.
Inductive liveness := Reachable | Unreachable | Unknown.
(* tikvrpc.Request.StoreTp: which kind of node serves the request (zero value: TiKV) *)
Inductive store_tp := TpTiKV | TpTiFlash | TpTiDB.
Definition is_tidb (t : store_tp) : bool := match t with TpTiDB => true | _ => false end.
(* when the caller cancels the context / the kill flag is set: never, before the call, while attempt i is in flight
   (the answer of attempt i still arrives), or during the j-th back-off sleep of the call *)
Inductive trigger := TNever | TPre | TAtt (i : nat) | TBo (j : nat).
Definition trig_pre (t : trigger) : bool := match t with TPre => true | _ => false end.
Definition trig_att (t : trigger) (i : nat) : bool := match t with TAtt k => k =? i | _ => false end.
Definition trig_bo (t : trigger) (j : nat) : bool := match t with TBo k => k =? j | _ => false end.

Definition rt_eqb (a b : read_type) : bool :=
  match a, b with
  | RTLeader, RTLeader | RTFollower, RTFollower | RTMixed, RTMixed | RTLearner, RTLearner | RTPreferLeader, RTPreferLeader => true
  | _, _ => false
  end.
Definition is_reachable (l : liveness) : bool := match l with Reachable => true | _ => false end.
Definition is_unreachable (l : liveness) : bool := match l with Unreachable => true | _ => false end.

(* what a store (or the network) answers to one attempt *)
Inductive outcome :=
| ORpcErr (l : liveness)        (* RPC error; the liveness probe of the accessed store then answers l *)
| ODeadline (l : liveness)      (* RPC error = context deadline exceeded *)
| ONotLeader                    (* NotLeader without leader hint *)
| ONotLeaderHint (k : nat)      (* NotLeader, hint = peer of replica k (k >= n: a peer that is not in the cached region) *)
| OEpochNoRegions               (* EpochNotMatch without current regions *)
| OEpochBehind                  (* EpochNotMatch, the store's epoch is behind the cached one *)
| OEpochNewer                   (* EpochNotMatch carrying newer regions *)
| ORegionNotFound
| OBusy (wait : bool)           (* ServerIsBusy, EstimatedWaitMs = 0 / large *)
| OBusyDeadline                 (* ServerIsBusy, reason "deadline is exceeded" *)
| OStaleCommand | OStoreNotMatch | ODataIsNotReady | OMaxTsNotSynced | ODiskFull
| OUnknown                      (* a region error of no known kind *)
(* rarely produced answers *)
| OUndetermined                 (* UndeterminedResult: for the caller *)
| ORecovery | OWitness          (* RecoveryInProgress / IsWitness: invalidate, back off, hand the region error to the caller *)
| OFlashback | OFlashbackNotPrepared
| OKeyNotInRegion | OBucketVersion | OMismatchPeer
| ORaftTooLarge                 (* RaftEntryTooLarge *)
| ONotInitialized | OReadIndexNotReady | OMerging   (* RegionNotInitialized / ReadIndexNotReady / ProposalInMergingMode *)
| OInvalidMaxTs                 (* message "invalid max_ts update" *)
| ODeadlineMsg                  (* region error whose message says "Deadline is exceeded" *)
| OSuccess.

Inductive bo_kind := BoRPC | BoRegionMiss | BoRegionScheduling | BoBusy | BoDiskFull | BoMaxTs | BoRecovery | BoWitness | BoNotInit.

(* lower bound of one sleep of each kind (config/retry/config.go: base/2 for EqualJitter, base for NoJitter) *)
Definition min_step (k : bo_kind) : N :=
  match k with BoRPC => 50 | BoBusy => 1000 | BoDiskFull => 500 | BoRecovery => 50 | BoWitness => 500 | _ => 2 end%N.
Definition excluded (k : bo_kind) : bool := match k with BoBusy => true | _ => false end.
Definition excl_limit : N := 600000%N.      (* isSleepExcluded[tikvServerBusy] *)
Definition max_replica_attempt : nat := 10.  (* maxReplicaAttempt *)

Inductive event :=
| EAtt (idx : nat) (replica_read stale_read is_retry : bool)   (* one RPC attempt and the flags it carries *)
| EBo (k : bo_kind) (sleep : N)                                (* one back-off *)
| ERearm (idx : nat)                                           (* onUpdateLeader re-armed an exhausted replica *)
| EProxy (idx : nat).                                          (* the attempt that follows is forwarded through replica idx (ForwardedHost = target) *)

Inductive result :=
| RSuccess (i : nat)      (* the response of attempt i *)
| RRegionErr (i : nat)    (* the region error answered to attempt i, handed to the caller *)
| RPseudo                 (* the client-made EpochNotMatch: "no replica available" *)
| RError                  (* an error: validation, budget, cancellation / kill *)
| RFatal (i : nat).       (* the error the handler makes of attempt i's answer (flashback, RaftEntryTooLarge, invalid max_ts update) *)

Record rep := mkRep {
  attempts : nat;
  f_deadline : bool;
  f_dnr : bool;
  f_notleader : bool;
  f_busy : bool;
  f_suspect : bool;
  stale : bool;
  live : liveness;
  slow : bool;
  stat_init : bool;
  busy_est : bool;
  label_ok : bool;
  learner : bool;
  pending : bool;
  rstale : bool }.
Definition set_attempts (v : nat) (r : rep) : rep := mkRep (v) (f_deadline r) (f_dnr r) (f_notleader r) (f_busy r) (f_suspect r) (stale r) (live r) (slow r) (stat_init r) (busy_est r) (label_ok r) (learner r) (pending r) (rstale r).
Definition set_f_deadline (v : bool) (r : rep) : rep := mkRep (attempts r) (v) (f_dnr r) (f_notleader r) (f_busy r) (f_suspect r) (stale r) (live r) (slow r) (stat_init r) (busy_est r) (label_ok r) (learner r) (pending r) (rstale r).
Definition set_f_dnr (v : bool) (r : rep) : rep := mkRep (attempts r) (f_deadline r) (v) (f_notleader r) (f_busy r) (f_suspect r) (stale r) (live r) (slow r) (stat_init r) (busy_est r) (label_ok r) (learner r) (pending r) (rstale r).
Definition set_f_notleader (v : bool) (r : rep) : rep := mkRep (attempts r) (f_deadline r) (f_dnr r) (v) (f_busy r) (f_suspect r) (stale r) (live r) (slow r) (stat_init r) (busy_est r) (label_ok r) (learner r) (pending r) (rstale r).
Definition set_f_busy (v : bool) (r : rep) : rep := mkRep (attempts r) (f_deadline r) (f_dnr r) (f_notleader r) (v) (f_suspect r) (stale r) (live r) (slow r) (stat_init r) (busy_est r) (label_ok r) (learner r) (pending r) (rstale r).
Definition set_f_suspect (v : bool) (r : rep) : rep := mkRep (attempts r) (f_deadline r) (f_dnr r) (f_notleader r) (f_busy r) (v) (stale r) (live r) (slow r) (stat_init r) (busy_est r) (label_ok r) (learner r) (pending r) (rstale r).
Definition set_stale (v : bool) (r : rep) : rep := mkRep (attempts r) (f_deadline r) (f_dnr r) (f_notleader r) (f_busy r) (f_suspect r) (v) (live r) (slow r) (stat_init r) (busy_est r) (label_ok r) (learner r) (pending r) (rstale r).
Definition set_live (v : liveness) (r : rep) : rep := mkRep (attempts r) (f_deadline r) (f_dnr r) (f_notleader r) (f_busy r) (f_suspect r) (stale r) (v) (slow r) (stat_init r) (busy_est r) (label_ok r) (learner r) (pending r) (rstale r).
Definition set_slow (v : bool) (r : rep) : rep := mkRep (attempts r) (f_deadline r) (f_dnr r) (f_notleader r) (f_busy r) (f_suspect r) (stale r) (live r) (v) (stat_init r) (busy_est r) (label_ok r) (learner r) (pending r) (rstale r).
Definition set_stat_init (v : bool) (r : rep) : rep := mkRep (attempts r) (f_deadline r) (f_dnr r) (f_notleader r) (f_busy r) (f_suspect r) (stale r) (live r) (slow r) (v) (busy_est r) (label_ok r) (learner r) (pending r) (rstale r).
Definition set_busy_est (v : bool) (r : rep) : rep := mkRep (attempts r) (f_deadline r) (f_dnr r) (f_notleader r) (f_busy r) (f_suspect r) (stale r) (live r) (slow r) (stat_init r) (v) (label_ok r) (learner r) (pending r) (rstale r).
Definition set_label_ok (v : bool) (r : rep) : rep := mkRep (attempts r) (f_deadline r) (f_dnr r) (f_notleader r) (f_busy r) (f_suspect r) (stale r) (live r) (slow r) (stat_init r) (busy_est r) (v) (learner r) (pending r) (rstale r).
Definition set_learner (v : bool) (r : rep) : rep := mkRep (attempts r) (f_deadline r) (f_dnr r) (f_notleader r) (f_busy r) (f_suspect r) (stale r) (live r) (slow r) (stat_init r) (busy_est r) (label_ok r) (v) (pending r) (rstale r).
Definition set_pending (v : bool) (r : rep) : rep := mkRep (attempts r) (f_deadline r) (f_dnr r) (f_notleader r) (f_busy r) (f_suspect r) (stale r) (live r) (slow r) (stat_init r) (busy_est r) (label_ok r) (learner r) (v) (rstale r).
Definition set_rstale (v : bool) (r : rep) : rep := mkRep (attempts r) (f_deadline r) (f_dnr r) (f_notleader r) (f_busy r) (f_suspect r) (stale r) (live r) (slow r) (stat_init r) (busy_est r) (label_ok r) (learner r) (pending r) (v).

Record state := mkState {
  reps : list rep;
  leader : nat;
  valid : bool;
  rt : read_type;
  sel_attempts : nat;
  inv_retry : bool;
  busy_thr : bool;
  lb_count : nat;
  lb_peer : option nat;
  lb_probed : bool;
  q_rt : read_type;
  q_rr : bool;
  q_stale : bool;
  q_retry : bool;
  bo_total : N;
  bo_excl : N;
  orc_r : list nat;
  orc_s : list N;
  proxy : option nat;
  rearmed_v : list nat;
  dead : bool;
  killed : bool;
  n_bo : nat;
  pidx : option nat }.
Definition set_reps (v : list rep) (s : state) : state := mkState (v) (leader s) (valid s) (rt s) (sel_attempts s) (inv_retry s) (busy_thr s) (lb_count s) (lb_peer s) (lb_probed s) (q_rt s) (q_rr s) (q_stale s) (q_retry s) (bo_total s) (bo_excl s) (orc_r s) (orc_s s) (proxy s) (rearmed_v s) (dead s) (killed s) (n_bo s) (pidx s).
Definition set_leader (v : nat) (s : state) : state := mkState (reps s) (v) (valid s) (rt s) (sel_attempts s) (inv_retry s) (busy_thr s) (lb_count s) (lb_peer s) (lb_probed s) (q_rt s) (q_rr s) (q_stale s) (q_retry s) (bo_total s) (bo_excl s) (orc_r s) (orc_s s) (proxy s) (rearmed_v s) (dead s) (killed s) (n_bo s) (pidx s).
Definition set_valid (v : bool) (s : state) : state := mkState (reps s) (leader s) (v) (rt s) (sel_attempts s) (inv_retry s) (busy_thr s) (lb_count s) (lb_peer s) (lb_probed s) (q_rt s) (q_rr s) (q_stale s) (q_retry s) (bo_total s) (bo_excl s) (orc_r s) (orc_s s) (proxy s) (rearmed_v s) (dead s) (killed s) (n_bo s) (pidx s).
Definition set_rt (v : read_type) (s : state) : state := mkState (reps s) (leader s) (valid s) (v) (sel_attempts s) (inv_retry s) (busy_thr s) (lb_count s) (lb_peer s) (lb_probed s) (q_rt s) (q_rr s) (q_stale s) (q_retry s) (bo_total s) (bo_excl s) (orc_r s) (orc_s s) (proxy s) (rearmed_v s) (dead s) (killed s) (n_bo s) (pidx s).
Definition set_sel_attempts (v : nat) (s : state) : state := mkState (reps s) (leader s) (valid s) (rt s) (v) (inv_retry s) (busy_thr s) (lb_count s) (lb_peer s) (lb_probed s) (q_rt s) (q_rr s) (q_stale s) (q_retry s) (bo_total s) (bo_excl s) (orc_r s) (orc_s s) (proxy s) (rearmed_v s) (dead s) (killed s) (n_bo s) (pidx s).
Definition set_inv_retry (v : bool) (s : state) : state := mkState (reps s) (leader s) (valid s) (rt s) (sel_attempts s) (v) (busy_thr s) (lb_count s) (lb_peer s) (lb_probed s) (q_rt s) (q_rr s) (q_stale s) (q_retry s) (bo_total s) (bo_excl s) (orc_r s) (orc_s s) (proxy s) (rearmed_v s) (dead s) (killed s) (n_bo s) (pidx s).
Definition set_busy_thr (v : bool) (s : state) : state := mkState (reps s) (leader s) (valid s) (rt s) (sel_attempts s) (inv_retry s) (v) (lb_count s) (lb_peer s) (lb_probed s) (q_rt s) (q_rr s) (q_stale s) (q_retry s) (bo_total s) (bo_excl s) (orc_r s) (orc_s s) (proxy s) (rearmed_v s) (dead s) (killed s) (n_bo s) (pidx s).
Definition set_lb_count (v : nat) (s : state) : state := mkState (reps s) (leader s) (valid s) (rt s) (sel_attempts s) (inv_retry s) (busy_thr s) (v) (lb_peer s) (lb_probed s) (q_rt s) (q_rr s) (q_stale s) (q_retry s) (bo_total s) (bo_excl s) (orc_r s) (orc_s s) (proxy s) (rearmed_v s) (dead s) (killed s) (n_bo s) (pidx s).
Definition set_lb_peer (v : option nat) (s : state) : state := mkState (reps s) (leader s) (valid s) (rt s) (sel_attempts s) (inv_retry s) (busy_thr s) (lb_count s) (v) (lb_probed s) (q_rt s) (q_rr s) (q_stale s) (q_retry s) (bo_total s) (bo_excl s) (orc_r s) (orc_s s) (proxy s) (rearmed_v s) (dead s) (killed s) (n_bo s) (pidx s).
Definition set_lb_probed (v : bool) (s : state) : state := mkState (reps s) (leader s) (valid s) (rt s) (sel_attempts s) (inv_retry s) (busy_thr s) (lb_count s) (lb_peer s) (v) (q_rt s) (q_rr s) (q_stale s) (q_retry s) (bo_total s) (bo_excl s) (orc_r s) (orc_s s) (proxy s) (rearmed_v s) (dead s) (killed s) (n_bo s) (pidx s).
Definition set_q_rt (v : read_type) (s : state) : state := mkState (reps s) (leader s) (valid s) (rt s) (sel_attempts s) (inv_retry s) (busy_thr s) (lb_count s) (lb_peer s) (lb_probed s) (v) (q_rr s) (q_stale s) (q_retry s) (bo_total s) (bo_excl s) (orc_r s) (orc_s s) (proxy s) (rearmed_v s) (dead s) (killed s) (n_bo s) (pidx s).
Definition set_q_rr (v : bool) (s : state) : state := mkState (reps s) (leader s) (valid s) (rt s) (sel_attempts s) (inv_retry s) (busy_thr s) (lb_count s) (lb_peer s) (lb_probed s) (q_rt s) (v) (q_stale s) (q_retry s) (bo_total s) (bo_excl s) (orc_r s) (orc_s s) (proxy s) (rearmed_v s) (dead s) (killed s) (n_bo s) (pidx s).
Definition set_q_stale (v : bool) (s : state) : state := mkState (reps s) (leader s) (valid s) (rt s) (sel_attempts s) (inv_retry s) (busy_thr s) (lb_count s) (lb_peer s) (lb_probed s) (q_rt s) (q_rr s) (v) (q_retry s) (bo_total s) (bo_excl s) (orc_r s) (orc_s s) (proxy s) (rearmed_v s) (dead s) (killed s) (n_bo s) (pidx s).
Definition set_q_retry (v : bool) (s : state) : state := mkState (reps s) (leader s) (valid s) (rt s) (sel_attempts s) (inv_retry s) (busy_thr s) (lb_count s) (lb_peer s) (lb_probed s) (q_rt s) (q_rr s) (q_stale s) (v) (bo_total s) (bo_excl s) (orc_r s) (orc_s s) (proxy s) (rearmed_v s) (dead s) (killed s) (n_bo s) (pidx s).
Definition set_bo_total (v : N) (s : state) : state := mkState (reps s) (leader s) (valid s) (rt s) (sel_attempts s) (inv_retry s) (busy_thr s) (lb_count s) (lb_peer s) (lb_probed s) (q_rt s) (q_rr s) (q_stale s) (q_retry s) (v) (bo_excl s) (orc_r s) (orc_s s) (proxy s) (rearmed_v s) (dead s) (killed s) (n_bo s) (pidx s).
Definition set_bo_excl (v : N) (s : state) : state := mkState (reps s) (leader s) (valid s) (rt s) (sel_attempts s) (inv_retry s) (busy_thr s) (lb_count s) (lb_peer s) (lb_probed s) (q_rt s) (q_rr s) (q_stale s) (q_retry s) (bo_total s) (v) (orc_r s) (orc_s s) (proxy s) (rearmed_v s) (dead s) (killed s) (n_bo s) (pidx s).
Definition set_orc_r (v : list nat) (s : state) : state := mkState (reps s) (leader s) (valid s) (rt s) (sel_attempts s) (inv_retry s) (busy_thr s) (lb_count s) (lb_peer s) (lb_probed s) (q_rt s) (q_rr s) (q_stale s) (q_retry s) (bo_total s) (bo_excl s) (v) (orc_s s) (proxy s) (rearmed_v s) (dead s) (killed s) (n_bo s) (pidx s).
Definition set_orc_s (v : list N) (s : state) : state := mkState (reps s) (leader s) (valid s) (rt s) (sel_attempts s) (inv_retry s) (busy_thr s) (lb_count s) (lb_peer s) (lb_probed s) (q_rt s) (q_rr s) (q_stale s) (q_retry s) (bo_total s) (bo_excl s) (orc_r s) (v) (proxy s) (rearmed_v s) (dead s) (killed s) (n_bo s) (pidx s).
Definition set_proxy (v : option nat) (s : state) : state := mkState (reps s) (leader s) (valid s) (rt s) (sel_attempts s) (inv_retry s) (busy_thr s) (lb_count s) (lb_peer s) (lb_probed s) (q_rt s) (q_rr s) (q_stale s) (q_retry s) (bo_total s) (bo_excl s) (orc_r s) (orc_s s) (v) (rearmed_v s) (dead s) (killed s) (n_bo s) (pidx s).
Definition set_rearmed_v (v : list nat) (s : state) : state := mkState (reps s) (leader s) (valid s) (rt s) (sel_attempts s) (inv_retry s) (busy_thr s) (lb_count s) (lb_peer s) (lb_probed s) (q_rt s) (q_rr s) (q_stale s) (q_retry s) (bo_total s) (bo_excl s) (orc_r s) (orc_s s) (proxy s) (v) (dead s) (killed s) (n_bo s) (pidx s).
Definition set_dead (v : bool) (s : state) : state := mkState (reps s) (leader s) (valid s) (rt s) (sel_attempts s) (inv_retry s) (busy_thr s) (lb_count s) (lb_peer s) (lb_probed s) (q_rt s) (q_rr s) (q_stale s) (q_retry s) (bo_total s) (bo_excl s) (orc_r s) (orc_s s) (proxy s) (rearmed_v s) (v) (killed s) (n_bo s) (pidx s).
Definition set_killed (v : bool) (s : state) : state := mkState (reps s) (leader s) (valid s) (rt s) (sel_attempts s) (inv_retry s) (busy_thr s) (lb_count s) (lb_peer s) (lb_probed s) (q_rt s) (q_rr s) (q_stale s) (q_retry s) (bo_total s) (bo_excl s) (orc_r s) (orc_s s) (proxy s) (rearmed_v s) (dead s) (v) (n_bo s) (pidx s).
Definition set_n_bo (v : nat) (s : state) : state := mkState (reps s) (leader s) (valid s) (rt s) (sel_attempts s) (inv_retry s) (busy_thr s) (lb_count s) (lb_peer s) (lb_probed s) (q_rt s) (q_rr s) (q_stale s) (q_retry s) (bo_total s) (bo_excl s) (orc_r s) (orc_s s) (proxy s) (rearmed_v s) (dead s) (killed s) (v) (pidx s).
Definition set_pidx (v : option nat) (s : state) : state := mkState (reps s) (leader s) (valid s) (rt s) (sel_attempts s) (inv_retry s) (busy_thr s) (lb_count s) (lb_peer s) (lb_probed s) (q_rt s) (q_rr s) (q_stale s) (q_retry s) (bo_total s) (bo_excl s) (orc_r s) (orc_s s) (proxy s) (rearmed_v s) (dead s) (killed s) (n_bo s) (v).


Record cfg := mkCfg {
  c_rt : read_type; c_stale : bool; c_read : bool; c_has_labels : bool; c_leader_only : bool;
  c_thr : bool; c_short_to : bool; c_max_sleep : N; c_val : bool; c_reps : list rep;
  c_fw : bool (* RegionCache.enableForwarding *);
  c_store_tp : store_tp (* req.StoreTp; only the validation gate depends on it: the retry loop below is the TiKV one *);
  c_cancel : trigger (* the caller's context is cancelled *);
  c_kill : trigger (* kv.Variables.Killed is set *);
  c_interruptible : bool (* req.IsInterruptible(): all commands but Commit, BatchRollback, PessimisticRollback *);
  c_leader0 : nat (* the cached region's leader index when the call starts (RegionStore.workTiKVIdx) *);
  c_proxy0 : option nat (* the proxy memoised in the cached region by an earlier call (RegionStore.proxyTiKVIdx) *);
  c_async : bool (* the call goes through SendReqAsync: the first attempt is prepared by initForAsyncRequest, which does not
                    look at the kill flag; everything else is the same state machine (handleAsyncResponse, then next()) *) }.

Definition dummy_rep : rep := mkRep max_replica_attempt false false false false false true Unreachable false false false false false false true.
Definition rep_at (s : state) (i : nat) : rep := nth i (reps s) dummy_rep.

Fixpoint upd {A} (i : nat) (f : A -> A) (l : list A) : list A :=
  match l, i with
  | [], _ => []
  | x :: t, O => f x :: t
  | x :: t, S j => x :: upd j f t
  end.
Definition upd_rep (i : nat) (f : rep -> rep) (s : state) : state := set_reps (upd i f (reps s)) s.

Definition pop {A} (d : A) (l : list A) : A * list A := match l with [] => (d, []) | x :: t => (x, t) end.

(* ---------------- back-off (Backoffer.BackoffWithCfgAndMaxSleep) ---------------- *)
Definition budget_exceeded (c : cfg) (k : bo_kind) (s : state) : bool :=
  ((c_max_sleep c <=? bo_total s - bo_excl s) ||
   (excluded k && (excl_limit <=? bo_excl s) && (c_max_sleep c <=? bo_excl s)))%N.

(* BoRefused: Backoff returned an error without sleeping (context done, or budget spent);
   BoKilled: it slept and then found the kill flag set (CheckKilled after the sleep) *)
Inductive bres := BoOk (s : state) (e : event) | BoRefused | BoKilled (e : event).

Definition backoff (c : cfg) (k : bo_kind) (s : state) : bres :=
  if dead s then BoRefused
  else if (0 <? c_max_sleep c)%N && budget_exceeded c k s then BoRefused
  else let '(sl0, rest) := pop 0%N (orc_s s) in
       let sl := N.max sl0 (min_step k) in
       let s1 := set_orc_s rest (set_bo_total (bo_total s + sl)%N s) in
       let s2 := if excluded k then set_bo_excl (bo_excl s1 + sl)%N s1 else s1 in
       (* the flags may be raised during this sleep *)
       let s3 := set_n_bo (S (n_bo s)) (set_killed (killed s || trig_bo (c_kill c) (n_bo s))
                   (set_dead (trig_bo (c_cancel c) (n_bo s)) s2)) in
       if killed s3 then BoKilled (EBo k sl) else BoOk s3 (EBo k sl).

(* ---------------- replica predicates ---------------- *)
Definition exhausted (r : rep) (m : nat) : bool := m <=? attempts r.

(* isLeaderCandidate *)
Definition leader_candidate (r : rep) : bool :=
  is_reachable (live r) && negb (exhausted r max_replica_attempt) && negb (f_deadline r) && negb (f_notleader r) && negb (stale r).

Record mixed := mkMixed { m_try_leader : bool; m_prefer_leader : bool; m_leader_only : bool; m_learner_only : bool; m_labels : bool; m_thr : bool }.

(* ReplicaSelectMixedStrategy.isCandidate *)
Definition is_cand (p : mixed) (lead i : nat) (r : rep) : bool :=
  let isl := i =? lead in
  negb (stale r) && negb (is_unreachable (live r)) &&
  negb (exhausted r (if f_dnr r && negb isl then 2 else 1)) &&
  negb (m_leader_only p && negb isl) &&
  negb (m_thr p && (busy_est r || f_busy r || isl)) &&
  negb (m_prefer_leader p && slow r && negb isl).

(* ReplicaSelectMixedStrategy.calculateScore *)
Definition score (p : mixed) (lead i : nat) (r : rep) : nat :=
  let isl := i =? lead in
  (if negb (m_labels p) || label_ok r then 8 else 0) +
  (if isl then
     (if m_prefer_leader p then (if negb (slow r) then 4 else 2)
      else if m_try_leader p then (if m_labels p then 4 else 2) else 0)
   else (if m_learner_only p then (if learner r then 2 else 0) else 2)) +
  (if negb (slow r) then 16 else 0) +
  (if attempts r =? 0 then 1 else 0).

Definition has_deadline (l : list rep) : bool := existsb f_deadline l.

Definition cand_idx (p : mixed) (s : state) : list nat :=
  filter (fun i => is_cand p (leader s) i (rep_at s i)) (seq 0 (length (reps s))).
Definition best_score (p : mixed) (s : state) (l : list nat) : nat :=
  fold_right (fun i m => Nat.max (score p (leader s) i (rep_at s i)) m) 0 l.
Definition ties (p : mixed) (s : state) : list nat :=
  let cs := cand_idx p s in
  let b := best_score p s cs in
  filter (fun i => score p (leader s) i (rep_at s i) =? b) cs.

(* ReplicaSelectMixedStrategy.next *)
Definition mixed_next (p : mixed) (s : state) : option nat * state :=
  match ties p s with
  | [i] => (Some i, s)
  | i :: j :: t =>
      let '(r, rest) := pop 0 (orc_r s) in
      (Some (nth (r mod length (i :: j :: t)) (i :: j :: t) i), set_orc_r rest s)
  | [] =>
      if m_thr p then (None, s)
      else
        let ld := rep_at s (leader s) in
        let s1 := if f_suspect ld then upd_rep (leader s) (set_f_suspect false) s else s in
        if f_suspect ld && leader_candidate (rep_at s1 (leader s)) then (Some (leader s), s1)
        else if has_deadline (reps s1) then (None, s1) else (None, set_valid false s1)
  end.

(* ReplicaSelectLeaderStrategy.next *)
Definition leader_next (s : state) : option nat :=
  let ld := rep_at s (leader s) in
  if leader_candidate ld && negb (f_suspect ld) then Some (leader s) else None.

(* baseReplicaSelector.invalidateReplicaStore *)
(* [stale]: the selector's snapshot replica.epoch differs from the store's epoch; [rstale]: the cached region's
   storeEpochs entry differs from it (what the NEXT call's selector will start from) *)
Definition inval_store (r : rep) : rep := if stale r then r else set_rstale true (set_slow true (set_stale true r)).

(* ReplicaSelectLeaderWithProxyStrategy.isCandidate / next (proxyTiKVIdx = -1) *)
Definition proxy_cand (lead i : nat) (r : rep) : bool :=
  negb (i =? lead) && negb (exhausted r 1) && is_reachable (live r) && negb (stale r).
Inductive proxy_choice := PxLeaderOnly | PxVia (p : nat) | PxNone.
(* the leader is usable directly: no proxy, and the memoised proxy is forgotten (unsetProxyStoreIfNeeded) *)
Definition proxy_unneeded (s : state) : bool :=
  let ld := rep_at s (leader s) in is_reachable (live ld) || f_notleader ld.
Definition proxy_next (s : state) : proxy_choice :=
  if proxy_unneeded s then PxLeaderOnly
  else
    let scan := match find (fun i => proxy_cand (leader s) i (rep_at s i)) (seq 0 (length (reps s))) with
                | Some p => PxVia p
                | None => PxNone
                end in
    (* the memoised proxy first — but only if it is still a candidate (not tried in this call, reachable, fresh) *)
    match pidx s with
    | Some q => if (q <? length (reps s)) && proxy_cand (leader s) q (rep_at s q) then PxVia q else scan
    | None => scan
    end.
Definition unset_if (c : cfg) (s : state) : state :=
  if rt_eqb (rt s) RTLeader && c_fw c && proxy_unneeded s then set_pidx None s else s.

(* replicaSelector.nextForReplicaReadLeader without the proxy strategy *)
Definition next_leader (c : cfg) (s : state) : option nat * state :=
  let ld := rep_at s (leader s) in
  let '(t1, s1) :=
    match leader_next s with
    | Some l =>
        if busy_thr s && c_read c && (busy_est ld || f_busy ld) then
          match mixed_next (mkMixed false false false false false true) s with
          | (Some i, s') => (Some i, set_q_rr true s')
          | (None, s') => (Some l, set_q_rr false (set_busy_thr false s'))
          end
        else (Some l, s)
    | None => (None, s)
    end in
  match t1 with
  | Some _ => (t1, s1)
  | None =>
      match mixed_next (mkMixed false false (c_leader_only c) false false false) s1 with
      | (Some i, s2) =>
          if c_read c && f_deadline (rep_at s2 (leader s2)) then (Some i, set_q_stale false (set_q_rr true s2))
          else (Some i, s2)
      | (None, s2) => (None, s2)
      end
  end.

(* ReplicaSelectMixedStrategy.canSendReplicaRead *)
Definition can_send_replica_read (s : state) : bool :=
  let ld := rep_at s (leader s) in
  negb ((attempts ld =? 0) || f_deadline ld || f_busy ld).

Definition is_tryleader (t : read_type) : bool := match t with RTMixed | RTPreferLeader => true | _ => false end.

(* replicaSelector.nextForReplicaReadMixed *)
Definition next_mixed (c : cfg) (s : state) : option nat * state :=
  let early :=
    if c_stale c && (sel_attempts s =? 2) then
      match leader_next s with
      | Some l => if negb (exhausted (rep_at s l) 1) then Some l else None
      | None => None
      end
    else None in
  match early with
  | Some l => (Some l, set_q_rr false (set_q_stale false s))
  | None =>
      let p := mkMixed (is_tryleader (q_rt s)) (rt_eqb (c_rt c) RTPreferLeader) (c_leader_only c)
                       (rt_eqb (q_rt s) RTLearner) (c_has_labels c) false in
      match mixed_next p s with
      | (None, s1) => (None, s1)
      | (Some i, s1) =>
          let tr := rep_at s1 i in
          let is_l := i =? leader s1 in
          if c_stale c then
            let keep_stale :=
              if negb (sel_attempts s1 =? 1) || (negb (negb (c_has_labels c) || label_ok tr) && negb is_l)
              then negb (can_send_replica_read s1) else true in
            if keep_stale then (Some i, set_q_rr false (set_q_stale true s1))
            else (Some i, set_q_rr true (set_q_stale false s1))
          else (Some i, set_q_rr (c_read c && negb is_l) (set_q_stale false s1))
      end
  end.

(* ---------------- handling the previous attempt's outcome ---------------- *)
(* HDone / SDone carry the state the call ends in (only the cached-region / store part of it matters: [end_cache]) *)
Inductive hres := HRetry (s : state) (evs : list event) | HDone (sd : state) (r : result) (evs : list event).

Definition with_backoff (c : cfg) (k : bo_kind) (s : state) (on_fail : result) : hres :=
  match backoff c k s with
  | BoOk s' e => HRetry s' [e]
  | BoRefused => HDone s on_fail []
  | BoKilled e => HDone s on_fail [e]
  end.

(* RegionRequestSender.onSendFail + replicaSelector.onSendFailure *)
Definition on_send_fail (c : cfg) (s : state) (t : nat) (deadline : bool) (l : liveness) : hres :=
  (* sendReqState.send: an RPC error while the caller's context is cancelled ends the call at once *)
  if dead s then HDone s RError [] else
  if deadline && c_short_to c && c_read c then HRetry (upd_rep t (set_f_deadline true) s) []
  else
    let a := match proxy s with Some p => p | None => t end in   (* the accessed store: the proxy if there is one *)
    let s1 := if is_reachable l then s
              else upd_rep a (fun r => if is_reachable (live r) then set_live l r else r) s in
    (* "just return to use proxy": leader unreachable, forwarding on, no proxy used yet *)
    let use_proxy_next := rt_eqb (rt s) RTLeader && match proxy s with None => true | Some _ => false end && (t =? leader s) &&
                          is_unreachable l && (1 <? length (reps s)) && c_fw c in
    let s2 := if is_reachable l || use_proxy_next then s1 else upd_rep a inval_store s1 in
    with_backoff c BoRPC s2 RError.

(* replicaSelector.onNotLeader with a leader hint (baseReplicaSelector.updateLeader, replica.onUpdateLeader) *)
Definition on_not_leader_hint (lim : option nat) (s : state) (t k : nat) : hres :=
  let s1 := upd_rep t (set_f_notleader true) s in
  if length (reps s1) <=? k then HRetry (set_valid false s1) []
  else if negb (is_reachable (live (rep_at s1 k))) then HRetry s1 []
  else
    (* replica.onUpdateLeader(maxRearm): [rearmed_v] = the per-replica counters replica.rearmed; lim = Some maxRearm *)
    let was_exhausted := exhausted (rep_at s1 k) max_replica_attempt &&
                         match lim with Some m => nth k (rearmed_v s1) m <? m | None => true end in
    (* Region.switchWorkLeaderToPeer refreshes the region's epoch snapshot of the new leader's store (when the leader changes) *)
    let s2 := upd_rep k (fun r => (if k =? leader s1 then r else set_rstale false r))
             (upd_rep k (fun r => set_f_suspect false (set_f_notleader false
                                   (if was_exhausted then set_attempts (max_replica_attempt - 1) r else r)))
                (match lim with
                 | Some _ => if was_exhausted then set_rearmed_v (upd k S (rearmed_v s1)) s1 else s1
                 | None => s1
                 end)) in
    let s3 := set_leader k s2 in
    let s4 := if leader_candidate (rep_at s3 k) then set_rt RTLeader s3 else s3 in
    HRetry s4 (if was_exhausted then [ERearm k] else []).

(* invalidate the region, back off, then hand the region error of attempt i to the caller (RecoveryInProgress, IsWitness) *)
Definition backoff_then_region_err (c : cfg) (k : bo_kind) (s : state) (i : nat) : hres :=
  match backoff c k (set_valid false s) with
  | BoOk s' e => HDone s' (RRegionErr i) [e]
  | BoRefused => HDone (set_valid false s) RError []
  | BoKilled e => HDone (set_valid false s) RError [e]
  end.

(* replicaSelector.canFastRetry *)
Definition can_fast_retry (s : state) : bool :=
  if rt_eqb (rt s) RTLeader then
    let ld := rep_at s (leader s) in negb (leader_candidate ld && negb (f_busy ld))
  else true.

Definition opt_nat_eqb (a : option nat) (b : nat) : bool := match a with Some x => x =? b | None => false end.

(* replicaSelector.onServerIsBusy *)
Definition on_busy (c : cfg) (s : state) (t : nat) (wait : bool) : hres :=
  let s1 :=
    if wait then
      let s' := upd_rep t (set_busy_est true) s in
      if busy_thr s' && c_read c then upd_rep t (set_f_busy true) s' else s'
    else
      let s' := upd_rep t (set_slow true) s in
      if rt_eqb (rt s') RTLeader && negb (c_stale c) && negb (c_leader_only c) && (t =? leader s') && negb (lb_probed s') then
        let s'' := if opt_nat_eqb (lb_peer s') (leader s') then s' else set_lb_count 0 (set_lb_peer (Some (leader s')) s') in
        let s3 := set_lb_count (S (lb_count s'')) s'' in
        if 2 <=? lb_count s3 then set_lb_probed true (upd_rep t (set_f_suspect true) s3) else s3
      else s' in
  if can_fast_retry s1 then HRetry (upd_rep t (fun r => set_f_busy true (set_pending true r)) s1) []
  else with_backoff c BoBusy s1 RError.

(* RegionRequestSender.onRegionError / onSendFail, for the outcome o of attempt number i sent to replica t *)
Definition handle (fixed : bool) (c : cfg) (s : state) (t : nat) (o : outcome) (i : nat) : hres :=
  match o with
  | OSuccess => HDone s (RSuccess i) []
  | ORpcErr l => on_send_fail c s t false l
  | ODeadline l => on_send_fail c s t true l
  | ONotLeader => with_backoff c BoRegionScheduling (upd_rep t (set_f_notleader true) s) RError
  | ONotLeaderHint k => on_not_leader_hint (if fixed then Some (length (c_reps c) - 1) else None) s t k
  | OEpochNoRegions | OEpochNewer | OStoreNotMatch => HDone (set_valid false s) (RRegionErr i) []
  | OEpochBehind => with_backoff c BoRegionMiss s RError
  | ORegionNotFound =>
      if negb (exhausted (rep_at s (leader s)) 1) then
        HRetry (set_valid false (set_inv_retry true (set_rt RTLeader (set_q_rt RTLeader (set_q_rr false s))))) []
      else HDone (set_valid false s) (RRegionErr i) []
  | OBusy w => on_busy c s t w
  | OBusyDeadline =>
      if c_short_to c && c_read c then HRetry (upd_rep t (set_f_deadline true) s) [] else on_busy c s t false
  | OStaleCommand | OUnknown => HRetry s []
  | ODataIsNotReady => HRetry (upd_rep t (set_f_dnr true) s) []
  | OMaxTsNotSynced => with_backoff c BoMaxTs s RError
  | ODiskFull => with_backoff c BoDiskFull s (RRegionErr i)
  | OUndetermined | OBucketVersion => HDone s (RRegionErr i) []
  | ORecovery => backoff_then_region_err c BoRecovery s i
  | OWitness => backoff_then_region_err c BoWitness s i
  | OFlashback =>
      (* replicaSelector.onFlashbackInProgress: a replica read that hit a follower is retried on the leader *)
      if q_rr s && negb (t =? leader s)
      then HRetry (set_q_rr false (set_q_rt RTLeader (set_rt RTLeader (set_busy_thr false s)))) []
      else HDone s (RFatal i) []
  | OFlashbackNotPrepared | ORaftTooLarge | OInvalidMaxTs => HDone s (RFatal i) []
  | OKeyNotInRegion | OMismatchPeer => HDone (set_valid false s) (RRegionErr i) []
  | ONotInitialized => with_backoff c BoNotInit s RError
  | OReadIndexNotReady | OMerging => with_backoff c BoRegionScheduling s RError
  | ODeadlineMsg => if c_short_to c && c_read c then HRetry (upd_rep t (set_f_deadline true) s) [] else HRetry s []
  end.

(* ---------------- choosing the next replica and sending ---------------- *)
Inductive sres := SSent (s : state) (t : nat) (evs : list event) | SDone (sd : state) (r : result) (evs : list event).

Definition any_pending (s : state) : bool := existsb pending (reps s).

(* rpcCtx == nil: backoffOnNoCandidate, then the pseudo EpochNotMatch *)
Definition no_candidate (c : cfg) (s : state) : sres :=
  if any_pending s then
    match backoff c BoBusy s with
    | BoOk _ e => SDone s RPseudo [e]
    | BoRefused => SDone s RError []
    | BoKilled e => SDone s RError [e]
    end
  else SDone s RPseudo [].

Definition sat3 (n : nat) : nat := if 3 <=? n then 3 else n.   (* selector.attempts is only compared with 1 and 2 *)

(* replicaSelector.next + buildRPCContext + backoffOnRetry *)
Definition sel_phase (c : cfg) (s : state) : sres :=
  let go :=
    if inv_retry s then Some (set_inv_retry false s)
    else if valid s then Some s else None in
  match go with
  | None => no_candidate c s
  | Some s0 =>
      let s1 := set_proxy None (set_sel_attempts (sat3 (S (sel_attempts s0))) (unset_if c s0)) in
      match (if rt_eqb (rt s1) RTLeader && c_fw c then proxy_next s1 else PxLeaderOnly) with
      | PxNone =>
          (* all followers are tried as proxy: invalidate the leader's store, reload on access *)
          no_candidate c (set_valid false (upd_rep (leader s1) inval_store s1))
      | PxVia p =>
          let t := leader s1 in
          if stale (rep_at s1 t) || stale (rep_at s1 p) then no_candidate c (set_valid false s1)
          else
            let s3 := upd_rep p (fun r => set_attempts (S (attempts r)) r)
                        (upd_rep t (fun r => set_attempts (S (attempts r)) r) (set_proxy (Some p) s1)) in
            if pending (rep_at s3 t) then
              match backoff c BoBusy (upd_rep t (set_pending false) s3) with
              | BoOk s4 e => SSent s4 t [e; EProxy p]
              | BoRefused => SDone s3 RError []
              | BoKilled e => SDone s3 RError [e]
              end
            else SSent s3 t [EProxy p]
      | PxLeaderOnly =>
      let '(tg, s2) := if rt_eqb (rt s1) RTLeader then next_leader c s1 else next_mixed c s1 in
      match tg with
      | None => no_candidate c s2
      | Some t =>
          if stale (rep_at s2 t) then no_candidate c (set_valid false s2)
          else
            let s3 := upd_rep t (fun r => set_attempts (S (attempts r)) r) s2 in
            if pending (rep_at s3 t) then
              match backoff c BoBusy (upd_rep t (set_pending false) s3) with
              | BoOk s4 e => SSent s4 t [e]
              | BoRefused => SDone s3 RError []
              | BoKilled e => SDone s3 RError [e]
              end
            else SSent s3 t []
      end
      end
  end.

(* sendReqState.send: the client-side slow score statistics of a prefer-leader request *)
Definition after_send (s : state) (t : nat) : state :=
  if rt_eqb (q_rt s) RTPreferLeader then
    upd_rep t (fun r => if stat_init r then r else set_stat_init true (set_slow false r)) s
  else s.

Definition raise_att (c : cfg) (i : nat) (s : state) : state :=
  set_killed (killed s || trig_att (c_kill c) i) (set_dead (dead s || trig_att (c_cancel c) i) s).

(* the retry loop of SendReqCtx: [prev] is the replica and the outcome of attempt i-1 *)
Fixpoint loop_gen (fixed : bool) (c : cfg) (script : list outcome) (s : state) (prev : option (nat * outcome)) (i : nat) : list event * result :=
  match (if c_interruptible c && killed s && negb (c_async c && (i =? 0))
         then HDone s RError []   (* next(): bo.CheckKilled() for interruptible requests *)
         else match prev with None => HRetry s [] | Some (t, o) => handle fixed c s t o (pred i) end) with
  | HDone _ r evs => (evs, r)
  | HRetry s1 evs1 =>
      let s1' := if 0 <? i then set_q_retry true s1 else s1 in
      match sel_phase c s1' with
      | SDone _ r evs2 => (evs1 ++ evs2, r)
      | SSent s2 t evs2 =>
          let ev := EAtt t (q_rr s2) (q_stale s2) (q_retry s2) in
          (* a client handed a cancelled context answers with the context error whatever the store would say;
             otherwise the flags may be raised while the attempt is in flight *)
          let s3 := raise_att c i (after_send s2 t) in
          match script with
          | [] => (evs1 ++ evs2 ++ [ev], if dead s2 then RError else RSuccess i)
          | OSuccess :: _ => (evs1 ++ evs2 ++ [ev], if dead s2 then RError else RSuccess i)
          | o :: rest =>
              let '(evs, r) := loop_gen fixed c rest s3 (Some (t, if dead s2 then ORpcErr Reachable else o)) (S i) in
              (evs1 ++ evs2 ++ ev :: evs, r)
          end
      end
  end.

Definition init_state (c : cfg) (rands : list nat) (sleeps : list N) : state :=
  mkState (c_reps c) (c_leader0 c) true (c_rt c) 0 false (c_thr c) 0 None false
          (c_rt c) (c_read c && negb (c_stale c) && negb (rt_eqb (c_rt c) RTLeader)) (c_read c && c_stale c) false
          0%N 0%N rands sleeps None (map (fun _ => 0) (c_reps c)) (trig_pre (c_cancel c)) (trig_pre (c_kill c)) 0 (c_proxy0 c).

(* RegionRequestSender.validateReadTS: requests served by a TiDB node are exempt, every other read (TiKV, TiFlash) is validated *)
Definition validation_refuses (c : cfg) : bool := c_read c && negb (c_val c) && negb (is_tidb (c_store_tp c)).

(* SendReqCtx: validateReadTS first (reads only), then the loop *)
Definition run_gen (fixed : bool) (c : cfg) (script : list outcome) (rands : list nat) (sleeps : list N) : list event * result :=
  if validation_refuses c then ([], RError)
  else loop_gen fixed c script (init_state c rands sleeps) None 0.
(* the code as it is *)
Definition run := run_gen true.
(* the re-arm rule before fix cb7d671 (finding F10): every hint re-arms an exhausted replica *)
Definition run_before_fix := run_gen false.

(* observables *)
Definition is_att (e : event) : bool := match e with EAtt _ _ _ _ => true | _ => false end.
Definition is_rearm (e : event) : bool := match e with ERearm _ => true | _ => false end.
Definition is_bo (e : event) : bool := match e with EBo _ _ => true | _ => false end.
Definition n_attempts (evs : list event) : nat := length (filter is_att evs).
Definition n_rearms (evs : list event) : nat := length (filter is_rearm evs).
Definition n_backoffs (evs : list event) : nat := length (filter is_bo evs).
Definition fresh_rep (lv : liveness) (sl lbl lrn : bool) : rep := mkRep 0 false false false false false false lv sl false false lbl lrn false false.
