(* SendReq/ProofsCancel.v — after the caller's context was cancelled, at most one more attempt reaches a client. *)
From Coq Require Import List Bool Arith NArith Lia.
Import ListNotations.
From Verif Require Import SendReq.Model SendReq.ProofsBound SendReq.ProofsSelect SendReq.ProofsLoop SendReq.ProofsBudget.

(* the cancellation is not raised during a back-off sleep: never, before the call, or while an attempt is in flight *)
Definition no_bo_cancel (c : cfg) : Prop := forall j, trig_bo (c_cancel c) j = false.

Section C.
Variable fixed : bool.
Variable c : cfg.
Hypothesis NB : no_bo_cancel c.

Lemma backoff_deadeq k s s' e : backoff c k s = BoOk s' e -> dead s' = dead s.
Proof.
  unfold backoff. destruct (dead s) eqn:D; [discriminate|].
  destruct ((0 <? c_max_sleep c)%N && budget_exceeded c k s); [discriminate|]. destruct (pop 0%N (orc_s s)) as [sl0 rest]. cbv zeta.
  match goal with |- (if ?b then _ else _) = _ -> _ => destruct b end; [discriminate|].
  intros H. injection H as <- _. destruct (excluded k); cbn; apply NB.
Qed.

Ltac ifs := repeat match goal with |- context [if ?b then _ else _] => destruct b eqn:? end.

Lemma handle_deadeq s t o i :
  match handle fixed c s t o i with HRetry s' _ => dead s' = dead s | HDone _ _ _ => True end.
Proof.
  destruct o; cbn [handle]; unfold on_send_fail, on_busy, on_not_leader_hint, with_backoff, backoff_then_region_err; cbv zeta; auto;
    ifs; auto; try (destruct (backoff _ _ _) as [s' e| |e] eqn:B; [apply backoff_deadeq in B|exact I|exact I]); auto; try (cbn in B; congruence).
Qed.

Lemma sel_phase_deadeq s :
  match sel_phase c s with SSent s' _ _ => dead s' = dead s | SDone _ _ _ => True end.
Proof.
  assert (NC : forall s0, match no_candidate c s0 with SSent s' _ _ => dead s' = dead s | SDone _ _ _ => True end).
  { intros s0. unfold no_candidate. destruct (any_pending s0); auto. destruct (backoff c BoBusy s0) as [? ?| |?]; auto. }
  assert (AD : forall a b, aux a = aux b -> dead a = dead b) by (intros a b H; unfold aux in H; now injection H).
  unfold sel_phase. cbv zeta.
  match goal with |- context [match ?e with Some _ => _ | None => _ end] => destruct e as [s0|] eqn:G end; [|apply NC].
  assert (E0 : dead s0 = dead s).
  { destruct (inv_retry s); [inversion G; reflexivity|]. destruct (valid s); inversion G; reflexivity. }
  set (s1 := set_proxy None (set_sel_attempts (sat3 (S (sel_attempts s0))) (unset_if c s0))).
  assert (E1 : dead s1 = dead s) by (subst s1; unfold unset_if; destruct (_ && _); exact E0).
  destruct (if rt_eqb (rt s1) RTLeader && c_fw c then proxy_next s1 else PxLeaderOnly) as [|p|]; [| |apply NC].
  - destruct (if rt_eqb (rt s1) RTLeader then next_leader c s1 else next_mixed c s1) as [tg s2] eqn:N.
    assert (E2 : dead s2 = dead s).
    { rewrite <- E1. apply AD. destruct (rt_eqb (rt s1) RTLeader); [eapply next_leader_aux | eapply next_mixed_aux]; eassumption. }
    destruct tg as [t|]; [|apply NC]. destruct (stale _); [apply NC|].
    destruct (pending _); [|exact E2].
    destruct (backoff c BoBusy _) as [s4 e| |e] eqn:B; [|exact I|exact I]. apply backoff_deadeq in B. rewrite B. exact E2.
  - destruct (stale _ || stale _); [apply NC|].
    destruct (pending _); [|exact E1].
    destruct (backoff c BoBusy _) as [s4 e| |e] eqn:B; [|exact I|exact I]. apply backoff_deadeq in B. rewrite B. exact E1.
Qed.

(* once the context is dead, an RPC-level answer ends the call without another attempt *)
Lemma loop_after_dead script s t l i : dead s = true ->
  n_attempts (fst (loop_gen fixed c script s (Some (t, ORpcErr l)) i)) = 0.
Proof.
  intros D. rewrite loop_unfold. unfold pre. destruct (c_interruptible c && killed s && _); [reflexivity|].
  cbn [handle]. unfold on_send_fail. rewrite D. reflexivity.
Qed.

(* ... hence at most one more attempt from a state whose context is dead *)
Lemma loop_dead script s prev i : dead s = true -> n_attempts (fst (loop_gen fixed c script s prev i)) <= 1.
Proof.
  intros D. rewrite loop_unfold.
  pose proof (pre_spec fixed c s prev i) as P.
  assert (PD : match pre fixed c s prev i with HRetry s' _ => dead s' = dead s | HDone _ _ _ => True end).
  { unfold pre. destruct (c_interruptible c && killed s && _); [exact I|]. destruct prev as [[t o]|]; [apply handle_deadeq|reflexivity]. }
  destruct (pre fixed c s prev i) as [s1 evs1|sd r evs1]; [|destruct P as [P _]; cbn [fst]; lia].
  destruct P as [_ P]. cbv zeta.
  set (s1' := if 0 <? i then set_q_retry true s1 else s1).
  assert (D1 : dead s1' = true) by (subst s1'; destruct (0 <? i); cbn; congruence).
  pose proof (sel_phase_spec c s1') as Q. pose proof (sel_phase_deadeq s1') as QD.
  destruct (sel_phase c s1') as [s2 t evs2|sd2 r evs2].
  2: { destruct Q as [Q _]. cbn [fst]. rewrite n_attempts_app. lia. }
  destruct Q as (_ & Q & _). assert (D2 : dead s2 = true) by congruence. rewrite D2.
  destruct script as [|o rest]; [cbn [fst]; rewrite !n_attempts_app, P, Q; cbn; lia|].
  assert (D3 : dead (raise_att c i (after_send s2 t)) = true).
  { unfold raise_att. cbn. replace (dead (after_send s2 t)) with (dead s2); [now rewrite D2|]. unfold after_send. destruct (rt_eqb _ _); reflexivity. }
  pose proof (loop_after_dead rest _ t Reachable (S i) D3) as L.
  destruct o; try (cbn [fst]; rewrite !n_attempts_app, P, Q; cbn; lia);
    destruct (loop_gen fixed c rest _ _ (S i)) as [evs r]; cbn [fst] in *; rewrite !n_attempts_app, n_attempts_cons_att, P, Q, L; lia.
Qed.

(* cancellation while attempt k is in flight: attempts 0..k, and at most one more *)
Lemma loop_cancel_att k script : c_cancel c = TAtt k -> forall s prev i, dead s = false -> i <= k ->
  n_attempts (fst (loop_gen fixed c script s prev i)) + i <= k + 2.
Proof.
  intros CK. induction script as [|o rest IH]; intros s prev i D Hi; rewrite loop_unfold;
    pose proof (pre_spec fixed c s prev i) as P;
    assert (PD : match pre fixed c s prev i with HRetry s' _ => dead s' = dead s | HDone _ _ _ => True end)
      by (unfold pre; destruct (c_interruptible c && killed s && _); [exact I|]; destruct prev as [[t0 o0]|]; [apply handle_deadeq|reflexivity]);
    (destruct (pre fixed c s prev i) as [s1 evs1|sd r evs1]; [|destruct P as [P _]; cbn [fst]; lia]);
    destruct P as [_ P]; cbv zeta;
    set (s1' := if 0 <? i then set_q_retry true s1 else s1);
    assert (D1 : dead s1' = false) by (subst s1'; destruct (0 <? i); cbn; congruence);
    pose proof (sel_phase_spec c s1') as Q; pose proof (sel_phase_deadeq s1') as QD;
    (destruct (sel_phase c s1') as [s2 t evs2|sd2 r evs2]; [|destruct Q as [Q _]; cbn [fst]; rewrite n_attempts_app; lia]);
    destruct Q as (_ & Q & _); assert (D2 : dead s2 = false) by congruence; rewrite D2.
  - cbn [fst]. rewrite !n_attempts_app, P, Q. cbn. lia.
  - assert (D3 : dead (raise_att c i (after_send s2 t)) = (k =? i)).
    { unfold raise_att. cbn. replace (dead (after_send s2 t)) with (dead s2) by (unfold after_send; destruct (rt_eqb _ _); reflexivity).
      rewrite D2, CK. reflexivity. }
    destruct (Nat.eqb_spec k i) as [->|NE].
    + pose proof (loop_dead rest (raise_att c i (after_send s2 t)) (Some (t, o)) (S i) D3) as L.
      destruct o; try (cbn [fst]; rewrite !n_attempts_app, P, Q; cbn; lia);
        destruct (loop_gen fixed c rest _ _ (S i)) as [evs r]; cbn [fst] in *; rewrite !n_attempts_app, n_attempts_cons_att, P, Q; lia.
    + specialize (IH (raise_att c i (after_send s2 t)) (Some (t, o)) (S i) D3 ltac:(lia)).
      destruct o; try (cbn [fst]; rewrite !n_attempts_app, P, Q; cbn; lia);
        destruct (loop_gen fixed c rest _ _ (S i)) as [evs r]; cbn [fst] in *; rewrite !n_attempts_app, n_attempts_cons_att, P, Q; lia.
Qed.
End C.

Lemma run_cancel_att fixed c k script rands sleeps : c_cancel c = TAtt k ->
  n_attempts (fst (run_gen fixed c script rands sleeps)) <= k + 2.
Proof.
  intros CK. unfold run_gen. destruct (validation_refuses c); [cbn; lia|].
  assert (NB : no_bo_cancel c) by (intros j; rewrite CK; reflexivity).
  pose proof (loop_cancel_att fixed c NB k script CK (init_state c rands sleeps) None 0) as L.
  assert (D : dead (init_state c rands sleeps) = false) by (unfold init_state; cbn; rewrite CK; reflexivity).
  specialize (L D ltac:(lia)). lia.
Qed.

Lemma run_cancel_pre fixed c script rands sleeps : c_cancel c = TPre ->
  n_attempts (fst (run_gen fixed c script rands sleeps)) <= 1.
Proof.
  intros CK. unfold run_gen. destruct (validation_refuses c); [cbn; lia|].
  assert (NB : no_bo_cancel c) by (intros j; rewrite CK; reflexivity).
  apply (loop_dead fixed c NB). unfold init_state; cbn. rewrite CK. reflexivity.
Qed.

Lemma run_cancel c script rands sleeps :
  (c_cancel c = TPre -> n_attempts (fst (run c script rands sleeps)) <= 1) /\
  (forall k, c_cancel c = TAtt k -> n_attempts (fst (run c script rands sleeps)) <= k + 2).
Proof. split; [apply run_cancel_pre|intros k; apply run_cancel_att]. Qed.
