(* SendReq/ProofsBound.v — every attempt uses up one of the maxReplicaAttempt units of some replica;
   only replica.onUpdateLeader (NotLeader with a leader hint naming an exhausted replica) gives units back. *)
From Coq Require Import List Bool Arith NArith Lia.
Import ListNotations.
From Verif Require Import SendReq.Model.

Definition atts (s : state) : list nat := map attempts (reps s).
Fixpoint room_l (l : list nat) : nat := match l with [] => 0 | a :: t => (max_replica_attempt - a) + room_l t end.
Definition room (s : state) : nat := room_l (atts s).
Definition att_at (s : state) (t : nat) : nat := nth t (atts s) max_replica_attempt.

Lemma att_at_rep s t : attempts (rep_at s t) = att_at s t.
Proof. unfold rep_at, att_at, atts. change max_replica_attempt with (attempts dummy_rep). now rewrite map_nth. Qed.

Lemma map_upd_same {A} (g : A -> nat) f i (l : list A) : (forall r, g (f r) = g r) -> map g (upd i f l) = map g l.
Proof. intros H. revert i; induction l; intros [|i]; simpl; auto; now rewrite ?H, ?IHl. Qed.

Lemma atts_upd_same i f s : (forall r, attempts (f r) = attempts r) -> atts (upd_rep i f s) = atts s.
Proof. intros H. unfold atts, upd_rep; simpl. now apply map_upd_same. Qed.

Lemma room_upd_inc i (l : list rep) :
  nth i (map attempts l) max_replica_attempt < max_replica_attempt ->
  room_l (map attempts (upd i (fun r => set_attempts (S (attempts r)) r) l)) + 1 = room_l (map attempts l).
Proof.
  revert i; induction l as [|a l IHl]; intros [|j] H;
    cbn [map upd nth room_l attempts set_attempts] in *; unfold max_replica_attempt in *; try lia.
  specialize (IHl j H). lia.
Qed.

Lemma room_upd_rearm i f (g : rep -> bool) (l : list rep) :
  (forall r, attempts (f r) = if g r then max_replica_attempt - 1 else attempts r) ->
  room_l (map attempts (upd i f l)) <= room_l (map attempts l) + (if g (nth i l dummy_rep) then 1 else 0).
Proof.
  intros H. revert i; induction l as [|a l IHl]; intros [|j];
    cbn [map upd nth room_l]; try (destruct (g _); lia).
  - rewrite H. destruct (g a); unfold max_replica_attempt in *; lia.
  - specialize (IHl j). destruct (g _); lia.
Qed.

Lemma room_upd_inc_le i (l : list rep) :
  room_l (map attempts (upd i (fun r => set_attempts (S (attempts r)) r) l)) <= room_l (map attempts l).
Proof.
  revert i; induction l as [|a l IHl]; intros [|j];
    cbn [map upd nth room_l attempts set_attempts] in *; unfold max_replica_attempt in *; try lia.
  specialize (IHl j). lia.
Qed.

Lemma nth_upd_other {A} (g : A -> nat) f i j (l : list A) d : i <> j -> nth j (map g (upd i f l)) d = nth j (map g l) d.
Proof.
  revert i j; induction l as [|a l IH]; intros [|i] [|j] H; cbn [map upd nth]; auto; try congruence.
Qed.

Lemma n_attempts_app a b : n_attempts (a ++ b) = n_attempts a + n_attempts b.
Proof. unfold n_attempts. now rewrite filter_app, app_length. Qed.
Lemma n_rearms_app a b : n_rearms (a ++ b) = n_rearms a + n_rearms b.
Proof. unfold n_rearms. now rewrite filter_app, app_length. Qed.
Lemma n_backoffs_app a b : n_backoffs (a ++ b) = n_backoffs a + n_backoffs b.
Proof. unfold n_backoffs. now rewrite filter_app, app_length. Qed.

(* ---- back-off never touches the replicas ---- *)
Definition quiet (evs : list event) : Prop := n_attempts evs = 0 /\ n_rearms evs = 0.
Lemma quiet_nil : quiet []. Proof. split; reflexivity. Qed.
#[export] Hint Resolve quiet_nil : core.

Lemma backoff_frame c k s s' e : backoff c k s = BoOk s' e ->
  reps s' = reps s /\ q_rr s' = q_rr s /\ q_stale s' = q_stale s /\ q_retry s' = q_retry s /\ exists sl, e = EBo k sl.
Proof.
  unfold backoff. destruct (dead s); [discriminate|].
  destruct ((0 <? c_max_sleep c)%N && budget_exceeded c k s); [discriminate|].
  destruct (pop 0%N (orc_s s)) as [sl0 rest]. cbv zeta.
  match goal with |- (if ?b then _ else _) = _ -> _ => destruct b end; [discriminate|].
  destruct (excluded k); intros H; inversion H; subst; simpl; eauto 10.
Qed.
Lemma backoff_killed c k s e : backoff c k s = BoKilled e -> exists sl, e = EBo k sl.
Proof.
  unfold backoff. destruct (dead s); [discriminate|].
  destruct ((0 <? c_max_sleep c)%N && budget_exceeded c k s); [discriminate|].
  destruct (pop 0%N (orc_s s)) as [sl0 rest]. cbv zeta.
  match goal with |- (if ?b then _ else _) = _ -> _ => destruct b end; [|discriminate].
  intros H; inversion H; eauto.
Qed.
Lemma quiet_bo k sl : quiet [EBo k sl]. Proof. split; reflexivity. Qed.
#[export] Hint Resolve quiet_bo : core.

Lemma atts_set_leader v s : atts (set_leader v s) = atts s. Proof. reflexivity. Qed.
Lemma atts_set_valid v s : atts (set_valid v s) = atts s. Proof. reflexivity. Qed.
Lemma atts_set_rt v s : atts (set_rt v s) = atts s. Proof. reflexivity. Qed.
Lemma atts_set_sel_attempts v s : atts (set_sel_attempts v s) = atts s. Proof. reflexivity. Qed.
Lemma atts_set_inv_retry v s : atts (set_inv_retry v s) = atts s. Proof. reflexivity. Qed.
Lemma atts_set_busy_thr v s : atts (set_busy_thr v s) = atts s. Proof. reflexivity. Qed.
Lemma atts_set_lb_count v s : atts (set_lb_count v s) = atts s. Proof. reflexivity. Qed.
Lemma atts_set_lb_peer v s : atts (set_lb_peer v s) = atts s. Proof. reflexivity. Qed.
Lemma atts_set_lb_probed v s : atts (set_lb_probed v s) = atts s. Proof. reflexivity. Qed.
Lemma atts_set_q_rt v s : atts (set_q_rt v s) = atts s. Proof. reflexivity. Qed.
Lemma atts_set_q_rr v s : atts (set_q_rr v s) = atts s. Proof. reflexivity. Qed.
Lemma atts_set_q_stale v s : atts (set_q_stale v s) = atts s. Proof. reflexivity. Qed.
Lemma atts_set_q_retry v s : atts (set_q_retry v s) = atts s. Proof. reflexivity. Qed.
Lemma atts_set_bo_total v s : atts (set_bo_total v s) = atts s. Proof. reflexivity. Qed.
Lemma atts_set_bo_excl v s : atts (set_bo_excl v s) = atts s. Proof. reflexivity. Qed.
Lemma atts_set_orc_r v s : atts (set_orc_r v s) = atts s. Proof. reflexivity. Qed.
Lemma atts_set_orc_s v s : atts (set_orc_s v s) = atts s. Proof. reflexivity. Qed.
Lemma atts_set_proxy v s : atts (set_proxy v s) = atts s. Proof. reflexivity. Qed.
Lemma atts_set_rearmed_v v s : atts (set_rearmed_v v s) = atts s. Proof. reflexivity. Qed.
Lemma atts_set_pidx v s : atts (set_pidx v s) = atts s. Proof. reflexivity. Qed.
Lemma atts_unset_if c s : atts (unset_if c s) = atts s. Proof. unfold unset_if. destruct (_ && _); reflexivity. Qed.
#[export] Hint Rewrite atts_set_leader atts_set_valid atts_set_rt atts_set_sel_attempts atts_set_inv_retry atts_set_busy_thr atts_set_lb_count atts_set_lb_peer atts_set_lb_probed atts_set_q_rt atts_set_q_rr atts_set_q_stale atts_set_q_retry atts_set_bo_total atts_set_bo_excl atts_set_orc_r atts_set_orc_s atts_set_proxy atts_set_rearmed_v atts_set_pidx atts_unset_if : atts_db.
Ltac att_same := intros ?r; unfold inval_store; repeat match goal with |- context [if ?b then _ else _] => destruct b end; reflexivity.
Ltac atts_norm := repeat (first [ progress autorewrite with atts_db | rewrite atts_upd_same by att_same ]).

(* ---- handling an outcome: room grows only by re-arms, no attempt is made ---- *)
Lemma with_backoff_spec c k s r0 :
  match with_backoff c k s r0 with
  | HRetry s' evs => atts s' = atts s /\ n_attempts evs = 0 /\ n_rearms evs = 0
  | HDone _ _ evs => quiet evs
  end.
Proof.
  unfold with_backoff. destruct (backoff c k s) as [s' e| |e] eqn:E; auto.
  - apply backoff_frame in E as (Hr & _ & _ & _ & sl & ->). unfold atts. rewrite Hr. auto.
  - apply backoff_killed in E as (sl & ->). auto.
Qed.

Lemma on_busy_spec c s t w :
  match on_busy c s t w with
  | HRetry s' evs => atts s' = atts s /\ n_attempts evs = 0 /\ n_rearms evs = 0
  | HDone _ _ evs => quiet evs
  end.
Proof.
  unfold on_busy.
  match goal with |- context [can_fast_retry ?x] => set (s1 := x) end.
  assert (H1 : atts s1 = atts s).
  { subst s1. repeat match goal with |- context [if ?b then _ else _] => destruct b end; atts_norm; reflexivity. }
  destruct (can_fast_retry s1).
  - rewrite atts_upd_same by att_same. auto.
  - pose proof (with_backoff_spec c BoBusy s1 RError) as W.
    destruct (with_backoff c BoBusy s1 RError); auto. destruct W as (W & ?). rewrite W. auto.
Qed.

Lemma on_send_fail_spec c s t d l :
  match on_send_fail c s t d l with
  | HRetry s' evs => atts s' = atts s /\ n_attempts evs = 0 /\ n_rearms evs = 0
  | HDone _ _ evs => quiet evs
  end.
Proof.
  unfold on_send_fail. destruct (dead s); [auto|]. destruct (d && c_short_to c && c_read c).
  - atts_norm. auto.
  - match goal with |- context [with_backoff c BoRPC ?x RError] => set (s2 := x) end.
    assert (H : atts s2 = atts s)
      by (subst s2; cbv zeta; repeat match goal with |- context [if ?b then _ else _] => destruct b end; atts_norm; reflexivity).
    pose proof (with_backoff_spec c BoRPC s2 RError) as W.
    destruct (with_backoff c BoRPC s2 RError); auto. destruct W as (W & ?). rewrite W. auto.
Qed.

Lemma room_eq s s' : atts s' = atts s -> room s' = room s.
Proof. unfold room. now intros ->. Qed.

Lemma on_not_leader_hint_spec lim s t k :
  match on_not_leader_hint lim s t k with
  | HRetry s' evs => room s' <= room s + n_rearms evs /\ n_attempts evs = 0
  | HDone _ _ evs => quiet evs
  end.
Proof.
  unfold on_not_leader_hint. cbv zeta.
  set (s1 := upd_rep t (set_f_notleader true) s).
  assert (H1 : atts s1 = atts s) by (subst s1; atts_norm; reflexivity).
  destruct (length (reps s1) <=? k). { unfold room; atts_norm. rewrite H1. simpl. split; [lia|reflexivity]. }
  destruct (negb (is_reachable (live (rep_at s1 k)))). { rewrite (room_eq _ _ H1). simpl. split; [lia|reflexivity]. }
  match goal with |- context [set_leader k ?x] => set (s2 := x) end.
  set (w := exhausted (rep_at s1 k) max_replica_attempt && match lim with Some m => nth k (rearmed_v s1) m <? m | None => true end) in *.
  assert (H2 : room s2 <= room s1 + (if w then 1 else 0)).
  { subst s2. unfold room, atts at 1, upd_rep. cbn [reps set_reps].
    assert (E : reps (match lim with Some _ => if w then set_rearmed_v (upd k S (rearmed_v s1)) s1 else s1 | None => s1 end) = reps s1)
      by (destruct lim; [destruct w|]; reflexivity).
    rewrite (map_upd_same attempts (fun r : rep => if k =? leader s1 then r else set_rstale false r))
      by (intros r; destruct (k =? leader s1); reflexivity).
    rewrite E. fold (atts s1).
    pose proof (room_upd_rearm k (fun r => set_f_suspect false (set_f_notleader false (if w then set_attempts (max_replica_attempt - 1) r else r)))
                  (fun _ => w) (reps s1)) as L.
    cbv beta in L. unfold atts. apply L. intros r. destruct w; reflexivity. }
  match goal with |- room ?x <= _ /\ _ => assert (H4 : atts x = atts s2) end.
  { destruct (leader_candidate _); atts_norm; reflexivity. }
  rewrite (room_eq _ _ H4). rewrite (room_eq _ _ H1) in H2.
  destruct w;
    unfold n_rearms, n_attempts; cbn [filter is_rearm is_att length]; split; try lia; reflexivity.
Qed.

Lemma btr_spec c k s i :
  match backoff_then_region_err c k s i with HRetry _ _ => False | HDone _ _ evs => quiet evs end.
Proof.
  unfold backoff_then_region_err. destruct (backoff c k _) as [s' e| |e] eqn:B; auto.
  - apply backoff_frame in B as (_ & _ & _ & _ & sl & ->). auto.
  - apply backoff_killed in B as (sl & ->). auto.
Qed.

Lemma handle_spec fixed c s t o i :
  match handle fixed c s t o i with
  | HRetry s' evs => room s' <= room s + n_rearms evs /\ n_attempts evs = 0
  | HDone _ _ evs => quiet evs
  end.
Proof.
  assert (G : forall h, match h with HRetry s' evs => atts s' = atts s /\ n_attempts evs = 0 /\ n_rearms evs = 0 | HDone _ _ evs => quiet evs end ->
              match h with HRetry s' evs => room s' <= room s + n_rearms evs /\ n_attempts evs = 0 | HDone _ _ evs => quiet evs end).
  { intros [s' evs|sd r evs]; auto. intros (A & B & C). rewrite (room_eq _ _ A). lia. }
  assert (W : forall k s0 r0, atts s0 = atts s ->
              match with_backoff c k s0 r0 with HRetry s' evs => room s' <= room s + n_rearms evs /\ n_attempts evs = 0 | HDone _ _ evs => quiet evs end).
  { intros k s0 r0 E. pose proof (with_backoff_spec c k s0 r0) as X. destruct (with_backoff c k s0 r0); auto.
    destruct X as (A & B & C). rewrite (room_eq _ _ (eq_trans A E)). lia. }
  destruct o; cbn [handle]; auto;
    try (apply G; first [apply on_send_fail_spec | apply on_busy_spec]);
    try (apply W; atts_norm; reflexivity);
    try apply on_not_leader_hint_spec;
    try (match goal with |- context [backoff_then_region_err ?a ?b ?c ?d] =>
           pose proof (btr_spec a b c d) as X; destruct (backoff_then_region_err a b c d); [contradiction|exact X] end);
    repeat match goal with |- context [if ?b then _ else _] => destruct b end; auto;
    try (apply G, on_busy_spec);
    try (split; [unfold room; atts_norm; unfold n_rearms; cbn [filter length]; lia | reflexivity]).
Qed.
