(* SendReq/ProofsLasso.v — finding F10: NotLeader answers whose leader hint alternates between two replicas
   re-arm each exhausted replica (replica.onUpdateLeader) before every send: the number of attempts of ONE
   SendReq call grows with the length of the script and not a single back-off happens. *)
From Coq Require Import List Bool Arith NArith Lia.
Import ListNotations.
From Verif Require Import SendReq.Model SendReq.ProofsBound SendReq.ProofsSelect SendReq.ProofsLoop.

(* twin of [loop] for a script prefix that is used up: events up to and including the last send, the state
   after that send and its target *)
Fixpoint loop_pre (c : cfg) (script : list outcome) (s : state) (prev : option (nat * outcome)) (i : nat) : option (list event * state * nat) :=
  match pre false c s prev i with
  | HDone _ r evs => None
  | HRetry s1 evs1 =>
      let s1' := if 0 <? i then set_q_retry true s1 else s1 in
      match sel_phase c s1' with
      | SDone _ r evs2 => None
      | SSent s2 t evs2 =>
          let ev := EAtt t (q_rr s2) (q_stale s2) (q_retry s2) in
          let s3 := raise_att c i (after_send s2 t) in
          if dead s2 then None else
          match script with
          | [] => Some (evs1 ++ evs2 ++ [ev], s3, t)
          | OSuccess :: _ => None
          | o :: rest =>
              match loop_pre c rest s3 (Some (t, o)) (S i) with
              | Some (evs, x, t') => Some (evs1 ++ evs2 ++ ev :: evs, x, t')
              | None => None
              end
          end
      end
  end.

Lemma loop_split c pr : forall s prev i evs x t o rest,
  loop_pre c pr s prev i = Some (evs, x, t) -> o <> OSuccess ->
  loop_gen false c (pr ++ o :: rest) s prev i =
  (let '(evs', r) := loop_gen false c rest x (Some (t, o)) (S (i + length pr)) in (evs ++ evs', r)).
Proof.
  induction pr as [|p pr IH]; intros s prev i evs x t o rest H Ho; rewrite loop_unfold; cbn [loop_pre] in H;
    destruct (pre false c s prev i) as [s1 evs1|]; try discriminate; cbv zeta in *;
    destruct (sel_phase c _) as [s2 t2 evs2|]; try discriminate; destruct (dead s2); try discriminate.
  - injection H as <- <- <-. cbn [app length]. rewrite Nat.add_0_r.
    destruct o; try congruence; destruct (loop_gen false c rest _ _ _) as [e r]; rewrite <- !app_assoc; reflexivity.
  - cbn [app length].
    destruct p; try discriminate;
      (destruct (loop_pre c pr _ _ _) as [[[evs0 x0] t0]|] eqn:E; [|discriminate]; injection H as <- <- <-;
       rewrite (IH _ _ _ _ _ _ o rest E Ho); rewrite <- Nat.add_succ_comm;
       destruct (loop_gen false c rest _ _ _) as [e r]; rewrite <- !app_assoc; reflexivity).
Qed.

(* leader read of a 3-replica region, everything healthy, a generous budget *)
Definition c0 : cfg := mkCfg RTLeader false true false false false false 100000%N true
  [fresh_rep Reachable false false false; fresh_rep Reachable false false false; fresh_rep Reachable false false false] false TpTiKV TNever TNever true 0 None false.

Definition N0 := ONotLeaderHint 0.
Definition N1 := ONotLeaderHint 1.
Fixpoint cyc (k : nat) : list outcome := match k with O => [] | S k' => N1 :: N0 :: cyc k' end.   (* replica 0 says 1, replica 1 says 0 *)
Fixpoint cyc' (k : nat) : list outcome := match k with O => [] | S k' => N0 :: N1 :: cyc' k' end.
Definition lasso (k : nat) : list outcome := cyc 10 ++ N1 :: cyc' k.

(* the state on the cycle: both replicas 0 and 1 have used all 10 attempts *)
Definition X : state :=
  Eval vm_compute in match loop_pre c0 (cyc 10) (init_state c0 [] []) None 0 with Some (_, x, _) => x | None => init_state c0 [] [] end.
Definition E_prefix : list event :=
  Eval vm_compute in match loop_pre c0 (cyc 10) (init_state c0 [] []) None 0 with Some (e, _, _) => e | None => [] end.
Definition E_cycle : list event := [ERearm 1; EAtt 1 false false true; ERearm 0; EAtt 0 false false true].

Example X_exhausted : map attempts (reps X) = [10; 10; 0] /\ bo_total X = 0%N.
Proof. vm_compute. auto. Qed.

Lemma prefix_pre : loop_pre c0 (cyc 10) (init_state c0 [] []) None 0 = Some (E_prefix, X, 0).
Proof. vm_compute. reflexivity. Qed.

Lemma cycle_pre i : loop_pre c0 [N0] X (Some (0, N1)) (S i) = Some (E_cycle, X, 0).
Proof. vm_compute. reflexivity. Qed.

Lemma prefix_attempts rest :
  n_attempts (fst (loop_gen false c0 (cyc 10 ++ N1 :: rest) (init_state c0 [] []) None 0)) =
    21 + n_attempts (fst (loop_gen false c0 rest X (Some (0, N1)) 21)) /\
  n_backoffs (fst (loop_gen false c0 (cyc 10 ++ N1 :: rest) (init_state c0 [] []) None 0)) =
    n_backoffs (fst (loop_gen false c0 rest X (Some (0, N1)) 21)).
Proof.
  rewrite (loop_split _ _ _ _ _ _ _ _ N1 rest prefix_pre) by discriminate.
  change (S (0 + length (cyc 10))) with 21. destruct (loop_gen false c0 rest X _ 21) as [e r]. cbn [fst].
  rewrite n_attempts_app, n_backoffs_app. split; reflexivity.
Qed.

Lemma cycle_attempts rest i :
  n_attempts (fst (loop_gen false c0 (N0 :: N1 :: rest) X (Some (0, N1)) (S i))) =
    2 + n_attempts (fst (loop_gen false c0 rest X (Some (0, N1)) (S (S (S i))))) /\
  n_backoffs (fst (loop_gen false c0 (N0 :: N1 :: rest) X (Some (0, N1)) (S i))) =
    n_backoffs (fst (loop_gen false c0 rest X (Some (0, N1)) (S (S (S i))))).
Proof.
  change (N0 :: N1 :: rest) with ([N0] ++ N1 :: rest).
  rewrite (loop_split _ _ _ _ _ _ _ _ N1 rest (cycle_pre i)) by discriminate.
  cbn [length]. replace (S (S i + 1)) with (S (S (S i))) by lia.
  destruct (loop_gen false c0 rest X _ _) as [e r]. cbn [fst]. rewrite n_attempts_app, n_backoffs_app. split; reflexivity.
Qed.

Lemma cyc'_attempts k : forall i,
  n_attempts (fst (loop_gen false c0 (cyc' k) X (Some (0, N1)) (S i))) = 2 * k + 1 /\
  n_backoffs (fst (loop_gen false c0 (cyc' k) X (Some (0, N1)) (S i))) = 0.
Proof.
  induction k as [|k IH]; intros i.
  - vm_compute. split; reflexivity.
  - cbn [cyc']. destruct (cycle_attempts (cyc' k) i) as [A B]. destruct (IH (S (S i))) as [A' B']. rewrite A, B, A', B'. split; lia.
Qed.

Lemma lasso_attempts k :
  n_attempts (fst (run_before_fix c0 (lasso k) [] [])) = 22 + 2 * k /\ n_backoffs (fst (run_before_fix c0 (lasso k) [] [])) = 0.
Proof.
  unfold run_before_fix, run_gen, lasso. change (validation_refuses c0) with false. cbv iota.
  destruct (prefix_attempts (cyc' k)) as [A B]. destruct (cyc'_attempts k 20) as [A' B']. rewrite A, B, A', B'. split; lia.
Qed.

(* every outcome of the lasso is a NotLeader answer with a leader hint *)
Lemma lasso_only_hints k : forallb (fun o => match o with ONotLeaderHint _ => true | _ => false end) (lasso k) = true.
Proof.
  unfold lasso. rewrite forallb_app. cbn [forallb N1 andb]. replace (forallb _ (cyc 10)) with true by reflexivity.
  induction k; cbn [cyc' forallb N0 N1 andb]; auto.
Qed.
