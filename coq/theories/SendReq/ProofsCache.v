(* SendReq/ProofsCache.v — the state-returning loop is the same loop; every call of a sequence is a [run]. *)
From Coq Require Import List Bool Arith NArith Lia.
Import ListNotations.
From Verif Require Import SendReq.Model SendReq.Cache SendReq.ProofsBound SendReq.ProofsSelect SendReq.ProofsLoop.

Lemma loop_st_fst fixed c script : forall s prev i,
  fst (loop_st fixed c script s prev i) = loop_gen fixed c script s prev i.
Proof.
  induction script as [|o rest IH]; intros s prev i; rewrite loop_unfold; unfold pre; cbn [loop_st];
    destruct (c_interruptible c && killed s && _); try reflexivity;
    (destruct prev as [[t0 o0]|]; [destruct (handle fixed c s t0 o0 (pred i)) as [s1 evs1|sd r evs1]|]; try reflexivity; cbv zeta;
     destruct (sel_phase c _) as [s2 t evs2|sd2 r2 evs2]; try reflexivity).
  all: destruct o; try reflexivity;
    rewrite <- IH; destruct (loop_st fixed c rest _ _ (S i)) as [[evs r] sf]; reflexivity.
Qed.

Lemma run_st_fst c script rands sleeps pd : fst (run_st c script rands sleeps pd) = run c script rands sleeps.
Proof.
  unfold run_st, run, run_gen. destruct (validation_refuses c); [reflexivity|].
  rewrite <- loop_st_fst. destruct (loop_st true c script _ None 0) as [x sf]. reflexivity.
Qed.

Lemma run_seq_each (P : cfg -> list event * result -> Prop) :
  (forall c sc rs sl, P c (run c sc rs sl)) ->
  forall calls c pd, Forall (fun cx => P (fst cx) (snd cx)) (run_seq c calls pd).
Proof.
  intros H calls. induction calls as [|[[sc rs] sl] rest IH]; intros c pd; cbn [run_seq]; [constructor|].
  pose proof (run_st_fst c sc rs sl pd) as E. destruct (run_st c sc rs sl pd) as [x k]. cbn [fst] in E. subst x.
  constructor; [apply H|apply IH].
Qed.
