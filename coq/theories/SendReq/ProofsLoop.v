(* SendReq/ProofsLoop.v — the retry loop: attempt bound, result provenance. *)
From Coq Require Import List Bool Arith NArith Lia.
Import ListNotations.
From Verif Require Import SendReq.Model SendReq.ProofsBound SendReq.ProofsSelect.

Section Gen.
Variable fixed : bool.

Definition pre (c : cfg) (s : state) (prev : option (nat * outcome)) (i : nat) : hres :=
  if c_interruptible c && killed s && negb (c_async c && (i =? 0)) then HDone s RError []
  else match prev with None => HRetry s [] | Some (t, o) => handle fixed c s t o (pred i) end.

Lemma loop_unfold c script s prev i :
  loop_gen fixed c script s prev i =
  match pre c s prev i with
  | HDone _ r evs => (evs, r)
  | HRetry s1 evs1 =>
      let s1' := if 0 <? i then set_q_retry true s1 else s1 in
      match sel_phase c s1' with
      | SDone _ r evs2 => (evs1 ++ evs2, r)
      | SSent s2 t evs2 =>
          let ev := EAtt t (q_rr s2) (q_stale s2) (q_retry s2) in
          let s3 := raise_att c i (after_send s2 t) in
          match script with
          | [] => (evs1 ++ evs2 ++ [ev], if dead s2 then RError else RSuccess i)
          | OSuccess :: _ => (evs1 ++ evs2 ++ [ev], if dead s2 then RError else RSuccess i)
          | o :: rest =>
              let '(evs, r) := loop_gen fixed c rest s3 (Some (t, if dead s2 then ORpcErr Reachable else o)) (S i) in
              (evs1 ++ evs2 ++ ev :: evs, r)
          end
      end
  end.
Proof. destruct script; reflexivity. Qed.

Lemma pre_spec c s prev i :
  match pre c s prev i with
  | HRetry s' evs => room s' <= room s + n_rearms evs /\ n_attempts evs = 0
  | HDone _ _ evs => quiet evs
  end.
Proof.
  unfold pre. destruct (c_interruptible c && killed s && _); [auto|].
  destruct prev as [[t o]|]; [apply handle_spec|]. simpl. split; [lia|reflexivity].
Qed.

Lemma after_send_atts s t : atts (after_send s t) = atts s.
Proof. unfold after_send. destruct (rt_eqb _ _); atts_norm; reflexivity. Qed.
Lemma raise_att_atts c i s : atts (raise_att c i s) = atts s.
Proof. reflexivity. Qed.

Lemma n_attempts_cons_att t a b d evs : n_attempts (EAtt t a b d :: evs) = S (n_attempts evs).
Proof. reflexivity. Qed.
Lemma n_rearms_cons_att t a b d evs : n_rearms (EAtt t a b d :: evs) = n_rearms evs.
Proof. reflexivity. Qed.

Lemma loop_bound c script : forall s prev i,
  n_attempts (fst (loop_gen fixed c script s prev i)) <= room s + n_rearms (fst (loop_gen fixed c script s prev i)).
Proof.
  induction script as [|o rest IH]; intros s prev i; rewrite loop_unfold;
    pose proof (pre_spec c s prev i) as P; destruct (pre c s prev i) as [s1 evs1|sd r evs1];
    try (destruct P as [P1 P2]; cbn [fst]; lia); destruct P as [P1 P2]; cbv zeta;
    set (s1' := if 0 <? i then set_q_retry true s1 else s1);
    assert (R1 : room s1' = room s1) by (subst s1'; destruct (0 <? i); reflexivity);
    pose proof (sel_phase_spec c s1') as Q; destruct (sel_phase c s1') as [s2 t evs2|sd2 r evs2].
  all: try (destruct Q as [Q1 Q2]; cbn [fst]; rewrite n_attempts_app, n_rearms_app; lia).
  all: destruct Q as (Q1 & Q2 & Q3).
  - cbn [fst]. rewrite !n_attempts_app, !n_rearms_app. cbn. lia.
  - assert (S3 : room (raise_att c i (after_send s2 t)) = room s2) by (apply room_eq; rewrite raise_att_atts; apply after_send_atts).
    specialize (IH (raise_att c i (after_send s2 t)) (Some (t, if dead s2 then ORpcErr Reachable else o)) (S i)).
    destruct o; try (cbn [fst]; rewrite !n_attempts_app, !n_rearms_app; cbn; lia);
      destruct (loop_gen fixed c rest (raise_att c i (after_send s2 t)) _ (S i)) as [evs r]; cbn [fst] in *;
      rewrite !n_attempts_app, !n_rearms_app, n_attempts_cons_att, n_rearms_cons_att; lia.
Qed.

Lemma room_init_le (l : list rep) : room_l (map attempts l) <= max_replica_attempt * length l.
Proof. induction l; cbn [map room_l length]; unfold max_replica_attempt in *; lia. Qed.

(* the attempt bound *)
Lemma run_bound c script rands sleeps :
  n_attempts (fst (run_gen fixed c script rands sleeps)) <=
  max_replica_attempt * length (c_reps c) + n_rearms (fst (run_gen fixed c script rands sleeps)).
Proof.
  unfold run_gen. destruct (validation_refuses c); [cbn; lia|].
  pose proof (loop_bound c script (init_state c rands sleeps) None 0) as H.
  pose proof (room_init_le (c_reps c)).
  assert (E : room (init_state c rands sleeps) = room_l (map attempts (c_reps c))) by reflexivity.
  lia.
Qed.

(* a re-arm is only ever produced by a NotLeader answer with a leader hint *)
Definition is_hint (o : outcome) : bool := match o with ONotLeaderHint _ => true | _ => false end.
Definition n_hints (script : list outcome) : nat := length (filter is_hint script).

Lemma handle_rearms c s t o i :
  match handle fixed c s t o i with HRetry _ evs | HDone _ _ evs => n_rearms evs <= (if is_hint o then 1 else 0) end.
Proof.
  pose proof (handle_spec fixed c s t o i) as H.
  destruct o; cbn [handle is_hint] in *;
    try (match goal with |- context [on_send_fail ?a ?b ?c ?d ?e] => pose proof (on_send_fail_spec a b c d e) as X; destruct (on_send_fail a b c d e) end);
    try (match goal with |- context [with_backoff ?a ?b ?c ?d] => pose proof (with_backoff_spec a b c d) as X; destruct (with_backoff a b c d) end);
    try (match goal with |- context [on_busy ?a ?b ?c ?d] => pose proof (on_busy_spec a b c d) as X; destruct (on_busy a b c d) end);
    try (match goal with |- context [backoff_then_region_err ?a ?b ?c ?d] => pose proof (btr_spec a b c d) as X; destruct (backoff_then_region_err a b c d); [contradiction|] end);
    repeat match goal with |- context [if ?b then _ else _] => destruct b end;
    try (match goal with |- context [on_busy ?a ?b ?c ?d] => pose proof (on_busy_spec a b c d) as X; destruct (on_busy a b c d) end);
    try (destruct X as (_ & _ & ->)); try (destruct X as (_ & ->)); try (subst; cbn; lia); try (cbn; lia).
  all: unfold on_not_leader_hint; cbv beta iota zeta; repeat match goal with |- context [if ?b then _ else _] => destruct b end;
    unfold n_rearms; cbn [filter is_rearm length]; lia.
Qed.

Lemma loop_rearms c script : forall s t o i,
  n_rearms (fst (loop_gen fixed c script s (Some (t, o)) i)) <= (if is_hint o then 1 else 0) + n_hints script.
Proof.
  induction script as [|o' rest IH]; intros s t o i; rewrite loop_unfold; unfold pre;
    (destruct (c_interruptible c && killed s && _); [cbn [fst n_rearms filter length]; lia|]);
    pose proof (handle_rearms c s t o (pred i)) as P; destruct (handle fixed c s t o (pred i)) as [s1 evs1|sd r evs1];
    try (cbn [fst]; lia); cbv zeta;
    set (s1' := if 0 <? i then set_q_retry true s1 else s1);
    pose proof (sel_phase_spec c s1') as Q; destruct (sel_phase c s1') as [s2 t2 evs2|sd2 r evs2].
  all: try (destruct Q as [Q1 Q2]; cbn [fst]; rewrite n_rearms_app; lia).
  all: destruct Q as (Q1 & Q2 & Q3).
  - cbn [fst]. rewrite !n_rearms_app. cbn. lia.
  - specialize (IH (raise_att c i (after_send s2 t2)) t2 (if dead s2 then ORpcErr Reachable else o') (S i)). unfold n_hints in *. cbn [filter].
    destruct (dead s2);
    destruct o'; cbn [is_hint length] in *; try (cbn [fst]; rewrite !n_rearms_app; cbn; lia);
      destruct (loop_gen fixed c rest (raise_att c i (after_send s2 t2)) _ (S i)) as [evs r]; cbn [fst] in *;
      rewrite !n_rearms_app, n_rearms_cons_att; lia.
Qed.

Lemma run_rearms c script rands sleeps : n_rearms (fst (run_gen fixed c script rands sleeps)) <= n_hints script.
Proof.
  unfold run_gen. destruct (validation_refuses c); [cbn; lia|].
  set (s := init_state c rands sleeps). rewrite loop_unfold. unfold pre.
  destruct (c_interruptible c && killed s && _); [cbn [fst n_rearms filter length]; lia|]. cbv zeta. cbn [Nat.ltb Nat.leb].
  pose proof (sel_phase_spec c s) as Q; destruct (sel_phase c s) as [s2 t2 evs2|sd2 r evs2].
  2: { destruct Q as [Q1 Q2]. cbn [fst app]. lia. }
  destruct Q as (Q1 & Q2 & Q3).
  destruct script as [|o rest]; [cbn [fst app]; rewrite n_rearms_app; cbn; lia|].
  pose proof (loop_rearms c rest (raise_att c 0 (after_send s2 t2)) t2 (if dead s2 then ORpcErr Reachable else o) 1) as L. unfold n_hints in *. cbn [filter].
  destruct (dead s2);
  destruct o; cbn [is_hint length] in *; try (cbn [fst app]; rewrite !n_rearms_app; cbn; lia);
    destruct (loop_gen fixed c rest (raise_att c 0 (after_send s2 t2)) _ 1) as [evs r]; cbn [fst app] in *;
    rewrite !n_rearms_app, n_rearms_cons_att; lia.
Qed.

End Gen.
