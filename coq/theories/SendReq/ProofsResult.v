(* SendReq/ProofsResult.v — the result of a send is the answer to its last attempt (no fabrication),
   and the first attempt does not carry the retry marker. *)
From Coq Require Import List Bool Arith NArith Lia.
Import ListNotations.
From Verif Require Import SendReq.Model SendReq.ProofsBound SendReq.ProofsSelect SendReq.ProofsLoop SendReq.ProofsFlags.

Section Gen.
Variable fixed : bool.

Definition prev_ok (prev : option (nat * outcome)) (i : nat) : Prop :=
  match prev with Some (_, o) => o <> OSuccess /\ 0 < i | None => True end.

Definition result_ok (script : list outcome) (prev : option (nat * outcome)) (i : nat) (evs : list event) (r : result) : Prop :=
  match r with
  | RSuccess j => j + 1 = i + n_attempts evs /\ i <= j /\ nth (j - i) script OSuccess = OSuccess
  | RRegionErr j => j + 1 = i + n_attempts evs /\
      ((j + 1 = i /\ exists t o, prev = Some (t, o) /\ is_region_err o = true) \/
       (i <= j /\ j - i < length script /\ is_region_err (nth (j - i) script OSuccess) = true))
  | RFatal j => j + 1 = i + n_attempts evs /\
      ((j + 1 = i /\ exists t o, prev = Some (t, o) /\ is_fatal o = true) \/
       (i <= j /\ j - i < length script /\ is_fatal (nth (j - i) script OSuccess) = true))
  | _ => True
  end.

Lemma loop_result c script : forall s prev i evs r, prev_ok prev i -> loop_gen fixed c script s prev i = (evs, r) -> result_ok script prev i evs r.
Proof.
  induction script as [|o rest IH]; intros s prev i evs r OK H; rewrite loop_unfold in H;
    pose proof (pre_spec fixed c s prev i) as P;
    assert (P' : match pre fixed c s prev i with HRetry _ _ => True | HDone _ r0 _ =>
               match r0 with RSuccess _ => False | RRegionErr j => j + 1 = i /\ exists t o, prev = Some (t, o) /\ is_region_err o = true
                             | RFatal j => j + 1 = i /\ exists t o, prev = Some (t, o) /\ is_fatal o = true | _ => True end end).
    1,3: (unfold pre; destruct (c_interruptible c && killed s && _); [exact I|]; destruct prev as [[t o']|]; [|exact I]; destruct OK as [O1 O2];
          pose proof (handle_q fixed c s t o' (pred i)) as HQ; destruct (handle fixed c s t o' (pred i)) as [|sd0 r0 e0]; [exact I|];
          destruct r0; auto; destruct HQ as [-> HQ]; (split; [lia|eauto])).
  all: destruct (pre fixed c s prev i) as [s1 evs1|sd r0 evs1];
    [| injection H as <- <-; destruct P as [PA _]; destruct r0; unfold result_ok; auto; try tauto; destruct P' as [P1 P2]; (split; [lia|left; auto])].
  all: destruct P as [_ P2]; cbv zeta in H;
    pose proof (sel_phase_spec c (if 0 <? i then set_q_retry true s1 else s1)) as Q;
    pose proof (sel_phase_q c (if 0 <? i then set_q_retry true s1 else s1)) as Q';
    destruct (sel_phase c _) as [s2 t evs2|sd2 r2 evs2];
    [| injection H as <- <-; destruct Q' as [-> | ->]; exact I]; destruct Q as (_ & Q2 & _).
  - injection H as <- <-. destruct (dead s2); [exact I|]. unfold result_ok. rewrite !n_attempts_app, P2, Q2, Nat.sub_diag. cbn. repeat split; lia.
  - assert (A : forall e, n_attempts (evs1 ++ evs2 ++ EAtt t (q_rr s2) (q_stale s2) (q_retry s2) :: e) = S (n_attempts e))
      by (intros e; rewrite !n_attempts_app, P2, Q2; reflexivity).
    assert (SUCC : o = OSuccess -> result_ok (o :: rest) prev i (evs1 ++ evs2 ++ [EAtt t (q_rr s2) (q_stale s2) (q_retry s2)]) (if dead s2 then RError else RSuccess i)).
    { intros ->. destruct (dead s2); [exact I|]. unfold result_ok. rewrite A. rewrite Nat.sub_diag. cbn. repeat split; lia. }
    assert (REC : o <> OSuccess -> forall evs' r', loop_gen fixed c rest (raise_att c i (after_send s2 t)) (Some (t, if dead s2 then ORpcErr Reachable else o)) (S i) = (evs', r') ->
              result_ok (o :: rest) prev i (evs1 ++ evs2 ++ EAtt t (q_rr s2) (q_stale s2) (q_retry s2) :: evs') r').
    { intros No evs' r' L. apply IH in L; [|split; [destruct (dead s2); [discriminate|assumption]|lia]].
      destruct r'; unfold result_ok in *; auto; rewrite A.
      - destruct L as (L1 & L2 & L3). replace (i0 - i) with (S (i0 - S i)) by lia. cbn [nth]. repeat split; try lia. exact L3.
      - destruct L as (L1 & [(L2 & t' & o' & E & L3) | (L2 & L3 & L4)]); split; try lia; right.
        + injection E as <- <-. destruct (dead s2); [discriminate|]. replace (i0 - i) with 0 by lia. cbn [nth length]. repeat split; try lia. exact L3.
        + replace (i0 - i) with (S (i0 - S i)) by lia. cbn [nth length]. repeat split; try lia. exact L4.
      - destruct L as (L1 & [(L2 & t' & o' & E & L3) | (L2 & L3 & L4)]); split; try lia; right.
        + injection E as <- <-. destruct (dead s2); [discriminate|]. replace (i0 - i) with 0 by lia. cbn [nth length]. repeat split; try lia. exact L3.
        + replace (i0 - i) with (S (i0 - S i)) by lia. cbn [nth length]. repeat split; try lia. exact L4. }
    destruct o; try (injection H as <- <-; now apply SUCC);
      (destruct (loop_gen fixed c rest (raise_att c i (after_send s2 t)) _ (S i)) as [evs' r'] eqn:L; injection H as <- <-; apply REC; [discriminate|first [assumption|reflexivity]]).
Qed.

Lemma run_result c script rands sleeps evs r : run_gen fixed c script rands sleeps = (evs, r) ->
  match r with
  | RSuccess j => j + 1 = n_attempts evs /\ nth j script OSuccess = OSuccess
  | RRegionErr j => j + 1 = n_attempts evs /\ j < length script /\ is_region_err (nth j script OSuccess) = true
  | RFatal j => j + 1 = n_attempts evs /\ j < length script /\ is_fatal (nth j script OSuccess) = true
  | _ => True
  end.
Proof.
  unfold run_gen. destruct (validation_refuses c). { intros H; injection H as <- <-. exact I. }
  intros H. apply loop_result in H; [|exact I]. destruct r; cbn in *; auto.
  - destruct H as (A & _ & B). rewrite Nat.sub_0_r in B. auto.
  - destruct H as (A & [(B & t & o & E & _) | (_ & B & C)]); [discriminate|]. rewrite Nat.sub_0_r in *. auto.
  - destruct H as (A & [(B & t & o & E & _) | (_ & B & C)]); [discriminate|]. rewrite Nat.sub_0_r in *. auto.
Qed.

(* retry marker: absent on the first attempt, present on every later one *)
Definition retry_flags (evs : list event) : list bool :=
  flat_map (fun e => match e with EAtt _ _ _ d => [d] | _ => [] end) evs.
Lemma retry_flags_app a b : retry_flags (a ++ b) = retry_flags a ++ retry_flags b.
Proof. unfold retry_flags. now rewrite flat_map_app. Qed.
Lemma retry_flags_noatt evs : n_attempts evs = 0 -> retry_flags evs = [].
Proof. induction evs as [|e evs IH]; auto. destruct e; cbn; auto. discriminate. Qed.
Lemma retry_flags_all evs : att_all (fun _ _ d => d = true) evs -> Forall (fun d => d = true) (retry_flags evs).
Proof. unfold att_all. induction 1 as [|e evs H _ IH]; cbn; auto. destruct e; cbn; auto. Qed.

Lemma run_retry c script rands sleeps :
  match retry_flags (fst (run_gen fixed c script rands sleeps)) with
  | [] => True
  | d :: rest => d = false /\ Forall (fun x => x = true) rest
  end.
Proof.
  unfold run_gen. destruct (validation_refuses c); [exact I|].
  set (s := init_state c rands sleeps). rewrite loop_unfold. unfold pre.
  destruct (c_interruptible c && killed s && _); [exact I|]. cbv zeta. cbn [Nat.ltb Nat.leb].
  pose proof (sel_phase_spec c s) as Q; pose proof (sel_phase_q c s) as Q'. destruct (sel_phase c s) as [s2 t evs2|sd2 r evs2].
  2: { destruct Q as [Q _]. cbn [fst app]. now rewrite retry_flags_noatt. }
  destruct Q as (_ & Q & _). destruct Q' as [Q' _]. change (q_retry s) with false in Q'.
  assert (G : forall e, att_all (fun _ _ d => d = true) e ->
     match retry_flags ([] ++ evs2 ++ EAtt t (q_rr s2) (q_stale s2) (q_retry s2) :: e) with [] => True | d :: rest => d = false /\ Forall (fun x => x = true) rest end).
  { intros e He. cbn [app]. rewrite retry_flags_app, retry_flags_noatt by assumption. cbn. split; [assumption|]. now apply retry_flags_all. }
  destruct script as [|o rest]; [cbn [fst]; apply (G []); constructor|].
  pose proof (loop_retry fixed c rest (raise_att c 0 (after_send s2 t)) (Some (t, if dead s2 then ORpcErr Reachable else o)) 1 ltac:(left; lia)) as L.
  destruct o; try (cbn [fst]; apply (G []); constructor);
    destruct (loop_gen fixed c rest (raise_att c 0 (after_send s2 t)) _ 1) as [e r]; cbn [fst] in *; apply G; assumption.
Qed.

End Gen.
