(* SendReq/ProofsAsync.v — SendReqAsync is the same state machine as SendReq: the only difference the model knows of is that the
   first attempt (initForAsyncRequest) does not look at the kill flag.  Proved structurally: every step function is shown to
   depend on the configuration only through the fields it reads (none of them reads [c_async]). *)
From Coq Require Import List Bool Arith NArith Lia.
Import ListNotations.
From Verif Require Import SendReq.Model SendReq.ProofsBound SendReq.ProofsSelect SendReq.ProofsLoop.

Definition with_async (c : cfg) (b : bool) : cfg :=
  mkCfg (c_rt c) (c_stale c) (c_read c) (c_has_labels c) (c_leader_only c) (c_thr c) (c_short_to c) (c_max_sleep c) (c_val c)
        (c_reps c) (c_fw c) (c_store_tp c) (c_cancel c) (c_kill c) (c_interruptible c) (c_leader0 c) (c_proxy0 c) b.

(* two configurations that the step functions cannot tell apart *)
Record same_steps (fixed : bool) (c1 c2 : cfg) : Prop := {
  ss_handle : forall s t o i, handle fixed c1 s t o i = handle fixed c2 s t o i;
  ss_sel : forall s, sel_phase c1 s = sel_phase c2 s;
  ss_raise : forall i s, raise_att c1 i s = raise_att c2 i s;
  ss_int : c_interruptible c1 = c_interruptible c2 }.

Lemma sel_phase_agree c1 c2 s :
  c_fw c1 = c_fw c2 -> (forall x, unset_if c1 x = unset_if c2 x) -> (forall x, no_candidate c1 x = no_candidate c2 x) ->
  (forall x, next_leader c1 x = next_leader c2 x) -> (forall x, next_mixed c1 x = next_mixed c2 x) ->
  (forall k x, backoff c1 k x = backoff c2 k x) ->
  sel_phase c1 s = sel_phase c2 s.
Proof.
  intros Hfw Hun Hnc Hnl Hnm Hbo. unfold sel_phase. cbv zeta.
  destruct (if inv_retry s then Some (set_inv_retry false s) else if valid s then Some s else None) as [s0|]; [|apply Hnc].
  rewrite Hun, Hfw.
  destruct (if rt_eqb _ RTLeader && c_fw c2 then proxy_next _ else PxLeaderOnly) as [|p|].
  - rewrite Hnl, Hnm. destruct (if rt_eqb _ RTLeader then next_leader c2 _ else next_mixed c2 _) as [tg s2].
    destruct tg as [t|]; [|apply Hnc]. destruct (stale _); [apply Hnc|]. destruct (pending _); [rewrite Hbo|]; reflexivity.
  - destruct (stale _ || stale _); [apply Hnc|]. destruct (pending _); [rewrite Hbo|]; reflexivity.
  - apply Hnc.
Qed.

Lemma with_async_same_steps fixed c : same_steps fixed (with_async c true) (with_async c false).
Proof.
  constructor.
  - intros s t o i. destruct o; reflexivity.
  - intros s. apply sel_phase_agree; try reflexivity; intros; reflexivity.
  - intros i s. reflexivity.
  - reflexivity.
Qed.

(* from the second iteration on the two loops coincide *)
Lemma loop_same fixed c1 c2 (H : same_steps fixed c1 c2) script : forall s prev i,
  loop_gen fixed c1 script s prev (S i) = loop_gen fixed c2 script s prev (S i).
Proof.
  destruct H as [Hh Hs Hr Hi].
  induction script as [|o rest IH]; intros s prev i; rewrite !loop_unfold; unfold pre; rewrite Hi;
    cbn [Nat.eqb]; rewrite !andb_false_r; cbn [negb]; rewrite !andb_true_r;
    (destruct (c_interruptible c2 && killed s); [reflexivity|]);
    (destruct prev as [[t0 o0]|]; [rewrite Hh; destruct (handle fixed c2 s t0 o0 (pred (S i))) as [s1 evs1|sd r evs1]; [|reflexivity]|]);
    cbv zeta; rewrite Hs; (destruct (sel_phase c2 _) as [s2 t evs2|sd2 r2 evs2]; [|reflexivity]); rewrite ?Hr; try reflexivity.
  all: destruct o; try reflexivity; now rewrite IH.
Qed.

(* the async path = the sync path, unless an interruptible request was already killed when the call started
   (then the async path still sends its first attempt) *)
Lemma run_async_same fixed c script rands sleeps :
  c_kill c <> TPre \/ c_interruptible c = false ->
  run_gen fixed (with_async c true) script rands sleeps = run_gen fixed (with_async c false) script rands sleeps.
Proof.
  intros HK. pose proof (with_async_same_steps fixed c) as H. unfold run_gen.
  change (validation_refuses (with_async c true)) with (validation_refuses (with_async c false)).
  destruct (validation_refuses (with_async c false)); [reflexivity|].
  change (init_state (with_async c true) rands sleeps) with (init_state (with_async c false) rands sleeps).
  set (s := init_state (with_async c false) rands sleeps).
  assert (K : c_interruptible c && killed s = false).
  { subst s. unfold init_state. cbn [killed c_kill with_async]. destruct HK as [HK|HK]; [|now rewrite HK].
    destruct (c_kill c); try contradiction; cbn; now rewrite andb_false_r. }
  destruct H as [Hh Hs Hr Hi].
  rewrite !loop_unfold. unfold pre. cbn [c_interruptible c_async with_async]. rewrite K. cbn [andb].
  cbv zeta. rewrite Hs. destruct (sel_phase (with_async c false) _) as [s2 t evs2|sd2 r2 evs2]; [|reflexivity].
  rewrite ?Hr. destruct script as [|o rest]; [reflexivity|].
  pose proof (loop_same fixed _ _ (with_async_same_steps fixed c) rest) as L.
  destruct o; try reflexivity; now rewrite L.
Qed.
