(* SendReq/ProofsFlags.v — flag discipline (write commands, retry marker) and provenance of the result. *)
From Coq Require Import List Bool Arith NArith Lia.
Import ListNotations.
From Verif Require Import SendReq.Model SendReq.ProofsBound SendReq.ProofsSelect SendReq.ProofsLoop.

Section Gen.
Variable fixed : bool.

Definition att_all (Q : bool -> bool -> bool -> Prop) (evs : list event) : Prop :=
  Forall (fun e => match e with EAtt _ a b d => Q a b d | _ => True end) evs.

Lemma att_all_noatt (Q : bool -> bool -> bool -> Prop) evs : n_attempts evs = 0 -> att_all Q evs.
Proof.
  unfold att_all. induction evs as [|e evs IH]; intros H; constructor.
  - destruct e; auto. discriminate.
  - apply IH. destruct e; auto. discriminate.
Qed.
Lemma att_all_app (Q : bool -> bool -> bool -> Prop) a b : att_all Q a -> att_all Q b -> att_all Q (a ++ b).
Proof. unfold att_all. intros. apply Forall_app; auto. Qed.
Lemma att_all_cons (Q : bool -> bool -> bool -> Prop) t a b d evs : Q a b d -> att_all Q evs -> att_all Q (EAtt t a b d :: evs).
Proof. unfold att_all. intros. constructor; auto. Qed.

Ltac ifs := repeat match goal with |- context [if ?b then _ else _] => destruct b eqn:? end.
Ltac guards := repeat match goal with H : _ && _ = true |- _ => apply andb_prop in H as [? ?] end.

Lemma mixed_next_q p s o s' : mixed_next p s = (o, s') -> q_rr s' = q_rr s /\ q_stale s' = q_stale s /\ q_retry s' = q_retry s.
Proof.
  unfold mixed_next. destruct (ties p s) as [|i [|j l]]; cbv zeta; try destruct (pop 0 (orc_r s)); ifs;
    intros H; inversion H; subst; auto.
Qed.

Lemma next_leader_q c s o s' : next_leader c s = (o, s') ->
  q_retry s' = q_retry s /\ (c_read c = false -> q_rr s' = q_rr s /\ q_stale s' = q_stale s).
Proof.
  unfold next_leader. cbv zeta. destruct (leader_next s).
  - destruct (busy_thr s && c_read c && _) eqn:G.
    + destruct (mixed_next _ s) as [[i|] s1] eqn:M; apply mixed_next_q in M as (A & B & C);
        intros H; inversion H; subst; cbn; (split; [assumption|]); intros R; guards; congruence.
    + intros H; inversion H; subst; auto.
  - destruct (mixed_next _ s) as [[i|] s1] eqn:M; apply mixed_next_q in M as (A & B & C).
    + destruct (c_read c && _) eqn:G; intros H; inversion H; subst; cbn; (split; [assumption|]); intros R; guards; try congruence; auto.
    + intros H; inversion H; subst; auto.
Qed.

Lemma next_mixed_q c s o s' : next_mixed c s = (o, s') ->
  q_retry s' = q_retry s /\ (c_read c = false -> c_stale c = false -> forall t, o = Some t -> q_rr s' = false /\ q_stale s' = false).
Proof.
  unfold next_mixed. cbv zeta.
  match goal with |- context [match ?e with Some _ => _ | None => _ end = _] => destruct e as [l|] eqn:EE end.
  - intros H; inversion H; subst; cbn. auto.
  - clear EE. destruct (mixed_next _ s) as [[i|] s1] eqn:M; apply mixed_next_q in M as (A & B & C).
    + destruct (c_stale c) eqn:ST.
      * ifs; intros H; inversion H; subst; cbn; (split; [assumption|]); intros; congruence.
      * intros H; inversion H; subst; cbn. split; [assumption|]. intros R _ t _. rewrite R. auto.
    + intros H; inversion H; subst. split; [assumption|]. intros; discriminate.
Qed.

Arguments unset_if : simpl never.
Lemma sel_phase_q c s :
  match sel_phase c s with
  | SSent s' t evs => q_retry s' = q_retry s /\
      (c_read c = false -> c_stale c = false -> q_rr s = false -> q_stale s = false -> q_rr s' = false /\ q_stale s' = false)
  | SDone _ r evs => r = RPseudo \/ r = RError
  end.
Proof.
  assert (NC : forall s0, match no_candidate c s0 with SSent _ _ _ => False | SDone _ r evs => r = RPseudo \/ r = RError end).
  { intros s0. unfold no_candidate. destruct (any_pending s0); auto. destruct (backoff c BoBusy s0) as [? ?| |?]; auto. }
  assert (NC' : forall s0, match no_candidate c s0 with
     | SSent s' t evs => q_retry s' = q_retry s /\ (c_read c = false -> c_stale c = false -> q_rr s = false -> q_stale s = false -> q_rr s' = false /\ q_stale s' = false)
     | SDone _ r evs => r = RPseudo \/ r = RError end).
  { intros s0. specialize (NC s0). destruct (no_candidate c s0); tauto. }
  unfold sel_phase. cbv zeta.
  match goal with |- context [match ?e with Some _ => _ | None => _ end] => destruct e as [s0|] eqn:G end; [|apply NC'].
  assert (E0 : q_rr s0 = q_rr s /\ q_stale s0 = q_stale s /\ q_retry s0 = q_retry s).
  { destruct (inv_retry s); [inversion G; auto|]. destruct (valid s); inversion G; auto. }
  destruct E0 as (E1 & E2 & E3).
  assert (U : q_rr (unset_if c s0) = q_rr s0 /\ q_stale (unset_if c s0) = q_stale s0 /\ q_retry (unset_if c s0) = q_retry s0)
    by (unfold unset_if; destruct (_ && _); auto).
  destruct U as (U1 & U2 & U3). rewrite <- U1 in E1. rewrite <- U2 in E2. rewrite <- U3 in E3.
  set (s1 := set_proxy None (set_sel_attempts (sat3 (S (sel_attempts s0))) (unset_if c s0))).
  destruct (if rt_eqb (rt s1) RTLeader && c_fw c then proxy_next s1 else PxLeaderOnly) as [|p|]; [| |apply NC'].
  2: { destruct (stale _ || stale _); [apply NC'|]. destruct (pending _).
       - destruct (backoff c BoBusy _) as [s4 e| |e] eqn:B; [|auto|auto].
         apply backoff_frame in B as (_ & B1 & B2 & B3 & _). cbn in B1, B2, B3. split; [congruence|]. intros. split; congruence.
       - cbn. split; [congruence|]. intros. split; congruence. }
  destruct (if rt_eqb (rt s1) RTLeader then next_leader c s1 else next_mixed c s1) as [tg s2] eqn:N.
  assert (Q : q_retry s2 = q_retry s /\
      (c_read c = false -> c_stale c = false -> q_rr s = false -> q_stale s = false -> forall t, tg = Some t -> q_rr s2 = false /\ q_stale s2 = false)).
  { destruct (rt_eqb (rt s1) RTLeader).
    - apply next_leader_q in N as (A & B). split; [cbn in A; congruence|]. intros R _ X Y t _. destruct (B R) as [B1 B2]. cbn in B1, B2. split; congruence.
    - apply next_mixed_q in N as (A & B). split; [cbn in A; congruence|]. intros R ST _ _ t Ht. eapply B; eauto. }
  destruct Q as [Q1 Q2].
  destruct tg as [t|]; [|apply NC'].
  destruct (stale (rep_at s2 t)); [apply NC'|].
  destruct (pending _).
  - destruct (backoff c BoBusy _) as [s4 e| |e] eqn:B; [|auto|auto].
    apply backoff_frame in B as (_ & B1 & B2 & B3 & _). cbn in B1, B2, B3. split; [congruence|].
    intros R ST X Y. destruct (Q2 R ST X Y t eq_refl). split; congruence.
  - cbn. split; [assumption|]. intros R ST X Y. apply (Q2 R ST X Y t eq_refl).
Qed.

(* what an outcome handler may return *)
Definition is_region_err (o : outcome) : bool := match o with OSuccess | ORpcErr _ | ODeadline _ => false | _ => true end.
(* region errors the handler turns into an error for the caller *)
Definition is_fatal (o : outcome) : bool :=
  match o with OFlashback | OFlashbackNotPrepared | ORaftTooLarge | OInvalidMaxTs => true | _ => false end.

Lemma handle_q c s t o i :
  match handle fixed c s t o i with
  | HRetry s' evs => q_retry s' = q_retry s /\ q_stale s' = q_stale s /\ (q_rr s = false -> q_rr s' = false)
  | HDone _ r evs => match r with RSuccess _ => o = OSuccess | RRegionErr j => j = i /\ is_region_err o = true
                                  | RFatal j => j = i /\ is_fatal o = true | _ => True end
  end.
Proof.
  destruct o; cbn [handle]; unfold on_send_fail, on_busy, on_not_leader_hint, with_backoff, backoff_then_region_err; cbv zeta; auto;
    ifs; auto; try (destruct (backoff _ _ _) as [s' e| |e] eqn:B; [apply backoff_frame in B as (_ & B1 & B2 & B3 & _); cbn in B1, B2, B3| |]);
    auto; repeat split; auto; try congruence.
Qed.

Lemma after_send_q s t : q_rr (after_send s t) = q_rr s /\ q_stale (after_send s t) = q_stale s /\ q_retry (after_send s t) = q_retry s.
Proof. unfold after_send. destruct (rt_eqb _ _); auto. Qed.

(* write commands never leave flagged as replica read or stale read *)
Lemma loop_write c script : c_read c = false -> c_stale c = false -> forall s prev i,
  q_rr s = false -> q_stale s = false ->
  att_all (fun rr st _ => rr = false /\ st = false) (fst (loop_gen fixed c script s prev i)).
Proof.
  intros R ST. induction script as [|o rest IH]; intros s prev i X Y; rewrite loop_unfold;
    pose proof (pre_spec fixed c s prev i) as P;
    assert (P' : match pre fixed c s prev i with HRetry s' _ => q_stale s' = q_stale s /\ (q_rr s = false -> q_rr s' = false) | HDone _ _ _ => True end)
      by (unfold pre; destruct (c_interruptible c && killed s && _); [exact I|]; destruct prev as [[t o']|]; [pose proof (handle_q c s t o' (pred i)) as HQ; destruct (handle fixed c s t o' (pred i)); tauto | auto]);
    destruct (pre fixed c s prev i) as [s1 evs1|sd r evs1]; try (destruct P as [P0 _]; cbn [fst]; now apply att_all_noatt); destruct P as [_ P2]; destruct P' as [P3 P4]; cbv zeta;
    set (s1' := if 0 <? i then set_q_retry true s1 else s1);
    assert (X1 : q_rr s1' = false /\ q_stale s1' = false) by (subst s1'; destruct (0 <? i); cbn; split; auto; congruence);
    pose proof (sel_phase_spec c s1') as Q; pose proof (sel_phase_q c s1') as Q'; destruct (sel_phase c s1') as [s2 t evs2|sd2 r evs2].
  all: try (destruct Q as [Q1 _]; cbn [fst]; apply att_all_app; apply att_all_noatt; assumption).
  all: destruct Q as (_ & Q2 & _); destruct Q' as [_ Q']; destruct X1 as [X1 Y1]; destruct (Q' R ST X1 Y1) as [X2 Y2].
  - cbn [fst]. apply att_all_app; [now apply att_all_noatt|]. apply att_all_app; [now apply att_all_noatt|].
    apply att_all_cons; [auto|constructor].
  - destruct (after_send_q s2 t) as (A1 & A2 & _).
    specialize (IH (raise_att c i (after_send s2 t)) (Some (t, if dead s2 then ORpcErr Reachable else o)) (S i) ltac:(change (q_rr (after_send s2 t) = false); congruence) ltac:(change (q_stale (after_send s2 t) = false); congruence)).
    assert (G : forall evs, att_all (fun rr st _ => rr = false /\ st = false) evs ->
                att_all (fun rr st _ => rr = false /\ st = false) (evs1 ++ evs2 ++ EAtt t (q_rr s2) (q_stale s2) (q_retry s2) :: evs)).
    { intros evs HE. apply att_all_app; [now apply att_all_noatt|]. apply att_all_app; [now apply att_all_noatt|]. apply att_all_cons; auto. }
    destruct o; try (cbn [fst]; apply G; constructor);
      destruct (loop_gen fixed c rest (raise_att c i (after_send s2 t)) _ (S i)) as [evs r]; cbn [fst] in *; apply G; assumption.
Qed.

(* every re-send carries the retry marker *)
Lemma loop_retry c script : forall s prev i, (0 < i \/ q_retry s = true) ->
  att_all (fun _ _ rty => rty = true) (fst (loop_gen fixed c script s prev i)).
Proof.
  induction script as [|o rest IH]; intros s prev i Hi; rewrite loop_unfold;
    pose proof (pre_spec fixed c s prev i) as P;
    assert (P' : match pre fixed c s prev i with HRetry s' _ => q_retry s' = q_retry s | HDone _ _ _ => True end)
      by (unfold pre; destruct (c_interruptible c && killed s && _); [exact I|]; destruct prev as [[t o']|]; [pose proof (handle_q c s t o' (pred i)) as HQ; destruct (handle fixed c s t o' (pred i)); tauto | auto]);
    destruct (pre fixed c s prev i) as [s1 evs1|sd r evs1]; try (destruct P as [P0 _]; cbn [fst]; now apply att_all_noatt); destruct P as [_ P2]; cbv zeta;
    set (s1' := if 0 <? i then set_q_retry true s1 else s1);
    assert (X1 : q_retry s1' = true)
      by (subst s1'; destruct (0 <? i) eqn:E; cbn; auto; destruct Hi as [Hi|Hi]; [apply Nat.ltb_lt in Hi; congruence|congruence]);
    pose proof (sel_phase_spec c s1') as Q; pose proof (sel_phase_q c s1') as Q'; destruct (sel_phase c s1') as [s2 t evs2|sd2 r evs2].
  all: try (destruct Q as [Q1 _]; cbn [fst]; apply att_all_app; apply att_all_noatt; assumption).
  all: destruct Q as (_ & Q2 & _); destruct Q' as [Q' _].
  - cbn [fst]. apply att_all_app; [now apply att_all_noatt|]. apply att_all_app; [now apply att_all_noatt|].
    apply att_all_cons; [congruence|constructor].
  - specialize (IH (raise_att c i (after_send s2 t)) (Some (t, if dead s2 then ORpcErr Reachable else o)) (S i) ltac:(left; lia)).
    assert (G : forall evs, att_all (fun _ _ rty => rty = true) evs ->
                att_all (fun _ _ rty => rty = true) (evs1 ++ evs2 ++ EAtt t (q_rr s2) (q_stale s2) (q_retry s2) :: evs)).
    { intros evs HE. apply att_all_app; [now apply att_all_noatt|]. apply att_all_app; [now apply att_all_noatt|]. apply att_all_cons; auto. congruence. }
    destruct o; try (cbn [fst]; apply G; constructor);
      destruct (loop_gen fixed c rest (raise_att c i (after_send s2 t)) _ (S i)) as [evs r]; cbn [fst] in *; apply G; assumption.
Qed.

End Gen.
