(* SendReq/Cache.v — the state a SendReq call leaves in the region cache and the stores, i.e. the state the NEXT call on
   the same cached region starts from (model of replicaSelector.onSendSuccess, Region.switchWorkLeaderToPeer,
   RegionStore.setProxyStoreIdx, region invalidation + reload from PD). *)
From Coq Require Import List Bool Arith NArith Lia.
Import ListNotations.
From Verif Require Import SendReq.Model.

(* ---------------- what a call leaves in the cache ---------------- *)
(* replicaSelector.onSendSuccess: memoise the proxy that worked; a plain (not stale / replica) read or write answered by a
   peer other than the cached leader makes that peer the cached leader *)
Definition on_success (s : state) (t : nat) : state :=
  let s1 := match proxy s with Some p => set_pidx (Some p) s | None => s end in
  if negb (t =? leader s1) && negb (q_stale s1) && negb (q_rr s1)
  then set_leader t (upd_rep t (set_rstale false) s1) else s1.

(* the same loop, returning also the state the call ends in *)
Fixpoint loop_st (fixed : bool) (c : cfg) (script : list outcome) (s : state) (prev : option (nat * outcome)) (i : nat)
  : (list event * result) * state :=
  match (if c_interruptible c && killed s && negb (c_async c && (i =? 0))
         then HDone s RError []
         else match prev with None => HRetry s [] | Some (t, o) => handle fixed c s t o (pred i) end) with
  | HDone sd r evs => ((evs, r), sd)
  | HRetry s1 evs1 =>
      let s1' := if 0 <? i then set_q_retry true s1 else s1 in
      match sel_phase c s1' with
      | SDone sd r evs2 => ((evs1 ++ evs2, r), sd)
      | SSent s2 t evs2 =>
          let ev := EAtt t (q_rr s2) (q_stale s2) (q_retry s2) in
          let s3 := raise_att c i (after_send s2 t) in
          match script with
          | [] => ((evs1 ++ evs2 ++ [ev], if dead s2 then RError else RSuccess i), if dead s2 then s3 else on_success s3 t)
          | OSuccess :: _ => ((evs1 ++ evs2 ++ [ev], if dead s2 then RError else RSuccess i), if dead s2 then s3 else on_success s3 t)
          | o :: rest =>
              let '((evs, r), sf) := loop_st fixed c rest s3 (Some (t, if dead s2 then ORpcErr Reachable else o)) (S i) in
              ((evs1 ++ evs2 ++ ev :: evs, r), sf)
          end
      end
  end.

(* The cache state the NEXT call on this region starts from: its [c_leader0], [c_proxy0] and [c_reps].  If the cached region was
   invalidated it is loaded again from PD (leader = pd_leader, no memoised proxy, fresh epoch snapshot); the stores keep their
   liveness, slow mark and load estimate either way. *)
Definition carry (st : bool) (r : rep) : rep :=
  mkRep 0 false false false false false st (live r) (slow r) (stat_init r) (busy_est r) (label_ok r) (learner r) false st.
Definition end_cache (pd_leader : nat) (s : state) : nat * option nat * list rep :=
  if valid s then (leader s, pidx s, map (fun r => carry (rstale r) r) (reps s))
  else (pd_leader, None, map (carry false) (reps s)).

Definition run_st (c : cfg) (script : list outcome) (rands : list nat) (sleeps : list N) (pd_leader : nat)
  : (list event * result) * (nat * option nat * list rep) :=
  if validation_refuses c then (([], RError), end_cache pd_leader (init_state c rands sleeps))
  else let '(x, sf) := loop_st true c script (init_state c rands sleeps) None 0 in (x, end_cache pd_leader sf).


(* ---------------- sequences of calls on the same cached region ---------------- *)
Definition next_cfg (c : cfg) (k : nat * option nat * list rep) : cfg :=
  let '(ld, px, rs) := k in
  mkCfg (c_rt c) (c_stale c) (c_read c) (c_has_labels c) (c_leader_only c) (c_thr c) (c_short_to c) (c_max_sleep c) (c_val c)
        rs (c_fw c) (c_store_tp c) (c_cancel c) (c_kill c) (c_interruptible c) ld px (c_async c).

(* one element per call: the configuration (incl. cache state) the call started from, and what it did *)
Fixpoint run_seq (c : cfg) (calls : list (list outcome * list nat * list N)) (pd_leader : nat) : list (cfg * (list event * result)) :=
  match calls with
  | [] => []
  | (sc, rs, sl) :: rest =>
      let '(x, k) := run_st c sc rs sl pd_leader in
      (c, x) :: run_seq (next_cfg c k) rest pd_leader
  end.
