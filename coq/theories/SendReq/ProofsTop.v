(* SendReq/ProofsTop.v — the proofs of the theorems stated in Props.v (assembled from the lemmas of the other Proofs files) and
   the configurations used by the non-vacuity examples. *)
From Coq Require Import List Bool Arith NArith Lia.
Import ListNotations.
From Verif Require Import SendReq.Model SendReq.ProofsBound SendReq.ProofsSelect SendReq.ProofsLoop
  SendReq.ProofsFlags SendReq.ProofsResult SendReq.ProofsLasso SendReq.ProofsBudget SendReq.Cache SendReq.ProofsCache SendReq.ProofsCancel SendReq.ProofsAsync.

Lemma C10_bounded_proof : forall c script rands sleeps,
  n_attempts (fst (run c script rands sleeps)) <=
  max_replica_attempt * length (c_reps c) + length (c_reps c) * (length (c_reps c) - 1).
Proof.
  intros c script rands sleeps. pose proof (run_bound true c script rands sleeps). pose proof (run_rearms_fixed c script rands sleeps).
  unfold run in *. lia.
Qed.

Lemma C10_bounded_by_hints_proof : forall c script rands sleeps,
  n_attempts (fst (run c script rands sleeps)) <= max_replica_attempt * length (c_reps c) + n_hints script.
Proof.
  intros c script rands sleeps. pose proof (run_bound true c script rands sleeps). pose proof (run_rearms true c script rands sleeps).
  unfold run in *. lia.
Qed.

Lemma C10_unbounded_before_fix_proof :
  ~ (exists B, forall c script rands sleeps,
       length (c_reps c) = 3 -> n_attempts (fst (run_before_fix c script rands sleeps)) <= B) /\
  (forall k, n_attempts (fst (run_before_fix c0 (lasso k) [] [])) = 22 + 2 * k /\
             n_backoffs (fst (run_before_fix c0 (lasso k) [] [])) = 0 /\
             forallb is_hint (lasso k) = true).
Proof.
  split.
  - intros [B H]. specialize (H c0 (lasso B) [] [] eq_refl). destruct (lasso_attempts B) as [A _]. lia.
  - intros k. destruct (lasso_attempts k) as [A B]. repeat split; auto. apply lasso_only_hints.
Qed.

Lemma C10_flags_proof : forall c script rands sleeps,
  (c_read c = false -> c_stale c = false ->
     Forall (fun e => match e with EAtt _ rr st _ => rr = false /\ st = false | _ => True end) (fst (run c script rands sleeps))) /\
  (match retry_flags (fst (run c script rands sleeps)) with
   | [] => True
   | first :: later => first = false /\ Forall (fun d => d = true) later
   end) /\
  (c_read c = true -> c_val c = false -> c_store_tp c <> TpTiDB -> run c script rands sleeps = ([], RError)).
Proof.
  intros c script rands sleeps. split; [|split].
  - intros R ST. unfold run, run_gen, validation_refuses. rewrite R. cbn [andb]. apply (loop_write true c script R ST); cbn; rewrite R; reflexivity.
  - apply (run_retry true).
  - intros R V T. unfold run, run_gen, validation_refuses. rewrite R, V. destruct (c_store_tp c); try reflexivity. congruence.
Qed.

Lemma C10_no_fabrication_proof : forall c script rands sleeps evs r,
  run c script rands sleeps = (evs, r) ->
  match r with
  | RSuccess j => j + 1 = n_attempts evs /\ nth j script OSuccess = OSuccess
  | RRegionErr j => j + 1 = n_attempts evs /\ j < length script /\ is_region_err (nth j script OSuccess) = true
  | RFatal j => j + 1 = n_attempts evs /\ j < length script /\ is_fatal (nth j script OSuccess) = true
  | RPseudo | RError => True
  end.
Proof. intros c script rands sleeps evs r H. apply (run_result true) in H. destruct r; auto. Qed.

Lemma C10_error_only_when_spent_proof : forall c script rands sleeps evs,
  run c script rands sleeps = (evs, RError) ->
  (c_read c = true /\ c_val c = false /\ c_store_tp c <> TpTiDB) \/
  ((0 < c_max_sleep c)%N /\
   ((c_max_sleep c <= tot evs - exc evs)%N \/ ((excl_limit <= exc evs)%N /\ (c_max_sleep c <= exc evs)%N))) \/
  c_cancel c <> TNever \/ c_kill c <> TNever.
Proof. intros c script rands sleeps evs H. exact (run_error true c script rands sleeps evs H). Qed.

Lemma C10_backoffs_bounded_proof : forall c script rands sleeps,
  (0 < c_max_sleep c)%N ->
  (2 * n_plain (fst (run c script rands sleeps)) <= c_max_sleep c + 1)%N /\
  (1000 * n_excl (fst (run c script rands sleeps)) <= N.max excl_limit (c_max_sleep c) + 999)%N.
Proof. intros c script rands sleeps M. exact (run_backoffs true c script rands sleeps M). Qed.

Lemma C10_bounded_seq_proof : forall calls c pd,
  Forall (fun cx => n_attempts (fst (snd cx)) <=
                    max_replica_attempt * length (c_reps (fst cx)) + length (c_reps (fst cx)) * (length (c_reps (fst cx)) - 1))
         (run_seq c calls pd).
Proof. exact (run_seq_each (fun c x => n_attempts (fst x) <= max_replica_attempt * length (c_reps c) + length (c_reps c) * (length (c_reps c) - 1)) C10_bounded_proof). Qed.

(* configurations of the examples in Props.v *)
Definition c_stale_read : cfg := mkCfg RTMixed true true false false false false 100000%N true
  [fresh_rep Reachable false false false; fresh_rep Reachable false false false; fresh_rep Reachable false false false] false TpTiKV TNever TNever true 0 None false.
Definition c_fwd : cfg := mkCfg RTLeader false true false false false false 100000%N true
  [fresh_rep Unreachable false false false; fresh_rep Reachable false false false; fresh_rep Reachable false false false] true TpTiKV TNever TNever true 0 None false.
Definition c_cancelled (t : trigger) : cfg := mkCfg RTLeader false true false false false false 100000%N true (c_reps c0) false TpTiKV t TNever true 0 None false.
Definition c_killed (t : trigger) (ir : bool) : cfg := mkCfg RTLeader false true false false false false 100000%N true (c_reps c0) false TpTiKV TNever t ir 0 None false.
Definition c_later_call : cfg := mkCfg RTLeader false true false false false false 100000%N true
  [fresh_rep Unreachable false false false; fresh_rep Reachable false false false; fresh_rep Reachable false false false]
  true TpTiKV TNever TNever true 0 (Some 1) false.
Definition c_fw_ok : cfg := mkCfg RTLeader false true false false false false 100000%N true (c_reps c0) true TpTiKV TNever TNever true 0 None false.
