(* SendReq/Props.v — property C10: the theorems (each closed by [exact <lemma>]; the proofs are in the Proofs*.v files, the last step
   in ProofsTop.v) and the non-vacuity examples, nothing else.
   Model: SendReq/Model.v ([run cfg script rands sleeps] = the attempts/back-offs of one SendReqCtx call and its result).
   Quantification: ALL configurations (any number of replicas, any initial replica/store state), ALL fault scripts,
   ALL oracle inputs (random tie-breaks, jittered sleep lengths). *)
From Coq Require Import List Bool Arith NArith Lia.
Import ListNotations.
From Verif Require Import SendReq.Model SendReq.ProofsBound SendReq.ProofsSelect SendReq.ProofsLoop
  SendReq.ProofsFlags SendReq.ProofsResult SendReq.ProofsLasso SendReq.ProofsBudget SendReq.Cache SendReq.ProofsCache SendReq.ProofsCancel SendReq.ProofsAsync SendReq.ProofsTop.

(* --- boundedness --------------------------------------------------------------------------------------------- *)
(* Every attempt uses up one of the maxReplicaAttempt (10) attempts of some replica; attempts are only ever given back by
   replica.onUpdateLeader(maxRearm), i.e. by a NotLeader answer whose leader hint names an exhausted replica (a "re-arm",
   event ERearm), and each replica is re-armed at most maxRearm = replicas - 1 times (fix cb7d671 of finding F10).
   Hence, for ALL scripts, budgets and oracle inputs, and from ANY initial cache state — [c_reps] (attempt counters, flags, liveness,
   slow marks, stale epochs of every replica), the cached leader [c_leader0], a proxy memoised by an earlier call [c_proxy0] —
   i.e. for every call of a sequence of calls on the same cached region, without any hypothesis: *)
Theorem C10_bounded : forall c script rands sleeps,
  n_attempts (fst (run c script rands sleeps)) <=
  max_replica_attempt * length (c_reps c) + length (c_reps c) * (length (c_reps c) - 1).
Proof. exact C10_bounded_proof. Qed.
Print Assumptions C10_bounded.

(* the finer accounting: attempts <= 10 * replicas + re-arms actually made *)
Theorem C10_bounded_general : forall c script rands sleeps,
  n_attempts (fst (run c script rands sleeps)) <=
  max_replica_attempt * length (c_reps c) + n_rearms (fst (run c script rands sleeps)).
Proof. exact (run_bound true). Qed.
Print Assumptions C10_bounded_general.

(* ... and re-arms need NotLeader-with-hint outcomes: a script with h of them allows at most h re-arms *)
Theorem C10_bounded_by_hints : forall c script rands sleeps,
  n_attempts (fst (run c script rands sleeps)) <= max_replica_attempt * length (c_reps c) + n_hints script.
Proof. exact C10_bounded_by_hints_proof. Qed.
Print Assumptions C10_bounded_by_hints.

(* Why the re-arm limit is needed (finding F10, repaired): with the rule before the fix ([run_before_fix]: every hint re-arms an
   exhausted replica) no bound exists — for the leader read of a healthy 3-replica region and the lasso
   (N1 N0)^10 N1 (N0 N1)^k  of NotLeader answers whose hint alternates between replicas 0 and 1, ONE call made 22 + 2k attempts
   and never backed off.  The same lasso is a directed regression case of the check (see ex_lasso_terminates). *)
Theorem C10_unbounded_before_fix :
  ~ (exists B, forall c script rands sleeps,
       length (c_reps c) = 3 -> n_attempts (fst (run_before_fix c script rands sleeps)) <= B) /\
  (forall k, n_attempts (fst (run_before_fix c0 (lasso k) [] [])) = 22 + 2 * k /\
             n_backoffs (fst (run_before_fix c0 (lasso k) [] [])) = 0 /\
             forallb is_hint (lasso k) = true).
Proof. exact C10_unbounded_before_fix_proof. Qed.
Print Assumptions C10_unbounded_before_fix.

(* --- flag discipline ----------------------------------------------------------------------------------------- *)
(* (a) a write command (which enters without the stale flag) never leaves flagged as replica read or stale read;
   (b) the first attempt does not carry the retry marker, every later attempt of the same call does;
   (c) a read whose timestamp failed validation is never sent, whatever engine serves it (req.StoreTp TiKV or TiFlash);
       only requests served by a TiDB node are exempt from the validation. *)
Theorem C10_flags : forall c script rands sleeps,
  (c_read c = false -> c_stale c = false ->
     Forall (fun e => match e with EAtt _ rr st _ => rr = false /\ st = false | _ => True end) (fst (run c script rands sleeps))) /\
  (match retry_flags (fst (run c script rands sleeps)) with
   | [] => True
   | first :: later => first = false /\ Forall (fun d => d = true) later
   end) /\
  (c_read c = true -> c_val c = false -> c_store_tp c <> TpTiDB -> run c script rands sleeps = ([], RError)).
Proof. exact C10_flags_proof. Qed.
Print Assumptions C10_flags.

(* --- no fabrication ------------------------------------------------------------------------------------------ *)
(* A success is the answer to the LAST attempt and that answer is a success of the script (explicit, or the default
   beyond the end of the script); a region error handed to the caller is the region error answered to the last
   attempt; an error made of a store's answer ([RFatal]: flashback in progress / not prepared, RaftEntryTooLarge,
   "invalid max_ts update") is made of the LAST attempt's answer and that answer is such a region error; otherwise the
   result is the client-made "no replica available" pseudo error or an error ([RError], see C10_error_only_when_spent). *)
Theorem C10_no_fabrication : forall c script rands sleeps evs r,
  run c script rands sleeps = (evs, r) ->
  match r with
  | RSuccess j => j + 1 = n_attempts evs /\ nth j script OSuccess = OSuccess
  | RRegionErr j => j + 1 = n_attempts evs /\ j < length script /\ is_region_err (nth j script OSuccess) = true
  | RFatal j => j + 1 = n_attempts evs /\ j < length script /\ is_fatal (nth j script OSuccess) = true
  | RPseudo | RError => True
  end.
Proof. exact C10_no_fabrication_proof. Qed.
Print Assumptions C10_no_fabrication.

(* --- when is an error returned ------------------------------------------------------------------------------- *)
(* With C10_no_fabrication this characterises the three kinds of result: a response = the answer to the last attempt; a region
   error = that of the last attempt or the client-made "no replica / region gone" pseudo error; an ERROR only if the read
   timestamp failed validation (nothing sent) or a back-off was refused because the budget is spent: the non-excluded sleep
   (total - tikvServerBusy sleep) has reached maxSleep, or the excluded tikvServerBusy sleep has reached both its 600 000 ms
   cap and maxSleep; or the caller cancelled the context / set the kill flag ([c_cancel], [c_kill]: before the call, while an
   attempt is in flight, during a back-off sleep). *)
Theorem C10_error_only_when_spent : forall c script rands sleeps evs,
  run c script rands sleeps = (evs, RError) ->
  (c_read c = true /\ c_val c = false /\ c_store_tp c <> TpTiDB) \/
  ((0 < c_max_sleep c)%N /\
   ((c_max_sleep c <= tot evs - exc evs)%N \/ ((excl_limit <= exc evs)%N /\ (c_max_sleep c <= exc evs)%N))) \/
  c_cancel c <> TNever \/ c_kill c <> TNever.
Proof. exact C10_error_only_when_spent_proof. Qed.
Print Assumptions C10_error_only_when_spent.

(* --- how many back-offs a budget admits ------------------------------------------------------------------------ *)
(* Every back-off of the trace was admitted by the budget test and sleeps at least its minimal step (2 ms for the plain
   kinds, 1000 ms for tikvServerBusy), hence for maxSleep > 0:  #plain <= (maxSleep+1)/2  and
   #tikvServerBusy <= (max(600000, maxSleep)+999)/1000. *)
Theorem C10_backoffs_bounded : forall c script rands sleeps,
  (0 < c_max_sleep c)%N ->
  (2 * n_plain (fst (run c script rands sleeps)) <= c_max_sleep c + 1)%N /\
  (1000 * n_excl (fst (run c script rands sleeps)) <= N.max excl_limit (c_max_sleep c) + 999)%N.
Proof. exact C10_backoffs_bounded_proof. Qed.
Print Assumptions C10_backoffs_bounded.

(* --- caller cancellation stops the call ----------------------------------------------------------------------------- *)
(* A context cancelled before the call lets at most ONE attempt reach a client; a context cancelled while attempt k is in flight
   (attempts 0..k were made) lets at most one more (it is answered with the context error, and an RPC-level answer under a dead
   context ends the call).  Not covered by this theorem: a cancellation raised during a back-off sleep (TBo), where the attempt
   index at which it strikes depends on the run. *)
Theorem C10_cancel_stops : forall c script rands sleeps,
  (c_cancel c = TPre -> n_attempts (fst (run c script rands sleeps)) <= 1) /\
  (forall k, c_cancel c = TAtt k -> n_attempts (fst (run c script rands sleeps)) <= k + 2).
Proof. exact run_cancel. Qed.
Print Assumptions C10_cancel_stops.

(* --- the async path -------------------------------------------------------------------------------------------------- *)
(* SendReqAsync (first attempt by initForAsyncRequest + handleAsyncResponse, then next()) is the same [run] as SendReq, unless an
   interruptible request was already killed when the call started: initForAsyncRequest does not look at the kill flag, so the
   async path still sends its first attempt (ex_async_killed_before).  Structural proof: no step function reads [c_async]. *)
Theorem C10_async_same_run : forall c script rands sleeps,
  c_kill c <> TPre \/ c_interruptible c = false ->
  run (with_async c true) script rands sleeps = run (with_async c false) script rands sleeps.
Proof. exact (run_async_same true). Qed.
Print Assumptions C10_async_same_run.

(* --- sequences of calls on the same cached region ----------------------------------------------------------------- *)
(* [run_st] = [run] that also PREDICTS the cache state the call leaves (cached leader, memoised proxy, per-store liveness / slow
   mark / epoch staleness / load estimate; a region invalidated by the call is loaded again from PD): the check compares this
   prediction with the state observed before the next call.  It is the same run: *)
Theorem C10_cache_same_run : forall c script rands sleeps pd,
  fst (run_st c script rands sleeps pd) = run c script rands sleeps.
Proof. exact run_st_fst. Qed.
Print Assumptions C10_cache_same_run.

(* [run_seq]: each call starts from the cache state its predecessor left.  Every call of every sequence is bounded (by the
   replica count of the state it starts from), whatever the scripts, from any initial cache state.  This is a COROLLARY:
   C10_bounded (which already quantifies over every initial cache state) mapped over the list of calls; the content of the
   multi-call work is the cache-state prediction ([run_st] / [end_cache]) that the check compares with the implementation. *)
Theorem C10_bounded_seq : forall calls c pd,
  Forall (fun cx => n_attempts (fst (snd cx)) <=
                    max_replica_attempt * length (c_reps (fst cx)) + length (c_reps (fst cx)) * (length (c_reps (fst cx)) - 1))
         (run_seq c calls pd).
Proof. exact C10_bounded_seq_proof. Qed.
Print Assumptions C10_bounded_seq.

(* --- non-vacuity --------------------------------------------------------------------------------------------- *)
(* stale read: DataIsNotReady on the first replica, ServerIsBusy on the leader, RPC error on the last replica *)
Example ex_stale_read :
  run c_stale_read [ODataIsNotReady; OBusy false; ORpcErr Reachable] [0; 0] [55; 1057]%N =
  ([EAtt 0 false true false; EAtt 1 true false true; EAtt 2 true false true; EBo BoRPC 55; EBo BoBusy 1057], RPseudo).
Proof. vm_compute. reflexivity. Qed.
(* the hypothesis of C10_bounded is satisfiable, and the bound is reached: 10 RPC errors on the leader, then one try per follower *)
Example ex_no_rearm : n_rearms (fst (run c0 (repeat (ORpcErr Reachable) 40) [] [])) = 0 /\
  n_attempts (fst (run c0 (repeat (ORpcErr Reachable) 40) [] [])) = 12.
Proof. vm_compute. auto. Qed.
Example ex_budget : snd (run (mkCfg RTLeader false true false false false false 120%N true (c_reps c0) false TpTiKV TNever TNever true 0 None false) (repeat (ORpcErr Reachable) 40) [] [73; 105]%N) = RError.
Proof. vm_compute. reflexivity. Qed.
Example ex_write : fst (run (mkCfg RTFollower false false false false false false 100000%N true (c_reps c0) false TpTiKV TNever TNever true 0 None false) [OStaleCommand] [1] []) =
  [EAtt 2 false false false; EAtt 1 false false true].
Proof. vm_compute. reflexivity. Qed.
(* regression for F10: the lasso now terminates — 4 re-arms (2 per ping-pong replica), then no replica is left *)
Example ex_lasso_terminates : n_attempts (fst (run c0 (lasso 1000) [] [])) = 25 /\ n_rearms (fst (run c0 (lasso 1000) [] [])) = 4 /\
  snd (run c0 (lasso 1000) [] []) = RPseudo.
Proof. vm_compute. auto. Qed.

(* forwarding: leader store unreachable from the client, the request goes through replica 1 (ForwardedHost = leader) *)
Example ex_forward : run c_fwd [] [] [] = ([EProxy 1; EAtt 0 false false false], RSuccess 0).
Proof. vm_compute. reflexivity. Qed.
(* budget of 120 ms: the third RPC back-off is refused *)
Example ex_spent : let r := run (mkCfg RTLeader false true false false false false 120%N true (c_reps c0) false TpTiKV TNever TNever true 0 None false) (repeat (ORpcErr Reachable) 40) [] [73; 105]%N in
  snd r = RError /\ tot (fst r) = 178%N /\ n_plain (fst r) = 2%N.
Proof. vm_compute. auto. Qed.

(* validation gate: a TiFlash-served read with a failing timestamp is refused, a TiDB-served one is exempt by design *)
Example ex_validate_tp :
  run (mkCfg RTLeader false true false false false false 100000%N false (c_reps c0) false TpTiFlash TNever TNever true 0 None false) [] [] [] = ([], RError) /\
  snd (run (mkCfg RTLeader false true false false false false 100000%N false (c_reps c0) false TpTiDB TNever TNever true 0 None false) [] [] []) = RSuccess 0.
Proof. vm_compute. auto. Qed.

(* caller cancellation and kill: the call ends with an error, at most one more attempt reaches a client after the cancellation
   (it is answered with the context error), none after an interruptible request saw the kill flag; never a fabricated success *)
Example ex_cancel :
  run (c_cancelled TPre) [] [] [] = ([EAtt 0 false false false], RError) /\
  run (c_cancelled (TAtt 0)) [ONotLeaderHint 1; OSuccess] [] [] = ([EAtt 0 false false false; EAtt 1 false false true], RError) /\
  run (c_cancelled (TAtt 0)) [] [] [] = ([EAtt 0 false false false], RSuccess 0) /\
  run (c_cancelled (TBo 0)) (repeat (ORpcErr Reachable) 5) [] [51]%N = ([EAtt 0 false false false; EBo BoRPC 51; EAtt 0 false false true], RError).
Proof. vm_compute. auto. Qed.
Example ex_kill :
  run (c_killed TPre true) [] [] [] = ([], RError) /\
  run (c_killed (TAtt 0) true) (repeat (ORpcErr Reachable) 5) [] [] = ([EAtt 0 false false false], RError) /\
  run (c_killed (TAtt 0) false) (repeat (ORpcErr Reachable) 5) [] [52]%N = ([EAtt 0 false false false; EBo BoRPC 52], RError) /\
  run (c_killed (TBo 0) true) (repeat (ORpcErr Reachable) 5) [] [98]%N = ([EAtt 0 false false false; EBo BoRPC 98], RError).
Proof. vm_compute. auto. Qed.

(* a later call on a region whose cache remembers proxy 1 (memoised by an earlier call) while the leader store stays unreachable and
   every forwarded attempt gets StaleCommand: the memoised proxy is used once (it must still be a candidate), then replica 2,
   then the selector gives up — 2 attempts, pseudo region error *)
Example ex_memoised_proxy :
  run c_later_call (repeat OStaleCommand 40) [] [] =
  ([EProxy 1; EAtt 0 false false false; EProxy 2; EAtt 0 false false true], RPseudo).
Proof. vm_compute. reflexivity. Qed.

(* two calls on the same cached region, forwarding on: call 1 finds the leader's store unreachable and succeeds through replica 1,
   which is memoised; call 2 (leader still unreachable, StaleCommand for ever) uses the memoised proxy once, then replica 2, gives up *)
Example ex_two_calls :
  map snd (run_seq c_fw_ok [([ORpcErr Unreachable], [], [55%N]); (repeat OStaleCommand 40, [], [])] 0) =
  [([EAtt 0 false false false; EBo BoRPC 55; EProxy 1; EAtt 0 false false true], RSuccess 1);
   ([EProxy 1; EAtt 0 false false false; EProxy 2; EAtt 0 false false true], RPseudo)] /\
  map (fun cx => (c_leader0 (fst cx), c_proxy0 (fst cx), map live (c_reps (fst cx))))
      (run_seq c_fw_ok [([ORpcErr Unreachable], [], [55%N]); (repeat OStaleCommand 40, [], [])] 0) =
  [(0, None, [Reachable; Reachable; Reachable]); (0, Some 1, [Unreachable; Reachable; Reachable])].
Proof. vm_compute. auto. Qed.

(* the hypothesis of C10_async_same_run is needed: killed before the call, the sync path sends nothing, the async path one attempt *)
Example ex_async_killed_before :
  run (with_async (c_killed TPre true) false) [] [] [] = ([], RError) /\
  run (with_async (c_killed TPre true) true) [] [] [] = ([EAtt 0 false false false], RSuccess 0) /\
  run (with_async (c_killed (TAtt 0) true) true) (repeat (ORpcErr Reachable) 5) [] [] = run (with_async (c_killed (TAtt 0) true) false) (repeat (ORpcErr Reachable) 5) [] [].
Proof. vm_compute. auto. Qed.

(* rarely produced answers: RecoveryInProgress = invalidate, back off, hand the region error to the caller; flashback in progress
   on a replica read that hit a follower = retry on the leader, otherwise an error; RegionNotInitialized = back off and retry *)
Example ex_rare_answers :
  run c0 [ORecovery] [] [50]%N = ([EAtt 0 false false false; EBo BoRecovery 50], RRegionErr 0) /\
  run c0 [OFlashback] [] [] = ([EAtt 0 false false false], RFatal 0) /\
  run (mkCfg RTFollower false true false false false false 100000%N true (c_reps c0) false TpTiKV TNever TNever true 0 None false)
      [OFlashback; OStaleCommand] [0] [] = ([EAtt 1 true false false; EAtt 0 false false true; EAtt 0 false false true], RSuccess 2) /\
  run c0 [ONotInitialized; OReadIndexNotReady; OMerging] [] [2; 2; 4]%N =
    ([EAtt 0 false false false; EBo BoNotInit 2; EAtt 0 false false true; EBo BoRegionScheduling 2; EAtt 0 false false true;
      EBo BoRegionScheduling 4; EAtt 0 false false true], RSuccess 3).
Proof. vm_compute. auto. Qed.
