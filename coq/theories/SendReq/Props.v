(* SendReq/Props.v — property C10: the theorems, nothing else.
   Model: SendReq/Model.v ([run cfg script rands sleeps] = the attempts/back-offs of one SendReqCtx call and its result).
   Quantification: ALL configurations (any number of replicas, any initial replica/store state), ALL fault scripts,
   ALL oracle inputs (random tie-breaks, jittered sleep lengths). *)
From Coq Require Import List Bool Arith NArith Lia.
Import ListNotations.
From Verif Require Import SendReq.Model SendReq.ProofsBound SendReq.ProofsSelect SendReq.ProofsLoop
  SendReq.ProofsFlags SendReq.ProofsResult SendReq.ProofsLasso.

(* --- boundedness --------------------------------------------------------------------------------------------- *)
(* Every attempt uses up one of the maxReplicaAttempt (10) attempts of some replica; attempts are only ever given
   back by replica.onUpdateLeader, i.e. by a NotLeader answer whose leader hint names an exhausted replica (a "re-arm",
   event ERearm).  Hence: attempts <= 10 * replicas + re-arms, whatever the script, the budget or the oracles. *)
Theorem C10_bounded_general : forall c script rands sleeps,
  n_attempts (fst (run c script rands sleeps)) <=
  max_replica_attempt * length (c_reps c) + n_rearms (fst (run c script rands sleeps)).
Proof. exact run_bound. Qed.
Print Assumptions C10_bounded_general.

(* The hypothesis that excludes finding F10, stated on the run: no NotLeader leader hint ever names a replica that has
   already used up its maxReplicaAttempt attempts.  Under it one call makes at most B(cfg) = 10 * replicas attempts. *)
Definition no_rearm (c : cfg) (script : list outcome) (rands : list nat) (sleeps : list N) : Prop :=
  n_rearms (fst (run c script rands sleeps)) = 0.

Theorem C10_bounded : forall c script rands sleeps,
  no_rearm c script rands sleeps ->
  n_attempts (fst (run c script rands sleeps)) <= max_replica_attempt * length (c_reps c).
Proof. intros c script rands sleeps H. pose proof (run_bound c script rands sleeps). unfold no_rearm in H. lia. Qed.
Print Assumptions C10_bounded.

(* The same with a hypothesis on the script alone: a script with h NotLeader-with-hint outcomes allows at most h re-arms. *)
Theorem C10_bounded_by_hints : forall c script rands sleeps,
  n_attempts (fst (run c script rands sleeps)) <= max_replica_attempt * length (c_reps c) + n_hints script.
Proof.
  intros c script rands sleeps. pose proof (run_bound c script rands sleeps). pose proof (run_rearms c script rands sleeps). lia.
Qed.
Print Assumptions C10_bounded_by_hints.

(* Without the hypothesis the bound is FALSE for the code as it is (finding F10): for the leader read of a healthy
   3-replica region and the lasso  (N1 N0)^10 N1 (N0 N1)^k  of NotLeader answers whose hint alternates between
   replicas 0 and 1, ONE call makes 22 + 2k attempts and never backs off. *)
Theorem C10_bounded_refuted :
  ~ (exists B, forall c script rands sleeps,
       length (c_reps c) = 3 -> n_attempts (fst (run c script rands sleeps)) <= B) /\
  (forall k, n_attempts (fst (run c0 (lasso k) [] [])) = 22 + 2 * k /\
             n_backoffs (fst (run c0 (lasso k) [] [])) = 0 /\
             forallb is_hint (lasso k) = true).
Proof.
  split.
  - intros [B H]. specialize (H c0 (lasso B) [] [] eq_refl). destruct (lasso_attempts B) as [A _]. lia.
  - intros k. destruct (lasso_attempts k) as [A B]. repeat split; auto. apply lasso_only_hints.
Qed.
Print Assumptions C10_bounded_refuted.

(* --- flag discipline ----------------------------------------------------------------------------------------- *)
(* (a) a write command (which enters without the stale flag) never leaves flagged as replica read or stale read;
   (b) the first attempt does not carry the retry marker, every later attempt of the same call does;
   (c) a read whose timestamp failed validation is never sent. *)
Theorem C10_flags : forall c script rands sleeps,
  (c_read c = false -> c_stale c = false ->
     Forall (fun e => match e with EAtt _ rr st _ => rr = false /\ st = false | _ => True end) (fst (run c script rands sleeps))) /\
  (match retry_flags (fst (run c script rands sleeps)) with
   | [] => True
   | first :: later => first = false /\ Forall (fun d => d = true) later
   end) /\
  (c_read c = true -> c_val c = false -> run c script rands sleeps = ([], RError)).
Proof.
  intros c script rands sleeps. split; [|split].
  - intros R ST. unfold run. rewrite R. cbn [andb]. apply (loop_write c script R ST); cbn; rewrite R; reflexivity.
  - apply run_retry.
  - intros R V. unfold run. rewrite R, V. reflexivity.
Qed.
Print Assumptions C10_flags.

(* --- no fabrication ------------------------------------------------------------------------------------------ *)
(* A success is the answer to the LAST attempt and that answer is a success of the script (explicit, or the default
   beyond the end of the script); a region error handed to the caller is the region error answered to the last
   attempt; otherwise the result is the client-made "no replica available" pseudo error or an error. *)
Theorem C10_no_fabrication : forall c script rands sleeps evs r,
  run c script rands sleeps = (evs, r) ->
  match r with
  | RSuccess j => j + 1 = n_attempts evs /\ nth j script OSuccess = OSuccess
  | RRegionErr j => j + 1 = n_attempts evs /\ j < length script /\ is_region_err (nth j script OSuccess) = true
  | RPseudo | RError => True
  end.
Proof. intros c script rands sleeps evs r H. apply run_result in H. destruct r; auto. Qed.
Print Assumptions C10_no_fabrication.

(* --- non-vacuity --------------------------------------------------------------------------------------------- *)
Definition c_stale_read : cfg := mkCfg RTMixed true true false false false false 100000%N true
  [fresh_rep Reachable false false false; fresh_rep Reachable false false false; fresh_rep Reachable false false false].
(* stale read: DataIsNotReady on the first replica, ServerIsBusy on the leader, RPC error on the last replica *)
Example ex_stale_read :
  run c_stale_read [ODataIsNotReady; OBusy false; ORpcErr Reachable] [0; 0] [55; 1057]%N =
  ([EAtt 0 false true false; EAtt 1 true false true; EAtt 2 true false true; EBo BoRPC 55; EBo BoBusy 1057], RPseudo).
Proof. vm_compute. reflexivity. Qed.
(* the hypothesis of C10_bounded is satisfiable, and the bound is reached: 10 RPC errors on the leader, then one try per follower *)
Example ex_no_rearm : no_rearm c0 (repeat (ORpcErr Reachable) 40) [] [] /\
  n_attempts (fst (run c0 (repeat (ORpcErr Reachable) 40) [] [])) = 12.
Proof. vm_compute. auto. Qed.
Example ex_budget : snd (run (mkCfg RTLeader false true false false false false 120%N true (c_reps c0)) (repeat (ORpcErr Reachable) 40) [] [73; 105]%N) = RError.
Proof. vm_compute. reflexivity. Qed.
Example ex_write : fst (run (mkCfg RTFollower false false false false false false 100000%N true (c_reps c0)) [OStaleCommand] [1] []) =
  [EAtt 2 false false false; EAtt 1 false false true].
Proof. vm_compute. reflexivity. Qed.
Example ex_lasso : n_attempts (fst (run c0 (lasso 1000) [] [])) = 2022.
Proof. destruct (lasso_attempts 1000) as [A _]. exact A. Qed.
