(* SendReq/ProofsSelect.v — whatever strategy chooses a replica, the chosen one still has an attempt left,
   and choosing does not change any attempt counter; one send uses up exactly one unit of room. *)
From Coq Require Import List Bool Arith NArith Lia.
Import ListNotations.
From Verif Require Import SendReq.Model SendReq.ProofsBound.

Definition sel_ok (s : state) (o : option nat) (s' : state) : Prop :=
  atts s' = atts s /\ forall t, o = Some t -> att_at s t < max_replica_attempt.

Lemma is_cand_att p l i r : is_cand p l i r = true -> attempts r < 2.
Proof.
  unfold is_cand, exhausted. intros H. repeat (apply andb_prop in H as [H ?]).
  match goal with X : negb (_ <=? attempts r) = true |- _ => apply negb_true_iff, Nat.leb_gt in X;
    destruct (f_dnr r && negb (i =? l)); lia end.
Qed.

Lemma ties_cand p s i : In i (ties p s) -> is_cand p (leader s) i (rep_at s i) = true.
Proof. unfold ties, cand_idx. intros H. apply filter_In in H as [H _]. now apply filter_In in H as [_ H]. Qed.

Lemma leader_candidate_att r : leader_candidate r = true -> attempts r < max_replica_attempt.
Proof.
  unfold leader_candidate, exhausted. intros H. repeat (apply andb_prop in H as [H ?]).
  match goal with X : negb (_ <=? attempts r) = true |- _ => apply negb_true_iff, Nat.leb_gt in X; lia end.
Qed.

Lemma att_at_eq s s' t : atts s' = atts s -> att_at s' t = att_at s t.
Proof. unfold att_at. now intros ->. Qed.

Lemma mixed_next_ok p s o s' : mixed_next p s = (o, s') -> sel_ok s o s'.
Proof.
  unfold mixed_next, sel_ok.
  assert (C : forall i, In i (ties p s) -> att_at s i < max_replica_attempt).
  { intros i H. apply ties_cand, is_cand_att in H. rewrite att_at_rep in H. unfold max_replica_attempt. lia. }
  destruct (ties p s) as [|i [|j l]] eqn:T.
  - destruct (m_thr p). { intros H; inversion H; subst. split; [reflexivity|discriminate]. }
    cbv zeta.
    set (s1 := if f_suspect (rep_at s (leader s)) then upd_rep (leader s) (set_f_suspect false) s else s).
    assert (H1 : atts s1 = atts s) by (subst s1; destruct (f_suspect _); atts_norm; reflexivity).
    destruct (f_suspect (rep_at s (leader s)) && leader_candidate (rep_at s1 (leader s))) eqn:E.
    + intros H; inversion H; subst. split; [assumption|]. intros t Ht; inversion Ht; subst.
      apply andb_prop in E as [_ E]. apply leader_candidate_att in E. rewrite att_at_rep in E.
      now rewrite (att_at_eq _ _ _ H1) in E.
    + destruct (has_deadline (reps s1)); intros H; inversion H; subst; (split; [atts_norm; assumption | discriminate]).
  - intros H; inversion H; subst. split; [reflexivity|]. intros t Ht; inversion Ht; subst. apply C. now left.
  - destruct (pop 0 (orc_r s)) as [r rest].
    assert (B : r mod length (i :: j :: l) < length (i :: j :: l)) by (apply Nat.mod_upper_bound; discriminate).
    remember (r mod length (i :: j :: l)) as m eqn:Hm. clear Hm. remember (i :: j :: l) as L eqn:HL. clear HL T.
    intros H. injection H as <- <-. split; [atts_norm; reflexivity|].
    intros t Ht. injection Ht as <-. apply C. now apply nth_In.
Qed.

Lemma leader_next_ok s l : leader_next s = Some l -> att_at s l < max_replica_attempt.
Proof.
  unfold leader_next. cbv zeta. destruct (leader_candidate (rep_at s (leader s)) && _) eqn:E; [|discriminate].
  intros H; inversion H; subst. apply andb_prop in E as [E _]. apply leader_candidate_att in E. now rewrite att_at_rep in E.
Qed.

Lemma sel_ok_trans s s1 s2 o : atts s1 = atts s -> sel_ok s1 o s2 -> sel_ok s o s2.
Proof. intros E [A B]. split; [congruence|]. intros t Ht. rewrite <- (att_at_eq _ _ _ E). auto. Qed.

Lemma sel_ok_frame s o s1 s2 : sel_ok s o s1 -> atts s2 = atts s1 -> sel_ok s o s2.
Proof. intros [A B] E. split; [congruence|assumption]. Qed.

Lemma next_leader_ok c s o s' : next_leader c s = (o, s') -> sel_ok s o s'.
Proof.
  unfold next_leader. cbv zeta.
  destruct (leader_next s) as [l|] eqn:L.
  - apply leader_next_ok in L.
    assert (OK : forall s0, atts s0 = atts s -> sel_ok s (Some l) s0).
    { intros s0 E. split; [assumption|]. intros t Ht; inversion Ht; subst; assumption. }
    destruct (busy_thr s && c_read c && _).
    + destruct (mixed_next _ s) as [[i|] s1] eqn:M; apply mixed_next_ok in M; intros H; inversion H; subst.
      * eapply sel_ok_frame; [exact M|atts_norm; reflexivity].
      * apply OK. atts_norm. apply M.
    + intros H; inversion H; subst. now apply OK.
  - destruct (mixed_next _ s) as [[i|] s2] eqn:M; apply mixed_next_ok in M.
    + destruct (c_read c && _); intros H; inversion H; subst; auto.
    + intros H; inversion H; subst; auto.
Qed.

Lemma next_mixed_ok c s o s' : next_mixed c s = (o, s') -> sel_ok s o s'.
Proof.
  unfold next_mixed. cbv zeta.
  match goal with |- context [match ?e with Some _ => _ | None => _ end = _] => destruct e as [l|] eqn:EE end.
  - intros H; inversion H; subst. split; [atts_norm; reflexivity|]. intros t Ht; inversion Ht; subst.
    destruct (c_stale c && (sel_attempts s =? 2)); [|discriminate].
    destruct (leader_next s) as [l'|] eqn:L; [|discriminate]. destruct (negb _); inversion EE; subst.
    now apply leader_next_ok.
  - clear EE. destruct (mixed_next _ s) as [[i|] s1] eqn:M; apply mixed_next_ok in M.
    + repeat match goal with |- context [if ?b then _ else _] => destruct b end;
        intros H; inversion H; subst; (eapply sel_ok_frame; [exact M|atts_norm; reflexivity]).
    + intros H; inversion H; subst; auto.
Qed.

Lemma no_candidate_spec c s : match no_candidate c s with SSent _ _ _ => False | SDone _ _ evs => n_attempts evs = 0 /\ n_rearms evs = 0 end.
Proof.
  unfold no_candidate. destruct (any_pending s); auto.
  destruct (backoff c BoBusy s) as [s' e| |e] eqn:B; auto.
  - apply backoff_frame in B as (_ & _ & _ & _ & sl & ->). auto.
  - apply backoff_killed in B as (sl & ->). auto.
Qed.

Lemma proxy_cand_facts s p : proxy_cand (leader s) p (rep_at s p) = true -> p <> leader s /\ att_at s p < 1.
Proof.
  intros F. unfold proxy_cand, exhausted in F. repeat (apply andb_prop in F as [F ?]).
  split.
  - intros ->. rewrite Nat.eqb_refl in F. discriminate.
  - match goal with X : negb (1 <=? _) = true |- _ => apply negb_true_iff, Nat.leb_gt in X; now rewrite att_at_rep in X end.
Qed.

Lemma proxy_next_via s p : proxy_next s = PxVia p -> p <> leader s /\ att_at s p < 1.
Proof.
  unfold proxy_next. cbv zeta. destruct (proxy_unneeded s); [discriminate|].
  assert (SC : match find (fun i => proxy_cand (leader s) i (rep_at s i)) (seq 0 (length (reps s))) with Some q => PxVia q | None => PxNone end = PxVia p ->
               p <> leader s /\ att_at s p < 1).
  { destruct (find _ _) as [q|] eqn:F; [|discriminate]. intros H; injection H as <-. apply find_some in F as [_ F]. now apply proxy_cand_facts. }
  destruct (pidx s) as [q|]; [|exact SC].
  destruct ((q <? length (reps s)) && proxy_cand (leader s) q (rep_at s q)) eqn:Q; [|exact SC].
  intros H; injection H as <-. apply andb_prop in Q as [_ Q]. now apply proxy_cand_facts.
Qed.

Lemma sel_phase_spec c s :
  match sel_phase c s with
  | SSent s' t evs => room s' + 1 <= room s /\ n_attempts evs = 0 /\ n_rearms evs = 0
  | SDone _ _ evs => n_attempts evs = 0 /\ n_rearms evs = 0
  end.
Proof.
  assert (NC : forall s0, match no_candidate c s0 with SSent s' t evs => room s' + 1 <= room s /\ n_attempts evs = 0 /\ n_rearms evs = 0
                          | SDone _ _ evs => n_attempts evs = 0 /\ n_rearms evs = 0 end).
  { intros s0. pose proof (no_candidate_spec c s0). destruct (no_candidate c s0); tauto. }
  unfold sel_phase. cbv zeta.
  match goal with |- context [match ?e with Some _ => _ | None => _ end] => destruct e as [s0|] eqn:G end; [|apply NC].
  assert (E0 : atts s0 = atts s).
  { destruct (inv_retry s); [inversion G; atts_norm; reflexivity|]. destruct (valid s); inversion G; reflexivity. }
  set (s1 := set_proxy None (set_sel_attempts (sat3 (S (sel_attempts s0))) (unset_if c s0))).
  assert (E1 : atts s1 = atts s) by (subst s1; atts_norm; assumption).
  destruct (if rt_eqb (rt s1) RTLeader && c_fw c then proxy_next s1 else PxLeaderOnly) as [|p|] eqn:PX; [| |apply NC].
  2: { assert (PV : proxy_next s1 = PxVia p) by (destruct (rt_eqb (rt s1) RTLeader && c_fw c); [assumption|discriminate]).
       apply proxy_next_via in PV as [Pne Patt].
       destruct (stale (rep_at s1 (leader s1)) || stale (rep_at s1 p)); [apply NC|].
       set (sa := upd_rep (leader s1) (fun r => set_attempts (S (attempts r)) r) (set_proxy (Some p) s1)).
       assert (Ra : room sa <= room s1) by (subst sa; unfold room, atts at 1, upd_rep; cbn [reps set_reps set_proxy]; apply room_upd_inc_le).
       assert (Pa : att_at sa p = att_at s1 p).
       { subst sa. unfold att_at, atts at 1, upd_rep. cbn [reps set_reps set_proxy]. apply nth_upd_other. congruence. }
       set (s3 := upd_rep p (fun r => set_attempts (S (attempts r)) r) sa).
       assert (R3 : room s3 + 1 <= room s).
       { assert (room s3 + 1 = room sa); [|unfold room in *; rewrite <- E1; unfold room in Ra; fold (atts s1); lia].
         subst s3. unfold room, atts at 1, upd_rep. cbn [reps set_reps]. apply room_upd_inc. fold (atts sa). fold (att_at sa p).
         rewrite Pa. unfold max_replica_attempt. lia. }
       destruct (pending (rep_at s3 (leader s1))).
       - destruct (backoff c BoBusy _) as [s4 e| |e] eqn:B; [|auto|apply backoff_killed in B as (sl & ->); auto].
         apply backoff_frame in B as (Hr & _ & _ & _ & sl & ->). split; [|auto].
         assert (room s4 = room s3); [|lia]. unfold room, atts. rewrite Hr. fold (atts (upd_rep (leader s1) (set_pending false) s3)). atts_norm. reflexivity.
       - auto. }
  destruct (if rt_eqb (rt s1) RTLeader then next_leader c s1 else next_mixed c s1) as [tg s2] eqn:N.
  assert (OK : sel_ok s1 tg s2) by (destruct (rt_eqb (rt s1) RTLeader); [eapply next_leader_ok | eapply next_mixed_ok]; eassumption).
  destruct tg as [t|]; [|apply NC].
  destruct (stale (rep_at s2 t)); [apply NC|].
  destruct OK as [E2 A]. specialize (A t eq_refl).
  set (s3 := upd_rep t (fun r => set_attempts (S (attempts r)) r) s2).
  assert (R3 : room s3 + 1 <= room s).
  { apply Nat.eq_le_incl. subst s3. unfold room, atts at 1, upd_rep. cbn [reps set_reps]. rewrite <- E1, <- E2. apply room_upd_inc.
    fold (atts s2). rewrite E2. exact A. }
  destruct (pending (rep_at s3 t)).
  - destruct (backoff c BoBusy _) as [s4 e| |e] eqn:B; [|auto|apply backoff_killed in B as (sl & ->); auto].
    apply backoff_frame in B as (Hr & _ & _ & _ & sl & ->). split; [|auto].
    assert (room s4 = room s3); [|lia]. unfold room, atts. rewrite Hr. fold (atts (upd_rep t (set_pending false) s3)). atts_norm. reflexivity.
  - auto.
Qed.
