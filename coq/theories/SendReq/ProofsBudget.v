(* SendReq/ProofsBudget.v — the back-off budget along the trace (every back-off was admitted by the budget test and sleeps at
   least its minimal step), an error only when a back-off was refused, and the re-arm count of the repair candidate. *)
From Coq Require Import List Bool Arith NArith Lia ZifyN ZifyNat ZifyBool.
Import ListNotations.
From Verif Require Import SendReq.Model SendReq.ProofsBound SendReq.ProofsSelect SendReq.ProofsLoop.
Local Open Scope N_scope.

(* Backoffer.BackoffWithCfgAndMaxSleep refuses (returns the error) iff *)
Definition refuse (c : cfg) (k : bo_kind) (T E : N) : bool :=
  (0 <? c_max_sleep c) && ((c_max_sleep c <=? T - E) || (excluded k && (excl_limit <=? E) && (c_max_sleep c <=? E))).
Definition spent (c : cfg) (T E : N) : Prop := exists k, refuse c k T E = true.

Fixpoint tot (evs : list event) : N := match evs with [] => 0 | EBo _ sl :: r => sl + tot r | _ :: r => tot r end.
Fixpoint exc (evs : list event) : N :=
  match evs with [] => 0 | EBo k sl :: r => (if excluded k then sl else 0) + exc r | _ :: r => exc r end.
Fixpoint bo_ok (c : cfg) (T E : N) (evs : list event) : Prop :=
  match evs with
  | [] => True
  | EBo k sl :: r => refuse c k T E = false /\ min_step k <= sl /\ bo_ok c (T + sl) (E + (if excluded k then sl else 0)) r
  | _ :: r => bo_ok c T E r
  end.

Lemma tot_app a b : tot (a ++ b) = tot a + tot b.
Proof. induction a as [|e a IH]; cbn [app tot]; [lia|]. destruct e; lia. Qed.
Lemma exc_app a b : exc (a ++ b) = exc a + exc b.
Proof. induction a as [|e a IH]; cbn [app exc]; [lia|]. destruct e; lia. Qed.
Lemma bo_ok_app c a : forall T E b, bo_ok c T E a -> bo_ok c (T + tot a) (E + exc a) b -> bo_ok c T E (a ++ b).
Proof.
  induction a as [|e a IH]; intros T E b Ha Hb; cbn [app tot exc bo_ok] in *.
  - now rewrite !N.add_0_r in Hb.
  - destruct e; try (apply IH; assumption). destruct Ha as (A1 & A2 & A3). repeat split; auto.
    apply IH; auto. now rewrite <- !N.add_assoc.
Qed.

(* what the re-arm counters still allow: sum over the replicas of (maxRearm - rearmed), maxRearm = replicas - 1 *)
Fixpoint slack (L : nat) (v : list nat) : nat := match v with [] => 0 | x :: r => (L - x) + slack L r end.
Definition unarmed (c : cfg) (s : state) : nat := slack (length (c_reps c) - 1) (rearmed_v s).
Definition aux (s : state) := (rearmed_v s, bo_total s, bo_excl s, dead s, killed s).
(* nobody cancels or kills: then an error can only come from the budget *)
Definition calm (c : cfg) (s : state) : Prop := c_cancel c = TNever /\ c_kill c = TNever /\ dead s = false /\ killed s = false.
Definition adv (c : cfg) (s s' : state) (evs : list event) : Prop :=
  bo_total s' = bo_total s + tot evs /\ bo_excl s' = bo_excl s + exc evs /\ bo_ok c (bo_total s) (bo_excl s) evs /\ (calm c s -> calm c s').

Ltac calmtac :=
  match goal with
  | X : calm ?c ?s -> calm ?c ?s2, Y : calm ?c ?s |- _ => let Z := fresh in pose proof (X Y) as Z; destruct Z as (? & ? & ? & ?); assumption
  | Y : calm ?c ?s |- _ => destruct Y as (? & ? & ? & ?); assumption
  end.

Lemma calm_aux c s s' : aux s' = aux s -> calm c s -> calm c s'.
Proof. unfold aux, calm. intros H; injection H as _ _ _ -> ->. auto. Qed.
Lemma adv_nil c s s' : aux s' = aux s -> adv c s s' [].
Proof. intros H. pose proof (calm_aux c s s' H). unfold aux, adv in *. injection H as _ -> -> _ _. cbn. split; [lia|]. split; [lia|]. split; [exact I|assumption]. Qed.

Lemma backoff_ok c k s s' e : backoff c k s = BoOk s' e ->
  exists sl, e = EBo k sl /\ min_step k <= sl /\ refuse c k (bo_total s) (bo_excl s) = false /\
             bo_total s' = bo_total s + sl /\ bo_excl s' = bo_excl s + (if excluded k then sl else 0) /\ rearmed_v s' = rearmed_v s /\
             (calm c s -> calm c s').
Proof.
  unfold backoff. destruct (dead s) eqn:D; [discriminate|].
  change ((0 <? c_max_sleep c) && budget_exceeded c k s) with (refuse c k (bo_total s) (bo_excl s)).
  destruct (refuse c k _ _) eqn:R; [discriminate|]. destruct (pop 0 (orc_s s)) as [sl0 rest]. cbv zeta.
  match goal with |- (if ?b then _ else _) = _ -> _ => destruct b eqn:K end; [discriminate|].
  intros H. exists (N.max sl0 (min_step k)). injection H as <- <-.
  destruct (excluded k); cbn; repeat split; auto; try lia;
    match goal with Y : calm _ _ |- _ => destruct Y as (C1 & C2 & C3 & C4) end; cbn; rewrite ?C1, ?C2, ?C4; auto.
Qed.
Lemma backoff_refused c k s : backoff c k s = BoRefused -> dead s = true \/ refuse c k (bo_total s) (bo_excl s) = true.
Proof.
  unfold backoff. destruct (dead s); [auto|].
  change ((0 <? c_max_sleep c) && budget_exceeded c k s) with (refuse c k (bo_total s) (bo_excl s)).
  destruct (refuse c k _ _); auto. destruct (pop 0 (orc_s s)). cbv zeta.
  match goal with |- (if ?b then _ else _) = _ -> _ => destruct b end; discriminate.
Qed.
Lemma backoff_kill c k s e : backoff c k s = BoKilled e ->
  exists sl, e = EBo k sl /\ min_step k <= sl /\ refuse c k (bo_total s) (bo_excl s) = false /\ ~ calm c s.
Proof.
  unfold backoff. destruct (dead s) eqn:D; [discriminate|].
  change ((0 <? c_max_sleep c) && budget_exceeded c k s) with (refuse c k (bo_total s) (bo_excl s)).
  destruct (refuse c k _ _) eqn:R; [discriminate|]. destruct (pop 0 (orc_s s)) as [sl0 rest]. cbv zeta.
  match goal with |- (if ?b then _ else _) = _ -> _ => destruct b eqn:K end; [|discriminate].
  intros H. exists (N.max sl0 (min_step k)). injection H as <-. repeat split; auto; try lia.
  intros (C1 & C2 & C3 & C4). cbn in K. rewrite C2, C4 in K. discriminate.
Qed.

(* what a refusal means when nobody cancels or kills *)
Definition why (c : cfg) (s : state) (r : result) (evs : list event) : Prop :=
  calm c s -> r = RError -> evs = [] /\ spent c (bo_total s) (bo_excl s).

Lemma with_backoff_bo c k s0 r0 :
  match with_backoff c k s0 r0 with
  | HRetry s' evs => adv c s0 s' evs /\ rearmed_v s' = rearmed_v s0 /\ n_rearms evs = 0%nat
  | HDone _ r evs => r = r0 /\ bo_ok c (bo_total s0) (bo_excl s0) evs /\ n_rearms evs = 0%nat /\ why c s0 r evs
  end.
Proof.
  unfold with_backoff. destruct (backoff c k s0) as [s' e| |e] eqn:B.
  - apply backoff_ok in B as (sl & -> & M & R & T & E & V & C). unfold adv. cbn [tot exc bo_ok]. repeat split; auto; try lia; try calmtac.
  - apply backoff_refused in B. split; [reflexivity|]. split; [exact I|]. split; [reflexivity|]. intros (_ & _ & D & _) _. split; auto.
    destruct B as [B|B]; [congruence|now exists k].
  - apply backoff_kill in B as (sl & -> & M & R & NC). cbn [bo_ok]. split; [reflexivity|]. split; [auto|]. split; [reflexivity|]. intros C. contradiction.
Qed.

Ltac ifs := repeat match goal with |- context [if ?b then _ else _] => destruct b eqn:? end.

Lemma mixed_next_aux p s o s' : mixed_next p s = (o, s') -> aux s' = aux s.
Proof.
  unfold mixed_next. destruct (ties p s) as [|i [|j l]]; cbv zeta; try destruct (pop 0%nat (orc_r s)); ifs;
    intros H; inversion H; subst; reflexivity.
Qed.
Lemma next_leader_aux c s o s' : next_leader c s = (o, s') -> aux s' = aux s.
Proof.
  unfold next_leader. cbv zeta. destruct (leader_next s).
  - destruct (busy_thr s && c_read c && _).
    + destruct (mixed_next _ s) as [[i|] s1] eqn:M; apply mixed_next_aux in M; intros H; inversion H; subst; exact M.
    + intros H; inversion H; subst; reflexivity.
  - destruct (mixed_next _ s) as [[i|] s1] eqn:M; apply mixed_next_aux in M.
    + destruct (c_read c && _); intros H; inversion H; subst; exact M.
    + intros H; inversion H; subst; exact M.
Qed.
Lemma next_mixed_aux c s o s' : next_mixed c s = (o, s') -> aux s' = aux s.
Proof.
  unfold next_mixed. cbv zeta.
  match goal with |- context [match ?e with Some _ => _ | None => _ end = _] => destruct e as [l|] end.
  - intros H; inversion H; subst; reflexivity.
  - destruct (mixed_next _ s) as [[i|] s1] eqn:M; apply mixed_next_aux in M; ifs; intros H; inversion H; subst; exact M.
Qed.

Definition sres_bo (c : cfg) (s : state) (x : sres) : Prop :=
  match x with
  | SSent s' t evs => adv c s s' evs /\ rearmed_v s' = rearmed_v s
  | SDone _ r evs => bo_ok c (bo_total s) (bo_excl s) evs /\ why c s r evs
  end.

Lemma why_aux c s0 s r evs : aux s0 = aux s -> why c s0 r evs -> why c s r evs.
Proof.
  intros H W C R. assert (C0 : calm c s0) by (apply (calm_aux c s s0); auto).
  destruct (W C0 R) as [-> S]. split; auto. unfold aux in H. injection H as _ T E _ _. now rewrite <- T, <- E.
Qed.

Lemma no_candidate_bo c s0 s : aux s0 = aux s -> sres_bo c s (no_candidate c s0).
Proof.
  intros A. assert (T : bo_total s0 = bo_total s /\ bo_excl s0 = bo_excl s) by (unfold aux in A; injection A as _ T E _ _; auto).
  destruct T as [T E]. unfold no_candidate, sres_bo. destruct (any_pending s0); [|cbn; split; [auto|intros _; discriminate]].
  destruct (backoff c BoBusy s0) as [s' e| |e] eqn:B.
  - apply backoff_ok in B as (sl & -> & M & R & _). rewrite T, E in R. cbn [bo_ok]. split; [auto|intros _; discriminate].
  - apply backoff_refused in B. split; [exact I|]. apply (why_aux c s0 s _ _ A). intros (_ & _ & D & _) _. split; auto.
    destruct B as [B|B]; [congruence|now exists BoBusy].
  - apply backoff_kill in B as (sl & -> & M & R & NC). rewrite T, E in R. cbn [bo_ok]. split; [auto|].
    apply (why_aux c s0 s _ _ A). intros C. contradiction.
Qed.

Lemma send_tail_bo c s s3 t (pre_evs : list event) :
  aux s3 = aux s -> n_backoffs pre_evs = 0%nat -> tot pre_evs = 0 -> exc pre_evs = 0 -> (forall T E, bo_ok c T E pre_evs) ->
  sres_bo c s (if pending (rep_at s3 t) then
                 match backoff c BoBusy (upd_rep t (set_pending false) s3) with
                 | BoOk s4 e => SSent s4 t (e :: pre_evs)
                 | BoRefused => SDone s3 RError []
                 | BoKilled e => SDone s3 RError [e]
                 end
               else SSent s3 t pre_evs).
Proof.
  intros A _ T0 E0 OK.
  assert (TE : bo_total s3 = bo_total s /\ bo_excl s3 = bo_excl s /\ rearmed_v s3 = rearmed_v s) by (unfold aux in A; injection A as V T E _ _; auto).
  destruct TE as (T & E & V).
  set (sp := upd_rep t (set_pending false) s3). assert (Ap : aux sp = aux s) by exact A.
  destruct (pending _).
  - destruct (backoff c BoBusy sp) as [s4 e| |e] eqn:B.
    + apply backoff_ok in B as (sl & -> & M & R & T4 & E4 & V4 & C4). cbn in R, T4, E4, V4. rewrite T, E in *.
      assert (C5 : calm c s -> calm c s4) by (intros C; apply C4; apply (calm_aux c s sp Ap C)).
      unfold sres_bo, adv. cbn [tot exc bo_ok excluded]. rewrite T0, E0. repeat split; auto; try lia; try congruence; try calmtac.
    + apply backoff_refused in B. split; [exact I|]. apply (why_aux c sp s _ _ Ap). intros (_ & _ & D & _) _. split; auto.
      destruct B as [B|B]; [congruence|now exists BoBusy].
    + apply backoff_kill in B as (sl & -> & M & R & NC). cbn in R. rewrite T, E in R. cbn [sres_bo bo_ok]. split; [auto|].
      apply (why_aux c sp s _ _ Ap). intros C. contradiction.
  - pose proof (calm_aux c s s3 A) as C5. unfold sres_bo, adv. rewrite T0, E0. repeat split; auto; try lia; try calmtac.
Qed.

Lemma sel_phase_bo c s : sres_bo c s (sel_phase c s).
Proof.
  unfold sel_phase. cbv zeta.
  match goal with |- context [match ?e with Some _ => _ | None => _ end] => destruct e as [s0|] eqn:G end;
    [|apply no_candidate_bo; reflexivity].
  assert (E0 : aux s0 = aux s).
  { destruct (inv_retry s); [inversion G; reflexivity|]. destruct (valid s); inversion G; reflexivity. }
  set (s1 := set_proxy None (set_sel_attempts (sat3 (S (sel_attempts s0))) (unset_if c s0))).
  assert (E1 : aux s1 = aux s) by (subst s1; unfold unset_if; destruct (_ && _); exact E0).
  destruct (if rt_eqb (rt s1) RTLeader && c_fw c then proxy_next s1 else PxLeaderOnly) as [|p|].
  - destruct (if rt_eqb (rt s1) RTLeader then next_leader c s1 else next_mixed c s1) as [tg s2] eqn:N.
    assert (E2 : aux s2 = aux s).
    { rewrite <- E1. destruct (rt_eqb (rt s1) RTLeader); [eapply next_leader_aux | eapply next_mixed_aux]; eassumption. }
    destruct tg as [t|]; [|apply no_candidate_bo; exact E2].
    destruct (stale _); [apply no_candidate_bo; exact E2|].
    pose proof (send_tail_bo c s (upd_rep t (fun r => set_attempts (S (attempts r)) r) s2) t [] E2 eq_refl eq_refl eq_refl (fun _ _ => I)) as L.
    destruct (pending _); [destruct (backoff _ _ _) as [? ?| |?]|]; exact L.
  - destruct (stale _ || stale _); [apply no_candidate_bo; exact E1|].
    match goal with |- context [pending (rep_at ?s3 ?t)] =>
      pose proof (send_tail_bo c s s3 t [EProxy p] E1 eq_refl eq_refl eq_refl (fun _ _ => I)) as L end.
    destruct (pending _); [destruct (backoff _ _ _) as [? ?| |?]|]; exact L.
  - apply no_candidate_bo. exact E1.
Qed.

Lemma slack_upd L k (v : list nat) : (nth k v L < L -> slack L (upd k S v) + 1 = slack L v)%nat.
Proof.
  revert k; induction v as [|x v IH]; intros [|k] H; cbn [nth upd slack] in *; try lia.
  specialize (IH k H). lia.
Qed.

Definition hres_bo (fixed : bool) (c : cfg) (s : state) (h : hres) : Prop :=
  match h with
  | HRetry s' evs => adv c s s' evs /\ (fixed = true -> (unarmed c s' + n_rearms evs <= unarmed c s)%nat)
  | HDone _ r evs => bo_ok c (bo_total s) (bo_excl s) evs /\ n_rearms evs = 0%nat /\ why c s r evs
  end.

Lemma wb_bo fixed c k s0 r0 s : aux s0 = aux s -> hres_bo fixed c s (with_backoff c k s0 r0).
Proof.
  intros A. assert (TE : bo_total s0 = bo_total s /\ bo_excl s0 = bo_excl s /\ rearmed_v s0 = rearmed_v s) by (unfold aux in A; injection A as V T E _ _; auto).
  destruct TE as (T & E & V). pose proof (with_backoff_bo c k s0 r0) as W.
  destruct (with_backoff c k s0 r0) as [s' evs|sd r evs]; unfold hres_bo.
  - destruct W as ((A1 & A2 & A3 & A4) & W2 & W3).
    assert (C5 : calm c s -> calm c s') by (intros C; apply A4; apply (calm_aux c s s0 A C)).
    unfold adv, unarmed. rewrite T, E in *. rewrite W2, V, W3. repeat split; auto; try lia; try calmtac.
  - destruct W as (-> & W1 & W2 & W3). rewrite T, E in W1. split; [auto|]. split; [auto|]. apply (why_aux c s0 s _ _ A W3).
Qed.

Lemma retry_bo fixed c s s' : aux s' = aux s -> hres_bo fixed c s (HRetry s' []).
Proof. intros H. split; [now apply adv_nil|]. unfold unarmed, aux in *. injection H as -> _ _ _ _. cbn. lia. Qed.

Lemma done_bo fixed c s sd r : r <> RError -> hres_bo fixed c s (HDone sd r []).
Proof. intros H. split; [exact I|]. split; [reflexivity|]. intros _ R. contradiction. Qed.

Lemma hint_bo fixed c s t k lim : (fixed = true -> lim = Some (length (c_reps c) - 1)%nat) ->
  hres_bo fixed c s (on_not_leader_hint lim s t k).
Proof.
  intros HL. unfold on_not_leader_hint. cbv zeta.
  set (s1 := upd_rep t (set_f_notleader true) s).
  destruct (length (reps s1) <=? k)%nat; [apply retry_bo; reflexivity|].
  destruct (negb _); [apply retry_bo; reflexivity|].
  set (w := exhausted (rep_at s1 k) max_replica_attempt && match lim with Some m => (nth k (rearmed_v s1) m <? m)%nat | None => true end).
  match goal with |- hres_bo _ _ _ (HRetry ?x ?e) => set (s4 := x) end.
  assert (T4 : bo_total s4 = bo_total s /\ bo_excl s4 = bo_excl s /\ dead s4 = dead s /\ killed s4 = killed s /\
               rearmed_v s4 = (match lim with Some _ => if w then upd k S (rearmed_v s) else rearmed_v s | None => rearmed_v s end)).
  { subst s4. destruct (leader_candidate _); destruct lim; try destruct w; auto 6. }
  destruct T4 as (T4 & E4 & D4 & K4 & V4). split.
  - unfold adv, calm. rewrite T4, E4, D4, K4. destruct w; cbn; repeat split; auto; try lia; tauto.
  - intros F. pose proof (HL F) as HF. subst lim. unfold unarmed. rewrite V4.
    destruct w eqn:W; unfold n_rearms; cbn [filter is_rearm length]; [|lia].
    subst w. apply andb_prop in W as [_ W]. apply Nat.ltb_lt in W. change (rearmed_v s1) with (rearmed_v s) in W.
    pose proof (slack_upd _ k (rearmed_v s) W). lia.
Qed.

Lemma btr_bo fixed c k s i : hres_bo fixed c s (backoff_then_region_err c k s i).
Proof.
  unfold backoff_then_region_err. set (s0 := set_valid false s). assert (A : aux s0 = aux s) by reflexivity.
  destruct (backoff c k s0) as [s' e| |e] eqn:B; unfold hres_bo.
  - apply backoff_ok in B as (sl & -> & M & R & _). change (bo_total s0) with (bo_total s) in R. change (bo_excl s0) with (bo_excl s) in R.
    cbn [bo_ok]. split; [auto|]. split; [reflexivity|]. intros _ X. discriminate.
  - apply backoff_refused in B. split; [exact I|]. split; [reflexivity|]. intros (_ & _ & D & _) _. split; auto.
    destruct B as [B|B]; [change (dead s0) with (dead s) in B; congruence|now exists k].
  - apply backoff_kill in B as (sl & -> & M & R & NC). change (bo_total s0) with (bo_total s) in R. change (bo_excl s0) with (bo_excl s) in R.
    cbn [bo_ok]. split; [auto|]. split; [reflexivity|]. intros C. exfalso. apply NC. apply (calm_aux c s s0 A C).
Qed.

Lemma handle_bo fixed c s t o i : hres_bo fixed c s (handle fixed c s t o i).
Proof.
  assert (DD : dead s = true -> hres_bo fixed c s (HDone s RError [])).
  { intros D. split; [exact I|]. split; [reflexivity|]. intros (_ & _ & D' & _) _. congruence. }
  destruct o; cbn [handle]; try (apply hint_bo; intros ->; reflexivity); try apply btr_bo; unfold on_send_fail, on_busy; cbv zeta;
    try (apply retry_bo; reflexivity); try (apply done_bo; discriminate);
    try (apply wb_bo; reflexivity).
  all: ifs; try (apply DD; first [assumption|reflexivity]); try (apply retry_bo; reflexivity); try (apply done_bo; discriminate);
    try (apply wb_bo; reflexivity).
Qed.

Lemma pre_bo fixed c s prev i : hres_bo fixed c s (pre fixed c s prev i).
Proof.
  unfold pre. destruct (c_interruptible c && killed s && _) eqn:K.
  - split; [exact I|]. split; [reflexivity|]. intros (_ & _ & _ & K') _. rewrite K' in K. rewrite andb_false_r in K. discriminate.
  - destruct prev as [[t o]|]; [apply handle_bo|apply retry_bo; reflexivity].
Qed.

Lemma after_send_aux s t : aux (after_send s t) = aux s.
Proof. unfold after_send. destruct (rt_eqb _ _); reflexivity. Qed.

Lemma raise_att_calm c i s : calm c s -> calm c (raise_att c i s).
Proof. intros (C1 & C2 & C3 & C4). unfold calm, raise_att. cbn. rewrite C1, C2, C3, C4. auto. Qed.

Definition loop_ok (fixed : bool) (c : cfg) (s : state) (x : list event * result) : Prop :=
  bo_ok c (bo_total s) (bo_excl s) (fst x) /\
  (calm c s -> snd x = RError -> spent c (bo_total s + tot (fst x)) (bo_excl s + exc (fst x))) /\
  (fixed = true -> (n_rearms (fst x) <= unarmed c s)%nat).

Lemma loop_bo fixed c script : forall s prev i, loop_ok fixed c s (loop_gen fixed c script s prev i).
Proof.
  induction script as [|o rest IH]; intros s prev i; rewrite loop_unfold;
    pose proof (pre_bo fixed c s prev i) as P; destruct (pre fixed c s prev i) as [s1 evs1|sd r evs1].
  2,4: (destruct P as (P1 & P2 & P3); unfold loop_ok; cbn [fst snd]; repeat split; auto;
        [intros C R; destruct (P3 C R) as [-> S]; cbn [tot exc]; now rewrite !N.add_0_r | intros; lia]).
  all: destruct P as ((T1 & E1 & OK1 & C1) & U1); cbv zeta;
    set (s1' := if (0 <? i)%nat then set_q_retry true s1 else s1);
    assert (A1 : aux s1' = aux s1) by (subst s1'; destruct (0 <? i)%nat; reflexivity);
    pose proof (sel_phase_bo c s1') as Q; pose proof (sel_phase_spec c s1') as Q0;
    pose proof (calm_aux c s1 s1' A1) as CA;
    destruct (sel_phase c s1') as [s2 t evs2|sd2 r evs2]; unfold aux in A1; injection A1 as V1 T1' E1' _ _; unfold sres_bo in Q.
  (* the selector gave up *)
  2,4: (destruct Q as [Q1 Q2]; destruct Q0 as [_ Q0]; rewrite T1', E1', T1, E1 in *; unfold loop_ok; cbn [fst snd];
        rewrite tot_app, exc_app, n_rearms_app, Q0; repeat split;
        [apply bo_ok_app; assumption
        | intros C R; destruct (Q2 (CA (C1 C)) R) as [-> S]; cbn [tot exc]; rewrite !N.add_0_r; rewrite <- T1', <- E1'; exact S
        | intros O; specialize (U1 O); unfold unarmed in *; lia]).
  (* an attempt is sent *)
  all: destruct Q as ((T2 & E2 & OK2 & C2) & V2); destruct Q0 as (_ & _ & R2);
    rewrite T1', E1', T1, E1 in *;
    assert (BASE : forall evs r, loop_ok fixed c (raise_att c i (after_send s2 t)) (evs, r) ->
              loop_ok fixed c s (evs1 ++ evs2 ++ EAtt t (q_rr s2) (q_stale s2) (q_retry s2) :: evs, r)).
  1,3: (intros evs r (L1 & L2 & L3); cbn [fst snd] in *; pose proof (after_send_aux s2 t) as A3;
        pose proof (calm_aux c s2 (after_send s2 t) A3) as CA3; unfold aux in A3; injection A3 as V3 T3 E3 _ _;
        change (bo_total (raise_att c i (after_send s2 t))) with (bo_total (after_send s2 t)) in *;
        change (bo_excl (raise_att c i (after_send s2 t))) with (bo_excl (after_send s2 t)) in *;
        rewrite T3, E3, T2, E2 in *; unfold loop_ok; cbn [fst snd];
        rewrite !tot_app, !exc_app, !n_rearms_app, R2; cbn [tot exc];
        repeat split;
        [ apply bo_ok_app; [assumption|]; apply bo_ok_app; [assumption|]; cbn [bo_ok]; rewrite ?N.add_assoc in *; exact L1
        | intros C R; specialize (L2 (raise_att_calm c i _ (CA3 (C2 (CA (C1 C))))) R); rewrite ?N.add_assoc in *; exact L2
        | intros O; specialize (U1 O); specialize (L3 O); unfold unarmed in *;
          change (rearmed_v (raise_att c i (after_send s2 t))) with (rearmed_v (after_send s2 t)) in L3;
          rewrite V3, V2, V1 in L3; rewrite n_rearms_cons_att; lia ]).
  - assert (DD : calm c s -> dead s2 = false) by (intros C; apply (C2 (CA (C1 C)))).
    apply (BASE [] (if dead s2 then RError else RSuccess i)). unfold loop_ok. cbn. repeat split; auto; try (intros; lia).
    intros C R. apply raise_att_calm with (i := i) in C. destruct (dead s2) eqn:D; [|discriminate].
    exfalso. unfold calm, raise_att in C. cbn in C. destruct C as (_ & _ & C & _).
    change (dead (after_send s2 t)) with (dead s2) in C || (pose proof (after_send_aux s2 t) as X; unfold aux in X; injection X as _ _ _ X _; rewrite X in C).
    rewrite D in C. discriminate.
  - assert (SUCC : loop_ok fixed c s (evs1 ++ evs2 ++ [EAtt t (q_rr s2) (q_stale s2) (q_retry s2)], if dead s2 then RError else RSuccess i)).
    { apply (BASE [] (if dead s2 then RError else RSuccess i)). unfold loop_ok. cbn. repeat split; auto; try (intros; lia).
      intros C R. destruct (dead s2) eqn:D; [|discriminate].
      exfalso. destruct C as (_ & _ & C & _). unfold raise_att in C. cbn in C.
      pose proof (after_send_aux s2 t) as X; unfold aux in X; injection X as _ _ _ X _. rewrite X, D in C. discriminate. }
    specialize (IH (raise_att c i (after_send s2 t)) (Some (t, if dead s2 then ORpcErr Reachable else o)) (S i)).
    destruct o; try exact SUCC;
      (destruct (loop_gen fixed c rest (raise_att c i (after_send s2 t)) _ (S i)) as [evs r]; apply BASE; exact IH).
Qed.

(* ---- pure consequences of [bo_ok]: how many back-offs a budget admits ---- *)
Definition is_bo_excl (e : event) : bool := match e with EBo k _ => excluded k | _ => false end.
Definition is_bo_plain (e : event) : bool := match e with EBo k _ => negb (excluded k) | _ => false end.
Definition n_plain (evs : list event) : N := N.of_nat (length (filter is_bo_plain evs)).
Definition n_excl (evs : list event) : N := N.of_nat (length (filter is_bo_excl evs)).

Lemma min_step_plain k : excluded k = false -> 2 <= min_step k.
Proof. destruct k; cbn; intros; try discriminate; lia. Qed.

Lemma bo_ok_plain c evs : 0 < c_max_sleep c -> forall T E, E <= T -> bo_ok c T E evs ->
  n_plain evs = 0 \/ 2 * n_plain evs + (T - E) <= c_max_sleep c + 1.
Proof.
  intros M. unfold n_plain. induction evs as [|e evs IH]; intros T E LE H; [now left|].
  destruct e as [| k sl | |]; cbn [bo_ok filter is_bo_plain] in *; try (apply IH in H; [exact H|exact LE]).
  destruct H as (R & S & H). unfold refuse in R.
  apply andb_false_iff in R as [R|R]; [apply N.ltb_ge in R; lia|]. apply orb_false_iff in R as [R _]. apply N.leb_gt in R.
  destruct (excluded k) eqn:X; rewrite ?X in *; cbn [negb length]; (apply IH in H; [|lia]).
  - destruct H as [H|H]; [now left|right]. lia.
  - right. pose proof (min_step_plain k X). rewrite Nat2N.inj_succ. destruct H as [H|H]; lia.
Qed.

Lemma bo_ok_excl c evs : 0 < c_max_sleep c -> forall T E, bo_ok c T E evs ->
  n_excl evs = 0 \/ 1000 * n_excl evs + E <= N.max excl_limit (c_max_sleep c) + 999.
Proof.
  intros M. unfold n_excl. induction evs as [|e evs IH]; intros T E H; [now left|].
  destruct e as [| k sl | |]; cbn [bo_ok filter is_bo_excl] in *; try (apply IH in H; exact H).
  destruct H as (R & S & H). apply IH in H. unfold refuse in R.
  apply andb_false_iff in R as [R|R]; [apply N.ltb_ge in R; lia|]. apply orb_false_iff in R as [_ R].
  destruct (excluded k) eqn:X; rewrite ?X in *; cbn [length].
  - right. destruct k; try discriminate. cbn [min_step andb] in *. rewrite Nat2N.inj_succ.
    apply andb_false_iff in R. assert (E < N.max excl_limit (c_max_sleep c)) by (destruct R as [R|R]; apply N.leb_gt in R; lia).
    destruct H as [H|H]; lia.
  - rewrite N.add_0_r in H. exact H.
Qed.

(* ---- run level ---- *)
Lemma slack_zeros {A} L (l : list A) : slack L (map (fun _ => 0%nat) l) = (length l * L)%nat.
Proof. induction l; cbn [map slack length]; lia. Qed.
Lemma unarmed_init c rands sleeps : unarmed c (init_state c rands sleeps) = (length (c_reps c) * (length (c_reps c) - 1))%nat.
Proof. unfold unarmed, init_state. cbn [rearmed_v]. apply slack_zeros. Qed.

Lemma run_ok fixed c script rands sleeps :
  validation_refuses c = false -> loop_ok fixed c (init_state c rands sleeps) (run_gen fixed c script rands sleeps).
Proof. intros V. unfold run_gen. rewrite V. apply loop_bo. Qed.

Lemma spent_explicit c T E : spent c T E ->
  0 < c_max_sleep c /\ (c_max_sleep c <= T - E \/ (excl_limit <= E /\ c_max_sleep c <= E)).
Proof.
  intros [k R]. unfold refuse in R. apply andb_prop in R as [R1 R2]. apply N.ltb_lt in R1. split; [assumption|].
  apply orb_prop in R2 as [R2|R2]; [left; now apply N.leb_le|right].
  apply andb_prop in R2 as [R2 R3]. apply andb_prop in R2 as [_ R2]. split; now apply N.leb_le.
Qed.

Lemma run_error fixed c script rands sleeps evs : run_gen fixed c script rands sleeps = (evs, RError) ->
  (c_read c = true /\ c_val c = false /\ c_store_tp c <> TpTiDB) \/
  (0 < c_max_sleep c /\ (c_max_sleep c <= tot evs - exc evs \/ (excl_limit <= exc evs /\ c_max_sleep c <= exc evs))) \/
  c_cancel c <> TNever \/ c_kill c <> TNever.
Proof.
  intros H. destruct (validation_refuses c) eqn:V.
  - left. unfold validation_refuses in V. apply andb_prop in V as [V V3]. apply andb_prop in V as [V1 V2].
    apply negb_true_iff in V2. apply negb_true_iff in V3. repeat split; auto. intros E; rewrite E in V3; discriminate.
  - right. destruct (c_cancel c) eqn:CC; try (right; left; discriminate). destruct (c_kill c) eqn:CK; try (right; right; discriminate).
    left. pose proof (run_ok fixed c script rands sleeps V) as (_ & L & _). rewrite H in L. cbn [fst snd] in L.
    assert (C : calm c (init_state c rands sleeps)) by (unfold calm, init_state; cbn; rewrite CC, CK; auto).
    specialize (L C eq_refl). apply spent_explicit in L. exact L.
Qed.

Lemma run_backoffs fixed c script rands sleeps : 0 < c_max_sleep c ->
  2 * n_plain (fst (run_gen fixed c script rands sleeps)) <= c_max_sleep c + 1 /\
  1000 * n_excl (fst (run_gen fixed c script rands sleeps)) <= N.max excl_limit (c_max_sleep c) + 999.
Proof.
  intros M. destruct (validation_refuses c) eqn:V.
  - unfold run_gen. rewrite V. cbn. lia.
  - pose proof (run_ok fixed c script rands sleeps V) as (L & _ & _). cbn [init_state bo_total bo_excl] in L.
    pose proof (bo_ok_plain c _ M 0 0 ltac:(lia) L). pose proof (bo_ok_excl c _ M 0 0 L). lia.
Qed.

Lemma run_rearms_fixed c script rands sleeps :
  (n_rearms (fst (run_gen true c script rands sleeps)) <= length (c_reps c) * (length (c_reps c) - 1))%nat.
Proof.
  destruct (validation_refuses c) eqn:V.
  - unfold run_gen. rewrite V. cbn. lia.
  - pose proof (run_ok true c script rands sleeps V) as (_ & _ & L). rewrite unarmed_init in L. auto.
Qed.
