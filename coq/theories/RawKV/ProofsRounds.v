(* RawKV/ProofsRounds.v — batch get / put / delete under any schedule of groupings, sub-batches,
   region errors, regroupings and dropped batches; independence of the batch boundaries;
   DeleteRange interrupted by a failing request. *)
From Coq Require Import Sorting.Sorted.
From Verif Require Import RawKV.Model RawKV.ProofsStore RawKV.ProofsLoops RawKV.ProofsBatch.

(* ---------------------------------------------------------------- batch get *)
Lemma bget_rounds_pairs st : forall sched keys ps,
  bget_rounds st sched keys = Some (ps, true) ->
  (forall k v, In k keys -> srv_get st k = Some v -> In (k, v) ps) /\
  (forall k v, In (k, v) ps -> srv_get st k = Some v).
Proof.
  induction sched as [|r sched IH]; intros keys ps; cbn [bget_rounds].
  - destruct keys; [|discriminate]. intros [= <-]. split; [intros k v []|intros k v []].
  - destruct keys as [|k0 keys0]; [intros [= <-]; split; [intros k v []|intros k v []]|].
    set (keys := k0 :: keys0).
    destruct (any_dropped key_chunks r keys) eqn:Hd; [discriminate|].
    destruct (bget_rounds st sched (bounced_keys key_chunks r keys)) as [[rest ok]|] eqn:E; [|discriminate].
    intros [= <- ->]. destruct (IH _ _ E) as [I1 I2]. split.
    + intros k v Hk Hv. apply (served_or_bounced key_chunks r keys k key_chunks_ok Hd) in Hk.
      apply in_app_iff. destruct Hk as [Hk|Hk].
      * left. apply srv_batch_get_In. tauto.
      * right. apply I1; assumption.
    + intros k v Hp. apply in_app_iff in Hp. destruct Hp as [Hp|Hp]; [|apply I2; exact Hp].
      apply srv_batch_get_In in Hp. tauto.
Qed.

(* the keyToValue lookup over ANY collection of answered batches that covers the request *)
Lemma assemble_any st keys (ps : list (list N * list N)) :
  (forall k v, In k keys -> srv_get st k = Some v -> In (k, v) ps) ->
  (forall k v, In (k, v) ps -> srv_get st k = Some v) ->
  assemble keys ps = map (srv_get st) keys.
Proof.
  intros I1 I2. unfold assemble. apply map_ext_in. intros k Hk.
  apply find_last_pfun; [exact I2|]. intros v Hv. apply I1; assumption.
Qed.

Theorem batch_get_aligned st sched keys res :
  batch_get st sched keys = Some (Some res) -> res = map (srv_get st) keys.
Proof.
  unfold batch_get. destruct (bget_rounds st sched keys) as [[ps [|]]|] eqn:E; try discriminate.
  intros [= <-]. destruct (bget_rounds_pairs _ _ _ _ E) as [I1 I2]. apply assemble_any; assumption.
Qed.

(* batch boundaries do not matter: any list of key batches whose union covers the request *)
Theorem batch_get_any_partition st keys (bs : list (list key)) :
  (forall k, In k keys -> In k (concat bs)) ->
  assemble keys (flat_map (srv_batch_get st) bs) = map (srv_get st) keys.
Proof.
  intros Hcov. apply assemble_any.
  - intros k v Hk Hv. apply in_flat_map. specialize (Hcov k Hk). apply in_concat in Hcov.
    destruct Hcov as [b [Hb Hkb]]. exists b. split; [exact Hb|]. apply srv_batch_get_In. tauto.
  - intros k v Hp. apply in_flat_map in Hp. destruct Hp as [b [_ Hp]]. apply srv_batch_get_In in Hp. tauto.
Qed.

Lemma bget_rounds_final st : forall sched L keys, bget_rounds st (sched ++ [(L, all_served)]) keys <> None.
Proof.
  induction sched as [|r sched IH]; intros L keys; cbn [app bget_rounds].
  - destruct keys; [discriminate|]. rewrite dropped_all_served, bounced_all_served. cbn [bget_rounds]. discriminate.
  - destruct keys; [discriminate|]. destruct (any_dropped key_chunks r (l :: keys)); [discriminate|].
    destruct (bget_rounds st (sched ++ [(L, all_served)]) (bounced_keys key_chunks r (l :: keys))) as [[? ?]|] eqn:E; [discriminate|].
    exfalso. exact (IH L _ E).
Qed.

(* ---------------------------------------------------------------- batch put *)
Lemma round_pairs_find kvs ks k :
  find_last (round_pairs kvs ks) k = if existsb (bytes_eqb k) ks then find_last kvs k else None.
Proof.
  destruct (existsb (bytes_eqb k) ks) eqn:Ex.
  - apply existsb_exists in Ex. destruct Ex as [k' [Hin Ek]]. breflect; subst k'.
    destruct (find_last kvs k) as [e|] eqn:Ef.
    + pose proof (find_last_functional (fun x => match find_last kvs x with Some e' => e' | None => e end) (round_pairs kvs ks) k) as H.
      cbv beta in H. rewrite Ef in H. apply H.
      * intros p Hp. unfold round_pairs in Hp. apply in_flat_map in Hp. destruct Hp as [x [_ Hx]].
        destruct (find_last kvs x) eqn:Efx; [|destruct Hx]. destruct Hx as [<-|[]]. cbn. rewrite Efx. reflexivity.
      * exists e. unfold round_pairs. apply in_flat_map. exists k. split; [exact Hin|]. rewrite Ef. left; reflexivity.
    + apply find_last_none. intros p Hp. unfold round_pairs in Hp. apply in_flat_map in Hp. destruct Hp as [x [_ Hx]].
      destruct (find_last kvs x) eqn:Efx; [|destruct Hx]. destruct Hx as [<-|[]]. cbn. intros ->. congruence.
  - apply find_last_none. intros p Hp. unfold round_pairs in Hp. apply in_flat_map in Hp. destruct Hp as [x [Hin Hx]].
    destruct (find_last kvs x) eqn:Efx; [|destruct Hx]. destruct Hx as [<-|[]]. cbn. intros ->.
    assert (existsb (bytes_eqb k) ks = true) by (apply existsb_exists; exists k; split; [exact Hin|apply eqb_true; reflexivity]).
    congruence.
Qed.

Lemma not_in_existsb ks k : ~ In k ks -> existsb (bytes_eqb k) ks = false.
Proof. intros H. destruct (existsb (bytes_eqb k) ks) eqn:E; [|reflexivity]. apply existsb_In in E. contradiction. Qed.

(* one round applied to the store *)
Lemma round_put_get kvs st ks k :
  st_get (srv_batch_put st (round_pairs kvs ks)) k =
  if existsb (bytes_eqb k) ks then overlay kvs st k else st_get st k.
Proof.
  rewrite st_get_batch_put, round_pairs_find. unfold overlay.
  destruct (existsb (bytes_eqb k) ks); reflexivity.
Qed.

(* complete call (no batch dropped): every requested key carries its last value *)
Lemma bput_rounds_get kvs : forall sched st keys st',
  bput_rounds st sched kvs keys = Some (st', true) ->
  forall k, st_get st' k = if existsb (bytes_eqb k) keys then overlay kvs st k else st_get st k.
Proof.
  induction sched as [|r sched IH]; intros st keys st'; cbn [bput_rounds].
  - destruct keys; [|discriminate]. intros [= <-] k. reflexivity.
  - destruct keys as [|k0 keys0]; [intros [= <-] k; reflexivity|].
    set (keys := k0 :: keys0). set (ch := put_chunks kvs).
    destruct (bput_rounds (srv_batch_put st (round_pairs kvs (served_keys ch r keys))) sched kvs (bounced_keys ch r keys))
      as [[st2 ok]|] eqn:E; [|discriminate].
    intros [= <- Hok] k. apply andb_true_iff in Hok. destruct Hok as [-> Hd]. apply negb_true_iff in Hd.
    rewrite (IH _ _ _ E k). unfold overlay at 1. rewrite !round_put_get.
    pose proof (served_or_bounced ch r keys k (put_chunks_ok kvs) Hd) as P.
    destruct (existsb (bytes_eqb k) keys) eqn:Ek.
    + apply existsb_In in Ek. apply P in Ek.
      destruct (existsb (bytes_eqb k) (bounced_keys ch r keys)) eqn:Eb.
      * unfold overlay. destruct (find_last kvs k); [reflexivity|].
        destruct (existsb (bytes_eqb k) (served_keys ch r keys)); reflexivity.
      * assert (Es : existsb (bytes_eqb k) (served_keys ch r keys) = true).
        { apply existsb_In. destruct Ek as [Ek|Ek]; [exact Ek|]. apply existsb_In in Ek. congruence. }
        rewrite Es. reflexivity.
    + assert (Hn : ~ In k keys) by (intros H; apply existsb_In in H; congruence).
      rewrite (not_in_existsb (bounced_keys ch r keys) k) by (intros H; apply Hn, P; right; exact H).
      rewrite (not_in_existsb (served_keys ch r keys) k) by (intros H; apply Hn, P; left; exact H).
      reflexivity.
Qed.

(* any call, complete or not: a key either keeps its entry or carries ITS last value of this call;
   keys outside the request are never touched *)
Lemma bput_rounds_partial_failure kvs : forall sched st keys st' ok,
  bput_rounds st sched kvs keys = Some (st', ok) ->
  forall k, st_get st' k = st_get st k \/
            (In k keys /\ exists e, find_last kvs k = Some e /\ st_get st' k = Some e).
Proof.
  induction sched as [|r sched IH]; intros st keys st' ok; cbn [bput_rounds].
  - destruct keys; [|discriminate]. intros [= <- _] k. left; reflexivity.
  - destruct keys as [|k0 keys0]; [intros [= <- _] k; left; reflexivity|].
    set (keys := k0 :: keys0). set (ch := put_chunks kvs).
    destruct (bput_rounds (srv_batch_put st (round_pairs kvs (served_keys ch r keys))) sched kvs (bounced_keys ch r keys))
      as [[st2 ok2]|] eqn:E; [|discriminate].
    intros [= <- _] k. destruct (IH _ _ _ _ E k) as [H|[Hin [e [He H]]]].
    + rewrite H, round_put_get. destruct (existsb (bytes_eqb k) (served_keys ch r keys)) eqn:Es; [|left; reflexivity].
      unfold overlay. destruct (find_last kvs k) as [e|] eqn:Ef; [|left; reflexivity].
      right. split; [|exists e; split; reflexivity].
      apply existsb_In in Es. eapply keys_of_sub; [apply put_chunks_ok|exact Es].
    + right. split; [|exists e; split; assumption].
      eapply keys_of_sub; [apply put_chunks_ok|exact Hin].
Qed.

Lemma bput_rounds_sorted kvs : forall sched st keys st' ok,
  sorted st -> bput_rounds st sched kvs keys = Some (st', ok) -> sorted st'.
Proof.
  induction sched as [|r sched IH]; intros st keys st' ok Hs; cbn [bput_rounds].
  - destruct keys; [|discriminate]. intros [= <- _]. exact Hs.
  - destruct keys as [|k0 keys0]; [intros [= <- _]; exact Hs|].
    destruct (bput_rounds _ sched kvs _) as [[st2 ok2]|] eqn:E; [|discriminate]. intros [= <- _].
    eapply IH; [|exact E]. apply sorted_batch_put; exact Hs.
Qed.

Theorem batch_put_last_wins st sched kvs st' :
  sorted st -> batch_put st sched kvs = Some (st', true) ->
  st' = srv_batch_put st kvs /\ forall k, st_get st' k = overlay kvs st k.
Proof.
  intros Hs H. unfold batch_put in H.
  assert (G : forall k, st_get st' k = overlay kvs st k).
  { intros k. rewrite (bput_rounds_get _ _ _ _ _ H k).
    destruct (existsb (bytes_eqb k) (map fst kvs)) eqn:E; [reflexivity|].
    unfold overlay. rewrite find_last_none; [reflexivity|].
    intros p Hp Heq. subst k. assert (Hi : In (fst p) (map fst kvs)) by (apply in_map; exact Hp).
    apply existsb_In in Hi. congruence. }
  split; [|exact G].
  apply sorted_ext.
  - eapply bput_rounds_sorted; eassumption.
  - apply sorted_batch_put; exact Hs.
  - intros k. rewrite G, st_get_batch_put. reflexivity.
Qed.

(* batch boundaries and batch order do not matter: ANY list of batches whose pairs are map
   values and that together mention every requested key gives the sequential result *)
Theorem batch_put_any_partition st kvs (bs : list (list (list N * entry))) :
  sorted st ->
  (forall p, In p (concat bs) -> find_last kvs (fst p) = Some (snd p)) ->
  (forall k, In k (map fst kvs) -> exists e, In (k, e) (concat bs)) ->
  fold_left srv_batch_put bs st = srv_batch_put st kvs.
Proof.
  intros Hs Hc Hcov.
  assert (E : forall s, fold_left srv_batch_put bs s = srv_batch_put s (concat bs)).
  { clear. induction bs as [|b bs IH]; intros s; cbn [fold_left concat]; [reflexivity|].
    rewrite IH, srv_batch_put_app. reflexivity. }
  rewrite E. apply sorted_ext; [apply sorted_batch_put; exact Hs|apply sorted_batch_put; exact Hs|].
  intros k. rewrite !st_get_batch_put.
  replace (find_last (concat bs) k) with (find_last kvs k); [reflexivity|]. symmetry.
  apply find_last_pfun.
  - intros k' v Hp. exact (Hc (k', v) Hp).
  - intros v Hv. assert (Hk : In k (map fst kvs)).
    { apply find_last_In in Hv. change k with (fst (k, v)). apply in_map; exact Hv. }
    destruct (Hcov k Hk) as [e He]. specialize (Hc _ He). cbn in Hc. congruence.
Qed.

Lemma bput_rounds_final kvs : forall sched L st keys, bput_rounds st (sched ++ [(L, all_served)]) kvs keys <> None.
Proof.
  induction sched as [|r sched IH]; intros L st keys; cbn [app bput_rounds].
  - destruct keys; [discriminate|]. rewrite bounced_all_served. cbn [bput_rounds]. discriminate.
  - destruct keys; [discriminate|].
    destruct (bput_rounds _ (sched ++ [(L, all_served)]) kvs _) as [[? ?]|] eqn:E; [discriminate|].
    exfalso. exact (IH L _ _ E).
Qed.

(* ---------------------------------------------------------------- batch delete *)
Lemma bdel_rounds_get : forall sched st keys st',
  bdel_rounds st sched keys = Some (st', true) ->
  forall k, st_get st' k = if existsb (bytes_eqb k) keys then None else st_get st k.
Proof.
  induction sched as [|r sched IH]; intros st keys st'; cbn [bdel_rounds].
  - destruct keys; [|discriminate]. intros [= <-] k. reflexivity.
  - destruct keys as [|k0 keys0]; [intros [= <-] k; reflexivity|].
    set (keys := k0 :: keys0). set (ch := key_chunks).
    destruct (bdel_rounds (srv_batch_delete st (served_keys ch r keys)) sched (bounced_keys ch r keys))
      as [[st2 ok]|] eqn:E; [|discriminate].
    intros [= <- Hok] k. apply andb_true_iff in Hok. destruct Hok as [-> Hd]. apply negb_true_iff in Hd.
    rewrite (IH _ _ _ E k), st_get_batch_delete.
    pose proof (served_or_bounced ch r keys k key_chunks_ok Hd) as P.
    destruct (existsb (bytes_eqb k) keys) eqn:Ek.
    + apply existsb_In in Ek. apply P in Ek.
      destruct (existsb (bytes_eqb k) (bounced_keys ch r keys)) eqn:Eb; [reflexivity|].
      assert (Es : existsb (bytes_eqb k) (served_keys ch r keys) = true).
      { apply existsb_In. destruct Ek as [Ek|Ek]; [exact Ek|]. apply existsb_In in Ek. congruence. }
      rewrite Es. reflexivity.
    + assert (Hn : ~ In k keys) by (intros H; apply existsb_In in H; congruence).
      rewrite (not_in_existsb (bounced_keys ch r keys) k) by (intros H; apply Hn, P; right; exact H).
      rewrite (not_in_existsb (served_keys ch r keys) k) by (intros H; apply Hn, P; left; exact H).
      reflexivity.
Qed.
Lemma bdel_rounds_partial_failure : forall sched st keys st' ok,
  bdel_rounds st sched keys = Some (st', ok) ->
  forall k, st_get st' k = st_get st k \/ (In k keys /\ st_get st' k = None).
Proof.
  induction sched as [|r sched IH]; intros st keys st' ok; cbn [bdel_rounds].
  - destruct keys; [|discriminate]. intros [= <- _] k. left; reflexivity.
  - destruct keys as [|k0 keys0]; [intros [= <- _] k; left; reflexivity|].
    set (keys := k0 :: keys0). set (ch := key_chunks).
    destruct (bdel_rounds (srv_batch_delete st (served_keys ch r keys)) sched (bounced_keys ch r keys))
      as [[st2 ok2]|] eqn:E; [|discriminate].
    intros [= <- _] k. destruct (IH _ _ _ _ E k) as [H|[Hin H]].
    + rewrite H, st_get_batch_delete. destruct (existsb (bytes_eqb k) (served_keys ch r keys)) eqn:Es; [|left; reflexivity].
      right. split; [|reflexivity]. apply existsb_In in Es. eapply keys_of_sub; [apply key_chunks_ok|exact Es].
    + right. split; [|exact H]. eapply keys_of_sub; [apply key_chunks_ok|exact Hin].
Qed.
Lemma bdel_rounds_sorted : forall sched st keys st' ok,
  sorted st -> bdel_rounds st sched keys = Some (st', ok) -> sorted st'.
Proof.
  induction sched as [|r sched IH]; intros st keys st' ok Hs; cbn [bdel_rounds].
  - destruct keys; [|discriminate]. intros [= <- _]. exact Hs.
  - destruct keys as [|k0 keys0]; [intros [= <- _]; exact Hs|].
    destruct (bdel_rounds _ sched _) as [[st2 ok2]|] eqn:E; [|discriminate]. intros [= <- _].
    eapply IH; [|exact E]. apply sorted_batch_delete; exact Hs.
Qed.
Theorem batch_delete_correct st sched keys st' :
  sorted st -> bdel_rounds st sched keys = Some (st', true) ->
  st' = srv_batch_delete st keys /\
  forall k, st_get st' k = if existsb (bytes_eqb k) keys then None else st_get st k.
Proof.
  intros Hs H. split; [|apply bdel_rounds_get with (sched := sched); exact H].
  apply sorted_ext.
  - eapply bdel_rounds_sorted; eassumption.
  - apply sorted_batch_delete; exact Hs.
  - intros k. rewrite (bdel_rounds_get _ _ _ _ H k), st_get_batch_delete. reflexivity.
Qed.
Theorem batch_delete_any_partition st keys (bs : list (list key)) :
  sorted st -> (forall k, In k (concat bs) <-> In k keys) ->
  fold_left srv_batch_delete bs st = srv_batch_delete st keys.
Proof.
  intros Hs Hm.
  assert (E : forall s, fold_left srv_batch_delete bs s = srv_batch_delete s (concat bs)).
  { clear. induction bs as [|b bs IH]; intros s; cbn [fold_left concat]; [reflexivity|].
    rewrite IH. unfold srv_batch_delete. rewrite fold_left_app. reflexivity. }
  rewrite E. apply sorted_ext; [apply sorted_batch_delete; exact Hs|apply sorted_batch_delete; exact Hs|].
  intros k. rewrite !st_get_batch_delete.
  destruct (existsb (bytes_eqb k) keys) eqn:E1.
  - apply existsb_In, Hm, existsb_In in E1. rewrite E1. reflexivity.
  - rewrite not_in_existsb; [reflexivity|]. intros H. apply Hm, existsb_In in H. congruence.
Qed.

(* ---------------------------------------------------------------- DeleteRange with a failing request *)
Lemma drange_run_all_some e : forall Ls st cur,
  drange_run st (map Some Ls) cur e =
  match drange_loop st Ls cur e with Some s => DrDone s | None => DrFuel end.
Proof.
  induction Ls as [|L Ls IH]; intros st cur; cbn [map drange_run drange_loop].
  - destruct (below cur e); reflexivity.
  - destruct (below cur e); [|reflexivity].
    destruct (is_nil (cut_end (loc_hi L cur) e)); [reflexivity|apply IH].
Qed.

(* when the i-th request fails, exactly the keys k with s <= k < cursor have been deleted (cursor is a
   real bound here: an empty cursor means nothing was deleted), and the cursor does not pass e *)
Definition in_co (s c : key) (p : list N * entry) : bool := lex_leb s (fst p) && lex_ltb (fst p) c.
Lemma drange_run_failed e : forall Ls st cur st' c,
  drange_run st Ls cur e = DrFailed st' c ->
  st' = filter (fun p => negb (in_co cur c p)) st /\ ~ klt c cur /\ (c = cur \/ e = [] \/ ~ klt e c).
Proof.
  induction Ls as [|[L|] Ls IH]; intros st cur st' c; cbn [drange_run].
  - destruct (below cur e); discriminate.
  - destruct (below cur e) eqn:C; [|discriminate].
    set (hi := loc_hi L cur).
    destruct (is_nil (cut_end hi e)) eqn:En; [discriminate|]. intros Hrec.
    apply IH in Hrec. destruct Hrec as [-> [H1 H3]].
    assert (Hae : klt cur (cut_end hi e) /\ (e = [] \/ ~ klt e (cut_end hi e))).
    { unfold below in C. apply orb_true_iff in C.
      destruct (loc_hi_spec L cur) as [Hhi|[Hhi _]]; fold hi in Hhi;
        destruct (cut_end_cases hi e) as [[Hce [Hc1 Hc2]]|[Hce [Hc|[Hc1 Hc2]]]]; rewrite Hce in *; breflect.
      - congruence.
      - destruct C as [C|C]; breflect; [congruence|]. split; [exact C|right; KF.order].
      - destruct C as [C|C]; breflect; [congruence|]. split; [exact C|right; KF.order].
      - split; [exact Hhi|]. destruct Hc2 as [Hc2|Hc2]; [left; exact Hc2|right; KF.order].
      - exfalso. rewrite Hc in Hhi. exact (nil_min _ Hhi).
      - destruct C as [C|C]; breflect; [congruence|]. split; [exact C|right; KF.order]. }
    destruct Hae as [Hlt Hle]. breflect.
    split; [|split; [KF.order|]].
    + unfold srv_delete_range. rewrite filter_filter'. apply filter_ext. intros [k v].
      unfold in_co, in_range, below; cbn [fst]. ksolve.
    + right. destruct H3 as [->|[H3|H3]]; [exact Hle|left; exact H3|right; exact H3].
  - destruct (below cur e) eqn:C; [|discriminate]. intros [= <- <-].
    split; [|split; [KF.order|left; reflexivity]].
    symmetry. apply filter_all_true. intros [k v] _. unfold in_co; cbn [fst]. ksolve.
Qed.
