(* RawKV/ProofsFam.v — column families are independent ordered maps; the API v2 checksum is the checksum
   of the prefixed pairs (digest and byte count include the keyspace prefix). *)
From Coq Require Import Sorting.Sorted.
From Verif Require Import RawKV.Model RawKV.ProofsStore RawKV.ProofsLoops RawKV.ProofsBatch RawKV.Sequence.

(* ---------------------------------------------------------------- API v2 checksum *)
Definition prefix_store (pfx : list N) (st : store) : store := map (fun p => (pfx ++ fst p, snd p)) st.

Lemma klt_prefix pfx a b : klt (pfx ++ a) (pfx ++ b) <-> klt a b.
Proof. unfold KeyOT.lt, lex_lt. rewrite lex_cmp_app_same. tauto. Qed.

Lemma sorted_prefix pfx st : sorted st -> sorted (prefix_store pfx st).
Proof.
  unfold sorted. induction 1 as [|p r Hs IH Hf]; cbn [prefix_store map]; [constructor|].
  constructor; [exact IH|]. apply Forall_forall. intros q Hq. apply in_map_iff in Hq. destruct Hq as [q0 [<- Hq0]].
  rewrite Forall_forall in Hf. specialize (Hf q0 Hq0). unfold keys_lt in *; cbn [fst]. apply klt_prefix; exact Hf.
Qed.

Lemma filter_map_comm {A B} (g : A -> B) (f : B -> bool) l : filter f (map g l) = map g (filter (fun x => f (g x)) l).
Proof.
  induction l as [|x r IH]; cbn [map filter]; [reflexivity|]. destruct (f (g x)); cbn [map]; rewrite IH; reflexivity.
Qed.

Lemma range_prefix pfx st s e : e <> [] ->
  range (prefix_store pfx st) (pfx ++ s) (pfx ++ e) = prefix_store pfx (range st s e).
Proof.
  intros He. unfold range, prefix_store. rewrite filter_map_comm. f_equal. apply filter_ext. intros [k v].
  unfold in_range, below, lex_leb, lex_ltb; cbn [fst]. rewrite !lex_cmp_app_same.
  assert (E1 : is_nil (pfx ++ e) = false) by (destruct pfx, e; cbn; congruence).
  assert (E2 : is_nil e = false) by (destruct e; cbn; congruence).
  rewrite E1, E2. reflexivity.
Qed.

Theorem cksum_v2 digest pfx st Ls s e res :
  sorted st -> e <> [] ->
  cksum digest (prefix_store pfx st) Ls (pfx ++ s) (pfx ++ e) = Some res ->
  res = cks_list digest (prefix_store pfx (range st s e)).
Proof.
  intros Hs He H. apply (cksum_correct digest _ _ _ _ _ (sorted_prefix pfx st Hs)) in H.
  rewrite range_prefix in H by exact He. exact H.
Qed.

(* ---------------------------------------------------------------- column families *)
Section Fam.
  Variable digest : list N -> list N -> N.
  Definition fams := list N -> store.
  Definition fam_set (f : fams) (c : list N) (s : store) : fams := fun c' => if bytes_eqb c' c then s else f c'.

  (* every call names its family (the per-call option, or the client's field read when the call starts) *)
  Fixpoint run_tagged (f : fams) (tops : list (list N * op)) : option (list result * fams) :=
    match tops with
    | [] => Some ([], f)
    | (c, o) :: r =>
        match run_op digest (f c) o with
        | None => None
        | Some (x, s1) => match run_tagged (fam_set f c s1) r with
                          | None => None
                          | Some (xs, f') => Some (x :: xs, f')
                          end
        end
    end.
  Definition calls_of (c : list N) (tops : list (list N * op)) : list op :=
    map snd (filter (fun t => bytes_eqb (fst t) c) tops).

  (* what family c holds in the end is what ITS calls alone produce on one ordered map *)
  Theorem families_independent : forall tops f rs f',
    (forall c, sorted (f c)) -> run_tagged f tops = Some (rs, f') ->
    forall c, f' c = snd (spec_ops digest (f c) (calls_of c tops)) /\ sorted (f' c).
  Proof.
    induction tops as [|[c0 o] r IH]; intros f rs f' Hs; cbn [run_tagged].
    - intros [= <- <-] c. cbn. split; [reflexivity|apply Hs].
    - destruct (run_op digest (f c0) o) as [[x s1]|] eqn:E1; [|discriminate].
      destruct (run_tagged (fam_set f c0 s1) r) as [[xs f1]|] eqn:E2; [|discriminate]. intros [= <- <-] c.
      destruct (run_op_spec digest _ _ _ _ (Hs c0) E1) as [H1 Hs1].
      assert (Hs' : forall c', sorted (fam_set f c0 s1 c')).
      { intros c'. unfold fam_set. destruct (bytes_eqb c' c0); [exact Hs1|apply Hs]. }
      destruct (IH _ _ _ Hs' E2 c) as [I1 I2]. split; [|exact I2].
      rewrite I1. unfold calls_of; cbn [filter fst]. unfold fam_set.
      destruct (bytes_eqb c0 c) eqn:E.
      + breflect. subst c0. rewrite (proj2 (eqb_true c c) eq_refl). cbn [map snd spec_ops].
        rewrite <- H1. destruct (spec_ops digest s1 (map snd (filter (fun t => bytes_eqb (fst t) c) r))). reflexivity.
      + assert (E' : bytes_eqb c c0 = false) by (apply eqb_false; breflect; congruence). rewrite E'. reflexivity.
  Qed.
End Fam.
