(* RawKV/ProofsTop.v — the statements of Props.v, proved from the lemmas of the Proofs files. *)
From Verif Require Import RawKV.Model RawKV.ProofsStore RawKV.ProofsLoops RawKV.ProofsBatch.

Lemma filter_length_le {A} (f : A -> bool) l : (length (filter f l) <= length l)%nat.
Proof. induction l as [|x r IH]; cbn [filter length]; [lia|]. destruct (f x); cbn [length]; lia. Qed.

Lemma c11_get_put_delete : forall st k v ttl k',
  sorted st ->
  sorted (srv_put st k v ttl) /\ sorted (st_del st k) /\
  srv_get (srv_put st k v ttl) k' = (if bytes_eqb k' k then Some v else srv_get st k') /\
  srv_get (st_del st k) k' = (if bytes_eqb k' k then None else srv_get st k').
Proof.
  intros st k v ttl k' Hs. unfold srv_put, srv_get.
  split; [apply sorted_put; exact Hs|]. split; [apply sorted_del; exact Hs|].
  rewrite st_get_put, st_get_del. split; destruct (bytes_eqb k' k); reflexivity.
Qed.

Lemma c11_scan : forall st Ls s e limit res,
  sorted st -> scan st Ls s e limit = Some res ->
  res = map kv (firstn limit (range st s e)).
Proof. exact scan_correct. Qed.

Lemma c11_scan_terminates : forall st S Ls s e limit,
  (forall L, In L Ls -> incl L S) -> (length S < length Ls)%nat ->
  scan st Ls s e limit <> None.
Proof.
  intros st S Ls s e limit Hin Hlen. apply scan_loop_terminates with (S := S); [exact Hin|].
  unfold above. pose proof (filter_length_le (fun s0 => lex_ltb s s0) S). lia.
Qed.

Lemma c11_reverse_scan : forall st Ls s e limit res,
  sorted st -> s <> [] -> rscan st Ls s e limit = Some res ->
  res = map kv (firstn limit (rev (range st e s))).
Proof. exact rscan_correct. Qed.

Lemma c11_reverse_scan_terminates : forall st S Ls s e limit,
  s <> [] -> (forall L, In L Ls -> incl L S) -> (length S < length Ls)%nat ->
  rscan st Ls s e limit <> None.
Proof.
  intros st S Ls s e limit Hs Hin Hlen. apply rscan_loop_terminates with (S := S); [exact Hs|exact Hin|].
  unfold below_count. pose proof (filter_length_le (fun s0 => lex_ltb s0 s) S). lia.
Qed.

Lemma c11_reverse_scan_from_end : forall st Ls e limit, rscan st Ls [] e limit = Some [].
Proof. exact rscan_from_end_empty. Qed.

Lemma c11_delete_range : forall st Ls s e st',
  sorted st -> drange_loop st Ls s e = Some st' ->
  sorted st' /\
  st' = filter (fun p => negb (in_range s e p)) st /\
  forall k, st_get st' k = if lex_leb s k && below k e then None else st_get st k.
Proof.
  intros st Ls s e st' Hs H. apply drange_loop_correct in H. subst st'.
  split; [apply sorted_filter; exact Hs|]. split; [reflexivity|]. intros k. apply delete_range_get.
Qed.

Lemma c11_delete_range_terminates : forall st S Ls s e,
  (forall L, In L Ls -> incl L S) -> (length S < length Ls)%nat ->
  drange_loop st Ls s e <> None.
Proof.
  intros st S Ls s e Hin Hlen. apply drange_loop_terminates with (S := S); [exact Hin|].
  unfold above. pose proof (filter_length_le (fun s0 => lex_ltb s s0) S). lia.
Qed.

Lemma c11_checksum : forall digest st Ls s e res,
  sorted st -> cksum digest st Ls s e = Some res ->
  res = cks_list digest (range st s e).
Proof. exact cksum_correct. Qed.

Lemma c11_checksum_cut_independent : forall digest st Ls1 Ls2 s e r1 r2,
  sorted st -> cksum digest st Ls1 s e = Some r1 -> cksum digest st Ls2 s e = Some r2 -> r1 = r2.
Proof.
  intros digest st Ls1 Ls2 s e r1 r2 Hs H1 H2.
  rewrite (cksum_correct digest _ _ _ _ _ Hs H1), (cksum_correct digest _ _ _ _ _ Hs H2). reflexivity.
Qed.

Lemma c11_checksum_union : forall digest st a b c,
  sorted st -> b <> [] -> ~ klt b a -> (c = [] \/ ~ klt c b) ->
  cks_list digest (range st a c) = cks_add (cks_list digest (range st a b)) (cks_list digest (range st b c)).
Proof.
  intros digest st a b c Hs Hb Hab Hbc. rewrite (range_split st a b c) by assumption. apply cks_list_app.
Qed.

Lemma c11_checksum_terminates : forall digest st S Ls s e,
  (forall L, In L Ls -> incl L S) -> (length S < length Ls)%nat ->
  cksum digest st Ls s e <> None.
Proof.
  intros digest st S Ls s e Hin Hlen. apply cksum_loop_terminates with (S := S); [exact Hin|].
  unfold above. pose proof (filter_length_le (fun s0 => lex_ltb s s0) S). lia.
Qed.

Lemma c11_batch_get_aligned : forall st sched keys res,
  batch_get st sched keys = Some res ->
  res = map (srv_get st) keys /\ length res = length keys.
Proof.
  intros st sched keys res H. apply batch_get_aligned in H. subst res. split; [reflexivity|apply map_length].
Qed.

Lemma c11_batch_put_last_wins : forall st sched kvs st',
  sorted st -> batch_put st sched kvs = Some st' ->
  sorted st' /\ st' = fold_left (fun s p => st_put s (fst p) (snd p)) kvs st /\
  forall k, st_get st' k = match find_last kvs k with Some e => Some e | None => st_get st k end.
Proof.
  intros st sched kvs st' Hs H. destruct (batch_put_last_wins _ _ _ _ Hs H) as [E G].
  split; [subst st'; apply sorted_batch_put; exact Hs|]. split; [exact E|exact G].
Qed.

Lemma c11_batch_delete : forall st sched keys st',
  sorted st -> bdel_rounds st sched keys = Some st' ->
  sorted st' /\ st' = fold_left st_del keys st /\
  forall k, st_get st' k = if existsb (bytes_eqb k) keys then None else st_get st k.
Proof.
  intros st sched keys st' Hs H. destruct (batch_delete_correct _ _ _ _ Hs H) as [E G].
  split; [subst st'; apply sorted_batch_delete; exact Hs|]. split; [exact E|exact G].
Qed.

Lemma c11_batch_terminates : forall st sched L keys kvs,
  batch_get st (sched ++ [(L, fun _ => true)]) keys <> None /\
  batch_put st (sched ++ [(L, fun _ => true)]) kvs <> None.
Proof.
  intros st sched L keys kvs. split.
  - unfold batch_get. destruct (bget_rounds st (sched ++ [(L, fun _ => true)]) keys) eqn:E; [discriminate|].
    exfalso. exact (bget_rounds_final st sched L keys E).
  - apply bput_rounds_final.
Qed.

Lemma c11_cas : forall st k prev nv,
  srv_cas st k prev nv = spec_cas st k prev nv /\
  (sorted st -> sorted (snd (srv_cas st k prev nv))).
Proof.
  intros st k prev nv. split; [apply cas_correct|].
  intros Hs. rewrite cas_correct. unfold spec_cas.
  destruct (opt_bytes_eqb (srv_get st k) prev); cbn [snd]; [apply sorted_put; exact Hs|exact Hs].
Qed.

