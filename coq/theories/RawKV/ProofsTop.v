(* RawKV/ProofsTop.v — the statements of Props.v, proved from the lemmas of the Proofs files. *)
From Verif Require Import RawKV.Model RawKV.ProofsStore RawKV.ProofsLoops RawKV.ProofsBatch RawKV.ProofsRounds RawKV.ProofsCas RawKV.ProofsWire.

Lemma filter_length_le {A} (f : A -> bool) l : (length (filter f l) <= length l)%nat.
Proof. induction l as [|x r IH]; cbn [filter length]; [lia|]. destruct (f x); cbn [length]; lia. Qed.

Lemma c11_get_put_delete : forall st k v ttl k',
  sorted st ->
  sorted (srv_put st k v ttl) /\ sorted (st_del st k) /\
  srv_get (srv_put st k v ttl) k' = (if bytes_eqb k' k then Some v else srv_get st k') /\
  srv_get (st_del st k) k' = (if bytes_eqb k' k then None else srv_get st k').
Proof.
  intros st k v ttl k' Hs. unfold srv_put, srv_get.
  split; [apply sorted_put; exact Hs|]. split; [apply sorted_del; exact Hs|].
  rewrite st_get_put, st_get_del. split; destruct (bytes_eqb k' k); reflexivity.
Qed.

Lemma c11_scan : forall st Ls s e limit res,
  sorted st -> scan st Ls s e limit = Some res ->
  res = map kv (firstn limit (range st s e)).
Proof. exact scan_correct. Qed.

Lemma c11_scan_terminates : forall st S Ls s e limit,
  (forall L, In L Ls -> incl L S) -> (length S < length Ls)%nat ->
  scan st Ls s e limit <> None.
Proof.
  intros st S Ls s e limit Hin Hlen. apply scan_loop_terminates with (S := S); [exact Hin|].
  unfold above. pose proof (filter_length_le (fun s0 => lex_ltb s s0) S). lia.
Qed.

Lemma c11_reverse_scan : forall st Ls s e limit res,
  sorted st -> s <> [] -> rscan st Ls s e limit = Some res ->
  res = map kv (firstn limit (rev (range st e s))).
Proof. exact rscan_correct. Qed.

Lemma c11_reverse_scan_terminates : forall st S Ls s e limit,
  s <> [] -> (forall L, In L Ls -> incl L S) -> (length S < length Ls)%nat ->
  rscan st Ls s e limit <> None.
Proof.
  intros st S Ls s e limit Hs Hin Hlen. apply rscan_loop_terminates with (S := S); [exact Hs|exact Hin|].
  unfold below_count. pose proof (filter_length_le (fun s0 => lex_ltb s0 s) S). lia.
Qed.

Lemma c11_reverse_scan_from_end : forall st Ls e limit, rscan st Ls [] e limit = Some [].
Proof. exact rscan_from_end_empty. Qed.

Lemma c11_delete_range : forall st Ls s e st',
  sorted st -> drange_loop st Ls s e = Some st' ->
  sorted st' /\
  st' = filter (fun p => negb (in_range s e p)) st /\
  forall k, st_get st' k = if lex_leb s k && below k e then None else st_get st k.
Proof.
  intros st Ls s e st' Hs H. apply drange_loop_correct in H. subst st'.
  split; [apply sorted_filter; exact Hs|]. split; [reflexivity|]. intros k. apply delete_range_get.
Qed.

Lemma c11_delete_range_terminates : forall st S Ls s e,
  (forall L, In L Ls -> incl L S) -> (length S < length Ls)%nat ->
  drange_loop st Ls s e <> None.
Proof.
  intros st S Ls s e Hin Hlen. apply drange_loop_terminates with (S := S); [exact Hin|].
  unfold above. pose proof (filter_length_le (fun s0 => lex_ltb s s0) S). lia.
Qed.

Lemma c11_checksum : forall digest st Ls s e res,
  sorted st -> cksum digest st Ls s e = Some res ->
  res = cks_list digest (range st s e).
Proof. exact cksum_correct. Qed.

Lemma c11_checksum_cut_independent : forall digest st Ls1 Ls2 s e r1 r2,
  sorted st -> cksum digest st Ls1 s e = Some r1 -> cksum digest st Ls2 s e = Some r2 -> r1 = r2.
Proof.
  intros digest st Ls1 Ls2 s e r1 r2 Hs H1 H2.
  rewrite (cksum_correct digest _ _ _ _ _ Hs H1), (cksum_correct digest _ _ _ _ _ Hs H2). reflexivity.
Qed.

Lemma c11_checksum_union : forall digest st a b c,
  sorted st -> b <> [] -> ~ klt b a -> (c = [] \/ ~ klt c b) ->
  cks_list digest (range st a c) = cks_add (cks_list digest (range st a b)) (cks_list digest (range st b c)).
Proof.
  intros digest st a b c Hs Hb Hab Hbc. rewrite (range_split st a b c) by assumption. apply cks_list_app.
Qed.

Lemma c11_checksum_terminates : forall digest st S Ls s e,
  (forall L, In L Ls -> incl L S) -> (length S < length Ls)%nat ->
  cksum digest st Ls s e <> None.
Proof.
  intros digest st S Ls s e Hin Hlen. apply cksum_loop_terminates with (S := S); [exact Hin|].
  unfold above. pose proof (filter_length_le (fun s0 => lex_ltb s s0) S). lia.
Qed.

Lemma c11_batch_get_aligned : forall st sched keys res,
  batch_get st sched keys = Some (Some res) ->
  res = map (srv_get st) keys /\ length res = length keys.
Proof.
  intros st sched keys res H. apply batch_get_aligned in H. subst res. split; [reflexivity|apply map_length].
Qed.

Lemma c11_batch_put_last_wins : forall st sched kvs st',
  sorted st -> batch_put st sched kvs = Some (st', true) ->
  sorted st' /\ st' = fold_left (fun s p => st_put s (fst p) (snd p)) kvs st /\
  forall k, st_get st' k = match find_last kvs k with Some e => Some e | None => st_get st k end.
Proof.
  intros st sched kvs st' Hs H. destruct (batch_put_last_wins _ _ _ _ Hs H) as [E G].
  split; [subst st'; apply sorted_batch_put; exact Hs|]. split; [exact E|exact G].
Qed.

Lemma c11_batch_put_partial_failure : forall st sched kvs st' ok,
  sorted st -> batch_put st sched kvs = Some (st', ok) ->
  sorted st' /\
  forall k, st_get st' k = st_get st k \/
            (In k (map fst kvs) /\ exists e, find_last kvs k = Some e /\ st_get st' k = Some e).
Proof.
  intros st sched kvs st' ok Hs H. split; [eapply bput_rounds_sorted; eassumption|].
  intros k. exact (bput_rounds_partial_failure _ _ _ _ _ _ H k).
Qed.

Lemma c11_batch_delete : forall st sched keys st',
  sorted st -> bdel_rounds st sched keys = Some (st', true) ->
  sorted st' /\ st' = fold_left st_del keys st /\
  forall k, st_get st' k = if existsb (bytes_eqb k) keys then None else st_get st k.
Proof.
  intros st sched keys st' Hs H. destruct (batch_delete_correct _ _ _ _ Hs H) as [E G].
  split; [subst st'; apply sorted_batch_delete; exact Hs|]. split; [exact E|exact G].
Qed.

Lemma c11_batch_delete_partial_failure : forall st sched keys st' ok,
  sorted st -> bdel_rounds st sched keys = Some (st', ok) ->
  sorted st' /\ forall k, st_get st' k = st_get st k \/ (In k keys /\ st_get st' k = None).
Proof.
  intros st sched keys st' ok Hs H. split; [eapply bdel_rounds_sorted; eassumption|].
  intros k. exact (bdel_rounds_partial_failure _ _ _ _ _ H k).
Qed.

Lemma c11_batch_boundaries_independent :
  (forall ks, concat (key_chunks ks) = ks) /\
  (forall kvs ks, concat (put_chunks kvs ks) = ks) /\
  (forall st keys bs, (forall k, In k keys -> In k (concat bs)) ->
     assemble keys (flat_map (srv_batch_get st) bs) = map (srv_get st) keys) /\
  (forall st kvs bs, sorted st ->
     (forall p, In p (concat bs) -> find_last kvs (fst p) = Some (snd p)) ->
     (forall k, In k (map fst kvs) -> exists e, In (k, e) (concat bs)) ->
     fold_left srv_batch_put bs st = fold_left (fun s p => st_put s (fst p) (snd p)) kvs st) /\
  (forall st keys bs, sorted st -> (forall k, In k (concat bs) <-> In k keys) ->
     fold_left srv_batch_delete bs st = fold_left st_del keys st).
Proof.
  split; [exact key_chunks_ok|]. split; [exact put_chunks_ok|].
  split; [exact batch_get_any_partition|]. split; [exact batch_put_any_partition|exact batch_delete_any_partition].
Qed.

Lemma c11_batch_terminates : forall st sched L keys kvs,
  batch_get st (sched ++ [(L, all_served)]) keys <> None /\
  batch_put st (sched ++ [(L, all_served)]) kvs <> None.
Proof.
  intros st sched L keys kvs. split.
  - unfold batch_get. destruct (bget_rounds st (sched ++ [(L, all_served)]) keys) as [[ps [|]]|] eqn:E; try discriminate.
    exfalso. exact (bget_rounds_final st sched L keys E).
  - apply bput_rounds_final.
Qed.

Lemma c11_delete_range_interrupted : forall st Ls s e st' c,
  sorted st -> drange_run st Ls s e = DrFailed st' c ->
  sorted st' /\ ~ klt c s /\ (c = s \/ e = [] \/ ~ klt e c) /\
  st' = filter (fun p => negb (lex_leb s (fst p) && lex_ltb (fst p) c)) st /\
  forall k, st_get st' k = if lex_leb s k && lex_ltb k c then None else st_get st k.
Proof.
  intros st Ls s e st' c Hs H. apply drange_run_failed in H. destruct H as [-> [H1 H2]].
  split; [apply sorted_filter; exact Hs|]. split; [exact H1|]. split; [exact H2|]. split; [reflexivity|].
  intros k. unfold in_co. rewrite (st_get_filter (fun x => negb (lex_leb s x && lex_ltb x c))).
  destruct (lex_leb s k && lex_ltb k c); reflexivity.
Qed.

Lemma c11_delete_range_run_complete : forall st Ls s e,
  drange_run st (map Some Ls) s e = match drange_loop st Ls s e with Some x => DrDone x | None => DrFuel end.
Proof. intros. apply drange_run_all_some. Qed.

Lemma c11_cas : forall st k prev nv,
  srv_cas st k prev nv = spec_cas st k prev nv /\
  (sorted st -> sorted (snd (srv_cas st k prev nv))).
Proof.
  intros st k prev nv. split; [apply cas_correct|].
  intros Hs. rewrite cas_correct. unfold spec_cas.
  destruct (opt_bytes_eqb (srv_get st k) prev); cbn [snd]; [apply sorted_put; exact Hs|exact Hs].
Qed.


Lemma c11_atomic_mode : forall st k prev nv,
  client_cas false st k prev nv = None /\ client_cas true st k prev nv = Some (spec_cas st k prev nv).
Proof. intros. split; [reflexivity|]. cbn [client_cas]. rewrite cas_correct. reflexivity. Qed.

(* error path and degenerate ranges of Scan / ReverseScan / DeleteRange / Checksum: no request is sent *)
Lemma c11_scan_edge_cases :
  (forall st Ls s e limit, client_scan st Ls s e limit = None <-> max_raw_kv_scan_limit < N.of_nat limit) /\
  (forall st Ls s e limit, client_rscan st Ls s e limit = None <-> max_raw_kv_scan_limit < N.of_nat limit) /\
  (forall st Ls s e, scan st Ls s e 0 = Some [] /\ rscan st Ls s e 0 = Some []) /\
  (forall digest st Ls s e limit, e <> [] -> ~ klt s e ->
     scan st Ls s e limit = Some [] /\ drange_loop st Ls s e = Some st /\ cksum digest st Ls s e = Some cks_zero) /\
  (forall st Ls s e limit, ~ klt e s -> rscan st Ls s e limit = Some []).
Proof.
  split; [|split; [|split; [|split]]].
  - intros. unfold client_scan, scan_limit_ok. destruct (N.of_nat limit <=? max_raw_kv_scan_limit) eqn:E.
    + split; [discriminate|]. apply N.leb_le in E. lia.
    + split; [|reflexivity]. intros _. apply N.leb_gt in E. exact E.
  - intros. unfold client_rscan, scan_limit_ok. destruct (N.of_nat limit <=? max_raw_kv_scan_limit) eqn:E.
    + split; [discriminate|]. apply N.leb_le in E. lia.
    + split; [|reflexivity]. intros _. apply N.leb_gt in E. exact E.
  - intros. unfold scan, rscan. destruct Ls; cbn; split; reflexivity.
  - intros digest st Ls s e limit He Hse.
    assert (B : below s e = false).
    { unfold below. destruct (is_nil e) eqn:E1; [breflect; congruence|]. cbn [orb]. apply ltb_false. exact Hse. }
    unfold scan, cksum. destruct Ls; cbn [scan_loop drange_loop cksum_loop]; rewrite B, ?andb_false_r; repeat split; reflexivity.
  - intros st Ls s e limit Hes. unfold rscan.
    assert (B : lex_ltb e s = false) by (apply ltb_false; exact Hes).
    destruct Ls; cbn [rscan_loop]; rewrite B, andb_false_r; reflexivity.
Qed.

(* the request stream of BatchPutWithTTL *)
Lemma c11_batch_put_wire :
  (forall kvs ks, append_batches kvs ks = map (batch3_of kvs) (put_chunks kvs ks)) /\
  (forall kvs ks,
     flat_map triples (append_batches kvs ks) = map (fun k => (k, kv_of kvs k, ttl_of kvs k)) ks /\
     Forall (fun b => length (b_vals b) = length (b_keys b) /\ length (b_ttls b) = length (b_keys b)) (append_batches kvs ks)) /\
  (forall kvs bs,
     flat_map (fun ks => triples (batch3_of kvs ks)) bs = map (fun k => (k, kv_of kvs k, ttl_of kvs k)) (concat bs)).
Proof.
  split; [exact append_batches_spec|]. split; [exact append_batches_triples|exact triples_any_partition].
Qed.
