(* RawKV/Sequence.v — whole operation sequences: the client (every call with an arbitrary schedule of
   layouts, sub-batch outcomes and failing requests) against the same calls on one ordered map.
   A call that fails half-way reports an error and leaves the fold of the effects of the requests that
   were served; which requests are served is a function of the schedule alone (ProofsPlans). *)
From Verif Require Import RawKV.Model RawKV.ProofsStore RawKV.ProofsLoops RawKV.ProofsBatch RawKV.ProofsRounds
  RawKV.ProofsPlans RawKV.ProofsTop.

Section Seq.
  Variable digest : list N -> list N -> N.

  Inductive op :=
  | OPut (k v : list N) (ttl : N)
  | OGet (k : list N)
  | ODel (k : list N)
  | OBatchPut (kvs : list (list N * entry)) (sched : list round)
  | OBatchGet (keys : list (list N)) (sched : list round)
  | OBatchDel (keys : list (list N)) (sched : list round)
  | ODeleteRange (s e : list N) (Ls : list (option layout))
  | OScan (s e : list N) (limit : nat) (Ls : list layout)
  | OReverseScan (s e : list N) (limit : nat) (Ls : list layout)
  | OChecksum (s e : list N) (Ls : list layout)
  | OCas (atomic : bool) (k : list N) (prev : option (list N)) (nv : list N)
  (* a call refused before any request (BatchPut with mismatching argument lengths) or a single-request call /
     range read one of whose requests is answered by an error or without a body *)
  | ORefused.

  Inductive result :=
  | RUnit
  | RErr                       (* the call returned an error *)
  | RVal (v : option (list N))
  | RVals (vs : list (option (list N)))
  | RPairs (ps : list (list N * list N))
  | RCks (c : cks)
  | RCas (prev : option (list N)) (swapped : bool).

  (* the client on the region-partitioned store; None = a loop ran out of the supplied layouts / rounds *)
  Definition run_op (st : store) (o : op) : option (result * store) :=
    match o with
    | OPut k v ttl => Some (RUnit, srv_put st k v ttl)
    | OGet k => Some (RVal (srv_get st k), st)
    | ODel k => Some (RUnit, st_del st k)
    | OBatchPut kvs sched =>
        match batch_put st sched kvs with
        | Some (s, true) => Some (RUnit, s) | Some (s, false) => Some (RErr, s) | None => None
        end
    | OBatchGet keys sched =>
        match batch_get st sched keys with
        | Some (Some vs) => Some (RVals vs, st) | Some None => Some (RErr, st) | None => None
        end
    | OBatchDel keys sched =>
        match bdel_rounds st sched keys with
        | Some (s, true) => Some (RUnit, s) | Some (s, false) => Some (RErr, s) | None => None
        end
    | ODeleteRange s e Ls =>
        match drange_run st Ls s e with
        | DrDone s' => Some (RUnit, s') | DrFailed s' _ => Some (RErr, s') | DrFuel => None
        end
    | OScan s e limit Ls =>
        match client_scan st Ls s e limit with
        | None => Some (RErr, st) | Some None => None | Some (Some ps) => Some (RPairs ps, st)
        end
    | OReverseScan s e limit Ls =>
        match client_rscan st Ls s e limit with
        | None => Some (RErr, st) | Some None => None | Some (Some ps) => Some (RPairs ps, st)
        end
    | OChecksum s e Ls => option_map (fun c => (RCks c, st)) (cksum digest st Ls s e)
    | OCas atomic k prev nv =>
        match client_cas atomic st k prev nv with
        | None => Some (RErr, st)
        | Some (p, sw, s') => Some (RCas p sw, s')
        end
    | ORefused => Some (RErr, st)
    end.

  (* the same call on one ordered map. Complete calls: no layout, no schedule. A call in which a request
     fails: the error, and the effects of the served requests — the plan is a function of the schedule. *)
  Definition spec_op (st : store) (o : op) : result * store :=
    match o with
    | OPut k v ttl => (RUnit, st_put st k (mkEntry v ttl))
    | OGet k => (RVal (option_map e_val (st_get st k)), st)
    | ODel k => (RUnit, st_del st k)
    | OBatchPut kvs sched =>
        match bput_plan sched kvs (map fst kvs) with
        | Some (served, false) => (RErr, fold_left (fun s p => st_put s (fst p) (snd p)) served st)
        | _ => (RUnit, fold_left (fun s p => st_put s (fst p) (snd p)) kvs st)
        end
    | OBatchGet keys sched =>
        match bget_plan sched keys with
        | Some false => (RErr, st)
        | _ => (RVals (map (fun k => option_map e_val (st_get st k)) keys), st)
        end
    | OBatchDel keys sched =>
        match bdel_plan sched keys with
        | Some (served, false) => (RErr, fold_left st_del served st)
        | _ => (RUnit, fold_left st_del keys st)
        end
    | ODeleteRange s e Ls =>
        match drange_plan Ls s e with
        | Some (Some c) => (RErr, filter (fun p => negb (lex_leb s (fst p) && lex_ltb (fst p) c)) st)
        | _ => (RUnit, filter (fun p => negb (in_range s e p)) st)
        end
    | OScan s e limit _ =>
        if scan_limit_ok limit then (RPairs (map kv (firstn limit (range st s e))), st) else (RErr, st)
    | OReverseScan s e limit _ =>
        if scan_limit_ok limit
        then (RPairs (if is_nil s then [] else map kv (firstn limit (rev (range st e s)))), st)
        else (RErr, st)
    | OChecksum s e _ => (RCks (cks_list digest (range st s e)), st)
    | OCas atomic k prev nv =>
        if atomic then let '(p, sw, s') := spec_cas st k prev nv in (RCas p sw, s') else (RErr, st)
    | ORefused => (RErr, st)
    end.

  Fixpoint run_ops (st : store) (ops : list op) : option (list result * store) :=
    match ops with
    | [] => Some ([], st)
    | o :: r => match run_op st o with
                | None => None
                | Some (x, st1) => match run_ops st1 r with
                                   | None => None
                                   | Some (xs, st2) => Some (x :: xs, st2)
                                   end
                end
    end.
  Fixpoint spec_ops (st : store) (ops : list op) : list result * store :=
    match ops with
    | [] => ([], st)
    | o :: r => let '(x, st1) := spec_op st o in let '(xs, st2) := spec_ops st1 r in (x :: xs, st2)
    end.

  Lemma run_op_spec st o x st' :
    sorted st -> run_op st o = Some (x, st') -> (x, st') = spec_op st o /\ sorted st'.
  Proof.
    intros Hs. destruct o; cbn [run_op spec_op].
    - intros [= <- <-]. split; [reflexivity|apply sorted_put; exact Hs].
    - intros [= <- <-]. split; [reflexivity|exact Hs].
    - intros [= <- <-]. split; [reflexivity|apply sorted_del; exact Hs].
    - (* batch put *)
      destruct (batch_put st sched kvs) as [[s1 ok]|] eqn:E; [|discriminate].
      assert (Hs1 : sorted s1) by (eapply bput_rounds_sorted; [exact Hs|exact E]).
      pose proof E as E'. unfold batch_put in E'. rewrite bput_rounds_plan in E'.
      destruct (bput_plan sched kvs (map fst kvs)) as [[served okp]|]; [|discriminate].
      injection E' as <- <-. destruct okp.
      + intros [= <- <-]. split; [|exact Hs1].
        destruct (c11_batch_put_last_wins _ _ _ _ Hs E) as [_ [H2 _]]. rewrite H2. reflexivity.
      + intros [= <- <-]. split; [reflexivity|exact Hs1].
    - (* batch get *)
      unfold batch_get. pose proof (bget_rounds_plan st sched keys) as P.
      destruct (bget_rounds st sched keys) as [[ps ok]|] eqn:E; [|discriminate]. cbn in P. rewrite <- P.
      destruct ok.
      + intros [= <- <-]. split; [|exact Hs].
        destruct (bget_rounds_pairs _ _ _ _ E) as [I1 I2]. rewrite (assemble_any st keys ps I1 I2). reflexivity.
      + intros [= <- <-]. split; [reflexivity|exact Hs].
    - (* batch delete *)
      destruct (bdel_rounds st sched keys) as [[s1 ok]|] eqn:E; [|discriminate].
      assert (Hs1 : sorted s1) by (eapply bdel_rounds_sorted; [exact Hs|exact E]).
      pose proof E as E'. rewrite bdel_rounds_plan in E'.
      destruct (bdel_plan sched keys) as [[served okp]|]; [|discriminate].
      injection E' as <- <-. destruct okp.
      + intros [= <- <-]. split; [|exact Hs1].
        destruct (c11_batch_delete _ _ _ _ Hs E) as [_ [H2 _]]. rewrite H2. reflexivity.
      + intros [= <- <-]. split; [reflexivity|exact Hs1].
    - (* delete range *)
      pose proof (drange_run_plan e Ls st s) as P.
      destruct (drange_run st Ls s e) as [s1|s1 c|] eqn:E; [| |discriminate].
      + destruct (drange_plan Ls s e) as [[c'|]|]; try contradiction.
        intros [= <- <-]. apply drange_run_done in E. subst s1. split; [reflexivity|apply sorted_filter; exact Hs].
      + destruct (drange_plan Ls s e) as [[c'|]|]; try contradiction. subst c'.
        intros [= <- <-]. apply drange_run_failed in E. destruct E as [-> _].
        split; [reflexivity|apply sorted_filter; exact Hs].
    - unfold client_scan. destruct (scan_limit_ok limit); [|intros [= <- <-]; split; [reflexivity|exact Hs]].
      destruct (scan st Ls s e limit) as [ps|] eqn:E; [|discriminate]. intros [= <- <-].
      apply (scan_correct _ _ _ _ _ _ Hs) in E. subst ps. split; [reflexivity|exact Hs].
    - unfold client_rscan. destruct (scan_limit_ok limit); [|intros [= <- <-]; split; [reflexivity|exact Hs]].
      destruct (rscan st Ls s e limit) as [ps|] eqn:E; [|discriminate]. intros [= <- <-].
      split; [|exact Hs]. destruct (is_nil s) eqn:En.
      + apply is_nil_true in En. subst s. rewrite rscan_from_end_empty in E. injection E as <-. reflexivity.
      + apply is_nil_false in En. apply (rscan_correct _ _ _ _ _ _ Hs En) in E. subst ps. reflexivity.
    - destruct (cksum digest st Ls s e) as [c|] eqn:E; [|discriminate]. intros [= <- <-].
      apply (cksum_correct digest _ _ _ _ _ Hs) in E. subst c. split; [reflexivity|exact Hs].
    - unfold client_cas. destruct atomic; [|intros [= <- <-]; split; [reflexivity|exact Hs]].
      rewrite cas_correct. destruct (spec_cas st k prev nv) as [[p sw] s1] eqn:E. intros [= <- <-].
      split; [reflexivity|].
      unfold spec_cas in E. destruct (opt_bytes_eqb (srv_get st k) prev); injection E as _ _ <-; [apply sorted_put; exact Hs|exact Hs].
    - intros [= <- <-]. split; [reflexivity|exact Hs].
  Qed.

  (* every sequence of calls, every schedule incl. failing requests: same results, same final map *)
  Lemma run_ops_spec : forall ops st rs st',
    sorted st -> run_ops st ops = Some (rs, st') -> (rs, st') = spec_ops st ops /\ sorted st'.
  Proof.
    induction ops as [|o r IH]; intros st rs st' Hs; cbn [run_ops spec_ops].
    - intros [= <- <-]. split; [reflexivity|exact Hs].
    - destruct (run_op st o) as [[x st1]|] eqn:E1; [|discriminate].
      destruct (run_ops st1 r) as [[xs st2]|] eqn:E2; [|discriminate]. intros [= <- <-].
      destruct (run_op_spec _ _ _ _ Hs E1) as [H1 Hs1]. rewrite <- H1.
      destruct (IH _ _ _ Hs1 E2) as [H2 Hs2]. rewrite <- H2. split; [reflexivity|exact Hs2].
  Qed.
End Seq.
