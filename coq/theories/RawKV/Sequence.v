(* RawKV/Sequence.v — whole operation sequences: the client (with an arbitrary layout schedule
   attached to every call) against the same calls on one ordered map. *)
From Verif Require Import RawKV.Model RawKV.ProofsStore RawKV.ProofsLoops RawKV.ProofsBatch RawKV.ProofsRounds RawKV.ProofsTop.

Section Seq.
  Variable digest : list N -> list N -> N.

  Inductive op :=
  | OPut (k v : list N) (ttl : N)
  | OGet (k : list N)
  | ODel (k : list N)
  | OBatchPut (kvs : list (list N * entry)) (sched : list round)
  | OBatchGet (keys : list (list N)) (sched : list round)
  | OBatchDel (keys : list (list N)) (sched : list round)
  | ODeleteRange (s e : list N) (Ls : list layout)
  | OScan (s e : list N) (limit : nat) (Ls : list layout)
  | OReverseScan (s e : list N) (limit : nat) (Ls : list layout)
  | OChecksum (s e : list N) (Ls : list layout)
  | OCas (k : list N) (prev : option (list N)) (nv : list N).

  Inductive result :=
  | RUnit
  | RVal (v : option (list N))
  | RVals (vs : list (option (list N)))
  | RPairs (ps : list (list N * list N))
  | RCks (c : cks)
  | RCas (prev : option (list N)) (swapped : bool).

  (* the client on the region-partitioned store; None = a loop ran out of the supplied layouts, or a
     batch call returned an error (a dropped batch: C11_batch_put_partial says what holds then) *)
  Definition run_op (st : store) (o : op) : option (result * store) :=
    match o with
    | OPut k v ttl => Some (RUnit, srv_put st k v ttl)
    | OGet k => Some (RVal (srv_get st k), st)
    | ODel k => Some (RUnit, st_del st k)
    | OBatchPut kvs sched => match batch_put st sched kvs with Some (s, true) => Some (RUnit, s) | _ => None end
    | OBatchGet keys sched => match batch_get st sched keys with Some (Some vs) => Some (RVals vs, st) | _ => None end
    | OBatchDel keys sched => match bdel_rounds st sched keys with Some (s, true) => Some (RUnit, s) | _ => None end
    | ODeleteRange s e Ls => option_map (fun s' => (RUnit, s')) (drange_loop st Ls s e)
    | OScan s e limit Ls => option_map (fun ps => (RPairs ps, st)) (scan st Ls s e limit)
    | OReverseScan s e limit Ls => option_map (fun ps => (RPairs ps, st)) (rscan st Ls s e limit)
    | OChecksum s e Ls => option_map (fun c => (RCks c, st)) (cksum digest st Ls s e)
    | OCas k prev nv => let '(p, sw, s') := srv_cas st k prev nv in Some (RCas p sw, s')
    end.

  (* the same call on one ordered map: no layouts, no schedules *)
  Definition spec_op (st : store) (o : op) : result * store :=
    match o with
    | OPut k v ttl => (RUnit, st_put st k (mkEntry v ttl))
    | OGet k => (RVal (option_map e_val (st_get st k)), st)
    | ODel k => (RUnit, st_del st k)
    | OBatchPut kvs _ => (RUnit, fold_left (fun s p => st_put s (fst p) (snd p)) kvs st)
    | OBatchGet keys _ => (RVals (map (fun k => option_map e_val (st_get st k)) keys), st)
    | OBatchDel keys _ => (RUnit, fold_left st_del keys st)
    | ODeleteRange s e _ => (RUnit, filter (fun p => negb (in_range s e p)) st)
    | OScan s e limit _ => (RPairs (map kv (firstn limit (range st s e))), st)
    | OReverseScan s e limit _ =>
        (RPairs (if is_nil s then [] else map kv (firstn limit (rev (range st e s)))), st)
    | OChecksum s e _ => (RCks (cks_list digest (range st s e)), st)
    | OCas k prev nv => let '(p, sw, s') := spec_cas st k prev nv in (RCas p sw, s')
    end.

  Fixpoint run_ops (st : store) (ops : list op) : option (list result * store) :=
    match ops with
    | [] => Some ([], st)
    | o :: r => match run_op st o with
                | None => None
                | Some (x, st1) => match run_ops st1 r with
                                   | None => None
                                   | Some (xs, st2) => Some (x :: xs, st2)
                                   end
                end
    end.
  Fixpoint spec_ops (st : store) (ops : list op) : list result * store :=
    match ops with
    | [] => ([], st)
    | o :: r => let '(x, st1) := spec_op st o in let '(xs, st2) := spec_ops st1 r in (x :: xs, st2)
    end.

  Lemma run_op_spec st o x st' :
    sorted st -> run_op st o = Some (x, st') -> (x, st') = spec_op st o /\ sorted st'.
  Proof.
    intros Hs. destruct o; cbn [run_op spec_op].
    - intros [= <- <-]. split; [reflexivity|apply sorted_put; exact Hs].
    - intros [= <- <-]. split; [reflexivity|exact Hs].
    - intros [= <- <-]. split; [reflexivity|apply sorted_del; exact Hs].
    - destruct (batch_put st sched kvs) as [[s1 [|]]|] eqn:E; try discriminate. intros [= <- <-].
      destruct (c11_batch_put_last_wins _ _ _ _ Hs E) as [H1 [H2 _]]. subst s1. split; [reflexivity|exact H1].
    - destruct (batch_get st sched keys) as [[vs|]|] eqn:E; try discriminate. intros [= <- <-].
      apply batch_get_aligned in E. subst vs. split; [reflexivity|exact Hs].
    - destruct (bdel_rounds st sched keys) as [[s1 [|]]|] eqn:E; try discriminate. intros [= <- <-].
      destruct (c11_batch_delete _ _ _ _ Hs E) as [H1 [H2 _]]. subst s1. split; [reflexivity|exact H1].
    - destruct (drange_loop st Ls s e) as [s1|] eqn:E; [|discriminate]. intros [= <- <-].
      destruct (c11_delete_range _ _ _ _ _ Hs E) as [H1 [H2 _]]. subst s1. split; [reflexivity|exact H1].
    - destruct (scan st Ls s e limit) as [ps|] eqn:E; [|discriminate]. intros [= <- <-].
      apply (scan_correct _ _ _ _ _ _ Hs) in E. subst ps. split; [reflexivity|exact Hs].
    - destruct (rscan st Ls s e limit) as [ps|] eqn:E; [|discriminate]. intros [= <- <-].
      split; [|exact Hs]. destruct (is_nil s) eqn:En.
      + apply is_nil_true in En. subst s. rewrite rscan_from_end_empty in E. injection E as <-. reflexivity.
      + apply is_nil_false in En. apply (rscan_correct _ _ _ _ _ _ Hs En) in E. subst ps. reflexivity.
    - destruct (cksum digest st Ls s e) as [c|] eqn:E; [|discriminate]. intros [= <- <-].
      apply (cksum_correct digest _ _ _ _ _ Hs) in E. subst c. split; [reflexivity|exact Hs].
    - rewrite cas_correct. destruct (spec_cas st k prev nv) as [[p sw] s1] eqn:E. intros [= <- <-].
      split; [reflexivity|].
      unfold spec_cas in E. destruct (opt_bytes_eqb (srv_get st k) prev); injection E as _ _ <-; [apply sorted_put; exact Hs|exact Hs].
  Qed.

  (* every sequence of calls, every layout schedule: same results, same final map *)
  Lemma run_ops_spec : forall ops st rs st',
    sorted st -> run_ops st ops = Some (rs, st') -> (rs, st') = spec_ops st ops /\ sorted st'.
  Proof.
    induction ops as [|o r IH]; intros st rs st' Hs; cbn [run_ops spec_ops].
    - intros [= <- <-]. split; [reflexivity|exact Hs].
    - destruct (run_op st o) as [[x st1]|] eqn:E1; [|discriminate].
      destruct (run_ops st1 r) as [[xs st2]|] eqn:E2; [|discriminate]. intros [= <- <-].
      destruct (run_op_spec _ _ _ _ Hs E1) as [H1 Hs1]. rewrite <- H1.
      destruct (IH _ _ _ Hs1 E2) as [H2 Hs2]. rewrite <- H2. split; [reflexivity|exact Hs2].
  Qed.
End Seq.
