(* RawKV/ProofsCas.v — compare-and-swap under concurrent callers (any interleaving of atomic steps). *)
From Verif Require Import RawKV.Model RawKV.ProofsStore RawKV.ProofsBatch.

Fixpoint spec_run_cas (st : store) (steps : list cas_step) : list (option (list N) * bool) * store :=
  match steps with
  | [] => ([], st)
  | (k, prev, nv) :: r =>
      let '(p, sw, st1) := spec_cas st k prev nv in
      let '(rs, st2) := spec_run_cas st1 r in
      ((p, sw) :: rs, st2)
  end.

Lemma run_cas_spec : forall steps st, run_cas st steps = spec_run_cas st steps.
Proof.
  induction steps as [|[[k prev] nv] r IH]; intros st; cbn [run_cas spec_run_cas]; [reflexivity|].
  rewrite cas_correct. destruct (spec_cas st k prev nv) as [[p sw] st1]. rewrite IH. reflexivity.
Qed.

(* one step seen through Get *)
Lemma opt_eqb_true a b : opt_bytes_eqb a b = true <-> a = b.
Proof.
  destruct a as [x|], b as [y|]; cbn [opt_bytes_eqb]; try (split; congruence).
  rewrite eqb_true. split; congruence.
Qed.
Lemma spec_cas_get st k prev nv k' :
  let '(p, sw, st1) := spec_cas st k prev nv in
  p = srv_get st k /\ (sw = true <-> srv_get st k = prev) /\
  srv_get st1 k' = if sw && bytes_eqb k' k then Some nv else srv_get st k'.
Proof.
  unfold spec_cas. destruct (opt_bytes_eqb (srv_get st k) prev) eqn:E.
  - split; [reflexivity|]. split; [split; [intros _; apply opt_eqb_true; exact E|reflexivity]|].
    unfold srv_get at 1. rewrite st_get_put. cbn [andb]. destruct (bytes_eqb k' k); reflexivity.
  - split; [reflexivity|]. split; [|reflexivity].
    split; [discriminate|]. intros H. apply opt_eqb_true in H. congruence.
Qed.

(* number of successful steps on key k that expected pe *)
Fixpoint wins (k : key) (pe : option (list N)) (steps : list cas_step) (rs : list (option (list N) * bool)) : nat :=
  match steps, rs with
  | (k', prev, _) :: s, (_, sw) :: r =>
      (if sw && bytes_eqb k' k && opt_bytes_eqb prev pe then 1 else 0) + wins k pe s r
  | _, _ => 0
  end.

Definition never_writes (k : key) (pe : option (list N)) (steps : list cas_step) : Prop :=
  forall k' prev nv, In (k', prev, nv) steps -> k' = k -> Some nv <> pe.

Lemma no_win_after k pe : forall steps st,
  never_writes k pe steps -> srv_get st k <> pe ->
  wins k pe steps (fst (spec_run_cas st steps)) = 0%nat.
Proof.
  induction steps as [|[[k' prev] nv] r IH]; intros st Hw Hne; cbn [spec_run_cas wins]; [reflexivity|].
  pose proof (spec_cas_get st k' prev nv k) as G.
  destruct (spec_cas st k' prev nv) as [[p sw] st1]. destruct G as [_ [Gsw Gget]].
  destruct (spec_run_cas st1 r) as [rs st2] eqn:Er. cbn [fst wins].
  assert (Hw' : never_writes k pe r) by (intros a b c Hin; apply (Hw a b c); right; exact Hin).
  assert (Hne1 : srv_get st1 k <> pe).
  { rewrite Gget. destruct (sw && bytes_eqb k k') eqn:E; [|exact Hne].
    apply andb_true_iff in E. destruct E as [_ E]. breflect. subst k'.
    apply (Hw k prev nv); [left; reflexivity|reflexivity]. }
  specialize (IH st1 Hw' Hne1). rewrite Er in IH. cbn [fst] in IH. rewrite IH.
  destruct (sw && bytes_eqb k' k && opt_bytes_eqb prev pe) eqn:E; [|reflexivity].
  exfalso. apply andb_true_iff in E. destruct E as [E E3]. apply andb_true_iff in E. destruct E as [E1 E2].
  breflect. subst k'. apply opt_eqb_true in E3. subst prev. apply Hne. apply Gsw. exact E1.
Qed.

(* mutual exclusion: if no caller ever writes the expected value pe back to k (always true for
   pe = None: CAS cannot delete), at most ONE of the callers expecting pe on k succeeds, in any
   interleaving and from any store — the lock / create-if-absent idiom *)
Theorem cas_at_most_one_winner k pe : forall steps st,
  never_writes k pe steps -> (wins k pe steps (fst (run_cas st steps)) <= 1)%nat.
Proof.
  intros steps st Hw. rewrite run_cas_spec. revert st Hw.
  induction steps as [|[[k' prev] nv] r IH]; intros st Hw; cbn [spec_run_cas wins]; [lia|].
  pose proof (spec_cas_get st k' prev nv k) as G.
  destruct (spec_cas st k' prev nv) as [[p sw] st1]. destruct G as [_ [Gsw Gget]].
  destruct (spec_run_cas st1 r) as [rs st2] eqn:Er. cbn [fst wins].
  assert (Hw' : never_writes k pe r) by (intros a b c Hin; apply (Hw a b c); right; exact Hin).
  destruct (sw && bytes_eqb k' k && opt_bytes_eqb prev pe) eqn:E.
  - apply andb_true_iff in E. destruct E as [E E3]. apply andb_true_iff in E. destruct E as [E1 E2].
    breflect. subst k' sw.
    assert (Hne1 : srv_get st1 k <> pe).
    { rewrite Gget. cbn [andb]. rewrite (proj2 (eqb_true k k) eq_refl).
      apply (Hw k prev nv); [left; reflexivity|reflexivity]. }
    pose proof (no_win_after k pe r st1 Hw' Hne1) as Z. rewrite Er in Z. cbn [fst] in Z. rewrite Z. lia.
  - specialize (IH st1 Hw'). rewrite Er in IH. cbn [fst] in IH. lia.
Qed.
