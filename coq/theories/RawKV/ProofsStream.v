(* RawKV/ProofsStream.v — request streams: the result of a range call is exactly the concatenation of the
   answers to its stream; cursors move strictly; DeleteRange requests tile a prefix of the range; sub-batches
   stay inside one region and within the size limits. (The python oracles on the wire, as theorems.) *)
From Coq Require Import Sorting.Sorted.
From Verif Require Import RawKV.Model RawKV.Stream RawKV.ProofsStore RawKV.ProofsLoops RawKV.ProofsBatch.

(* ---------------------------------------------------------------- Scan *)
Lemma scan_loop_replay st e limit : forall Ls cur acc res,
  scan_loop st Ls cur e limit acc = Some res ->
  res = acc ++ scan_replay st Ls (scan_reqs st Ls cur e limit (length acc)).
Proof.
  induction Ls as [|L Ls IH]; intros cur acc res; cbn [scan_loop scan_reqs].
  - destruct ((length acc <? limit)%nat && below cur e); [discriminate|]. intros [= <-]. cbn. symmetry. apply app_nil_r.
  - destruct ((length acc <? limit)%nat && below cur e).
    2:{ intros [= <-]. cbn. symmetry. apply app_nil_r. }
    cbn [scan_replay]. destruct (is_nil (loc_hi L cur)).
    + intros [= <-]. cbn [scan_replay]. destruct Ls; rewrite app_nil_r; reflexivity.
    + intros H. apply IH in H. subst res. rewrite app_length, <- app_assoc. reflexivity.
Qed.

(* shape of the stream: end key never touched, limit = what is still missing (>= 1), starts strictly increasing,
   each start after the first is the end of the region that served the previous request *)
Fixpoint scan_stream_ok (st : store) (Ls : list layout) (reqs : list scan_req) (cur e : key) (limit got : nat) : Prop :=
  match reqs with
  | [] => True
  | (c, e', n) :: r =>
      c = cur /\ e' = e /\ n = (limit - got)%nat /\ (0 < n)%nat /\
      match Ls with
      | [] => False
      | L :: Ls' =>
          r = [] \/ (klt cur (loc_hi L cur) /\
                     scan_stream_ok st Ls' r (loc_hi L cur) e limit (got + length (srv_scan st (loc_hi L cur) cur e n)))
      end
  end.
Lemma scan_reqs_ok st e limit : forall Ls cur got, scan_stream_ok st Ls (scan_reqs st Ls cur e limit got) cur e limit got.
Proof.
  induction Ls as [|L Ls IH]; intros cur got; cbn [scan_reqs].
  - destruct ((got <? limit)%nat && below cur e); exact I.
  - destruct ((got <? limit)%nat && below cur e) eqn:C; [|exact I].
    apply andb_true_iff in C. destruct C as [C _]. apply Nat.ltb_lt in C.
    cbn [scan_stream_ok]. repeat split; try lia.
    destruct (loc_hi_spec L cur) as [Hhi|[Hhi _]].
    + rewrite Hhi. cbn [is_nil]. left; reflexivity.
    + destruct (is_nil (loc_hi L cur)); [left; reflexivity|]. right. split; [exact Hhi|apply IH].
Qed.

(* ---------------------------------------------------------------- ReverseScan *)
Lemma rscan_loop_replay st e limit : forall Ls cur acc res,
  rscan_loop st Ls cur e limit acc = Some res ->
  res = acc ++ rscan_replay st Ls (rscan_reqs st Ls cur e limit (length acc)).
Proof.
  induction Ls as [|L Ls IH]; intros cur acc res; cbn [rscan_loop rscan_reqs].
  - destruct ((length acc <? limit)%nat && lex_ltb e cur); [discriminate|]. intros [= <-]. cbn. symmetry. apply app_nil_r.
  - destruct ((length acc <? limit)%nat && lex_ltb e cur).
    2:{ intros [= <-]. cbn. symmetry. apply app_nil_r. }
    cbn [rscan_replay]. destruct (is_nil (loc_end_lo L cur)).
    + intros [= <-]. cbn [rscan_replay]. destruct Ls; rewrite app_nil_r; reflexivity.
    + intros H. apply IH in H. subst res. rewrite app_length, <- app_assoc. reflexivity.
Qed.

(* ---------------------------------------------------------------- Checksum, DeleteRange: data-free streams *)
(* DeleteRange requests tile [s, c): contiguous, each non-empty, none beyond e *)
Fixpoint tiles (reqs : list (list N * list N)) (cur : key) : Prop :=
  match reqs with
  | [] => True
  | (a, b) :: r => a = cur /\ (b = [] \/ klt a b) /\ (b = [] -> r = []) /\ tiles r b
  end.
Lemma drange_reqs_tile e : forall Ls cur, tiles (drange_reqs Ls cur e) cur.
Proof.
  induction Ls as [|[L|] Ls IH]; intros cur; cbn [drange_reqs]; destruct (below cur e) eqn:C; try exact I.
  cbn [tiles]. split; [reflexivity|].
  destruct (is_nil (cut_end (loc_hi L cur) e)) eqn:En.
  - breflect. rewrite En. split; [left; reflexivity|]. split; [reflexivity|exact I].
  - breflect. split.
    + right. unfold below in C. apply orb_true_iff in C.
      destruct (loc_hi_spec L cur) as [Hhi|[Hhi _]];
        destruct (cut_end_cases (loc_hi L cur) e) as [[Hce [Hc1 Hc2]]|[Hce [Hc|[Hc1 Hc2]]]]; rewrite Hce in *.
      * congruence.
      * destruct C as [C|C]; breflect; [congruence|exact C].
      * destruct C as [C|C]; breflect; [congruence|exact C].
      * exact Hhi.
      * exfalso. rewrite Hc in Hhi. exact (nil_min _ Hhi).
      * destruct C as [C|C]; breflect; [congruence|exact C].
    + split; [intros E; congruence|apply IH].
Qed.

(* the store a (possibly interrupted) DeleteRange leaves = the served requests applied one after the other *)
Lemma drange_run_replay e : forall Ls st cur,
  let st' := fold_left (fun s r => srv_delete_range s (fst r) (snd r)) (drange_reqs Ls cur e) st in
  match drange_run st Ls cur e with
  | DrDone s => s = st'
  | DrFailed s _ => s = st'
  | DrFuel => True
  end.
Proof.
  induction Ls as [|[L|] Ls IH]; intros st cur; cbn [drange_run drange_reqs]; destruct (below cur e); cbn [fold_left]; try reflexivity; try exact I.
  cbn [fst snd]. destruct (is_nil (cut_end (loc_hi L cur) e)); [reflexivity|]. apply IH.
Qed.

Lemma cksum_reqs_ends e : forall Ls cur, Forall (fun r => snd r = e) (cksum_reqs Ls cur e).
Proof.
  induction Ls as [|L Ls IH]; intros cur; cbn [cksum_reqs]; destruct (below cur e); try constructor; [reflexivity|].
  destruct (is_nil (loc_hi L cur)); [constructor|apply IH].
Qed.

(* ---------------------------------------------------------------- batches: one region, size limits *)
Lemma add_group_loc (P : key -> key -> Prop) g k gs :
  P g k -> Forall (fun gr => Forall (P (fst gr)) (snd gr)) gs ->
  Forall (fun gr => Forall (P (fst gr)) (snd gr)) (add_group g k gs).
Proof.
  intros Hk. induction 1 as [|[g' ks] r H1 H2 IH]; cbn [add_group].
  - constructor; [cbn; constructor; [exact Hk|constructor]|constructor].
  - destruct (bytes_eqb g g') eqn:E.
    + breflect. subst g'. constructor; [cbn in *; constructor; assumption|exact H2].
    + constructor; [exact H1|exact IH].
Qed.
Lemma group_keys_loc L keys :
  Forall (fun gr => Forall (fun k => loc_lo L k = fst gr) (snd gr)) (group_keys L keys).
Proof.
  induction keys as [|k r IH]; cbn [group_keys]; [constructor|].
  apply (add_group_loc (fun g k => loc_lo L k = g)); [reflexivity|exact IH].
Qed.

(* every sub-batch holds keys of ONE region of the grouping layout *)
Theorem sub_batches_one_region ch L keys : chunker_ok ch ->
  Forall (fun b => Forall (fun k => loc_lo L k = fst (fst b)) (snd b)) (sub_batches ch L keys).
Proof.
  intros Hch. unfold sub_batches. apply Forall_forall. intros b Hb. apply in_flat_map in Hb.
  destruct Hb as [[g ks] [Hg Hb]]. apply in_map_iff in Hb. destruct Hb as [[i c] [<- Hic]]. cbn [fst snd] in *.
  pose proof (group_keys_loc L keys) as G. rewrite Forall_forall in G. specialize (G _ Hg). cbn [fst snd] in G.
  apply Forall_forall. intros k Hk. rewrite Forall_forall in G. apply G.
  rewrite <- (Hch ks). apply in_concat. exists c. split; [|exact Hk].
  rewrite <- (indexed_snd (ch ks) 0). change c with (snd (i, c)). apply in_map. exact Hic.
Qed.

(* size limits: `full` is tested before a key is added, so whatever precedes the last key of a batch was not full *)
Fixpoint weight (w : key -> N) (ks : list key) : N := match ks with [] => 0 | k :: r => w k + weight w r end.
Lemma weight_app w a b : weight w (a ++ b) = weight w a + weight w b.
Proof. induction a as [|x a IH]; cbn [app weight]; [reflexivity|]. rewrite IH. lia. Qed.

Lemma chunk_aux_bound full w : full 0 = false -> forall ks cur acc,
  acc = weight w (rev cur) ->
  (cur <> [] -> full (weight w (rev (tl cur))) = false) ->
  Forall (fun b => b <> [] -> full (weight w (removelast b)) = false) (chunk_aux full w ks cur acc).
Proof.
  intros F0. induction ks as [|k r IH]; intros cur acc Hacc Hcur; cbn [chunk_aux].
  - destruct cur as [|c cur]; cbn [is_nil]; [constructor|]. constructor; [|constructor].
    intros _. cbn [rev]. rewrite removelast_last. apply Hcur. discriminate.
  - destruct (full acc) eqn:F.
    + constructor.
      * intros Hne. destruct cur as [|c cur]; [cbn in Hne; congruence|].
        cbn [rev]. rewrite removelast_last. apply Hcur. discriminate.
      * apply IH; [cbn; lia|]. intros _. cbn. exact F0.
    + apply IH.
      * cbn [rev]. rewrite weight_app. cbn. subst acc. lia.
      * intros _. cbn [tl]. subst acc. exact F.
Qed.

Lemma weight_one ks : weight (fun _ => 1) ks = N.of_nat (length ks).
Proof. induction ks as [|k r IH]; cbn [weight length]; [reflexivity|]. rewrite IH. lia. Qed.
Lemma removelast_length {A} (l : list A) : l <> [] -> length l = S (length (removelast l)).
Proof.
  intros H. destruct (exists_last H) as [l' [x ->]]. rewrite removelast_last, app_length. cbn. lia.
Qed.

(* a key batch never has more than 513 keys (the Go test is count > 512, made before adding) *)
Theorem key_chunks_bound ks : Forall (fun b => (length b <= 513)%nat) (key_chunks ks).
Proof.
  unfold key_chunks, chunk.
  pose proof (chunk_aux_bound (fun c => raw_batch_pair_count <? c) (fun _ => 1) eq_refl ks [] 0 eq_refl) as H.
  specialize (H (fun E => match E eq_refl with end)).
  eapply Forall_impl; [|exact H]. intros b Hb. cbv beta in Hb.
  destruct b as [|x b]; [cbn; lia|]. specialize (Hb ltac:(discriminate)).
  rewrite weight_one in Hb. apply N.ltb_ge in Hb. unfold raw_batch_pair_count in Hb.
  rewrite (removelast_length (x :: b)) by discriminate. lia.
Qed.

(* a put batch was below 16 KB before its last pair was added *)
Theorem put_chunks_bound kvs ks :
  Forall (fun b => b <> [] -> weight (pair_size kvs) (removelast b) < raw_batch_put_size) (put_chunks kvs ks).
Proof.
  unfold put_chunks, chunk.
  pose proof (chunk_aux_bound (fun sz => raw_batch_put_size <=? sz) (pair_size kvs) eq_refl ks [] 0 eq_refl) as H.
  specialize (H (fun E => match E eq_refl with end)).
  eapply Forall_impl; [|exact H]. intros b Hb Hne. specialize (Hb Hne). apply N.leb_gt in Hb. exact Hb.
Qed.

(* ---------------------------------------------------------------- statements of Props.v *)
Lemma c11_scan_stream : forall st Ls s e limit res,
  scan st Ls s e limit = Some res ->
  res = scan_replay st Ls (scan_reqs st Ls s e limit 0) /\
  scan_stream_ok st Ls (scan_reqs st Ls s e limit 0) s e limit 0.
Proof.
  intros st Ls s e limit res H. split; [|apply scan_reqs_ok].
  unfold scan in H. apply scan_loop_replay in H. exact H.
Qed.
Lemma c11_reverse_scan_stream : forall st Ls s e limit res,
  rscan st Ls s e limit = Some res -> res = rscan_replay st Ls (rscan_reqs st Ls s e limit 0).
Proof. intros st Ls s e limit res H. unfold rscan in H. apply rscan_loop_replay in H. exact H. Qed.
Lemma c11_delete_range_stream : forall st Ls s e,
  tiles (drange_reqs Ls s e) s /\
  let st' := fold_left (fun x r => srv_delete_range x (fst r) (snd r)) (drange_reqs Ls s e) st in
  match drange_run st Ls s e with DrDone x => x = st' | DrFailed x _ => x = st' | DrFuel => True end.
Proof. intros. split; [apply drange_reqs_tile|apply drange_run_replay]. Qed.
Lemma c11_batches_well_formed :
  (forall L keys, Forall (fun b => Forall (fun k => loc_lo L k = fst (fst b)) (snd b)) (sub_batches key_chunks L keys)) /\
  (forall kvs L keys, Forall (fun b => Forall (fun k => loc_lo L k = fst (fst b)) (snd b)) (sub_batches (put_chunks kvs) L keys)) /\
  (forall ks, Forall (fun b => (length b <= 513)%nat) (key_chunks ks)) /\
  (forall kvs ks, Forall (fun b => b <> [] -> weight (pair_size kvs) (removelast b) < raw_batch_put_size) (put_chunks kvs ks)).
Proof.
  split; [intros; apply sub_batches_one_region, key_chunks_ok|].
  split; [intros; apply sub_batches_one_region, put_chunks_ok|].
  split; [exact key_chunks_bound|exact put_chunks_bound].
Qed.
