(* RawKV/ProofsBatch.v — checksum fold, batch get / put / delete under any regrouping schedule,
   compare-and-swap. *)
From Coq Require Import Sorting.Sorted.
From Verif Require Import RawKV.Model RawKV.ProofsStore RawKV.ProofsLoops.

(* ---------------------------------------------------------------- checksum *)
Definition cks_wf (c : cks) : Prop := c_kvs c < M64 /\ c_bytes c < M64.

Lemma M64_pos : M64 <> 0.
Proof. unfold M64. discriminate. Qed.

Lemma cks_add_wf a b : cks_wf (cks_add a b).
Proof. unfold cks_wf, cks_add; cbn. split; apply N.mod_lt; exact M64_pos. Qed.
Lemma cks_zero_wf : cks_wf cks_zero.
Proof. unfold cks_wf, cks_zero, M64; cbn. split; reflexivity. Qed.

Lemma cks_add_assoc a b c : cks_add (cks_add a b) c = cks_add a (cks_add b c).
Proof.
  unfold cks_add; cbn. f_equal.
  - apply N.lxor_assoc.
  - rewrite N.add_mod_idemp_l, N.add_mod_idemp_r by exact M64_pos. f_equal. lia.
  - rewrite N.add_mod_idemp_l, N.add_mod_idemp_r by exact M64_pos. f_equal. lia.
Qed.
Lemma cks_add_comm a b : cks_add a b = cks_add b a.
Proof. unfold cks_add. f_equal; [apply N.lxor_comm|f_equal; lia|f_equal; lia]. Qed.
Lemma cks_add_zero_r a : cks_wf a -> cks_add a cks_zero = a.
Proof.
  intros [H1 H2]. destruct a as [x n b]; unfold cks_add, cks_zero; cbn in *.
  rewrite N.lxor_0_r, !N.add_0_r, !N.mod_small by assumption. reflexivity.
Qed.

Section Checksum.
  Variable digest : list N -> list N -> N.
  Notation cks_list := (cks_list digest).
  Notation cks_one := (cks_one digest).

  Lemma cks_one_wf p : cks_wf (cks_one p).
  Proof.
    destruct p as [k [v t]]. unfold cks_wf, Model.cks_one, M64; cbn. split; [reflexivity|apply N.mod_lt; discriminate].
  Qed.

  Lemma cks_fold_from l : forall a, cks_wf a ->
    fold_left (fun c p => cks_add c (cks_one p)) l a =
    cks_add a (fold_left (fun c p => cks_add c (cks_one p)) l cks_zero).
  Proof.
    induction l as [|p l IH]; intros a Hw; cbn [fold_left].
    - symmetry. apply cks_add_zero_r; exact Hw.
    - rewrite (IH (cks_add a (cks_one p))) by apply cks_add_wf.
      rewrite (IH (cks_add cks_zero (cks_one p))) by apply cks_add_wf.
      rewrite (cks_add_comm cks_zero), (cks_add_zero_r (cks_one p)) by apply cks_one_wf.
      apply cks_add_assoc.
  Qed.

  Lemma cks_list_wf l : cks_wf (cks_list l).
  Proof.
    unfold Model.cks_list. induction l as [|p l IH] using rev_ind; [exact cks_zero_wf|].
    rewrite fold_left_app. cbn [fold_left]. apply cks_add_wf.
  Qed.

  (* the checksum of a concatenation is the combination of the checksums: xor and sums *)
  Lemma cks_list_app l1 l2 : cks_list (l1 ++ l2) = cks_add (cks_list l1) (cks_list l2).
  Proof.
    unfold Model.cks_list. rewrite fold_left_app. apply cks_fold_from. apply (cks_list_wf l1).
  Qed.

  Lemma cksum_loop_correct st e : sorted st ->
    forall Ls cur acc res,
      cks_wf acc ->
      cksum_loop digest st Ls cur e acc = Some res ->
      res = cks_add acc (cks_list (range st cur e)).
  Proof.
    intros Hs.
    assert (Stop : forall cur acc, cks_wf acc -> below cur e = false -> acc = cks_add acc (cks_list (range st cur e))).
    { intros cur acc Hw C. unfold below in C. apply orb_false_iff in C. destruct C as [C1 C2]. breflect.
      rewrite range_empty by assumption. symmetry. apply cks_add_zero_r; exact Hw. }
    induction Ls as [|L Ls IH]; intros cur acc res Hw; cbn [cksum_loop].
    - destruct (below cur e) eqn:C; [discriminate|]. intros [= <-]. apply Stop; assumption.
    - destruct (below cur e) eqn:C.
      2:{ intros [= <-]. apply Stop; assumption. }
      unfold srv_checksum. set (hi := loc_hi L cur).
      destruct (loc_hi_spec L cur) as [Hhi|[Hhi _]]; fold hi in Hhi.
      + rewrite Hhi. cbn [is_nil]. intros [= <-].
        replace (min_end [] e) with e by (unfold min_end; destruct e; reflexivity). reflexivity.
      + assert (Hn : is_nil hi = false) by (apply is_nil_false; intros E0; rewrite E0 in Hhi; exact (nil_min _ Hhi)).
        rewrite Hn. intros Hrec. apply IH in Hrec; [|apply cks_add_wf]. subst res.
        rewrite cks_add_assoc. f_equal.
        destruct (min_end_cases hi e) as [[-> [Hc|[Hc1 Hc2]]]|[-> [Hc1 Hc2]]].
        * breflect. congruence.
        * rewrite (range_empty st hi e) by first [assumption | KF.order].
          apply cks_add_zero_r. apply cks_list_wf.
        * rewrite (range_split st cur hi e) by first [assumption | KF.order | (destruct Hc2; [left|right]; assumption)].
          symmetry. apply cks_list_app.
  Qed.

  Theorem cksum_correct st Ls s e res :
    sorted st -> cksum digest st Ls s e = Some res -> res = cks_list (range st s e).
  Proof.
    intros Hs H. unfold cksum in H. apply cksum_loop_correct in H; [|exact Hs|exact cks_zero_wf].
    subst res. rewrite cks_add_comm. apply cks_add_zero_r. apply cks_list_wf.
  Qed.

  Lemma cksum_loop_terminates st S e :
    forall Ls cur acc,
      (forall L, In L Ls -> incl L S) ->
      (above S cur < length Ls)%nat ->
      cksum_loop digest st Ls cur e acc <> None.
  Proof.
    induction Ls as [|L Ls IH]; intros cur acc Hin Hlen; [cbn in Hlen; lia|].
    cbn [cksum_loop]. destruct (below cur e); [|discriminate].
    destruct (loc_hi_spec L cur) as [Hhi|[Hhi1 Hhi2]].
    - rewrite Hhi. cbn [is_nil]. discriminate.
    - destruct (is_nil (loc_hi L cur)); [discriminate|]. apply IH.
      + intros L' HL'. apply Hin. right; exact HL'.
      + assert (In (loc_hi L cur) S) by (apply (Hin L (or_introl eq_refl)); exact Hhi2).
        pose proof (above_decr S cur _ H Hhi1). cbn [length] in Hlen. lia.
  Qed.
End Checksum.

(* ---------------------------------------------------------------- grouping and sub-batching *)
Lemma add_group_In g k gs k' :
  In k' (flat_map snd (add_group g k gs)) <-> k' = k \/ In k' (flat_map snd gs).
Proof.
  induction gs as [|[g' ks] r IH]; cbn [add_group flat_map snd app].
  - cbn. intuition.
  - destruct (bytes_eqb g g'); cbn [flat_map snd].
    + rewrite !in_app_iff. cbn [In]. intuition.
    + rewrite !in_app_iff, IH. intuition.
Qed.
Lemma group_keys_In L keys k : In k (flat_map snd (group_keys L keys)) <-> In k keys.
Proof.
  induction keys as [|k0 r IH]; cbn [group_keys]; [cbn; tauto|].
  rewrite add_group_In, IH. cbn [In]. intuition.
Qed.

(* sub-batching cuts a group into consecutive pieces: nothing lost, nothing added, order kept *)
Lemma chunk_aux_concat full w : forall ks cur acc, concat (chunk_aux full w ks cur acc) = rev cur ++ ks.
Proof.
  induction ks as [|k r IH]; intros cur acc; cbn [chunk_aux].
  - destruct cur as [|c cur]; cbn [is_nil concat]; [reflexivity|]. rewrite app_nil_r. reflexivity.
  - destruct (full acc); cbn [concat].
    + rewrite IH. reflexivity.
    + rewrite IH. cbn [rev]. rewrite <- app_assoc. reflexivity.
Qed.
Lemma chunk_concat full w ks : concat (chunk full w ks) = ks.
Proof. unfold chunk. rewrite chunk_aux_concat. reflexivity. Qed.

Definition chunker_ok (ch : list key -> list (list key)) : Prop := forall ks, concat (ch ks) = ks.
Lemma key_chunks_ok : chunker_ok key_chunks.
Proof. intros ks. apply chunk_concat. Qed.
Lemma put_chunks_ok kvs : chunker_ok (put_chunks kvs).
Proof. intros ks. apply chunk_concat. Qed.

Lemma indexed_snd {A} (l : list A) : forall i, map snd (indexed i l) = l.
Proof. induction l as [|x r IH]; intros i; cbn [indexed map snd]; [reflexivity|]. rewrite IH. reflexivity. Qed.

Lemma sub_batches_In ch L keys k : chunker_ok ch ->
  In k (flat_map snd (sub_batches ch L keys)) <-> In k keys.
Proof.
  intros Hch. rewrite <- (group_keys_In L keys k). unfold sub_batches.
  induction (group_keys L keys) as [|g gs IH]; cbn [flat_map]; [tauto|].
  rewrite flat_map_app, !in_app_iff, IH.
  assert (E : flat_map snd (map (fun ib : nat * list key => (fst g, fst ib, snd ib)) (indexed 0 (ch (snd g)))) = snd g).
  { rewrite <- (Hch (snd g)) at 2. rewrite <- (indexed_snd (ch (snd g)) 0) at 2.
    generalize (indexed 0 (ch (snd g))). intros l. induction l as [|x l IHl]; cbn [map flat_map concat snd]; [reflexivity|].
    rewrite IHl. reflexivity. }
  rewrite E. tauto.
Qed.

Lemma keys_of_partition ch r keys k :
  In k (flat_map snd (sub_batches ch (fst r) keys)) <->
  In k (keys_of Served ch r keys) \/ In k (keys_of Bounced ch r keys) \/ In k (keys_of Dropped ch r keys).
Proof.
  unfold keys_of. induction (sub_batches ch (fst r) keys) as [|b bs IH]; cbn [flat_map]; [tauto|].
  rewrite !in_app_iff, IH. destruct (batch_outcome r b); cbn [outcome_eqb In]; tauto.
Qed.
Lemma no_drop_keys ch r keys : any_dropped ch r keys = false -> keys_of Dropped ch r keys = [].
Proof.
  unfold any_dropped, keys_of. induction (sub_batches ch (fst r) keys) as [|b bs IH]; cbn [existsb flat_map]; [reflexivity|].
  intros H. apply orb_false_iff in H. destruct H as [H1 H2]. rewrite H1. cbn [app]. apply IH; exact H2.
Qed.

(* every requested key is in a served or a bounced sub-batch when nothing was dropped *)
Lemma served_or_bounced ch r keys k : chunker_ok ch -> any_dropped ch r keys = false ->
  (In k keys <-> In k (served_keys ch r keys) \/ In k (bounced_keys ch r keys)).
Proof.
  intros Hch Hd. rewrite <- (sub_batches_In ch (fst r) keys k Hch), keys_of_partition, (no_drop_keys _ _ _ Hd).
  cbn [In]. tauto.
Qed.
Lemma keys_of_sub o ch r keys k : chunker_ok ch -> In k (keys_of o ch r keys) -> In k keys.
Proof.
  intros Hch H. apply (sub_batches_In ch (fst r) keys k Hch). apply keys_of_partition.
  destruct o; tauto.
Qed.

Lemma bounced_all_served ch L keys : bounced_keys ch (L, all_served) keys = [].
Proof.
  unfold keys_of. induction (sub_batches ch (fst (L, all_served)) keys) as [|g gs IH]; cbn [flat_map app]; [reflexivity|exact IH].
Qed.
Lemma dropped_all_served ch L keys : any_dropped ch (L, all_served) keys = false.
Proof.
  unfold any_dropped. induction (sub_batches ch (fst (L, all_served)) keys) as [|g gs IH]; cbn [existsb]; [reflexivity|exact IH].
Qed.

(* ---------------------------------------------------------------- find_last *)
Lemma find_last_In {V} (ps : list (list N * V)) k x : find_last ps k = Some x -> In (k, x) ps.
Proof.
  induction ps as [|[k' v] r IH]; cbn [find_last]; [discriminate|].
  destruct (find_last r k) eqn:E.
  - intros [= <-]. right. apply IH. reflexivity.
  - destruct (bytes_eqb k k') eqn:Ek; [|discriminate]. intros [= <-]. breflect; subst. left; reflexivity.
Qed.
Lemma find_last_none {V} (ps : list (list N * V)) k : (forall p, In p ps -> fst p <> k) -> find_last ps k = None.
Proof.
  induction ps as [|[k' v] r IH]; intros H; cbn [find_last]; [reflexivity|].
  rewrite IH by (intros p Hp; apply H; right; exact Hp).
  destruct (bytes_eqb k k') eqn:E; [|reflexivity]. breflect; subst. exfalso. exact (H (k', v) (or_introl eq_refl) eq_refl).
Qed.
Lemma find_last_functional {V} (f : list N -> V) (ps : list (list N * V)) k :
  (forall p, In p ps -> snd p = f (fst p)) -> (exists v, In (k, v) ps) -> find_last ps k = Some (f k).
Proof.
  intros Hc [v Hin]. destruct (find_last ps k) eqn:E.
  - apply find_last_In in E. specialize (Hc _ E). cbn in Hc. congruence.
  - exfalso. revert E Hin. clear Hc. induction ps as [|[k' v'] r IH]; cbn [find_last]; [intros _ []|].
    destruct (find_last r k) eqn:E'; [discriminate|].
    destruct (bytes_eqb k k') eqn:Ek; [discriminate|]. intros _ [H|H].
    + breflect. congruence.
    + apply IH; [reflexivity|exact H].
Qed.

Lemma find_last_notin {V} (ps : list (list N * V)) k : find_last ps k = None -> forall v, ~ In (k, v) ps.
Proof.
  induction ps as [|[k' v'] r IH]; cbn [find_last]; [intros _ v []|].
  destruct (find_last r k) eqn:E'; [discriminate|].
  destruct (bytes_eqb k k') eqn:Ek; [discriminate|]. intros _ v [H|H].
  - breflect. congruence.
  - exact (IH eq_refl v H).
Qed.
Lemma find_last_pfun {V} (f : list N -> option V) (ps : list (list N * V)) k :
  (forall k' v, In (k', v) ps -> f k' = Some v) ->
  (forall v, f k = Some v -> In (k, v) ps) ->
  find_last ps k = f k.
Proof.
  intros Hc Hcov. destruct (find_last ps k) as [x|] eqn:E.
  - apply find_last_In in E. symmetry. apply Hc; exact E.
  - destruct (f k) as [v|] eqn:Ef; [|reflexivity].
    exfalso. exact (find_last_notin ps k E v (Hcov v eq_refl)).
Qed.

(* ---------------------------------------------------------------- store-side batches *)
Lemma srv_batch_get_In st keys k v :
  In (k, v) (srv_batch_get st keys) <-> In k keys /\ srv_get st k = Some v.
Proof.
  unfold srv_batch_get. rewrite in_flat_map. split.
  - intros [x [Hx Hp]]. destruct (srv_get st x) eqn:E; [|destruct Hp]. destruct Hp as [[= <- <-]|[]]. tauto.
  - intros [Hk Hv]. exists k. split; [exact Hk|]. rewrite Hv. left; reflexivity.
Qed.
Lemma st_get_batch_put kvs : forall st k,
  st_get (srv_batch_put st kvs) k = match find_last kvs k with Some e => Some e | None => st_get st k end.
Proof.
  unfold srv_batch_put. induction kvs as [|[k1 e1] r IH]; intros st k; cbn [fold_left find_last fst snd]; [reflexivity|].
  rewrite IH. destruct (find_last r k); [reflexivity|]. rewrite st_get_put.
  destruct (bytes_eqb k k1); reflexivity.
Qed.
Lemma sorted_batch_put kvs : forall st, sorted st -> sorted (srv_batch_put st kvs).
Proof.
  unfold srv_batch_put. induction kvs as [|p r IH]; intros st Hs; cbn [fold_left]; [exact Hs|].
  apply IH. apply sorted_put; exact Hs.
Qed.
Lemma srv_batch_put_app st a b : srv_batch_put st (a ++ b) = srv_batch_put (srv_batch_put st a) b.
Proof. unfold srv_batch_put. apply fold_left_app. Qed.
Lemma existsb_In ks k : existsb (bytes_eqb k) ks = true <-> In k ks.
Proof.
  rewrite existsb_exists. split.
  - intros [x [Hin E]]. breflect; subst. exact Hin.
  - intros H. exists k. split; [exact H|apply eqb_true; reflexivity].
Qed.
Lemma st_get_batch_delete keys : forall st k,
  st_get (srv_batch_delete st keys) k = if existsb (bytes_eqb k) keys then None else st_get st k.
Proof.
  unfold srv_batch_delete. induction keys as [|k1 r IH]; intros st k; cbn [fold_left existsb]; [reflexivity|].
  rewrite IH, st_get_del. destruct (existsb (bytes_eqb k) r); [rewrite orb_true_r; reflexivity|].
  rewrite orb_false_r. reflexivity.
Qed.
Lemma sorted_batch_delete keys : forall st, sorted st -> sorted (srv_batch_delete st keys).
Proof.
  unfold srv_batch_delete. induction keys as [|p r IH]; intros st Hs; cbn [fold_left]; [exact Hs|].
  apply IH. apply sorted_del; exact Hs.
Qed.
Definition overlay (kvs : list (list N * entry)) (st : store) (k : key) : option entry :=
  match find_last kvs k with Some e => Some e | None => st_get st k end.

(* ---------------------------------------------------------------- compare-and-swap *)
Theorem cas_correct st k prev nv : srv_cas st k prev nv = spec_cas st k prev nv.
Proof.
  unfold srv_cas, spec_cas, srv_get. destruct (st_get st k) as [e|]; cbn [option_map opt_bytes_eqb];
    destruct prev as [p|]; try reflexivity.
Qed.
