(* RawKV/ProofsBatch.v — checksum fold, batch get / put / delete under any regrouping schedule,
   compare-and-swap. *)
From Coq Require Import Sorting.Sorted.
From Verif Require Import RawKV.Model RawKV.ProofsStore RawKV.ProofsLoops.

(* ---------------------------------------------------------------- checksum *)
Definition cks_wf (c : cks) : Prop := c_kvs c < M64 /\ c_bytes c < M64.

Lemma M64_pos : M64 <> 0.
Proof. unfold M64. discriminate. Qed.

Lemma cks_add_wf a b : cks_wf (cks_add a b).
Proof. unfold cks_wf, cks_add; cbn. split; apply N.mod_lt; exact M64_pos. Qed.
Lemma cks_zero_wf : cks_wf cks_zero.
Proof. unfold cks_wf, cks_zero, M64; cbn. split; reflexivity. Qed.

Lemma cks_add_assoc a b c : cks_add (cks_add a b) c = cks_add a (cks_add b c).
Proof.
  unfold cks_add; cbn. f_equal.
  - apply N.lxor_assoc.
  - rewrite N.add_mod_idemp_l, N.add_mod_idemp_r by exact M64_pos. f_equal. lia.
  - rewrite N.add_mod_idemp_l, N.add_mod_idemp_r by exact M64_pos. f_equal. lia.
Qed.
Lemma cks_add_comm a b : cks_add a b = cks_add b a.
Proof. unfold cks_add. f_equal; [apply N.lxor_comm|f_equal; lia|f_equal; lia]. Qed.
Lemma cks_add_zero_r a : cks_wf a -> cks_add a cks_zero = a.
Proof.
  intros [H1 H2]. destruct a as [x n b]; unfold cks_add, cks_zero; cbn in *.
  rewrite N.lxor_0_r, !N.add_0_r, !N.mod_small by assumption. reflexivity.
Qed.

Section Checksum.
  Variable digest : list N -> list N -> N.
  Notation cks_list := (cks_list digest).
  Notation cks_one := (cks_one digest).

  Lemma cks_one_wf p : cks_wf (cks_one p).
  Proof.
    destruct p as [k [v t]]. unfold cks_wf, Model.cks_one, M64; cbn. split; [reflexivity|apply N.mod_lt; discriminate].
  Qed.

  Lemma cks_fold_from l : forall a, cks_wf a ->
    fold_left (fun c p => cks_add c (cks_one p)) l a =
    cks_add a (fold_left (fun c p => cks_add c (cks_one p)) l cks_zero).
  Proof.
    induction l as [|p l IH]; intros a Hw; cbn [fold_left].
    - symmetry. apply cks_add_zero_r; exact Hw.
    - rewrite (IH (cks_add a (cks_one p))) by apply cks_add_wf.
      rewrite (IH (cks_add cks_zero (cks_one p))) by apply cks_add_wf.
      rewrite (cks_add_comm cks_zero), (cks_add_zero_r (cks_one p)) by apply cks_one_wf.
      apply cks_add_assoc.
  Qed.

  Lemma cks_list_wf l : cks_wf (cks_list l).
  Proof.
    unfold Model.cks_list. induction l as [|p l IH] using rev_ind; [exact cks_zero_wf|].
    rewrite fold_left_app. cbn [fold_left]. apply cks_add_wf.
  Qed.

  (* the checksum of a concatenation is the combination of the checksums: xor and sums *)
  Lemma cks_list_app l1 l2 : cks_list (l1 ++ l2) = cks_add (cks_list l1) (cks_list l2).
  Proof.
    unfold Model.cks_list. rewrite fold_left_app. apply cks_fold_from. apply (cks_list_wf l1).
  Qed.

  Lemma cksum_loop_correct st e : sorted st ->
    forall Ls cur acc res,
      cks_wf acc ->
      cksum_loop digest st Ls cur e acc = Some res ->
      res = cks_add acc (cks_list (range st cur e)).
  Proof.
    intros Hs.
    assert (Stop : forall cur acc, cks_wf acc -> below cur e = false -> acc = cks_add acc (cks_list (range st cur e))).
    { intros cur acc Hw C. unfold below in C. apply orb_false_iff in C. destruct C as [C1 C2]. breflect.
      rewrite range_empty by assumption. symmetry. apply cks_add_zero_r; exact Hw. }
    induction Ls as [|L Ls IH]; intros cur acc res Hw; cbn [cksum_loop].
    - destruct (below cur e) eqn:C; [discriminate|]. intros [= <-]. apply Stop; assumption.
    - destruct (below cur e) eqn:C.
      2:{ intros [= <-]. apply Stop; assumption. }
      unfold srv_checksum. set (hi := loc_hi L cur).
      destruct (loc_hi_spec L cur) as [Hhi|[Hhi _]]; fold hi in Hhi.
      + rewrite Hhi. cbn [is_nil]. intros [= <-].
        replace (min_end [] e) with e by (unfold min_end; destruct e; reflexivity). reflexivity.
      + assert (Hn : is_nil hi = false) by (apply is_nil_false; intros E0; rewrite E0 in Hhi; exact (nil_min _ Hhi)).
        rewrite Hn. intros Hrec. apply IH in Hrec; [|apply cks_add_wf]. subst res.
        rewrite cks_add_assoc. f_equal.
        destruct (min_end_cases hi e) as [[-> [Hc|[Hc1 Hc2]]]|[-> [Hc1 Hc2]]].
        * breflect. congruence.
        * rewrite (range_empty st hi e) by first [assumption | KF.order].
          apply cks_add_zero_r. apply cks_list_wf.
        * rewrite (range_split st cur hi e) by first [assumption | KF.order | (destruct Hc2; [left|right]; assumption)].
          symmetry. apply cks_list_app.
  Qed.

  Theorem cksum_correct st Ls s e res :
    sorted st -> cksum digest st Ls s e = Some res -> res = cks_list (range st s e).
  Proof.
    intros Hs H. unfold cksum in H. apply cksum_loop_correct in H; [|exact Hs|exact cks_zero_wf].
    subst res. rewrite cks_add_comm. apply cks_add_zero_r. apply cks_list_wf.
  Qed.

  Lemma cksum_loop_terminates st S e :
    forall Ls cur acc,
      (forall L, In L Ls -> incl L S) ->
      (above S cur < length Ls)%nat ->
      cksum_loop digest st Ls cur e acc <> None.
  Proof.
    induction Ls as [|L Ls IH]; intros cur acc Hin Hlen; [cbn in Hlen; lia|].
    cbn [cksum_loop]. destruct (below cur e); [|discriminate].
    destruct (loc_hi_spec L cur) as [Hhi|[Hhi1 Hhi2]].
    - rewrite Hhi. cbn [is_nil]. discriminate.
    - destruct (is_nil (loc_hi L cur)); [discriminate|]. apply IH.
      + intros L' HL'. apply Hin. right; exact HL'.
      + assert (In (loc_hi L cur) S) by (apply (Hin L (or_introl eq_refl)); exact Hhi2).
        pose proof (above_decr S cur _ H Hhi1). cbn [length] in Hlen. lia.
  Qed.
End Checksum.

(* ---------------------------------------------------------------- grouping *)
Lemma add_group_In g k gs k' :
  In k' (flat_map snd (add_group g k gs)) <-> k' = k \/ In k' (flat_map snd gs).
Proof.
  induction gs as [|[g' ks] r IH]; cbn [add_group flat_map snd app].
  - cbn. intuition.
  - destruct (bytes_eqb g g'); cbn [flat_map snd].
    + rewrite !in_app_iff. cbn [In]. intuition.
    + rewrite !in_app_iff, IH. intuition.
Qed.
Lemma group_keys_In L keys k : In k (flat_map snd (group_keys L keys)) <-> In k keys.
Proof.
  induction keys as [|k0 r IH]; cbn [group_keys]; [cbn; tauto|].
  rewrite add_group_In, IH. cbn [In]. intuition.
Qed.
Lemma served_or_bounced r keys k :
  In k keys <-> In k (served_keys r keys) \/ In k (bounced_keys r keys).
Proof.
  rewrite <- (group_keys_In (fst r) keys k). unfold served_keys, bounced_keys.
  induction (group_keys (fst r) keys) as [|g gs IH]; cbn [flat_map]; [tauto|].
  rewrite !in_app_iff, IH. destruct (snd r (fst g)); cbn [In]; tauto.
Qed.
Lemma bounced_all_served L keys : bounced_keys (L, fun _ => true) keys = [].
Proof.
  unfold bounced_keys; cbn [fst snd]. induction (group_keys L keys) as [|g gs IH]; cbn [flat_map app]; [reflexivity|exact IH].
Qed.

(* ---------------------------------------------------------------- find_last *)
Lemma find_last_In {V} (ps : list (list N * V)) k x : find_last ps k = Some x -> In (k, x) ps.
Proof.
  induction ps as [|[k' v] r IH]; cbn [find_last]; [discriminate|].
  destruct (find_last r k) eqn:E.
  - intros [= <-]. right. apply IH. reflexivity.
  - destruct (bytes_eqb k k') eqn:Ek; [|discriminate]. intros [= <-]. breflect; subst. left; reflexivity.
Qed.
Lemma find_last_none {V} (ps : list (list N * V)) k : (forall p, In p ps -> fst p <> k) -> find_last ps k = None.
Proof.
  induction ps as [|[k' v] r IH]; intros H; cbn [find_last]; [reflexivity|].
  rewrite IH by (intros p Hp; apply H; right; exact Hp).
  destruct (bytes_eqb k k') eqn:E; [|reflexivity]. breflect; subst. exfalso. exact (H (k', v) (or_introl eq_refl) eq_refl).
Qed.
Lemma find_last_functional {V} (f : list N -> V) (ps : list (list N * V)) k :
  (forall p, In p ps -> snd p = f (fst p)) -> (exists v, In (k, v) ps) -> find_last ps k = Some (f k).
Proof.
  intros Hc [v Hin]. destruct (find_last ps k) eqn:E.
  - apply find_last_In in E. specialize (Hc _ E). cbn in Hc. congruence.
  - exfalso. revert E Hin. clear Hc. induction ps as [|[k' v'] r IH]; cbn [find_last]; [intros _ []|].
    destruct (find_last r k) eqn:E'; [discriminate|].
    destruct (bytes_eqb k k') eqn:Ek; [discriminate|]. intros _ [H|H].
    + breflect. congruence.
    + apply IH; [reflexivity|exact H].
Qed.

Lemma find_last_notin {V} (ps : list (list N * V)) k : find_last ps k = None -> forall v, ~ In (k, v) ps.
Proof.
  induction ps as [|[k' v'] r IH]; cbn [find_last]; [intros _ v []|].
  destruct (find_last r k) eqn:E'; [discriminate|].
  destruct (bytes_eqb k k') eqn:Ek; [discriminate|]. intros _ v [H|H].
  - breflect. congruence.
  - exact (IH eq_refl v H).
Qed.
Lemma find_last_partial {V} (f : list N -> option V) (ps : list (list N * V)) k :
  (forall k' v, In (k', v) ps -> f k' = Some v) ->
  (forall v, f k = Some v -> In (k, v) ps) ->
  find_last ps k = f k.
Proof.
  intros Hc Hcov. destruct (find_last ps k) as [x|] eqn:E.
  - apply find_last_In in E. symmetry. apply Hc; exact E.
  - destruct (f k) as [v|] eqn:Ef; [|reflexivity].
    exfalso. exact (find_last_notin ps k E v (Hcov v eq_refl)).
Qed.

(* ---------------------------------------------------------------- batch get *)
Lemma srv_batch_get_In st keys k v :
  In (k, v) (srv_batch_get st keys) <-> In k keys /\ srv_get st k = Some v.
Proof.
  unfold srv_batch_get. rewrite in_flat_map. split.
  - intros [x [Hx Hp]]. destruct (srv_get st x) eqn:E; [|destruct Hp]. destruct Hp as [[= <- <-]|[]]. tauto.
  - intros [Hk Hv]. exists k. split; [exact Hk|]. rewrite Hv. left; reflexivity.
Qed.

Lemma bget_rounds_pairs st : forall sched keys ps,
  bget_rounds st sched keys = Some ps ->
  (forall k v, In k keys -> srv_get st k = Some v -> In (k, v) ps) /\
  (forall k v, In (k, v) ps -> srv_get st k = Some v).
Proof.
  induction sched as [|r sched IH]; intros keys ps; cbn [bget_rounds].
  - destruct keys; [|discriminate]. intros [= <-]. split; [intros k v []|intros k v []].
  - destruct keys as [|k0 keys0]; [intros [= <-]; split; [intros k v []|intros k v []]|].
    set (keys := k0 :: keys0).
    destruct (bget_rounds st sched (bounced_keys r keys)) as [rest|] eqn:E; [|discriminate].
    intros [= <-]. destruct (IH _ _ E) as [I1 I2]. split.
    + intros k v Hk Hv. apply (served_or_bounced r keys k) in Hk. apply in_app_iff. destruct Hk as [Hk|Hk].
      * left. apply srv_batch_get_In. tauto.
      * right. apply I1; assumption.
    + intros k v Hp. apply in_app_iff in Hp. destruct Hp as [Hp|Hp]; [|apply I2; exact Hp].
      apply srv_batch_get_In in Hp. tauto.
Qed.

(* BatchGet: positional, duplicates fine, absent keys -> None, any regrouping schedule *)
Theorem batch_get_aligned st sched keys res :
  batch_get st sched keys = Some res -> res = map (srv_get st) keys.
Proof.
  unfold batch_get. destruct (bget_rounds st sched keys) as [ps|] eqn:E; [|discriminate].
  intros [= <-]. destruct (bget_rounds_pairs _ _ _ _ E) as [I1 I2].
  unfold assemble. apply map_ext_in. intros k Hk.
  apply find_last_partial; [exact I2|]. intros v Hv. apply I1; assumption.
Qed.

Lemma bget_rounds_final st : forall sched L keys, bget_rounds st (sched ++ [(L, fun _ => true)]) keys <> None.
Proof.
  induction sched as [|r sched IH]; intros L keys; cbn [app bget_rounds].
  - destruct keys; [discriminate|]. rewrite bounced_all_served. cbn [bget_rounds]. discriminate.
  - destruct keys; [discriminate|].
    destruct (bget_rounds st (sched ++ [(L, fun _ => true)]) (bounced_keys r (l :: keys))) eqn:E; [discriminate|].
    exfalso. exact (IH L _ E).
Qed.

(* ---------------------------------------------------------------- batch put *)
Lemma st_get_batch_put kvs : forall st k,
  st_get (srv_batch_put st kvs) k = match find_last kvs k with Some e => Some e | None => st_get st k end.
Proof.
  unfold srv_batch_put. induction kvs as [|[k1 e1] r IH]; intros st k; cbn [fold_left find_last fst snd]; [reflexivity|].
  rewrite IH. destruct (find_last r k); [reflexivity|]. rewrite st_get_put.
  destruct (bytes_eqb k k1); reflexivity.
Qed.
Lemma sorted_batch_put kvs : forall st, sorted st -> sorted (srv_batch_put st kvs).
Proof.
  unfold srv_batch_put. induction kvs as [|p r IH]; intros st Hs; cbn [fold_left]; [exact Hs|].
  apply IH. apply sorted_put; exact Hs.
Qed.

Definition round_pairs (kvs : list (list N * entry)) (ks : list key) : list (list N * entry) :=
  flat_map (fun k => match find_last kvs k with Some e => [(k, e)] | None => [] end) ks.

Lemma round_pairs_find kvs ks k :
  find_last (round_pairs kvs ks) k = if existsb (bytes_eqb k) ks then find_last kvs k else None.
Proof.
  destruct (existsb (bytes_eqb k) ks) eqn:Ex.
  - apply existsb_exists in Ex. destruct Ex as [k' [Hin Ek]]. breflect; subst k'.
    destruct (find_last kvs k) as [e|] eqn:Ef.
    + assert (H := find_last_functional (fun x => match find_last kvs x with Some e' => e' | None => e end) (round_pairs kvs ks) k).
      cbv beta in H. rewrite Ef in H. apply H.
      * intros p Hp. unfold round_pairs in Hp. apply in_flat_map in Hp. destruct Hp as [x [_ Hx]].
        destruct (find_last kvs x) eqn:Efx; [|destruct Hx]. destruct Hx as [<-|[]]. cbn. rewrite Efx. reflexivity.
      * exists e. unfold round_pairs. apply in_flat_map. exists k. split; [exact Hin|]. rewrite Ef. left; reflexivity.
    + apply find_last_none. intros p Hp. unfold round_pairs in Hp. apply in_flat_map in Hp. destruct Hp as [x [_ Hx]].
      destruct (find_last kvs x) eqn:Efx; [|destruct Hx]. destruct Hx as [<-|[]]. cbn. intros ->. congruence.
  - apply find_last_none. intros p Hp. unfold round_pairs in Hp. apply in_flat_map in Hp. destruct Hp as [x [Hin Hx]].
    destruct (find_last kvs x) eqn:Efx; [|destruct Hx]. destruct Hx as [<-|[]]. cbn. intros ->.
    assert (existsb (bytes_eqb k) ks = true) by (apply existsb_exists; exists k; split; [exact Hin|apply eqb_true; reflexivity]).
    congruence.
Qed.

Lemma existsb_In ks k : existsb (bytes_eqb k) ks = true <-> In k ks.
Proof.
  rewrite existsb_exists. split.
  - intros [x [Hin E]]. breflect; subst. exact Hin.
  - intros H. exists k. split; [exact H|apply eqb_true; reflexivity].
Qed.

Definition overlay (kvs : list (list N * entry)) (st : store) (k : key) : option entry :=
  match find_last kvs k with Some e => Some e | None => st_get st k end.

Lemma bput_rounds_get kvs : forall sched st keys st',
  bput_rounds st sched kvs keys = Some st' ->
  forall k, st_get st' k = if existsb (bytes_eqb k) keys then overlay kvs st k else st_get st k.
Proof.
  induction sched as [|r sched IH]; intros st keys st'; cbn [bput_rounds].
  - destruct keys; [|discriminate]. intros [= <-] k. reflexivity.
  - destruct keys as [|k0 keys0]; [intros [= <-] k; reflexivity|].
    set (keys := k0 :: keys0). fold (round_pairs kvs (served_keys r keys)).
    intros H k. rewrite (IH _ _ _ H k). unfold overlay.
    rewrite !st_get_batch_put, round_pairs_find.
    destruct (existsb (bytes_eqb k) keys) eqn:Ek.
    + apply existsb_In in Ek. apply (served_or_bounced r keys k) in Ek.
      destruct (existsb (bytes_eqb k) (bounced_keys r keys)) eqn:Eb.
      * destruct (find_last kvs k); [reflexivity|].
        destruct (existsb (bytes_eqb k) (served_keys r keys)); reflexivity.
      * assert (Es : existsb (bytes_eqb k) (served_keys r keys) = true).
        { apply existsb_In. destruct Ek as [Ek|Ek]; [exact Ek|]. apply existsb_In in Ek. congruence. }
        rewrite Es. reflexivity.
    + assert (Eb : existsb (bytes_eqb k) (bounced_keys r keys) = false).
      { destruct (existsb (bytes_eqb k) (bounced_keys r keys)) eqn:E; [|reflexivity].
        apply existsb_In in E. assert (In k keys) by (apply (served_or_bounced r keys k); right; exact E).
        apply existsb_In in H0. congruence. }
      assert (Es : existsb (bytes_eqb k) (served_keys r keys) = false).
      { destruct (existsb (bytes_eqb k) (served_keys r keys)) eqn:E; [|reflexivity].
        apply existsb_In in E. assert (In k keys) by (apply (served_or_bounced r keys k); left; exact E).
        apply existsb_In in H0. congruence. }
      rewrite Eb, Es. reflexivity.
Qed.

Lemma bput_rounds_sorted kvs : forall sched st keys st',
  sorted st -> bput_rounds st sched kvs keys = Some st' -> sorted st'.
Proof.
  induction sched as [|r sched IH]; intros st keys st' Hs; cbn [bput_rounds].
  - destruct keys; [|discriminate]. intros [= <-]. exact Hs.
  - destruct keys as [|k0 keys0]; [intros [= <-]; exact Hs|].
    intros H. eapply IH; [|exact H]. apply sorted_batch_put; exact Hs.
Qed.

(* BatchPut = the puts applied one after the other in request order (so the last value of a
   duplicated key wins), whatever the grouping, the order of the batches and the regrouping *)
Theorem batch_put_last_wins st sched kvs st' :
  sorted st -> batch_put st sched kvs = Some st' ->
  st' = srv_batch_put st kvs /\ forall k, st_get st' k = overlay kvs st k.
Proof.
  intros Hs H. unfold batch_put in H.
  assert (G : forall k, st_get st' k = overlay kvs st k).
  { intros k. rewrite (bput_rounds_get _ _ _ _ _ H k).
    destruct (existsb (bytes_eqb k) (map fst kvs)) eqn:E; [reflexivity|].
    unfold overlay. rewrite find_last_none; [reflexivity|].
    intros p Hp Heq. subst k. assert (Hi : In (fst p) (map fst kvs)) by (apply in_map; exact Hp).
    apply existsb_In in Hi. congruence. }
  split; [|exact G].
  apply sorted_ext.
  - eapply bput_rounds_sorted; eassumption.
  - apply sorted_batch_put; exact Hs.
  - intros k. rewrite G, st_get_batch_put. reflexivity.
Qed.

Lemma bput_rounds_final kvs : forall sched L st keys, bput_rounds st (sched ++ [(L, fun _ => true)]) kvs keys <> None.
Proof.
  induction sched as [|r sched IH]; intros L st keys; cbn [app bput_rounds].
  - destruct keys; [discriminate|]. rewrite bounced_all_served. cbn [bput_rounds]. discriminate.
  - destruct keys; [discriminate|]. apply IH.
Qed.

(* ---------------------------------------------------------------- batch delete *)
Lemma st_get_batch_delete keys : forall st k,
  st_get (srv_batch_delete st keys) k = if existsb (bytes_eqb k) keys then None else st_get st k.
Proof.
  unfold srv_batch_delete. induction keys as [|k1 r IH]; intros st k; cbn [fold_left existsb]; [reflexivity|].
  rewrite IH, st_get_del. destruct (existsb (bytes_eqb k) r); [rewrite orb_true_r; reflexivity|].
  rewrite orb_false_r. reflexivity.
Qed.
Lemma sorted_batch_delete keys : forall st, sorted st -> sorted (srv_batch_delete st keys).
Proof.
  unfold srv_batch_delete. induction keys as [|p r IH]; intros st Hs; cbn [fold_left]; [exact Hs|].
  apply IH. apply sorted_del; exact Hs.
Qed.

Lemma bdel_rounds_get : forall sched st keys st',
  bdel_rounds st sched keys = Some st' ->
  forall k, st_get st' k = if existsb (bytes_eqb k) keys then None else st_get st k.
Proof.
  induction sched as [|r sched IH]; intros st keys st'; cbn [bdel_rounds].
  - destruct keys; [|discriminate]. intros [= <-] k. reflexivity.
  - destruct keys as [|k0 keys0]; [intros [= <-] k; reflexivity|].
    set (keys := k0 :: keys0). intros H k. rewrite (IH _ _ _ H k), st_get_batch_delete.
    destruct (existsb (bytes_eqb k) keys) eqn:Ek.
    + apply existsb_In in Ek. apply (served_or_bounced r keys k) in Ek.
      destruct (existsb (bytes_eqb k) (bounced_keys r keys)) eqn:Eb; [reflexivity|].
      assert (Es : existsb (bytes_eqb k) (served_keys r keys) = true).
      { apply existsb_In. destruct Ek as [Ek|Ek]; [exact Ek|]. apply existsb_In in Ek. congruence. }
      rewrite Es. reflexivity.
    + assert (Eb : existsb (bytes_eqb k) (bounced_keys r keys) = false).
      { destruct (existsb (bytes_eqb k) (bounced_keys r keys)) eqn:E; [|reflexivity].
        apply existsb_In in E. assert (In k keys) by (apply (served_or_bounced r keys k); right; exact E).
        apply existsb_In in H0. congruence. }
      assert (Es : existsb (bytes_eqb k) (served_keys r keys) = false).
      { destruct (existsb (bytes_eqb k) (served_keys r keys)) eqn:E; [|reflexivity].
        apply existsb_In in E. assert (In k keys) by (apply (served_or_bounced r keys k); left; exact E).
        apply existsb_In in H0. congruence. }
      rewrite Eb, Es. reflexivity.
Qed.
Lemma bdel_rounds_sorted : forall sched st keys st',
  sorted st -> bdel_rounds st sched keys = Some st' -> sorted st'.
Proof.
  induction sched as [|r sched IH]; intros st keys st' Hs; cbn [bdel_rounds].
  - destruct keys; [|discriminate]. intros [= <-]. exact Hs.
  - destruct keys as [|k0 keys0]; [intros [= <-]; exact Hs|].
    intros H. eapply IH; [|exact H]. apply sorted_batch_delete; exact Hs.
Qed.
Theorem batch_delete_correct st sched keys st' :
  sorted st -> bdel_rounds st sched keys = Some st' ->
  st' = srv_batch_delete st keys /\
  forall k, st_get st' k = if existsb (bytes_eqb k) keys then None else st_get st k.
Proof.
  intros Hs H. split; [|apply bdel_rounds_get with (sched := sched); exact H].
  apply sorted_ext.
  - eapply bdel_rounds_sorted; eassumption.
  - apply sorted_batch_delete; exact Hs.
  - intros k. rewrite (bdel_rounds_get _ _ _ _ H k), st_get_batch_delete. reflexivity.
Qed.

(* ---------------------------------------------------------------- compare-and-swap *)
Theorem cas_correct st k prev nv : srv_cas st k prev nv = spec_cas st k prev nv.
Proof.
  unfold srv_cas, spec_cas, srv_get. destruct (st_get st k) as [e|]; cbn [option_map opt_bytes_eqb];
    destruct prev as [p|]; try reflexivity.
Qed.
