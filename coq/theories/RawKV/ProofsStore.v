(* RawKV/ProofsStore.v — ordered-map laws of the store, sortedness, range splitting. *)
From Coq Require Import Sorting.Sorted.
From Verif Require Import RawKV.Model.

Definition keys_lt (p q : list N * entry) : Prop := klt (fst p) (fst q).
Definition sorted (st : store) : Prop := StronglySorted keys_lt st.

Lemma sorted_nil : sorted [].
Proof. constructor. Qed.

(* ---------------------------------------------------------------- get / put / del *)
Lemma st_get_put st k e k' :
  st_get (st_put st k e) k' = if bytes_eqb k' k then Some e else st_get st k'.
Proof.
  induction st as [|[k0 e0] r IH]; cbn [st_put st_get].
  - reflexivity.
  - destruct (lex_cmp k k0) eqn:C; cbn [st_get].
    + apply lex_cmp_eq in C; subst k0. destruct (bytes_eqb k' k); reflexivity.
    + reflexivity.
    + rewrite IH. destruct (bytes_eqb k' k0) eqn:E1; [|reflexivity].
      destruct (bytes_eqb k' k) eqn:E2; [|reflexivity].
      breflect; subst. rewrite lex_cmp_refl in C. discriminate.
Qed.

Lemma st_get_filter (f : list N -> bool) st k :
  st_get (filter (fun p => f (fst p)) st) k = if f k then st_get st k else None.
Proof.
  induction st as [|[k0 e0] r IH]; cbn [filter st_get fst].
  - destruct (f k); reflexivity.
  - destruct (f k0) eqn:F0; cbn [st_get].
    + destruct (bytes_eqb k k0) eqn:E.
      * breflect; subst. rewrite F0. reflexivity.
      * exact IH.
    + rewrite IH. destruct (f k) eqn:Fk; [|reflexivity].
      destruct (bytes_eqb k k0) eqn:E; [|reflexivity].
      breflect; subst. congruence.
Qed.

Lemma st_get_del st k k' :
  st_get (st_del st k) k' = if bytes_eqb k' k then None else st_get st k'.
Proof.
  unfold st_del. rewrite (st_get_filter (fun x => negb (bytes_eqb x k))).
  destruct (bytes_eqb k' k); reflexivity.
Qed.

Lemma st_put_In st k e p : In p (st_put st k e) -> p = (k, e) \/ In p st.
Proof.
  induction st as [|[k0 e0] r IH]; cbn [st_put].
  - intros [H|[]]; left; congruence.
  - destruct (lex_cmp k k0).
    + intros [H|H]; [left; congruence|right; right; exact H].
    + intros [H|H]; [left; congruence|right; exact H].
    + intros [H|H]; [right; left; exact H|]. destruct (IH H) as [H1|H1]; [left; exact H1|right; right; exact H1].
Qed.

Lemma sorted_put st k e : sorted st -> sorted (st_put st k e).
Proof.
  unfold sorted. induction 1 as [|[k0 e0] r Hs IH Hf]; cbn [st_put].
  - constructor; constructor.
  - destruct (lex_cmp k k0) eqn:C.
    + apply lex_cmp_eq in C; subst k0. constructor; assumption.
    + constructor.
      * constructor; assumption.
      * constructor; [exact C|].
        rewrite Forall_forall in *. intros p Hp. specialize (Hf p Hp). unfold keys_lt in *; cbn [fst] in *.
        change (klt k k0) in C. KF.order.
    + constructor; [exact IH|].
      rewrite Forall_forall in *. intros p Hp. destruct (st_put_In _ _ _ _ Hp) as [->|Hp'].
      * unfold keys_lt; cbn [fst]. unfold KeyOT.lt, lex_lt. rewrite (lex_cmp_antisym k k0), C. reflexivity.
      * apply Hf; exact Hp'.
Qed.

Lemma sorted_filter f st : sorted st -> sorted (filter f st).
Proof.
  unfold sorted. induction 1 as [|p r Hs IH Hf]; cbn [filter].
  - constructor.
  - destruct (f p); [|exact IH]. constructor; [exact IH|].
    rewrite Forall_forall in *. intros q Hq. apply filter_In in Hq. apply Hf; tauto.
Qed.

Lemma sorted_del st k : sorted st -> sorted (st_del st k).
Proof. apply sorted_filter. Qed.

Lemma st_get_above k st : Forall (fun p => klt k (fst p)) st -> st_get st k = None.
Proof.
  induction 1 as [|[k0 e0] r H _ IH]; cbn [st_get]; [reflexivity|].
  cbn [fst] in H. destruct (bytes_eqb k k0) eqn:E; [|exact IH]. breflect; subst. exfalso; KF.order.
Qed.

(* two sorted stores with the same lookups are the same list *)
Lemma sorted_ext a : forall b, sorted a -> sorted b -> (forall k, st_get a k = st_get b k) -> a = b.
Proof.
  unfold sorted. induction a as [|[k1 e1] a IH]; intros [|[k2 e2] b] Ha Hb Hg.
  - reflexivity.
  - specialize (Hg k2). cbn [st_get] in Hg. rewrite (proj2 (eqb_true k2 k2) eq_refl) in Hg. discriminate.
  - specialize (Hg k1). cbn [st_get] in Hg. rewrite (proj2 (eqb_true k1 k1) eq_refl) in Hg. discriminate.
  - inversion Ha as [|? ? Ha1 Ha2]; subst. inversion Hb as [|? ? Hb1 Hb2]; subst.
    assert (Ta : forall k, ~ klt k1 k -> st_get a k = None).
    { intros k Hk. apply st_get_above. eapply Forall_impl; [|exact Ha2]. intros p Hp. unfold keys_lt in Hp; cbn [fst] in Hp. KF.order. }
    assert (Tb : forall k, ~ klt k2 k -> st_get b k = None).
    { intros k Hk. apply st_get_above. eapply Forall_impl; [|exact Hb2]. intros p Hp. unfold keys_lt in Hp; cbn [fst] in Hp. KF.order. }
    destruct (KeyOT.compare_spec k1 k2) as [E|L|G].
    + subst k2. pose proof (Hg k1) as H1. cbn [st_get] in H1. rewrite (proj2 (eqb_true k1 k1) eq_refl) in H1.
      injection H1 as ->. f_equal. apply IH; [assumption|assumption|].
      intros k. specialize (Hg k). cbn [st_get] in Hg. destruct (bytes_eqb k k1) eqn:E; [|exact Hg].
      breflect; subst. rewrite Ta, Tb; [reflexivity| |]; KF.order.
    + exfalso. specialize (Hg k1). cbn [st_get] in Hg. rewrite (proj2 (eqb_true k1 k1) eq_refl) in Hg.
      destruct (bytes_eqb k1 k2) eqn:E; [breflect; subst; KF.order|].
      rewrite Tb in Hg; [discriminate|KF.order].
    + exfalso. specialize (Hg k2). cbn [st_get] in Hg. rewrite (proj2 (eqb_true k2 k2) eq_refl) in Hg.
      destruct (bytes_eqb k2 k1) eqn:E; [breflect; subst; KF.order|].
      rewrite Ta in Hg; [discriminate|KF.order].
Qed.

(* ---------------------------------------------------------------- ranges *)
Lemma filter_all_true {A} (f : A -> bool) l : (forall x, In x l -> f x = true) -> filter f l = l.
Proof.
  induction l as [|x r IH]; cbn [filter]; intros H; [reflexivity|].
  rewrite (H x (or_introl eq_refl)). f_equal. apply IH. intros y Hy. apply H. right; exact Hy.
Qed.
Lemma filter_all_false {A} (f : A -> bool) l : (forall x, In x l -> f x = false) -> filter f l = [].
Proof.
  induction l as [|x r IH]; cbn [filter]; intros H; [reflexivity|].
  rewrite (H x (or_introl eq_refl)). apply IH. intros y Hy. apply H. right; exact Hy.
Qed.
Lemma filter_filter' {A} (f g : A -> bool) l : filter f (filter g l) = filter (fun x => g x && f x) l.
Proof.
  induction l as [|x r IH]; cbn [filter]; [reflexivity|].
  destruct (g x); cbn [filter andb]; [destruct (f x); rewrite IH; reflexivity|exact IH].
Qed.

(* an empty range: e non-empty and e <= s *)
Lemma range_empty st s e : e <> [] -> ~ klt s e -> range st s e = [].
Proof.
  intros He Hse. apply filter_all_false. intros [k v] _. unfold in_range, below; cbn [fst].
  ksolve.
Qed.

(* [a,c) = [a,b) ++ [b,c) on a sorted store, for a <= b, b a real key, and b <= c or c unbounded *)
Lemma range_split st a b c :
  sorted st -> b <> [] -> ~ klt b a -> (c = [] \/ ~ klt c b) ->
  range st a c = range st a b ++ range st b c.
Proof.
  intros Hs Hb Hab Hbc. unfold sorted in Hs.
  induction Hs as [|[k v] r Hs IH Hf]; [reflexivity|].
  unfold range in *. cbn [filter].
  destruct (lex_ltb k b) eqn:Ekb.
  - (* k < b: not in [b,c); membership in [a,c) = membership in [a,b) *)
    assert (E1 : in_range b c (k, v) = false) by (unfold in_range, below; cbn [fst]; ksolve).
    assert (E2 : in_range a c (k, v) = in_range a b (k, v)).
    { unfold in_range, below; cbn [fst]. destruct Hbc as [->|Hbc]; ksolve. }
    rewrite E1, E2. destruct (in_range a b (k, v)); cbn [app]; rewrite IH; reflexivity.
  - (* b <= k: nothing of k :: r is in [a,b); [a,c) and [b,c) agree on k :: r *)
    assert (E1 : in_range a b (k, v) = false) by (unfold in_range, below; cbn [fst]; ksolve).
    assert (E2 : in_range a c (k, v) = in_range b c (k, v)).
    { unfold in_range, below; cbn [fst]. ksolve. }
    assert (R1 : filter (in_range a b) r = []).
    { apply filter_all_false. intros [k' v'] Hin. rewrite Forall_forall in Hf. specialize (Hf _ Hin).
      unfold keys_lt in Hf; cbn [fst] in Hf. unfold in_range, below; cbn [fst]. ksolve. }
    rewrite E1, E2, R1. cbn [app]. rewrite IH, R1. reflexivity.
Qed.
