(* RawKV/Stream.v — the REQUEST STREAM of every range call: what rawkv.go puts on the wire for each partial
   request (start key, end key, remaining limit), as executable functions of the serving layouts, so that the
   check can compare the requests the gate saw with the model's prediction, request by request.
   (Batch calls: Model.sub_batches / append_batches.) *)
From Verif Require Import RawKV.Model.

(* RawScanRequest{StartKey: cursor, EndKey: endKey (never clipped by the client), Limit: limit - len(keys)} *)
Definition scan_req := (list N * list N * nat)%type.
Fixpoint scan_reqs (st : store) (Ls : list layout) (cur e : key) (limit got : nat) : list scan_req :=
  if (got <? limit)%nat && below cur e then
    match Ls with
    | [] => []
    | L :: Ls' =>
        let hi := loc_hi L cur in
        let n := (limit - got)%nat in
        (cur, e, n) :: (if is_nil hi then [] else scan_reqs st Ls' hi e limit (got + length (srv_scan st hi cur e n)))
    end
  else [].
(* the answers to a stream, by the regions that served it *)
Fixpoint scan_replay (st : store) (Ls : list layout) (reqs : list scan_req) : list (list N * list N) :=
  match Ls, reqs with
  | L :: Ls', (c, e, n) :: r => srv_scan st (loc_hi L c) c e n ++ scan_replay st Ls' r
  | _, _ => []
  end.

(* reverse: RawScanRequest{StartKey: cursor (upper), EndKey: endKey (lower), Limit, Reverse} *)
Fixpoint rscan_reqs (st : store) (Ls : list layout) (cur e : key) (limit got : nat) : list scan_req :=
  if (got <? limit)%nat && lex_ltb e cur then
    match Ls with
    | [] => []
    | L :: Ls' =>
        let lo := loc_end_lo L cur in
        let n := (limit - got)%nat in
        (cur, e, n) :: (if is_nil lo then [] else rscan_reqs st Ls' lo e limit (got + length (srv_rscan st lo cur e n)))
    end
  else [].
Fixpoint rscan_replay (st : store) (Ls : list layout) (reqs : list scan_req) : list (list N * list N) :=
  match Ls, reqs with
  | L :: Ls', (c, e, n) :: r => srv_rscan st (loc_end_lo L c) c e n ++ rscan_replay st Ls' r
  | _, _ => []
  end.

(* RawChecksumRequest{Ranges: [{cursor, endKey}]} and RawDeleteRangeRequest{cursor, actualEndKey}:
   neither depends on the data *)
Fixpoint cksum_reqs (Ls : list layout) (cur e : key) : list (list N * list N) :=
  if below cur e then
    match Ls with
    | [] => []
    | L :: Ls' => let hi := loc_hi L cur in (cur, e) :: (if is_nil hi then [] else cksum_reqs Ls' hi e)
    end
  else [].
Fixpoint drange_reqs (Ls : list (option layout)) (cur e : key) : list (list N * list N) :=
  if below cur e then
    match Ls with
    | [] => []
    | None :: _ => []                       (* this request fails; it is not counted as served *)
    | Some L :: Ls' =>
        let ae := cut_end (loc_hi L cur) e in
        (cur, ae) :: (if is_nil ae then [] else drange_reqs Ls' ae e)
    end
  else [].
