(* RawKV/Order.v — byte strings under lex_cmp as an OrderedType (gives the `order` tactic),
   reflection of the boolean comparisons, and the "empty end key = +infinity" convention. *)
From Coq Require Import Orders OrdersFacts.
From Verif Require Export Base.Lex.

Module KeyOT <: OrderedType.
  Definition t := list N.
  Definition eq := @Logic.eq t.
  Definition eq_equiv : Equivalence eq := eq_equivalence.
  Definition lt := lex_lt.
  Lemma lt_irrefl x : ~ lt x x.
  Proof. unfold lt, lex_lt. rewrite lex_cmp_refl. discriminate. Qed.
  #[global] Instance lt_strorder : StrictOrder lt.
  Proof.
    split.
    - intros x H. exact (lt_irrefl x H).
    - intros x y z. apply lex_cmp_lt_trans.
  Qed.
  #[global] Instance lt_compat : Proper (eq ==> eq ==> iff) lt.
  Proof. intros a b -> c d ->. reflexivity. Qed.
  Definition compare := lex_cmp.
  Lemma compare_spec x y : CompareSpec (x = y) (lt x y) (lt y x) (compare x y).
  Proof.
    unfold compare, lt, lex_lt. destruct (lex_cmp x y) eqn:E.
    - constructor. apply lex_cmp_eq; exact E.
    - constructor. reflexivity.
    - constructor. rewrite (lex_cmp_antisym x y), E. reflexivity.
  Qed.
  Definition eq_dec (x y : t) : {x = y} + {x <> y}.
  Proof.
    destruct (lex_cmp x y) eqn:E.
    - left. apply lex_cmp_eq; exact E.
    - right. intros ->. rewrite lex_cmp_refl in E. discriminate.
    - right. intros ->. rewrite lex_cmp_refl in E. discriminate.
  Defined.
End KeyOT.
Module KF := OrderedTypeFacts KeyOT.

Notation key := (list N) (only parsing).
Notation klt := KeyOT.lt.

Definition is_nil {A} (l : list A) : bool := match l with [] => true | _ => false end.

Lemma is_nil_true {A} (l : list A) : is_nil l = true <-> l = [].
Proof. destruct l; cbn; split; congruence. Qed.
Lemma is_nil_false {A} (l : list A) : is_nil l = false <-> l <> [].
Proof. destruct l; cbn; split; congruence. Qed.

Lemma ltb_true a b : lex_ltb a b = true <-> klt a b.
Proof. apply lex_ltb_lt. Qed.
Lemma ltb_false a b : lex_ltb a b = false <-> ~ klt a b.
Proof. rewrite <- ltb_true. destruct (lex_ltb a b); split; congruence. Qed.
Lemma leb_true a b : lex_leb a b = true <-> ~ klt b a.
Proof.
  unfold lex_leb, KeyOT.lt, lex_lt. rewrite (lex_cmp_antisym a b).
  destruct (lex_cmp a b); cbn; split; congruence.
Qed.
Lemma leb_false a b : lex_leb a b = false <-> klt b a.
Proof.
  unfold lex_leb, KeyOT.lt, lex_lt. rewrite (lex_cmp_antisym a b).
  destruct (lex_cmp a b); cbn; split; congruence.
Qed.
Lemma eqb_true a b : bytes_eqb a b = true <-> a = b.
Proof. apply bytes_eqb_eq. Qed.
Lemma eqb_false a b : bytes_eqb a b = false <-> a <> b.
Proof. rewrite <- eqb_true. destruct (bytes_eqb a b); split; congruence. Qed.
Lemma nil_min (k : key) : ~ klt k [].
Proof. unfold KeyOT.lt, lex_lt. destruct k; cbn; discriminate. Qed.
Lemma nil_lt (k : key) : k <> [] -> klt [] k.
Proof. unfold KeyOT.lt, lex_lt. destruct k; cbn; congruence. Qed.

(* turn every boolean comparison in the context/goal into a Prop and call `order` *)
Ltac breflect :=
  repeat match goal with
  | H : lex_ltb _ _ = true |- _ => apply ltb_true in H
  | H : lex_ltb _ _ = false |- _ => apply ltb_false in H
  | H : lex_leb _ _ = true |- _ => apply leb_true in H
  | H : lex_leb _ _ = false |- _ => apply leb_false in H
  | H : bytes_eqb _ _ = true |- _ => apply eqb_true in H
  | H : bytes_eqb _ _ = false |- _ => apply eqb_false in H
  | H : is_nil _ = true |- _ => apply is_nil_true in H
  | H : is_nil _ = false |- _ => apply is_nil_false in H
  end.
Ltac bcase :=
  repeat match goal with
  | |- context [lex_ltb ?a ?b] => let E := fresh "E" in destruct (lex_ltb a b) eqn:E
  | |- context [lex_leb ?a ?b] => let E := fresh "E" in destruct (lex_leb a b) eqn:E
  | |- context [bytes_eqb ?a ?b] => let E := fresh "E" in destruct (bytes_eqb a b) eqn:E
  | |- context [is_nil ?a] => let E := fresh "E" in destruct (is_nil a) eqn:E
  end.
Ltac korder :=
  breflect; subst;
  try (exfalso;
       repeat match goal with
       | H : ?k <> [] |- _ => lazymatch goal with | _ : klt [] k |- _ => fail | _ => pose proof (nil_lt k H) end
       end;
       repeat match goal with
       | H : klt ?k [] |- _ => exact (nil_min k H)
       end;
       KF.order).
Ltac ksolve := cbn [andb orb negb]; bcase; cbn [andb orb negb]; try reflexivity; try congruence; korder.

(* k < e where an empty e means +infinity (the Go code's `len(endKey) == 0 ||` idiom) *)
Definition below (k e : key) : bool := is_nil e || lex_ltb k e.
