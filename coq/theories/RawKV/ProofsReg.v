(* RawKV/ProofsReg.v — what the linearizability search of the check rests on: under any interleaving of
   atomic single-key calls (get / put / delete / CAS) every key behaves as ONE register with CAS, independent
   of the other keys: the results of the calls on key k are those of a register machine started at Get(k). *)
From Verif Require Import RawKV.Model RawKV.ProofsStore RawKV.ProofsBatch RawKV.ProofsCas.

Inductive reg_op :=
| RegGet
| RegPut (v : list N)
| RegDel
| RegCas (prev : option (list N)) (nv : list N).
Inductive reg_res :=
| ResVal (v : option (list N))
| ResUnit
| ResCas (prev : option (list N)) (swapped : bool).

(* the register machine (this is `step` of check_history in checks/C11.py) *)
Definition reg_apply (cur : option (list N)) (o : reg_op) : reg_res * option (list N) :=
  match o with
  | RegGet => (ResVal cur, cur)
  | RegPut v => (ResUnit, Some v)
  | RegDel => (ResUnit, None)
  | RegCas prev nv => if opt_bytes_eqb cur prev then (ResCas cur true, Some nv) else (ResCas cur false, cur)
  end.
Fixpoint reg_run (cur : option (list N)) (ops : list reg_op) : list reg_res * option (list N) :=
  match ops with
  | [] => ([], cur)
  | o :: r => let '(x, c1) := reg_apply cur o in let '(xs, c2) := reg_run c1 r in (x :: xs, c2)
  end.

(* the same calls on the store, in commit order *)
Definition store_apply (st : store) (k : key) (o : reg_op) : reg_res * store :=
  match o with
  | RegGet => (ResVal (srv_get st k), st)
  | RegPut v => (ResUnit, srv_put st k v 0)
  | RegDel => (ResUnit, st_del st k)
  | RegCas prev nv => let '(p, sw, st1) := srv_cas st k prev nv in (ResCas p sw, st1)
  end.
Fixpoint store_run (st : store) (steps : list (list N * reg_op)) : list reg_res * store :=
  match steps with
  | [] => ([], st)
  | (k, o) :: r => let '(x, s1) := store_apply st k o in let '(xs, s2) := store_run s1 r in (x :: xs, s2)
  end.

(* the calls on key k with their results, in commit order *)
Fixpoint on_key (k : key) (steps : list (list N * reg_op)) (rs : list reg_res) : list (reg_op * reg_res) :=
  match steps, rs with
  | (k', o) :: s, x :: r => if bytes_eqb k' k then (o, x) :: on_key k s r else on_key k s r
  | _, _ => []
  end.

Lemma store_apply_key st k o :
  fst (store_apply st k o) = fst (reg_apply (srv_get st k) o) /\
  forall k', srv_get (snd (store_apply st k o)) k' =
             if bytes_eqb k' k then snd (reg_apply (srv_get st k) o) else srv_get st k'.
Proof.
  destruct o as [|v| |prev nv]; cbn [store_apply reg_apply fst snd].
  - split; [reflexivity|]. intros k'. destruct (bytes_eqb k' k) eqn:E; [breflect; subst; reflexivity|reflexivity].
  - split; [reflexivity|]. intros k'. unfold srv_put, srv_get. rewrite st_get_put.
    destruct (bytes_eqb k' k); reflexivity.
  - split; [reflexivity|]. intros k'. unfold srv_get. rewrite st_get_del. destruct (bytes_eqb k' k); reflexivity.
  - rewrite cas_correct. pose proof (fun k' => spec_cas_get st k prev nv k') as G.
    destruct (spec_cas st k prev nv) as [[p sw] st1]. cbn [fst snd].
    destruct (G k) as [Hp [Hsw _]].
    destruct (opt_bytes_eqb (srv_get st k) prev) eqn:E; cbn [fst snd].
    + assert (sw = true) by (apply Hsw; apply opt_eqb_true; exact E). subst. split; [reflexivity|].
      intros k'. destruct (G k') as [_ [_ Hg]]. rewrite Hg. cbn [andb]. reflexivity.
    + assert (sw = false).
      { destruct sw; [|reflexivity]. exfalso. assert (srv_get st k = prev) by (apply Hsw; reflexivity).
        apply opt_eqb_true in H. congruence. }
      subst. split; [reflexivity|]. intros k'. destruct (G k') as [_ [_ Hg]]. rewrite Hg. cbn [andb].
      destruct (bytes_eqb k' k) eqn:E'; [breflect; subst; reflexivity|reflexivity].
Qed.

Theorem register_per_key k : forall steps st,
  let '(rs, st') := store_run st steps in
  let calls := on_key k steps rs in
  map snd calls = fst (reg_run (srv_get st k) (map fst calls)) /\
  srv_get st' k = snd (reg_run (srv_get st k) (map fst calls)).
Proof.
  induction steps as [|[k' o] r IH]; intros st; cbn [store_run on_key].
  - cbn. split; reflexivity.
  - pose proof (store_apply_key st k' o) as [H1 H2].
    destruct (store_apply st k' o) as [x s1]. cbn [fst snd] in H1, H2.
    specialize (IH s1). destruct (store_run s1 r) as [xs s2]. cbn [on_key].
    destruct IH as [I1 I2]. rewrite (H2 k) in I1, I2.
    destruct (bytes_eqb k' k) eqn:E.
    + breflect; subst k'. rewrite (proj2 (eqb_true k k) eq_refl) in I1, I2.
      cbn [map fst snd reg_run]. rewrite H1.
      destruct (reg_apply (srv_get st k) o) as [x' c1]. cbn [fst snd] in *.
      destruct (reg_run c1 (map fst (on_key k r xs))) as [ys c2]. cbn [fst snd] in *.
      split; [f_equal; exact I1|exact I2].
    + assert (E' : bytes_eqb k k' = false) by (apply eqb_false; breflect; congruence).
      rewrite E' in I1, I2. split; [exact I1|exact I2].
Qed.
