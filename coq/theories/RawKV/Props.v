(* RawKV/Props.v — C11: raw KV operations behave as one ordered map regardless of region layout.
   Every client loop takes an ARBITRARY list of layouts (one per iteration / regrouping round):
   the layout may change between the partial requests of one call. `sorted st` is the store
   invariant (established by [] and preserved by every mutating operation, see the _sorted parts). *)
From Coq Require Import Sorting.Permutation.
From Verif Require Import RawKV.Model RawKV.ProofsStore RawKV.ProofsLoops RawKV.ProofsBatch RawKV.ProofsRounds RawKV.ProofsCas RawKV.ProofsWire RawKV.ProofsPlans RawKV.ProofsTop RawKV.Sequence RawKV.ProofsReg RawKV.ProofsLin RawKV.ProofsFam RawKV.Stream RawKV.ProofsStream RawKV.ProofsShape.

(* get / put (with ttl) / delete: the map laws; the ttl never influences what Get returns *)
Theorem C11_get_put_delete : forall st k v ttl k',
  sorted st ->
  sorted (srv_put st k v ttl) /\ sorted (st_del st k) /\
  srv_get (srv_put st k v ttl) k' = (if bytes_eqb k' k then Some v else srv_get st k') /\
  srv_get (st_del st k) k' = (if bytes_eqb k' k then None else srv_get st k').
Proof. exact c11_get_put_delete. Qed.
Print Assumptions C11_get_put_delete.

(* Scan: first `limit` pairs of [s,e) in order, for any store, range, limit and layout sequence *)
Theorem C11_scan : forall st Ls s e limit res,
  sorted st -> scan st Ls s e limit = Some res ->
  res = map kv (firstn limit (range st s e)).
Proof. exact c11_scan. Qed.
Print Assumptions C11_scan.

(* ... and it finishes within |S|+1 iterations when all split keys ever seen lie in a finite set S
   (fuel = number of layouts supplied) *)
Theorem C11_scan_terminates : forall st S Ls s e limit,
  (forall L, In L Ls -> incl L S) -> (length S < length Ls)%nat ->
  scan st Ls s e limit <> None.
Proof. exact c11_scan_terminates. Qed.
Print Assumptions C11_scan_terminates.

(* ReverseScan(s, e): first `limit` pairs of [e,s) in descending order; s must be a real key
   (the API documents that scanning from "" is not supported: C11_reverse_scan_from_end) *)
Theorem C11_reverse_scan : forall st Ls s e limit res,
  sorted st -> s <> [] -> rscan st Ls s e limit = Some res ->
  res = map kv (firstn limit (rev (range st e s))).
Proof. exact c11_reverse_scan. Qed.
Print Assumptions C11_reverse_scan.

Theorem C11_reverse_scan_terminates : forall st S Ls s e limit,
  s <> [] -> (forall L, In L Ls -> incl L S) -> (length S < length Ls)%nat ->
  rscan st Ls s e limit <> None.
Proof. exact c11_reverse_scan_terminates. Qed.
Print Assumptions C11_reverse_scan_terminates.

Theorem C11_reverse_scan_from_end : forall st Ls e limit, rscan st Ls [] e limit = Some [].
Proof. exact c11_reverse_scan_from_end. Qed.
Print Assumptions C11_reverse_scan_from_end.

(* DeleteRange: exactly the keys of [s,e) are removed, every other key keeps its entry *)
Theorem C11_delete_range : forall st Ls s e st',
  sorted st -> drange_loop st Ls s e = Some st' ->
  sorted st' /\
  st' = filter (fun p => negb (in_range s e p)) st /\
  forall k, st_get st' k = if lex_leb s k && below k e then None else st_get st k.
Proof. exact c11_delete_range. Qed.
Print Assumptions C11_delete_range.

Theorem C11_delete_range_terminates : forall st S Ls s e,
  (forall L, In L Ls -> incl L S) -> (length S < length Ls)%nat ->
  drange_loop st Ls s e <> None.
Proof. exact c11_delete_range_terminates. Qed.
Print Assumptions C11_delete_range_terminates.

(* Checksum: the per-region fold equals the checksum of the whole range — independent of where
   the regions cut it; the digest (crc64 of key++value) is arbitrary *)
Theorem C11_checksum : forall digest st Ls s e res,
  sorted st -> cksum digest st Ls s e = Some res ->
  res = cks_list digest (range st s e).
Proof. exact c11_checksum. Qed.
Print Assumptions C11_checksum.

Theorem C11_checksum_cut_independent : forall digest st Ls1 Ls2 s e r1 r2,
  sorted st -> cksum digest st Ls1 s e = Some r1 -> cksum digest st Ls2 s e = Some r2 -> r1 = r2.
Proof. exact c11_checksum_cut_independent. Qed.
Print Assumptions C11_checksum_cut_independent.

(* checksum of a union of adjacent ranges = xor / sums of the parts *)
Theorem C11_checksum_union : forall digest st a b c,
  sorted st -> b <> [] -> ~ klt b a -> (c = [] \/ ~ klt c b) ->
  cks_list digest (range st a c) = cks_add (cks_list digest (range st a b)) (cks_list digest (range st b c)).
Proof. exact c11_checksum_union. Qed.
Print Assumptions C11_checksum_union.

Theorem C11_checksum_terminates : forall digest st S Ls s e,
  (forall L, In L Ls -> incl L S) -> (length S < length Ls)%nat ->
  cksum digest st Ls s e <> None.
Proof. exact c11_checksum_terminates. Qed.
Print Assumptions C11_checksum_terminates.

(* BatchGet: values positionally aligned with the requested keys (duplicates allowed, absent
   keys -> nil), for any schedule of groupings / sub-batches / region errors / regroupings *)
Theorem C11_batch_get_aligned : forall st sched keys res,
  batch_get st sched keys = Some (Some res) ->
  res = map (srv_get st) keys /\ length res = length keys.
Proof. exact c11_batch_get_aligned. Qed.
Print Assumptions C11_batch_get_aligned.

(* BatchPut that returned nil = the puts applied in request order (last value of a duplicated key wins) *)
Theorem C11_batch_put_last_wins : forall st sched kvs st',
  sorted st -> batch_put st sched kvs = Some (st', true) ->
  sorted st' /\ st' = fold_left (fun s p => st_put s (fst p) (snd p)) kvs st /\
  forall k, st_get st' k = match find_last kvs k with Some e => Some e | None => st_get st k end.
Proof. exact c11_batch_put_last_wins. Qed.
Print Assumptions C11_batch_put_last_wins.

(* BatchPut that may have returned an error (some batch failed for good or was cancelled after
   others succeeded): every key keeps its entry or carries ITS last value of this call; keys
   outside the request are untouched; nothing else is promised (no atomicity across keys) *)
Theorem C11_batch_put_partial_failure : forall st sched kvs st' ok,
  sorted st -> batch_put st sched kvs = Some (st', ok) ->
  sorted st' /\
  forall k, st_get st' k = st_get st k \/
            (In k (map fst kvs) /\ exists e, find_last kvs k = Some e /\ st_get st' k = Some e).
Proof. exact c11_batch_put_partial_failure. Qed.
Print Assumptions C11_batch_put_partial_failure.

Theorem C11_batch_delete : forall st sched keys st',
  sorted st -> bdel_rounds st sched keys = Some (st', true) ->
  sorted st' /\ st' = fold_left st_del keys st /\
  forall k, st_get st' k = if existsb (bytes_eqb k) keys then None else st_get st k.
Proof. exact c11_batch_delete. Qed.
Print Assumptions C11_batch_delete.

Theorem C11_batch_delete_partial_failure : forall st sched keys st' ok,
  sorted st -> bdel_rounds st sched keys = Some (st', ok) ->
  sorted st' /\ forall k, st_get st' k = st_get st k \/ (In k keys /\ st_get st' k = None).
Proof. exact c11_batch_delete_partial_failure. Qed.
Print Assumptions C11_batch_delete_partial_failure.

(* sub-batching (512 keys / 16 KB) cuts a region group into consecutive pieces, and the result of
   a batch call does not depend on where the batches are cut nor on the order they are applied:
   ANY list of batches covering the request gives the single-map result *)
Theorem C11_batch_boundaries_independent :
  (forall ks, concat (key_chunks ks) = ks) /\
  (forall kvs ks, concat (put_chunks kvs ks) = ks) /\
  (forall st keys bs, (forall k, In k keys -> In k (concat bs)) ->
     assemble keys (flat_map (srv_batch_get st) bs) = map (srv_get st) keys) /\
  (forall st kvs bs, sorted st ->
     (forall p, In p (concat bs) -> find_last kvs (fst p) = Some (snd p)) ->
     (forall k, In k (map fst kvs) -> exists e, In (k, e) (concat bs)) ->
     fold_left srv_batch_put bs st = fold_left (fun s p => st_put s (fst p) (snd p)) kvs st) /\
  (forall st keys bs, sorted st -> (forall k, In k (concat bs) <-> In k keys) ->
     fold_left srv_batch_delete bs st = fold_left st_del keys st).
Proof. exact c11_batch_boundaries_independent. Qed.
Print Assumptions C11_batch_boundaries_independent.

(* a batch call finishes as soon as one round serves every batch *)
Theorem C11_batch_terminates : forall st sched L keys kvs,
  batch_get st (sched ++ [(L, all_served)]) keys <> None /\
  batch_put st (sched ++ [(L, all_served)]) kvs <> None.
Proof. exact c11_batch_terminates. Qed.
Print Assumptions C11_batch_terminates.

(* DeleteRange whose i-th request fails for good: exactly the keys k with s <= k < cursor are gone
   (a prefix of the range, cut at region ends), everything else is untouched *)
Theorem C11_delete_range_interrupted : forall st Ls s e st' c,
  sorted st -> drange_run st Ls s e = DrFailed st' c ->
  sorted st' /\ ~ klt c s /\ (c = s \/ e = [] \/ ~ klt e c) /\
  st' = filter (fun p => negb (lex_leb s (fst p) && lex_ltb (fst p) c)) st /\
  forall k, st_get st' k = if lex_leb s k && lex_ltb k c then None else st_get st k.
Proof. exact c11_delete_range_interrupted. Qed.
Print Assumptions C11_delete_range_interrupted.

(* CompareAndSwap = compare-and-swap on the map, including previous-not-exist and empty values *)
Theorem C11_cas : forall st k prev nv,
  srv_cas st k prev nv = spec_cas st k prev nv /\
  (sorted st -> sorted (snd (srv_cas st k prev nv))).
Proof. exact c11_cas. Qed.
Print Assumptions C11_cas.

(* CompareAndSwap needs SetAtomicForCAS(true); without it the call fails and changes nothing *)
Theorem C11_atomic_mode : forall st k prev nv,
  client_cas false st k prev nv = None /\ client_cas true st k prev nv = Some (spec_cas st k prev nv).
Proof. exact c11_atomic_mode. Qed.
Print Assumptions C11_atomic_mode.

(* concurrent CAS callers = any interleaving of atomic steps = the same steps on the map *)
Theorem C11_cas_interleaving : forall steps st, run_cas st steps = spec_run_cas st steps.
Proof. exact run_cas_spec. Qed.
Print Assumptions C11_cas_interleaving.

(* ... and among the callers that expect pe on key k at most one succeeds, provided nobody writes pe
   back (vacuous for pe = None: create-if-absent is a lock in every interleaving) *)
Theorem C11_cas_at_most_one_winner : forall k pe steps st,
  never_writes k pe steps -> (wins k pe steps (fst (run_cas st steps)) <= 1)%nat.
Proof. exact cas_at_most_one_winner. Qed.
Print Assumptions C11_cas_at_most_one_winner.

(* whole sequences: ANY list of calls, each carrying ANY schedule — layouts per partial request, Served /
   Bounced / Dropped sub-batches, DeleteRange requests that fail, the limit and atomic-mode error paths —
   returns the results and leaves the map of spec_ops: complete calls act as on one ordered map (no
   layout appears), a call in which a request fails reports the error and leaves the fold of the effects
   of the requests its schedule serves (bput_plan / bdel_plan / drange_plan are store-free) *)
Theorem C11_sequence : forall digest ops st rs st',
  sorted st -> run_ops digest st ops = Some (rs, st') ->
  (rs, st') = spec_ops digest st ops /\ sorted st'.
Proof. exact run_ops_spec. Qed.
Print Assumptions C11_sequence.

(* the request stream of BatchPutWithTTL: the literal three-slice AppendBatches cuts where put_chunks cuts
   and every batch carries, position by position, the (key, last value, last ttl) triples of its keys;
   nothing is lost, duplicated or misaligned, for the code's chunker and for any partition *)
Theorem C11_batch_put_wire :
  (forall kvs ks, append_batches kvs ks = map (batch3_of kvs) (put_chunks kvs ks)) /\
  (forall kvs ks,
     flat_map triples (append_batches kvs ks) = map (fun k => (k, kv_of kvs k, ttl_of kvs k)) ks /\
     Forall (fun b => length (b_vals b) = length (b_keys b) /\ length (b_ttls b) = length (b_keys b)) (append_batches kvs ks)) /\
  (forall kvs bs,
     flat_map (fun ks => triples (batch3_of kvs ks)) bs = map (fun k => (k, kv_of kvs k, ttl_of kvs k)) (concat bs)).
Proof. exact c11_batch_put_wire. Qed.
Print Assumptions C11_batch_put_wire.

(* limit > MaxRawKVScanLimit is refused before any request; limit 0, start = end, start > end send nothing *)
Theorem C11_scan_edge_cases :
  (forall st Ls s e limit, client_scan st Ls s e limit = None <-> max_raw_kv_scan_limit < N.of_nat limit) /\
  (forall st Ls s e limit, client_rscan st Ls s e limit = None <-> max_raw_kv_scan_limit < N.of_nat limit) /\
  (forall st Ls s e, scan st Ls s e 0 = Some [] /\ rscan st Ls s e 0 = Some []) /\
  (forall digest st Ls s e limit, e <> [] -> ~ klt s e ->
     scan st Ls s e limit = Some [] /\ drange_loop st Ls s e = Some st /\ cksum digest st Ls s e = Some cks_zero) /\
  (forall st Ls s e limit, ~ klt e s -> rscan st Ls s e limit = Some []).
Proof. exact c11_scan_edge_cases. Qed.
Print Assumptions C11_scan_edge_cases.

(* concurrent single-key calls: in any commit order every key is ONE register with CAS, independent of the
   other keys (what the linearizability search of the check assumes as its sequential specification) *)
Theorem C11_register_per_key : forall k steps st,
  let '(rs, st') := store_run st steps in
  let calls := on_key k steps rs in
  map snd calls = fst (reg_run (srv_get st k) (map fst calls)) /\
  srv_get st' k = snd (reg_run (srv_get st k) (map fst calls)).
Proof. exact register_per_key. Qed.
Print Assumptions C11_register_per_key.

(* LINEARIZABILITY of concurrent get / put / delete / CAS callers: every call has an invocation and a return stamp
   and takes effect atomically at some instant in between (the store's mutex); listed by those instants the calls
   form ONE sequential order that never places a call before one that had returned before it was invoked, and in
   which every key is a register with CAS whose results are exactly what the callers saw. (C11_cas_interleaving and
   C11_register_per_key are the two model-shape halves of this; this is the statement check_history searches for.) *)
Theorem C11_linearizable : forall h st,
  Forall tc_wf h -> commit_order h ->
  respects_real_time h /\
  forall k,
    let '(rs, st') := store_run st (steps_of h) in
    let calls := on_key k (steps_of h) rs in
    map snd calls = fst (reg_run (srv_get st k) (map fst calls)) /\
    srv_get st' k = snd (reg_run (srv_get st k) (map fst calls)).
Proof. exact linearizable. Qed.
Print Assumptions C11_linearizable.

(* column families: what family c holds in the end is what the calls naming c produce on one map *)
Theorem C11_families_independent : forall digest tops f rs f',
  (forall c, sorted (f c)) -> run_tagged digest f tops = Some (rs, f') ->
  forall c, f' c = snd (spec_ops digest (f c) (calls_of c tops)) /\ sorted (f' c).
Proof. exact families_independent. Qed.
Print Assumptions C11_families_independent.

(* API v2: the store holds prefix ++ key; Checksum over [prefix++s, prefix++e) is the checksum of the PREFIXED
   pairs of [s,e): digest and byte count include the keyspace prefix, the pair count does not change *)
Theorem C11_checksum_v2 : forall digest pfx st Ls s e res,
  sorted st -> e <> [] ->
  cksum digest (prefix_store pfx st) Ls (pfx ++ s) (pfx ++ e) = Some res ->
  res = cks_list digest (prefix_store pfx (range st s e)).
Proof. exact cksum_v2. Qed.
Print Assumptions C11_checksum_v2.

(* REQUEST STREAMS (what the gate sees, predicted by the model and compared request by request).
   Scan: the result is exactly the concatenation of the answers to the stream (no post-processing); every
   request carries the caller's end key untouched and limit = what is still missing (>= 1); starts move
   strictly upwards, each one the end of the region that served the previous request *)
Theorem C11_scan_stream : forall st Ls s e limit res,
  scan st Ls s e limit = Some res ->
  res = scan_replay st Ls (scan_reqs st Ls s e limit 0) /\
  scan_stream_ok st Ls (scan_reqs st Ls s e limit 0) s e limit 0.
Proof. exact c11_scan_stream. Qed.
Print Assumptions C11_scan_stream.

Theorem C11_reverse_scan_stream : forall st Ls s e limit res,
  rscan st Ls s e limit = Some res -> res = rscan_replay st Ls (rscan_reqs st Ls s e limit 0).
Proof. exact c11_reverse_scan_stream. Qed.
Print Assumptions C11_reverse_scan_stream.

(* DeleteRange: the served requests tile a prefix of the range (contiguous from s, each non-empty, an unbounded
   one is the last) and the store left behind — complete or interrupted — is those requests applied in order *)
Theorem C11_delete_range_stream : forall st Ls s e,
  tiles (drange_reqs Ls s e) s /\
  let st' := fold_left (fun x r => srv_delete_range x (fst r) (snd r)) (drange_reqs Ls s e) st in
  match drange_run st Ls s e with DrDone x => x = st' | DrFailed x _ => x = st' | DrFuel => True end.
Proof. exact c11_delete_range_stream. Qed.
Print Assumptions C11_delete_range_stream.

(* batches on the wire: all keys of a sub-batch lie in ONE region of the grouping layout; a key batch has at
   most 513 keys; a put batch was below 16 KB before its last pair *)
Theorem C11_batches_well_formed :
  (forall L keys, Forall (fun b => Forall (fun k => loc_lo L k = fst (fst b)) (snd b)) (sub_batches key_chunks L keys)) /\
  (forall kvs L keys, Forall (fun b => Forall (fun k => loc_lo L k = fst (fst b)) (snd b)) (sub_batches (put_chunks kvs) L keys)) /\
  (forall ks, Forall (fun b => (length b <= 513)%nat) (key_chunks ks)) /\
  (forall kvs ks, Forall (fun b => b <> [] -> weight (pair_size kvs) (removelast b) < raw_batch_put_size) (put_chunks kvs ks)).
Proof. exact c11_batches_well_formed. Qed.
Print Assumptions C11_batches_well_formed.

(* the output-shape oracles of the check, as consequences: strictly ascending keys, at most `limit` pairs, every
   pair inside [s,e) and equal to what Get returns *)
Theorem C11_scan_result_shape : forall st Ls s e limit res,
  sorted st -> scan st Ls s e limit = Some res ->
  keys_asc res /\ (length res <= limit)%nat /\
  forall k v, In (k, v) res -> lex_leb s k = true /\ below k e = true /\ srv_get st k = Some v.
Proof. exact scan_result_shape. Qed.
Print Assumptions C11_scan_result_shape.

Theorem C11_reverse_scan_result_shape : forall st Ls s e limit res,
  sorted st -> s <> [] -> rscan st Ls s e limit = Some res ->
  keys_desc res /\ (length res <= limit)%nat /\
  forall k v, In (k, v) res -> lex_leb e k = true /\ lex_ltb k s = true.
Proof. exact rscan_result_shape. Qed.
Print Assumptions C11_reverse_scan_result_shape.

(* the sub-batches of a batch call are a permutation of the requested keys, duplicates included *)
Theorem C11_batches_partition_request : forall ch L keys,
  chunker_ok ch -> Permutation (flat_map snd (sub_batches ch L keys)) keys.
Proof. exact sub_batches_perm. Qed.
Print Assumptions C11_batches_partition_request.

(* ---------------------------------------------------------------- non-vacuity *)
Definition ex_store : store :=
  srv_batch_put [] [([97], mkEntry [1] 0); ([98], mkEntry [2] 5); ([98; 0], mkEntry [] 0);
                    ([99], mkEntry [3] 0); ([100], mkEntry [4] 0); ([97], mkEntry [9] 7)].
Example ex_sorted : sorted ex_store.
Proof. apply sorted_batch_put. apply sorted_nil. Qed.
(* scan [a, d) limit 3 across regions cut at b and c, then re-cut at "b\0" mid-call:
   the limit is reached exactly at the border c *)
Example ex_scan :
  scan ex_store [[[98]; [99]]; [[98; 0]; [99]]; [[99]]] [97] [100] 3
  = Some [([97], [9]); ([98], [2]); ([98; 0], [])].
Proof. vm_compute. reflexivity. Qed.
Example ex_rscan :
  rscan ex_store [[[98]; [99]]; [[98; 0]]; []] [100] [] 10
  = Some [([99], [3]); ([98; 0], []); ([98], [2]); ([97], [9])].
Proof. vm_compute. reflexivity. Qed.
Example ex_drange :
  option_map (map kv) (drange_loop ex_store [[[98]]; [[98; 0]; [99]]; [[99]]] [97; 0] [99])
  = Some [([97], [9]); ([99], [3]); ([100], [4])].
Proof. vm_compute. reflexivity. Qed.
Example ex_bget :
  batch_get ex_store [([[98; 0]], fun g _ => if bytes_eqb g [] then Served else Bounced); ([[99]], all_served)]
            [[99]; [101]; [97]; [99]; [98; 0]]
  = Some (Some [Some [3]; None; Some [9]; Some [3]; Some []]).
Proof. vm_compute. reflexivity. Qed.
Example ex_cas_absent : fst (srv_cas ex_store [101] None [7]) = (None, true).
Proof. vm_compute. reflexivity. Qed.
Example ex_cas_empty_vs_absent : fst (srv_cas ex_store [98; 0] None [7]) = (Some [], false).
Proof. vm_compute. reflexivity. Qed.
Example ex_cksum_cut :
  cksum (fun k v => N.of_nat (length k + length v)) ex_store [[[98]]; [[99]]; []] [] []
  = cksum (fun k v => N.of_nat (length k + length v)) ex_store [[]] [] [].
Proof. vm_compute. reflexivity. Qed.
Example ex_sequence :
  option_map fst (run_ops (fun _ _ => 0) []
    [OBatchPut [([97], mkEntry [1] 0); ([99], mkEntry [3] 0); ([97], mkEntry [2] 0)] [([[98]], all_served)];
     OCas true [98] None [7];
     ODeleteRange [97; 0] [] [Some [[98]]; Some [[99]]; Some []];
     OScan [] [] 5 [[]]])
  = Some [RUnit; RCas None true; RUnit; RPairs [([97], [2])]].
Proof. vm_compute. reflexivity. Qed.
(* a batch put whose second region batch is dropped: a is written, c keeps its old entry *)
Example ex_bput_partial_failure :
  option_map (fun r => (map kv (fst r), snd r))
    (batch_put ex_store [([[98]], fun g _ => if bytes_eqb g [] then Served else Dropped)]
               [([97], mkEntry [5] 0); ([99], mkEntry [6] 0)])
  = Some ([([97], [5]); ([98], [2]); ([98; 0], []); ([99], [3]); ([100], [4])], false).
Proof. vm_compute. reflexivity. Qed.
(* sub-batching: 3 keys with the count limit lowered to 1 are cut 2 + 1 (the Go test is count > limit) *)
Example ex_chunk : chunk (fun c => 1 <? c) (fun _ => 1) [[1]; [2]; [3]] = [[[1]; [2]]; [[3]]].
Proof. vm_compute. reflexivity. Qed.
Example ex_drange_interrupted :
  match drange_run ex_store [Some [[98]]; None] [97] [100] with
  | DrFailed st' c => (map kv st', c) = ([([98], [2]); ([98; 0], []); ([99], [3]); ([100], [4])], [98])
  | _ => False
  end.
Proof. vm_compute. reflexivity. Qed.
Example ex_cas_race :
  fst (run_cas ex_store [([101], None, [1]); ([101], None, [2]); ([101], Some [1], [3]); ([101], None, [4])])
  = [(None, true); (Some [1], false); (Some [1], true); (Some [3], false)].
Proof. vm_compute. reflexivity. Qed.
(* a sequence with a half-failed batch put, a refused scan and a CAS without atomic mode *)
Example ex_sequence_outcomes :
  option_map (fun r => (fst r, map kv (snd r))) (run_ops (fun _ _ => 0) ex_store
    [OBatchPut [([97], mkEntry [5] 0); ([99], mkEntry [6] 0)] [([[98]], fun g _ => if bytes_eqb g [] then Served else Dropped)];
     OScan [] [] 20000 [];
     OCas false [97] None [1];
     ODeleteRange [98] [] [Some [[99]]; None];
     OScan [] [] 9 [[]]])
  = Some ([RErr; RErr; RErr; RErr; RPairs [([97], [5]); ([99], [3]); ([100], [4])]],
          [([97], [5]); ([99], [3]); ([100], [4])]).
Proof. vm_compute. reflexivity. Qed.
Example ex_wire :
  map triples (append_batches [([1], mkEntry [7] 3); ([2], mkEntry [8] 4); ([1], mkEntry [9] 5)] [[1]; [2]; [1]])
  = [[([1], [9], 5); ([2], [8], 4); ([1], [9], 5)]].
Proof. vm_compute. reflexivity. Qed.
Example ex_register :
  fst (store_run ex_store [([101], RegCas None [1]); ([97], RegGet); ([101], RegCas None [2]); ([101], RegDel); ([101], RegGet)])
  = [ResCas None true; ResVal (Some [9]); ResCas (Some [1]) false; ResUnit; ResVal None].
Proof. vm_compute. reflexivity. Qed.
Example ex_scan_stream :
  scan_reqs ex_store [[[98]; [99]]; [[98; 0]; [99]]; [[99]]] [97] [100] 3 0
  = [([97], [100], 3%nat); ([98], [100], 2%nat); ([98; 0], [100], 1%nat)].
Proof. vm_compute. reflexivity. Qed.
Example ex_drange_stream :
  drange_reqs [Some [[98]]; Some [[98; 0]; [99]]; None] [97; 0] [] = [([97; 0], [98]); ([98], [98; 0])].
Proof. vm_compute. reflexivity. Qed.
Example ex_partition : Permutation (flat_map snd (sub_batches key_chunks [[98]] [[99]; [97]; [99]])) [[99]; [97]; [99]].
Proof. apply C11_batches_partition_request. exact key_chunks_ok. Qed.
(* two overlapping CAS callers and a later reader: commit order = w1, w2, reader *)
Example ex_linearizable :
  let h := [mkTcall 1 2 5 [101] (RegCas None [1]); mkTcall 2 3 4 [101] (RegCas None [2]); mkTcall 6 7 8 [101] RegGet] in
  Forall tc_wf h /\ commit_order h /\
  fst (store_run ex_store (steps_of h)) = [ResCas None true; ResCas (Some [1]) false; ResVal (Some [1])].
Proof.
  cbv zeta. split; [repeat constructor|]. split; [repeat constructor|vm_compute; reflexivity].
Qed.
