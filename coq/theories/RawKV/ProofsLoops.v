(* RawKV/ProofsLoops.v — the per-call cursor loops (Scan, ReverseScan, DeleteRange) compute the
   single-map result for ANY sequence of layouts; termination under a finite set of split keys. *)
From Coq Require Import Sorting.Sorted.
From Verif Require Import RawKV.Model RawKV.ProofsStore.

(* ---------------------------------------------------------------- location *)
Lemma loc_hi_spec L k : loc_hi L k = [] \/ (klt k (loc_hi L k) /\ In (loc_hi L k) L).
Proof.
  induction L as [|s r IH]; cbn [loc_hi]; [left; reflexivity|].
  destruct (lex_ltb k s) eqn:E.
  - destruct (is_nil (loc_hi r k)) eqn:En.
    + right. breflect. split; [exact E|left; reflexivity].
    + destruct (lex_ltb s (loc_hi r k)) eqn:E2.
      * right. breflect. split; [exact E|left; reflexivity].
      * destruct IH as [IH|[IH1 IH2]]; [breflect; congruence|]. right. split; [exact IH1|right; exact IH2].
  - destruct IH as [IH|[IH1 IH2]]; [left; exact IH|right; split; [exact IH1|right; exact IH2]].
Qed.

Lemma loc_end_lo_spec L k : k <> [] ->
  klt (loc_end_lo L k) k /\ (loc_end_lo L k = [] \/ In (loc_end_lo L k) L).
Proof.
  intros Hk. induction L as [|s r [IH1 IH2]]; cbn [loc_end_lo].
  - split; [apply nil_lt; exact Hk|left; reflexivity].
  - destruct (lex_ltb s k) eqn:E.
    + destruct (lex_ltb (loc_end_lo r k) s) eqn:E2.
      * breflect. split; [exact E|right; left; reflexivity].
      * split; [exact IH1|]. destruct IH2 as [IH2|IH2]; [left; exact IH2|right; right; exact IH2].
    + split; [exact IH1|]. destruct IH2 as [IH2|IH2]; [left; exact IH2|right; right; exact IH2].
Qed.

(* ---------------------------------------------------------------- firstn helpers *)
Lemma firstn_firstn_app {A} n (a b : list A) : firstn n (firstn n a ++ b) = firstn n (a ++ b).
Proof.
  revert a; induction n as [|n IH]; intros a; [reflexivity|].
  destruct a as [|x a]; cbn [firstn app]; [reflexivity|]. f_equal. apply IH.
Qed.
Lemma firstn_acc {A} limit (acc x : list A) :
  (length acc <= limit)%nat -> firstn limit (acc ++ x) = acc ++ firstn (limit - length acc) x.
Proof. intros H. rewrite firstn_app. rewrite firstn_all2 by exact H. reflexivity. Qed.
Lemma firstn_mid {A} limit (acc a b : list A) :
  (length acc <= limit)%nat ->
  firstn limit ((acc ++ firstn (limit - length acc) a) ++ b) = firstn limit (acc ++ a ++ b).
Proof.
  intros H. rewrite <- app_assoc.
  rewrite (firstn_acc limit acc (firstn (limit - length acc) a ++ b)) by exact H.
  rewrite (firstn_acc limit acc (a ++ b)) by exact H.
  f_equal. apply firstn_firstn_app.
Qed.
Lemma firstn_full {A} limit (acc x : list A) : length acc = limit -> firstn limit (acc ++ x) = acc.
Proof.
  intros H. rewrite firstn_acc by lia. rewrite H, Nat.sub_diag. cbn. apply app_nil_r.
Qed.

(* ---------------------------------------------------------------- Scan *)
Definition spec_scan (st : store) (s e : key) (limit : nat) : list (list N * list N) :=
  map kv (firstn limit (range st s e)).

Lemma min_end_cases re e :
  (min_end re e = e /\ (re = [] \/ (e <> [] /\ klt e re))) \/
  (min_end re e = re /\ re <> [] /\ (e = [] \/ ~ klt e re)).
Proof.
  unfold min_end. destruct (is_nil e) eqn:E1; cbn [negb andb].
  - destruct (is_nil re) eqn:E2; breflect; subst; [left; split; [reflexivity|left; reflexivity]|right; tauto].
  - destruct (is_nil re) eqn:E2; cbn [orb].
    + breflect; subst. left. split; [reflexivity|left; reflexivity].
    + destruct (lex_ltb e re) eqn:E3; breflect; [left; tauto|right; tauto].
Qed.

Lemma scan_loop_correct st e limit : sorted st ->
  forall Ls cur acc res,
    (length acc <= limit)%nat ->
    scan_loop st Ls cur e limit acc = Some res ->
    res = firstn limit (acc ++ map kv (range st cur e)).
Proof.
  intros Hs. induction Ls as [|L Ls IH]; intros cur acc res Hacc; cbn [scan_loop].
  - destruct ((length acc <? limit)%nat && below cur e) eqn:C; [discriminate|].
    intros [= <-]. apply andb_false_iff in C. destruct C as [C|C].
    + apply Nat.ltb_ge in C. symmetry. apply firstn_full. lia.
    + unfold below in C. apply orb_false_iff in C. destruct C as [C1 C2]. breflect.
      rewrite range_empty by assumption. cbn. rewrite app_nil_r. symmetry. apply firstn_all2; exact Hacc.
  - destruct ((length acc <? limit)%nat && below cur e) eqn:C.
    2:{ intros [= <-]. apply andb_false_iff in C. destruct C as [C|C].
        + apply Nat.ltb_ge in C. symmetry. apply firstn_full. lia.
        + unfold below in C. apply orb_false_iff in C. destruct C as [C1 C2]. breflect.
          rewrite range_empty by assumption. cbn. rewrite app_nil_r. symmetry. apply firstn_all2; exact Hacc. }
    apply andb_true_iff in C. destruct C as [_ Cb].
    unfold srv_scan. set (hi := loc_hi L cur).
    destruct (loc_hi_spec L cur) as [Hhi|[Hhi _]]; fold hi in Hhi.
    + (* last region: unbounded *)
      rewrite Hhi. cbn [is_nil]. intros [= <-].
      replace (min_end [] e) with e by (unfold min_end; destruct e; reflexivity).
      rewrite firstn_acc by exact Hacc. rewrite firstn_map. reflexivity.
    + assert (Hn : is_nil hi = false) by (apply is_nil_false; intros E0; rewrite E0 in Hhi; exact (nil_min _ Hhi)).
      rewrite Hn. intros Hrec.
      apply IH in Hrec.
      2:{ rewrite app_length, map_length. pose proof (firstn_le_length (limit - length acc) (range st cur (min_end hi e))). lia. }
      subst res. rewrite <- firstn_map.
      destruct (min_end_cases hi e) as [[-> [Hc|[Hc1 Hc2]]]|[-> [Hc1 Hc2]]].
      * breflect. congruence.
      * (* request end inside this region: nothing beyond it *)
        rewrite (range_empty st hi e) by first [assumption | KF.order]. cbn [map].
        rewrite firstn_mid by exact Hacc. rewrite app_nil_r. reflexivity.
      * (* cut at the region end, continue at hi *)
        rewrite (range_split st cur hi e) by first [assumption | KF.order | (destruct Hc2; [left|right]; assumption)].
        rewrite map_app. apply firstn_mid. exact Hacc.
Qed.

Theorem scan_correct st Ls s e limit res :
  sorted st -> scan st Ls s e limit = Some res -> res = spec_scan st s e limit.
Proof.
  intros Hs H. unfold scan in H. apply scan_loop_correct in H; [|exact Hs|cbn; lia].
  subst res. cbn [app]. unfold spec_scan. apply firstn_map.
Qed.

(* termination: all split keys ever seen come from a finite set S *)
Definition above (S : list key) (k : key) : nat := length (filter (fun s => lex_ltb k s) S).

Lemma above_decr S k h : In h S -> klt k h -> (above S h < above S k)%nat.
Proof.
  unfold above. intros Hin Hlt. induction S as [|s S IH]; [destruct Hin|].
  cbn [filter].
  assert (Mono : forall l, (length (filter (fun s0 => lex_ltb h s0) l) <= length (filter (fun s0 => lex_ltb k s0) l))%nat).
  { induction l as [|x l IHl]; cbn [filter]; [lia|].
    destruct (lex_ltb h x) eqn:E1.
    - assert (E2 : lex_ltb k x = true) by (apply ltb_true; breflect; KF.order). rewrite E2. cbn [length]. lia.
    - destruct (lex_ltb k x); cbn [length]; lia. }
  destruct Hin as [->|Hin].
  - assert (E1 : lex_ltb h h = false) by (apply ltb_false; KF.order).
    assert (E2 : lex_ltb k h = true) by (apply ltb_true; exact Hlt).
    rewrite E1, E2. cbn [length]. specialize (Mono S). lia.
  - specialize (IH Hin). destruct (lex_ltb h s) eqn:E1.
    + assert (E2 : lex_ltb k s = true) by (apply ltb_true; breflect; KF.order). rewrite E2. cbn [length]. lia.
    + destruct (lex_ltb k s); cbn [length]; lia.
Qed.

Lemma scan_loop_terminates st S e limit :
  forall Ls cur acc,
    (forall L, In L Ls -> incl L S) ->
    (above S cur < length Ls)%nat ->
    scan_loop st Ls cur e limit acc <> None.
Proof.
  induction Ls as [|L Ls IH]; intros cur acc Hin Hlen; [cbn in Hlen; lia|].
  cbn [scan_loop]. destruct ((length acc <? limit)%nat && below cur e); [|discriminate].
  destruct (loc_hi_spec L cur) as [Hhi|[Hhi1 Hhi2]].
  - rewrite Hhi. cbn [is_nil]. discriminate.
  - destruct (is_nil (loc_hi L cur)); [discriminate|].
    apply IH.
    + intros L' HL'. apply Hin. right; exact HL'.
    + assert (In (loc_hi L cur) S) by (apply (Hin L (or_introl eq_refl)); exact Hhi2).
      pose proof (above_decr S cur _ H Hhi1). cbn [length] in Hlen. lia.
Qed.

(* ---------------------------------------------------------------- ReverseScan *)
Definition spec_rscan (st : store) (s e : key) (limit : nat) : list (list N * list N) :=
  map kv (firstn limit (rev (range st e s))).

Lemma rscan_loop_correct st e limit : sorted st ->
  forall Ls cur acc res,
    cur <> [] ->
    (length acc <= limit)%nat ->
    rscan_loop st Ls cur e limit acc = Some res ->
    res = firstn limit (acc ++ map kv (rev (range st e cur))).
Proof.
  intros Hs.
  assert (Stop : forall cur acc, cur <> [] -> (length acc <= limit)%nat ->
                   (length acc <? limit)%nat && lex_ltb e cur = false ->
                   acc = firstn limit (acc ++ map kv (rev (range st e cur)))).
  { intros cur acc Hc Hacc C. apply andb_false_iff in C. destruct C as [C|C].
    - apply Nat.ltb_ge in C. symmetry. apply firstn_full. lia.
    - breflect. rewrite range_empty by assumption. cbn. rewrite app_nil_r. symmetry. apply firstn_all2; exact Hacc. }
  induction Ls as [|L Ls IH]; intros cur acc res Hcur Hacc; cbn [rscan_loop].
  - destruct ((length acc <? limit)%nat && lex_ltb e cur) eqn:C; [discriminate|].
    intros [= <-]. apply Stop; assumption.
  - destruct ((length acc <? limit)%nat && lex_ltb e cur) eqn:C.
    2:{ intros [= <-]. apply Stop; assumption. }
    apply andb_true_iff in C. destruct C as [_ Cb]. breflect.
    unfold srv_rscan. set (lo := loc_end_lo L cur).
    destruct (loc_end_lo_spec L cur Hcur) as [Hlo _]; fold lo in Hlo.
    destruct (is_nil lo) eqn:Hn.
    + breflect. rewrite Hn. intros [= <-].
      replace (max_start [] e) with e.
      2:{ unfold max_start. destruct (lex_ltb [] e) eqn:E0; [reflexivity|]. breflect. destruct e; [reflexivity|]. exfalso. apply E0. apply nil_lt. discriminate. }
      rewrite firstn_acc by exact Hacc. rewrite firstn_map. reflexivity.
    + breflect. intros Hrec. apply IH in Hrec; [|exact Hn|].
      2:{ rewrite app_length, map_length. pose proof (firstn_le_length (limit - length acc) (rev (range st (max_start lo e) cur))). lia. }
      subst res. rewrite <- firstn_map. unfold max_start.
      destruct (lex_ltb lo e) eqn:E1; breflect.
      * (* request lower bound inside this region: nothing below it *)
        rewrite (range_empty st e lo) by first [assumption | KF.order]. cbn [rev map].
        rewrite firstn_mid by exact Hacc. rewrite app_nil_r. reflexivity.
      * rewrite (range_split st e lo cur) by first [assumption | KF.order | (right; KF.order)].
        rewrite rev_app_distr, map_app. apply firstn_mid. exact Hacc.
Qed.

Theorem rscan_correct st Ls s e limit res :
  sorted st -> s <> [] -> rscan st Ls s e limit = Some res -> res = spec_rscan st s e limit.
Proof.
  intros Hs Hne H. unfold rscan in H. apply rscan_loop_correct in H; [|exact Hs|exact Hne|cbn; lia].
  subst res. cbn [app]. unfold spec_rscan. apply firstn_map.
Qed.

(* the documented gap: ReverseScan from "" (= from the end of the key space) returns nothing *)
Lemma rscan_from_end_empty st Ls e limit : rscan st Ls [] e limit = Some [].
Proof.
  unfold rscan. destruct Ls; cbn [rscan_loop length];
    (replace (lex_ltb e []) with false by (symmetry; apply ltb_false; apply nil_min));
    rewrite andb_false_r; reflexivity.
Qed.

Definition below_count (S : list key) (k : key) : nat := length (filter (fun s => lex_ltb s k) S).
Lemma below_decr S k h : In h S -> klt h k -> (below_count S h < below_count S k)%nat.
Proof.
  unfold below_count. intros Hin Hlt. induction S as [|s S IH]; [destruct Hin|].
  cbn [filter].
  assert (Mono : forall l, (length (filter (fun s0 => lex_ltb s0 h) l) <= length (filter (fun s0 => lex_ltb s0 k) l))%nat).
  { induction l as [|x l IHl]; cbn [filter]; [lia|].
    destruct (lex_ltb x h) eqn:E1.
    - assert (E2 : lex_ltb x k = true) by (apply ltb_true; breflect; KF.order). rewrite E2. cbn [length]. lia.
    - destruct (lex_ltb x k); cbn [length]; lia. }
  destruct Hin as [->|Hin].
  - assert (E1 : lex_ltb h h = false) by (apply ltb_false; KF.order).
    assert (E2 : lex_ltb h k = true) by (apply ltb_true; exact Hlt).
    rewrite E1, E2. cbn [length]. specialize (Mono S). lia.
  - specialize (IH Hin). destruct (lex_ltb s h) eqn:E1.
    + assert (E2 : lex_ltb s k = true) by (apply ltb_true; breflect; KF.order). rewrite E2. cbn [length]. lia.
    + destruct (lex_ltb s k); cbn [length]; lia.
Qed.

Lemma rscan_loop_terminates st S e limit :
  forall Ls cur acc,
    cur <> [] ->
    (forall L, In L Ls -> incl L S) ->
    (below_count S cur < length Ls)%nat ->
    rscan_loop st Ls cur e limit acc <> None.
Proof.
  induction Ls as [|L Ls IH]; intros cur acc Hcur Hin Hlen; [cbn in Hlen; lia|].
  cbn [rscan_loop]. destruct ((length acc <? limit)%nat && lex_ltb e cur); [|discriminate].
  destruct (loc_end_lo_spec L cur Hcur) as [Hlo1 Hlo2].
  destruct (is_nil (loc_end_lo L cur)) eqn:Hn; [discriminate|]. breflect.
  destruct Hlo2 as [Hlo2|Hlo2]; [congruence|].
  apply IH; [exact Hn| |].
  - intros L' HL'. apply Hin. right; exact HL'.
  - assert (In (loc_end_lo L cur) S) by (apply (Hin L (or_introl eq_refl)); exact Hlo2).
    pose proof (below_decr S cur _ H Hlo1). cbn [length] in Hlen. lia.
Qed.

(* ---------------------------------------------------------------- DeleteRange *)
Lemma cut_end_cases hi e :
  (cut_end hi e = hi /\ hi <> [] /\ (e = [] \/ klt hi e)) \/
  (cut_end hi e = e /\ (hi = [] \/ (e <> [] /\ ~ klt hi e))).
Proof.
  unfold cut_end. destruct (is_nil hi) eqn:E1; cbn [negb andb].
  - breflect. right. split; [reflexivity|left; exact E1].
  - destruct (is_nil e) eqn:E2; cbn [orb].
    + breflect. left. tauto.
    + destruct (lex_ltb hi e) eqn:E3; breflect; [left; tauto|right; tauto].
Qed.

Lemma drange_loop_correct e :
  forall Ls st cur st',
    drange_loop st Ls cur e = Some st' -> st' = srv_delete_range st cur e.
Proof.
  assert (Stop : forall st cur, below cur e = false -> st = srv_delete_range st cur e).
  { intros st cur C. unfold below in C. apply orb_false_iff in C. destruct C as [C1 C2].
    symmetry. apply filter_all_true. intros [k v] _. unfold in_range, below; cbn [fst]. rewrite C1. cbn [orb].
    breflect. ksolve. }
  induction Ls as [|L Ls IH]; intros st cur st'; cbn [drange_loop].
  - destruct (below cur e) eqn:C; [discriminate|]. intros [= <-]. apply Stop; exact C.
  - destruct (below cur e) eqn:C.
    2:{ intros [= <-]. apply Stop; exact C. }
    set (hi := loc_hi L cur).
    destruct (loc_hi_spec L cur) as [Hhi|[Hhi _]]; fold hi in Hhi.
    + (* last region: the request end is used as is *)
      rewrite Hhi. unfold cut_end; cbn [is_nil negb andb].
      destruct (is_nil e) eqn:En.
      * intros [= <-]. reflexivity.
      * intros Hrec. apply IH in Hrec. subst st'. unfold srv_delete_range. rewrite filter_filter'.
        apply filter_ext. intros [k v]. unfold in_range, below; cbn [fst]. rewrite En. ksolve.
    + destruct (cut_end_cases hi e) as [[-> [Hc1 Hc2]]|[-> [Hc|[Hc1 Hc2]]]].
      * assert (Hn : is_nil hi = false) by (apply is_nil_false; exact Hc1). rewrite Hn.
        intros Hrec. apply IH in Hrec. subst st'. unfold srv_delete_range. rewrite filter_filter'.
        apply filter_ext. intros [k v]. unfold in_range, below; cbn [fst].
        unfold below in C. destruct Hc2 as [->|Hc2]; ksolve.
      * exfalso. rewrite Hc in Hhi. exact (nil_min _ Hhi).
      * assert (Hn : is_nil e = false) by (apply is_nil_false; exact Hc1). rewrite Hn.
        intros Hrec. apply IH in Hrec. subst st'. unfold srv_delete_range. rewrite filter_filter'.
        apply filter_ext. intros [k v]. unfold in_range, below; cbn [fst]. rewrite Hn. ksolve.
Qed.

(* exactly the keys of [s,e) disappear, every other key keeps its entry *)
Lemma delete_range_get st s e k :
  st_get (srv_delete_range st s e) k = if lex_leb s k && below k e then None else st_get st k.
Proof.
  unfold srv_delete_range, in_range.
  rewrite (st_get_filter (fun x => negb (lex_leb s x && below x e))).
  destruct (lex_leb s k && below k e); reflexivity.
Qed.

Lemma drange_loop_terminates S e :
  forall Ls st cur,
    (forall L, In L Ls -> incl L S) ->
    (above S cur < length Ls)%nat ->
    drange_loop st Ls cur e <> None.
Proof.
  induction Ls as [|L Ls IH]; intros st cur Hin Hlen; [cbn in Hlen; lia|].
  cbn [drange_loop]. destruct (below cur e) eqn:C; [|discriminate].
  destruct (loc_hi_spec L cur) as [Hhi|[Hhi1 Hhi2]].
  - rewrite Hhi. unfold cut_end; cbn [is_nil negb andb]. destruct (is_nil e) eqn:En; [discriminate|].
    (* next iteration stops: cursor = e *)
    destruct Ls as [|L2 Ls2]; cbn [drange_loop]; unfold below; rewrite En; cbn [orb];
      (replace (lex_ltb e e) with false by (symmetry; apply ltb_false; KF.order)); discriminate.
  - destruct (cut_end_cases (loc_hi L cur) e) as [[-> [Hc1 Hc2]]|[-> [Hc|[Hc1 Hc2]]]].
    + destruct (is_nil (loc_hi L cur)); [discriminate|]. apply IH.
      * intros L' HL'. apply Hin. right; exact HL'.
      * assert (In (loc_hi L cur) S) by (apply (Hin L (or_introl eq_refl)); exact Hhi2).
        pose proof (above_decr S cur _ H Hhi1). cbn [length] in Hlen. lia.
    + exfalso. rewrite Hc in Hhi1. exact (nil_min _ Hhi1).
    + destruct (is_nil e) eqn:En; [discriminate|].
      destruct Ls as [|L2 Ls2]; cbn [drange_loop]; unfold below; rewrite En; cbn [orb];
        (replace (lex_ltb e e) with false by (symmetry; apply ltb_false; KF.order)); discriminate.
Qed.
