(* RawKV/ProofsLin.v — linearizability of concurrent single-key calls (get / put / delete / CAS).
   A concurrent execution is a set of calls, each with an invocation and a return stamp; the store executes
   each call atomically (under its mutex) at some instant inside that interval. Listing the calls by that
   instant gives ONE sequential order which (1) never puts a call before one that had already returned when it
   was invoked, and (2) in which every key is a register with CAS: the results the callers saw are the results
   of that sequential run. This is what `check_history` searches for; the theorem says the search cannot fail
   for an implementation whose calls take effect atomically between invocation and return. *)
From Coq Require Import Sorting.Sorted.
From Verif Require Import RawKV.Model RawKV.ProofsStore RawKV.ProofsBatch RawKV.ProofsCas RawKV.ProofsReg.

Record tcall := mkTcall { tc_inv : nat; tc_commit : nat; tc_ret : nat; tc_key : list N; tc_op : reg_op }.

(* every call takes effect between its invocation and its return *)
Definition tc_wf (c : tcall) : Prop := (tc_inv c <= tc_commit c)%nat /\ (tc_commit c <= tc_ret c)%nat.
(* the execution, listed by the instants at which the store executed the calls *)
Definition commit_order (h : list tcall) : Prop := StronglySorted (fun a b => (tc_commit a <= tc_commit b)%nat) h.
(* a sequential order respects real time: no call is placed before one that returned before it was invoked *)
Definition respects_real_time (h : list tcall) : Prop :=
  StronglySorted (fun a b => ~ (tc_ret b < tc_inv a)%nat) h.

Lemma commit_order_real_time h : Forall tc_wf h -> commit_order h -> respects_real_time h.
Proof.
  unfold commit_order, respects_real_time. intros Hwf Hs. induction Hs as [|a r Hs IH Hf]; [constructor|].
  inversion Hwf as [|? ? Wa Wr]; subst. constructor; [apply IH; exact Wr|].
  rewrite Forall_forall in *. intros b Hb. specialize (Hf b Hb). destruct Wa as [Wa1 Wa2].
  destruct (Wr b Hb) as [Wb1 Wb2]. lia.
Qed.

Definition steps_of (h : list tcall) : list (list N * reg_op) := map (fun c => (tc_key c, tc_op c)) h.

(* the linearization theorem: the commit order is a legal sequential history of the per-key registers *)
Theorem linearizable : forall h st,
  Forall tc_wf h -> commit_order h ->
  respects_real_time h /\
  forall k,
    let '(rs, st') := store_run st (steps_of h) in
    let calls := on_key k (steps_of h) rs in
    map snd calls = fst (reg_run (srv_get st k) (map fst calls)) /\
    srv_get st' k = snd (reg_run (srv_get st k) (map fst calls)).
Proof.
  intros h st Hwf Hc. split; [apply commit_order_real_time; assumption|].
  intros k. apply register_per_key.
Qed.

