(* RawKV/Model.v — executable model of rawkv.Client's per-call loops (rawkv/rawkv.go) over the raw
   handlers of mocktikv (rpc.go handleKvRawXxx, mvcc_leveldb.go RawXxx), AS THE CODE IS NOW.
   Store  = sorted association list key -> (value, ttl).
   Layout = list of split keys (regions [s_i, s_{i+1}), first starts at "", last is unbounded).
   Every client loop consumes one layout per iteration: the layout in force when the request of
   that iteration was finally served (sendReq retries region errors until the located region and
   the store's region agree, so the bounds used to advance the cursor are the serving region's). *)
From Verif Require Export RawKV.Order.

Record entry := mkEntry { e_val : list N; e_ttl : N }.
Definition store := list (list N * entry).
Definition layout := list (list N).

(* ---------------------------------------------------------------- ordered map *)
Fixpoint st_get (st : store) (k : key) : option entry :=
  match st with
  | [] => None
  | (k', e) :: r => if bytes_eqb k k' then Some e else st_get r k
  end.

Fixpoint st_put (st : store) (k : key) (e : entry) : store :=
  match st with
  | [] => [(k, e)]
  | (k', e') :: r =>
      match lex_cmp k k' with
      | Lt => (k, e) :: st
      | Eq => (k, e) :: r
      | Gt => (k', e') :: st_put r k e
      end
  end.

Definition st_del (st : store) (k : key) : store :=
  filter (fun p => negb (bytes_eqb (fst p) k)) st.

Definition kv (p : list N * entry) : list N * list N := (fst p, e_val (snd p)).

(* [s, e) with empty e = unbounded *)
Definition in_range (s e : key) (p : list N * entry) : bool :=
  lex_leb s (fst p) && below (fst p) e.
Definition range (st : store) (s e : key) : store := filter (in_range s e) st.

(* ---------------------------------------------------------------- region location *)
(* RegionCache.LocateKey(k): region with start <= k < end.  Only the bounds matter here. *)
Fixpoint loc_lo (L : layout) (k : key) : key :=
  match L with
  | [] => []
  | s :: r => let m := loc_lo r k in
              if lex_leb s k then (if lex_ltb m s then s else m) else m
  end.
Fixpoint loc_hi (L : layout) (k : key) : key :=   (* [] = unbounded *)
  match L with
  | [] => []
  | s :: r => let m := loc_hi r k in
              if lex_ltb k s then (if is_nil m then s else if lex_ltb s m then s else m) else m
  end.
(* RegionCache.LocateEndKey(k), k non-empty: region with start < k <= end *)
Fixpoint loc_end_lo (L : layout) (k : key) : key :=
  match L with
  | [] => []
  | s :: r => let m := loc_end_lo r k in
              if lex_ltb s k then (if lex_ltb m s then s else m) else m
  end.

(* ---------------------------------------------------------------- store side (mocktikv) *)
(* handleKvRawScan / handleKvRawChecksum: upperBound := region end; if len(req.EndKey) > 0 &&
   (len(upperBound) == 0 || req.EndKey < upperBound) { upperBound = req.EndKey } *)
Definition min_end (re e : key) : key :=
  if negb (is_nil e) && (is_nil re || lex_ltb e re) then e else re.
(* KeyOnly is ignored by the mock: values are returned regardless *)
Definition srv_scan (st : store) (re s e : key) (limit : nat) : list (list N * list N) :=
  map kv (firstn limit (range st s (min_end re e))).
(* reverse: lowerBound := region start; if req.EndKey > lowerBound { lowerBound = req.EndKey };
   RawReverseScan iterates downwards from Limit: startKey (nil = no limit) while key >= lowerBound *)
Definition max_start (rs e : key) : key := if lex_ltb rs e then e else rs.
Definition srv_rscan (st : store) (rs s e : key) (limit : nat) : list (list N * list N) :=
  map kv (firstn limit (rev (range st (max_start rs e) s))).
(* doRawDeleteRange: util.Range{Start, Limit} with nil Limit = unbounded *)
Definition srv_delete_range (st : store) (s e : key) : store :=
  filter (fun p => negb (in_range s e p)) st.
(* RawPut ignores nothing we can observe: the mock stores the value only; the ttl is kept in the
   model entry but no mock request reads it (CmdGetKeyTTL is unsupported by mocktikv). *)
Definition srv_put (st : store) (k v : list N) (ttl : N) : store := st_put st k (mkEntry v ttl).
Definition srv_get (st : store) (k : key) : option (list N) := option_map e_val (st_get st k).
(* handleKvRawBatchGet: one pair per requested key that exists (absent keys are omitted);
   duplicates of a key produce duplicate pairs *)
Definition srv_batch_get (st : store) (keys : list key) : list (list N * list N) :=
  flat_map (fun k => match srv_get st k with Some v => [(k, v)] | None => [] end) keys.
Definition srv_batch_put (st : store) (kvs : list (list N * entry)) : store :=
  fold_left (fun s p => st_put s (fst p) (snd p)) kvs st.
Definition srv_batch_delete (st : store) (keys : list key) : store :=
  fold_left st_del keys st.
(* RawCompareAndSwap (mvcc_leveldb.go) behind HandleKvRawCompareAndSwap (rpc.go):
   expectedValue nil (PreviousNotExist) = the key must not exist; an absent key is "no previous
   value", not an error; an existing value is compared bytewise with the expected one.
   Result: (previous value as the client reports it, swapped, new store). *)
Definition cas_result := (option (list N) * bool * store)%type.
Definition srv_cas (st : store) (k : key) (prev : option (list N)) (nv : list N) : cas_result :=
  match st_get st k with
  | None =>
      match prev with
      | None => (None, true, st_put st k (mkEntry nv 0))
      | Some _ => (None, false, st)
      end
  | Some e =>
      match prev with
      | None => (Some (e_val e), false, st)
      | Some p => if bytes_eqb (e_val e) p
                  then (Some (e_val e), true, st_put st k (mkEntry nv 0))
                  else (Some (e_val e), false, st)
      end
  end.
(* what an ordered map with compare-and-swap does (the property's reference) *)
Definition opt_bytes_eqb (a b : option (list N)) : bool :=
  match a, b with
  | None, None => true
  | Some x, Some y => bytes_eqb x y
  | _, _ => false
  end.
Definition spec_cas (st : store) (k : key) (prev : option (list N)) (nv : list N) : cas_result :=
  let cur := srv_get st k in
  if opt_bytes_eqb cur prev then (cur, true, st_put st k (mkEntry nv 0)) else (cur, false, st).

(* Client.CompareAndSwap refuses to run unless SetAtomicForCAS(true) was called (None = that error).
   The flag is also sent as for_cas with Put / Delete / BatchPut / BatchDelete; mocktikv ignores it,
   so those calls do not depend on it and take no flag here. *)
Definition client_cas (atomic : bool) (st : store) (k : key) (prev : option (list N)) (nv : list N)
  : option cas_result :=
  if atomic then Some (srv_cas st k prev nv) else None.

(* concurrent CAS callers: the store executes each CAS under its mutex, one client call = one
   atomic step, so a concurrent execution is an interleaving = a list of steps in commit order *)
Definition cas_step := (list N * option (list N) * list N)%type.    (* key, expected, new value *)
Fixpoint run_cas (st : store) (steps : list cas_step) : list (option (list N) * bool) * store :=
  match steps with
  | [] => ([], st)
  | (k, prev, nv) :: r =>
      let '(p, sw, st1) := srv_cas st k prev nv in
      let '(rs, st2) := run_cas st1 r in
      ((p, sw) :: rs, st2)
  end.

(* ---------------------------------------------------------------- client loops *)
(* Scan: for len(keys) < limit && (len(endKey) == 0 || startKey < endKey) { RawScan(startKey,
   endKey, limit-len(keys)) on the region of startKey; startKey = loc.EndKey; if empty break } *)
Fixpoint scan_loop (st : store) (Ls : list layout) (cur e : key) (limit : nat)
         (acc : list (list N * list N)) : option (list (list N * list N)) :=
  if (length acc <? limit)%nat && below cur e then
    match Ls with
    | [] => None
    | L :: Ls' =>
        let hi := loc_hi L cur in
        let acc' := acc ++ srv_scan st hi cur e (limit - length acc) in
        if is_nil hi then Some acc' else scan_loop st Ls' hi e limit acc'
    end
  else Some acc.
Definition scan (st : store) (Ls : list layout) (s e : key) (limit : nat) := scan_loop st Ls s e limit [].

(* Scan / ReverseScan first refuse limit > MaxRawKVScanLimit (ErrMaxScanLimitExceeded, no request is sent):
   None = that error *)
Definition max_raw_kv_scan_limit : N := 10240.
Definition scan_limit_ok (limit : nat) : bool := N.of_nat limit <=? max_raw_kv_scan_limit.
Definition client_scan (st : store) (Ls : list layout) (s e : key) (limit : nat) :=
  if scan_limit_ok limit then Some (scan st Ls s e limit) else None.

(* ReverseScan: for len(keys) < limit && startKey > endKey { RawScan(reverse) on the region whose
   END side contains startKey; startKey = loc.StartKey; if empty break } *)
Fixpoint rscan_loop (st : store) (Ls : list layout) (cur e : key) (limit : nat)
         (acc : list (list N * list N)) : option (list (list N * list N)) :=
  if (length acc <? limit)%nat && lex_ltb e cur then
    match Ls with
    | [] => None
    | L :: Ls' =>
        let lo := loc_end_lo L cur in
        let acc' := acc ++ srv_rscan st lo cur e (limit - length acc) in
        if is_nil lo then Some acc' else rscan_loop st Ls' lo e limit acc'
    end
  else Some acc.
Definition rscan (st : store) (Ls : list layout) (s e : key) (limit : nat) := rscan_loop st Ls s e limit [].
Definition client_rscan (st : store) (Ls : list layout) (s e : key) (limit : nat) :=
  if scan_limit_ok limit then Some (rscan st Ls s e limit) else None.

(* DeleteRange / sendDeleteRangeReq: actualEndKey := endKey; if len(loc.EndKey) > 0 &&
   (len(endKey) == 0 || loc.EndKey < endKey) { actualEndKey = loc.EndKey } *)
Definition cut_end (hi e : key) : key :=
  if negb (is_nil hi) && (is_nil e || lex_ltb hi e) then hi else e.
Fixpoint drange_loop (st : store) (Ls : list layout) (cur e : key) : option store :=
  if below cur e then
    match Ls with
    | [] => None
    | L :: Ls' =>
        let ae := cut_end (loc_hi L cur) e in
        let st' := srv_delete_range st cur ae in
        if is_nil ae then Some st' else drange_loop st' Ls' ae e
    end
  else Some st.

(* Checksum: crc64-xor / total kvs / total bytes, uint64 arithmetic *)
Record cks := mkCks { c_xor : N; c_kvs : N; c_bytes : N }.
Definition M64 : N := 18446744073709551616.
Definition cks_zero : cks := mkCks 0 0 0.
Definition cks_add (a b : cks) : cks :=
  mkCks (N.lxor (c_xor a) (c_xor b)) ((c_kvs a + c_kvs b) mod M64) ((c_bytes a + c_bytes b) mod M64).
Section Checksum.
  Variable digest : list N -> list N -> N.   (* crc64-ECMA of key ++ value; abstract *)
  Definition cks_one (p : list N * entry) : cks :=
    mkCks (digest (fst p) (e_val (snd p))) 1
          ((N.of_nat (length (fst p)) + N.of_nat (length (e_val (snd p)))) mod M64).
  Definition cks_list (l : store) : cks := fold_left (fun c p => cks_add c (cks_one p)) l cks_zero.
  Definition srv_checksum (st : store) (re s e : key) : cks := cks_list (range st s (min_end re e)).
  Fixpoint cksum_loop (st : store) (Ls : list layout) (cur e : key) (acc : cks) : option cks :=
    if below cur e then
      match Ls with
      | [] => None
      | L :: Ls' =>
          let hi := loc_hi L cur in
          let acc' := cks_add acc (srv_checksum st hi cur e) in
          if is_nil hi then Some acc' else cksum_loop st Ls' hi e acc'
      end
    else Some acc.
  Definition cksum (st : store) (Ls : list layout) (s e : key) := cksum_loop st Ls s e cks_zero.
End Checksum.

(* ---------------------------------------------------------------- batches *)
(* GroupKeysByRegion: keys grouped by located region (identified by its start key), order kept *)
Fixpoint add_group (g k : key) (gs : list (key * list key)) : list (key * list key) :=
  match gs with
  | [] => [(g, [k])]
  | (g', ks) :: r => if bytes_eqb g g' then (g', k :: ks) :: r else (g', ks) :: add_group g k r
  end.
Fixpoint group_keys (L : layout) (keys : list key) : list (key * list key) :=
  match keys with
  | [] => []
  | k :: r => add_group (loc_lo L k) k (group_keys L r)
  end.

(* BatchGet: keyToValue built from all pairs; values[i] = lookup (nil when not found);
   also the last-wins keyToValue / keyToTTL maps of BatchPut *)
Fixpoint find_last {V} (ps : list (list N * V)) (k : key) : option V :=
  match ps with
  | [] => None
  | (k', v) :: r => match find_last r k with
                    | Some x => Some x
                    | None => if bytes_eqb k k' then Some v else None
                    end
  end.

(* kvrpc.AppendKeyBatches / AppendBatches: the keys of one region group are cut into sub-batches;
   `full acc` is tested BEFORE a key is added (count > 512 resp. size >= 16 KB), `w` is what a key
   adds (1 resp. len(key) + len(value)); a sub-batch is flushed as it is when `full` holds *)
Fixpoint chunk_aux (full : N -> bool) (w : key -> N) (ks cur : list key) (acc : N) : list (list key) :=
  match ks with
  | [] => if is_nil cur then [] else [rev cur]
  | k :: r => if full acc then rev cur :: chunk_aux full w r [k] (w k)
              else chunk_aux full w r (k :: cur) (acc + w k)
  end.
Definition chunk (full : N -> bool) (w : key -> N) (ks : list key) : list (list key) :=
  chunk_aux full w ks [] 0.
Definition raw_batch_pair_count : N := 512.
Definition raw_batch_put_size : N := 16384.
Definition key_chunks : list key -> list (list key) :=
  chunk (fun c => raw_batch_pair_count <? c) (fun _ => 1).
Definition pair_size (kvs : list (list N * entry)) (k : key) : N :=
  N.of_nat (length k) + match find_last kvs k with Some e => N.of_nat (length (e_val e)) | None => 0 end.
Definition put_chunks (kvs : list (list N * entry)) : list key -> list (list key) :=
  chunk (fun sz => raw_batch_put_size <=? sz) (pair_size kvs).

(* AppendBatches literally: THREE parallel slices (keys, values, ttls) grown together and flushed together;
   value and ttl of a key come from the last-wins maps keyToValue / keyToTTL (ttl 0 when the call has no ttls).
   A request (RawBatchPutRequest) carries Pairs = zip keys values, Ttls = ttls, Ttl = first ttl, ForCas. *)
Record batch3 := mkBatch3 { b_keys : list (list N); b_vals : list (list N); b_ttls : list N }.
Definition kv_of (kvs : list (list N * entry)) (k : key) : list N :=
  match find_last kvs k with Some e => e_val e | None => [] end.
Definition ttl_of (kvs : list (list N * entry)) (k : key) : N :=
  match find_last kvs k with Some e => e_ttl e | None => 0 end.
Fixpoint append_batches_aux (kvs : list (list N * entry)) (ks : list key)
         (ck : list (list N)) (cv : list (list N)) (ct : list N) (size : N) : list batch3 :=
  match ks with
  | [] => if is_nil ck then [] else [mkBatch3 (rev ck) (rev cv) (rev ct)]
  | k :: r =>
      if raw_batch_put_size <=? size
      then mkBatch3 (rev ck) (rev cv) (rev ct)
           :: append_batches_aux kvs r [k] [kv_of kvs k] [ttl_of kvs k] (pair_size kvs k)
      else append_batches_aux kvs r (k :: ck) (kv_of kvs k :: cv) (ttl_of kvs k :: ct) (size + pair_size kvs k)
  end.
Definition append_batches (kvs : list (list N * entry)) (ks : list key) : list batch3 :=
  append_batches_aux kvs ks [] [] [] 0.
(* what one request must carry for a key batch: the triples of its keys, position by position *)
Definition batch3_of (kvs : list (list N * entry)) (ks : list key) : batch3 :=
  mkBatch3 ks (map (kv_of kvs) ks) (map (ttl_of kvs) ks).

(* one round = one grouping under a layout, every region group cut into sub-batches; each
   sub-batch (region start, index) is Served, Bounced with a region error (then re-grouped under
   the next round's layout: sendBatchReq / sendBatchPut recursion) or Dropped (it failed for good
   or was cancelled after another batch failed: it is NOT executed and the call returns an error) *)
Inductive outcome := Served | Bounced | Dropped.
Definition outcome_eqb (a b : outcome) : bool :=
  match a, b with
  | Served, Served | Bounced, Bounced | Dropped, Dropped => true
  | _, _ => false
  end.
Definition round := (layout * (key -> nat -> outcome))%type.
Definition all_served : key -> nat -> outcome := fun _ _ => Served.
Fixpoint indexed {A} (i : nat) (l : list A) : list (nat * A) :=
  match l with [] => [] | x :: r => (i, x) :: indexed (S i) r end.
Definition sub_batches (ch : list key -> list (list key)) (L : layout) (keys : list key)
  : list (key * nat * list key) :=
  flat_map (fun g => map (fun ib => (fst g, fst ib, snd ib)) (indexed 0 (ch (snd g)))) (group_keys L keys).
Definition batch_outcome (r : round) (b : key * nat * list key) : outcome := snd r (fst (fst b)) (snd (fst b)).
Definition keys_of (o : outcome) (ch : list key -> list (list key)) (r : round) (keys : list key) : list key :=
  flat_map (fun b => if outcome_eqb (batch_outcome r b) o then snd b else []) (sub_batches ch (fst r) keys).
Definition any_dropped (ch : list key -> list (list key)) (r : round) (keys : list key) : bool :=
  existsb (fun b => outcome_eqb (batch_outcome r b) Dropped) (sub_batches ch (fst r) keys).
Notation served_keys := (keys_of Served).
Notation bounced_keys := (keys_of Bounced).

(* result of a batch call: None = ran out of rounds; Some (x, ok): ok = false when a batch was dropped
   (the call returns an error; x is then the state reached / nothing for a read) *)
Fixpoint bget_rounds (st : store) (sched : list round) (keys : list key)
  : option (list (list N * list N) * bool) :=
  match keys with
  | [] => Some ([], true)
  | _ =>
      match sched with
      | [] => None
      | r :: sched' =>
          if any_dropped key_chunks r keys then Some ([], false) else
          match bget_rounds st sched' (bounced_keys key_chunks r keys) with
          | None => None
          | Some (rest, ok) => Some (srv_batch_get st (served_keys key_chunks r keys) ++ rest, ok)
          end
      end
  end.
Definition assemble (keys : list key) (ps : list (list N * list N)) : list (option (list N)) :=
  map (fun k => find_last ps k) keys.
(* None = out of rounds; Some None = the call returned an error; Some (Some vs) = values *)
Definition batch_get (st : store) (sched : list round) (keys : list key)
  : option (option (list (option (list N)))) :=
  match bget_rounds st sched keys with
  | None => None
  | Some (ps, true) => Some (Some (assemble keys ps))
  | Some (_, false) => Some None
  end.

(* BatchPut: keyToValue / keyToTTL are last-wins maps; every batch carries map values *)
Definition round_pairs (kvs : list (list N * entry)) (ks : list key) : list (list N * entry) :=
  flat_map (fun k => match find_last kvs k with Some e => [(k, e)] | None => [] end) ks.
Fixpoint bput_rounds (st : store) (sched : list round) (kvs : list (list N * entry)) (keys : list key)
  : option (store * bool) :=
  match keys with
  | [] => Some (st, true)
  | _ =>
      match sched with
      | [] => None
      | r :: sched' =>
          let st1 := srv_batch_put st (round_pairs kvs (served_keys (put_chunks kvs) r keys)) in
          match bput_rounds st1 sched' kvs (bounced_keys (put_chunks kvs) r keys) with
          | None => None
          | Some (st2, ok) => Some (st2, ok && negb (any_dropped (put_chunks kvs) r keys))
          end
      end
  end.
(* BatchPutWithTTL refuses mismatching argument lengths before any request (ttls may be empty = no ttl) *)
Definition batch_put_args_ok (nkeys nvals nttls : nat) : bool :=
  (nkeys =? nvals)%nat && ((nttls =? 0)%nat || (nkeys =? nttls)%nat).
Definition batch_put (st : store) (sched : list round) (kvs : list (list N * entry)) : option (store * bool) :=
  bput_rounds st sched kvs (map fst kvs).

Fixpoint bdel_rounds (st : store) (sched : list round) (keys : list key) : option (store * bool) :=
  match keys with
  | [] => Some (st, true)
  | _ =>
      match sched with
      | [] => None
      | r :: sched' =>
          match bdel_rounds (srv_batch_delete st (served_keys key_chunks r keys)) sched' (bounced_keys key_chunks r keys) with
          | None => None
          | Some (st2, ok) => Some (st2, ok && negb (any_dropped key_chunks r keys))
          end
      end
  end.

(* DeleteRange whose i-th request may fail for good (None in the schedule): the call returns an
   error, the ranges of the earlier requests stay deleted *)
Inductive dr_result :=
| DrDone (st : store)
| DrFailed (st : store) (cursor : list N)
| DrFuel.
Fixpoint drange_run (st : store) (Ls : list (option layout)) (cur e : key) : dr_result :=
  if below cur e then
    match Ls with
    | [] => DrFuel
    | None :: _ => DrFailed st cur
    | Some L :: Ls' =>
        let ae := cut_end (loc_hi L cur) e in
        let st' := srv_delete_range st cur ae in
        if is_nil ae then DrDone st' else drange_run st' Ls' ae e
    end
  else DrDone st.
