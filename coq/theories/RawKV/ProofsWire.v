(* RawKV/ProofsWire.v — the request stream of BatchPutWithTTL: chunking keeps every (key, value, ttl)
   triple and the alignment of the three parallel slices, for the code's chunker and for any partition. *)
From Verif Require Import RawKV.Model RawKV.ProofsStore RawKV.ProofsBatch.

Lemma pair_size_def kvs k : pair_size kvs k = N.of_nat (length k) + N.of_nat (length (kv_of kvs k)).
Proof. unfold pair_size, kv_of. destruct (find_last kvs k); reflexivity. Qed.

(* the literal three-slice chunker cuts where put_chunks cuts and fills each batch with the triples of its keys *)
Lemma append_batches_aux_spec kvs : forall ks ck cv ct size,
  cv = map (kv_of kvs) ck -> ct = map (ttl_of kvs) ck ->
  append_batches_aux kvs ks ck cv ct size =
  map (batch3_of kvs) (chunk_aux (fun sz => raw_batch_put_size <=? sz) (pair_size kvs) ks ck size).
Proof.
  induction ks as [|k r IH]; intros ck cv ct size Hv Ht; cbn [append_batches_aux chunk_aux].
  - destruct (is_nil ck); [reflexivity|]. cbn [map]. unfold batch3_of. subst cv ct. rewrite !map_rev. reflexivity.
  - destruct (raw_batch_put_size <=? size).
    + cbn [map]. f_equal.
      * unfold batch3_of. subst cv ct. rewrite !map_rev. reflexivity.
      * apply IH; reflexivity.
    + apply IH; subst; reflexivity.
Qed.

Theorem append_batches_spec kvs ks :
  append_batches kvs ks = map (batch3_of kvs) (put_chunks kvs ks).
Proof. unfold append_batches, put_chunks, chunk. apply append_batches_aux_spec; reflexivity. Qed.

(* alignment inside one batch *)
Lemma batch3_aligned kvs ks :
  let b := batch3_of kvs ks in
  length (b_vals b) = length (b_keys b) /\ length (b_ttls b) = length (b_keys b) /\
  forall i k, nth_error (b_keys b) i = Some k ->
    nth_error (b_vals b) i = Some (kv_of kvs k) /\ nth_error (b_ttls b) i = Some (ttl_of kvs k).
Proof.
  cbn. rewrite !map_length. split; [reflexivity|]. split; [reflexivity|].
  intros i k H. split; apply map_nth_error; exact H.
Qed.

(* the triples sent, in order *)
Definition triples (b : batch3) : list (list N * list N * N) := combine (combine (b_keys b) (b_vals b)) (b_ttls b).
Lemma triples_of kvs ks : triples (batch3_of kvs ks) = map (fun k => (k, kv_of kvs k, ttl_of kvs k)) ks.
Proof.
  unfold triples, batch3_of; cbn. induction ks as [|k r IH]; cbn [map combine]; [reflexivity|]. rewrite IH. reflexivity.
Qed.

(* ANY partition of a key list into batches sends exactly the triples of the keys, in order *)
Theorem triples_any_partition kvs (bs : list (list key)) :
  flat_map (fun ks => triples (batch3_of kvs ks)) bs = map (fun k => (k, kv_of kvs k, ttl_of kvs k)) (concat bs).
Proof.
  induction bs as [|b bs IH]; cbn [flat_map concat]; [reflexivity|].
  rewrite IH, triples_of, map_app. reflexivity.
Qed.

(* the code's chunker: nothing lost, nothing duplicated, nothing misaligned *)
Theorem append_batches_triples kvs ks :
  flat_map triples (append_batches kvs ks) = map (fun k => (k, kv_of kvs k, ttl_of kvs k)) ks /\
  Forall (fun b => length (b_vals b) = length (b_keys b) /\ length (b_ttls b) = length (b_keys b)) (append_batches kvs ks).
Proof.
  rewrite append_batches_spec. split.
  - rewrite flat_map_concat_map, map_map, <- flat_map_concat_map.
    rewrite (triples_any_partition kvs (put_chunks kvs ks)), put_chunks_ok. reflexivity.
  - apply Forall_forall. intros b Hb. apply in_map_iff in Hb. destruct Hb as [c [<- _]].
    cbn. rewrite !map_length. split; reflexivity.
Qed.
