(* RawKV/ProofsShape.v — the output-shape oracles of the check as theorems: a scan result is strictly ascending
   (descending for ReverseScan), inside the range and no longer than the limit; the sub-batches of a batch call
   are a permutation of the requested keys (with their duplicates). *)
From Coq Require Import Sorting.Sorted Sorting.Permutation.
From Verif Require Import RawKV.Model RawKV.ProofsStore RawKV.ProofsLoops RawKV.ProofsBatch.

(* ---------------------------------------------------------------- scan results *)
Lemma sorted_firstn n : forall st, sorted st -> sorted (firstn n st).
Proof.
  unfold sorted. induction n as [|n IH]; intros st Hs; [constructor|].
  destruct st as [|p r]; [constructor|]. inversion Hs as [|? ? H1 H2]; subst. cbn [firstn].
  constructor; [apply IH; exact H1|].
  apply Forall_forall. intros q Hq. rewrite Forall_forall in H2. apply H2.
  clear - Hq. revert r Hq. induction n as [|n IHn]; intros r Hq; [destruct Hq|].
  destruct r as [|x r]; [destruct Hq|]. cbn [firstn] in Hq. destruct Hq as [->|Hq]; [left; reflexivity|right; apply IHn; exact Hq].
Qed.
Lemma firstn_In {A} n (l : list A) x : In x (firstn n l) -> In x l.
Proof.
  revert l; induction n as [|n IH]; intros l H; [destruct H|].
  destruct l as [|y l]; [destruct H|]. cbn [firstn] in H. destruct H as [->|H]; [left; reflexivity|right; apply IH; exact H].
Qed.

Definition keys_asc (ps : list (list N * list N)) : Prop := StronglySorted (fun p q => klt (fst p) (fst q)) ps.
Definition keys_desc (ps : list (list N * list N)) : Prop := StronglySorted (fun p q => klt (fst q) (fst p)) ps.

Lemma map_kv_asc st : sorted st -> keys_asc (map kv st).
Proof.
  unfold sorted, keys_asc. induction 1 as [|p r Hs IH Hf]; cbn [map]; [constructor|].
  constructor; [exact IH|]. apply Forall_forall. intros q Hq. apply in_map_iff in Hq. destruct Hq as [q0 [<- Hq0]].
  rewrite Forall_forall in Hf. exact (Hf q0 Hq0).
Qed.
Lemma rev_desc st : sorted st -> keys_desc (map kv (rev st)).
Proof.
  unfold sorted, keys_desc. induction 1 as [|p r Hs IH Hf]; cbn [rev map]; [constructor|].
  rewrite map_app. cbn [map].
  assert (G : forall l x, StronglySorted (fun p q : list N * list N => klt (fst q) (fst p)) l ->
                          Forall (fun q => klt (fst x) (fst q)) l ->
                          StronglySorted (fun p q : list N * list N => klt (fst q) (fst p)) (l ++ [x])).
  { clear. induction l as [|y l IHl]; intros x Hs Hf; cbn [app]; [constructor; constructor|].
    inversion Hs as [|? ? H1 H2]; subst. inversion Hf as [|? ? F1 F2]; subst.
    constructor; [apply IHl; assumption|]. apply Forall_app. split; [exact H2|constructor; [exact F1|constructor]]. }
  apply G; [exact IH|]. apply Forall_forall. intros q Hq. apply in_map_iff in Hq. destruct Hq as [q0 [<- Hq0]].
  apply in_rev in Hq0. rewrite Forall_forall in Hf. exact (Hf q0 Hq0).
Qed.
Lemma desc_firstn n : forall ps, keys_desc ps -> keys_desc (firstn n ps).
Proof.
  unfold keys_desc. induction n as [|n IH]; intros ps Hs; [constructor|].
  destruct ps as [|p r]; [constructor|]. inversion Hs as [|? ? H1 H2]; subst. cbn [firstn].
  constructor; [apply IH; exact H1|]. apply Forall_forall. intros q Hq. rewrite Forall_forall in H2. apply H2.
  apply (firstn_In n r q Hq).
Qed.

Theorem scan_result_shape st Ls s e limit res :
  sorted st -> scan st Ls s e limit = Some res ->
  keys_asc res /\ (length res <= limit)%nat /\
  forall k v, In (k, v) res -> lex_leb s k = true /\ below k e = true /\ srv_get st k = Some v.
Proof.
  intros Hs H. apply (scan_correct _ _ _ _ _ _ Hs) in H. subst res. unfold spec_scan. split; [|split].
  - apply map_kv_asc. apply sorted_firstn. apply sorted_filter. exact Hs.
  - rewrite map_length. apply firstn_le_length.
  - intros k v Hin. apply in_map_iff in Hin. destruct Hin as [[k0 e0] [Hkv Hin]]. injection Hkv as <- <-.
    apply firstn_In in Hin. unfold range in Hin. apply filter_In in Hin. destruct Hin as [Hin Hr].
    unfold in_range in Hr; cbn [fst] in Hr. apply andb_true_iff in Hr. split; [tauto|]. split; [tauto|].
    unfold srv_get. clear Hr. revert Hin. unfold sorted in Hs. induction Hs as [|[k1 e1] r Hs1 IH Hf]; intros Hin; [destruct Hin|].
    cbn [st_get]. destruct Hin as [[= -> ->]|Hin].
    + rewrite (proj2 (eqb_true k0 k0) eq_refl). reflexivity.
    + destruct (bytes_eqb k0 k1) eqn:E; [|apply IH; exact Hin].
      breflect. subst k1. rewrite Forall_forall in Hf. specialize (Hf _ Hin). unfold keys_lt in Hf; cbn [fst] in Hf. exfalso; KF.order.
Qed.

Theorem rscan_result_shape st Ls s e limit res :
  sorted st -> s <> [] -> rscan st Ls s e limit = Some res ->
  keys_desc res /\ (length res <= limit)%nat /\
  forall k v, In (k, v) res -> lex_leb e k = true /\ lex_ltb k s = true.
Proof.
  intros Hs Hne H. apply (rscan_correct _ _ _ _ _ _ Hs Hne) in H. subst res. unfold spec_rscan. split; [|split].
  - rewrite <- firstn_map. apply desc_firstn. apply rev_desc. apply sorted_filter. exact Hs.
  - rewrite map_length. apply firstn_le_length.
  - intros k v Hin. apply in_map_iff in Hin. destruct Hin as [[k0 e0] [Hkv Hin]]. injection Hkv as <- <-.
    apply firstn_In in Hin. apply in_rev in Hin. unfold range in Hin. apply filter_In in Hin. destruct Hin as [_ Hr].
    unfold in_range, below in Hr; cbn [fst] in Hr. apply andb_true_iff in Hr. destruct Hr as [H1 H2]. split; [exact H1|].
    destruct (is_nil s) eqn:E; [breflect; congruence|exact H2].
Qed.

(* ---------------------------------------------------------------- batches partition the request *)
Lemma add_group_perm g k gs : Permutation (flat_map snd (add_group g k gs)) (k :: flat_map snd gs).
Proof.
  induction gs as [|[g' ks] r IH]; cbn [add_group flat_map snd app]; [apply Permutation_refl|].
  destruct (bytes_eqb g g'); cbn [flat_map snd].
  - apply Permutation_refl.
  - eapply Permutation_trans; [apply Permutation_app_head; exact IH|].
    apply Permutation_sym. apply (Permutation_middle ks (flat_map snd r) k).
Qed.
Lemma group_keys_perm L keys : Permutation (flat_map snd (group_keys L keys)) keys.
Proof.
  induction keys as [|k r IH]; cbn [group_keys]; [constructor|].
  eapply Permutation_trans; [apply add_group_perm|]. constructor. exact IH.
Qed.
Lemma sub_batches_flat ch L keys : chunker_ok ch ->
  flat_map snd (sub_batches ch L keys) = flat_map snd (group_keys L keys).
Proof.
  intros Hch. unfold sub_batches. induction (group_keys L keys) as [|g gs IH]; cbn [flat_map]; [reflexivity|].
  rewrite flat_map_app, IH. f_equal.
  rewrite <- (Hch (snd g)) at 2. rewrite <- (indexed_snd (ch (snd g)) 0) at 2.
  generalize (indexed 0 (ch (snd g))). intros l. induction l as [|x l IHl]; cbn [map flat_map concat snd]; [reflexivity|].
  rewrite IHl. reflexivity.
Qed.
Theorem sub_batches_perm ch L keys : chunker_ok ch -> Permutation (flat_map snd (sub_batches ch L keys)) keys.
Proof. intros Hch. rewrite (sub_batches_flat ch L keys Hch). apply group_keys_perm. Qed.
