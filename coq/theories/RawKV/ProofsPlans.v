(* RawKV/ProofsPlans.v — store-free "plans": which batches a schedule serves / where a DeleteRange stops
   depends on layouts and outcomes only, never on the data. The store a call leaves behind is the fold
   of the effects of the requests that were served. *)
From Verif Require Import RawKV.Model RawKV.ProofsStore RawKV.ProofsLoops RawKV.ProofsBatch RawKV.ProofsRounds.

(* ---------------------------------------------------------------- batch put *)
Fixpoint bput_plan (sched : list round) (kvs : list (list N * entry)) (keys : list key)
  : option (list (list N * entry) * bool) :=
  match keys with
  | [] => Some ([], true)
  | _ =>
      match sched with
      | [] => None
      | r :: sched' =>
          match bput_plan sched' kvs (bounced_keys (put_chunks kvs) r keys) with
          | None => None
          | Some (ps, ok) => Some (round_pairs kvs (served_keys (put_chunks kvs) r keys) ++ ps,
                                   ok && negb (any_dropped (put_chunks kvs) r keys))
          end
      end
  end.
Lemma bput_rounds_plan kvs : forall sched st keys,
  bput_rounds st sched kvs keys =
  match bput_plan sched kvs keys with Some (ps, ok) => Some (srv_batch_put st ps, ok) | None => None end.
Proof.
  induction sched as [|r sched IH]; intros st keys; cbn [bput_rounds bput_plan].
  - destruct keys; reflexivity.
  - destruct keys as [|k0 keys0]; [reflexivity|]. rewrite IH.
    destruct (bput_plan sched kvs _) as [[ps ok]|]; [|reflexivity]. rewrite srv_batch_put_app. reflexivity.
Qed.

(* ---------------------------------------------------------------- batch delete *)
Fixpoint bdel_plan (sched : list round) (keys : list key) : option (list key * bool) :=
  match keys with
  | [] => Some ([], true)
  | _ =>
      match sched with
      | [] => None
      | r :: sched' =>
          match bdel_plan sched' (bounced_keys key_chunks r keys) with
          | None => None
          | Some (ks, ok) => Some (served_keys key_chunks r keys ++ ks, ok && negb (any_dropped key_chunks r keys))
          end
      end
  end.
Lemma bdel_rounds_plan : forall sched st keys,
  bdel_rounds st sched keys =
  match bdel_plan sched keys with Some (ks, ok) => Some (srv_batch_delete st ks, ok) | None => None end.
Proof.
  induction sched as [|r sched IH]; intros st keys; cbn [bdel_rounds bdel_plan].
  - destruct keys; reflexivity.
  - destruct keys as [|k0 keys0]; [reflexivity|]. rewrite IH.
    destruct (bdel_plan sched _) as [[ks ok]|]; [|reflexivity].
    unfold srv_batch_delete. rewrite fold_left_app. reflexivity.
Qed.

(* ---------------------------------------------------------------- batch get: only whether it fails *)
Fixpoint bget_plan (sched : list round) (keys : list key) : option bool :=
  match keys with
  | [] => Some true
  | _ =>
      match sched with
      | [] => None
      | r :: sched' =>
          if any_dropped key_chunks r keys then Some false
          else bget_plan sched' (bounced_keys key_chunks r keys)
      end
  end.
Lemma bget_rounds_plan st : forall sched keys,
  option_map snd (bget_rounds st sched keys) = bget_plan sched keys.
Proof.
  induction sched as [|r sched IH]; intros keys; cbn [bget_rounds bget_plan].
  - destruct keys; reflexivity.
  - destruct keys as [|k0 keys0]; [reflexivity|].
    destruct (any_dropped key_chunks r (k0 :: keys0)); [reflexivity|].
    rewrite <- IH. destruct (bget_rounds st sched _) as [[ps ok]|]; reflexivity.
Qed.

(* ---------------------------------------------------------------- delete range *)
(* None = out of layouts; Some None = completes; Some (Some c) = a request fails with the cursor at c *)
Fixpoint drange_plan (Ls : list (option layout)) (cur e : key) : option (option key) :=
  if below cur e then
    match Ls with
    | [] => None
    | None :: _ => Some (Some cur)
    | Some L :: Ls' =>
        let ae := cut_end (loc_hi L cur) e in
        if is_nil ae then Some None else drange_plan Ls' ae e
    end
  else Some None.

Lemma drange_run_plan e : forall Ls st cur,
  match drange_run st Ls cur e, drange_plan Ls cur e with
  | DrFuel, None => True
  | DrDone _, Some None => True
  | DrFailed _ c, Some (Some c') => c = c'
  | _, _ => False
  end.
Proof.
  induction Ls as [|[L|] Ls IH]; intros st cur; cbn [drange_run drange_plan]; destruct (below cur e); try exact I.
  - destruct (is_nil (cut_end (loc_hi L cur) e)); [exact I|apply IH].
  - reflexivity.
Qed.

Lemma drange_run_done e : forall Ls st cur st',
  drange_run st Ls cur e = DrDone st' -> st' = srv_delete_range st cur e.
Proof.
  assert (Stop : forall st cur, below cur e = false -> st = srv_delete_range st cur e).
  { intros st cur C. unfold below in C. apply orb_false_iff in C. destruct C as [C1 C2].
    symmetry. apply filter_all_true. intros [k v] _. unfold in_range, below; cbn [fst]. rewrite C1. cbn [orb].
    breflect. ksolve. }
  induction Ls as [|[L|] Ls IH]; intros st cur st'; cbn [drange_run].
  - destruct (below cur e) eqn:C; [discriminate|]. intros [= <-]. apply Stop; exact C.
  - destruct (below cur e) eqn:C.
    2:{ intros [= <-]. apply Stop; exact C. }
    set (hi := loc_hi L cur).
    destruct (loc_hi_spec L cur) as [Hhi|[Hhi _]]; fold hi in Hhi.
    + rewrite Hhi. unfold cut_end; cbn [is_nil negb andb].
      destruct (is_nil e) eqn:En.
      * intros [= <-]. reflexivity.
      * intros Hrec. apply IH in Hrec. subst st'. unfold srv_delete_range. rewrite filter_filter'.
        apply filter_ext. intros [k v]. unfold in_range, below; cbn [fst]. rewrite En. ksolve.
    + destruct (cut_end_cases hi e) as [[-> [Hc1 Hc2]]|[-> [Hc|[Hc1 Hc2]]]].
      * assert (Hn : is_nil hi = false) by (apply is_nil_false; exact Hc1). rewrite Hn.
        intros Hrec. apply IH in Hrec. subst st'. unfold srv_delete_range. rewrite filter_filter'.
        apply filter_ext. intros [k v]. unfold in_range, below; cbn [fst].
        unfold below in C. destruct Hc2 as [->|Hc2]; ksolve.
      * exfalso. rewrite Hc in Hhi. exact (nil_min _ Hhi).
      * assert (Hn : is_nil e = false) by (apply is_nil_false; exact Hc1). rewrite Hn.
        intros Hrec. apply IH in Hrec. subst st'. unfold srv_delete_range. rewrite filter_filter'.
        apply filter_ext. intros [k v]. unfold in_range, below; cbn [fst]. rewrite Hn. ksolve.
  - destruct (below cur e) eqn:C; [discriminate|]. intros [= <-]. apply Stop; exact C.
Qed.
