(* ApiV2/Model.v — executable model of internal/apicodec/codec_v2.go (key / range part)
   plus an abstract ordered-map store and a keyspace-bound client on top of it.
   Definitions only; proofs in Proofs*.v, theorems in Props.v. *)
From Verif Require Export Base.Lex.
From Verif Require Export Codec.Model.
Open Scope N_scope.

(* ---------- keyspace ---------- *)
Inductive mode := Raw | Txn.
Definition mode_byte (m : mode) : N := match m with Raw => 114 (* 'r' *) | Txn => 120 (* 'x' *) end.
Record ks := mkks { ks_mode : mode; ks_id : N }.
Definition two24 : N := 16777216.
Definition two32 : N := 4294967296.
(* NewCodecV2 rejects ids above maxKeyspaceID = 0xFFFFFF *)
Definition ks_ok (c : ks) : Prop := ks_id c < two24.
Definition ks_okb (c : ks) : bool := ks_id c <? two24.

Definition mode_eqb (a b : mode) : bool :=
  match a, b with Raw, Raw => true | Txn, Txn => true | _, _ => false end.
Definition ks_eqb (a b : ks) : bool := mode_eqb (ks_mode a) (ks_mode b) && (ks_id a =? ks_id b).

(* prefix[0] = mode byte; prefix[1:] = the low three bytes of BigEndian(id) (getIDByte) *)
Definition prefix (c : ks) : list N := mode_byte (ks_mode c) :: be 3 (ks_id c).
(* endKey = BigEndian(uint32(prefix) + 1), uint32 arithmetic *)
Definition end_key (c : ks) : list N := be 4 ((of_be (prefix c) + 1) mod two32).

Fixpoint has_prefix (p k : list N) : bool :=
  match p, k with
  | [], _ => true
  | _ :: _, [] => false
  | x :: p', y :: k' => (x =? y) && has_prefix p' k'
  end.

Definition nilb (l : list N) : bool := match l with [] => true | _ => false end.

(* ---------- keys ---------- *)
Definition encode_key (c : ks) (k : list N) : list N := prefix c ++ k.

(* DecodeKey: the empty key passes through (nil, nil); a key without the prefix is out of bound *)
Definition decode_key (c : ks) (e : list N) : option (list N) :=
  if nilb e then Some []
  else if has_prefix (prefix c) e then Some (skipn (length (prefix c)) e) else None.

(* ---------- ranges ---------- *)
Definition enc_end (c : ks) (e : list N) : list N := if nilb e then end_key c else encode_key c e.

(* encodeRange(start, end, reverse): returns (start', end') *)
Definition encode_range (c : ks) (rev : bool) (s e : list N) : list N * list N :=
  if rev then (enc_end c s, encode_key c e) else (encode_key c s, enc_end c e).

Inductive range_res := ROk (s e : list N) | ROutOfBound | RDecodeErr.

Definition strip_or_empty (c : ks) (x : list N) : list N :=
  if has_prefix (prefix c) x then skipn (length (prefix c)) x else [].

(* DecodeRange. [fixed = true] is the code as it is now; [fixed = false] is the formula before the repair
   (commit f1823af), kept as a regression witness: it lacked the second out-of-bound test. *)
Definition decode_range_gen (fixed : bool) (c : ks) (s e : list N) : range_res :=
  if lex_leb (end_key c) s || (negb (nilb e) && lex_leb e (prefix c)) then ROutOfBound
  else if fixed && negb (has_prefix (prefix c) s) && lex_ltb (prefix c) s then ROutOfBound
  else ROk (strip_or_empty c s) (strip_or_empty c e).
Definition decode_range := decode_range_gen true.

(* memComparableCodec.decodeKey: DecodeBytes, leftover dropped *)
Definition mem_decode (b : list N) : option (list N) :=
  match decode_bytes b with Some (_, k) => Some k | None => None end.
Definition mem_decode_opt (b : list N) : option (list N) := if nilb b then Some [] else mem_decode b.

(* DecodeRegionRange *)
Definition decode_region_range (c : ks) (s e : list N) : range_res :=
  match mem_decode_opt s with
  | None => RDecodeErr
  | Some s' =>
      match mem_decode_opt e with
      | None => RDecodeErr
      | Some e' => decode_range c s' e'
      end
  end.

Definition encode_region_key (c : ks) (k : list N) : list N := encode_bytes (encode_key c k).
Inductive key_res := KOk (k : list N) | KOutOfBound | KDecodeErr.
Definition decode_region_key (c : ks) (b : list N) : key_res :=
  match mem_decode b with
  | None => KDecodeErr
  | Some k => match decode_key c k with Some k' => KOk k' | None => KOutOfBound end
  end.
Definition encode_region_range (c : ks) (s e : list N) : list N * list N :=
  let '(a, b) := encode_range c false s e in (encode_bytes a, encode_bytes b).

(* ---------- DecodeBucketKeys ---------- *)
Fixpoint map_opt {A B} (f : A -> option B) (l : list A) : option (list B) :=
  match l with
  | [] => Some []
  | x :: r => match f x, map_opt f r with Some y, Some r' => Some (y :: r') | _, _ => None end
  end.
(* len(ks) > 0 && len(ks[0]) == 0 *)
Definition head_is_empty (out : list (list N)) : bool :=
  match out with [] :: _ => true | _ => false end.
(* one loop iteration; [first] = (i == 0), [last] = (i == len(keys)-1); [k] is the memcomparable-decoded key.
   [fixed = true] is the code as it is now; [fixed = false] is the loop before repair bbcfa45 (F34), which did not
   treat a last key above the keyspace but below endKey as the unbounded end. *)
Definition dbk_step_gen (fixed : bool) (c : ks) (first last : bool) (out : list (list N)) (k : list N) : list (list N) :=
  if first && lex_ltb k (prefix c) then out ++ [[]]
  else if last && (nilb k || lex_leb (end_key c) k || (fixed && negb (has_prefix (prefix c) k) && lex_ltb (prefix c) k)) then out ++ [[]]
  else if has_prefix (prefix c) k then
    let raw := skipn (length (prefix c)) k in
    if nilb raw && head_is_empty out then out else out ++ [raw]
  else out.
Definition dbk_step := dbk_step_gen true.
Definition nilb_l (r : list (list N)) : bool := match r with [] => true | _ => false end.
Fixpoint dbk_gen (fixed : bool) (c : ks) (first : bool) (out : list (list N)) (rest : list (list N)) : list (list N) :=
  match rest with
  | [] => out
  | k :: r => dbk_gen fixed c false (dbk_step_gen fixed c first (nilb_l r) out k) r
  end.
Definition dbk := dbk_gen true.
Definition decode_bucket_keys (c : ks) (keys : list (list N)) : option (list (list N)) :=
  match map_opt mem_decode_opt keys with
  | None => None
  | Some ks => Some (dbk c true [] ks)
  end.

(* ---------- CodecPDClient.decodeScannedRegions: a scan answer (memcomparable bounds) ---------- *)
(* regions outside the keyspace are skipped (repair 163e34b, F35); a malformed bound fails the scan *)
Fixpoint decode_scan (c : ks) (regs : list (list N * list N)) : option (list (list N * list N)) :=
  match regs with
  | [] => Some []
  | (s, e) :: r =>
      match decode_region_range c s e with
      | RDecodeErr => None
      | ROutOfBound => decode_scan c r
      | ROk s' e' => match decode_scan c r with Some t => Some ((s', e') :: t) | None => None end
      end
  end.

(* ---------- codecV2.decodeRegionError ---------- *)
(* the parts of an errorpb.Error that carry keys: KeyNotInRegion (key, region bounds), EpochNotMatch (current regions),
   BucketVersionNotMatch (bucket keys); all bounds memcomparable *)
Record region_error := mkre {
  re_knir : option (list N * list N * list N);
  re_epoch : option (list (list N * list N));
  re_buckets : option (list (list N))
}.
(* None = DecodeResponse fails as a whole. KeyNotInRegion: a key or a range outside the keyspace is an error;
   EpochNotMatch: regions outside the keyspace are dropped; BucketVersionNotMatch: DecodeBucketKeys *)
Definition decode_region_error (c : ks) (re : region_error) : option region_error :=
  match (match re_knir re with
         | None => Some None
         | Some (k, s, e) =>
             match decode_key c k, decode_region_range c s e with
             | Some k', ROk s' e' => Some (Some (k', s', e'))
             | _, _ => None
             end
         end) with
  | None => None
  | Some kn =>
      match (match re_buckets re with
             | None => Some None
             | Some bs => match decode_bucket_keys c bs with Some l => Some (Some l) | None => None end
             end) with
      | None => None
      | Some bv =>
          match (match re_epoch re with
                 | None => Some None
                 | Some regs => match decode_scan c regs with Some l => Some (Some l) | None => None end
                 end) with
          | None => None
          | Some ep => Some (mkre kn ep bv)
          end
      end
  end.

(* apicodec.DecodeKey(encoded, V2): checkV2Key, then split after the four prefix bytes *)
Definition split_v2_key (b : list N) : option (list N * list N) :=
  match b with
  | m :: b1 :: b2 :: b3 :: rest => if (m =? 114) || (m =? 120) then Some ([m; b1; b2; b3], rest) else None
  | _ => None
  end.

(* a response as the list of its key-bearing fields: DecodeResponse decodes every one or fails as a whole *)
Definition decode_fields (c : ks) (fs : list (list N)) : option (list (list N)) := map_opt (decode_key c) fs.

(* ---------- ParseKeyspaceID (checkV2Key + the low three bytes) ---------- *)
Definition parse_keyspace_id (b : list N) : option N :=
  match b with
  | m :: b1 :: b2 :: b3 :: _ => if (m =? 114) || (m =? 120) then Some (of_be [0; b1; b2; b3]) else None
  | _ => None
  end.

(* ---------- range membership ([] as upper bound = unbounded) ---------- *)
Definition in_range (s e k : list N) : Prop := lex_le s k /\ (e = [] \/ lex_lt k e).
Definition in_rangeb (s e k : list N) : bool := lex_leb s k && (nilb e || lex_ltb k e).

(* ---------- abstract ordered map store (the server) ---------- *)
Definition store := list (list N * list N).

Definition remove (k : list N) (st : store) : store :=
  filter (fun kv => negb (bytes_eqb k (fst kv))) st.
Fixpoint lookup (k : list N) (st : store) : option (list N) :=
  match st with
  | [] => None
  | (k', v) :: r => if bytes_eqb k k' then Some v else lookup k r
  end.
Fixpoint ins (kv : list N * list N) (l : store) : store :=
  match l with
  | [] => [kv]
  | h :: t => if lex_ltb (fst kv) (fst h) then kv :: l else h :: ins kv t
  end.
Definition isort (l : store) : store := fold_right ins [] l.

Inductive op :=
| OGet (k : list N)
| OPut (k v : list N)
| ODel (k : list N)
| OScan (rev : bool) (s e : list N) (lim : nat)   (* reverse: s = exclusive upper bound, e = lower bound *)
| ODelRange (s e : list N).

Inductive res := RVal (o : option (list N)) | RUnit | RPairs (l : store) | RErr.

Definition scan_list (rev : bool) (s e : list N) (lim : nat) (st : store) : store :=
  let lo := if rev then e else s in
  let hi := if rev then s else e in
  let l := isort (filter (fun kv => in_rangeb lo hi (fst kv)) st) in
  firstn lim (if rev then List.rev l else l).

Definition step (o : op) (st : store) : store * res :=
  match o with
  | OGet k => (st, RVal (lookup k st))
  | OPut k v => ((k, v) :: remove k st, RUnit)
  | ODel k => (remove k st, RUnit)
  | OScan rev s e lim => (st, RPairs (scan_list rev s e lim st))
  | ODelRange s e => (filter (fun kv => negb (in_rangeb s e (fst kv))) st, RUnit)
  end.

(* ---------- the keyspace-bound client: EncodeRequest / DecodeResponse around the server ---------- *)
Definition enc_op (c : ks) (o : op) : op :=
  match o with
  | OGet k => OGet (encode_key c k)
  | OPut k v => OPut (encode_key c k) v
  | ODel k => ODel (encode_key c k)
  | OScan rev s e lim => let '(ps, pe) := encode_range c rev s e in OScan rev ps pe lim
  | ODelRange s e => let '(ps, pe) := encode_range c false s e in ODelRange ps pe
  end.

Fixpoint dec_pairs (c : ks) (l : store) : option store :=
  match l with
  | [] => Some []
  | (k, v) :: r =>
      match decode_key c k, dec_pairs c r with
      | Some k', Some r' => Some ((k', v) :: r')
      | _, _ => None
      end
  end.
Definition dec_res (c : ks) (r : res) : res :=
  match r with
  | RPairs l => match dec_pairs c l with Some l' => RPairs l' | None => RErr end
  | x => x
  end.

Definition client_step (c : ks) (o : op) (st : store) : store * res :=
  let '(st', r) := step (enc_op c o) st in (st', dec_res c r).

(* the client's send loop: the n-th transmission of one request. [reencode = false] is the client as it is: every
   transmission encodes the caller's (logical) request afresh. [reencode = true] is a client that hands the codec what
   the previous transmission left behind (the caller's request rewritten in place). *)
Fixpoint nth_wire (reencode : bool) (c : ks) (o : op) (n : nat) : op :=
  match n with
  | O => enc_op c o
  | S m => if reencode then enc_op c (nth_wire reencode c o m) else enc_op c o
  end.

(* what a keyspace can see of a shared physical store *)
Definition strip_kv (c : ks) (kv : list N * list N) := (skipn (length (prefix c)) (fst kv), snd kv).
Definition view (c : ks) (st : store) : store :=
  map (strip_kv c) (filter (fun kv => has_prefix (prefix c) (fst kv)) st).

(* interleaved run of several keyspace-bound clients on one store; logical run of one client *)
Fixpoint run (tr : list (ks * op)) (st : store) : list (ks * res) :=
  match tr with
  | [] => []
  | (c, o) :: t => let '(st', r) := client_step c o st in (c, r) :: run t st'
  end.
Fixpoint run_store (tr : list (ks * op)) (st : store) : store :=
  match tr with
  | [] => st
  | (c, o) :: t => run_store t (fst (client_step c o st))
  end.
Fixpoint lrun (ops : list op) (st : store) : list res :=
  match ops with
  | [] => []
  | o :: t => let '(st', r) := step o st in r :: lrun t st'
  end.
Fixpoint lrun_store (ops : list op) (st : store) : store :=
  match ops with
  | [] => st
  | o :: t => lrun_store t (fst (step o st))
  end.
Definition proj_ops (c : ks) (tr : list (ks * op)) : list op :=
  map snd (filter (fun co => ks_eqb (fst co) c) tr).
Definition proj_res (c : ks) (rs : list (ks * res)) : list res :=
  map snd (filter (fun cr => ks_eqb (fst cr) c) rs).

(* ---------- programs of requests with retransmissions and region errors ---------- *)
(* what happened to one transmission: the store refused it with a region error describing the current regions
   (memcomparable bounds; no effect), it was executed but the answer was lost, or it was executed and answered *)
Inductive outcome :=
| Refused (regs : list (list N * list N))
| Lost
| Answered.
(* what the client learns from one transmission *)
Inductive obs :=
| ORegions (r : option (list (list N * list N)))   (* the decoded region descriptions of a region error *)
| ONothing
| OResult (r : res).

(* one event: client c transmits request o for the (n+1)-th time *)
Definition event := (ks * op * nat * outcome)%type.

Definition transmit (ev : event) (st : store) : store * obs :=
  let '(c, o, n, out) := ev in
  match out with
  | Refused regs => (st, ORegions (decode_scan c regs))
  | Lost => (fst (step (nth_wire false c o n) st), ONothing)
  | Answered => let '(st', r) := step (nth_wire false c o n) st in (st', OResult (dec_res c r))
  end.
Fixpoint trun (tr : list event) (st : store) : list (ks * obs) :=
  match tr with
  | [] => []
  | ev :: t => let '(st', ob) := transmit ev st in (fst (fst (fst ev)), ob) :: trun t st'
  end.
Fixpoint trun_store (tr : list event) (st : store) : store :=
  match tr with
  | [] => st
  | ev :: t => trun_store t (fst (transmit ev st))
  end.

(* the same schedule for an unprefixed client on logical keys; a region error shows it the logical layout *)
Definition ltransmit (lay : list (list N * list N) -> list (list N * list N)) (e : op * outcome) (st : store) : store * obs :=
  let '(o, out) := e in
  match out with
  | Refused regs => (st, ORegions (Some (lay regs)))
  | Lost => (fst (step o st), ONothing)
  | Answered => let '(st', r) := step o st in (st', OResult r)
  end.
Fixpoint ltrun lay (tr : list (op * outcome)) (st : store) : list obs :=
  match tr with
  | [] => []
  | e :: t => let '(st', ob) := ltransmit lay e st in ob :: ltrun lay t st'
  end.
Fixpoint ltrun_store lay (tr : list (op * outcome)) (st : store) : store :=
  match tr with
  | [] => st
  | e :: t => ltrun_store lay t (fst (ltransmit lay e st))
  end.
Definition proj_events (c : ks) (tr : list event) : list (op * outcome) :=
  map (fun ev => (snd (fst (fst ev)), snd ev)) (filter (fun ev => ks_eqb (fst (fst (fst ev))) c) tr).
Definition proj_obs (c : ks) (l : list (ks * obs)) : list obs :=
  map snd (filter (fun x => ks_eqb (fst x) c) l).
