(* ApiV2/Pool.v — object-level model of the codec plumbing: codecV2.EncodeRequest / DecodeResponse with their request
   pool, tikvrpc.AttachContext, and the order in which internal/client.RPCClient.SendRequest / SendRequestAsync call
   them. Requests and messages live in a heap, so that aliasing between the caller's objects, the codec's copies and
   the pooled objects is part of the model. Definitions only; proofs in ProofsPool.v. *)
From Verif Require Import ApiV2.Model.
Open Scope N_scope.

Definition addr := nat.
(* a protobuf message: its key-bearing fields and the context attached to it (Some true = a context carrying
   api_version V2 + keyspace id, Some false = a context without them, None = no context yet) *)
Record msg := mkmsg { m_keys : list (list N); m_ctx : option bool }.
(* a tikvrpc.Request: r_keyed = the codec has something to write into its message (key-bearing fields, or the
   message's own api_version / keyspace_id fields); r_api = Request.Context carries V2 + keyspace id; r_rev = Request.rev *)
Record reqo := mkreq { r_keyed : bool; r_inner : addr; r_api : bool; r_rev : nat }.
Record heap := mkheap { rh : addr -> reqo; mh : addr -> msg; next_r : addr; next_m : addr; pool : list addr }.

Definition upd {A} (f : addr -> A) (a : addr) (v : A) : addr -> A := fun x => if Nat.eqb x a then v else f x.
Definition remove_nth {A} (i : nat) (l : list A) : list A := firstn i l ++ skipn (S i) l.

(* deviations from the code as it is; all false = the code as it is. Each true flag is a change that was seeded. *)
Record flags := mkflags {
  f_decode_caller : bool;   (* the client hands DecodeResponse the caller's request instead of the encoded one *)
  f_in_place : bool;        (* the codec writes the encoded keys into the caller's message *)
  f_return_caller : bool;   (* for a message it has nothing to write into, EncodeRequest returns the caller's request *)
  f_attach_first : bool     (* the client attaches the context before encoding (and not after) *)
}.
Definition real : flags := mkflags false false false false.

(* reqPool.Get(): the i-th pooled object, or a new one (sync.Pool may do either) *)
Definition pool_get (h : heap) (i : nat) : addr * heap :=
  match nth_error (pool h) i with
  | Some r => (r, mkheap (rh h) (mh h) (next_r h) (next_m h) (remove_nth i (pool h)))
  | None => (next_r h, mkheap (rh h) (mh h) (S (next_r h)) (next_m h) (pool h))
  end.

(* codecV2.EncodeRequest(req = a): r := pool.Get(); *r = *req; setAPICtx(r); clone + encode the message *)
Definition encode (fl : flags) (c : ks) (a : addr) (i : nat) (h : heap) : addr * heap :=
  if f_return_caller fl && negb (r_keyed (rh h a)) then
    (a, mkheap (upd (rh h) a (mkreq (r_keyed (rh h a)) (r_inner (rh h a)) true (r_rev (rh h a)))) (mh h) (next_r h) (next_m h) (pool h))
  else
    let '(r, h1) := pool_get h i in
    let ro := rh h1 a in
    if r_keyed ro then
      let m := mh h1 (r_inner ro) in
      if f_in_place fl then
        (r, mkheap (upd (rh h1) r (mkreq true (r_inner ro) true (r_rev ro)))
                   (upd (mh h1) (r_inner ro) (mkmsg (map (encode_key c) (m_keys m)) (m_ctx m))) (next_r h1) (next_m h1) (pool h1))
      else
        (r, mkheap (upd (rh h1) r (mkreq true (next_m h1) true (r_rev ro)))
                   (upd (mh h1) (next_m h1) (mkmsg (map (encode_key c) (m_keys m)) (m_ctx m))) (next_r h1) (S (next_m h1)) (pool h1))
    else
      (r, mkheap (upd (rh h1) r (mkreq false (r_inner ro) true (r_rev ro))) (mh h1) (next_r h1) (next_m h1) (pool h1)).

(* tikvrpc.AttachContext(r, r.Context): the first time in place, later on a clone of the message (patchCmdCtx) *)
Definition attach (r : addr) (h : heap) : heap :=
  let ro := rh h r in
  let m := mh h (r_inner ro) in
  match r_rev ro with
  | O => mkheap (upd (rh h) r (mkreq (r_keyed ro) (r_inner ro) (r_api ro) 1))
                (upd (mh h) (r_inner ro) (mkmsg (m_keys m) (Some (r_api ro)))) (next_r h) (next_m h) (pool h)
  | S n => mkheap (upd (rh h) r (mkreq (r_keyed ro) (next_m h) (r_api ro) (S (S n))))
                  (upd (mh h) (next_m h) (mkmsg (m_keys m) (Some (r_api ro)))) (next_r h) (S (next_m h)) (pool h)
  end.

(* what reaches the wire: the key-bearing fields and the context of the message the transmitted request points to *)
Definition wire := (list (list N) * option bool)%type.

(* one transmission of the caller's request a: encode, attach, put on the wire, decode (= give the request back to
   the pool) *)
Definition send (fl : flags) (c : ks) (a : addr) (i : nat) (h : heap) : wire * heap :=
  let h0 := if f_attach_first fl then attach a h else h in
  let '(r, h1) := encode fl c a i h0 in
  let h2 := if f_attach_first fl then h1 else attach r h1 in
  let m := mh h2 (r_inner (rh h2 r)) in
  ((m_keys m, m_ctx m),
   mkheap (rh h2) (mh h2) (next_r h2) (next_m h2) ((if f_decode_caller fl then a else r) :: pool h2)).

(* a schedule: which caller object is transmitted next and which pooled object the pool hands out *)
Fixpoint sends (fl : flags) (c : ks) (sch : list (addr * nat)) (h : heap) : list wire * heap :=
  match sch with
  | [] => ([], h)
  | (a, i) :: t => let '(w, h1) := send fl c a i h in let '(ws, h2) := sends fl c t h1 in (w :: ws, h2)
  end.

(* what every transmission of a has to look like, in terms of the heap the callers started with *)
Definition wire_spec (c : ks) (h0 : heap) (a : addr) : wire :=
  let ro := rh h0 a in
  ((if r_keyed ro then map (encode_key c) (m_keys (mh h0 (r_inner ro))) else m_keys (mh h0 (r_inner ro))), Some true).
