(* ApiV2/ProofsPD.v — PD-side paths: region lookup through memcomparable keys, regions outside the
   keyspace, bucket keys, ParseKeyspaceID *)
From Verif Require Import ApiV2.Model ApiV2.ProofsKey ApiV2.ProofsRegion Codec.ProofsNum Codec.ProofsBytes.
Open Scope N_scope.

(* ---------- what PD compares: memcomparable region keys ---------- *)
Lemma mem_enc_le s k : lex_le (mem_enc s) (encode_bytes k) <-> lex_le s k.
Proof.
  unfold mem_enc. destruct (nilb s) eqn:Hs.
  - apply nilb_true in Hs; subst. unfold lex_le. split; intros _; apply lex_cmp_nil_l.
  - unfold lex_le. rewrite encode_bytes_order. tauto.
Qed.
Lemma mem_enc_upper e k : (mem_enc e = [] \/ lex_lt (encode_bytes k) (mem_enc e)) <-> (e = [] \/ lex_lt k e).
Proof.
  unfold mem_enc. destruct (nilb e) eqn:He.
  - apply nilb_true in He; subst. split; intros _; left; reflexivity.
  - assert (Hne : e <> []) by (apply nilb_false; exact He).
    assert (Hne2 : encode_bytes e <> []) by (apply nilb_false, encode_bytes_ne; exact Hne).
    unfold lex_lt. rewrite encode_bytes_order. split; intros [H|H]; try contradiction; right; exact H.
Qed.

(* PD finds the region by comparing EncodeRegionKey(k) with the region's memcomparable bounds: that is the
   region whose raw bounds contain the prefixed key *)
Lemma pd_in_region c s e k :
  in_range (mem_enc s) (mem_enc e) (encode_region_key c k) <-> in_range s e (encode_key c k).
Proof. unfold in_range, encode_region_key. rewrite mem_enc_le, mem_enc_upper. tauto. Qed.

(* ... and it decodes to a logical region that contains the logical key (GetRegion / GetPrevRegion / ScanRegions) *)
Lemma pd_locate c s e k : in_range (mem_enc s) (mem_enc e) (encode_region_key c k) ->
  exists s' e', decode_region_range c (mem_enc s) (mem_enc e) = ROk s' e' /\ in_range s' e' k /\
                (forall k', in_range s' e' k' <-> in_range s e (encode_key c k')).
Proof.
  intros H. apply pd_in_region in H. pose proof (region_clip c s e) as C.
  destruct (decode_region_range c (mem_enc s) (mem_enc e)) as [s' e'| |]; cbn [clip_spec] in C.
  - exists s', e'. split; [reflexivity|]. split; [apply C; exact H|exact C].
  - exfalso. exact (C k H).
  - contradiction.
Qed.

(* a proper region (start < end or unbounded) that contains no key of the keyspace is refused
   (GetRegionByID of a foreign region, a foreign region in a scan result) *)
Lemma region_outside_error c s e : (e = [] \/ lex_lt s e) ->
  (forall k, ~ in_range s e (encode_key c k)) -> decode_range c s e = ROutOfBound.
Proof.
  intros Hp Hout. pose proof (decode_range_clip c s e) as C.
  destruct (decode_range c s e) as [s' e'| |] eqn:D; cbn [clip_spec] in C; [|reflexivity|contradiction].
  exfalso. apply (Hout s'). apply C.
  (* the decoded range is not empty: s' is in it *)
  unfold decode_range, decode_range_gen in D.
  destruct (lex_leb (end_key c) s || (negb (nilb e) && lex_leb e (prefix c))) eqn:T1; [discriminate|].
  destruct (true && negb (has_prefix (prefix c) s) && lex_ltb (prefix c) s) eqn:T2; [discriminate|].
  injection D as <- <-. split; [unfold lex_le; rewrite lex_cmp_refl; discriminate|].
  apply orb_false_iff in T1 as [T1a T1b].
  unfold strip_or_empty. destruct (has_prefix (prefix c) e) eqn:He; [|left; reflexivity].
  right. pose proof (has_prefix_inv _ _ He) as Ee. set (e' := skipn (length (prefix c)) e) in *.
  assert (Hne : e <> []) by (rewrite Ee; intros E; apply app_eq_nil in E as [E _]; exact (prefix_ne c E)).
  destruct Hp as [Hp|Hp]; [contradiction|].
  destruct (has_prefix (prefix c) s) eqn:Hs.
  - pose proof (has_prefix_inv _ _ Hs) as Es. rewrite Es, Ee in Hp.
    fold (encode_key c (skipn (length (prefix c)) s)) in Hp. fold (encode_key c e') in Hp.
    unfold lex_lt in *. rewrite encode_key_cmp in Hp. exact Hp.
  - (* start below the keyspace: the end is above the prefix, so e' is not empty *)
    apply nilb_false in Hne. rewrite Hne in T1b. cbn [negb andb] in T1b. apply lex_leb_false in T1b.
    rewrite Ee in T1b. unfold lex_lt in *. rewrite <- (app_nil_r (prefix c)) in T1b at 1.
    rewrite lex_cmp_app_same in T1b. exact T1b.
Qed.

(* neighbouring regions stay neighbours: the shared bound decodes to the same logical key on both sides *)
Lemma pd_contiguous c s m e s1 e1 s2 e2 :
  decode_range c s m = ROk s1 e1 -> decode_range c m e = ROk s2 e2 -> e1 = s2.
Proof.
  unfold decode_range, decode_range_gen. intros H1 H2.
  destruct (lex_leb (end_key c) s || _); [discriminate|].
  destruct (true && negb (has_prefix (prefix c) s) && lex_ltb (prefix c) s); [discriminate|].
  destruct (lex_leb (end_key c) m || _); [discriminate|].
  destruct (true && negb (has_prefix (prefix c) m) && lex_ltb (prefix c) m); [discriminate|].
  injection H1 as <- <-. injection H2 as <- <-. reflexivity.
Qed.

(* ---------- bucket keys ---------- *)
Lemma end_le_no_prefix c k : lex_le (end_key c) k -> has_prefix (prefix c) k = false.
Proof.
  intros H. destruct (has_prefix (prefix c) k) eqn:Hp; [|reflexivity]. exfalso.
  apply has_prefix_inv in Hp. pose proof (enc_lt_end c (skipn (length (prefix c)) k)) as L.
  unfold encode_key in L. rewrite <- Hp in L. exact (lex_lt_not_le _ _ L H).
Qed.

Lemma dbk_step_In c f l out k x : x <> [] ->
  (In x (dbk_step c f l out k) <-> In x out \/ k = encode_key c x).
Proof.
  intros Hx. unfold dbk_step, dbk_step_gen.
  assert (Happ : forall y, In x (out ++ [y]) <-> In x out \/ y = x).
  { intros y. rewrite in_app_iff. cbn [In]. tauto. }
  destruct (f && lex_ltb k (prefix c)) eqn:B1.
  - apply andb_true_iff in B1 as [_ B1]. apply lex_ltb_lt in B1. rewrite Happ. split; [intros [H|H]; [auto|congruence]|].
    intros [H|H]; [auto|]. exfalso. subst k. exact (lex_lt_not_le _ _ B1 (prefix_le_enc c x)).
  - destruct (l && (nilb k || lex_leb (end_key c) k || (true && negb (has_prefix (prefix c) k) && lex_ltb (prefix c) k))) eqn:B2.
    + apply andb_true_iff in B2 as [_ B2]. rewrite Happ. split; [intros [H|H]; [auto|congruence]|].
      intros [H|H]; [auto|]. exfalso. subst k. apply orb_true_iff in B2 as [B2|B2]; [apply orb_true_iff in B2 as [B2|B2]|].
      * unfold encode_key in B2. rewrite nilb_app_ne in B2 by apply prefix_ne. discriminate.
      * apply lex_leb_le in B2. exact (lex_lt_not_le _ _ (enc_lt_end c x) B2).
      * unfold encode_key in B2 at 1. rewrite has_prefix_app in B2. discriminate.
    + destruct (has_prefix (prefix c) k) eqn:Hp.
      * pose proof (has_prefix_inv _ _ Hp) as E. set (raw := skipn (length (prefix c)) k) in *.
        assert (Heq : k = encode_key c x <-> raw = x).
        { rewrite E. unfold encode_key. split; [apply app_inv_head|intros ->; reflexivity]. }
        destruct (nilb raw && head_is_empty out) eqn:B3.
        -- apply andb_true_iff in B3 as [B3 _]. apply nilb_true in B3. rewrite Heq, B3.
           split; [auto|intros [H|H]; [auto|congruence]].
        -- rewrite Happ, Heq. tauto.
      * split; [auto|]. intros [H|H]; [auto|]. subst k. unfold encode_key in Hp. rewrite has_prefix_app in Hp. discriminate.
Qed.

Lemma dbk_In c x : x <> [] -> forall rest f out,
  In x (dbk c f out rest) <-> In x out \/ In (encode_key c x) rest.
Proof.
  intros Hx. unfold dbk. induction rest as [|k r IH]; intros f out; cbn [dbk_gen In]; [tauto|]. fold (dbk_step c f (nilb_l r) out k).
  rewrite IH, (dbk_step_In c f (nilb_l r) out k x Hx). intuition congruence.
Qed.

(* every non-empty logical boundary in the result is the image of an input boundary and vice versa:
   boundaries inside the keyspace are kept and stripped, boundaries outside are dropped *)
Lemma bucket_separators c keys ks out : map_opt mem_decode_opt keys = Some ks ->
  decode_bucket_keys c keys = Some out ->
  forall x, x <> [] -> (In x out <-> In (encode_key c x) ks).
Proof.
  unfold decode_bucket_keys. intros -> [= <-] x Hx. rewrite (dbk_In c x Hx). cbn [In]. tauto.
Qed.

(* two logical keys are separated by an output boundary iff their images are separated by an input boundary *)
Lemma bucket_same_bucket c keys ks out : map_opt mem_decode_opt keys = Some ks ->
  decode_bucket_keys c keys = Some out ->
  forall x y, (exists l, In l out /\ l <> [] /\ lex_lt x l /\ lex_le l y) <->
              (exists b, In b ks /\ lex_lt (encode_key c x) b /\ lex_le b (encode_key c y)).
Proof.
  intros Hk Hd x y. split.
  - intros (l & Hl & Hne & H1 & H2). exists (encode_key c l). split; [apply (bucket_separators c keys ks out Hk Hd l Hne); exact Hl|].
    unfold lex_lt, lex_le in *. rewrite !encode_key_cmp. auto.
  - intros (b & Hb & H1 & H2).
    assert (Hp : has_prefix (prefix c) b = true).
    { destruct (has_prefix (prefix c) b) eqn:Hp; [reflexivity|]. exfalso.
      assert (L : lex_lt (prefix c) b) by (eapply lex_le_lt_trans; [apply (prefix_le_enc c x)|exact H1]).
      exact (lex_lt_not_le _ _ (no_prefix_gt _ _ y Hp L) H2). }
    pose proof (has_prefix_inv _ _ Hp) as E. set (l := skipn (length (prefix c)) b) in *.
    fold (encode_key c l) in E. rewrite E in H1, H2, Hb. unfold lex_lt, lex_le in H1, H2. rewrite encode_key_cmp in H1, H2.
    assert (Hne : l <> []) by (intros ->; destruct x; cbn in H1; discriminate).
    exists l. split; [apply (bucket_separators c keys ks out Hk Hd l Hne); exact Hb|]. auto.
Qed.

Lemma dbk_step_keeps_head c f l out k y t : out = y :: t -> exists t', dbk_step c f l out k = y :: t'.
Proof.
  intros ->. unfold dbk_step, dbk_step_gen.
  destruct (f && _); [eexists; reflexivity|]. destruct (l && _); [eexists; reflexivity|].
  destruct (has_prefix _ _); [|eexists; reflexivity]. destruct (_ && _); eexists; reflexivity.
Qed.
Lemma dbk_keeps_head c : forall rest f y t, exists t', dbk c f (y :: t) rest = y :: t'.
Proof.
  unfold dbk. induction rest as [|k r IH]; intros f y t; cbn [dbk_gen]; [eexists; reflexivity|]. fold (dbk_step c f (nilb_l r) (y :: t) k).
  destruct (dbk_step_keeps_head c f (nilb_l r) (y :: t) k y t eq_refl) as (t' & ->). apply IH.
Qed.

(* the first boundary of the result is the decoded region start *)
Lemma bucket_first c k0 rest kn s e : rest <> [] -> decode_range c k0 kn = ROk s e ->
  exists t, dbk c true [] (k0 :: rest) = s :: t.
Proof.
  intros Hr D. unfold dbk. cbn [dbk_gen]. fold (dbk c). replace (nilb_l rest) with false by (destruct rest; [congruence|reflexivity]).
  assert (S1 : dbk_step_gen true c true false [] k0 = [s]).
  { unfold decode_range, decode_range_gen in D.
    destruct (lex_leb (end_key c) k0 || _) eqn:T1; [discriminate|].
    destruct (true && negb (has_prefix (prefix c) k0) && lex_ltb (prefix c) k0) eqn:T2; [discriminate|].
    injection D as <- _. unfold dbk_step_gen, strip_or_empty. cbn [andb app head_is_empty].
    destruct (lex_ltb k0 (prefix c)) eqn:L.
    - replace (has_prefix (prefix c) k0) with false; [reflexivity|].
      symmetry. destruct (has_prefix (prefix c) k0) eqn:Hp; [|reflexivity]. exfalso.
      apply has_prefix_inv in Hp. apply lex_ltb_lt in L. rewrite Hp in L.
      exact (lex_lt_not_le _ _ L (prefix_le_enc c _)).
    - destruct (has_prefix (prefix c) k0) eqn:Hp; [rewrite andb_false_r; reflexivity|].
      exfalso. cbn [negb andb] in T2. (* not below, not carrying the prefix: above it *)
      assert (G : lex_lt (prefix c) k0).
      { apply lex_not_le_lt. intros Hle. apply lex_le_cases in Hle as [E|Hlt].
        - rewrite E, <- (app_nil_r (prefix c)), has_prefix_app in Hp. discriminate.
        - apply lex_ltb_lt in Hlt. congruence. }
      apply lex_ltb_lt in G. congruence. }
  rewrite S1. apply dbk_keeps_head.
Qed.

(* the last boundary of the result is the decoded region end *)
Lemma bucket_last c : forall rest f out k0 s e, rest <> [] ->
  decode_range c k0 (last rest []) = ROk s e ->
  last (dbk c f out rest) [0] = e.
Proof.
  unfold dbk. induction rest as [|k r IH]; intros f out k0 s e Hr D; [congruence|].
  destruct r as [|k' r'].
  - cbn [last dbk_gen nilb_l] in *.
    unfold decode_range, decode_range_gen in D.
    destruct (lex_leb (end_key c) k0 || (negb (nilb k) && lex_leb k (prefix c))) eqn:T1; [discriminate|].
    destruct (true && _ && _); [discriminate|]. injection D as _ <-.
    apply orb_false_iff in T1 as [_ T1].
    unfold dbk_step_gen, strip_or_empty. cbn [andb].
    destruct (nilb k) eqn:Nk.
    + apply nilb_true in Nk; subst k. cbn [orb has_prefix].
      replace (has_prefix (prefix c) []) with false by (pose proof (prefix_ne c); destruct (prefix c); [congruence|reflexivity]).
      destruct (f && _); rewrite last_last; reflexivity.
    + cbn [negb andb] in T1. apply lex_leb_false in T1. (* prefix < k *)
      replace (lex_ltb k (prefix c)) with false.
      2:{ symmetry. destruct (lex_ltb k (prefix c)) eqn:L; [|reflexivity]. apply lex_ltb_lt in L.
          exfalso. exact (lex_lt_not_le _ _ L (ltac:(unfold lex_le, lex_lt in *; congruence))). }
      rewrite andb_false_r. cbn [orb].
      destruct (lex_leb (end_key c) k) eqn:G.
      * apply lex_leb_le in G. rewrite (end_le_no_prefix c k G). cbn [orb]. rewrite last_last. reflexivity.
      * destruct (has_prefix (prefix c) k) eqn:Hp.
        -- pose proof (has_prefix_inv _ _ Hp) as E. cbn [negb andb orb].
           replace (nilb (skipn (length (prefix c)) k)) with false; [cbn [andb]; rewrite last_last; reflexivity|].
           symmetry. apply nilb_false. intros E0. rewrite E0, app_nil_r in E. rewrite E in T1.
           unfold lex_lt in T1. rewrite lex_cmp_refl in T1. discriminate.
        -- (* a short key above the keyspace and below endKey: the unbounded end since bbcfa45 *)
           apply lex_ltb_lt in T1. rewrite T1. cbn [negb andb orb]. rewrite last_last. reflexivity.
  - cbn [dbk_gen]. change (last (k :: k' :: r') []) with (last (k' :: r') []) in *.
    apply (IH false _ k0 s e); [discriminate|exact D].
Qed.

(* regression witness: the loop before bbcfa45 lost the unbounded end for keyspace 255 (raw) and the buckets
   [..a, ..m, 72 00 01] *)
Lemma bucket_last_before_repair :
  decode_range (mkks Raw 255) [114;0;0;255;97] [114;0;1] = ROk [97] [] /\
  dbk_gen false (mkks Raw 255) true [] [[114;0;0;255;97]; [114;0;0;255;109]; [114;0;1]] = [[97]; [109]] /\
  dbk (mkks Raw 255) true [] [[114;0;0;255;97]; [114;0;0;255;109]; [114;0;1]] = [[97]; [109]; []].
Proof. repeat split; vm_compute; reflexivity. Qed.

(* ---------- a scan answer ---------- *)
Definition holds_key (c : ks) (r : list N * list N) : bool :=
  match decode_range c (fst r) (snd r) with ROk _ _ => true | _ => false end.
Definition clip_region (c : ks) (r : list N * list N) : list (list N * list N) :=
  match decode_range c (fst r) (snd r) with ROk s' e' => [(s', e')] | _ => [] end.
Definition menc_region (r : list N * list N) := (mem_enc (fst r), mem_enc (snd r)).

Lemma decode_range_no_decerr c s e : decode_range c s e <> RDecodeErr.
Proof. unfold decode_range, decode_range_gen. destruct (_ || _); [discriminate|]. destruct (_ && _); discriminate. Qed.

(* the decoded scan answer is, in order, the clipped form of exactly the regions that decode (= hold a key) *)
Lemma scan_exact c phys :
  decode_scan c (map menc_region phys) = Some (flat_map (clip_region c) phys) /\
  flat_map (clip_region c) phys = flat_map (clip_region c) (filter (holds_key c) phys).
Proof.
  induction phys as [|[s e] r [IH1 IH2]]; [split; reflexivity|].
  pose proof (decode_range_no_decerr c s e) as N.
  destruct (decode_range c s e) as [s' e'| |] eqn:D; [| |congruence].
  - assert (C : clip_region c (s, e) = [(s', e')]) by (unfold clip_region; cbn [fst snd]; rewrite D; reflexivity).
    assert (H : holds_key c (s, e) = true) by (unfold holds_key; cbn [fst snd]; rewrite D; reflexivity).
    cbn [map flat_map filter decode_scan]. unfold menc_region at 1. cbn [fst snd].
    rewrite decode_region_range_enc, D, IH1, H, C. cbn [flat_map app]. rewrite C. cbn [app].
    split; [reflexivity|]. f_equal. exact IH2.
  - assert (C : clip_region c (s, e) = []) by (unfold clip_region; cbn [fst snd]; rewrite D; reflexivity).
    assert (H : holds_key c (s, e) = false) by (unfold holds_key; cbn [fst snd]; rewrite D; reflexivity).
    cbn [map flat_map filter decode_scan]. unfold menc_region at 1. cbn [fst snd].
    rewrite decode_region_range_enc, D, IH1, H, C. cbn [app]. split; [reflexivity|exact IH2].
Qed.

Lemma ok_nonempty c s e s' e' : (e = [] \/ lex_lt s e) -> decode_range c s e = ROk s' e' -> in_range s' e' s'.
Proof.
  intros Hp D. unfold decode_range, decode_range_gen in D.
  destruct (lex_leb (end_key c) s || (negb (nilb e) && lex_leb e (prefix c))) eqn:T1; [discriminate|].
  destruct (true && negb (has_prefix (prefix c) s) && lex_ltb (prefix c) s) eqn:T2; [discriminate|].
  injection D as <- <-. split; [unfold lex_le; rewrite lex_cmp_refl; discriminate|].
  apply orb_false_iff in T1 as [T1a T1b].
  unfold strip_or_empty. destruct (has_prefix (prefix c) e) eqn:He; [|left; reflexivity].
  right. pose proof (has_prefix_inv _ _ He) as Ee. set (e0 := skipn (length (prefix c)) e) in *.
  assert (Hne : e <> []) by (rewrite Ee; intros E; apply app_eq_nil in E as [E _]; exact (prefix_ne c E)).
  destruct Hp as [Hp|Hp]; [contradiction|].
  destruct (has_prefix (prefix c) s) eqn:Hs.
  - pose proof (has_prefix_inv _ _ Hs) as Es. rewrite Es, Ee in Hp.
    fold (encode_key c (skipn (length (prefix c)) s)) in Hp. fold (encode_key c e0) in Hp.
    unfold lex_lt in *. rewrite encode_key_cmp in Hp. exact Hp.
  - apply nilb_false in Hne. rewrite Hne in T1b. cbn [negb andb] in T1b. apply lex_leb_false in T1b.
    rewrite Ee in T1b. unfold lex_lt in *. rewrite <- (app_nil_r (prefix c)) in T1b at 1.
    rewrite lex_cmp_app_same in T1b. exact T1b.
Qed.

(* for a proper region, "decodes" means exactly "holds a key of the keyspace" *)
Lemma holds_key_spec c s e : (e = [] \/ lex_lt s e) ->
  (holds_key c (s, e) = true <-> exists k, in_range s e (encode_key c k)).
Proof.
  intros Hp. unfold holds_key. cbn [fst snd]. pose proof (decode_range_clip c s e) as C. split.
  - destruct (decode_range c s e) as [s' e'| |] eqn:D; try discriminate. intros _. cbn [clip_spec] in C.
    exists s'. apply C. eapply ok_nonempty; eassumption.
  - intros (k & Hk). destruct (decode_range c s e) as [s' e'| |]; cbn [clip_spec] in C; [reflexivity| |contradiction].
    exfalso. exact (C k Hk).
Qed.

(* a proper region lying between two keys of the keyspace holds a key of the keyspace (its own start): in a chain of
   regions the kept ones are consecutive, so the decoded answer is contiguous by pd_contiguous *)
Lemma between_holds c s e k1 k2 : lex_le (encode_key c k1) s -> lex_lt s e -> lex_le e (encode_key c k2) ->
  exists x, s = encode_key c x /\ in_range s e (encode_key c x).
Proof.
  intros H1 H2 H3.
  assert (Hp : has_prefix (prefix c) s = true).
  { destruct (has_prefix (prefix c) s) eqn:Hp; [reflexivity|]. exfalso.
    assert (L : lex_lt (prefix c) s).
    { pose proof (prefix_le_enc c k1) as P. apply lex_le_cases in P as [E|P].
      - apply lex_le_cases in H1 as [E1|L1]; [|rewrite E; exact L1].
        rewrite <- E1, <- E, <- (app_nil_r (prefix c)), has_prefix_app in Hp. discriminate.
      - eapply lex_lt_le_trans; eassumption. }
    pose proof (no_prefix_gt _ _ k2 Hp L) as G. fold (encode_key c k2) in G.
    apply (lex_lt_not_le _ _ (lex_lt_le_trans _ _ _ H2 H3)). unfold lex_le, lex_lt in *. rewrite G. discriminate. }
  pose proof (has_prefix_inv _ _ Hp) as E. exists (skipn (length (prefix c)) s). fold (encode_key c (skipn (length (prefix c)) s)) in E.
  split; [exact E|]. rewrite <- E. split; [unfold lex_le; rewrite lex_cmp_refl; discriminate|right; exact H2].
Qed.

(* ---------- ParseKeyspaceID ---------- *)
Lemma parse_encode c k : ks_ok c -> parse_keyspace_id (encode_key c k) = Some (ks_id c).
Proof.
  intros Hok. unfold encode_key, prefix.
  assert (L : length (be 3 (ks_id c)) = 3%nat) by apply be_length.
  destruct (be 3 (ks_id c)) as [|b1 [|b2 [|b3 [|? ?]]]] eqn:E; cbn in L; try discriminate.
  cbn [app parse_keyspace_id].
  replace ((mode_byte (ks_mode c) =? 114) || (mode_byte (ks_mode c) =? 120)) with true by (destruct (ks_mode c); reflexivity).
  f_equal. rewrite of_be_cons, <- E, of_be_be; [cbn; reflexivity|rewrite pow256_3; exact Hok].
Qed.

Lemma parse_strict b id : wf_bytes b -> parse_keyspace_id b = Some id ->
  exists c k, ks_ok c /\ ks_id c = id /\ b = encode_key c k.
Proof.
  intros Hwf. destruct b as [|m [|b1 [|b2 [|b3 k]]]]; cbn [parse_keyspace_id]; try discriminate.
  destruct ((m =? 114) || (m =? 120)) eqn:M; [|discriminate]. intros [= <-].
  assert (W3 : wf_bytes [b1; b2; b3]).
  { unfold wf_bytes in *. inversion Hwf as [|? ? _ H1]; subst. inversion H1 as [|? ? A1 H2]; subst.
    inversion H2 as [|? ? A2 H3]; subst. inversion H3 as [|? ? A3 _]; subst. repeat constructor; assumption. }
  assert (V : of_be [0; b1; b2; b3] = of_be [b1; b2; b3]) by (rewrite of_be_cons; cbn [length]; lia).
  pose proof (of_be_bound _ W3) as Bd. cbn [length] in Bd. rewrite pow256_3 in Bd.
  pose proof (be_of_be _ W3) as B. cbn [length] in B.
  exists (mkks (if m =? 114 then Raw else Txn) (of_be [0; b1; b2; b3])), k.
  unfold ks_ok, encode_key, prefix. cbn [ks_id ks_mode]. rewrite V. split; [exact Bd|]. split; [reflexivity|].
  rewrite B. cbn [app]. f_equal.
  apply orb_true_iff in M as [M|M]; rewrite ?M; apply N.eqb_eq in M; subst; reflexivity.
Qed.

(* ---------- region errors, the free DecodeKey, whole responses ---------- *)
Lemma region_error_decode c k s e phys bs ks :
  in_range s e (encode_key c k) -> map_opt mem_decode_opt bs = Some ks ->
  exists s' e', decode_range c s e = ROk s' e' /\ in_range s' e' k /\
    decode_region_error c (mkre (Some (encode_key c k, mem_enc s, mem_enc e)) (Some (map menc_region phys)) (Some bs))
    = Some (mkre (Some (k, s', e')) (Some (flat_map (clip_region c) phys)) (Some (dbk c true [] ks))).
Proof.
  intros Hin Hb. apply pd_in_region in Hin. destruct (pd_locate c s e k Hin) as (s' & e' & D & Hk & _).
  exists s', e'. rewrite decode_region_range_enc in D. split; [exact D|]. split; [exact Hk|].
  unfold decode_region_error. cbn [re_knir re_epoch re_buckets].
  rewrite decode_encode_key, decode_region_range_enc, D.
  unfold decode_bucket_keys. rewrite Hb. rewrite (proj1 (scan_exact c phys)). reflexivity.
Qed.

Lemma region_error_foreign c c2 k s e ep bv : ks_ok c -> ks_ok c2 -> c <> c2 ->
  decode_region_error c (mkre (Some (encode_key c2 k, s, e)) ep bv) = None.
Proof.
  intros H1 H2 Hne. unfold decode_region_error. cbn [re_knir]. rewrite decode_foreign by assumption. reflexivity.
Qed.

Lemma split_encode c k : split_v2_key (encode_key c k) = Some (prefix c, k).
Proof.
  unfold encode_key, prefix.
  assert (L : length (be 3 (ks_id c)) = 3%nat) by apply be_length.
  destruct (be 3 (ks_id c)) as [|b1 [|b2 [|b3 [|? ?]]]] eqn:E; cbn in L; try discriminate.
  cbn [app split_v2_key].
  replace ((mode_byte (ks_mode c) =? 114) || (mode_byte (ks_mode c) =? 120)) with true by (destruct (ks_mode c); reflexivity).
  reflexivity.
Qed.

Lemma decode_fields_own c ks : decode_fields c (map (encode_key c) ks) = Some ks.
Proof.
  unfold decode_fields. induction ks as [|k t IH]; [reflexivity|]. cbn [map map_opt]. rewrite decode_encode_key, IH. reflexivity.
Qed.

(* one key of another keyspace anywhere in a response and nothing of it is handed to the caller *)
Lemma decode_fields_foreign c c2 k fs : ks_ok c -> ks_ok c2 -> c <> c2 -> In (encode_key c2 k) fs -> decode_fields c fs = None.
Proof.
  intros H1 H2 Hne. unfold decode_fields. induction fs as [|f t IH]; intros Hin; [destruct Hin|].
  cbn [map_opt]. destruct Hin as [->|Hin].
  - rewrite decode_foreign by assumption. reflexivity.
  - rewrite (IH Hin). destruct (decode_key c f); reflexivity.
Qed.
