(* ApiV2/ProofsRegion.v — DecodeRange / DecodeRegionRange clip a physical region to the keyspace *)
From Verif Require Import ApiV2.Model ApiV2.ProofsKey Codec.ProofsNum Codec.ProofsBytes.
Open Scope N_scope.

(* ---------- small order toolkit ---------- *)
Lemma lex_lt_le_trans a b c : lex_lt a b -> lex_le b c -> lex_lt a c.
Proof.
  unfold lex_lt, lex_le. intros H1 H2. destruct (lex_cmp b c) eqn:E; [| |congruence].
  - apply lex_cmp_eq in E; subst; exact H1.
  - eapply lex_cmp_lt_trans; eassumption.
Qed.
Lemma lex_le_lt_trans a b c : lex_le a b -> lex_lt b c -> lex_lt a c.
Proof.
  unfold lex_lt, lex_le. intros H1 H2. destruct (lex_cmp a b) eqn:E; [| |congruence].
  - apply lex_cmp_eq in E; subst; exact H2.
  - eapply lex_cmp_lt_trans; eassumption.
Qed.
Lemma lex_lt_not_le a b : lex_lt a b -> ~ lex_le b a.
Proof. unfold lex_lt, lex_le. intros H. rewrite lex_cmp_antisym, H. cbn. congruence. Qed.
Lemma lex_le_not_lt a b : lex_le a b -> ~ lex_lt b a.
Proof. unfold lex_lt, lex_le. intros H L. apply H. rewrite lex_cmp_antisym, L. reflexivity. Qed.
Lemma lex_not_le_lt a b : ~ lex_le a b -> lex_lt b a.
Proof.
  unfold lex_lt, lex_le. intros H. rewrite lex_cmp_antisym. destruct (lex_cmp a b); cbn; try reflexivity; exfalso; apply H; congruence.
Qed.
Lemma lex_le_cases a b : lex_le a b -> a = b \/ lex_lt a b.
Proof.
  unfold lex_lt, lex_le. destruct (lex_cmp a b) eqn:E; intros H; [left; apply lex_cmp_eq; exact E|right; reflexivity|congruence].
Qed.
Lemma lex_leb_false a b : lex_leb a b = false <-> lex_lt b a.
Proof.
  unfold lex_leb, lex_lt. rewrite (lex_cmp_antisym a b). destruct (lex_cmp a b); cbn; split; congruence.
Qed.

(* a string above the prefix that does not carry it is above every key of the keyspace *)
Lemma no_prefix_gt p : forall x k, has_prefix p x = false -> lex_lt p x -> lex_lt (p ++ k) x.
Proof.
  unfold lex_lt. induction p as [|a p IH]; intros x k Hp Hl; [discriminate|].
  destruct x as [|b x]; [cbn in Hl; discriminate|].
  cbn [has_prefix] in Hp. cbn [lex_cmp app] in *.
  destruct (N.compare_spec a b) as [E|L|G]; try congruence.
  subst. rewrite N.eqb_refl in Hp. cbn in Hp. apply IH; assumption.
Qed.

(* ---------- DecodeRange ---------- *)
(* the one class of start keys DecodeRange gets wrong: strictly between prefix and endKey without
   carrying the prefix (only strings shorter than four bytes, see short_start_is_short) *)
Definition short_start (c : ks) (s : list N) : Prop :=
  has_prefix (prefix c) s = false /\ lex_lt (prefix c) s /\ lex_lt s (end_key c).

Definition clip_spec (c : ks) (s e : list N) (r : range_res) : Prop :=
  match r with
  | ROk s' e' => forall k, in_range s' e' k <-> in_range s e (encode_key c k)
  | ROutOfBound => forall k, ~ in_range s e (encode_key c k)
  | RDecodeErr => False
  end.

Lemma short_start_is_short c s : wf_bytes s -> short_start c s -> (length s < 4)%nat.
Proof.
  intros Hwf (Hp & Hl & Hu). destruct (Nat.ltb (length s) 4) eqn:L; [apply Nat.ltb_lt; exact L|].
  apply Nat.ltb_ge in L. exfalso.
  assert (H : has_prefix (prefix c) s = true).
  { apply in_bounds_has_prefix; [assumption|lia|]. split; [|exact Hu]. unfold lex_le, lex_lt in *. congruence. }
  congruence.
Qed.

Lemma lower_bound_clip c s k : ~ short_start c s -> lex_lt s (end_key c) ->
  (lex_le (strip_or_empty c s) k <-> lex_le s (encode_key c k)).
Proof.
  intros Hns Hu. unfold strip_or_empty. destruct (has_prefix (prefix c) s) eqn:Hp.
  - apply has_prefix_inv in Hp. rewrite Hp at 2. fold (encode_key c (skipn (length (prefix c)) s)).
    unfold lex_le. rewrite encode_key_cmp. tauto.
  - split; intros _; [|unfold lex_le; apply lex_cmp_nil_l].
    (* s < prefix, hence below every key of the keyspace *)
    assert (L : lex_lt s (prefix c)).
    { apply lex_not_le_lt. intros Hle. apply lex_le_cases in Hle as [E|L].
      - rewrite <- E, <- (app_nil_r (prefix c)), has_prefix_app in Hp. discriminate.
      - apply Hns. repeat split; assumption. }
    pose proof (lex_lt_le_trans _ _ _ L (prefix_le_enc c k)) as T. unfold lex_lt, lex_le in *. congruence.
Qed.

Lemma upper_bound_clip c e k : ~ (e <> [] /\ lex_le e (prefix c)) ->
  ((strip_or_empty c e = [] \/ lex_lt k (strip_or_empty c e)) <-> (e = [] \/ lex_lt (encode_key c k) e)).
Proof.
  intros Hn. unfold strip_or_empty. destruct (has_prefix (prefix c) e) eqn:Hp.
  - pose proof (has_prefix_inv _ _ Hp) as He. set (e' := skipn (length (prefix c)) e) in *.
    assert (Hne : e' <> []).
    { intros E. apply Hn. rewrite He, E, app_nil_r. split; [apply prefix_ne|]. unfold lex_le. rewrite lex_cmp_refl. discriminate. }
    assert (Hne2 : e <> []) by (rewrite He; intros E; apply app_eq_nil in E as [E _]; exact (prefix_ne c E)).
    split; intros [H|H]; try contradiction; right.
    + rewrite He. fold (encode_key c e'). unfold lex_lt. rewrite encode_key_cmp. exact H.
    + rewrite He in H. fold (encode_key c e') in H. unfold lex_lt in H. rewrite encode_key_cmp in H. exact H.
  - split; intros _; [|left; reflexivity].
    destruct e as [|b e0]; [left; reflexivity|right].
    apply no_prefix_gt; [exact Hp|]. apply lex_not_le_lt. intros Hle. apply Hn. split; [discriminate|exact Hle].
Qed.

Lemma decode_range_gen_clip fixed c s e : (fixed = true \/ ~ short_start c s) ->
  clip_spec c s e (decode_range_gen fixed c s e).
Proof.
  intros Hns. unfold decode_range_gen.
  destruct (lex_leb (end_key c) s) eqn:H1; cbn [orb].
  - (* start at or above the end key *)
    intros k [Hl _]. apply lex_leb_le in H1.
    pose proof (lex_lt_le_trans _ _ _ (enc_lt_end c k) H1) as T. exact (lex_lt_not_le _ _ T Hl).
  - apply lex_leb_false in H1.
    destruct (negb (nilb e) && lex_leb e (prefix c)) eqn:H2.
    + (* end at or below the prefix *)
      apply andb_true_iff in H2 as [Hne Hle]. apply negb_true_iff, nilb_false in Hne. apply lex_leb_le in Hle.
      intros k [_ [Hu|Hu]]; [contradiction|].
      pose proof (lex_lt_le_trans _ _ _ Hu Hle) as T. exact (lex_lt_not_le _ _ T (prefix_le_enc c k)).
    + assert (Hn : ~ (e <> [] /\ lex_le e (prefix c))).
      { intros [A B]. apply nilb_false in A. apply lex_leb_le in B. rewrite A, B in H2. discriminate. }
      destruct (fixed && negb (has_prefix (prefix c) s) && lex_ltb (prefix c) s) eqn:H3.
      * (* start above every key of the keyspace *)
        apply andb_true_iff in H3 as [H3 Hl]. apply andb_true_iff in H3 as [_ Hp].
        apply negb_true_iff in Hp. apply lex_ltb_lt in Hl.
        intros k [Hk _]. exact (lex_lt_not_le _ _ (no_prefix_gt _ _ k Hp Hl) Hk).
      * assert (Hns' : ~ short_start c s).
        { destruct Hns as [->|Hns]; [|exact Hns]. intros (Hp & Hl & _).
          apply lex_ltb_lt in Hl. rewrite Hp, Hl in H3. discriminate. }
        intros k. unfold in_range. rewrite (lower_bound_clip c s k Hns' H1), (upper_bound_clip c e k Hn). tauto.
Qed.

Lemma decode_range_clip c s e : clip_spec c s e (decode_range c s e).
Proof. apply decode_range_gen_clip. left; reflexivity. Qed.

(* regression witness: the formula before the repair is wrong for keyspace 255 (raw) and the region
   [72 00 01, 72 00 01 00 05), which lies above the whole keyspace but decoded to the whole keyspace *)
Lemma decode_range_prefix_refuted : ~ (forall c s e, ks_ok c -> clip_spec c s e (decode_range_gen false c s e)).
Proof.
  intros H. specialize (H (mkks Raw 255) [114;0;1] [114;0;1;0;5]).
  assert (Hok : ks_ok (mkks Raw 255)) by (unfold ks_ok; cbn; reflexivity).
  specialize (H Hok). vm_compute in H. destruct (H []) as [H1 _].
  assert (A : in_range [] [] []) by (split; [unfold lex_le; cbn; discriminate|left; reflexivity]).
  destruct (H1 A) as [B _]. apply B. reflexivity.
Qed.

(* ---------- memcomparable wrapping: DecodeRegionRange ---------- *)
Definition mem_enc (x : list N) : list N := if nilb x then [] else encode_bytes x.

Lemma encode_bytes_ne x : x <> [] -> nilb (encode_bytes x) = false.
Proof.
  intros Hx. apply nilb_false. intros E.
  pose proof (enc_fuel_length_ge (S (length x)) x) as L. fold (encode_bytes x) in L. rewrite E in L.
  destruct x; [congruence|]. cbn [length] in L. lia.
Qed.

Lemma mem_decode_enc x : mem_decode_opt (mem_enc x) = Some x.
Proof.
  unfold mem_decode_opt, mem_enc. destruct (nilb x) eqn:Hx; cbn [nilb].
  - apply nilb_true in Hx. subst. reflexivity.
  - rewrite encode_bytes_ne by (apply nilb_false; exact Hx). unfold mem_decode.
    rewrite <- (app_nil_r (encode_bytes x)), decode_encode_bytes. reflexivity.
Qed.

Lemma decode_region_range_enc c s e : decode_region_range c (mem_enc s) (mem_enc e) = decode_range c s e.
Proof. unfold decode_region_range. rewrite !mem_decode_enc. reflexivity. Qed.

Lemma region_clip c s e : clip_spec c s e (decode_region_range c (mem_enc s) (mem_enc e)).
Proof. rewrite decode_region_range_enc. apply decode_range_clip. Qed.

(* anything DecodeRegionRange accepts is made of canonical memcomparable strings (or empty bounds) *)
Lemma mem_decode_opt_strict b k : mem_decode_opt b = Some k -> b <> [] -> exists r, b = encode_bytes k ++ r.
Proof.
  unfold mem_decode_opt, mem_decode. intros H Hne. apply nilb_false in Hne. rewrite Hne in H.
  destruct (decode_bytes b) as [[r k']|] eqn:D; [|discriminate]. injection H as <-.
  exists r. apply decode_bytes_strict. exact D.
Qed.

Lemma region_range_strict c s e : decode_region_range c s e <> RDecodeErr ->
  exists ps pe, decode_region_range c s e = decode_range c ps pe /\
    (s <> [] -> exists r, s = encode_bytes ps ++ r) /\ (e <> [] -> exists r, e = encode_bytes pe ++ r) /\
    (s = [] -> ps = []) /\ (e = [] -> pe = []).
Proof.
  unfold decode_region_range. intros H.
  destruct (mem_decode_opt s) as [ps|] eqn:Ds; [|congruence].
  destruct (mem_decode_opt e) as [pe|] eqn:De; [|congruence].
  exists ps, pe. split; [reflexivity|]. repeat split.
  - apply mem_decode_opt_strict; exact Ds.
  - apply mem_decode_opt_strict; exact De.
  - intros ->. cbn in Ds. congruence.
  - intros ->. cbn in De. congruence.
Qed.

(* ---------- region keys towards PD ---------- *)
Lemma region_key_cmp c a b : lex_cmp (encode_region_key c a) (encode_region_key c b) = lex_cmp a b.
Proof. unfold encode_region_key. rewrite encode_bytes_order. apply encode_key_cmp. Qed.

Lemma region_key_roundtrip c k : decode_region_key c (encode_region_key c k) = KOk k.
Proof.
  unfold decode_region_key, encode_region_key, mem_decode.
  rewrite <- (app_nil_r (encode_bytes _)), decode_encode_bytes, decode_encode_key. reflexivity.
Qed.

Lemma region_range_roundtrip c s e :
  let '(a, b) := encode_region_range c s e in
  decode_region_range c a b = ROk s e.
Proof.
  unfold encode_region_range. cbn [encode_range].
  assert (A : mem_decode_opt (encode_bytes (encode_key c s)) = Some (encode_key c s)).
  { unfold mem_decode_opt. rewrite encode_bytes_ne by (intros E; apply app_eq_nil in E as [E _]; exact (prefix_ne c E)).
    unfold mem_decode. rewrite <- (app_nil_r (encode_bytes _)), decode_encode_bytes. reflexivity. }
  assert (B : mem_decode_opt (encode_bytes (enc_end c e)) = Some (enc_end c e)).
  { unfold mem_decode_opt. rewrite encode_bytes_ne by (apply nilb_false, enc_end_ne).
    unfold mem_decode. rewrite <- (app_nil_r (encode_bytes _)), decode_encode_bytes. reflexivity. }
  unfold decode_region_range. rewrite A, B. unfold decode_range, decode_range_gen.
  replace (lex_leb (end_key c) (encode_key c s)) with false
    by (symmetry; apply lex_leb_false, enc_lt_end).
  replace (has_prefix (prefix c) (encode_key c s)) with true by (symmetry; apply has_prefix_app).
  cbn [orb]. rewrite enc_end_ne. cbn [negb andb].
  unfold enc_end. destruct (nilb e) eqn:Ne.
  - apply nilb_true in Ne; subst e.
    replace (lex_leb (end_key c) (prefix c)) with false.
    2:{ symmetry. apply lex_leb_false. rewrite <- (app_nil_r (prefix c)). apply (enc_lt_end c []). }
    unfold strip_or_empty, encode_key. rewrite has_prefix_app, skipn_app_len.
    replace (has_prefix (prefix c) (end_key c)) with false; [reflexivity|].
    symmetry. destruct (has_prefix (prefix c) (end_key c)) eqn:Hp; [|reflexivity]. exfalso.
    apply has_prefix_inv in Hp.
    pose proof (enc_lt_end c (skipn (length (prefix c)) (end_key c))) as L. unfold encode_key in L. rewrite <- Hp in L.
    unfold lex_lt in L. rewrite lex_cmp_refl in L. discriminate.
  - replace (lex_leb (encode_key c e) (prefix c)) with false.
    2:{ symmetry. apply lex_leb_false. unfold lex_lt. rewrite <- (app_nil_r (prefix c)) at 1.
        unfold encode_key. rewrite lex_cmp_app_same. destruct e; [discriminate|reflexivity]. }
    unfold strip_or_empty, encode_key. rewrite !has_prefix_app, !skipn_app_len. reflexivity.
Qed.
