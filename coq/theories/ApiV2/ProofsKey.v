(* ApiV2/ProofsKey.v — prefix / end key arithmetic, key round trip, order, isolation *)
From Verif Require Import ApiV2.Model Codec.ProofsNum.
From Coq Require Import ZifyNat ZifyN ZifyBool.
Open Scope N_scope.

(* ---------- generic list facts ---------- *)
Lemma has_prefix_app p r : has_prefix p (p ++ r) = true.
Proof. induction p as [|x p IH]; cbn [has_prefix app]; [reflexivity|]. rewrite N.eqb_refl. exact IH. Qed.

Lemma has_prefix_inv p : forall k, has_prefix p k = true -> k = p ++ skipn (length p) k.
Proof.
  induction p as [|x p IH]; intros k H; [reflexivity|].
  destruct k as [|y k]; cbn [has_prefix] in H; [discriminate|].
  apply andb_true_iff in H as [H1 H2]. apply N.eqb_eq in H1; subst y.
  cbn [length skipn app]. f_equal. apply IH; exact H2.
Qed.

Lemma skipn_app_len {A} (p r : list A) : skipn (length p) (p ++ r) = r.
Proof. induction p; cbn; auto. Qed.

Lemma has_prefix_eqlen p q r : length p = length q -> has_prefix p (q ++ r) = true -> p = q.
Proof.
  revert q; induction p as [|x p IH]; intros [|y q] Hl H; cbn in Hl; try discriminate; [reflexivity|].
  cbn [app has_prefix] in H. apply andb_true_iff in H as [H1 H2]. apply N.eqb_eq in H1; subst.
  f_equal. apply IH; [lia|exact H2].
Qed.

Lemma nilb_app_ne p x : p <> [] -> nilb (p ++ x) = false.
Proof. destruct p; [congruence|reflexivity]. Qed.
Lemma nilb_true l : nilb l = true <-> l = [].
Proof. destruct l; cbn; split; congruence. Qed.
Lemma nilb_false l : nilb l = false <-> l <> [].
Proof. destruct l; cbn; split; congruence. Qed.

Lemma lex_leb_le a b : lex_leb a b = true <-> lex_le a b.
Proof. unfold lex_leb, lex_le. destruct (lex_cmp a b); split; congruence. Qed.

Lemma lex_cmp_nil_r a : lex_cmp a [] <> Lt.
Proof. destruct a; cbn; discriminate. Qed.

(* big-endian value of a list: head is most significant *)
Lemma fold_of_be l : forall a, fold_left (fun a c => a * 256 + c) l a = a * pow256 (length l) + of_be l.
Proof.
  induction l as [|x l IH] using rev_ind; intros a.
  - cbn [fold_left length]. unfold of_be. cbn [fold_left]. rewrite pow256_0. lia.
  - rewrite fold_left_app, of_be_snoc, app_length. cbn [fold_left length]. rewrite IH.
    replace (length l + 1)%nat with (S (length l)) by lia. rewrite pow256_S. lia.
Qed.
Lemma of_be_cons x l : of_be (x :: l) = x * pow256 (length l) + of_be l.
Proof. unfold of_be at 1. cbn [fold_left]. rewrite fold_of_be. lia. Qed.

Lemma pow256_3 : pow256 3 = two24. Proof. reflexivity. Qed.
Lemma pow256_4 : pow256 4 = two32. Proof. reflexivity. Qed.

(* ---------- prefix and end key ---------- *)
Definition pval (c : ks) : N := of_be (prefix c).

Lemma mode_byte_lt m : mode_byte m <= 120.
Proof. destruct m; cbn; lia. Qed.

Lemma prefix_length c : length (prefix c) = 4%nat.
Proof. unfold prefix. cbn [length]. rewrite be_length. reflexivity. Qed.

Lemma prefix_ne c : prefix c <> [].
Proof. unfold prefix; discriminate. Qed.

Lemma prefix_wf c : wf_bytes (prefix c).
Proof.
  unfold prefix. constructor; [|apply be_wf].
  unfold wf_byte. pose proof (mode_byte_lt (ks_mode c)). lia.
Qed.

Lemma pval_eq c : pval c = mode_byte (ks_mode c) * two24 + of_be (be 3 (ks_id c)).
Proof. unfold pval, prefix. rewrite of_be_cons, be_length, pow256_3. reflexivity. Qed.

Lemma pval_bound c : pval c + 1 < two32.
Proof.
  rewrite pval_eq. pose proof (mode_byte_lt (ks_mode c)).
  pose proof (of_be_bound (be 3 (ks_id c)) (be_wf 3 (ks_id c))) as Hb.
  rewrite be_length, pow256_3 in Hb. unfold two24, two32 in *. lia.
Qed.

Lemma pval_ok c : ks_ok c -> pval c = mode_byte (ks_mode c) * two24 + ks_id c.
Proof. intros H. rewrite pval_eq, of_be_be; [reflexivity|]. rewrite pow256_3. exact H. Qed.

Lemma prefix_be c : prefix c = be 4 (pval c).
Proof.
  unfold pval. rewrite <- (prefix_length c). symmetry. apply be_of_be. apply prefix_wf.
Qed.

Lemma end_key_be c : end_key c = be 4 (pval c + 1).
Proof.
  unfold end_key. fold (pval c). rewrite N.mod_small; [reflexivity|apply pval_bound].
Qed.

Lemma end_key_length c : length (end_key c) = 4%nat.
Proof. unfold end_key. apply be_length. Qed.
Lemma end_key_ne c : end_key c <> [].
Proof. intros H. pose proof (end_key_length c) as L. rewrite H in L. discriminate. Qed.

Lemma cmp_be4 a b x y : a < two32 -> b < two32 ->
  lex_cmp (be 4 a ++ x) (be 4 b ++ y) = match N.compare a b with Eq => lex_cmp x y | r => r end.
Proof.
  intros Ha Hb. rewrite lex_cmp_app_eqlen by (rewrite !be_length; reflexivity).
  rewrite be_order by (rewrite pow256_4; assumption). reflexivity.
Qed.

Lemma pval_lt c : pval c < two32.
Proof. pose proof (pval_bound c). lia. Qed.

(* every key of the keyspace is below the end key *)
Lemma enc_lt_end c k : lex_lt (encode_key c k) (end_key c).
Proof.
  unfold lex_lt, encode_key. rewrite prefix_be, end_key_be, <- (app_nil_r (be 4 (pval c + 1))).
  rewrite cmp_be4; [|apply pval_lt|apply pval_bound].
  replace (N.compare (pval c) (pval c + 1)) with Lt; [reflexivity|].
  symmetry. apply N.compare_lt_iff. lia.
Qed.

Lemma prefix_le_enc c k : lex_le (prefix c) (encode_key c k).
Proof.
  unfold lex_le, encode_key. rewrite <- (app_nil_r (prefix c)) at 1. rewrite lex_cmp_app_same.
  apply lex_cmp_nil_l.
Qed.

(* ---------- round trip ---------- *)
Lemma decode_encode_key c k : decode_key c (encode_key c k) = Some k.
Proof.
  unfold decode_key, encode_key. rewrite nilb_app_ne by apply prefix_ne.
  rewrite has_prefix_app, skipn_app_len. reflexivity.
Qed.

Lemma decode_key_inv c e k : e <> [] -> decode_key c e = Some k -> e = encode_key c k.
Proof.
  intros Hne. unfold decode_key. apply nilb_false in Hne. rewrite Hne.
  destruct (has_prefix (prefix c) e) eqn:H; [|discriminate].
  intros [= <-]. apply has_prefix_inv; exact H.
Qed.

Lemma encode_key_inj c a b : encode_key c a = encode_key c b -> a = b.
Proof. unfold encode_key. apply app_inv_head. Qed.

(* ---------- order ---------- *)
Lemma encode_key_cmp c a b : lex_cmp (encode_key c a) (encode_key c b) = lex_cmp a b.
Proof. apply lex_cmp_app_same. Qed.

Lemma in_rangeb_spec s e k : in_rangeb s e k = true <-> in_range s e k.
Proof.
  unfold in_rangeb, in_range. rewrite andb_true_iff, orb_true_iff, lex_leb_le, nilb_true, lex_ltb_lt. tauto.
Qed.

Lemma enc_end_ne c e : nilb (enc_end c e) = false.
Proof.
  unfold enc_end. destruct (nilb e).
  - apply nilb_false, end_key_ne.
  - apply nilb_app_ne, prefix_ne.
Qed.

(* a logical range [s, e) ([] = unbounded) is exactly the physical range [enc s, enc_end e) on keyspace keys *)
Lemma in_rangeb_enc c s e k :
  in_rangeb (encode_key c s) (enc_end c e) (encode_key c k) = in_rangeb s e k.
Proof.
  unfold in_rangeb. rewrite enc_end_ne. cbn [orb].
  unfold lex_leb at 1. rewrite encode_key_cmp. fold (lex_leb s k). f_equal.
  unfold enc_end. destruct (nilb e) eqn:He; cbn [orb].
  - apply lex_ltb_lt. apply enc_lt_end.
  - unfold lex_ltb. rewrite encode_key_cmp. reflexivity.
Qed.

Lemma order_fwd c s e k :
  in_range s e k <-> in_range (fst (encode_range c false s e)) (snd (encode_range c false s e)) (encode_key c k).
Proof. cbn [encode_range fst snd]. rewrite <- !in_rangeb_spec, in_rangeb_enc. tauto. Qed.

(* reverse scan: the request's start key is the (exclusive) upper bound and its end key the lower bound *)
Lemma order_rev c s e k :
  in_range e s k <-> in_range (snd (encode_range c true s e)) (fst (encode_range c true s e)) (encode_key c k).
Proof. cbn [encode_range fst snd]. rewrite <- !in_rangeb_spec, in_rangeb_enc. tauto. Qed.

Lemma encode_range_end_ne c s e : snd (encode_range c false s e) <> [] /\ fst (encode_range c true s e) <> [].
Proof. cbn [encode_range fst snd]. split; apply nilb_false, enc_end_ne. Qed.

(* ---------- isolation ---------- *)
Lemma pval_inj c1 c2 : ks_ok c1 -> ks_ok c2 -> pval c1 = pval c2 -> c1 = c2.
Proof.
  intros H1 H2. rewrite !pval_ok by assumption. unfold ks_ok, two24 in *.
  destruct c1 as [m1 i1], c2 as [m2 i2]; cbn [ks_mode ks_id] in *.
  destruct m1, m2; cbn [mode_byte]; intros E; try lia; f_equal; lia.
Qed.

Lemma prefix_inj c1 c2 : ks_ok c1 -> ks_ok c2 -> prefix c1 = prefix c2 -> c1 = c2.
Proof. intros H1 H2 E. apply pval_inj; try assumption. unfold pval. rewrite E. reflexivity. Qed.

Lemma foreign_no_prefix c1 c2 k : ks_ok c1 -> ks_ok c2 -> c1 <> c2 ->
  has_prefix (prefix c1) (encode_key c2 k) = false.
Proof.
  intros H1 H2 Hne. destruct (has_prefix (prefix c1) (encode_key c2 k)) eqn:H; [|reflexivity].
  exfalso. apply Hne. apply prefix_inj; try assumption.
  eapply has_prefix_eqlen; [|exact H]. rewrite !prefix_length. reflexivity.
Qed.

Lemma decode_foreign c1 c2 k : ks_ok c1 -> ks_ok c2 -> c1 <> c2 -> decode_key c1 (encode_key c2 k) = None.
Proof.
  intros H1 H2 Hne. unfold decode_key. unfold encode_key at 1. rewrite nilb_app_ne by apply prefix_ne.
  rewrite foreign_no_prefix by assumption. reflexivity.
Qed.

Lemma images_disjoint c1 c2 k1 k2 : ks_ok c1 -> ks_ok c2 -> c1 <> c2 -> encode_key c1 k1 <> encode_key c2 k2.
Proof.
  intros H1 H2 Hne E. pose proof (decode_encode_key c1 k1) as D. rewrite E in D.
  rewrite decode_foreign in D by assumption. discriminate.
Qed.

(* a foreign key is outside [prefix, endKey), hence outside every physical range the client can send *)
Lemma foreign_outside c1 c2 k : ks_ok c1 -> ks_ok c2 -> c1 <> c2 ->
  lex_lt (encode_key c2 k) (prefix c1) \/ lex_le (end_key c1) (encode_key c2 k).
Proof.
  intros H1 H2 Hne. unfold lex_lt, lex_le, encode_key.
  assert (Hv : pval c1 <> pval c2) by (intros E; apply Hne; apply pval_inj; assumption).
  rewrite (prefix_be c2), (prefix_be c1), end_key_be.
  rewrite <- (app_nil_r (be 4 (pval c1))), <- (app_nil_r (be 4 (pval c1 + 1))).
  rewrite !cmp_be4 by (try apply pval_lt; apply pval_bound).
  destruct (N.compare_spec (pval c2) (pval c1)) as [E|L|G]; [congruence|left; reflexivity|right].
  destruct (N.compare_spec (pval c1 + 1) (pval c2)) as [E'|L'|G']; try discriminate.
  - apply lex_cmp_nil_l.
  - lia.
Qed.

Lemma foreign_not_in_range c1 c2 s e k : ks_ok c1 -> ks_ok c2 -> c1 <> c2 ->
  in_rangeb (encode_key c1 s) (enc_end c1 e) (encode_key c2 k) = false.
Proof.
  intros H1 H2 Hne. destruct (in_rangeb _ _ _) eqn:R; [|reflexivity]. exfalso.
  apply in_rangeb_spec in R. destruct R as [Rl Ru].
  destruct (foreign_outside c1 c2 k H1 H2 Hne) as [L|G].
  - (* below the prefix, but >= enc s >= prefix *)
    pose proof (prefix_le_enc c1 s) as P. unfold lex_le, lex_lt in *.
    destruct (lex_cmp (prefix c1) (encode_key c1 s)) eqn:C1; [|clear P|congruence].
    + apply lex_cmp_eq in C1. rewrite <- C1 in Rl. rewrite lex_cmp_antisym, L in Rl. cbn in Rl. congruence.
    + pose proof (lex_cmp_lt_trans _ _ _ L C1) as T. rewrite lex_cmp_antisym, T in Rl. cbn in Rl. congruence.
  - (* >= endKey, but < enc_end <= endKey *)
    assert (U : lex_lt (encode_key c2 k) (end_key c1)).
    { destruct Ru as [Ru|Ru]; [apply nilb_true in Ru; rewrite enc_end_ne in Ru; discriminate|].
      unfold enc_end in Ru. destruct (nilb e); [exact Ru|].
      eapply lex_cmp_lt_trans; [exact Ru|apply enc_lt_end]. }
    unfold lex_le, lex_lt in *. rewrite lex_cmp_antisym, U in G. cbn in G. congruence.
Qed.

(* a well-formed key of at least four bytes lies in [prefix, endKey) iff it carries the prefix *)
Lemma in_bounds_has_prefix c x : wf_bytes x -> (4 <= length x)%nat ->
  (lex_le (prefix c) x /\ lex_lt x (end_key c)) <-> has_prefix (prefix c) x = true.
Proof.
  intros Hwf Hlen. split.
  - intros [Hl Hu].
    assert (Hw4 : wf_bytes (firstn 4 x)).
    { unfold wf_bytes in *. rewrite <- (firstn_skipn 4 x) in Hwf. apply Forall_app in Hwf. tauto. }
    rewrite <- (firstn_skipn 4 x) in Hl, Hu |- *.
    assert (L4 : length (firstn 4 x) = 4%nat) by (rewrite firstn_length; lia).
    pose proof (be_of_be _ Hw4) as B. rewrite L4 in B.
    pose proof (of_be_bound _ Hw4) as Bd. rewrite L4, pow256_4 in Bd.
    set (w := of_be (firstn 4 x)) in *.
    unfold lex_le, lex_lt in Hl, Hu. rewrite <- B in Hl, Hu.
    rewrite prefix_be in Hl. rewrite <- (app_nil_r (be 4 (pval c))) in Hl.
    rewrite end_key_be, <- (app_nil_r (be 4 (pval c + 1))) in Hu.
    rewrite cmp_be4 in Hl by (try apply pval_lt; assumption).
    rewrite cmp_be4 in Hu by (try apply pval_bound; assumption).
    assert (E : w = pval c).
    { destruct (N.compare_spec (pval c) w) as [E|L|G]; [auto| |congruence].
      destruct (N.compare_spec w (pval c + 1)) as [E'|L'|G']; try discriminate; try lia.
      exfalso. eapply lex_cmp_nil_r. exact Hu. }
    rewrite <- B, E, <- prefix_be. apply has_prefix_app.
  - intros H. apply has_prefix_inv in H. rewrite prefix_length in H. rewrite H.
    split; [apply prefix_le_enc|apply enc_lt_end].
Qed.
