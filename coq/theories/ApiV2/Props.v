(* ApiV2/Props.v — property C15: the theorems, nothing else.
   Each is closed by [exact <lemma>] and followed by Print Assumptions. *)
From Verif Require Import ApiV2.Model ApiV2.ProofsKey ApiV2.ProofsRegion ApiV2.ProofsStore ApiV2.ProofsPD ApiV2.ProofsProgram ApiV2.Pool ApiV2.ProofsPool ApiV2.PoolFail ApiV2.Catalogue.
Open Scope N_scope.

(* --- keys --- *)
Theorem C15_key_roundtrip : forall c k, decode_key c (encode_key c k) = Some k.
Proof. exact decode_encode_key. Qed.
Print Assumptions C15_key_roundtrip.

(* whatever DecodeKey accepts (other than the empty key, which passes through) is the image of its result *)
Theorem C15_key_strict : forall c e k, e <> [] -> decode_key c e = Some k -> e = encode_key c k.
Proof. exact decode_key_inv. Qed.
Print Assumptions C15_key_strict.

(* --- order: prefixing preserves the lexicographic order, so a logical range maps exactly to the
       physical range, including the empty (= unbounded) end and reversed bounds --- *)
Theorem C15_order_cmp : forall c a b, lex_cmp (encode_key c a) (encode_key c b) = lex_cmp a b.
Proof. exact encode_key_cmp. Qed.
Print Assumptions C15_order_cmp.

Theorem C15_order : forall c s e k,
  in_range s e k <->
  in_range (fst (encode_range c false s e)) (snd (encode_range c false s e)) (encode_key c k).
Proof. exact order_fwd. Qed.
Print Assumptions C15_order.

Theorem C15_order_reverse : forall c s e k,
  in_range e s k <->
  in_range (snd (encode_range c true s e)) (fst (encode_range c true s e)) (encode_key c k).
Proof. exact order_rev. Qed.
Print Assumptions C15_order_reverse.

(* the physical upper bound is never the empty (= unbounded) key: a scan cannot run past the keyspace *)
Theorem C15_order_bounded : forall c s e,
  snd (encode_range c false s e) <> [] /\ fst (encode_range c true s e) <> [].
Proof. exact encode_range_end_ne. Qed.
Print Assumptions C15_order_bounded.

(* --- isolation --- *)
Theorem C15_isolation : forall c1 c2 k1 k2, ks_ok c1 -> ks_ok c2 -> c1 <> c2 ->
  encode_key c1 k1 <> encode_key c2 k2.
Proof. exact images_disjoint. Qed.
Print Assumptions C15_isolation.

Theorem C15_isolation_decode : forall c1 c2 k, ks_ok c1 -> ks_ok c2 -> c1 <> c2 ->
  decode_key c1 (encode_key c2 k) = None.
Proof. exact decode_foreign. Qed.
Print Assumptions C15_isolation_decode.

(* no range a client of c1 can put on the wire contains a key of c2 *)
Theorem C15_isolation_range : forall c1 c2 s e k, ks_ok c1 -> ks_ok c2 -> c1 <> c2 ->
  in_rangeb (encode_key c1 s) (enc_end c1 e) (encode_key c2 k) = false.
Proof. exact foreign_not_in_range. Qed.
Print Assumptions C15_isolation_range.

(* a well-formed key of >= 4 bytes is in [prefix, endKey) iff it carries the prefix (and then decodes) *)
Theorem C15_isolation_bounds : forall c x, wf_bytes x -> (4 <= length x)%nat ->
  (lex_le (prefix c) x /\ lex_lt x (end_key c)) <-> has_prefix (prefix c) x = true.
Proof. exact in_bounds_has_prefix. Qed.
Print Assumptions C15_isolation_bounds.

(* --- region clipping --- *)
(* DecodeRegionRange on the memcomparable bounds of a physical region [s, e) ([] = unbounded):
   ROk s' e' describes exactly the region's intersection with the keyspace in logical keys,
   ROutOfBound means the intersection is empty; for every keyspace and every pair of bounds. *)
Theorem C15_region_clip : forall c s e,
  clip_spec c s e (decode_region_range c (mem_enc s) (mem_enc e)).
Proof. exact region_clip. Qed.
Print Assumptions C15_region_clip.

Theorem C15_range_clip : forall c s e, clip_spec c s e (decode_range c s e).
Proof. exact decode_range_clip. Qed.
Print Assumptions C15_range_clip.

(* regression witness: the formula before repair f1823af (no test for a start key above the prefix that
   lacks the prefix) is refuted: keyspace 255 raw, region [72 00 01, 72 00 01 00 05) *)
Theorem C15_region_clip_prefix_formula_refuted :
  ~ (forall c s e, ks_ok c -> clip_spec c s e (decode_range_gen false c s e)).
Proof. exact decode_range_prefix_refuted. Qed.
Print Assumptions C15_region_clip_prefix_formula_refuted.

(* the strings on which the two formulas differ are shorter than four bytes *)
Theorem C15_region_clip_short_class : forall c s, wf_bytes s -> short_start c s -> (length s < 4)%nat.
Proof. exact short_start_is_short. Qed.
Print Assumptions C15_region_clip_short_class.

Theorem C15_region_strict : forall c s e, decode_region_range c s e <> RDecodeErr ->
  exists ps pe, decode_region_range c s e = decode_range c ps pe /\
    (s <> [] -> exists r, s = encode_bytes ps ++ r) /\ (e <> [] -> exists r, e = encode_bytes pe ++ r) /\
    (s = [] -> ps = []) /\ (e = [] -> pe = []).
Proof. exact region_range_strict. Qed.
Print Assumptions C15_region_strict.

Theorem C15_region_key_order : forall c a b,
  lex_cmp (encode_region_key c a) (encode_region_key c b) = lex_cmp a b.
Proof. exact region_key_cmp. Qed.
Print Assumptions C15_region_key_order.

Theorem C15_region_roundtrip : forall c s e,
  let '(a, b) := encode_region_range c s e in decode_region_range c a b = ROk s e.
Proof. exact region_range_roundtrip. Qed.
Print Assumptions C15_region_roundtrip.

(* --- PD side (CodecPDClient under API v2) --- *)
(* GetRegion / GetPrevRegion / ScanRegions: the region PD selects by comparing EncodeRegionKey(k) with the
   memcomparable bounds decodes to a logical region that contains k and is exactly the physical region's
   share of the keyspace *)
Theorem C15_pd_locate : forall c s e k, in_range (mem_enc s) (mem_enc e) (encode_region_key c k) ->
  exists s' e', decode_region_range c (mem_enc s) (mem_enc e) = ROk s' e' /\ in_range s' e' k /\
                (forall k', in_range s' e' k' <-> in_range s e (encode_key c k')).
Proof. exact pd_locate. Qed.
Print Assumptions C15_pd_locate.

(* GetRegionByID / a scan result: a proper region without any key of the keyspace is an error, never a region *)
Theorem C15_pd_outside_error : forall c s e, (e = [] \/ lex_lt s e) ->
  (forall k, ~ in_range s e (encode_key c k)) -> decode_range c s e = ROutOfBound.
Proof. exact region_outside_error. Qed.
Print Assumptions C15_pd_outside_error.

(* ScanRegions / BatchScanRegions: neighbouring regions stay neighbours after decoding *)
Theorem C15_pd_contiguous : forall c s m e s1 e1 s2 e2,
  decode_range c s m = ROk s1 e1 -> decode_range c m e = ROk s2 e2 -> e1 = s2.
Proof. exact pd_contiguous. Qed.
Print Assumptions C15_pd_contiguous.

(* DecodeBucketKeys: the non-empty logical boundaries are exactly the stripped in-keyspace boundaries; two
   logical keys fall into different buckets iff their images do *)
Theorem C15_bucket_separators : forall c keys ks out, map_opt mem_decode_opt keys = Some ks ->
  decode_bucket_keys c keys = Some out ->
  forall x, x <> [] -> (In x out <-> In (encode_key c x) ks).
Proof. exact bucket_separators. Qed.
Print Assumptions C15_bucket_separators.

Theorem C15_bucket_same_bucket : forall c keys ks out, map_opt mem_decode_opt keys = Some ks ->
  decode_bucket_keys c keys = Some out ->
  forall x y, (exists l, In l out /\ l <> [] /\ lex_lt x l /\ lex_le l y) <->
              (exists b, In b ks /\ lex_lt (encode_key c x) b /\ lex_le b (encode_key c y)).
Proof. exact bucket_same_bucket. Qed.
Print Assumptions C15_bucket_same_bucket.

(* the bucket list starts at the decoded region start and ends at the decoded region end *)
Theorem C15_bucket_first : forall c k0 rest kn s e, rest <> [] -> decode_range c k0 kn = ROk s e ->
  exists t, dbk c true [] (k0 :: rest) = s :: t.
Proof. exact bucket_first. Qed.
Print Assumptions C15_bucket_first.

Theorem C15_bucket_last : forall c rest f out k0 s e, rest <> [] ->
  decode_range c k0 (last rest []) = ROk s e ->
  last (dbk c f out rest) [0] = e.
Proof. exact bucket_last. Qed.
Print Assumptions C15_bucket_last.

(* ScanRegions / BatchScanRegions (decodeScannedRegions): the decoded answer is, in order, the clipped form of exactly
   the regions of PD's answer that decode; for a proper region "decodes" = "holds a key of the keyspace"; a region
   lying between two keys of the keyspace holds one (so in a chain the kept regions are consecutive and the decoded
   answer is contiguous by C15_pd_contiguous) *)
Theorem C15_pd_scan : forall c phys,
  decode_scan c (map menc_region phys) = Some (flat_map (clip_region c) phys) /\
  flat_map (clip_region c) phys = flat_map (clip_region c) (filter (holds_key c) phys).
Proof. exact scan_exact. Qed.
Print Assumptions C15_pd_scan.

Theorem C15_pd_scan_kept : forall c s e, (e = [] \/ lex_lt s e) ->
  (holds_key c (s, e) = true <-> exists k, in_range s e (encode_key c k)).
Proof. exact holds_key_spec. Qed.
Print Assumptions C15_pd_scan_kept.

Theorem C15_pd_scan_convex : forall c s e k1 k2,
  lex_le (encode_key c k1) s -> lex_lt s e -> lex_le e (encode_key c k2) ->
  exists x, s = encode_key c x /\ in_range s e (encode_key c x).
Proof. exact between_holds. Qed.
Print Assumptions C15_pd_scan_convex.

(* decodeRegionError: the region error of any response, built from a physical layout, comes out as the logical one:
   KeyNotInRegion with the logical key and the region's share of the keyspace (which contains the key), EpochNotMatch
   with the logical layout (foreign regions dropped), BucketVersionNotMatch with the clipped bucket list *)
Theorem C15_region_error : forall c k s e phys bs ks,
  in_range s e (encode_key c k) -> map_opt mem_decode_opt bs = Some ks ->
  exists s' e', decode_range c s e = ROk s' e' /\ in_range s' e' k /\
    decode_region_error c (mkre (Some (encode_key c k, mem_enc s, mem_enc e)) (Some (map menc_region phys)) (Some bs))
    = Some (mkre (Some (k, s', e')) (Some (flat_map (clip_region c) phys)) (Some (dbk c true [] ks))).
Proof. exact region_error_decode. Qed.
Print Assumptions C15_region_error.

Theorem C15_region_error_foreign : forall c c2 k s e ep bv, ks_ok c -> ks_ok c2 -> c <> c2 ->
  decode_region_error c (mkre (Some (encode_key c2 k, s, e)) ep bv) = None.
Proof. exact region_error_foreign. Qed.
Print Assumptions C15_region_error_foreign.

(* a whole response, as the list of its key-bearing fields: decoded field by field, or refused as a whole *)
Theorem C15_response_fields : forall c ks, decode_fields c (map (encode_key c) ks) = Some ks.
Proof. exact decode_fields_own. Qed.
Print Assumptions C15_response_fields.

Theorem C15_response_fields_foreign : forall c c2 k fs, ks_ok c -> ks_ok c2 -> c <> c2 ->
  In (encode_key c2 k) fs -> decode_fields c fs = None.
Proof. exact decode_fields_foreign. Qed.
Print Assumptions C15_response_fields_foreign.

(* the free function apicodec.DecodeKey(encoded, V2) *)
Theorem C15_split_key : forall c k, split_v2_key (encode_key c k) = Some (prefix c, k).
Proof. exact split_encode. Qed.
Print Assumptions C15_split_key.

(* ParseKeyspaceID *)
Theorem C15_parse_keyspace_id : forall c k, ks_ok c -> parse_keyspace_id (encode_key c k) = Some (ks_id c).
Proof. exact parse_encode. Qed.
Print Assumptions C15_parse_keyspace_id.

Theorem C15_parse_keyspace_id_strict : forall b id, wf_bytes b -> parse_keyspace_id b = Some id ->
  exists c k, ks_ok c /\ ks_id c = id /\ b = encode_key c k.
Proof. exact parse_strict. Qed.
Print Assumptions C15_parse_keyspace_id_strict.

(* --- transparency over an abstract ordered-map store --- *)
(* one step of a keyspace-bound client on a shared store = the same step of an unprefixed client on
   the logical view; no other keyspace's view changes; the store stays admissible *)
Theorem C15_transparent_step : forall c o st, ks_ok c -> store_ok st ->
  step o (view c st) = (view c (fst (client_step c o st)), snd (client_step c o st)) /\
  (forall c', ks_ok c' -> c' <> c -> view c' (fst (client_step c o st)) = view c' st) /\
  store_ok (fst (client_step c o st)).
Proof. exact client_step_sim. Qed.
Print Assumptions C15_transparent_step.

(* any interleaving of any number of keyspace-bound clients: what client c observes, and the final
   contents of its keyspace, are those of c's own operations run unprefixed on its initial view *)
Theorem C15_transparent : forall c, ks_ok c -> forall tr st, store_ok st ->
  Forall (fun co => ks_ok (fst co)) tr ->
  proj_res c (run tr st) = lrun (proj_ops c tr) (view c st) /\
  view c (run_store tr st) = lrun_store (proj_ops c tr) (view c st) /\
  store_ok (run_store tr st).
Proof. exact run_transparent. Qed.
Print Assumptions C15_transparent.

(* --- retransmissions: the client encodes the caller's request, never an already encoded one --- *)
(* C15_retransmit is definitional (both branches of nth_wire's loop return enc_op): it only names the shape of the
   sequential model's send loop. The content - that the real plumbing (request pool, cloning, AttachContext) behaves like
   that for every schedule and pool behaviour - is C15_pool_safety / C15_pool_safety_failures and the refuted variants below. *)
Theorem C15_retransmit : forall c o n, nth_wire false c o n = enc_op c o.
Proof. exact nth_wire_first. Qed.
Print Assumptions C15_retransmit.

Theorem C15_retransmit_transparent : forall c o n st, ks_ok c -> store_ok st ->
  let '(st', r) := step (nth_wire false c o n) st in
  step o (view c st) = (view c st', dec_res c r) /\
  (forall c', ks_ok c' -> c' <> c -> view c' st' = view c' st).
Proof. exact retransmit_transparent. Qed.
Print Assumptions C15_retransmit_transparent.

Theorem C15_encode_not_idempotent : forall c k, encode_key c (encode_key c k) <> encode_key c k.
Proof. exact encode_key_not_idempotent. Qed.
Print Assumptions C15_encode_not_idempotent.

(* a send loop that re-encodes the previous transmission is refuted: the acknowledged write is lost to its author *)
Theorem C15_reencoding_client_refuted : exists c k v,
  ks_ok c /\ nth_wire true c (OPut k v) 1 <> enc_op c (OPut k v) /\
  lookup k (view c (fst (step (nth_wire true c (OPut k v) 1) []))) = None /\
  lookup k (view c (fst (step (nth_wire false c (OPut k v) 1) []))) = Some v.
Proof. exact reencode_refuted. Qed.
Print Assumptions C15_reencoding_client_refuted.

(* --- the codec plumbing at object level: request pool, cloning, AttachContext, order of the calls (Pool.v) --- *)
(* callers own the request objects below br and the messages below bm. For ANY schedule of transmissions of the callers'
   requests (the same object any number of times, callers in any order) and ANY behaviour of the pool (hands out any
   pooled object or a new one), every transmission reaches the wire with each key prefixed exactly once and a context
   carrying api version + keyspace, and the invariant is kept: pooled objects are never the callers', the callers'
   request objects and the keys of their messages are what they were *)
Theorem C15_pool_safety : forall c br bm h0 sch h ws h', inv br bm h0 h -> Forall (fun ai => (fst ai < br)%nat) sch ->
  sends real c sch h = (ws, h') ->
  inv br bm h0 h' /\ ws = map (fun ai => wire_spec c h0 (fst ai)) sch.
Proof. exact sends_real. Qed.
Print Assumptions C15_pool_safety.

Theorem C15_pool_callers_untouched : forall br bm h0 h, inv br bm h0 h ->
  forall a, (a < br)%nat -> rh h a = rh h0 a /\ m_keys (mh h (r_inner (rh h a))) = m_keys (mh h0 (r_inner (rh h0 a))).
Proof. exact callers_untouched. Qed.
Print Assumptions C15_pool_callers_untouched.

(* the same with transmissions that fail below the codec (connection error, timeout): SendRequest returns before
   DecodeResponse, the encoded request is not recycled, the caller re-sends the same object *)
Theorem C15_pool_safety_failures : forall c br bm h0 sch h ws h', inv br bm h0 h ->
  Forall (fun x => (fst (fst x) < br)%nat) sch -> sendsx real c sch h = (ws, h') ->
  inv br bm h0 h' /\ ws = map (fun x => wire_spec c h0 (fst (fst x))) sch.
Proof. exact sendsx_real. Qed.
Print Assumptions C15_pool_safety_failures.

(* each deviation that was seeded into the code is refuted by a schedule of two or three transmissions *)
Theorem C15_pool_decode_caller_refuted :
  fst (sends (mkflags true false false false) demo_ks [(0, 0); (0, 0); (0, 0)]%nat demo_heap)
  = [([[120; 0; 1; 2; 7]], Some true); ([[120; 0; 1; 2; 7]], Some true); ([[120; 0; 1; 2; 120; 0; 1; 2; 7]], Some true)].
Proof. exact decode_caller_refuted. Qed.
Print Assumptions C15_pool_decode_caller_refuted.

Theorem C15_pool_in_place_refuted :
  let '(ws, h) := sends (mkflags false true false false) demo_ks [(0, 0); (0, 0)]%nat demo_heap in
  ws = [([[120; 0; 1; 2; 7]], Some true); ([[120; 0; 1; 2; 120; 0; 1; 2; 7]], Some true)] /\
  m_keys (mh h 0%nat) = [[120; 0; 1; 2; 120; 0; 1; 2; 7]].
Proof. exact in_place_refuted. Qed.
Print Assumptions C15_pool_in_place_refuted.

Theorem C15_pool_return_caller_refuted :
  fst (sends (mkflags false false true false) demo_ks [(1, 0); (2, 0); (1, 0)]%nat demo_heap)
  = [([], Some true); ([[120; 0; 1; 2; 9]], Some true); ([[120; 0; 1; 2; 120; 0; 1; 2; 9]], Some true)].
Proof. exact return_caller_refuted. Qed.
Print Assumptions C15_pool_return_caller_refuted.

Theorem C15_pool_attach_first_refuted :
  let '(ws, h) := sends (mkflags false false false true) demo_ks [(0, 0); (0, 0)]%nat demo_heap in
  ws = [([[120; 0; 1; 2; 7]], Some false); ([[120; 0; 1; 2; 7]], Some false)] /\ r_inner (rh h 0%nat) <> 0%nat.
Proof. exact attach_first_refuted. Qed.
Print Assumptions C15_pool_attach_first_refuted.

(* --- programs of transmissions: retransmissions, lost answers and region errors, any interleaving of clients --- *)
(* every event is one transmission (the (n+1)-th of its request) that the store refuses with a region error describing
   a physical layout, executes without the answer arriving, or executes and answers. What client c learns - results,
   and the decoded region descriptions of region errors - and the final contents of its keyspace are those of an
   unprefixed client going through the same schedule on c's logical view, whose region errors show the logical layout
   (each physical region's share of the keyspace, in order: C15_pd_scan) *)
Theorem C15_transparency : forall c, ks_ok c -> forall tr st, store_ok st -> Forall wf_event tr ->
  proj_obs c (trun tr st) = ltrun (layout c) (proj_events c tr) (view c st) /\
  view c (trun_store tr st) = ltrun_store (layout c) (proj_events c tr) (view c st) /\
  store_ok (trun_store tr st).
Proof. exact trun_transparent. Qed.
Print Assumptions C15_transparency.

Theorem C15_transparency_layout : forall c phys, layout c (map menc_region phys) = flat_map (clip_region c) phys.
Proof. exact layout_phys. Qed.
Print Assumptions C15_transparency_layout.

(* --- catalogue: meaning of the generated finite check --- *)
(* this only unfolds the boolean [catalogue_ok] row by row. What a run establishes is that the Go reflection driver reported
   a complete row for every command / field of this tree's finite table and that Coq re-checked the table (vm_compute in
   build/apiv2/Gen_Catalogue.v); nothing is proved here about EncodeRequest / DecodeResponse for all inputs. *)
Theorem C15_catalogue_meaning : forall fields cmds, catalogue_ok fields cmds = true ->
  (forall f, In f fields -> f_obs f = expected f /\ f_foreign_rejected f = true) /\
  (forall x, In x cmds ->
     x_enc_ok x = true /\
     (x_has_ctx x = true -> x_attach x = true /\ x_ctx_set x = true) /\
     (x_resp_rerr x = true -> x_genre x = true /\ x_readback x = true) /\
     (x_resp_rerr x = true -> x_clip x = true) /\
     (x_batch x = true -> x_batch_rt x = true)).
Proof. exact catalogue_ok_meaning. Qed.
Print Assumptions C15_catalogue_meaning.

(* --- non-vacuity --- *)
Example ex_prefix : prefix (mkks Txn 258) = [120; 0; 1; 2] /\ end_key (mkks Txn 258) = [120; 0; 1; 3].
Proof. vm_compute. auto. Qed.
Example ex_carry : prefix (mkks Raw 65535) = [114; 0; 255; 255] /\ end_key (mkks Raw 65535) = [114; 1; 0; 0].
Proof. vm_compute. auto. Qed.
Example ex_max : end_key (mkks Txn 16777215) = [121; 0; 0; 0] /\ ks_ok (mkks Txn 16777215).
Proof. split; vm_compute; auto. Qed.
Example ex_range_rev : encode_range (mkks Raw 1) true [] [5] = ([114; 0; 0; 2], [114; 0; 0; 1; 5]).
Proof. vm_compute. reflexivity. Qed.
Example ex_clip : decode_range (mkks Raw 1) [114; 0; 0; 0; 9] [114; 0; 0; 1; 7] = ROk [] [7]
  /\ decode_range (mkks Raw 1) [114; 0; 0; 2] [] = ROutOfBound
  /\ decode_range (mkks Raw 255) [114; 0; 1] [114; 0; 1; 0; 5] = ROutOfBound
  /\ decode_range_gen false (mkks Raw 255) [114; 0; 1] [114; 0; 1; 0; 5] = ROk [] [].
Proof. repeat split; vm_compute; reflexivity. Qed.
(* end of the id space: id 0xFFFFFF carries into the mode byte; isolation and clipping instances there *)
Example ex_last_id : prefix (mkks Raw 16777215) = [114; 255; 255; 255] /\ end_key (mkks Raw 16777215) = [115; 0; 0; 0]
  /\ ks_ok (mkks Raw 16777215) /\ mkks Raw 16777215 <> mkks Txn 16777215
  /\ decode_key (mkks Txn 16777215) (encode_key (mkks Raw 16777215) [1]) = None
  /\ decode_key (mkks Raw 0) (encode_key (mkks Raw 16777215) [1]) = None
  /\ in_rangeb (encode_key (mkks Raw 16777215) []) (enc_end (mkks Raw 16777215) []) (encode_key (mkks Txn 0) []) = false
  /\ decode_range (mkks Raw 16777215) [115] [] = ROutOfBound
  /\ decode_range (mkks Raw 16777215) [114; 255; 255; 254; 9] [115; 0] = ROk [] []
  /\ decode_range (mkks Raw 16777215) [114; 255; 255; 255; 7] [114; 255; 255; 255; 9] = ROk [7] [9].
Proof. repeat split; try (vm_compute; reflexivity); try (vm_compute; congruence). Qed.
Example ex_isolation_modes : forall id k1 k2, id < two24 -> encode_key (mkks Raw id) k1 <> encode_key (mkks Txn id) k2.
Proof. intros id k1 k2 H. apply C15_isolation; try exact H. congruence. Qed.
(* regression examples for the repairs bbcfa45 (bucket end) and 163e34b (scan skips foreign regions) *)
Example ex_bucket_last_before_repair :
  decode_range (mkks Raw 255) [114;0;0;255;97] [114;0;1] = ROk [97] [] /\
  dbk_gen false (mkks Raw 255) true [] [[114;0;0;255;97]; [114;0;0;255;109]; [114;0;1]] = [[97]; [109]] /\
  dbk (mkks Raw 255) true [] [[114;0;0;255;97]; [114;0;0;255;109]; [114;0;1]] = [[97]; [109]; []].
Proof. exact bucket_last_before_repair. Qed.
Example ex_scan_short_region :
  decode_scan (mkks Raw 255) (map menc_region [([], [114;0;0;255;109]); ([114;0;0;255;109], [114;0;1]); ([114;0;1], [114;0;1;0]); ([114;0;1;0], [])])
  = Some [([], [109]); ([109], [])].
Proof. vm_compute. reflexivity. Qed.
Example ex_buckets :
  decode_bucket_keys (mkks Raw 1) [[]; encode_bytes [114;0;0;1]; encode_bytes [114;0;0;1;5]; encode_bytes [114;0;0;2;1]]
    = Some [[]; [5]; []]
  /\ parse_keyspace_id [120; 0; 1; 2; 9] = Some 258 /\ parse_keyspace_id [109; 0; 1; 2] = None /\ parse_keyspace_id [120; 0; 1] = None.
Proof. repeat split; vm_compute; reflexivity. Qed.
Example ex_region_error :
  decode_region_error (mkks Raw 255)
    (mkre (Some ([114;0;0;255;113], mem_enc [114;0;0;255;109], mem_enc [114;0;1]))
          (Some (map menc_region [([], [114;0;0;255;109]); ([114;0;0;255;109], [114;0;1]); ([114;0;1], [114;0;1;0])]))
          (Some [mem_enc [114;0;0;255;109]; mem_enc [114;0;0;255;112]; mem_enc [114;0;1]]))
  = Some (mkre (Some ([113], [109], [])) (Some [([], [109]); ([109], [])]) (Some [[109]; [112]; []]))
  /\ split_v2_key [120; 0; 1; 2; 9] = Some ([120; 0; 1; 2], [9]) /\ split_v2_key [109; 0; 1; 2; 9] = None.
Proof. repeat split; vm_compute; reflexivity. Qed.
Example ex_pool : inv 3%nat 3%nat demo_heap demo_heap /\
  fst (sends real demo_ks [(0, 0); (1, 0); (0, 0); (2, 5); (1, 1); (0, 0)]%nat demo_heap)
  = [([[120; 0; 1; 2; 7]], Some true); ([], Some true); ([[120; 0; 1; 2; 7]], Some true); ([[120; 0; 1; 2; 9]], Some true); ([], Some true); ([[120; 0; 1; 2; 7]], Some true)].
Proof. split; [exact demo_inv|exact demo_real]. Qed.
Example ex_pool_failures :
  let '(ws, h) := sendsx real demo_ks [(0, 0, false); (0, 0, false); (0, 0, true); (1, 0, false); (0, 0, true)]%nat demo_heap in
  ws = [([[120; 0; 1; 2; 7]], Some true); ([[120; 0; 1; 2; 7]], Some true); ([[120; 0; 1; 2; 7]], Some true); ([], Some true); ([[120; 0; 1; 2; 7]], Some true)]
  /\ pool h = [6]%nat /\ next_r h = 7%nat.
Proof. exact demo_fail. Qed.
Example ex_program_with_retries :
  let a := mkks Raw 255 in let b := mkks Raw 256 in
  let phys := [([], [114;0;0;255;109]); ([114;0;0;255;109], [114;0;1]); ([114;0;1], [114;0;1;0]); ([114;0;1;0], [])] in
  Forall wf_event [(a, OPut [1] [10], 0%nat, Refused (map menc_region phys)); (a, OPut [1] [10], 1%nat, Lost); (b, OPut [1] [20], 0%nat, Answered);
                   (a, OPut [1] [10], 2%nat, Answered); (a, OScan true [] [] 5, 0%nat, Answered)] /\
  trun [(a, OPut [1] [10], 0%nat, Refused (map menc_region phys)); (a, OPut [1] [10], 1%nat, Lost); (b, OPut [1] [20], 0%nat, Answered);
        (a, OPut [1] [10], 2%nat, Answered); (a, OScan true [] [] 5, 0%nat, Answered)] []
  = [(a, ORegions (Some [([], [109]); ([109], [])])); (a, ONothing); (b, OResult RUnit); (a, OResult RUnit); (a, OResult (RPairs [([1], [10])]))].
Proof.
  split; [|vm_compute; reflexivity].
  repeat constructor; try (unfold ks_ok; cbn; reflexivity); cbn [snd]; eexists; reflexivity.
Qed.
Example ex_two_clients :
  let a := mkks Raw 1 in let b := mkks Raw 2 in
  run [(a, OPut [1] [10]); (b, OPut [1] [20]); (b, ODelRange [] []); (a, OScan false [] [] 5); (b, OScan true [] [] 5)] []
  = [(a, RUnit); (b, RUnit); (b, RUnit); (a, RPairs [([1], [10])]); (b, RPairs [])].
Proof. vm_compute. reflexivity. Qed.
