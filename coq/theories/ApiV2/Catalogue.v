(* ApiV2/Catalogue.v — schema and completeness predicate for the command catalogue that the Go driver
   observes by reflection on every run (translation + finite check: the generated file
   build/apiv2/Gen_Catalogue.v instantiates [fields]/[cmds] and proves [catalogue_ok] by vm_compute). *)
From Coq Require Import List NArith Bool.
Import ListNotations.
Open Scope N_scope.

Inductive side := Req | Resp.
(* classification of a []byte location by the documented name rule (docs/C15.md) *)
Inductive fclass := FKey | FRangeStart | FRangeEnd | FRegion | FBucket | FValue.
(* what the codec did to the sentinel placed there *)
Inductive fobs := OPrefixed | OEndKey | OStripped | OUnchanged | OOther.
(* request variants: 0 = all sentinels non-empty; 1 = range ends empty (forward);
   2 = reverse scan with empty start (only for requests with a Reverse flag) *)
Record frow := mkf {
  f_cmd : N; f_side : side; f_class : fclass; f_variant : N; f_obs : fobs;
  f_foreign_rejected : bool    (* response key fields: a key of another keyspace there makes DecodeResponse fail (true when n/a) *)
}.

Definition fobs_eqb (a b : fobs) : bool :=
  match a, b with
  | OPrefixed, OPrefixed | OEndKey, OEndKey | OStripped, OStripped | OUnchanged, OUnchanged | OOther, OOther => true
  | _, _ => false
  end.

Definition expected (f : frow) : fobs :=
  match f_side f, f_class f with
  | _, FValue => OUnchanged
  | Req, FRangeEnd => if f_variant f =? 1 then OEndKey else OPrefixed
  | Req, FRangeStart => if f_variant f =? 2 then OEndKey else OPrefixed
  | Req, _ => OPrefixed
  | Resp, _ => OStripped
  end.

(* no exemptions: since the repairs F17.1 - F17.12 every row has to be complete *)
Definition field_ok (f : frow) : bool := fobs_eqb (f_obs f) (expected f) && f_foreign_rejected f.

Record xrow := mkx {
  x_cmd : N;
  x_enc_ok : bool;       (* EncodeRequest succeeded, returned a copy, left the caller's message untouched, set api version + keyspace id; DecodeResponse accepts an in-keyspace response *)
  x_has_ctx : bool;      (* the request message has a Context field *)
  x_attach : bool;       (* AttachContext returned true *)
  x_ctx_set : bool;      (* ... and the message now carries the context; a second attach does not write into the first message *)
  x_resp_rerr : bool;    (* the response message has a RegionError field *)
  x_genre : bool;        (* GenRegionErrorResp succeeded with a response of the command's response type *)
  x_readback : bool;     (* GetRegionError on it returns the same error *)
  x_clip : bool;         (* DecodeResponse: region error regions inside / outside / spanning the keyspace are kept+clipped / dropped *)
  x_batch : bool;        (* ToBatchCommandsRequest supports the command *)
  x_batch_rt : bool      (* the batch entry holds the very request; FromBatchCommandsResponse returns the very response *)
}.

Definition impb (a b : bool) : bool := negb a || b.

Definition cmd_ok (x : xrow) : bool :=
  x_enc_ok x
  && impb (x_has_ctx x) (x_attach x && x_ctx_set x)
  && impb (x_resp_rerr x) (x_genre x && x_readback x)
  && impb (x_resp_rerr x) (x_clip x)
  && impb (x_batch x) (x_batch_rt x).

Definition catalogue_ok (fields : list frow) (cmds : list xrow) : bool :=
  forallb field_ok fields && forallb cmd_ok cmds.

(* what the finite check means, row by row *)
Lemma catalogue_ok_meaning fields cmds : catalogue_ok fields cmds = true ->
  (forall f, In f fields -> f_obs f = expected f /\ f_foreign_rejected f = true) /\
  (forall x, In x cmds ->
     x_enc_ok x = true /\
     (x_has_ctx x = true -> x_attach x = true /\ x_ctx_set x = true) /\
     (x_resp_rerr x = true -> x_genre x = true /\ x_readback x = true) /\
     (x_resp_rerr x = true -> x_clip x = true) /\
     (x_batch x = true -> x_batch_rt x = true)).
Proof.
  unfold catalogue_ok. rewrite andb_true_iff, !forallb_forall. intros [HF HX]. split.
  - intros f Hf. specialize (HF f Hf). unfold field_ok in HF.
    apply andb_true_iff in HF as [H1 H2]. split; [|exact H2].
    destruct (f_obs f), (expected f); cbn in H1; congruence.
  - intros x Hx. specialize (HX x Hx). unfold cmd_ok, impb in HX.
    apply andb_true_iff in HX as [HX H4]. apply andb_true_iff in HX as [HX H3].
    apply andb_true_iff in HX as [HX H2]. apply andb_true_iff in HX as [HX H1].
    split; [exact HX|]. split; [|split; [|split]].
    + intros A. rewrite A in H1. cbn [negb orb] in H1. apply andb_true_iff in H1. exact H1.
    + intros A. rewrite A in H2. cbn [negb orb] in H2. apply andb_true_iff in H2. exact H2.
    + intros A. rewrite A in H3. cbn [negb orb] in H3. exact H3.
    + intros A. rewrite A in H4. cbn [negb orb] in H4. exact H4.
Qed.
