(* ApiV2/PoolFail.v — the codec plumbing on the error path: a transmission that fails below the codec (connection
   error, timeout, cancelled context) returns before DecodeResponse, so the encoded request is NOT given back to the
   pool; the caller then re-sends the same request object. Schedules mixing answered and failed transmissions. *)
From Verif Require Import ApiV2.Model ApiV2.ProofsKey ApiV2.Pool ApiV2.ProofsPool.
From Coq Require Import Lia.
Open Scope nat_scope.

(* encode, attach, put on the wire; no decode *)
Definition send_core (fl : flags) (c : ks) (a : addr) (i : nat) (h : heap) : wire * addr * heap :=
  let h0 := if f_attach_first fl then attach a h else h in
  let '(r, h1) := encode fl c a i h0 in
  let h2 := if f_attach_first fl then h1 else attach r h1 in
  let m := mh h2 (r_inner (rh h2 r)) in
  ((m_keys m, m_ctx m), r, h2).

Definition give_back (fl : flags) (a r : addr) (h : heap) : heap :=
  mkheap (rh h) (mh h) (next_r h) (next_m h) ((if f_decode_caller fl then a else r) :: pool h).

(* one transmission: answered (the response is decoded, the request recycled) or failed below the codec *)
Definition sendx (fl : flags) (c : ks) (a : addr) (i : nat) (answered : bool) (h : heap) : wire * heap :=
  let '(w, r, h2) := send_core fl c a i h in
  (w, if answered then give_back fl a r h2 else h2).

Fixpoint sendsx (fl : flags) (c : ks) (sch : list (addr * nat * bool)) (h : heap) : list wire * heap :=
  match sch with
  | [] => ([], h)
  | (a, i, ok) :: t => let '(w, h1) := sendx fl c a i ok h in let '(ws, h2) := sendsx fl c t h1 in (w :: ws, h2)
  end.

Lemma send_is_core fl c a i h :
  send fl c a i h = let '(w, r, h2) := send_core fl c a i h in (w, give_back fl a r h2).
Proof.
  unfold send, send_core, give_back. destruct (encode fl c a i (if f_attach_first fl then attach a h else h)) as [r h1]. reflexivity.
Qed.

Lemma inv_less_pool br bm h0 h p : inv br bm h0 (mkheap (rh h) (mh h) (next_r h) (next_m h) (p :: pool h)) -> inv br bm h0 h.
Proof.
  intros I. destruct I as [A B C D E F]. cbn [rh mh next_r next_m pool] in *. constructor; auto.
  intros q Hq. apply C. right. exact Hq.
Qed.

Lemma sendx_real c br bm h0 h a i ok w h' : inv br bm h0 h -> a < br -> sendx real c a i ok h = (w, h') ->
  inv br bm h0 h' /\ w = wire_spec c h0 a.
Proof.
  intros I Ha. unfold sendx. destruct (send_core real c a i h) as [[w0 r] h2] eqn:SC.
  pose proof (send_is_core real c a i h) as E. rewrite SC in E.
  destruct (send_real c br bm h0 h a i _ _ I Ha E) as (I2 & Ew).
  destruct ok; intros [= <- <-].
  - split; assumption.
  - split; [|exact Ew]. unfold give_back in I2. eapply inv_less_pool. exact I2.
Qed.

(* any schedule of answered and failed transmissions, any behaviour of the pool *)
Lemma sendsx_real c br bm h0 : forall sch h ws h', inv br bm h0 h -> Forall (fun x => fst (fst x) < br) sch ->
  sendsx real c sch h = (ws, h') ->
  inv br bm h0 h' /\ ws = map (fun x => wire_spec c h0 (fst (fst x))) sch.
Proof.
  induction sch as [|[[a i] ok] t IH]; intros h ws h' I Hall; cbn [sendsx map fst].
  - intros [= <- <-]. auto.
  - inversion Hall as [|? ? Ha Ht]; subst. cbn [fst] in Ha.
    destruct (sendx real c a i ok h) as [w h1] eqn:S. destruct (sendx_real _ _ _ _ _ _ _ _ _ _ I Ha S) as (I1 & ->).
    destruct (sendsx real c t h1) as [ws2 h2] eqn:SS. destruct (IH _ _ _ I1 Ht SS) as (I2 & ->).
    intros [= <- <-]. auto.
Qed.

(* a failed transmission followed by retransmissions of the same object: nothing was recycled, the pool stays empty
   until the first answer *)
Lemma demo_fail :
  let '(ws, h) := sendsx real demo_ks [(0, 0, false); (0, 0, false); (0, 0, true); (1, 0, false); (0, 0, true)] demo_heap in
  ws = [([[120; 0; 1; 2; 7]], Some true); ([[120; 0; 1; 2; 7]], Some true); ([[120; 0; 1; 2; 7]], Some true); ([], Some true); ([[120; 0; 1; 2; 7]], Some true)]%N
  /\ pool h = [6] /\ next_r h = 7.
Proof. vm_compute. auto. Qed.
