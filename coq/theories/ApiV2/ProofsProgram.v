(* ApiV2/ProofsProgram.v — transparency for programs of transmissions: retransmissions, lost answers, region errors *)
From Verif Require Import ApiV2.Model ApiV2.ProofsKey ApiV2.ProofsRegion ApiV2.ProofsStore ApiV2.ProofsPD.
Open Scope N_scope.

(* a refused transmission's region descriptions are given as the memcomparable form of a physical layout *)
Definition wf_event (ev : event) : Prop :=
  ks_ok (fst (fst (fst ev))) /\
  match snd ev with Refused regs => exists phys, regs = map menc_region phys | _ => True end.

(* the logical layout a keyspace sees of a physical one: each region's share of the keyspace, in order *)
Definition layout (c : ks) (regs : list (list N * list N)) : list (list N * list N) :=
  match decode_scan c regs with Some l => l | None => [] end.

Lemma layout_phys c phys : layout c (map menc_region phys) = flat_map (clip_region c) phys.
Proof. unfold layout. rewrite (proj1 (scan_exact c phys)). reflexivity. Qed.

Lemma transmit_sim c o n out st : wf_event (c, o, n, out) -> store_ok st ->
  ltransmit (layout c) (o, out) (view c st) = (view c (fst (transmit (c, o, n, out) st)), snd (transmit (c, o, n, out) st)) /\
  (forall c', ks_ok c' -> c' <> c -> view c' (fst (transmit (c, o, n, out) st)) = view c' st) /\
  store_ok (fst (transmit (c, o, n, out) st)).
Proof.
  intros [Hc Hr] Hst. cbn [fst snd] in Hc, Hr.
  destruct (client_step_sim c o st Hc Hst) as (S1 & S2 & S3). unfold client_step in S1, S2, S3.
  destruct out as [regs| |]; cbn [transmit ltransmit].
  - destruct Hr as (phys & ->). cbn [fst snd]. rewrite layout_phys, (proj1 (scan_exact c phys)). auto.
  - rewrite nth_wire_first. destruct (step (enc_op c o) st) as [st' r]. cbn [fst snd] in *.
    rewrite S1. cbn [fst]. auto.
  - rewrite nth_wire_first. destruct (step (enc_op c o) st) as [st' r]. cbn [fst snd] in *.
    rewrite S1. auto.
Qed.

Lemma trun_transparent c : ks_ok c -> forall tr st, store_ok st -> Forall wf_event tr ->
  proj_obs c (trun tr st) = ltrun (layout c) (proj_events c tr) (view c st) /\
  view c (trun_store tr st) = ltrun_store (layout c) (proj_events c tr) (view c st) /\
  store_ok (trun_store tr st).
Proof.
  intros Hc. induction tr as [|[[[c0 o] n] out] t IH]; intros st Hst Hall; [cbn; auto|].
  inversion Hall as [|? ? Hev Ht]; subst.
  destruct (transmit_sim c0 o n out st Hev Hst) as (S1 & S2 & S3).
  cbn [trun trun_store]. destruct (transmit (c0, o, n, out) st) as [st' ob] eqn:T. cbn [fst snd] in *.
  unfold proj_obs, proj_events. cbn [filter fst snd]. destruct (ks_eqb c0 c) eqn:E.
  - apply ks_eqb_eq in E; subst c0. cbn [map snd fst ltrun ltrun_store]. rewrite S1. cbn [fst].
    destruct (IH st' S3 Ht) as (I1 & I2 & I3). fold (proj_obs c (trun t st')). fold (proj_events c t).
    rewrite I1. auto.
  - assert (Hne : c <> c0) by (intros ->; rewrite (proj2 (ks_eqb_eq c0 c0) eq_refl) in E; discriminate).
    fold (proj_obs c (trun t st')). fold (proj_events c t).
    destruct Hev as [Hc0 _]. cbn [fst] in Hc0.
    rewrite <- (S2 c Hc Hne). apply IH; assumption.
Qed.
