(* ApiV2/ProofsStore.v — transparency and isolation of keyspace-bound clients over one shared store *)
From Verif Require Import ApiV2.Model ApiV2.ProofsKey.
Open Scope N_scope.

Definition hasp (c : ks) (kv : list N * list N) : bool := has_prefix (prefix c) (fst kv).
(* every stored key belongs to some keyspace (what an API v2 cluster admits) *)
Definition store_ok (st : store) : Prop :=
  Forall (fun kv => exists c k, ks_ok c /\ fst kv = encode_key c k) st.

(* ---------- list toolkit ---------- *)
Lemma filter_comm {A} (P Q : A -> bool) l : filter P (filter Q l) = filter Q (filter P l).
Proof.
  induction l as [|x l IH]; [reflexivity|]. cbn [filter].
  destruct (Q x) eqn:EQ, (P x) eqn:EP; cbn [filter]; rewrite ?EQ, ?EP, IH; reflexivity.
Qed.
Lemma filter_implied {A} (P Q : A -> bool) l :
  (forall x, In x l -> P x = true -> Q x = true) -> filter P l = filter P (filter Q l).
Proof.
  induction l as [|x l IH]; intros H; [reflexivity|]. cbn [filter].
  destruct (P x) eqn:EP.
  - rewrite (H x (or_introl eq_refl) EP). cbn [filter]. rewrite EP. f_equal. apply IH. intros y Hy; apply H; right; exact Hy.
  - destruct (Q x); cbn [filter]; rewrite ?EP; apply IH; intros y Hy; apply H; right; exact Hy.
Qed.
Lemma filter_absorb {A} (P Q : A -> bool) l :
  (forall x, In x l -> Q x = true -> P x = true) -> filter Q (filter P l) = filter Q l.
Proof.
  intros H. symmetry. apply filter_implied. exact H.
Qed.
Lemma map_filter_rel {A B} (f : A -> B) (P' : A -> bool) (P : B -> bool) l :
  (forall x, In x l -> P' x = P (f x)) -> map f (filter P' l) = filter P (map f l).
Proof.
  induction l as [|x l IH]; intros H; [reflexivity|]. cbn [filter map].
  rewrite <- (H x (or_introl eq_refl)). destruct (P' x); cbn [map]; rewrite IH; auto; intros y Hy; apply H; right; exact Hy.
Qed.
Lemma Forall_filter_self {A} (P : A -> bool) l : Forall (fun x => P x = true) (filter P l).
Proof. apply Forall_forall. intros x Hx. apply filter_In in Hx. tauto. Qed.
Lemma Forall_filter {A} (Q : A -> Prop) (P : A -> bool) l : Forall Q l -> Forall Q (filter P l).
Proof. rewrite !Forall_forall. intros H x Hx. apply filter_In in Hx. apply H; tauto. Qed.

Lemma Forall_ins (Q : list N * list N -> Prop) kv l : Q kv -> Forall Q l -> Forall Q (ins kv l).
Proof.
  intros Hk. induction 1 as [|h t Hh Ht IH]; cbn [ins]; [constructor; auto|].
  destruct (lex_ltb (fst kv) (fst h)); repeat constructor; auto.
Qed.
Lemma Forall_isort (Q : list N * list N -> Prop) l : Forall Q l -> Forall Q (isort l).
Proof. induction 1; cbn [isort fold_right]; [constructor|]. apply Forall_ins; assumption. Qed.
Lemma Forall_rev' {A} (Q : A -> Prop) l : Forall Q l -> Forall Q (rev l).
Proof. rewrite !Forall_forall. intros H x Hx. apply H. apply in_rev. exact Hx. Qed.
Lemma Forall_firstn' {A} (Q : A -> Prop) n l : Forall Q l -> Forall Q (firstn n l).
Proof. intros H. revert n. induction H; intros [|n]; cbn [firstn]; constructor; auto. Qed.

(* ---------- stripping a prefixed pair ---------- *)
Lemma hasp_enc c kv : hasp c kv = true -> fst kv = encode_key c (fst (strip_kv c kv)).
Proof. unfold hasp, strip_kv, encode_key. cbn [fst]. apply has_prefix_inv. Qed.

Lemma bytes_eqb_enc c a b : bytes_eqb (encode_key c a) (encode_key c b) = bytes_eqb a b.
Proof. unfold bytes_eqb. rewrite encode_key_cmp. reflexivity. Qed.
Lemma lex_ltb_enc c a b : lex_ltb (encode_key c a) (encode_key c b) = lex_ltb a b.
Proof. unfold lex_ltb. rewrite encode_key_cmp. reflexivity. Qed.

Lemma ins_strip c kv l : hasp c kv = true -> Forall (fun x => hasp c x = true) l ->
  map (strip_kv c) (ins kv l) = ins (strip_kv c kv) (map (strip_kv c) l).
Proof.
  intros Hk. induction 1 as [|h t Hh Ht IH]; [reflexivity|]. cbn [ins map].
  rewrite (hasp_enc c kv Hk), (hasp_enc c h Hh), lex_ltb_enc.
  destruct (lex_ltb _ _); cbn [map]; [reflexivity|]. rewrite IH. reflexivity.
Qed.

Lemma isort_strip c l : Forall (fun x => hasp c x = true) l ->
  map (strip_kv c) (isort l) = isort (map (strip_kv c) l).
Proof.
  induction 1 as [|h t Hh Ht IH]; [reflexivity|]. cbn [isort fold_right map].
  fold (isort t). fold (isort (map (strip_kv c) t)). rewrite <- IH.
  apply ins_strip; [exact Hh|apply Forall_isort; exact Ht].
Qed.

Lemma dec_pairs_prefixed c l : Forall (fun x => hasp c x = true) l -> dec_pairs c l = Some (map (strip_kv c) l).
Proof.
  induction 1 as [|[k v] t Hh Ht IH]; [reflexivity|]. cbn [dec_pairs map]. rewrite IH.
  unfold hasp in Hh. cbn [fst] in Hh. unfold decode_key. rewrite Hh.
  replace (nilb k) with false; [reflexivity|].
  symmetry. apply nilb_false. intros ->. pose proof (prefix_ne c). destruct (prefix c); [congruence|discriminate].
Qed.

(* ---------- view commutes with the server operations ---------- *)
Lemma view_lookup c k st : lookup (encode_key c k) st = lookup k (view c st).
Proof.
  induction st as [|[k' v] r IH]; [reflexivity|]. unfold view. cbn [lookup filter]. fold (hasp c (k', v)).
  destruct (hasp c (k', v)) eqn:Hp.
  - cbn [map lookup strip_kv fst snd]. pose proof (hasp_enc c _ Hp) as E. cbn [fst strip_kv] in E.
    rewrite E at 1. rewrite bytes_eqb_enc. destruct (bytes_eqb k _); [reflexivity|exact IH].
  - destruct (bytes_eqb (encode_key c k) k') eqn:E; [|exact IH].
    apply bytes_eqb_eq in E. subst k'. unfold hasp, encode_key in Hp. cbn [fst] in Hp. rewrite has_prefix_app in Hp. discriminate.
Qed.

Lemma view_cons c kv st : view c (kv :: st) = if hasp c kv then strip_kv c kv :: view c st else view c st.
Proof. unfold view, hasp. cbn [filter]. destruct (has_prefix (prefix c) (fst kv)); reflexivity. Qed.

Lemma view_filter c (P' P : list N * list N -> bool) st :
  (forall x, hasp c x = true -> P' x = P (strip_kv c x)) ->
  view c (filter P' st) = filter P (view c st).
Proof.
  intros H. unfold view. fold (hasp c). rewrite filter_comm. apply map_filter_rel.
  intros x Hx. apply filter_In in Hx. apply H. tauto.
Qed.

Lemma view_remove c k st : view c (remove (encode_key c k) st) = remove k (view c st).
Proof.
  unfold remove. apply view_filter. intros x Hx. rewrite (hasp_enc c x Hx), bytes_eqb_enc.
  unfold strip_kv. cbn [fst]. reflexivity.
Qed.

Lemma view_other_filter c' (P : list N * list N -> bool) st :
  (forall x, hasp c' x = true -> P x = true) -> view c' (filter P st) = view c' st.
Proof.
  intros H. unfold view. fold (hasp c'). f_equal. apply filter_absorb. intros x _. apply H.
Qed.

Lemma hasp_foreign c c' k v : ks_ok c -> ks_ok c' -> c' <> c -> hasp c' (encode_key c k, v) = false.
Proof. intros. unfold hasp. cbn [fst]. apply foreign_no_prefix; assumption. Qed.

Lemma view_other_remove c c' k st : ks_ok c -> ks_ok c' -> c' <> c ->
  view c' (remove (encode_key c k) st) = view c' st.
Proof.
  intros H1 H2 Hne. unfold remove. apply view_other_filter. intros x Hx.
  apply negb_true_iff. destruct (bytes_eqb _ _) eqn:E; [|reflexivity].
  apply bytes_eqb_eq in E. destruct x as [k' v]. cbn [fst] in E. subst k'.
  rewrite hasp_foreign in Hx by assumption. discriminate.
Qed.

Lemma view_other_delrange c c' s e st : ks_ok c -> ks_ok c' -> c' <> c ->
  view c' (filter (fun kv => negb (in_rangeb (encode_key c s) (enc_end c e) (fst kv))) st) = view c' st.
Proof.
  intros H1 H2 Hne. apply view_other_filter. intros x Hx. apply negb_true_iff.
  rewrite (hasp_enc c' x Hx). apply foreign_not_in_range; auto.
Qed.

Lemma ks_eqb_eq a b : ks_eqb a b = true <-> a = b.
Proof.
  unfold ks_eqb. destruct a as [m1 i1], b as [m2 i2]; cbn [ks_mode ks_id]. rewrite andb_true_iff, N.eqb_eq.
  split.
  - intros [Hm ->]. destruct m1, m2; cbn in Hm; congruence.
  - intros [= -> ->]. split; [destruct m2; reflexivity|reflexivity].
Qed.
Lemma ks_eq_dec (a b : ks) : {a = b} + {a <> b}.
Proof. destruct (ks_eqb a b) eqn:E; [left; apply ks_eqb_eq; exact E|right; intros H; apply ks_eqb_eq in H; congruence]. Qed.

(* whatever a physical range of keyspace c selects from an admissible store carries c's prefix *)
Lemma range_selects_own c lo hi st : ks_ok c -> store_ok st ->
  filter (fun kv => in_rangeb (encode_key c lo) (enc_end c hi) (fst kv)) st =
  filter (fun kv => in_rangeb (encode_key c lo) (enc_end c hi) (fst kv)) (filter (hasp c) st).
Proof.
  intros Hc Hst. apply filter_implied. intros x Hx Hr.
  unfold store_ok in Hst. rewrite Forall_forall in Hst. destruct (Hst x Hx) as (c2 & k2 & Hc2 & E).
  destruct (ks_eq_dec c2 c) as [->|Hne].
  - unfold hasp. rewrite E. apply has_prefix_app.
  - rewrite E, foreign_not_in_range in Hr by auto. discriminate.
Qed.

Lemma scan_sim c (rev : bool) lo hi lim st : ks_ok c -> store_ok st ->
  let phys := isort (filter (fun kv => in_rangeb (encode_key c lo) (enc_end c hi) (fst kv)) st) in
  let logi := isort (filter (fun kv => in_rangeb lo hi (fst kv)) (view c st)) in
  dec_pairs c (firstn lim (if rev then List.rev phys else phys)) =
  Some (firstn lim (if rev then List.rev logi else logi)).
Proof.
  intros Hc Hst phys logi.
  assert (Hall : Forall (fun x => hasp c x = true) phys).
  { unfold phys. rewrite range_selects_own by assumption. apply Forall_isort, Forall_filter, Forall_filter_self. }
  assert (Hmap : map (strip_kv c) phys = logi).
  { unfold phys, logi. rewrite range_selects_own by assumption.
    rewrite isort_strip by (apply Forall_filter, Forall_filter_self). f_equal.
    unfold view. fold (hasp c). apply map_filter_rel. intros x Hx. apply filter_In in Hx as [_ Hx].
    rewrite (hasp_enc c x Hx) at 1. rewrite in_rangeb_enc. reflexivity. }
  rewrite dec_pairs_prefixed.
  - f_equal. rewrite <- firstn_map. f_equal. destruct rev; [rewrite map_rev|]; rewrite Hmap; reflexivity.
  - apply Forall_firstn'. destruct rev; [apply Forall_rev'|]; exact Hall.
Qed.

Lemma store_ok_filter P st : store_ok st -> store_ok (filter P st).
Proof. apply Forall_filter. Qed.

(* ---------- one client step ---------- *)
Lemma client_step_sim c o st : ks_ok c -> store_ok st ->
  step o (view c st) = (view c (fst (client_step c o st)), snd (client_step c o st)) /\
  (forall c', ks_ok c' -> c' <> c -> view c' (fst (client_step c o st)) = view c' st) /\
  store_ok (fst (client_step c o st)).
Proof.
  intros Hc Hst. destruct o as [k|k v|k|rev s e lim|s e]; unfold client_step; cbn [enc_op].
  - (* get *) cbn [step fst snd dec_res]. rewrite view_lookup. auto.
  - (* put *) cbn [step fst snd dec_res]. repeat split.
    + rewrite view_cons. unfold hasp at 1. cbn [fst]. unfold encode_key at 1. rewrite has_prefix_app.
      rewrite view_remove. unfold strip_kv. cbn [fst snd]. unfold encode_key. rewrite skipn_app_len. reflexivity.
    + intros c' Hc' Hne. rewrite view_cons, hasp_foreign by assumption.
      apply view_other_remove; assumption.
    + constructor; [exists c, k; auto|apply store_ok_filter; exact Hst].
  - (* delete *) cbn [step fst snd dec_res]. repeat split.
    + rewrite view_remove. reflexivity.
    + intros c' Hc' Hne. apply view_other_remove; assumption.
    + apply store_ok_filter; exact Hst.
  - (* scan *)
    destruct rev; cbn [encode_range step fst snd dec_res scan_list].
    + pose proof (scan_sim c true e s lim st Hc Hst) as S. cbn zeta iota in S. unfold scan_list. rewrite S. auto.
    + pose proof (scan_sim c false s e lim st Hc Hst) as S. cbn zeta iota in S. unfold scan_list. rewrite S. auto.
  - (* delete range *) cbn [encode_range step fst snd dec_res]. repeat split.
    + f_equal. symmetry. apply view_filter. intros x Hx. rewrite (hasp_enc c x Hx) at 1. rewrite in_rangeb_enc. reflexivity.
    + intros c' Hc' Hne. apply view_other_delrange; assumption.
    + apply store_ok_filter; exact Hst.
Qed.

(* ---------- interleaved runs ---------- *)
Lemma run_transparent c : ks_ok c -> forall tr st, store_ok st -> Forall (fun co => ks_ok (fst co)) tr ->
  proj_res c (run tr st) = lrun (proj_ops c tr) (view c st) /\
  view c (run_store tr st) = lrun_store (proj_ops c tr) (view c st) /\
  store_ok (run_store tr st).
Proof.
  intros Hc. induction tr as [|[c0 o] t IH]; intros st Hst Hall; [cbn; auto|].
  inversion Hall as [|? ? Hc0 Ht]; subst. cbn [fst] in Hc0.
  destruct (client_step_sim c0 o st Hc0 Hst) as (S1 & S2 & S3).
  cbn [run run_store]. destruct (client_step c0 o st) as [st' r] eqn:CS. cbn [fst snd] in *.
  unfold proj_res, proj_ops. cbn [filter fst]. destruct (ks_eqb c0 c) eqn:E.
  - apply ks_eqb_eq in E; subst c0. cbn [map snd lrun lrun_store]. rewrite S1. cbn [fst].
    destruct (IH st' S3 Ht) as (I1 & I2 & I3). fold (proj_res c (run t st')). fold (proj_ops c t).
    rewrite I1. auto.
  - assert (Hne : c <> c0) by (intros ->; rewrite (proj2 (ks_eqb_eq c0 c0) eq_refl) in E; discriminate).
    fold (proj_res c (run t st')). fold (proj_ops c t).
    rewrite <- (S2 c Hc Hne). apply IH; assumption.
Qed.

(* ---------- retransmissions ---------- *)
Lemma nth_wire_first c o n : nth_wire false c o n = enc_op c o.
Proof. destruct n; reflexivity. Qed.

(* every transmission has the effect and the answer of the first: transparent, other keyspaces untouched *)
Lemma retransmit_transparent c o n st : ks_ok c -> store_ok st ->
  let '(st', r) := step (nth_wire false c o n) st in
  step o (view c st) = (view c st', dec_res c r) /\
  (forall c', ks_ok c' -> c' <> c -> view c' st' = view c' st).
Proof.
  intros Hc Hst. rewrite nth_wire_first.
  destruct (client_step_sim c o st Hc Hst) as (S1 & S2 & _). unfold client_step in *.
  destruct (step (enc_op c o) st) as [st' r]. cbn [fst snd] in *. split; assumption.
Qed.

(* encoding is not idempotent: an already encoded key must never be encoded again *)
Lemma encode_key_not_idempotent c k : encode_key c (encode_key c k) <> encode_key c k.
Proof.
  intros E. apply (f_equal (@length N)) in E. unfold encode_key in E. rewrite !app_length, prefix_length in E. lia.
Qed.

(* a client that re-encodes what the previous transmission left behind writes outside its own keyspace: the second
   transmission of a put stores a key the client can no longer read *)
Lemma reencode_refuted : exists c k v,
  ks_ok c /\ nth_wire true c (OPut k v) 1 <> enc_op c (OPut k v) /\
  lookup k (view c (fst (step (nth_wire true c (OPut k v) 1) []))) = None /\
  lookup k (view c (fst (step (nth_wire false c (OPut k v) 1) []))) = Some v.
Proof.
  exists (mkks Txn 258), [7], [9]. split; [unfold ks_ok; cbn; reflexivity|].
  split; [vm_compute; congruence|]. split; vm_compute; reflexivity.
Qed.
