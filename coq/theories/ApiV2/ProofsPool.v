(* ApiV2/ProofsPool.v — the codec plumbing never touches the callers' objects and puts every transmission on the wire
   prefixed exactly once; each seeded deviation is refuted by a concrete schedule *)
From Verif Require Import ApiV2.Model ApiV2.ProofsKey ApiV2.Pool.
From Coq Require Import Lia.
Open Scope nat_scope.

Lemma upd_eq {A} (f : addr -> A) a v : upd f a v a = v.
Proof. unfold upd. rewrite Nat.eqb_refl. reflexivity. Qed.
Lemma upd_neq {A} (f : addr -> A) a v x : x <> a -> upd f a v x = f x.
Proof. unfold upd. intros H. destruct (Nat.eqb_spec x a); [contradiction|reflexivity]. Qed.

(* callers own the requests below br and the messages below bm; everything the codec allocates lies above *)
Record inv (br bm : addr) (h0 h : heap) : Prop := mkinv {
  i_nr : br <= next_r h;
  i_nm : bm <= next_m h;
  i_pool : forall p, In p (pool h) -> br <= p < next_r h;
  i_rh : forall a, a < br -> rh h a = rh h0 a;
  i_keys : forall m, m < bm -> m_keys (mh h m) = m_keys (mh h0 m);
  i_inner : forall a, a < br -> r_inner (rh h0 a) < bm
}.

Lemma inv_init br bm h0 : br <= next_r h0 -> bm <= next_m h0 -> pool h0 = [] ->
  (forall a, a < br -> r_inner (rh h0 a) < bm) -> inv br bm h0 h0.
Proof. intros H1 H2 H3 H4. constructor; auto. rewrite H3. intros p []. Qed.

Lemma in_remove_nth {A} i (l : list A) x : In x (remove_nth i l) -> In x l.
Proof.
  unfold remove_nth. rewrite in_app_iff. intros [H|H].
  - rewrite <- (firstn_skipn i l). apply in_or_app. left. exact H.
  - rewrite <- (firstn_skipn (S i) l). apply in_or_app. right. exact H.
Qed.

Lemma pool_get_spec br bm h0 h i r h1 : inv br bm h0 h -> pool_get h i = (r, h1) ->
  br <= r < next_r h1 /\ rh h1 = rh h /\ mh h1 = mh h /\ next_m h1 = next_m h /\ next_r h <= next_r h1 /\
  (forall p, In p (pool h1) -> br <= p < next_r h1).
Proof.
  intros I. unfold pool_get. destruct (nth_error (pool h) i) as [p|] eqn:E; intros [= <- <-]; cbn [rh mh next_m next_r pool].
  - apply nth_error_In in E. pose proof (i_pool _ _ _ _ I p E).
    repeat (split; [first [reflexivity | lia]|]).
    intros q Hq; apply in_remove_nth in Hq; apply (i_pool _ _ _ _ I q Hq).
  - pose proof (i_nr _ _ _ _ I).
    repeat (split; [first [reflexivity | lia]|]).
    intros q Hq; pose proof (i_pool _ _ _ _ I q Hq); lia.
Qed.

(* one transmission by the code as it is *)
Lemma send_real c br bm h0 h a i w h' : inv br bm h0 h -> a < br -> send real c a i h = (w, h') ->
  inv br bm h0 h' /\ w = wire_spec c h0 a.
Proof.
  intros I Ha. unfold send, encode. cbn [real f_attach_first f_return_caller f_in_place f_decode_caller andb].
  destruct (pool_get h i) as [r h1] eqn:PG.
  destruct (pool_get_spec _ _ _ _ _ _ _ I PG) as (Hr & Erh & Emh & Enm & Hnr & Hpool).
  rewrite Erh, Emh, Enm. pose proof (i_rh _ _ _ _ I a Ha) as Ea. rewrite Ea.
  pose proof (i_inner _ _ _ _ I a Ha) as Hin. pose proof (i_nm _ _ _ _ I) as Hnm.
  pose proof (i_keys _ _ _ _ I _ Hin) as Ek.
  set (ro := rh h0 a) in *. unfold wire_spec. fold ro.
  assert (Hra : forall x, x < br -> x <> r) by (intros x Hx; lia).
  destruct (r_keyed ro) eqn:K.
  - (* the codec clones the message *)
    unfold attach. cbn [rh mh next_m next_r pool]. rewrite !upd_eq. cbn [r_rev r_inner r_keyed r_api m_keys m_ctx].
    destruct (r_rev ro) as [|n]; cbn [rh mh next_m next_r pool]; rewrite !upd_eq; cbn [r_inner m_keys m_ctx]; rewrite ?upd_eq;
      cbn [m_keys m_ctx]; intros [= <- <-]; (split; [|rewrite Ek; reflexivity]);
      constructor; cbn [rh mh next_m next_r pool]; try lia.
    + intros p [<-|Hp]; [lia|apply Hpool; exact Hp].
    + intros x Hx. rewrite !upd_neq by (apply Hra; exact Hx). apply (i_rh _ _ _ _ I x Hx).
    + intros m Hm. rewrite !upd_neq by lia. apply (i_keys _ _ _ _ I m Hm).
    + apply (i_inner _ _ _ _ I).
    + intros p [<-|Hp]; [lia|apply Hpool; exact Hp].
    + intros x Hx. rewrite !upd_neq by (apply Hra; exact Hx). apply (i_rh _ _ _ _ I x Hx).
    + intros m Hm. rewrite !upd_neq by lia. apply (i_keys _ _ _ _ I m Hm).
    + apply (i_inner _ _ _ _ I).
  - (* nothing to write into the message: it is shared with the caller, only its context is attached *)
    unfold attach. cbn [rh mh next_m next_r pool]. rewrite !upd_eq. cbn [r_rev r_inner r_keyed r_api m_keys m_ctx].
    destruct (r_rev ro) as [|n]; cbn [rh mh next_m next_r pool]; rewrite !upd_eq; cbn [r_inner m_keys m_ctx]; rewrite ?upd_eq;
      cbn [m_keys m_ctx]; intros [= <- <-]; (split; [|rewrite Ek; reflexivity]);
      constructor; cbn [rh mh next_m next_r pool]; try lia.
    + intros p [<-|Hp]; [lia|apply Hpool; exact Hp].
    + intros x Hx. rewrite !upd_neq by (apply Hra; exact Hx). apply (i_rh _ _ _ _ I x Hx).
    + intros m Hm. destruct (Nat.eqb_spec m (r_inner ro)) as [->|Hne].
      * rewrite upd_eq. cbn [m_keys]. exact Ek.
      * rewrite upd_neq by exact Hne. apply (i_keys _ _ _ _ I m Hm).
    + apply (i_inner _ _ _ _ I).
    + intros p [<-|Hp]; [lia|apply Hpool; exact Hp].
    + intros x Hx. rewrite !upd_neq by (apply Hra; exact Hx). apply (i_rh _ _ _ _ I x Hx).
    + intros m Hm. rewrite !upd_neq by lia. apply (i_keys _ _ _ _ I m Hm).
    + apply (i_inner _ _ _ _ I).
Qed.

(* any schedule of transmissions of the callers' requests, any behaviour of the pool *)
Lemma sends_real c br bm h0 : forall sch h ws h', inv br bm h0 h -> Forall (fun ai => fst ai < br) sch ->
  sends real c sch h = (ws, h') ->
  inv br bm h0 h' /\ ws = map (fun ai => wire_spec c h0 (fst ai)) sch.
Proof.
  induction sch as [|[a i] t IH]; intros h ws h' I Hall; cbn [sends map fst].
  - intros [= <- <-]. auto.
  - inversion Hall as [|? ? Ha Ht]; subst. cbn [fst] in Ha.
    destruct (send real c a i h) as [w h1] eqn:S. destruct (send_real _ _ _ _ _ _ _ _ _ I Ha S) as (I1 & ->).
    destruct (sends real c t h1) as [ws2 h2] eqn:SS. destruct (IH _ _ _ I1 Ht SS) as (I2 & ->).
    intros [= <- <-]. auto.
Qed.

(* the callers' requests and the keys of their messages are what they were *)
Lemma callers_untouched br bm h0 h : inv br bm h0 h ->
  forall a, a < br -> rh h a = rh h0 a /\ m_keys (mh h (r_inner (rh h a))) = m_keys (mh h0 (r_inner (rh h0 a))).
Proof.
  intros I a Ha. rewrite (i_rh _ _ _ _ I a Ha). split; [reflexivity|]. apply (i_keys _ _ _ _ I). apply (i_inner _ _ _ _ I a Ha).
Qed.

(* ---------- the seeded deviations, refuted by schedules ---------- *)
Definition demo_heap : heap :=
  mkheap (fun a => match a with 0 => mkreq true 0 false 0 | 1 => mkreq false 1 false 0 | _ => mkreq true 2 false 0 end)
         (fun m => match m with 0 => mkmsg [[7%N]] None | 1 => mkmsg [] None | _ => mkmsg [[9%N]] None end) 3 3 [].
Definition demo_ks : ks := mkks Txn 258.

Lemma demo_inv : inv 3 3 demo_heap demo_heap.
Proof. apply inv_init; cbn; auto. intros [|[|[|a]]] H; cbn; lia. Qed.

(* decoding with the caller's request: the third transmission carries the prefix twice *)
Lemma decode_caller_refuted :
  fst (sends (mkflags true false false false) demo_ks [(0, 0); (0, 0); (0, 0)] demo_heap)
  = [([[120; 0; 1; 2; 7]], Some true); ([[120; 0; 1; 2; 7]], Some true); ([[120; 0; 1; 2; 120; 0; 1; 2; 7]], Some true)]%N.
Proof. vm_compute. reflexivity. Qed.

(* encoding in place: already the second transmission carries the prefix twice, and the caller's message is rewritten *)
Lemma in_place_refuted :
  let '(ws, h) := sends (mkflags false true false false) demo_ks [(0, 0); (0, 0)] demo_heap in
  ws = [([[120; 0; 1; 2; 7]], Some true); ([[120; 0; 1; 2; 120; 0; 1; 2; 7]], Some true)]%N /\
  m_keys (mh h 0) = [[120; 0; 1; 2; 120; 0; 1; 2; 7]]%N.
Proof. vm_compute. auto. Qed.

(* returning the caller's request for a message without keys: it ends up in the pool, the next request is copied over
   it, and its own next transmission sends the other request's message *)
Lemma return_caller_refuted :
  fst (sends (mkflags false false true false) demo_ks [(1, 0); (2, 0); (1, 0)] demo_heap)
  = [([], Some true); ([[120; 0; 1; 2; 9]], Some true); ([[120; 0; 1; 2; 120; 0; 1; 2; 9]], Some true)]%N.
Proof. vm_compute. reflexivity. Qed.

(* attaching the context before encoding: the wire carries a context without api version and keyspace, and the second
   transmission replaces the caller's message *)
Lemma attach_first_refuted :
  let '(ws, h) := sends (mkflags false false false true) demo_ks [(0, 0); (0, 0)] demo_heap in
  ws = [([[120; 0; 1; 2; 7]], Some false); ([[120; 0; 1; 2; 7]], Some false)]%N /\ r_inner (rh h 0) <> 0.
Proof. vm_compute. split; [reflexivity|discriminate]. Qed.

Lemma demo_real :
  fst (sends real demo_ks [(0, 0); (1, 0); (0, 0); (2, 5); (1, 1); (0, 0)] demo_heap)
  = [([[120; 0; 1; 2; 7]], Some true); ([], Some true); ([[120; 0; 1; 2; 7]], Some true); ([[120; 0; 1; 2; 9]], Some true); ([], Some true); ([[120; 0; 1; 2; 7]], Some true)]%N.
Proof. vm_compute. reflexivity. Qed.
