(* Union/ProofsBatch.v — BufferBatchGetter.BatchGet (after fix e4ede29): result = overlay restricted to the
   requested keys, the snapshot is asked exactly for the requested keys that are not buffered. *)
From Verif Require Import Base.Lex Union.Model Union.ProofsMap.
From Coq Require Import Sorted.

Notation sorted := (dsorted false).

Lemma sorted_buf_batch buf keys : sorted (buf_batch buf keys).
Proof.
  induction keys as [|k r IH]; cbn [buf_batch]; [constructor|].
  destruct (kv_get buf k); [apply sorted_put|]; exact IH.
Qed.

Lemma kv_get_buf_batch buf keys k :
  kv_get (buf_batch buf keys) k = if key_mem k keys then kv_get buf k else None.
Proof.
  induction keys as [|k0 r IH]; cbn [buf_batch key_mem]; [reflexivity|].
  destruct (kv_get buf k0) as [v0|] eqn:G.
  - rewrite kv_get_put, IH. destruct (bytes_eqb k0 k) eqn:E; cbn [orb]; [|reflexivity].
    apply bytes_eqb_eq in E; subst k0. symmetry; exact G.
  - rewrite IH. destruct (bytes_eqb k0 k) eqn:E; cbn [orb]; [|reflexivity].
    apply bytes_eqb_eq in E; subst k0. rewrite G. destruct (key_mem k r); reflexivity.
Qed.

(* snap_batch is the same function *)
Lemma snap_batch_eq snap keys : snap_batch snap keys = buf_batch snap keys.
Proof. induction keys as [|k r IH]; cbn [snap_batch buf_batch]; [reflexivity|]. rewrite IH. reflexivity. Qed.

Definition unbuffered (buf : list kv) (k : key) : bool :=
  match kv_get buf k with None => true | Some _ => false end.

Lemma shrink_keys_spec buf keys :
  fst (shrink_loop keys (buf_batch buf keys)) = filter (unbuffered buf) keys.
Proof.
  unfold shrink_loop; cbn [fst]. apply filter_ext_in. intros k Hk. unfold unbuffered.
  rewrite kv_get_buf_batch. rewrite (proj2 (key_mem_In k keys) Hk). reflexivity.
Qed.

Lemma del_loop_spec (m : list kv) ks : forall acc k, sorted acc ->
  let f := fun acc k => match kv_get m k with
                        | Some v => if is_tomb v then kv_del k acc else acc
                        | None => acc
                        end in
  sorted (fold_left f ks acc) /\
  kv_get (fold_left f ks acc) k =
    if key_mem k ks && (match kv_get m k with Some v => is_tomb v | None => false end)
    then None else kv_get acc k.
Proof.
  induction ks as [|k0 r IH]; intros acc k Hs f; cbn [fold_left key_mem]; [split; [exact Hs|reflexivity]|].
  assert (Hs' : sorted (f acc k0)).
  { unfold f. destruct (kv_get m k0) as [v|]; [destruct (is_tomb v); [apply sorted_del|]|]; exact Hs. }
  destruct (IH (f acc k0) k Hs') as [S G]. split; [exact S|].
  fold f in G. rewrite G. clear G S IH.
  destruct (bytes_eqb k0 k) eqn:E; cbn [orb andb].
  - apply bytes_eqb_eq in E; subst k0. unfold f.
    destruct (kv_get m k) as [v|]; cbn [andb].
    + destruct (is_tomb v) eqn:T.
      * rewrite Bool.andb_true_r. rewrite (kv_get_del _ _ _ Hs), eqb_refl.
        destruct (key_mem k r); reflexivity.
      * rewrite Bool.andb_false_r. reflexivity.
    + rewrite Bool.andb_false_r. reflexivity.
  - destruct (key_mem k r && match kv_get m k with Some v => is_tomb v | None => false end); [reflexivity|].
    unfold f. destruct (kv_get m k0) as [v|]; [|reflexivity].
    destruct (is_tomb v); [|reflexivity]. rewrite (kv_get_del _ _ _ Hs), E. reflexivity.
Qed.

Lemma put_loop_spec l : forall m k, sorted l ->
  kv_get (fold_left (fun acc e => kv_put (fst e) (snd e) acc) l m) k =
    match kv_get l k with Some v => Some v | None => kv_get m k end.
Proof.
  induction l as [|[k0 v0] l IH]; intros m k Hs; cbn [fold_left kv_get fst snd]; [reflexivity|].
  apply dsorted_inv in Hs. destruct Hs as [Hs Ha]. cbn in Ha.
  rewrite (IH _ k Hs), kv_get_put.
  destruct (bytes_eqb k0 k) eqn:E; [|reflexivity].
  apply bytes_eqb_eq in E; subst k0. rewrite (above_get_none false k l Ha). reflexivity.
Qed.

Lemma put_loop_sorted l : forall m, sorted m ->
  sorted (fold_left (fun acc e => kv_put (fst e) (snd e) acc) l m).
Proof. induction l as [|e l IH]; intros m Hs; cbn [fold_left]; [exact Hs|]. apply IH. apply sorted_put. exact Hs. Qed.

Lemma key_mem_filter k f keys : (forall a b, a = b -> f a = f b) ->
  key_mem k (filter f keys) = key_mem k keys && f k.
Proof.
  intros _. induction keys as [|k0 r IH]; cbn [filter key_mem]; [reflexivity|].
  destruct (f k0) eqn:F; cbn [key_mem]; rewrite IH.
  - destruct (bytes_eqb k0 k) eqn:E; cbn [orb]; [|reflexivity].
    apply bytes_eqb_eq in E; subst k0. rewrite F. reflexivity.
  - destruct (bytes_eqb k0 k) eqn:E; cbn [orb]; [|reflexivity].
    apply bytes_eqb_eq in E; subst k0. rewrite F, Bool.andb_false_r. destruct (key_mem k r); reflexivity.
Qed.

Lemma filter_all {A} (f : A -> bool) l : (forall x, In x l -> f x = true) -> filter f l = l.
Proof.
  induction l as [|a l IH]; intros H; cbn [filter]; [reflexivity|].
  rewrite (H a (or_introl eq_refl)). f_equal. apply IH. intros x Hx. apply H. right; exact Hx.
Qed.

Lemma batch_get_spec snap buf keys : no_tomb snap -> sorted snap ->
  let '(handed, res) := buffer_batch_get snap buf keys in
  handed = filter (unbuffered buf) keys /\
  sorted res /\
  forall k, kv_get res k = if key_mem k keys then union_get snap buf k else None.
Proof.
  intros Hn Hss. unfold buffer_batch_get, buffer_batch_get_gen.
  assert (Hsnap : forall k, kv_get snap k = match kv_get snap k with
                                           | Some v => if is_tomb v then None else Some v | None => None end).
  { intros k. destruct (kv_get snap k) as [v|] eqn:G; [|reflexivity].
    apply (kv_get_In false snap k v Hss) in G. unfold no_tomb in Hn. rewrite Forall_forall in Hn.
    specialize (Hn _ G). cbn in Hn. rewrite Hn. reflexivity. }
  destruct (buf_batch buf keys) as [|e bv] eqn:B.
  - (* nothing buffered among the keys: the whole list goes to the snapshot *)
    assert (Hnone : forall k, key_mem k keys = true -> kv_get buf k = None).
    { intros k Hk. pose proof (kv_get_buf_batch buf keys k) as G. rewrite B, Hk in G. cbn in G. symmetry; exact G. }
    split; [|split].
    + symmetry. apply filter_all. intros k Hk. unfold unbuffered.
      rewrite (Hnone k (proj2 (key_mem_In k keys) Hk)). reflexivity.
    + rewrite snap_batch_eq. apply sorted_buf_batch.
    + intros k. rewrite snap_batch_eq, kv_get_buf_batch. destruct (key_mem k keys) eqn:M; [|reflexivity].
      unfold union_get. rewrite (Hnone k M). apply Hsnap.
  - rewrite <- B. clear e bv B.
    pose proof (shrink_keys_spec buf keys) as Hk. unfold shrink_loop in *. cbn [fst] in Hk.
    set (f := fun acc k => match kv_get (buf_batch buf keys) k with
                           | Some v => if is_tomb v then kv_del k acc else acc
                           | None => acc end).
    set (sk := filter (fun k => match kv_get (buf_batch buf keys) k with None => true | Some _ => false end) keys) in *.
    split; [exact Hk|]. split.
    + apply put_loop_sorted. apply (del_loop_spec (buf_batch buf keys) keys _ [] (sorted_buf_batch buf keys)).
    + intros k. rewrite put_loop_spec by (rewrite snap_batch_eq; apply sorted_buf_batch).
      destruct (del_loop_spec (buf_batch buf keys) keys (buf_batch buf keys) k (sorted_buf_batch buf keys)) as [_ G].
      fold f in G. rewrite G. clear G.
      rewrite snap_batch_eq, kv_get_buf_batch, Hk.
      rewrite (key_mem_filter k (unbuffered buf) keys) by (intros; subst; reflexivity).
      rewrite kv_get_buf_batch. unfold union_get, unbuffered.
      destruct (key_mem k keys); cbn [andb]; [|reflexivity].
      destruct (kv_get buf k) as [v|].
      * destruct (is_tomb v); reflexivity.
      * rewrite <- Hsnap. destruct (kv_get snap k); reflexivity.
Qed.
