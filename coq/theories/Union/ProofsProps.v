(* Union/ProofsProps.v — proofs of the statements of Props.v that need more than one lemma application. *)
From Verif Require Import Base.Lex Union.Model Union.ProofsMap Union.ProofsIter Union.ProofsBuf Union.ProofsBatch.
From Coq Require Import Sorted ZifyN ZifyNat.
Notation sorted := (dsorted false).

Lemma C07_iter_merge_proof : forall rv d s k, dsorted rv d -> dsorted rv s ->
  dsorted rv (union_iter rv d s) /\ kv_get (union_iter rv d s) k = overlay_get s d k.
Proof.
  intros rv d s k Hd Hs. rewrite union_iter_merge. split; [apply dsorted_merge|apply kv_get_merge]; assumption.
Qed.

Lemma C07_iter_contract_proof : forall rv d s, dsorted rv d -> dsorted rv s ->
  dsorted rv (union_iter rv d s) /\
  (forall k v, In (k, v) (union_iter rv d s) <-> overlay_get s d k = Some v) /\
  (forall k v, In (k, v) (union_iter rv d s) -> In (k, v) d \/ In (k, v) s).
Proof.
  intros rv d s Hd Hs. rewrite union_iter_merge.
  assert (So : dsorted rv (merge rv d s)) by (apply dsorted_merge; assumption).
  assert (M : forall k v, In (k, v) (merge rv d s) <-> overlay_get s d k = Some v).
  { intros k v. rewrite <- (kv_get_In rv _ k v So), (kv_get_merge rv k d s Hd Hs). reflexivity. }
  split; [exact So|]. split; [exact M|].
  intros k v H. apply M in H. unfold overlay_get in H.
  destruct (kv_get d k) as [w|] eqn:G.
  - destruct (is_tomb w); [discriminate|]. injection H as <-. left. apply (kv_get_In rv d k w Hd). exact G.
  - right. apply (kv_get_In rv s k v Hs). exact H.
Qed.

Lemma C07_batch_get_prefix_refuted_proof : exists snap buf keys,
  no_tomb snap /\ sorted snap /\
  let '(handed, res) := buffer_batch_get_prefix snap buf keys in
  ~ (handed = filter (unbuffered buf) keys /\
     forall k, kv_get res k = if key_mem k keys then union_get snap buf k else None).
Proof.
  exists [([97], [120])], [([97], [])], [[97]; [97]].
  split; [repeat constructor|]. split; [repeat constructor|].
  vm_compute. intros [H _]. discriminate H.
Qed.

Lemma C07_buffer_content_proof : forall st k, sorted (buf_map st) /\ kv_get (buf_map st) k = buf_get st k.
Proof. intros st k. split; [apply sorted_buf_map|apply kv_get_buf_map]. Qed.

Lemma C07_latest_write_wins_proof : forall ip pre ws st0 snap k, forallb non_undo ws = true ->
  let st := run ip pre st0 in
  buf_get (run ip (pre ++ ws) st0) k = fold_left (last_write k) ws (buf_get st k) /\
  m_get snap (run ip (pre ++ ws) st0) k =
    match (match fold_left (last_write k) ws (buf_get st k) with Some v => Some v | None => kv_get snap k end) with
    | Some v => if is_tomb v then None else Some v
    | None => None
    end.
Proof.
  intros ip pre ws st0 snap k H st.
  assert (E : run ip (pre ++ ws) st0 = run ip ws st) by (unfold run, st; apply fold_left_app).
  rewrite E, m_get_buf_get, (latest_write ip ws st k H). split; reflexivity.
Qed.

Lemma C07_cleanup_restores_proof : forall ip st ops,
  let st1 := step ip st OStaging in
  let h := staging_handle st in
  Forall (scoped_op h (checkpoint_pos st)) ops ->
  handle_live (run ip ops st1) h = true ->
  b_log (step ip (run ip ops st1) (OCleanup h)) = b_log st /\
  b_stages (step ip (run ip ops st1) (OCleanup h)) = b_stages st /\
  obs_eq (step ip (run ip ops st1) (OCleanup h)) st.
Proof.
  intros ip st ops st1 h Ho Hl.
  destruct (cleanup_restores ip st ops Ho Hl) as [E1 E2].
  split; [exact E1|]. split; [exact E2|]. apply obs_eq_of_log. exact E1.
Qed.

Lemma C07_release_keeps_proof : forall ip st ops h',
  obs_eq (step ip st (ORelease h')) st /\
  (let st1 := step ip st OStaging in
   let h := staging_handle st in
   Forall (scoped_op h (checkpoint_pos st)) ops ->
   handle_live (run ip ops st1) h = true ->
   b_log (step ip (run ip ops st1) (ORelease h)) = b_log (run ip ops st1) /\
   b_stages (step ip (run ip ops st1) (ORelease h)) = b_stages st).
Proof.
  intros ip st ops h'. split; [apply obs_eq_of_log; apply release_log|].
  intros st1 h Ho Hl. apply release_keeps; assumption.
Qed.

Lemma C07_revert_checkpoint_proof : forall ip st ops,
  let st1 := step ip st OCheckpoint in
  Forall (scoped_op (length (b_stages st)) (checkpoint_pos st)) ops ->
  b_log (step ip (run ip ops st1) (ORevert (checkpoint_pos st))) = b_log st /\
  obs_eq (step ip (run ip ops st1) (ORevert (checkpoint_pos st))) st.
Proof.
  intros ip st ops st1 Ho. pose proof (revert_restores ip st ops Ho) as E. split; [exact E|apply obs_eq_of_log; exact E].
Qed.

Lemma C07_revert_checkpoint_prefix_refuted_proof : exists st ops,
  Forall (scoped_op (length (b_stages st)) (checkpoint_pos st)) ops /\
  ~ obs_eq (step_prefix (run_prefix ops (step_prefix st OCheckpoint)) (ORevert (checkpoint_pos st))) st.
Proof.
  exists (run_prefix [OSet [97] [120; 120]] mbuf_empty), [OSet [97] [121; 121]].
  split; [repeat constructor|].
  intros H. destruct (H []) as (_ & G & _). specialize (G [97]). vm_compute in G. discriminate G.
Qed.
