(* Union/ProofsPropsP.v — proofs of the statements of PropsP.v that need more than one lemma application. *)
From Verif Require Import Base.Lex Union.Model Union.ModelP Union.ProofsMap Union.ProofsBuf Union.ProofsP Union.ProofsBatch.
From Coq Require Import Sorted ZifyN ZifyNat.

Lemma C07_pipelined_get_proof : forall store ops snap k,
  let st := prun ops (pbuf_empty store) in
  p_get st k = p_lookup st k /\
  pu_get snap st k =
    match (match p_lookup st k with Some v => Some v | None => kv_get snap k end) with
    | Some v => if is_tomb v then None else Some v
    | None => None
    end.
Proof.
  intros store ops snap k st.
  assert (E : p_get st k = p_lookup st k) by (apply p_get_spec; apply pinv_run; apply pinv_empty).
  split; [exact E|]. unfold pu_get. rewrite E. reflexivity.
Qed.

Lemma C07_pipelined_flush_invisible_proof : forall store ops o k,
  let st := prun ops (pbuf_empty store) in
  match o with
  | PFlush => b_stages (p_mem st) = []
  | PFlushDone | PFlushWait | PBatchGet _ => True
  | _ => False
  end ->
  p_lookup (fst (pstep st o)) k = p_lookup st k /\ p_get (fst (pstep st o)) k = p_get st k.
Proof.
  intros store ops o k st Ho.
  assert (I : pinv st) by (apply pinv_run; apply pinv_empty).
  assert (E : p_lookup (fst (pstep st o)) k = p_lookup st k).
  { destruct o; try contradiction.
    - apply p_lookup_flush_ops; [exact I|exact Logic.I].
    - apply p_lookup_flush; assumption.
    - apply p_lookup_flush_ops; [exact I|exact Logic.I].
    - apply p_lookup_flush_ops; [exact I|exact Logic.I]. }
  split; [exact E|]. rewrite (p_get_spec _ k (pinv_step st o I)), (p_get_spec _ k I). exact E.
Qed.

Lemma C07_pipelined_empty_as_miss_refuted_proof : exists ops snap k,
  let st := prun ops (pbuf_empty []) in
  pu_get snap st k = None /\
  (match (match p_get_empty_as_miss st k with Some v => Some v | None => kv_get snap k end) with
   | Some v => if is_tomb v then None else Some v | None => None end) <> None.
Proof.
  exists [PDel [97]; PFlush; PFlushDone; PFlushWait; PBatchGet [[97]]], [([97], [120])], [97].
  vm_compute. split; [reflexivity|discriminate].
Qed.

Lemma C07_pipelined_batch_get_proof : forall st snap keys, no_tomb snap -> dsorted false snap ->
  (forall k, kv_get (fst (p_batch_get st keys)) k = if key_mem k keys then p_lookup st k else None) /\
  let '(handed, res) := pu_batch_get snap st keys in
  handed = filter (fun k => match p_lookup st k with None => true | Some _ => false end) keys /\
  dsorted false res /\
  forall k, kv_get res k =
    if key_mem k keys
    then match (match p_lookup st k with Some v => Some v | None => kv_get snap k end) with
         | Some v => if is_tomb v then None else Some v
         | None => None
         end
    else None.
Proof.
  intros st snap keys Hn Hs. split; [intros k; apply p_batch_get_map|].
  unfold pu_batch_get.
  pose proof (Union.ProofsBatch.batch_get_spec snap (fst (p_batch_get st keys)) keys Hn Hs) as H.
  destruct (buffer_batch_get snap (fst (p_batch_get st keys)) keys) as [handed res].
  destruct H as (Hh & Hr & Hg). split; [|split; [exact Hr|]].
  - rewrite Hh. apply filter_ext_in. intros k Hk. unfold Union.ProofsBatch.unbuffered.
    rewrite p_batch_get_map, (proj2 (key_mem_In k keys) Hk). reflexivity.
  - intros k. rewrite Hg. destruct (key_mem k keys) eqn:M; [|reflexivity].
    unfold union_get. rewrite p_batch_get_map, M. reflexivity.
Qed.
