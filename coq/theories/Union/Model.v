(* Union/Model.v — executable model for C07 (read-your-writes over a snapshot, savepoints).
   Mirrors /repo/internal/unionstore/union_store.go, union_iter.go, art/art.go (Set/trySwapValue,
   Staging/Release/Cleanup, Checkpoint/RevertToCheckpoint — value-log positions only),
   txnkv/transaction/batch_getter.go.  Keys and values are byte strings (list N); the empty
   value is the tombstone. *)
From Verif Require Import Base.Lex.

Definition key := list N.
Definition val := list N.
Notation kv := (key * val)%type (only parsing).

Definition is_tomb (v : val) : bool := match v with [] => true | _ => false end.

(* ---------- association lists ---------- *)
(* lookup by key equality only: independent of the order the list is sorted in *)
Fixpoint kv_get (l : list kv) (k : key) : option val :=
  match l with
  | [] => None
  | (k', v) :: r => if bytes_eqb k' k then Some v else kv_get r k
  end.

(* ascending sorted insert / remove: the "ordered map" of the specification *)
Fixpoint kv_put (k : key) (v : val) (l : list kv) : list kv :=
  match l with
  | [] => [(k, v)]
  | (k', v') :: r =>
      match lex_cmp k k' with
      | Lt => (k, v) :: l
      | Eq => (k, v) :: r
      | Gt => (k', v') :: kv_put k v r
      end
  end.

Fixpoint kv_del (k : key) (l : list kv) : list kv :=
  match l with
  | [] => []
  | (k', v') :: r =>
      match lex_cmp k k' with
      | Lt => l
      | Eq => r
      | Gt => (k', v') :: kv_del k r
      end
  end.

(* the transaction's view: snapshot with every buffered entry applied (put, or delete for a tombstone) *)
Definition overlay_step (m : list kv) (e : kv) : list kv :=
  if is_tomb (snd e) then kv_del (fst e) m else kv_put (fst e) (snd e) m.
Definition overlay (snap dirty : list kv) : list kv := fold_left overlay_step dirty snap.

(* bounds: lo inclusive ([] = smallest key = unbounded), hi exclusive ([] = unbounded) *)
Definition in_range (lo hi : key) (k : key) : bool :=
  lex_leb lo k && (match hi with [] => true | _ => lex_ltb k hi end).
Definition range (lo hi : key) (l : list kv) : list kv :=
  filter (fun e => in_range lo hi (fst e)) l.

(* ---------- UnionIter ---------- *)
(* comparison in iteration direction: Go computes cmp := CmpKey(dirty, snapshot); if reverse {cmp = -cmp} *)
Definition dcmp (rv : bool) (a b : key) : comparison :=
  if rv then CompOpp (lex_cmp a b) else lex_cmp a b.

(* cursor state: remaining dirty entries (head = dirtyIt's position), remaining snapshot entries,
   curIsDirty, isValid *)
Record ucur := mk_ucur { u_d : list kv; u_s : list kv; u_dirty : bool; u_valid : bool }.

(* UnionIter.updateCur: every `continue` of the Go loop advances dirtyIt, hence structural on d *)
Fixpoint update_cur (rv : bool) (d s : list kv) : ucur :=
  match d with
  | [] =>
      match s with
      | [] => mk_ucur [] [] false false            (* !dirtyValid && !snapshotValid *)
      | _ => mk_ucur [] s false true               (* !dirtyValid: curIsDirty=false *)
      end
  | (dk, dv) :: d' =>
      match s with
      | [] =>                                      (* !snapshotValid *)
          if is_tomb dv then update_cur rv d' [] else mk_ucur d [] true true
      | (sk, sv) :: s' =>
          match dcmp rv dk sk with
          | Eq =>
              if is_tomb dv then update_cur rv d' s'     (* dirtyNext; snapshotNext; continue *)
              else mk_ucur d s' true true                (* snapshotNext; curIsDirty = true *)
          | Gt => mk_ucur d s false true                 (* record from snapshot comes first *)
          | Lt =>
              if is_tomb dv then update_cur rv d' s      (* "delete a record not exists?" *)
              else mk_ucur d s true true
          end
      end
  end.

Definition ucur_kv (c : ucur) : option kv :=
  if u_dirty c then hd_error (u_d c) else hd_error (u_s c).

(* UnionIter.Next *)
Definition ucur_next (rv : bool) (c : ucur) : ucur :=
  if u_dirty c then update_cur rv (tl (u_d c)) (u_s c)
  else update_cur rv (u_d c) (tl (u_s c)).

(* for it.Valid() { emit (Key, Value); it.Next() } *)
Fixpoint ucollect (rv : bool) (fuel : nat) (c : ucur) : list kv :=
  match fuel with
  | O => []
  | S f =>
      if u_valid c then
        match ucur_kv c with
        | Some e => e :: ucollect rv f (ucur_next rv c)
        | None => []
        end
      else []
  end.

(* d, s: outputs of the buffer iterator / snapshot iterator, in iteration order *)
Definition union_iter (rv : bool) (d s : list kv) : list kv :=
  ucollect rv (S (length d + length s)) (update_cur rv d s).

(* ---------- UnionIter over inner iterators whose Next may fail ---------- *)
(* an inner iterator over a list fails when its Next leaves entry number fail-1 (fail = 0: never). The error
   surfaces exactly where the Go code returns it: NewUnionIter (first updateCur), dirtyNext / snapshotNext inside
   updateCur, or the Next of the current side. *)
Definition fails_at (f i : nat) : bool := Nat.ltb 0 f && Nat.eqb (S i) f.

Fixpoint update_cur_f (rv : bool) (fd fs : nat) (d : list kv) (di : nat) (s : list kv) (si : nat)
  : option (ucur * nat * nat) :=
  match d with
  | [] => Some (match s with [] => mk_ucur [] [] false false | _ => mk_ucur [] s false true end, di, si)
  | (dk, dv) :: d' =>
      match s with
      | [] =>
          if is_tomb dv then (if fails_at fd di then None else update_cur_f rv fd fs d' (S di) [] si)
          else Some (mk_ucur d [] true true, di, si)
      | (sk, sv) :: s' =>
          match dcmp rv dk sk with
          | Eq =>
              if is_tomb dv then
                if fails_at fd di then None
                else if fails_at fs si then None
                else update_cur_f rv fd fs d' (S di) s' (S si)
              else if fails_at fs si then None
              else Some (mk_ucur d s' true true, di, S si)
          | Gt => Some (mk_ucur d s false true, di, si)
          | Lt =>
              if is_tomb dv then (if fails_at fd di then None else update_cur_f rv fd fs d' (S di) s si)
              else Some (mk_ucur d s true true, di, si)
          end
      end
  end.

(* yielded entries and whether the iteration ended with the inner iterator's error *)
Fixpoint ucollect_f (rv : bool) (fd fs : nat) (fuel : nat) (c : option (ucur * nat * nat)) : list kv * bool :=
  match fuel with
  | O => ([], false)
  | S f =>
      match c with
      | None => ([], true)
      | Some (c, di, si) =>
          if u_valid c then
            match ucur_kv c with
            | Some e =>
                let nxt :=
                  if u_dirty c
                  then (if fails_at fd di then None else update_cur_f rv fd fs (tl (u_d c)) (S di) (u_s c) si)
                  else (if fails_at fs si then None else update_cur_f rv fd fs (u_d c) di (tl (u_s c)) (S si)) in
                let '(l, err) := ucollect_f rv fd fs f nxt in (e :: l, err)
            | None => ([], false)
            end
          else ([], false)
      end
  end.

Definition union_iter_f (rv : bool) (fd fs : nat) (d s : list kv) : list kv * bool :=
  ucollect_f rv fd fs (S (length d + length s)) (update_cur_f rv fd fs d 0 s 0).

(* KVUnionStore.Iter / IterReverse on an ascending buffer content and snapshot content *)
Definition us_iter (buf snap : list kv) (lo hi : key) : list kv :=
  union_iter false (range lo hi buf) (range lo hi snap).
Definition us_iter_rev (buf snap : list kv) (lo hi : key) : list kv :=
  union_iter true (rev (range lo hi buf)) (rev (range lo hi snap)).

(* KVUnionStore.Get: buffer first, snapshot on miss, empty = not exist *)
Definition union_get (snap buf : list kv) (k : key) : option val :=
  let r := match kv_get buf k with
           | Some v => Some v
           | None => kv_get snap k
           end in
  match r with
  | Some v => if is_tomb v then None else Some v
  | None => None
  end.

(* ---------- BufferBatchGetter.BatchGet ---------- *)
Fixpoint key_mem (k : key) (l : list key) : bool :=
  match l with [] => false | k' :: r => bytes_eqb k' k || key_mem k r end.

(* MemBuffer.BatchGet: map {k -> v | k in keys, buffer has k}; sorted assoc list = Go map *)
Fixpoint buf_batch (buf : list kv) (keys : list key) : list kv :=
  match keys with
  | [] => []
  | k :: r => match kv_get buf k with
              | Some v => kv_put k v (buf_batch buf r)
              | None => buf_batch buf r
              end
  end.

(* the loop over keys (after fix e4ede29): a key absent from the buffer's map goes to shrinkKeys;
   tombstoned keys are collected and deleted from the map after the loop *)
Definition shrink_loop (keys : list key) (m : list kv) : list key * list kv :=
  (filter (fun k => match kv_get m k with None => true | Some _ => false end) keys,
   fold_left (fun acc k => match kv_get m k with
                           | Some v => if is_tomb v then kv_del k acc else acc
                           | None => acc
                           end) keys m).

(* the loop as it was before e4ede29 (regression witness only): the tombstone was deleted from the
   map inside the loop, so a second occurrence of the key looked unbuffered *)
Fixpoint shrink_loop_prefix (keys : list key) (m : list kv) : list key * list kv :=
  match keys with
  | [] => ([], m)
  | k :: r =>
      match kv_get m k with
      | None => let '(sk, m') := shrink_loop_prefix r m in (k :: sk, m')
      | Some v => if is_tomb v then shrink_loop_prefix r (kv_del k m) else shrink_loop_prefix r m
      end
  end.

(* snapshot.BatchGet: existing keys only *)
Fixpoint snap_batch (snap : list kv) (keys : list key) : list kv :=
  match keys with
  | [] => []
  | k :: r => match kv_get snap k with
              | Some v => kv_put k v (snap_batch snap r)
              | None => snap_batch snap r
              end
  end.

(* returns (key list handed to the snapshot, result map) *)
Definition buffer_batch_get_gen (loop : list key -> list kv -> list key * list kv)
           (snap buf : list kv) (keys : list key) : list key * list kv :=
  let bv := buf_batch buf keys in
  match bv with
  | [] => (keys, snap_batch snap keys)
  | _ =>
      let '(sk, m) := loop keys bv in
      (sk, fold_left (fun acc e => kv_put (fst e) (snd e) acc) (snap_batch snap sk) m)
  end.
Definition buffer_batch_get := buffer_batch_get_gen shrink_loop.
Definition buffer_batch_get_prefix := buffer_batch_get_gen shrink_loop_prefix.

(* ---------- the buffer: value log (newest first) + staging positions ---------- *)
Record mbuf := mk_mbuf {
  b_log : list kv;
  b_stages : list nat;   (* top first; log lengths *)
  b_cp : nat             (* lastCheckpoint (fix 6b4091a): latest position handed out by Checkpoint or reverted to,
                            lowered by a Cleanup that cuts below it; 0 = none *)
}.
Definition mbuf_empty : mbuf := mk_mbuf [] [] 0.

Inductive op :=
| OSet (k : key) (v : val)
| ODel (k : key)
| OStaging
| ORelease (h : nat)
| OCleanup (h : nat)
| OCheckpoint
| ORevert (n : nat).

(* current buffered value = newest log entry of the key *)
Definition buf_get (st : mbuf) (k : key) : option val := kv_get (b_log st) k.
(* buffer content as the ascending list its iterator yields (tombstones included) *)
Definition buf_map (st : mbuf) : list kv :=
  fold_right (fun e m => kv_put (fst e) (snd e) m) [] (b_log st).

(* art.trySwapValue: the key's newest entry is overwritten in place iff it lies in the current
   stage (one of the `room` newest entries; CanModify), is not a tombstone and has the same length *)
Fixpoint try_swap (l : list kv) (k : key) (v : val) (room : nat) : option (list kv) :=
  match l with
  | [] => None
  | (k', v') :: r =>
      if bytes_eqb k' k then
        match room with
        | O => None
        | S _ => if negb (is_tomb v') && Nat.eqb (length v') (length v) then Some ((k', v) :: r) else None
        end
      else
        match try_swap r k v (pred room) with
        | Some r' => Some ((k', v') :: r')
        | None => None
        end
  end.

(* number of newest entries that may be modified in place: those above the top staging position
   (CanModify(stage)) and above lastCheckpoint (CanModify(lastCheckpoint), fix 6b4091a) *)
Definition room_of (st : mbuf) : nat :=
  length (b_log st) - Nat.max (hd O (b_stages st)) (b_cp st).

(* ip = true: the code as it is; ip = false: a buffer that always appends *)
Definition write (ip : bool) (st : mbuf) (k : key) (v : val) : mbuf :=
  match (if ip then try_swap (b_log st) k v (room_of st) else None) with
  | Some l' => mk_mbuf l' (b_stages st) (b_cp st)
  | None => mk_mbuf ((k, v) :: b_log st) (b_stages st) (b_cp st)
  end.

(* keep the n oldest entries *)
Definition truncate (n : nat) (l : list kv) : list kv := skipn (length l - n) l.

Definition handle_live (st : mbuf) (h : nat) : bool :=
  Nat.eqb h (length (b_stages st)) && Nat.ltb 0 h.

Definition step (ip : bool) (st : mbuf) (o : op) : mbuf :=
  match o with
  | OSet k v => if is_tomb v then st (* ErrCannotSetNilValue *) else write ip st k v
  | ODel k => write ip st k []
  | OStaging => mk_mbuf (b_log st) (length (b_log st) :: b_stages st) (b_cp st)
  | ORelease h => if handle_live st h then mk_mbuf (b_log st) (tl (b_stages st)) (b_cp st) else st
  | OCleanup h =>
      if handle_live st h
      then mk_mbuf (truncate (hd O (b_stages st)) (b_log st)) (tl (b_stages st)) (Nat.min (b_cp st) (hd O (b_stages st)))
      else st
  | OCheckpoint => mk_mbuf (b_log st) (b_stages st) (length (b_log st))
  | ORevert n => mk_mbuf (truncate n (b_log st)) (b_stages st) n
  end.

Definition run (ip : bool) (ops : list op) (st : mbuf) : mbuf := fold_left (step ip) ops st.

(* the buffer as it was before fix 6b4091a (regression witness only): checkpoints did not protect entries *)
Definition step_prefix (st : mbuf) (o : op) : mbuf :=
  match o with
  | OSet k v => if is_tomb v then st else step true (mk_mbuf (b_log st) (b_stages st) O) o
  | ODel k => step true (mk_mbuf (b_log st) (b_stages st) O) o
  | _ => step true st o
  end.
Definition run_prefix (ops : list op) (st : mbuf) : mbuf := fold_left step_prefix ops st.

(* results of the calls that return something / can fail; 0 = ok, 1 = error, 2 = panic *)
Definition op_status (st : mbuf) (o : op) : nat :=
  match o with
  | OSet _ v => if is_tomb v then 1 else 0
  | ORelease h => if Nat.eqb h 0 || Nat.eqb h (length (b_stages st)) then 0 else 2
  | OCleanup h => if Nat.ltb h (length (b_stages st)) && Nat.ltb 0 h then 2 else 0
  | _ => 0
  end%nat.
Definition staging_handle (st : mbuf) : nat := S (length (b_stages st)).
Definition checkpoint_pos (st : mbuf) : nat := length (b_log st).

(* the union store's observables over a snapshot *)
Definition view (snap : list kv) (st : mbuf) : list kv := overlay snap (buf_map st).
Definition m_get (snap : list kv) (st : mbuf) (k : key) : option val := union_get snap (buf_map st) k.
Definition m_iter (snap : list kv) (st : mbuf) (lo hi : key) : list kv := us_iter (buf_map st) snap lo hi.
Definition m_iter_rev (snap : list kv) (st : mbuf) (lo hi : key) : list kv := us_iter_rev (buf_map st) snap lo hi.
Definition m_batch_get (snap : list kv) (st : mbuf) (keys : list key) : list key * list kv :=
  buffer_batch_get snap (buf_map st) keys.
