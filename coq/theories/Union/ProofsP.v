(* Union/ProofsP.v — the batch-get cache of the pipelined buffer never changes an answer:
   get = latest of (mutable buffer, flushing buffer, flushed store). *)
From Verif Require Import Base.Lex Union.Model Union.ModelP Union.ProofsMap Union.ProofsBuf.

(* what lies below the mutable buffer *)
Definition below (st : pbuf) (k : key) : option val :=
  match p_flushing st with
  | Some l => match kv_get l k with Some v => Some v | None => kv_get (p_store st) k end
  | None => kv_get (p_store st) k
  end.

Definition pinv (st : pbuf) : Prop :=
  (forall c k e, p_cache st = Some c -> cache_get c k = Some e ->
                 buf_get (p_mem st) k <> None \/ below st k = e) /\
  (p_done st = true -> forall l k v, p_flushing st = Some l -> kv_get l k = Some v -> kv_get (p_store st) k = Some v).

Lemma kv_get_flush_into store log k :
  kv_get (flush_into store log) k = match kv_get log k with Some v => Some v | None => kv_get store k end.
Proof.
  unfold flush_into. induction log as [|[k0 v0] l IH]; cbn [fold_right kv_get fst snd]; [reflexivity|].
  rewrite kv_get_put, IH. destruct (bytes_eqb k0 k); reflexivity.
Qed.

Lemma p_lookup_below st k :
  p_lookup st k = match buf_get (p_mem st) k with Some v => Some v | None => below st k end.
Proof.
  unfold p_lookup, p_local, below. destruct (buf_get (p_mem st) k); [reflexivity|].
  destruct (p_flushing st) as [l|]; [destruct (kv_get l k)|]; reflexivity.
Qed.

Lemma p_get_spec st k : pinv st -> p_get st k = p_lookup st k.
Proof.
  intros [J _]. unfold p_get. rewrite p_lookup_below. unfold p_local.
  destruct (buf_get (p_mem st) k) as [v|] eqn:G; [reflexivity|].
  unfold below. destruct (p_flushing st) as [l|] eqn:F.
  - destruct (kv_get l k) as [v|] eqn:L; [reflexivity|].
    destruct (p_cache st) as [c|] eqn:C; [|reflexivity].
    destruct (cache_get c k) as [e|] eqn:E; [|reflexivity].
    destruct (J c k e eq_refl E) as [H|H]; [congruence|].
    unfold below in H. rewrite F, L in H. symmetry; exact H.
  - destruct (p_cache st) as [c|] eqn:C; [|reflexivity].
    destruct (cache_get c k) as [e|] eqn:E; [|reflexivity].
    destruct (J c k e eq_refl E) as [H|H]; [congruence|].
    unfold below in H. rewrite F in H. symmetry; exact H.
Qed.

Lemma complete_below st k : below (p_complete st) k = below st k.
Proof.
  unfold p_complete, below. destruct (p_flushing st) as [l|] eqn:F; [|rewrite F; reflexivity].
  destruct (p_done st); cbn [p_flushing p_store]; rewrite ?F; [reflexivity|].
  rewrite kv_get_flush_into. destruct (kv_get l k); reflexivity.
Qed.

Lemma complete_fields st :
  p_mem (p_complete st) = p_mem st /\ p_cache (p_complete st) = p_cache st /\ p_flushing (p_complete st) = p_flushing st.
Proof.
  unfold p_complete. destruct (p_flushing st) eqn:F; [destruct (p_done st)|]; cbn [p_mem p_cache p_flushing];
    rewrite ?F; repeat split; reflexivity.
Qed.

Lemma complete_pinv st : pinv st -> pinv (p_complete st) /\ (forall l, p_flushing st = Some l -> p_done (p_complete st) = true).
Proof.
  intros [J K]. destruct (complete_fields st) as (Em & Ec & Ef). split; [split|].
  - intros c k e Hc He. rewrite Em, complete_below. rewrite Ec in Hc. exact (J c k e Hc He).
  - unfold p_complete. destruct (p_flushing st) as [l|] eqn:F; [|rewrite F; intros _ l k v H; discriminate].
    destruct (p_done st) eqn:D; [rewrite F, D; exact (fun _ => K eq_refl)|].
    cbn [p_done p_flushing p_store]. intros _ l' k v [= <-] H. rewrite kv_get_flush_into, H. reflexivity.
  - intros l F. unfold p_complete. rewrite F. destruct (p_done st) eqn:D; [exact D|reflexivity].
Qed.

Lemma wait_below st k : pinv st -> kv_get (p_store (p_complete st)) k = below st k.
Proof.
  intros H. destruct (complete_pinv st H) as [[J1 K1] D1].
  rewrite <- complete_below. unfold below.
  destruct (p_flushing (p_complete st)) as [l|] eqn:F; [|reflexivity].
  destruct (kv_get l k) as [v|] eqn:G; [|reflexivity].
  assert (F0 : p_flushing st = Some l) by (rewrite <- (proj2 (proj2 (complete_fields st))); exact F).
  exact (K1 (D1 l F0) l k v eq_refl G).
Qed.

Lemma buf_get_step_some o m k : non_undo o = true -> buf_get m k <> None -> buf_get (step true m o) k <> None.
Proof.
  intros Hn H. rewrite (buf_get_step true m o k Hn).
  destruct o as [k' v|k'| |h|h| |n]; cbn [last_write]; try exact H.
  - destruct (bytes_eqb k' k && negb (is_tomb v)); [discriminate|exact H].
  - destruct (bytes_eqb k' k); [discriminate|exact H].
Qed.

Lemma pinv_on_mem st m' :
  pinv st -> (forall k, buf_get (p_mem st) k <> None -> buf_get m' k <> None) ->
  pinv (mk_pbuf m' (p_flushing st) (p_done st) (p_store st) (p_cache st)).
Proof.
  intros [J K] Hm. split; [|exact K].
  intros c k e Hc He. cbn [p_cache p_mem] in *. destruct (J c k e Hc He) as [H|H]; [left; apply Hm; exact H|right; exact H].
Qed.

Lemma pinv_no_cache m f d s : (d = true -> forall l k v, f = Some l -> kv_get l k = Some v -> kv_get s k = Some v) ->
  pinv (mk_pbuf m f d s None).
Proof. intros K. split; [intros c k e H; discriminate|exact K]. Qed.

Lemma batch_loop_cache st keys : forall c k e,
  cache_get (snd (p_batch_loop st keys c)) k = Some e ->
  cache_get c k = Some e \/ e = (match p_local st k with Some v => Some v | None => kv_get (p_store st) k end).
Proof.
  induction keys as [|k0 r IH]; intros c k e H; cbn [p_batch_loop snd] in H; [left; exact H|].
  destruct (p_batch_loop st r _) as [m c'] eqn:L. cbn [snd] in H.
  assert (H' : cache_get (snd (p_batch_loop st r
             ((k0, match p_local st k0 with Some v => Some v | None => kv_get (p_store st) k0 end) :: c))) k = Some e)
    by (rewrite L; exact H).
  destruct (IH _ k e H') as [H1|H1]; [|right; exact H1].
  cbn [cache_get] in H1. destruct (bytes_eqb k0 k) eqn:E; [|left; exact H1].
  apply bytes_eqb_eq in E; subst k0. right. congruence.
Qed.

Lemma pinv_batch st keys : pinv st -> pinv (snd (p_batch_get st keys)).
Proof.
  intros [J K]. unfold p_batch_get.
  destruct (p_batch_loop st keys _) as [m c] eqn:L. cbn [snd]. split; [|exact K].
  intros c' k e [= <-] He. cbn [p_mem].
  assert (He' : cache_get (snd (p_batch_loop st keys match p_cache st with Some c => c | None => [] end)) k = Some e)
    by (rewrite L; exact He).
  destruct (batch_loop_cache st keys _ k e He') as [H|H].
  - destruct (p_cache st) as [c0|] eqn:C; [|discriminate]. exact (J c0 k e eq_refl H).
  - destruct (buf_get (p_mem st) k) as [v|] eqn:G; [left; discriminate|right].
    subst e. unfold p_local, below. cbn [p_flushing p_store]. rewrite G.
    destruct (p_flushing st) as [l|]; [destruct (kv_get l k)|]; reflexivity.
Qed.

Lemma pinv_step st o : pinv st -> pinv (fst (pstep st o)).
Proof.
  intros H. pose proof H as [J K].
  destruct o as [k v|k| |h|h|keys| | |]; cbn [pstep fst].
  - apply pinv_on_mem; [exact H|]. intros k0. apply buf_get_step_some. reflexivity.
  - apply pinv_on_mem; [exact H|]. intros k0. apply buf_get_step_some. reflexivity.
  - apply pinv_on_mem; [exact H|]. intros k0. apply buf_get_step_some. reflexivity.
  - apply pinv_on_mem; [exact H|]. intros k0. apply buf_get_step_some. reflexivity.
  - apply pinv_no_cache. exact K.
  - apply pinv_batch. exact H.
  - destruct (b_stages (p_mem st)); [|apply pinv_no_cache; exact K].
    apply pinv_no_cache. discriminate.
  - apply complete_pinv. exact H.
  - destruct (complete_pinv st H) as [[J1 K1] D1]. destruct (complete_fields st) as (Em & Ec & Ef).
    split; [|intros _ l k v F; discriminate]. cbn [p_cache p_mem].
    intros c k e Hc He. destruct (J1 c k e Hc He) as [H1|H1]; [left; exact H1|right].
    rewrite <- H1, complete_below. unfold below at 1. cbn [p_flushing p_store]. apply wait_below. exact H.
Qed.

Lemma pinv_run ops : forall st, pinv st -> pinv (prun ops st).
Proof.
  unfold prun. induction ops as [|o ops IH]; intros st H; cbn [fold_left]; [exact H|].
  apply IH. apply pinv_step. exact H.
Qed.

Lemma pinv_empty store : pinv (pbuf_empty store).
Proof. apply pinv_no_cache. intros _ l k v H; discriminate. Qed.

(* the view is not changed by flush operations and by batch gets *)
Lemma p_lookup_flush_ops st o k : pinv st ->
  match o with PFlushDone | PFlushWait | PBatchGet _ => True | _ => False end ->
  p_lookup (fst (pstep st o)) k = p_lookup st k.
Proof.
  intros H Ho. rewrite !p_lookup_below.
  destruct o as [k0 v|k0| |h|h|keys| | |]; try contradiction; cbn [pstep fst].
  - unfold p_batch_get. destruct (p_batch_loop st keys _) as [m c]. cbn [snd p_mem]. unfold below. reflexivity.
  - destruct (complete_fields st) as (Em & _ & _). rewrite Em, complete_below. reflexivity.
  - destruct (complete_fields st) as (Em & Ec & Ef).
    cbn [p_mem]. rewrite Em. destruct (buf_get (p_mem st) k); [reflexivity|].
    unfold below at 1. cbn [p_flushing p_store]. apply wait_below. exact H.
Qed.

(* Flush(true) with no staging level: the mutable content moves to the flushing buffer, nothing is lost *)
Lemma p_lookup_flush st k : pinv st -> b_stages (p_mem st) = [] ->
  p_lookup (fst (pstep st PFlush)) k = p_lookup st k.
Proof.
  intros H Hs. cbn [pstep]. rewrite Hs. cbn [fst]. rewrite !p_lookup_below.
  destruct (complete_fields st) as (Em & Ec & Ef).
  cbn [p_mem]. unfold buf_get at 1. cbn [mbuf_empty b_log kv_get].
  unfold below at 1. cbn [p_flushing p_store]. rewrite Em. fold (buf_get (p_mem st) k).
  destruct (buf_get (p_mem st) k) as [v|]; [reflexivity|]. apply wait_below. exact H.
Qed.

(* ---------- batch get ---------- *)
Lemma batch_loop_map st keys : forall c k,
  kv_get (fst (p_batch_loop st keys c)) k = if key_mem k keys then p_lookup st k else None.
Proof.
  induction keys as [|k0 r IH]; intros c k; cbn [p_batch_loop key_mem fst]; [reflexivity|].
  specialize (IH ((k0, match p_local st k0 with Some v => Some v | None => kv_get (p_store st) k0 end) :: c) k).
  destruct (p_batch_loop st r _) as [m c'] eqn:L. cbn [fst] in IH |- *.
  change (match p_local st k0 with Some v => Some v | None => kv_get (p_store st) k0 end) with (p_lookup st k0).
  destruct (bytes_eqb k0 k) eqn:E; cbn [orb].
  - apply bytes_eqb_eq in E; subst k0. destruct (p_lookup st k) as [v|] eqn:P.
    + cbn [kv_get]. rewrite eqb_refl. reflexivity.
    + rewrite IH. destruct (key_mem k r); reflexivity.
  - destruct (p_lookup st k0); [cbn [kv_get]; rewrite E|]; exact IH.
Qed.

Lemma p_batch_get_map st keys k :
  kv_get (fst (p_batch_get st keys)) k = if key_mem k keys then p_lookup st k else None.
Proof.
  unfold p_batch_get.
  pose proof (batch_loop_map st keys (match p_cache st with Some c => c | None => [] end) k) as H.
  destruct (p_batch_loop st keys _) as [m c]. exact H.
Qed.

Lemma flush_status st : snd (pstep st PFlush) = 1%nat <-> b_stages (p_mem st) <> [].
Proof. cbn [pstep]. destruct (b_stages (p_mem st)); cbn [snd]; split; intros; try discriminate; try reflexivity; congruence. Qed.
