(* Union/ProofsBuf.v — the buffer (value log + staging positions): content, latest write wins,
   savepoints (staging/cleanup/release, checkpoint/revert). *)
From Verif Require Import Base.Lex Union.Model Union.ProofsMap.
From Coq Require Import Sorted.

Notation sorted := (dsorted false).

(* ---------- content ---------- *)
Lemma sorted_buf_map st : sorted (buf_map st).
Proof.
  unfold buf_map. induction (b_log st) as [|e l IH]; cbn [fold_right]; [constructor|apply sorted_put; exact IH].
Qed.

Lemma kv_get_buf_map st k : kv_get (buf_map st) k = buf_get st k.
Proof.
  unfold buf_map, buf_get. induction (b_log st) as [|[k0 v0] l IH]; cbn [fold_right kv_get fst snd]; [reflexivity|].
  rewrite kv_get_put, IH. reflexivity.
Qed.

Lemma m_get_buf_get snap st k :
  m_get snap st k =
    match (match buf_get st k with Some v => Some v | None => kv_get snap k end) with
    | Some v => if is_tomb v then None else Some v
    | None => None
    end.
Proof. unfold m_get, union_get. rewrite kv_get_buf_map. reflexivity. Qed.

(* ---------- in-place overwrite ---------- *)
Lemma try_swap_zero l k v : try_swap l k v 0 = None.
Proof.
  induction l as [|[k' v'] l IH]; cbn [try_swap]; [reflexivity|].
  destruct (bytes_eqb k' k); [reflexivity|]. cbn [pred]. rewrite IH. reflexivity.
Qed.

Lemma try_swap_get l : forall k v room l' k2, try_swap l k v room = Some l' ->
  kv_get l' k2 = if bytes_eqb k k2 then Some v else kv_get l k2.
Proof.
  induction l as [|[k' v'] l IH]; intros k v room l' k2 H; cbn [try_swap] in H; [discriminate|].
  destruct (bytes_eqb k' k) eqn:E.
  - destruct room; [discriminate|].
    destruct (negb (is_tomb v') && Nat.eqb (length v') (length v)); [|discriminate].
    injection H as <-. apply bytes_eqb_eq in E; subst k'. cbn [kv_get]. destruct (bytes_eqb k k2); reflexivity.
  - destruct (try_swap l k v (pred room)) eqn:T; [|discriminate]. injection H as <-. cbn [kv_get].
    rewrite (IH _ _ _ _ k2 T). destruct (bytes_eqb k' k2) eqn:E2; [|reflexivity].
    apply bytes_eqb_eq in E2; subst k2. rewrite eqb_sym, E. reflexivity.
Qed.

Lemma try_swap_prefix x : forall y k v room l', (room <= length x)%nat ->
  try_swap (x ++ y) k v room = Some l' -> exists x', l' = x' ++ y /\ length x' = length x.
Proof.
  induction x as [|[k' v'] x IH]; intros y k v room l' Hr H.
  - cbn in Hr. assert (room = 0)%nat by lia; subst. rewrite try_swap_zero in H. discriminate.
  - cbn [app try_swap] in H. destruct (bytes_eqb k' k).
    + destruct room; [discriminate|].
      destruct (negb (is_tomb v') && Nat.eqb (length v') (length v)); [|discriminate].
      injection H as <-. exists ((k', v) :: x). split; reflexivity.
    + destruct (try_swap (x ++ y) k v (pred room)) eqn:T; [|discriminate]. injection H as <-.
      apply IH in T; [|cbn in Hr; lia]. destruct T as (x' & -> & L).
      exists ((k', v') :: x'). split; [reflexivity|cbn; lia].
Qed.

Lemma buf_get_write ip st k v k2 :
  buf_get (write ip st k v) k2 = if bytes_eqb k k2 then Some v else buf_get st k2.
Proof.
  unfold write, buf_get.
  destruct (if ip then try_swap (b_log st) k v (room_of st) else None) eqn:T; cbn [b_log].
  - destruct ip; [|discriminate]. eapply try_swap_get; eassumption.
  - reflexivity.
Qed.

(* ---------- latest write wins ---------- *)
Definition non_undo (o : op) : bool :=
  match o with OCleanup _ | ORevert _ => false | _ => true end.

(* effect of one operation on the buffered value of key k *)
Definition last_write (k : key) (acc : option val) (o : op) : option val :=
  match o with
  | OSet k' v => if bytes_eqb k' k && negb (is_tomb v) then Some v else acc
  | ODel k' => if bytes_eqb k' k then Some [] else acc
  | _ => acc
  end.

Lemma buf_get_step ip st o k : non_undo o = true -> buf_get (step ip st o) k = last_write k (buf_get st k) o.
Proof.
  destruct o as [k' v|k'| |h|h| |n]; cbn [non_undo step last_write]; intros H; try discriminate; try reflexivity.
  - destruct (is_tomb v); cbn [negb]; [rewrite Bool.andb_false_r; reflexivity|].
    rewrite buf_get_write, Bool.andb_true_r. reflexivity.
  - rewrite buf_get_write. reflexivity.
  - destruct (handle_live st h); reflexivity.
Qed.

Lemma latest_write ip ws : forall st k, forallb non_undo ws = true ->
  buf_get (run ip ws st) k = fold_left (last_write k) ws (buf_get st k).
Proof.
  unfold run. induction ws as [|o ws IH]; intros st k H; cbn [fold_left]; [reflexivity|].
  cbn [forallb] in H. apply Bool.andb_true_iff in H. destruct H as [Ho Hws].
  rewrite (IH _ k Hws), (buf_get_step ip st o k Ho). reflexivity.
Qed.

(* ---------- observables depend on the log only ---------- *)
Definition obs_eq (a b : mbuf) : Prop :=
  forall snap,
    view snap a = view snap b /\
    (forall k, m_get snap a k = m_get snap b k) /\
    (forall lo hi, m_iter snap a lo hi = m_iter snap b lo hi) /\
    (forall lo hi, m_iter_rev snap a lo hi = m_iter_rev snap b lo hi) /\
    (forall keys, m_batch_get snap a keys = m_batch_get snap b keys).

Lemma obs_eq_of_log a b : b_log a = b_log b -> obs_eq a b.
Proof.
  intros H snap. unfold view, m_get, m_iter, m_iter_rev, m_batch_get, buf_map. rewrite H.
  repeat split; reflexivity.
Qed.

(* ---------- savepoints ---------- *)
Definition scoped_op (hb p : nat) (o : op) : Prop :=
  match o with
  | ORelease h | OCleanup h => h = O \/ (hb < h)%nat
  | ORevert n => (p <= n)%nat
  | _ => True
  end.

(* the log below log0 and the staging levels `base` are untouched; levels opened later lie above *)
Definition inv (log0 : list kv) (base : list nat) (st : mbuf) : Prop :=
  exists x extra, b_log st = x ++ log0 /\ b_stages st = extra ++ base /\
                  Forall (fun q => (length log0 <= q)%nat) extra.

Lemma truncate_app x y n : (length y <= n)%nat -> exists x', truncate n (x ++ y) = x' ++ y.
Proof.
  intros H. unfold truncate. rewrite skipn_app, app_length.
  replace (length x + length y - n - length x)%nat with O by lia. cbn [skipn].
  eexists; reflexivity.
Qed.

Lemma truncate_exact x y : truncate (length y) (x ++ y) = y.
Proof.
  unfold truncate. rewrite skipn_app, app_length.
  replace (length x + length y - length y)%nat with (length x) by lia.
  rewrite skipn_all, Nat.sub_diag. reflexivity.
Qed.

(* in-place overwrites cannot reach log0: the buffer never overwrites in place, or log0 ends at a staging
   position of `base`, or lastCheckpoint lies at or above the end of log0 *)
Definition prot (ip : bool) (log0 : list kv) (base : list nat) (st : mbuf) : Prop :=
  ip = false \/ (exists rest, base = length log0 :: rest) \/ (length log0 <= b_cp st)%nat.
Definition invp ip log0 base st : Prop := inv log0 base st /\ prot ip log0 base st.

Lemma inv_write ip log0 base st k v :
  invp ip log0 base st -> invp ip log0 base (write ip st k v).
Proof.
  intros [(x & extra & Hl & Hs & Hf) Hc].
  assert (Hp : prot ip log0 base (write ip st k v)).
  { unfold write. destruct (if ip then try_swap _ _ _ _ else None); exact Hc. }
  split; [|exact Hp]. unfold write.
  destruct (if ip then try_swap (b_log st) k v (room_of st) else None) as [l'|] eqn:T.
  - destruct ip; [|discriminate].
    assert (Hroom : (room_of st <= length x)%nat).
    { unfold room_of. rewrite Hl, app_length.
      destruct Hc as [Hc|[(rest & ->)|Hc]]; [discriminate| |lia].
      rewrite Hs. destruct extra as [|q e]; cbn [app hd]; [lia|]. inversion Hf; subst. lia. }
    rewrite Hl in T. destruct (try_swap_prefix x log0 k v _ l' Hroom T) as (x' & -> & _).
    exists x', extra. cbn [b_log b_stages]. repeat split; assumption.
  - exists ((k, v) :: x), extra. cbn [b_log b_stages]. rewrite Hl. repeat split; assumption.
Qed.

Lemma live_extra st h extra base : b_stages st = extra ++ base -> handle_live st h = true ->
  (h = O \/ (length base < h)%nat) -> exists q e, extra = q :: e.
Proof.
  intros Hs Hl Hh. unfold handle_live in Hl. apply Bool.andb_true_iff in Hl. destruct Hl as [H1 H2].
  apply Nat.eqb_eq in H1. apply Nat.ltb_lt in H2. rewrite Hs, app_length in H1.
  destruct extra as [|q e]; [cbn in H1; lia|eauto].
Qed.

Lemma prot_mono ip log0 base st st' : prot ip log0 base st ->
  ((length log0 <= b_cp st)%nat -> (length log0 <= b_cp st')%nat) -> prot ip log0 base st'.
Proof. intros [H|[H|H]] Hm; [left; exact H|right; left; exact H|right; right; apply Hm; exact H]. Qed.

Lemma inv_step ip log0 base st o :
  invp ip log0 base st -> scoped_op (length base) (length log0) o -> invp ip log0 base (step ip st o).
Proof.
  intros Hip Ho. pose proof Hip as [Hi Hc].
  destruct o as [k v|k| |h|h| |n]; cbn [step scoped_op] in *.
  - destruct (is_tomb v); [exact Hip|apply inv_write; assumption].
  - apply inv_write; assumption.
  - destruct Hi as (x & extra & Hl & Hs & Hf). split; [|eapply prot_mono; [exact Hc|intros H; exact H]].
    exists x, (length (b_log st) :: extra). cbn [b_log b_stages]. rewrite Hs. repeat split; try assumption.
    constructor; [rewrite Hl, app_length; lia|assumption].
  - destruct (handle_live st h) eqn:L; [|exact Hip].
    destruct Hi as (x & extra & Hl & Hs & Hf).
    destruct (live_extra st h extra base Hs L Ho) as (q & e & ->).
    split; [|eapply prot_mono; [exact Hc|intros H; exact H]].
    exists x, e. cbn [b_log b_stages]. rewrite Hs. cbn [app tl]. inversion Hf; subst. repeat split; assumption.
  - destruct (handle_live st h) eqn:L; [|exact Hip].
    destruct Hi as (x & extra & Hl & Hs & Hf).
    destruct (live_extra st h extra base Hs L Ho) as (q & e & ->).
    inversion Hf; subst. rewrite Hs, Hl. cbn [app hd tl].
    split; [|eapply prot_mono; [exact Hc|cbn [b_cp]; lia]].
    destruct (truncate_app x log0 q H1) as (x' & Hx).
    exists x', e. cbn [b_log b_stages]. repeat split; assumption.
  - destruct Hi as (x & extra & Hl & Hs & Hf).
    split; [|eapply prot_mono; [exact Hc|cbn [b_cp]; rewrite Hl, app_length; lia]].
    exists x, extra. cbn [b_log b_stages]. repeat split; assumption.
  - destruct Hi as (x & extra & Hl & Hs & Hf). rewrite Hl.
    split; [|eapply prot_mono; [exact Hc|cbn [b_cp]; lia]].
    destruct (truncate_app x log0 n Ho) as (x' & Hx).
    exists x', extra. cbn [b_log b_stages]. repeat split; assumption.
Qed.

Lemma inv_run ip log0 base ops : forall st,
  invp ip log0 base st -> Forall (scoped_op (length base) (length log0)) ops -> invp ip log0 base (run ip ops st).
Proof.
  unfold run. induction ops as [|o ops IH]; intros st Hi Ho; cbn [fold_left]; [exact Hi|].
  inversion Ho; subst. apply IH; try assumption. apply inv_step; assumption.
Qed.

Lemma invp_staging ip st :
  invp ip (b_log st) (length (b_log st) :: b_stages st) (step ip st OStaging).
Proof.
  split; [exists [], []; cbn; repeat split; constructor|right; left; eauto].
Qed.

Lemma live_no_extra (st1 : mbuf) h extra base : b_stages st1 = extra ++ base ->
  handle_live st1 h = true -> h = length base -> extra = [].
Proof.
  intros HS Hl Hh. unfold handle_live in Hl. apply Bool.andb_true_iff in Hl. destruct Hl as [H1 _].
  apply Nat.eqb_eq in H1. rewrite HS, app_length in H1. destruct extra; [reflexivity|cbn in H1; lia].
Qed.

(* Staging h; any scoped ops; Cleanup h (legal: h is the live handle): value log and staging stack are those
   before Staging (lastCheckpoint may have been raised to the cut: it only forbids later in-place overwrites) *)
Lemma cleanup_restores ip st ops :
  let st1 := step ip st OStaging in
  let h := length (b_stages st1) in
  Forall (scoped_op h (length (b_log st))) ops ->
  handle_live (run ip ops st1) h = true ->
  b_log (step ip (run ip ops st1) (OCleanup h)) = b_log st /\
  b_stages (step ip (run ip ops st1) (OCleanup h)) = b_stages st.
Proof.
  intros st1 h Ho Hl.
  pose proof (inv_run ip _ _ ops st1 (invp_staging ip st) Ho) as [(x & extra & HL & HS & HF) _].
  assert (extra = []) by (eapply live_no_extra; [exact HS|exact Hl|reflexivity]).
  subst extra. cbn [app] in HS. cbn [step]. rewrite Hl, HS, HL. cbn [hd tl b_log b_stages].
  rewrite truncate_exact. split; reflexivity.
Qed.

(* ... Release h instead: the level's writes stay, the staging stack is the one before Staging *)
Lemma release_log ip st h : b_log (step ip st (ORelease h)) = b_log st.
Proof. cbn [step]. destruct (handle_live st h); reflexivity. Qed.

Lemma release_keeps ip st ops :
  let st1 := step ip st OStaging in
  let h := length (b_stages st1) in
  Forall (scoped_op h (length (b_log st))) ops ->
  handle_live (run ip ops st1) h = true ->
  b_log (step ip (run ip ops st1) (ORelease h)) = b_log (run ip ops st1) /\
  b_stages (step ip (run ip ops st1) (ORelease h)) = b_stages st.
Proof.
  intros st1 h Ho Hl. split; [apply release_log|].
  pose proof (inv_run ip _ _ ops st1 (invp_staging ip st) Ho) as [(x & extra & HL & HS & HF) _].
  assert (extra = []) by (eapply live_no_extra; [exact HS|exact Hl|reflexivity]).
  subst extra. cbn [app] in HS. cbn [step]. rewrite Hl, HS. reflexivity.
Qed.

(* cp := Checkpoint(); any scoped ops; RevertToCheckpoint(cp): the value log is the one at the checkpoint —
   for the code as it is (since fix 6b4091a the checkpoint protects the entries below it) *)
Lemma revert_restores ip st ops :
  let st1 := step ip st OCheckpoint in
  Forall (scoped_op (length (b_stages st)) (checkpoint_pos st)) ops ->
  b_log (step ip (run ip ops st1) (ORevert (checkpoint_pos st))) = b_log st.
Proof.
  intros st1 Ho. unfold checkpoint_pos in *.
  assert (Hi : invp ip (b_log st) (b_stages st) st1).
  { split; [exists [], []; repeat split; constructor|right; right; cbn; lia]. }
  pose proof (inv_run ip _ _ ops st1 Hi Ho) as [(x & extra & HL & HS & HF) _].
  cbn [step b_log]. rewrite HL. apply truncate_exact.
Qed.

(* ---------- handles ---------- *)
Lemma handles_spec ip st h :
  staging_handle st = length (b_stages (step ip st OStaging)) /\
  handle_live (step ip st OStaging) (staging_handle st) = true /\
  (handle_live st h = true <-> (h = length (b_stages st) /\ (0 < h)%nat)) /\
  (handle_live st h = false -> step ip st (ORelease h) = st /\ step ip st (OCleanup h) = st) /\
  (op_status st (ORelease h) = 2%nat <-> (h <> O /\ h <> length (b_stages st))) /\
  (op_status st (OCleanup h) = 2%nat <-> ((0 < h)%nat /\ (h < length (b_stages st))%nat)).
Proof.
  unfold staging_handle, op_status. cbn [step]. unfold handle_live. cbn [b_stages length].
  split; [reflexivity|]. split; [rewrite Nat.eqb_refl; reflexivity|].
  split; [rewrite Bool.andb_true_iff, Nat.eqb_eq, Nat.ltb_lt; reflexivity|].
  split; [intros H; rewrite H; split; reflexivity|]. split.
  - destruct (Nat.eqb_spec h 0); destruct (Nat.eqb_spec h (length (b_stages st))); cbn [orb];
      split; intros; try discriminate; try reflexivity; try lia; try (split; assumption).
  - destruct (Nat.ltb_spec h (length (b_stages st))); destruct (Nat.ltb_spec 0 h); cbn [andb];
      split; intros; try discriminate; try reflexivity; try lia; try (split; assumption).
Qed.
