(* Union/ProofsSize.v — the Size counter of the buffer equals, in every reachable state, the sum over the
   existing keys of key length + length of the current value. *)
From Verif Require Import Base.Lex Union.Model Union.ModelX Union.ProofsMap Union.ProofsBuf Union.ProofsX.
From Coq Require Import Sorted ZifyN ZifyNat.

Notation sorted := (dsorted false).

Definition vlen (log : list kv) (k : key) : N := match kv_get log k with Some v => len_n v | None => 0 end.
Definition gsz (log : list kv) (k : key) : N := len_n k + vlen log k.
Definition sum_over (kf : list kv) (g : key -> N) : N := fold_right (fun e acc => g (fst e) + acc) 0 kf.
(* what Size counts: every existing key (value, tombstone or flags only) with its key length, plus the length of
   its CURRENT value (0 for a tombstone and for a flags-only key); overwritten versions still in the log do not count *)
Definition csize (st : xbuf) : N := sum_over (x_kf st) (gsz (b_log (x_b st))).

Lemma sum_cons e l g : sum_over (e :: l) g = g (fst e) + sum_over l g.
Proof. reflexivity. Qed.
Lemma sum_nil g : sum_over [] g = 0.
Proof. reflexivity. Qed.

Lemma sum_ext kf g g' : (forall k, kv_get kf k <> None -> g k = g' k) -> sum_over kf g = sum_over kf g'.
Proof.
  induction kf as [|[k0 v0] l IH]; intros H; [reflexivity|]. rewrite !sum_cons; cbn [fst]. rewrite IH.
  - rewrite (H k0); [reflexivity|]. cbn [kv_get]. rewrite eqb_refl. discriminate.
  - intros k Hk. apply H. cbn [kv_get]. destruct (bytes_eqb k0 k); [discriminate|exact Hk].
Qed.

Lemma sum_ge kf g k : kv_get kf k <> None -> g k <= sum_over kf g.
Proof.
  induction kf as [|[k0 v0] l IH]; intros H; [cbn in H; congruence|].
  rewrite sum_cons; cbn [fst]. cbn [kv_get] in H. destruct (bytes_eqb k0 k) eqn:E.
  - apply bytes_eqb_eq in E; subst k0. lia.
  - specialize (IH H). lia.
Qed.

Lemma sum_update kf g g' k : sorted kf -> kv_get kf k <> None ->
  (forall k', k' <> k -> g k' = g' k') -> sum_over kf g' + g k = sum_over kf g + g' k.
Proof.
  induction kf as [|[k0 v0] l IH]; intros Hs Hk Hg; [cbn in Hk; congruence|].
  apply dsorted_inv in Hs. destruct Hs as [Hs Ha]. cbn in Ha.
  rewrite !sum_cons; cbn [fst].
  destruct (eqb_dec k0 k) as [->|Hne].
  - rewrite (sum_ext l g' g); [lia|].
    intros k' Hk'. symmetry. apply Hg. intros ->. rewrite (above_get_none false k l Ha) in Hk'. congruence.
  - cbn [kv_get] in Hk. rewrite (eqb_neq _ _ Hne) in Hk. specialize (IH Hs Hk Hg).
    rewrite (Hg k0 Hne). lia.
Qed.

Lemma sum_put_old k v kf g : sorted kf -> kv_get kf k <> None -> sum_over (kv_put k v kf) g = sum_over kf g.
Proof.
  induction kf as [|[k0 v0] l IH]; intros Hs Hk; [cbn in Hk; congruence|].
  apply dsorted_inv in Hs. destruct Hs as [Hs Ha]. cbn in Ha. cbn [kv_put].
  destruct (lex_cmp k k0) eqn:C.
  - apply lex_cmp_eq in C; subst k0. reflexivity.
  - exfalso. apply Hk. cbn [kv_get]. rewrite eqb_neq by (intros ->; rewrite lex_cmp_refl in C; discriminate).
    exact (above_get_none_lt false k k0 l C Ha).
  - rewrite !sum_cons; cbn [fst]. rewrite IH; [reflexivity|exact Hs|].
    cbn [kv_get] in Hk. rewrite eqb_neq in Hk by (intros ->; rewrite lex_cmp_refl in C; discriminate). exact Hk.
Qed.

Lemma sum_put_new k v kf g : sorted kf -> kv_get kf k = None -> sum_over (kv_put k v kf) g = sum_over kf g + g k.
Proof.
  induction kf as [|[k0 v0] l IH]; intros Hs Hk; [cbn [kv_put]; rewrite sum_cons, sum_nil; cbn [fst]; lia|].
  apply dsorted_inv in Hs. destruct Hs as [Hs Ha]. cbn [kv_put].
  cbn [kv_get] in Hk. destruct (bytes_eqb k0 k) eqn:E; [discriminate|].
  destruct (lex_cmp k k0) eqn:C.
  - apply lex_cmp_eq in C; subst k0. rewrite eqb_refl in E. discriminate.
  - rewrite !sum_cons; cbn [fst]. lia.
  - rewrite !sum_cons; cbn [fst]. rewrite (IH Hs Hk). lia.
Qed.

Lemma sum_del k kf g : sorted kf -> kv_get kf k <> None -> sum_over (kv_del k kf) g + g k = sum_over kf g.
Proof.
  induction kf as [|[k0 v0] l IH]; intros Hs Hk; [cbn in Hk; congruence|].
  apply dsorted_inv in Hs. destruct Hs as [Hs Ha]. cbn in Ha. cbn [kv_del].
  destruct (lex_cmp k k0) eqn:C.
  - apply lex_cmp_eq in C; subst k0. rewrite sum_cons; cbn [fst]. lia.
  - exfalso. apply Hk. cbn [kv_get]. rewrite eqb_neq by (intros ->; rewrite lex_cmp_refl in C; discriminate).
    exact (above_get_none_lt false k k0 l C Ha).
  - rewrite !sum_cons; cbn [fst].
    cbn [kv_get] in Hk. rewrite eqb_neq in Hk by (intros ->; rewrite lex_cmp_refl in C; discriminate).
    specialize (IH Hs Hk). lia.
Qed.

(* in-place overwrite happens only over a value of the same length *)
Lemma try_swap_len l : forall k v room l', try_swap l k v room = Some l' ->
  length l' = length l /\ exists o, kv_get l k = Some o /\ length o = length v.
Proof.
  induction l as [|[k' v'] l IH]; intros k v room l' H; cbn [try_swap] in H; [discriminate|].
  destruct (bytes_eqb k' k) eqn:E.
  - destruct room; [discriminate|].
    destruct (negb (is_tomb v') && Nat.eqb (length v') (length v)) eqn:B; [|discriminate].
    injection H as <-. split; [reflexivity|]. exists v'. cbn [kv_get]. rewrite E. split; [reflexivity|].
    apply Bool.andb_true_iff in B. destruct B as [_ B]. apply Nat.eqb_eq in B. exact B.
  - destruct (try_swap l k v (pred room)) eqn:T; [|discriminate]. injection H as <-.
    destruct (IH _ _ _ _ T) as [L (o & G & Lo)]. split; [cbn; lia|]. exists o. cbn [kv_get]. rewrite E. split; assumption.
Qed.

Lemma write_shape b k v :
  (length (b_log (write true b k v)) = length (b_log b) /\ exists o, buf_get b k = Some o /\ length o = length v) \/
  length (b_log (write true b k v)) = S (length (b_log b)).
Proof.
  unfold write. destruct (try_swap (b_log b) k v (room_of b)) as [l'|] eqn:T; cbn [b_log].
  - left. exact (try_swap_len _ _ _ _ _ T).
  - right. reflexivity.
Qed.

Lemma gsz_write b k v k' : k' <> k -> gsz (b_log (write true b k v)) k' = gsz (b_log b) k'.
Proof.
  intros H. unfold gsz, vlen. fold (buf_get (write true b k v) k'). rewrite buf_get_write.
  rewrite eqb_neq by (intros E; apply H; symmetry; exact E). reflexivity.
Qed.
Lemma gsz_write_same b k v : gsz (b_log (write true b k v)) k = len_n k + len_n v.
Proof. unfold gsz, vlen. fold (buf_get (write true b k v) k). rewrite buf_get_write, eqb_refl. reflexivity. Qed.

Definition xsz (st : xbuf) : Prop := xwf st /\ x_size st = csize st.

Lemma xsz_write st k v fops : xsz st -> xsz (fst (xwrite st k v fops)).
Proof.
  intros [Hwf Hsz]. split; [apply xwf_write; exact Hwf|].
  destruct Hwf as (Hs & Hl & Hk). unfold xwrite.
  destruct (x_elim st <? len_n k + len_n v); [exact Hsz|].
  pose proof (write_shape (x_b st) k v) as Sh.
  destruct (fl_get (x_kf st) k) as [f0|] eqn:G; cbn [fst x_size]; unfold csize; cbn [x_kf x_b].
  - (* existing key *)
    assert (Hin : kv_get (x_kf st) k <> None) by (intros E; apply fl_get_kv_get in E; congruence).
    unfold fl_put. rewrite (sum_put_old _ _ _ _ Hs Hin).
    pose proof (sum_update (x_kf st) (gsz (b_log (x_b st))) (gsz (b_log (write true (x_b st) k v))) k Hs Hin) as U.
    rewrite gsz_write_same in U.
    assert (U' := U (fun k' H => eq_sym (gsz_write (x_b st) k v k' H))). clear U.
    unfold csize in Hsz. unfold gsz at 2 in U'. unfold vlen in U'. fold (buf_get (x_b st) k) in U'.
    destruct Sh as [[E (o & Go & Lo)]|E]; rewrite E.
    + rewrite Nat.eqb_refl. rewrite Go in U'. unfold len_n in *. lia.
    + replace (Nat.eqb (S (length (b_log (x_b st)))) (length (b_log (x_b st)))) with false
        by (symmetry; apply Nat.eqb_neq; lia).
      destruct (buf_get (x_b st) k) as [o|]; unfold len_n in *; lia.
  - (* new leaf: the key is not buffered *)
    assert (Hnk : kv_get (x_kf st) k = None) by (apply fl_get_kv_get; exact G).
    assert (Hnb : buf_get (x_b st) k = None).
    { destruct (buf_get (x_b st) k) eqn:B; [|reflexivity]. exfalso. apply (Hk k); [unfold buf_get in B; congruence|exact Hnk]. }
    unfold fl_put. rewrite (sum_put_new _ _ _ _ Hs Hnk), gsz_write_same.
    rewrite (sum_ext (x_kf st) (gsz (b_log (write true (x_b st) k v))) (gsz (b_log (x_b st)))).
    2:{ intros k' Hk'. apply gsz_write. intros ->. congruence. }
    unfold csize in Hsz. rewrite Hnb.
    destruct Sh as [[E (o & Go & Lo)]|E]; [congruence|]. rewrite E.
    replace (Nat.eqb (S (length (b_log (x_b st)))) (length (b_log (x_b st)))) with false
      by (symmetry; apply Nat.eqb_neq; lia).
    lia.
Qed.

Lemma xsz_flags st k fops : xsz st -> xsz (xflags st k fops).
Proof.
  intros [Hwf Hsz]. split; [apply (xwf_step st (XFlags k fops)); exact Hwf|].
  destruct Hwf as (Hs & Hl & Hk). unfold xflags, csize in *.
  destruct (fl_get (x_kf st) k) as [f0|] eqn:G; cbn [x_size x_kf x_b]; unfold fl_put.
  - rewrite sum_put_old; [exact Hsz|exact Hs|]. intros E; apply fl_get_kv_get in E; congruence.
  - assert (Hnk : kv_get (x_kf st) k = None) by (apply fl_get_kv_get; exact G).
    rewrite (sum_put_new _ _ _ _ Hs Hnk). unfold gsz at 2, vlen.
    destruct (kv_get (b_log (x_b st)) k) eqn:B; [exfalso; apply (Hk k); [congruence|exact Hnk]|]. lia.
Qed.

Lemma revert_entries_size cnt : forall log kf len size,
  sorted kf -> (forall k, kv_get log k <> None -> kv_get kf k <> None) ->
  size = sum_over kf (gsz log) ->
  let r := revert_entries cnt log kf len size in
  snd r = sum_over (snd (fst (fst r))) (gsz (fst (fst (fst r)))).
Proof.
  induction cnt as [|c IH]; intros log kf len size Hs Hk Hsz; [destruct log; exact Hsz|].
  destruct log as [|[k0 v0] rest]; [exact Hsz|]. cbn [revert_entries].
  assert (Hk0 : kv_get kf k0 <> None) by (apply Hk; cbn [kv_get]; rewrite eqb_refl; discriminate).
  assert (Hrest : forall k, kv_get rest k <> None -> kv_get kf k <> None).
  { intros k H. apply Hk. cbn [kv_get]. destruct (bytes_eqb k0 k); [discriminate|exact H]. }
  assert (Hg : forall k', k' <> k0 -> gsz ((k0, v0) :: rest) k' = gsz rest k').
  { intros k' H. unfold gsz, vlen. cbn [kv_get]. rewrite eqb_neq by (intros E; apply H; symmetry; exact E). reflexivity. }
  assert (G0 : gsz ((k0, v0) :: rest) k0 = len_n k0 + len_n v0).
  { unfold gsz, vlen. cbn [kv_get]. rewrite eqb_refl. reflexivity. }
  pose proof (sum_update kf (gsz ((k0, v0) :: rest)) (gsz rest) k0 Hs Hk0 Hg) as U. rewrite G0 in U.
  pose proof (sum_ge kf (gsz ((k0, v0) :: rest)) k0 Hk0) as Ge. rewrite G0 in Ge.
  destruct (kv_get rest k0) as [old|] eqn:G.
  - assert (G1 : gsz rest k0 = len_n k0 + len_n old) by (unfold gsz, vlen; rewrite G; reflexivity).
    rewrite G1 in U. apply IH; try assumption. lia.
  - assert (G1 : gsz rest k0 = len_n k0) by (unfold gsz, vlen; rewrite G; lia). rewrite G1 in U.
    destruct (N.land _ persistent_mask =? 0).
    + apply IH.
      * apply sorted_del; exact Hs.
      * intros k H. rewrite (kv_get_del _ _ _ Hs). destruct (bytes_eqb k0 k) eqn:E;
          [apply bytes_eqb_eq in E; subst k0; congruence|apply Hrest; exact H].
      * pose proof (sum_del k0 kf (gsz rest) Hs Hk0) as D. rewrite G1 in D. lia.
    + apply IH.
      * apply sorted_fl_put; exact Hs.
      * intros k H. unfold fl_put. rewrite kv_get_put. destruct (bytes_eqb k0 k); [discriminate|apply Hrest; exact H].
      * unfold fl_put. rewrite (sum_put_old _ _ _ _ Hs Hk0). lia.
Qed.

Lemma xsz_revert st n stages' cp' : xsz st -> xsz (xrevert_to st n stages' cp').
Proof.
  intros [Hwf Hsz]. split; [apply xwf_revert; exact Hwf|].
  destruct Hwf as (Hs & Hl & Hk). unfold xrevert_to, csize in *.
  pose proof (revert_entries_size (length (b_log (x_b st)) - n) (b_log (x_b st)) (x_kf st) (x_len st) (x_size st) Hs Hk Hsz) as H.
  destruct (revert_entries _ _ _ _ _) as [[[l kf] len] sz]. exact H.
Qed.

Lemma xsz_step st o : xsz st -> xsz (fst (xstep st o)).
Proof.
  intros H. assert (Hw : xwf (fst (xstep st o))) by (apply xwf_step; exact (proj1 H)).
  destruct o as [k v f|k f|k f| |h|h| |n|e b]; cbn [xstep] in *.
  - destruct (is_tomb v); [exact H|apply xsz_write; exact H].
  - apply xsz_write; exact H.
  - apply xsz_flags; exact H.
  - split; [exact Hw|exact (proj2 H)].
  - destruct (handle_live (x_b st) h); [|exact H]. split; [exact Hw|].
    cbn [fst]. unfold csize; cbn [x_size x_kf x_b step]. destruct (handle_live (x_b st) h); exact (proj2 H).
  - destruct (handle_live (x_b st) h); [apply xsz_revert; exact H|exact H].
  - split; [exact Hw|exact (proj2 H)].
  - apply xsz_revert; exact H.
  - split; [exact Hw|exact (proj2 H)].
Qed.

Lemma xsz_run ops : forall st, xsz st -> xsz (xrun ops st).
Proof.
  unfold xrun. induction ops as [|o ops IH]; intros st H; cbn [fold_left]; [exact H|].
  apply IH. apply xsz_step. exact H.
Qed.

Lemma xsz_empty : xsz xbuf_empty.
Proof. split; [apply xwf_empty|reflexivity]. Qed.

Lemma size_spec ops : let st := xrun ops xbuf_empty in x_size st = csize st.
Proof. exact (proj2 (xsz_run ops xbuf_empty xsz_empty)). Qed.
