(* Union/ProofsY.v — Dirty and SnapshotSeqNo (ystep of ModelX.v): the snapshot sequence number moves whenever the
   staging-blind view may change; a buffer that is not dirty holds nothing outside its staging levels. *)
From Verif Require Import Base.Lex Union.Model Union.ModelX Union.ProofsMap Union.ProofsBuf Union.ProofsX Union.ProofsSize.
From Coq Require Import Sorted ZifyN ZifyNat.

Notation sorted := (dsorted false).

(* staging positions: descending from the top, none beyond the end of the log *)
Definition pos_wf (b : mbuf) : Prop :=
  StronglySorted ge (b_stages b) /\ Forall (fun p => (p <= length (b_log b))%nat) (b_stages b).

(* RevertToCheckpoint is only legal to a position between the top staging position and the end of the log *)
Definition legal (b : mbuf) (o : xop) : Prop :=
  match o with
  | XRevert n => (hd O (b_stages b) <= n <= length (b_log b))%nat
  | _ => True
  end.

Lemma truncate_length n (l : list kv) : (n <= length l)%nat -> length (truncate n l) = n.
Proof. intros H. unfold truncate. rewrite skipn_length. lia. Qed.
Lemma truncate_all (l : list kv) : truncate (length l) l = l.
Proof. unfold truncate. rewrite Nat.sub_diag. reflexivity. Qed.
Lemma log_split p (l : list kv) : l = firstn (length l - p) l ++ truncate p l.
Proof. unfold truncate. symmetry. apply firstn_skipn. Qed.

Lemma sorted_last l : StronglySorted ge l -> l <> [] ->
  exists extra p0, l = extra ++ [p0] /\ Forall (fun q => (p0 <= q)%nat) extra.
Proof.
  induction l as [|a l IH]; intros Hs Hn; [congruence|].
  inversion Hs; subst. destruct l as [|b l'].
  - exists [], a. split; [reflexivity|constructor].
  - destruct (IH H1 ltac:(discriminate)) as (extra & p0 & E & F).
    exists (a :: extra), p0. rewrite E. split; [reflexivity|].
    constructor; [|exact F]. rewrite E in H2. rewrite Forall_app in H2. destruct H2 as [_ H2]. inversion H2; subst. lia.
Qed.

Lemma write_length b k v : (length (b_log b) <= length (b_log (write true b k v)))%nat.
Proof. destruct (write_shape b k v) as [[E _]|E]; lia. Qed.

Lemma pos_wf_step b o : pos_wf b -> legal b o -> pos_wf (step true b (erase o)).
Proof.
  intros [Hs Hf] Hl.
  assert (Hw : forall k v, pos_wf (write true b k v)).
  { intros k v. pose proof (write_length b k v) as L. split.
    - unfold write. destruct (try_swap _ _ _ _); exact Hs.
    - assert (E : b_stages (write true b k v) = b_stages b) by (unfold write; destruct (try_swap _ _ _ _); reflexivity).
      rewrite E. eapply Forall_impl; [|exact Hf]. cbn. intros p Hp. lia. }
  destruct o as [k v f|k f|k f| |h|h| |n|e bl]; cbn [erase step legal] in *.
  - destruct (is_tomb v); [split; assumption|apply Hw].
  - apply Hw.
  - destruct (handle_live b 0); [|split; assumption].
    split; cbn [b_stages b_log]; destruct (b_stages b); cbn [tl]; try assumption; try constructor;
      inversion Hs; inversion Hf; subst; assumption.
  - split; cbn [b_stages b_log].
    + constructor; [exact Hs|]. eapply Forall_impl; [|exact Hf]. cbn. intros p Hp. unfold ge. lia.
    + constructor; [lia|exact Hf].
  - destruct (handle_live b h); [|split; assumption].
    split; cbn [b_stages b_log]; destruct (b_stages b); cbn [tl]; try assumption; try constructor;
      inversion Hs; inversion Hf; subst; assumption.
  - destruct (handle_live b h) eqn:L; [|split; assumption].
    destruct (b_stages b) as [|t s] eqn:S.
    { unfold handle_live in L. rewrite S in L. cbn in L. destruct h; discriminate. }
    inversion Hs as [|? ? Hs1 Hs2]; inversion Hf as [|? ? Hf1 Hf2]; subst. cbn [hd tl].
    split; cbn [b_stages b_log]; [exact Hs1|].
    rewrite truncate_length by exact Hf1. eapply Forall_impl; [|exact Hs2]. cbn. intros p Hp. unfold ge in Hp. lia.
  - split; assumption.
  - split; cbn [b_stages b_log]; [exact Hs|]. rewrite truncate_length by lia.
    destruct (b_stages b) as [|t s]; [constructor|]. inversion Hs as [|? ? Hs1 Hs2]; subst. cbn [hd] in Hl.
    constructor; [lia|]. eapply Forall_impl; [|exact Hs2]. cbn. intros p Hp. unfold ge in Hp. lia.
  - destruct (handle_live b 0); [|split; assumption].
    split; cbn [b_stages b_log]; destruct (b_stages b); cbn [tl]; try assumption; try constructor;
      inversion Hs; inversion Hf; subst; assumption.
Qed.

Lemma pos_wf_xstep st o : pos_wf (x_b st) -> legal (x_b st) o -> pos_wf (x_b (fst (xstep st o))).
Proof.
  intros H L. destruct (xstep_b st o) as [E|E]; rewrite E; [exact H|apply pos_wf_step; assumption].
Qed.

(* with a level open, the log splits at the outermost staging position and the invariant of ProofsBuf holds *)
Lemma base_invp b : pos_wf b -> b_stages b <> [] ->
  exists p0, base_log b = truncate p0 (b_log b) /\ (p0 <= length (b_log b))%nat /\
             invp true (truncate p0 (b_log b)) [p0] b /\ (forall q, In q (b_stages b) -> (p0 <= q)%nat) /\
             exists extra, b_stages b = extra ++ [p0].
Proof.
  intros [Hs Hf] Hn. destruct (sorted_last _ Hs Hn) as (extra & p0 & E & F).
  assert (Hp : (p0 <= length (b_log b))%nat).
  { rewrite Forall_forall in Hf. apply Hf. rewrite E. apply in_or_app. right. left. reflexivity. }
  exists p0. split; [unfold base_log; rewrite E, rev_app_distr; reflexivity|]. split; [exact Hp|].
  split; [|split; [|exists extra; exact E]].
  - split.
    + exists (firstn (length (b_log b) - p0) (b_log b)), extra. split; [apply log_split|].
      split; [exact E|]. rewrite truncate_length by exact Hp. exact F.
    + right. left. exists []. rewrite truncate_length by exact Hp. reflexivity.
  - intros q Hq. rewrite E in Hq. apply in_app_or in Hq. destruct Hq as [Hq|[<-|[]]]; [|lia].
    rewrite Forall_forall in F. apply F. exact Hq.
Qed.

(* an operation that leaves the outermost level open (and does not revert below it) keeps the base view *)
Lemma base_log_kept st o : pos_wf (x_b st) -> b_stages (x_b st) <> [] ->
  scoped_op 1 (length (base_log (x_b st))) (erase o) ->
  base_log (x_b (fst (xstep st o))) = base_log (x_b st).
Proof.
  intros Hw Hn Hsc. destruct (base_invp _ Hw Hn) as (p0 & Eb & Hp & Hi & _ & _).
  rewrite Eb in *. rewrite truncate_length in Hsc by exact Hp.
  assert (Hi' : invp true (truncate p0 (b_log (x_b st))) [p0] (x_b (fst (xstep st o)))).
  { apply xinv_step; [exact Hi|]. cbn [length]. rewrite truncate_length by exact Hp. exact Hsc. }
  destruct Hi' as [Hi' _]. rewrite <- (truncate_length p0 (b_log (x_b st)) Hp) in Hi' at 2.
  exact (base_log_inv _ _ Hi').
Qed.

(* ---------- relation between ystep and xstep ---------- *)
Lemma ystep_x st o :
  y_x (fst (ystep st o)) = y_x st /\ y_sseq (fst (ystep st o)) = y_sseq st /\ y_dirty (fst (ystep st o)) = y_dirty st \/
  y_x (fst (ystep st o)) = fst (xstep (y_x st) o).
Proof.
  destruct o as [k v f|k f|k f| |h|h| |n|e b]; cbn [ystep].
  - destruct (is_tomb v); [left; repeat split|]. destruct (max_key_len <? len_n k); [left; repeat split|].
    destruct (xstep (y_x st) (XWrite k v f)) as [x' r]. destruct (Nat.eqb r 3); [left; repeat split|right; reflexivity].
  - destruct (max_key_len <? len_n k); [left; repeat split|].
    destruct (xstep (y_x st) (XDelete k f)) as [x' r]. destruct (Nat.eqb r 3); [left; repeat split|right; reflexivity].
  - destruct (max_key_len <? len_n k); [left; repeat split|].
    destruct (xstep (y_x st) (XFlags k f)) as [x' r]. right; reflexivity.
  - destruct (xstep (y_x st) XStaging) as [x' r]. right; reflexivity.
  - destruct (xstep (y_x st) (XRelease h)) as [x' r] eqn:E. destruct (handle_live (x_b (y_x st)) h); [|left; repeat split].
    destruct (Nat.eqb h 1); right; reflexivity.
  - destruct (xstep (y_x st) (XCleanup h)) as [x' r] eqn:E. destruct (handle_live (x_b (y_x st)) h); [|left; repeat split].
    right; reflexivity.
  - destruct (xstep (y_x st) XCheckpoint) as [x' r]. right; reflexivity.
  - destruct (xstep (y_x st) (XRevert n)) as [x' r]. right; reflexivity.
  - destruct (xstep (y_x st) (XLimits e b)) as [x' r]. right; reflexivity.
Qed.

Lemma pos_wf_ystep st o : pos_wf (x_b (y_x st)) -> legal (x_b (y_x st)) o -> pos_wf (x_b (y_x (fst (ystep st o)))).
Proof.
  intros H L. destruct (ystep_x st o) as [(E & _ & _)|E]; rewrite E; [exact H|apply pos_wf_xstep; assumption].
Qed.

(* ---------- SnapshotSeqNo ---------- *)
Lemma live_nil b h : b_stages b = [] -> handle_live b h = false.
Proof. intros E. unfold handle_live. rewrite E. destruct h; reflexivity. Qed.

Lemma base_log_same_fields b b' : b_log b' = b_log b -> b_stages b' = b_stages b -> base_log b' = base_log b.
Proof. intros E1 E2. unfold base_log. rewrite E1, E2. reflexivity. Qed.

(* with a level open: a step that does not move SnapshotSeqNo is either void or scoped to the outermost level *)
Lemma ystep_scoped st o : pos_wf (x_b (y_x st)) -> b_stages (x_b (y_x st)) <> [] -> legal (x_b (y_x st)) o ->
  y_sseq (fst (ystep st o)) = y_sseq st ->
  y_x (fst (ystep st o)) = y_x st \/
  (y_x (fst (ystep st o)) = fst (xstep (y_x st) o) /\ scoped_op 1 (length (base_log (x_b (y_x st)))) (erase o)).
Proof.
  intros Hw Hn Hl Hs. destruct (base_invp _ Hw Hn) as (p0 & Eb & Hp & _ & Hmin & (extra & Ee)).
  destruct o as [k v f|k f|k f| |h|h| |n|e b]; cbn [ystep erase scoped_op] in *.
  - destruct (is_tomb v); [left; reflexivity|]. destruct (max_key_len <? len_n k); [left; reflexivity|].
    destruct (xstep (y_x st) (XWrite k v f)) as [x' r]. destruct (Nat.eqb r 3); [left; reflexivity|right; split; [reflexivity|exact I]].
  - destruct (max_key_len <? len_n k); [left; reflexivity|].
    destruct (xstep (y_x st) (XDelete k f)) as [x' r]. destruct (Nat.eqb r 3); [left; reflexivity|right; split; [reflexivity|exact I]].
  - destruct (max_key_len <? len_n k); [left; reflexivity|].
    destruct (xstep (y_x st) (XFlags k f)) as [x' r]. right; split; [reflexivity|left; reflexivity].
  - destruct (xstep (y_x st) XStaging) as [x' r]. right; split; [reflexivity|exact I].
  - destruct (xstep (y_x st) (XRelease h)) as [x' r]. destruct (handle_live (x_b (y_x st)) h) eqn:L; [|left; reflexivity].
    destruct (Nat.eqb h 1) eqn:H1; cbn [fst y_sseq] in Hs; [exfalso; lia|].
    right; split; [reflexivity|]. right. unfold handle_live in L. apply Bool.andb_true_iff in L. destruct L as [_ L].
    apply Nat.ltb_lt in L. apply Nat.eqb_neq in H1. lia.
  - destruct (xstep (y_x st) (XCleanup h)) as [x' r]. destruct (handle_live (x_b (y_x st)) h) eqn:L; [|left; reflexivity].
    destruct (Nat.eqb h 1) eqn:H1; cbn [fst y_sseq] in Hs; [exfalso; lia|].
    right; split; [reflexivity|]. right. unfold handle_live in L. apply Bool.andb_true_iff in L. destruct L as [_ L].
    apply Nat.ltb_lt in L. apply Nat.eqb_neq in H1. lia.
  - destruct (xstep (y_x st) XCheckpoint) as [x' r]. right; split; [reflexivity|exact I].
  - destruct (xstep (y_x st) (XRevert n)) as [x' r]. right; split; [reflexivity|].
    rewrite Eb, truncate_length by exact Hp.
    rewrite Ee, rev_app_distr in Hs. cbn [rev app fst y_sseq] in Hs.
    destruct (Nat.ltb p0 n) eqn:Lt; [exfalso; lia|]. apply Nat.ltb_ge in Lt.
    assert (Ht : (p0 <= hd O (b_stages (x_b (y_x st))))%nat).
    { destruct (b_stages (x_b (y_x st))) as [|t s] eqn:S; [congruence|]. apply Hmin. left. reflexivity. }
    unfold legal in Hl. lia.
  - destruct (xstep (y_x st) (XLimits e b)) as [x' r]. right; split; [reflexivity|left; reflexivity].
Qed.

Lemma sseq_sound st o : pos_wf (x_b (y_x st)) -> legal (x_b (y_x st)) o ->
  y_sseq (fst (ystep st o)) = y_sseq st ->
  base_log (x_b (y_x (fst (ystep st o)))) = base_log (x_b (y_x st)).
Proof.
  intros Hw Hl Hs. destruct (b_stages (x_b (y_x st))) as [|t s] eqn:S.
  - (* no level open *)
    destruct o as [k v f|k f|k f| |h|h| |n|e b]; cbn [ystep] in *; rewrite ?S in *.
    + destruct (is_tomb v); [reflexivity|]. destruct (max_key_len <? len_n k); [reflexivity|].
      destruct (xstep (y_x st) (XWrite k v f)) as [x' r]. destruct (Nat.eqb r 3); [reflexivity|].
      cbn [fst y_sseq] in Hs. exfalso; lia.
    + destruct (max_key_len <? len_n k); [reflexivity|].
      destruct (xstep (y_x st) (XDelete k f)) as [x' r]. destruct (Nat.eqb r 3); [reflexivity|].
      cbn [fst y_sseq] in Hs. exfalso; lia.
    + destruct (max_key_len <? len_n k); [reflexivity|].
      destruct (xstep (y_x st) (XFlags k f)) as [x' r]. cbn [fst y_sseq] in Hs. exfalso; lia.
    + cbn [xstep fst y_x x_b step]. unfold base_log. cbn [b_stages b_log rev app]. rewrite S. cbn [rev].
      apply truncate_all.
    + rewrite (live_nil _ h S). destruct (xstep (y_x st) (XRelease h)); reflexivity.
    + rewrite (live_nil _ h S). destruct (xstep (y_x st) (XCleanup h)); reflexivity.
    + cbn [xstep fst y_x x_b step]. apply base_log_same_fields; reflexivity.
    + destruct (xstep (y_x st) (XRevert n)) as [x' r]. cbn [rev fst y_sseq] in Hs. exfalso; lia.
    + cbn [xstep fst y_x x_b]. reflexivity.
  - assert (Hn : b_stages (x_b (y_x st)) <> []) by (rewrite S; discriminate).
    destruct (ystep_scoped st o Hw Hn Hl Hs) as [E|[E Hsc]]; rewrite E; [reflexivity|].
    apply base_log_kept; assumption.
Qed.

(* ---------- Dirty ---------- *)
Definition outer_close (b : mbuf) (o : xop) : bool :=
  match o with
  | XRelease h | XCleanup h => handle_live b h && Nat.eqb h 1
  | _ => false
  end.

Lemma ystep_scoped2 st o : pos_wf (x_b (y_x st)) -> b_stages (x_b (y_x st)) <> [] -> legal (x_b (y_x st)) o ->
  outer_close (x_b (y_x st)) o = false ->
  y_x (fst (ystep st o)) = y_x st \/
  (y_x (fst (ystep st o)) = fst (xstep (y_x st) o) /\ scoped_op 1 (length (base_log (x_b (y_x st)))) (erase o)).
Proof.
  intros Hw Hn Hl Hc. destruct (base_invp _ Hw Hn) as (p0 & Eb & Hp & _ & Hmin & (extra & Ee)).
  destruct o as [k v f|k f|k f| |h|h| |n|e b]; cbn [ystep erase scoped_op outer_close] in *.
  - destruct (is_tomb v); [left; reflexivity|]. destruct (max_key_len <? len_n k); [left; reflexivity|].
    destruct (xstep (y_x st) (XWrite k v f)) as [x' r]. destruct (Nat.eqb r 3); [left; reflexivity|right; split; [reflexivity|exact I]].
  - destruct (max_key_len <? len_n k); [left; reflexivity|].
    destruct (xstep (y_x st) (XDelete k f)) as [x' r]. destruct (Nat.eqb r 3); [left; reflexivity|right; split; [reflexivity|exact I]].
  - destruct (max_key_len <? len_n k); [left; reflexivity|].
    destruct (xstep (y_x st) (XFlags k f)) as [x' r]. right; split; [reflexivity|left; reflexivity].
  - destruct (xstep (y_x st) XStaging) as [x' r]. right; split; [reflexivity|exact I].
  - destruct (xstep (y_x st) (XRelease h)) as [x' r]. destruct (handle_live (x_b (y_x st)) h) eqn:L; [|left; reflexivity].
    cbn [andb] in Hc. rewrite Hc. right; split; [reflexivity|]. right.
    unfold handle_live in L. apply Bool.andb_true_iff in L. destruct L as [_ L].
    apply Nat.ltb_lt in L. apply Nat.eqb_neq in Hc. lia.
  - destruct (xstep (y_x st) (XCleanup h)) as [x' r]. destruct (handle_live (x_b (y_x st)) h) eqn:L; [|left; reflexivity].
    cbn [andb] in Hc. right; split; [reflexivity|]. right.
    unfold handle_live in L. apply Bool.andb_true_iff in L. destruct L as [_ L].
    apply Nat.ltb_lt in L. apply Nat.eqb_neq in Hc. lia.
  - destruct (xstep (y_x st) XCheckpoint) as [x' r]. right; split; [reflexivity|exact I].
  - destruct (xstep (y_x st) (XRevert n)) as [x' r]. right; split; [reflexivity|].
    rewrite Eb, truncate_length by exact Hp.
    assert (Ht : (p0 <= hd O (b_stages (x_b (y_x st))))%nat).
    { destruct (b_stages (x_b (y_x st))) as [|t s] eqn:S; [congruence|]. apply Hmin. left. reflexivity. }
    unfold legal in Hl. lia.
  - destruct (xstep (y_x st) (XLimits e b)) as [x' r]. right; split; [reflexivity|left; reflexivity].
Qed.

Definition no_persistent (x : xbuf) : Prop := forall k, persistent_nonzero x k = false.
(* what "not dirty" guarantees *)
Definition clean (st : ybuf) : Prop :=
  y_dirty st = false -> base_log (x_b (y_x st)) = [] /\ no_persistent (y_x st).
Definition yinv (st : ybuf) : Prop := pos_wf (x_b (y_x st)) /\ xwf (y_x st) /\ clean st.

Lemma pn_mask f : match f with Some x => negb (N.land x persistent_mask =? 0) | None => false end = false ->
  match mask_flags f with Some x => negb (N.land x persistent_mask =? 0) | None => false end = false.
Proof.
  intros H. unfold mask_flags, dflt. destruct f as [x|]; [|reflexivity].
  destruct (N.land x persistent_mask =? 0) eqn:E; [reflexivity|discriminate].
Qed.

(* flags of every key after one step of the extended buffer, when the key written does not end up persistent *)
Lemma no_persistent_xstep x o : xwf x -> no_persistent x ->
  (forall k, match o with XWrite k0 _ _ | XDelete k0 _ | XFlags k0 _ => k0 = k | _ => False end ->
             persistent_nonzero (fst (xstep x o)) k = false) ->
  no_persistent (fst (xstep x o)).
Proof.
  intros Hwf Hnp Hk k. unfold persistent_nonzero.
  destruct (is_undo x o) eqn:U.
  - (* Cleanup / Revert: flags only shrink to their persistent part *)
    assert (R : forall n s c, match fl_get (x_kf (xrevert_to x n s c)) k with
                              | Some f => negb (N.land f persistent_mask =? 0) | None => false end = false).
    { intros n s c. rewrite (proj2 (xrevert_flags x n s c k (proj1 Hwf))).
      specialize (Hnp k). unfold persistent_nonzero in Hnp.
      destruct (_ && _); [apply pn_mask; exact Hnp|exact Hnp]. }
    destruct o; cbn [is_undo] in U; try discriminate; cbn [xstep].
    + rewrite U. cbn [fst]. apply R.
    + cbn [fst]. apply R.
  - pose proof (flags_step x o k U) as F. unfold x_get_flags in F. rewrite F.
    specialize (Hnp k). unfold persistent_nonzero in Hnp.
    destruct o as [k0 v f|k0 f|k0 f| |h|h| |n|e b]; cbn [flag_effect]; try exact Hnp.
    + destruct (bytes_eqb k0 k && negb (is_tomb v) && negb (x_elim x <? len_n k0 + len_n v)) eqn:C; [|exact Hnp].
      pose proof C as C0. apply Bool.andb_true_iff in C. destruct C as [C _]. apply Bool.andb_true_iff in C. destruct C as [C _].
      apply bytes_eqb_eq in C. subst k0. specialize (Hk k eq_refl). unfold persistent_nonzero in Hk. rewrite F in Hk.
      cbn [flag_effect] in Hk. rewrite C0 in Hk. exact Hk.
    + destruct (bytes_eqb k0 k && negb (x_elim x <? len_n k0 + len_n [])) eqn:C; [|exact Hnp].
      pose proof C as C0. apply Bool.andb_true_iff in C. destruct C as [C _]. apply bytes_eqb_eq in C. subst k0.
      specialize (Hk k eq_refl). unfold persistent_nonzero in Hk. rewrite F in Hk.
      cbn [flag_effect] in Hk. rewrite C0 in Hk. exact Hk.
    + destruct (bytes_eqb k0 k) eqn:C; [|exact Hnp]. apply bytes_eqb_eq in C. subst k0.
      specialize (Hk k eq_refl). unfold persistent_nonzero in Hk. rewrite F in Hk.
      cbn [flag_effect] in Hk. rewrite eqb_refl in Hk. exact Hk.
Qed.

Lemma dirty_mono st o : y_dirty (fst (ystep st o)) = false -> y_dirty st = false.
Proof.
  destruct o as [k v f|k f|k f| |h|h| |n|e b]; cbn [ystep].
  - destruct (is_tomb v); [tauto|]. destruct (max_key_len <? len_n k); [tauto|].
    destruct (xstep (y_x st) (XWrite k v f)) as [x' r]. destruct (Nat.eqb r 3); [tauto|].
    cbn [fst y_dirty]. destruct (y_dirty st); [discriminate|reflexivity].
  - destruct (max_key_len <? len_n k); [tauto|].
    destruct (xstep (y_x st) (XDelete k f)) as [x' r]. destruct (Nat.eqb r 3); [tauto|].
    cbn [fst y_dirty]. destruct (y_dirty st); [discriminate|reflexivity].
  - destruct (max_key_len <? len_n k); [tauto|].
    destruct (xstep (y_x st) (XFlags k f)) as [x' r].
    cbn [fst y_dirty]. destruct (y_dirty st); [discriminate|reflexivity].
  - destruct (xstep (y_x st) XStaging) as [x' r]. tauto.
  - destruct (xstep (y_x st) (XRelease h)) as [x' r]. destruct (handle_live (x_b (y_x st)) h); [|tauto].
    destruct (Nat.eqb h 1); cbn [fst y_dirty]; [destruct (y_dirty st); [discriminate|reflexivity]|tauto].
  - destruct (xstep (y_x st) (XCleanup h)) as [x' r]. destruct (handle_live (x_b (y_x st)) h); tauto.
  - destruct (xstep (y_x st) XCheckpoint) as [x' r]. tauto.
  - destruct (xstep (y_x st) (XRevert n)) as [x' r]. tauto.
  - destruct (xstep (y_x st) (XLimits e b)) as [x' r]. tauto.
Qed.

(* a write that leaves the buffer clean was made inside a level and left its key without persistent flags *)
Lemma clean_write st o k0 :
  match o with XWrite k _ _ | XDelete k _ | XFlags k _ => k = k0 | _ => False end ->
  y_dirty (fst (ystep st o)) = false ->
  y_x (fst (ystep st o)) = y_x st \/
  (y_x (fst (ystep st o)) = fst (xstep (y_x st) o) /\ b_stages (x_b (y_x st)) <> [] /\
   persistent_nonzero (fst (xstep (y_x st) o)) k0 = false).
Proof.
  intros Hk Hd. destruct o as [k v f|k f|k f| |h|h| |n|e b]; try contradiction; subst k0; cbn [ystep] in *.
  - destruct (is_tomb v); [left; reflexivity|]. destruct (max_key_len <? len_n k); [left; reflexivity|].
    destruct (xstep (y_x st) (XWrite k v f)) as [x' r]. destruct (Nat.eqb r 3); [left; reflexivity|].
    cbn [fst y_dirty y_x] in *. right. destruct (y_dirty st); [discriminate|].
    destruct (b_stages (x_b (y_x st))); [discriminate|]. cbn [orb] in Hd. repeat split; [discriminate|exact Hd].
  - destruct (max_key_len <? len_n k); [left; reflexivity|].
    destruct (xstep (y_x st) (XDelete k f)) as [x' r]. destruct (Nat.eqb r 3); [left; reflexivity|].
    cbn [fst y_dirty y_x] in *. right. destruct (y_dirty st); [discriminate|].
    destruct (b_stages (x_b (y_x st))); [discriminate|]. cbn [orb] in Hd. repeat split; [discriminate|exact Hd].
  - destruct (max_key_len <? len_n k); [left; reflexivity|].
    destruct (xstep (y_x st) (XFlags k f)) as [x' r].
    cbn [fst y_dirty y_x] in *. right. destruct (y_dirty st); [discriminate|].
    destruct (b_stages (x_b (y_x st))); [discriminate|]. cbn [orb] in Hd. repeat split; [discriminate|exact Hd].
Qed.

Lemma yinv_step st o : yinv st -> legal (x_b (y_x st)) o -> yinv (fst (ystep st o)).
Proof.
  intros (Hw & Hx & Hc) Hl.
  assert (Hw' : pos_wf (x_b (y_x (fst (ystep st o))))) by (apply pos_wf_ystep; assumption).
  assert (Hx' : xwf (y_x (fst (ystep st o)))).
  { destruct (ystep_x st o) as [(E & _ & _)|E]; rewrite E; [exact Hx|apply xwf_step; exact Hx]. }
  split; [exact Hw'|]. split; [exact Hx'|].
  intros Hd. destruct (Hc (dirty_mono st o Hd)) as [Hb Hnp]. split.
  - (* nothing outside the staging levels *)
    destruct (b_stages (x_b (y_x st))) as [|t s] eqn:S.
    + (* no level open: base view = whole log = [] *)
      assert (Hlog : b_log (x_b (y_x st)) = []) by (unfold base_log in Hb; rewrite S in Hb; exact Hb).
      destruct o as [k v f|k f|k f| |h|h| |n|e b].
      * destruct (clean_write st (XWrite k v f) k eq_refl Hd) as [E|(_ & Hn & _)]; [rewrite E; exact Hb|congruence].
      * destruct (clean_write st (XDelete k f) k eq_refl Hd) as [E|(_ & Hn & _)]; [rewrite E; exact Hb|congruence].
      * destruct (clean_write st (XFlags k f) k eq_refl Hd) as [E|(_ & Hn & _)]; [rewrite E; exact Hb|congruence].
      * cbn [ystep xstep fst y_x x_b step]. unfold base_log. cbn [b_stages b_log]. rewrite S. cbn [rev app].
        rewrite truncate_all. exact Hlog.
      * cbn [ystep]. rewrite (live_nil _ h S). destruct (xstep (y_x st) (XRelease h)); exact Hb.
      * cbn [ystep]. rewrite (live_nil _ h S). destruct (xstep (y_x st) (XCleanup h)); exact Hb.
      * cbn [ystep xstep fst y_x x_b step]. unfold base_log. cbn [b_stages b_log]. rewrite S. exact Hlog.
      * cbn [ystep]. destruct (xstep (y_x st) (XRevert n)) as [x' r] eqn:E. cbn [fst y_x].
        assert (Ex : x' = fst (xstep (y_x st) (XRevert n))) by (rewrite E; reflexivity).
        rewrite Ex. cbn [xstep fst]. rewrite xrevert_b. unfold base_log. cbn [b_stages b_log]. rewrite S, Hlog. reflexivity.
      * cbn [ystep xstep fst y_x x_b]. exact Hb.
    + assert (Hn : b_stages (x_b (y_x st)) <> []) by (rewrite S; discriminate).
      destruct (outer_close (x_b (y_x st)) o) eqn:OC.
      * (* the outermost level is closed *)
        destruct o as [k v f|k f|k f| |h|h| |n|e b]; cbn [outer_close] in OC; try discriminate;
          apply Bool.andb_true_iff in OC; destruct OC as [L H1]; apply Nat.eqb_eq in H1; subst h;
          pose proof L as L0; unfold handle_live in L0; apply Bool.andb_true_iff in L0; destruct L0 as [L0 _];
          apply Nat.eqb_eq in L0; rewrite S in L0; (destruct s; [|cbn in L0; lia]).
        -- (* Release 1 of an empty level *)
           cbn [ystep] in *. rewrite L in *. cbn [xstep] in *. rewrite L in *. cbn [Nat.eqb fst y_dirty y_x x_b step] in *.
           rewrite L. rewrite S in Hd. cbn [hd] in Hd.
           destruct (y_dirty st); [discriminate|]. cbn [orb] in Hd. apply Bool.negb_false_iff in Hd. apply Nat.eqb_eq in Hd.
           unfold base_log in *. cbn [b_stages b_log]. rewrite S in *. cbn [tl rev app] in *.
           rewrite Hd, truncate_all in Hb. exact Hb.
        -- (* Cleanup 1 *)
           cbn [ystep] in *. rewrite L in *. cbn [xstep] in *. rewrite L in *. cbn [fst y_x] in *.
           rewrite xrevert_b. unfold base_log in *. cbn [b_stages b_log]. rewrite S in *. cbn [hd tl rev app] in *. exact Hb.
      * destruct (ystep_scoped2 st o Hw Hn Hl OC) as [E|[E Hsc]]; rewrite E; [exact Hb|].
        rewrite (base_log_kept (y_x st) o Hw Hn Hsc). exact Hb.
  - (* no persistent flag *)
    destruct (ystep_x st o) as [(E & _ & _)|E]; rewrite E; [exact Hnp|].
    apply no_persistent_xstep; [exact Hx|exact Hnp|].
    intros k Hk. destruct (clean_write st o k Hk Hd) as [E2|(_ & _ & H)]; [|exact H].
    rewrite E in E2. rewrite E2. apply Hnp.
Qed.

(* ---------- runs ---------- *)
Fixpoint ylegal (ops : list xop) (st : ybuf) : Prop :=
  match ops with
  | [] => True
  | o :: r => legal (x_b (y_x st)) o /\ ylegal r (fst (ystep st o))
  end.

Lemma yinv_empty : yinv ybuf_empty.
Proof.
  split; [split; constructor|]. split; [apply xwf_empty|].
  intros _. split; [reflexivity|intros k; reflexivity].
Qed.

Lemma yinv_run ops : forall st, yinv st -> ylegal ops st -> yinv (yrun ops st).
Proof.
  unfold yrun. induction ops as [|o ops IH]; intros st H L; cbn [fold_left]; [exact H|].
  destruct L as [L1 L2]. apply IH; [apply yinv_step; assumption|exact L2].
Qed.

Lemma ylegal_app ops o : forall st, ylegal (ops ++ [o]) st -> ylegal ops st /\ legal (x_b (y_x (yrun ops st))) o.
Proof.
  unfold yrun. induction ops as [|a ops IH]; intros st H; cbn [app ylegal fold_left] in *.
  - destruct H as [H _]. split; [exact I|exact H].
  - destruct H as [H1 H2]. destruct (IH _ H2) as [H3 H4]. repeat split; assumption.
Qed.

Lemma dirty_spec ops : ylegal ops ybuf_empty ->
  let st := yrun ops ybuf_empty in
  y_dirty st = false ->
  (forall k, x_snap_get (y_x st) k = None) /\
  (forall k, match x_get_flags (y_x st) k with Some f => N.land f persistent_mask = 0 | None => True end).
Proof.
  intros L st Hd. subst st. destruct (yinv_run ops ybuf_empty yinv_empty L) as (_ & _ & Hc).
  destruct (Hc Hd) as [Hb Hnp]. split.
  - intros k. unfold x_snap_get. rewrite Hb. reflexivity.
  - intros k. specialize (Hnp k). unfold persistent_nonzero in Hnp. unfold x_get_flags.
    destruct (fl_get _ k) as [f|]; [|exact I].
    apply Bool.negb_false_iff in Hnp. apply N.eqb_eq in Hnp. exact Hnp.
Qed.

Lemma snapshot_seq_spec ops o : ylegal (ops ++ [o]) ybuf_empty ->
  let st := yrun ops ybuf_empty in
  y_sseq (fst (ystep st o)) = y_sseq st ->
  (forall k, x_snap_get (y_x (fst (ystep st o))) k = x_snap_get (y_x st) k) /\
  (forall lo hi, x_snap_iter (y_x (fst (ystep st o))) lo hi = x_snap_iter (y_x st) lo hi) /\
  (forall lo hi, x_snap_iter_rev (y_x (fst (ystep st o))) lo hi = x_snap_iter_rev (y_x st) lo hi).
Proof.
  intros L st Hs. subst st. destruct (ylegal_app ops o _ L) as [L1 L2].
  destruct (yinv_run ops ybuf_empty yinv_empty L1) as (Hw & _ & _).
  pose proof (sseq_sound _ o Hw L2 Hs) as E.
  unfold x_snap_get, x_snap_iter, x_snap_iter_rev, x_snap_map. rewrite E. repeat split; reflexivity.
Qed.

Lemma clean_buffer_may_hold_writes : exists ops k v,
  ylegal ops ybuf_empty /\
  let st := yrun ops ybuf_empty in
  y_dirty st = false /\ buf_get (x_b (y_x st)) k = Some v /\ x_len (y_x st) = 1.
Proof.
  exists [XStaging; XWrite [97] [120] []], [97], [120].
  split; [cbn; tauto|]. vm_compute. repeat split; reflexivity.
Qed.

Lemma revert_legalb_spec b n : revert_legalb b n = true <-> legal b (XRevert n).
Proof.
  unfold revert_legalb, legal. rewrite Bool.andb_true_iff, !Nat.leb_le. reflexivity.
Qed.

(* ---------- status of a value write: the limits ---------- *)
Lemma status_iff (c s : N) :
  let r := if c <? s then 4%nat else 0%nat in (r = 4%nat <-> c < s) /\ (r = 0%nat <-> s <= c).
Proof.
  cbn zeta. destruct (c <? s) eqn:B; [apply N.ltb_lt in B|apply N.ltb_ge in B];
    split; split; intros; try discriminate; try reflexivity; try lia.
Qed.

Lemma write_status st k v f :
  let r := snd (ystep st (XWrite k v f)) in
  let st' := fst (ystep st (XWrite k v f)) in
  let x := y_x st in
  (is_tomb v = true -> r = 1%nat /\ st' = st) /\
  (is_tomb v = false -> max_key_len < len_n k -> r = 5%nat /\ st' = st) /\
  (is_tomb v = false -> len_n k <= max_key_len -> x_elim x < len_n k + len_n v -> r = 3%nat /\ st' = st) /\
  (is_tomb v = false -> len_n k <= max_key_len -> len_n k + len_n v <= x_elim x ->
     x_wseq (y_x st') = x_wseq x + 1 /\ buf_get (x_b (y_x st')) k = Some v /\
     (r = 4%nat <-> x_blim x < x_size (y_x st')) /\ (r = 0%nat <-> x_size (y_x st') <= x_blim x)).
Proof.
  cbn zeta. cbn [ystep]. split; [|split; [|split]].
  - intros H. rewrite H. split; reflexivity.
  - intros H H0. rewrite H. apply N.ltb_lt in H0. rewrite H0. split; reflexivity.
  - intros H H0 H1. rewrite H. replace (max_key_len <? len_n k) with false by (symmetry; apply N.ltb_ge; exact H0).
    cbn [xstep]. rewrite H. unfold xwrite. apply N.ltb_lt in H1. rewrite H1. split; reflexivity.
  - intros H H0 H1. rewrite H. replace (max_key_len <? len_n k) with false by (symmetry; apply N.ltb_ge; exact H0).
    cbn [xstep]. rewrite H. unfold xwrite.
    replace (x_elim (y_x st) <? len_n k + len_n v) with false by (symmetry; apply N.ltb_ge; exact H1).
    destruct (fl_get (x_kf (y_x st)) k); cbn [fst snd];
      match goal with |- context [if ?c <? ?s then 4%nat else 0%nat] =>
        pose proof (status_iff c s) as [S4 S0]; cbn zeta in S4, S0; destruct (c <? s) end;
      cbn [Nat.eqb fst snd y_x x_wseq x_b x_size];
      (split; [reflexivity|]); (split; [fold (buf_get (write true (x_b (y_x st)) k v) k); rewrite buf_get_write, eqb_refl; reflexivity|]);
      split; assumption.
Qed.
