(* Union/PropsX.v — C07, extension: key flags, Len, write sequence number, snapshot reads of the buffer.
   Only statements; proofs in ProofsX.v. *)
From Verif Require Import Base.Lex Union.Model Union.ModelX Union.ProofsMap Union.ProofsBuf Union.ProofsX Union.ProofsSize Union.ProofsPropsX.

(* `sorted` is ProofsMap's notation for `dsorted false`: strictly ascending keys *)

(* The value log and staging stack of the extended buffer evolve exactly as Model.v's buffer (or not at all:
   rejected writes, flag updates, limits) — so C07_cleanup_restores, C07_release_keeps, C07_latest_write_wins,
   C07_iter ... speak about the extended buffer as well. *)
Theorem C07_x_value_part : forall st o,
  x_b (fst (xstep st o)) = x_b st \/ x_b (fst (xstep st o)) = step true (x_b st) (erase o).
Proof. exact xstep_b. Qed.
Print Assumptions C07_x_value_part.

(* Flags of a key = fold of the flag operations in program order: every operation that is not an effective
   Cleanup / RevertToCheckpoint changes the flags of k by `flag_effect` only (a value write of k applies
   DelNeedConstraintCheckInPrewrite and then its ops; UpdateFlags applies its ops; a rejected write, a write
   of another key, Staging, Release, Checkpoint, SetEntrySizeLimit change nothing) ... *)
Theorem C07_flags_fold : forall st o k, is_undo st o = false ->
  x_get_flags (fst (xstep st o)) k = flag_effect st k o.
Proof. exact flags_step. Qed.
Print Assumptions C07_flags_fold.

(* ... and an effective Cleanup / RevertToCheckpoint does NOT roll flags back: the flags of k stay as they
   are, except when the undo removes the first value k ever got (k has an undone entry and no entry below the
   target position) — then only the persistent flags survive, and k disappears if there are none. *)
Theorem C07_flags_undo : forall st n stages' cp' k, sorted (x_kf st) ->
  let log := b_log (x_b st) in
  let cnt := (length log - n)%nat in
  x_get_flags (xrevert_to st n stages' cp') k =
    if is_some (kv_get (firstn cnt log) k) && negb (is_some (kv_get (skipn cnt log) k))
    then mask_flags (x_get_flags st k) else x_get_flags st k.
Proof. exact C07_flags_undo_proof. Qed.
Print Assumptions C07_flags_undo.

(* Consequence, over all operation sequences inside a staging level: for a key that had a buffered value
   before Staging, Cleanup leaves the flags exactly as the operations of the discarded level made them. *)
Theorem C07_flags_survive_cleanup : forall st ops k,
  xwf st -> kv_get (b_log (x_b st)) k <> None ->
  let st1 := fst (xstep st XStaging) in
  let h := staging_handle (x_b st) in
  Forall (fun o => scoped_op h (checkpoint_pos (x_b st)) (erase o)) ops ->
  handle_live (x_b (xrun ops st1)) h = true ->
  x_get_flags (fst (xstep (xrun ops st1) (XCleanup h))) k = x_get_flags (xrun ops st1) k.
Proof. exact C07_flags_survive_cleanup_proof. Qed.
Print Assumptions C07_flags_survive_cleanup.

(* hence "Cleanup restores the flags" is false for the code as it is *)
Theorem C07_cleanup_restores_flags_refuted : exists st ops k,
  xwf st /\
  let st1 := fst (xstep st XStaging) in
  let h := staging_handle (x_b st) in
  Forall (fun o => scoped_op h (checkpoint_pos (x_b st)) (erase o)) ops /\
  handle_live (x_b (xrun ops st1)) h = true /\
  x_get_flags (fst (xstep (xrun ops st1) (XCleanup h))) k <> x_get_flags st k.
Proof. exact C07_cleanup_restores_flags_refuted_proof. Qed.
Print Assumptions C07_cleanup_restores_flags_refuted.

(* Len: in every reachable state the flag table is strictly sorted, Len is its size — the number of existing
   keys: every key with a buffered value (tombstones included) is counted, a key without value is counted iff
   it has a leaf (created by UpdateFlags, or kept for its persistent flags when its first value was undone). *)
Theorem C07_len : forall ops,
  let st := xrun ops xbuf_empty in
  sorted (x_kf st) /\
  x_len st = N.of_nat (length (x_kf st)) /\
  (forall k, buf_get (x_b st) k <> None -> x_get_flags st k <> None).
Proof. exact C07_len_proof. Qed.
Print Assumptions C07_len.

(* Size: after ANY operation sequence from the empty buffer (writes with flag ops, deletes, flag updates, limits
   and rejected writes, nested staging levels, Release, Cleanup, Checkpoint, RevertToCheckpoint, in-place
   overwrites) the Size counter, updated incrementally as art.go does, equals
       sum over the existing keys k of  len(k) + len(current value of k)
   where the existing keys are those of C07_len (value, tombstone, or flags only); a tombstone and a flags-only
   key count with their key length only; overwritten versions that are still in the value log do NOT count. *)
Theorem C07_size : forall ops,
  let st := xrun ops xbuf_empty in
  x_size st = sum_over (x_kf st) (fun k => len_n k + match buf_get (x_b st) k with Some v => len_n v | None => 0 end).
Proof. exact size_spec. Qed.
Print Assumptions C07_size.

(* Iterator invalidation: the write sequence number never decreases, and whenever it did not move neither the
   value log nor the flag table changed — an iterator that is still accepted iterates unchanged content. *)
Theorem C07_write_seq : forall st o,
  (x_wseq st <= x_wseq (fst (xstep st o))) /\
  (x_wseq (fst (xstep st o)) = x_wseq st ->
   b_log (x_b (fst (xstep st o))) = b_log (x_b st) /\ x_kf (fst (xstep st o)) = x_kf st).
Proof. exact wseq_step. Qed.
Print Assumptions C07_write_seq.

(* SnapshotGetter / SnapshotIter ignore the staging levels: without a level they read the buffer; after the
   outermost Staging, whatever happens inside the level (nested levels, cleanups, checkpoints, reverts, in-place
   overwrites), they keep reading the buffer as it was at that Staging. *)
Theorem C07_snapshot_ignores_staging : forall st ops k lo hi,
  b_stages (x_b st) = [] ->
  (x_snap_get st k = buf_get (x_b st) k) /\
  (let st1 := fst (xstep st XStaging) in
   Forall (fun o => scoped_op 1 (checkpoint_pos (x_b st)) (erase o)) ops ->
   x_snap_get (xrun ops st1) k = buf_get (x_b st) k /\
   x_snap_iter (xrun ops st1) lo hi = range lo hi (buf_map (x_b st)) /\
   x_snap_iter_rev (xrun ops st1) lo hi = rev (range lo hi (buf_map (x_b st)))).
Proof. exact C07_snapshot_ignores_staging_proof. Qed.
Print Assumptions C07_snapshot_ignores_staging.

(* BufferSnapshotBatchGetter (the second copy of the merge loop of batch_getter.go) over the staging-blind view,
   in any state, for arbitrary key lists incl. duplicates: the snapshot is handed exactly the requested keys that
   the base view does not hold; the result is the base view overlaid on the snapshot, restricted to the keys. *)
Theorem C07_snapshot_batch_get : forall st snap keys, no_tomb snap -> dsorted false snap ->
  let '(handed, res) := x_snap_batch_get snap st keys in
  handed = filter (fun k => match x_snap_get st k with None => true | Some _ => false end) keys /\
  dsorted false res /\
  forall k, kv_get res k =
    if key_mem k keys
    then match (match x_snap_get st k with Some v => Some v | None => kv_get snap k end) with
         | Some v => if is_tomb v then None else Some v
         | None => None
         end
    else None.
Proof. exact C07_snapshot_batch_get_proof. Qed.
Print Assumptions C07_snapshot_batch_get.

(* The early return of MemDB.BatchGet on Len() = 0 is sound: in every reachable state Len = 0 means that no key
   is buffered and no key has flags. (Dirty() = false does NOT mean that: see C07_dirty.) *)
Theorem C07_len_zero : forall ops,
  let st := xrun ops xbuf_empty in
  x_len st = 0 -> forall k, buf_get (x_b st) k = None /\ x_get_flags st k = None.
Proof. exact C07_len_zero_proof. Qed.
Print Assumptions C07_len_zero.

(* SelectValueHistory walks exactly the value-log entries of the key, newest first: it starts at the buffered value
   and a key without buffered value has no history (overwritten-in-place versions are gone, as in the code). *)
Theorem C07_history : forall st k,
  hd_error (x_history st k) = buf_get (x_b st) k /\
  (forall v, In v (x_history st k) <-> In (k, v) (b_log (x_b st))).
Proof. exact C07_history_proof. Qed.
Print Assumptions C07_history.

(* What a value write does to the histories (beyond the definition of C07_history): the histories of all other keys
   are untouched; the written key gets a new newest version, or — in-place overwrite — its newest version, which then
   was a non-empty value of the same length, is REPLACED (that version is gone from the history, as in the code). *)
Theorem C07_history_write : forall st b k v k2,
  x_history st k2 = b_history (x_b st) k2 /\
  (k2 <> k -> b_history (write true b k v) k2 = b_history b k2) /\
  (b_history (write true b k v) k = v :: b_history b k \/
   (b_history (write true b k v) k = v :: tl (b_history b k) /\
    exists o, hd_error (b_history b k) = Some o /\ length o = length v /\ is_tomb o = false)).
Proof. exact C07_history_write_proof. Qed.
Print Assumptions C07_history_write.

(* InspectStage(h) reports exactly the keys that have a value-log entry in level h or above (written since
   Staging h and not discarded), each key once, with its CURRENT value and flags. *)
Theorem C07_inspect_stage : forall st h,
  let b := x_b st in
  let pos := nth (length (b_stages b) - h) (b_stages b) O in
  let lvl := firstn (length (b_log b) - pos) (b_log b) in
  NoDup (map (fun e => fst (fst e)) (x_inspect_stage st h)) /\
  (forall k f v, In (k, f, v) (x_inspect_stage st h) <->
                 kv_get lvl k = Some v /\ f = match x_get_flags st k with Some f => f | None => 0 end) /\
  (forall k f v, In (k, f, v) (x_inspect_stage st h) -> buf_get b k = Some v).
Proof. exact C07_inspect_stage_proof. Qed.
Print Assumptions C07_inspect_stage.

(* ---------- non-vacuity ---------- *)
Example flags_example :
  let st := xrun [XWrite [97] [1] [0%nat]; XStaging; XWrite [98] [2] [2%nat; 0%nat]; XFlags [97] [1%nat; 9%nat];
                  XFlags [99] [10%nat]; XCleanup 1] xbuf_empty in
  x_get_flags st [97] = Some 32 /\        (* PresumeKNE+NeedCheckExists set, deleted in the level, PrewriteOnly kept *)
  x_get_flags st [98] = Some 2 /\         (* first value undone: only KeyLocked (persistent) survives *)
  x_get_flags st [99] = Some 64 /\        (* a flags-only key is untouched by Cleanup *)
  x_len st = 3 /\ x_size st = 4.
Proof. vm_compute. repeat split; reflexivity. Qed.

Example snapshot_example :
  let st := xrun [XWrite [97] [1] []; XStaging; XWrite [97] [2] []; XDelete [98] []; XStaging; XWrite [99] [3] []] xbuf_empty in
  x_snap_get st [97] = Some [1] /\ x_snap_get st [98] = None /\ xm_get [] st [97] = Some [2] /\
  x_snap_iter st [] [] = [([97], [1])] /\
  x_history st [97] = [[2]; [1]] /\
  x_inspect_stage st 1 = [([99], 0, [3]); ([98], 0, []); ([97], 0, [2])] /\
  x_inspect_stage st 2 = [([99], 0, [3])].
Proof. vm_compute. repeat split; reflexivity. Qed.

Example size_example :
  let st := xrun [XWrite [97; 97] [1; 2; 3] []; XWrite [97; 97] [4; 5; 6] []; XWrite [97; 97] [7] []; XDelete [98] [];
                  XFlags [99; 99; 99] [2%nat]; XStaging; XWrite [100] [1; 1] []; XCleanup 1] xbuf_empty in
  length (b_log (x_b st)) = 3%nat /\      (* 123 overwritten in place by 456, then 7 and the tombstone appended *)
  x_len st = 3 /\ x_size st = (2 + 1) + (1 + 0) + (3 + 0).
Proof. vm_compute. repeat split; reflexivity. Qed.

Example limits_example :
  let '(st1, r1) := xstep (fst (xstep xbuf_empty (XLimits 4 6))) (XWrite [97] [1; 2; 3; 4] []) in
  let '(st2, r2) := xstep st1 (XWrite [97] [1; 2] []) in
  let '(st3, r3) := xstep st2 (XWrite [98; 98] [1; 2] []) in
  r1 = 3%nat /\ r2 = 0%nat /\ r3 = 4%nat /\ x_len st3 = 2 /\ x_size st3 = 7 /\ x_wseq st3 = 2.
Proof. vm_compute. repeat split; reflexivity. Qed.
