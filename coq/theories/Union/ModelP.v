(* Union/ModelP.v — the read path of PipelinedMemDB (internal/unionstore/pipelined_memdb.go) as a thin layer
   over the buffer of Model.v: mutable buffer, flushing buffer (read-only), the flushed store of this
   transaction (what bufferBatchGetter answers from; tombstones are empty values), and the batch-get cache
   (entry Some v / Some [] = flushed deletion / None = not in the flushed store). The flush protocol itself
   (generations, errors, thresholds) is C16's subject; here a flush is: start (the mutable buffer becomes the
   flushing one), complete (its content reaches the store), wait (the flushing buffer is dropped). *)
From Verif Require Import Base.Lex Union.Model.

Record pbuf := mk_pbuf {
  p_mem : mbuf;                           (* memDB: writes, staging levels *)
  p_flushing : option (list kv);          (* flushingMemDB: its value log, newest first *)
  p_done : bool;                          (* the running flush has written the store *)
  p_store : list kv;                      (* flushed generations: key -> value, [] = deleted *)
  p_cache : option (list (key * option val))   (* batchGetCache; newest entry of a key first *)
}.
Definition pbuf_empty (store : list kv) : pbuf := mk_pbuf mbuf_empty None true store None.

Inductive pop :=
| PSet (k : key) (v : val)
| PDel (k : key)
| PStaging
| PRelease (h : nat)
| PCleanup (h : nat)
| PBatchGet (keys : list key)   (* only its effect on the cache *)
| PFlush                        (* Flush(true) *)
| PFlushDone                    (* the flush function finishes: the store holds the flushed content *)
| PFlushWait.                   (* FlushWait *)

Fixpoint cache_get (c : list (key * option val)) (k : key) : option (option val) :=
  match c with
  | [] => None
  | (k', e) :: r => if bytes_eqb k' k then Some e else cache_get r k
  end.

(* GetLocal: memDB, then flushingMemDB *)
Definition p_local (st : pbuf) (k : key) : option val :=
  match buf_get (p_mem st) k with
  | Some v => Some v
  | None => match p_flushing st with Some l => kv_get l k | None => None end
  end.

(* PipelinedMemDB.get(k, skipRemoteBuffer=false) *)
Definition p_get (st : pbuf) (k : key) : option val :=
  match p_local st k with
  | Some v => Some v
  | None =>
      match (match p_cache st with Some c => cache_get c k | None => None end) with
      | Some e => e                      (* cached: Some v (also the flushed tombstone []) or None *)
      | None => kv_get (p_store st) k    (* bufferBatchGetter *)
      end
  end.

(* the specification: the latest of (mutable buffer, flushing buffer, flushed store) *)
Definition p_lookup (st : pbuf) (k : key) : option val :=
  match p_local st k with
  | Some v => Some v
  | None => kv_get (p_store st) k
  end.

(* KVUnionStore.Get over the pipelined buffer *)
Definition pu_get (snap : list kv) (st : pbuf) (k : key) : option val :=
  match (match p_get st k with Some v => Some v | None => kv_get snap k end) with
  | Some v => if is_tomb v then None else Some v
  | None => None
  end.

(* PipelinedMemDB.BatchGet: result map (as a list, first entry of a key counts) and the new cache *)
Fixpoint p_batch_loop (st : pbuf) (keys : list key) (c : list (key * option val)) : list kv * list (key * option val) :=
  match keys with
  | [] => ([], c)
  | k :: r =>
      let e := match p_local st k with Some v => Some v | None => kv_get (p_store st) k end in
      let '(m, c') := p_batch_loop st r ((k, e) :: c) in
      (match e with Some v => (k, v) :: m | None => m end, c')
  end.
Definition p_batch_get (st : pbuf) (keys : list key) : list kv * pbuf :=
  let c0 := match p_cache st with Some c => c | None => [] end in
  let '(m, c) := p_batch_loop st keys c0 in
  (m, mk_pbuf (p_mem st) (p_flushing st) (p_done st) (p_store st) (Some c)).

Definition flush_into (store : list kv) (log : list kv) : list kv :=
  fold_right (fun e m => kv_put (fst e) (snd e) m) store log.

Definition p_complete (st : pbuf) : pbuf :=
  match p_flushing st with
  | Some l => if p_done st then st
              else mk_pbuf (p_mem st) (p_flushing st) true (flush_into (p_store st) l) (p_cache st)
  | None => st
  end.

(* status: 0 ok, 1 error, 2 panic *)
Definition pstep (st : pbuf) (o : pop) : pbuf * nat :=
  let on_mem (m' : mbuf) c := mk_pbuf m' (p_flushing st) (p_done st) (p_store st) c in
  match o with
  | PSet k v => (on_mem (step true (p_mem st) (OSet k v)) (p_cache st), op_status (p_mem st) (OSet k v))
  | PDel k => (on_mem (step true (p_mem st) (ODel k)) (p_cache st), 0%nat)
  | PStaging => (on_mem (step true (p_mem st) OStaging) (p_cache st), 0%nat)
  | PRelease h => (on_mem (step true (p_mem st) (ORelease h)) (p_cache st), op_status (p_mem st) (ORelease h))
  | PCleanup h =>     (* the cache is dropped first, whatever the handle *)
      (on_mem (step true (p_mem st) (OCleanup h)) None, op_status (p_mem st) (OCleanup h))
  | PBatchGet keys => (snd (p_batch_get st keys), 0%nat)
  | PFlush =>
      match b_stages (p_mem st) with
      | _ :: _ => (on_mem (p_mem st) None, 1%nat)     (* "there are stages unreleased": the cache is gone anyway *)
      | [] =>
          let st1 := p_complete st in                  (* waits for the previous flush *)
          (mk_pbuf mbuf_empty (Some (b_log (p_mem st1))) false (p_store st1) None, 0%nat)
      end
  | PFlushDone => (p_complete st, 0%nat)
  | PFlushWait =>
      let st1 := p_complete st in
      (mk_pbuf (p_mem st1) None true (p_store st1) (p_cache st1), 0%nat)
  end.

Definition prun (ops : list pop) (st : pbuf) : pbuf := fold_left (fun s o => fst (pstep s o)) ops st.

(* BufferBatchGetter over the pipelined buffer: its buffer side is the map PipelinedMemDB.BatchGet returns *)
Definition pu_batch_get (snap : list kv) (st : pbuf) (keys : list key) : list key * list kv :=
  buffer_batch_get snap (fst (p_batch_get st keys)) keys.

(* a wrong reading of the cache, for a regression witness only: a cached empty value (flushed deletion)
   treated like "not in the flushed store" *)
Definition p_get_empty_as_miss (st : pbuf) (k : key) : option val :=
  match p_local st k with
  | Some v => Some v
  | None =>
      match (match p_cache st with Some c => cache_get c k | None => None end) with
      | Some (Some (b :: v)) => Some (b :: v)
      | Some _ => None
      | None => kv_get (p_store st) k
      end
  end.
