(* Union/Props.v — C07: a transaction reads its own writes over its snapshot; savepoint rollback undoes.
   Only statements; proofs are in ProofsMap / ProofsIter / ProofsBuf / ProofsBatch. *)
From Verif Require Import Base.Lex Union.Model Union.ProofsMap Union.ProofsIter Union.ProofsBuf Union.ProofsBatch Union.ProofsProps.

(* `sorted` is ProofsMap's notation for `dsorted false`: strictly ascending keys, hence duplicate free *)

(* Forward and reverse iteration of the union store over an ascending buffer content (tombstones included)
   and an ascending snapshot without empty values, for arbitrary bounds: the cursor machine of UnionIter
   yields exactly the sorted overlay restricted to [lo, hi) (reversed for IterReverse), strictly monotone,
   and a pair is yielded iff it is in bounds and is what Get returns: no key repeated or skipped. *)
Theorem C07_iter : forall lo hi buf snap, sorted buf -> sorted snap -> no_tomb snap ->
  us_iter buf snap lo hi = range lo hi (overlay snap buf) /\
  us_iter_rev buf snap lo hi = rev (range lo hi (overlay snap buf)) /\
  dsorted false (us_iter buf snap lo hi) /\
  dsorted true (us_iter_rev buf snap lo hi) /\
  (forall k v, In (k, v) (us_iter buf snap lo hi) <-> in_range lo hi k = true /\ union_get snap buf k = Some v) /\
  (forall k v, In (k, v) (us_iter_rev buf snap lo hi) <-> in_range lo hi k = true /\ union_get snap buf k = Some v).
Proof. exact iter_spec. Qed.
Print Assumptions C07_iter.

(* the merge itself needs no assumption on the values: sorted inputs in iteration direction give the
   direction-sorted overlay lookup (used for both directions above) *)
Theorem C07_iter_merge : forall rv d s k, dsorted rv d -> dsorted rv s ->
  dsorted rv (union_iter rv d s) /\ kv_get (union_iter rv d s) k = overlay_get s d k.
Proof. exact C07_iter_merge_proof. Qed.
Print Assumptions C07_iter_merge.

(* What UnionIter guarantees from the iterator contract ALONE: the two inputs are strictly sorted in the
   iteration direction (ascending for Iter, descending for IterReverse) — nothing about bounds or values is
   assumed. The output is strictly sorted in that direction, contains exactly the overlay pairs (buffer entry
   wins, a buffered tombstone hides the snapshot entry, an empty SNAPSHOT value would be passed through), and
   every yielded key was yielded by one of the inputs — so whatever bounds the two inner iterators respect,
   the union iterator respects; no key is invented, repeated or skipped. *)
Theorem C07_iter_contract : forall rv d s, dsorted rv d -> dsorted rv s ->
  dsorted rv (union_iter rv d s) /\
  (forall k v, In (k, v) (union_iter rv d s) <-> overlay_get s d k = Some v) /\
  (forall k v, In (k, v) (union_iter rv d s) -> In (k, v) d \/ In (k, v) s).
Proof. exact C07_iter_contract_proof. Qed.
Print Assumptions C07_iter_contract.

(* Error path: when the Next of an inner iterator fails (at any position, either side), UnionIter yields a prefix
   of what it would have yielded and then reports the error — at creation, inside updateCur, or in Next, exactly
   where the code returns it; without a failure the result is the merge and no error. *)
Theorem C07_iter_error_path : forall rv fd fs d s,
  (exists rest, union_iter rv d s = fst (union_iter_f rv fd fs d s) ++ rest /\
                (snd (union_iter_f rv fd fs d s) = false -> rest = [])) /\
  union_iter_f rv 0 0 d s = (union_iter rv d s, false).
Proof. exact iter_error_path. Qed.
Print Assumptions C07_iter_error_path.

(* Get: buffer first, snapshot on miss, empty = not exist  ==  lookup in the overlay *)
Theorem C07_get : forall snap buf k, sorted buf -> sorted snap -> no_tomb snap ->
  union_get snap buf k = kv_get (overlay snap buf) k.
Proof. exact union_get_overlay. Qed.
Print Assumptions C07_get.

(* BatchGet for ARBITRARY key lists (duplicates included): the snapshot is handed exactly the requested
   keys that are not buffered (in request order), the result is the overlay restricted to the requested keys *)
Theorem C07_batch_get : forall snap buf keys, no_tomb snap -> sorted snap ->
  let '(handed, res) := buffer_batch_get snap buf keys in
  handed = filter (unbuffered buf) keys /\
  sorted res /\
  forall k, kv_get res k = if key_mem k keys then union_get snap buf k else None.
Proof. exact batch_get_spec. Qed.
Print Assumptions C07_batch_get.

(* regression witness for the loop as it was before fix e4ede29: a tombstoned key listed twice was handed
   to the snapshot and its old value returned *)
Theorem C07_batch_get_prefix_refuted : exists snap buf keys,
  no_tomb snap /\ sorted snap /\
  let '(handed, res) := buffer_batch_get_prefix snap buf keys in
  ~ (handed = filter (unbuffered buf) keys /\
     forall k, kv_get res k = if key_mem k keys then union_get snap buf k else None).
Proof. exact C07_batch_get_prefix_refuted_proof. Qed.
Print Assumptions C07_batch_get_prefix_refuted.

(* The buffer's iterator input is a legal input of C07_iter in every reachable (indeed every) state, and its
   lookup is the newest log entry of the key *)
Theorem C07_buffer_content : forall st k, sorted (buf_map st) /\ kv_get (buf_map st) k = buf_get st k.
Proof. exact C07_buffer_content_proof. Qed.
Print Assumptions C07_buffer_content.

(* Latest write wins, from ANY state (in particular any state reached by an arbitrary op sequence `pre`),
   for any continuation without undo operations (sets, deletes, staging, release, checkpoint, and sets of
   empty values, which are rejected): the buffered value of k is the last write to k, else what it was;
   this holds with and without in-place overwrite. Read through the union store. *)
Theorem C07_latest_write_wins : forall ip pre ws st0 snap k, forallb non_undo ws = true ->
  let st := run ip pre st0 in
  buf_get (run ip (pre ++ ws) st0) k = fold_left (last_write k) ws (buf_get st k) /\
  m_get snap (run ip (pre ++ ws) st0) k =
    match (match fold_left (last_write k) ws (buf_get st k) with Some v => Some v | None => kv_get snap k end) with
    | Some v => if is_tomb v then None else Some v
    | None => None
    end.
Proof. exact C07_latest_write_wins_proof. Qed.
Print Assumptions C07_latest_write_wins.

(* Staging h; any operations that stay inside the level (no release/cleanup of h or of an outer level, no
   revert to a checkpoint taken before Staging); Cleanup h while h is the live handle: value log and staging
   stack are EXACTLY those before Staging, so every observable is. Holds for the code as it is (ip = true).
   (lastCheckpoint may end up at the cut instead of below it; it only restricts later in-place overwrites.) *)
Theorem C07_cleanup_restores : forall ip st ops,
  let st1 := step ip st OStaging in
  let h := staging_handle st in
  Forall (scoped_op h (checkpoint_pos st)) ops ->
  handle_live (run ip ops st1) h = true ->
  b_log (step ip (run ip ops st1) (OCleanup h)) = b_log st /\
  b_stages (step ip (run ip ops st1) (OCleanup h)) = b_stages st /\
  obs_eq (step ip (run ip ops st1) (OCleanup h)) st.
Proof. exact C07_cleanup_restores_proof. Qed.
Print Assumptions C07_cleanup_restores.

(* Release never changes an observable; after Staging h; scoped ops; Release h the staging stack is the one
   before Staging and the level's writes are all there *)
Theorem C07_release_keeps : forall ip st ops h',
  obs_eq (step ip st (ORelease h')) st /\
  (let st1 := step ip st OStaging in
   let h := staging_handle st in
   Forall (scoped_op h (checkpoint_pos st)) ops ->
   handle_live (run ip ops st1) h = true ->
   b_log (step ip (run ip ops st1) (ORelease h)) = b_log (run ip ops st1) /\
   b_stages (step ip (run ip ops st1) (ORelease h)) = b_stages st).
Proof. exact C07_release_keeps_proof. Qed.
Print Assumptions C07_release_keeps.

(* cp := Checkpoint(); any operations that stay above it (no release/cleanup of a level that was open at the
   checkpoint, no revert below it); RevertToCheckpoint(cp): the value log and every observable are the ones at
   the checkpoint — UNCONDITIONALLY for the code as it is (ip = true; fix 6b4091a: Checkpoint and
   RevertToCheckpoint record lastCheckpoint and no entry below it is overwritten in place), and for ip = false. *)
Theorem C07_revert_checkpoint : forall ip st ops,
  let st1 := step ip st OCheckpoint in
  Forall (scoped_op (length (b_stages st)) (checkpoint_pos st)) ops ->
  b_log (step ip (run ip ops st1) (ORevert (checkpoint_pos st))) = b_log st /\
  obs_eq (step ip (run ip ops st1) (ORevert (checkpoint_pos st))) st.
Proof. exact C07_revert_checkpoint_proof. Qed.
Print Assumptions C07_revert_checkpoint.

(* regression witness for the buffer as it was before fix 6b4091a (checkpoints did not protect entries; F03):
   Set(a,"xx"); cp := Checkpoint(); Set(a,"yy"); RevertToCheckpoint(cp); Get(a) = "yy" *)
Theorem C07_revert_checkpoint_prefix_refuted : exists st ops,
  Forall (scoped_op (length (b_stages st)) (checkpoint_pos st)) ops /\
  ~ obs_eq (step_prefix (run_prefix ops (step_prefix st OCheckpoint)) (ORevert (checkpoint_pos st))) st.
Proof. exact C07_revert_checkpoint_prefix_refuted_proof. Qed.
Print Assumptions C07_revert_checkpoint_prefix_refuted.

(* Savepoint handles (Staging / Release / Cleanup of art.go and rbt.go): Staging returns the new depth, which is the
   one live handle; Release / Cleanup act iff the handle is the depth (> 0); any other handle leaves the buffer
   untouched; Release panics for a handle that is neither 0 nor the depth, Cleanup for 0 < h < depth (a handle above
   the depth is ignored). *)
Theorem C07_savepoint_handles : forall ip st h,
  staging_handle st = length (b_stages (step ip st OStaging)) /\
  handle_live (step ip st OStaging) (staging_handle st) = true /\
  (handle_live st h = true <-> (h = length (b_stages st) /\ (0 < h)%nat)) /\
  (handle_live st h = false -> step ip st (ORelease h) = st /\ step ip st (OCleanup h) = st) /\
  (op_status st (ORelease h) = 2%nat <-> (h <> O /\ h <> length (b_stages st))) /\
  (op_status st (OCleanup h) = 2%nat <-> ((0 < h)%nat /\ (h < length (b_stages st))%nat)).
Proof. exact handles_spec. Qed.
Print Assumptions C07_savepoint_handles.

(* ---------- non-vacuity ---------- *)
Example iter_example :
  let snap := [([97], [1]); ([97; 0], [2]); ([98], [3]); ([255], [4])] in
  let st := run true [OSet [97; 0] [9]; ODel [98]; OSet [97; 255] [7]; ODel [99]] mbuf_empty in
  sorted snap /\ no_tomb snap /\
  m_iter snap st [] [] = [([97], [1]); ([97; 0], [9]); ([97; 255], [7]); ([255], [4])] /\
  m_iter_rev snap st [97; 0] [255] = [([97; 255], [7]); ([97; 0], [9])] /\
  m_get snap st [98] = None /\
  m_batch_get snap st [[98]; [98]; [97]; [97; 0]] = ([[97]], [([97], [1]); ([97; 0], [9])]).
Proof. repeat split; try (repeat constructor); vm_compute; reflexivity. Qed.

Example cleanup_example :
  let st := run true [OSet [97] [1; 1]] mbuf_empty in
  let ops := [OSet [97] [2; 2]; OStaging; ODel [97]; OCleanup 2; OCheckpoint; OSet [97] [3; 3]; ORevert 2] in
  Forall (scoped_op (staging_handle st) (checkpoint_pos st)) ops /\
  handle_live (run true ops (step true st OStaging)) (staging_handle st) = true /\
  m_get [] (run true ops (step true st OStaging)) [97] = Some [2; 2] /\
  b_log (step true (run true ops (step true st OStaging)) (OCleanup (staging_handle st))) = b_log st.
Proof. split; [repeat constructor; cbn; lia|]. repeat split; vm_compute; reflexivity. Qed.

Example revert_example :
  let st := run true [OSet [97] [1; 1]] mbuf_empty in
  let ops := [OSet [97] [2; 2]; OStaging; ODel [98]; ORelease 1; OSet [97] [3; 3]] in
  let st1 := step true st OCheckpoint in
  Forall (scoped_op (length (b_stages st)) (checkpoint_pos st)) ops /\
  m_get [] (run true ops st1) [97] = Some [3; 3] /\
  length (b_log (run true ops st1)) = 3%nat /\     (* 22 appended (protected 11), 33 written in place over 22 *)
  m_get [] (step true (run true ops st1) (ORevert (checkpoint_pos st))) [97] = Some [1; 1].
Proof. split; [repeat constructor; cbn; lia|]. repeat split; vm_compute; reflexivity. Qed.

Example iter_error_example :
  let d := [([97], [1]); ([98], []); ([99], [3])] in
  let s := [([98], [7]); ([100], [8])] in
  union_iter false d s = [([97], [1]); ([99], [3]); ([100], [8])] /\
  union_iter_f false 2 0 d s = ([([97], [1])], true) /\      (* dirtyNext inside updateCur fails while skipping the tombstone *)
  union_iter_f false 0 1 d s = ([([97], [1])], true) /\      (* snapshotNext for the hidden snapshot entry fails *)
  union_iter_f false 3 0 d s = ([([97], [1]); ([99], [3])], true) /\
  union_iter_f false 0 2 d s = ([([97], [1]); ([99], [3]); ([100], [8])], true).
Proof. vm_compute. repeat split; reflexivity. Qed.

(* reverse iteration with bounds on inputs that are only sorted descending (the contract of IterReverse) *)
Example iter_contract_example :
  let d := [([98], [7]); ([97; 255], []); ([97], [9])] in          (* buffer iterator, descending, one tombstone *)
  let s := [([99], [1]); ([97; 255], [2]); ([97; 0], [3]); ([97], [4])] in   (* snapshot iterator, descending *)
  dsorted true d /\ dsorted true s /\
  union_iter true d s = [([99], [1]); ([98], [7]); ([97; 0], [3]); ([97], [9])].
Proof. repeat split; try (repeat constructor); vm_compute; reflexivity. Qed.
