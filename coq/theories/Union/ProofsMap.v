(* Union/ProofsMap.v — association lists ordered by key in either direction: lookup, uniqueness of the
   sorted representation, put / delete, range filter, reversal. *)
From Verif Require Import Base.Lex Union.Model.
From Coq Require Import Sorted.

Definition dlt (rv : bool) (a b : key) : Prop := dcmp rv a b = Lt.
Definition dsorted (rv : bool) (l : list kv) : Prop :=
  StronglySorted (fun x y => dlt rv (fst x) (fst y)) l.
Definition above (rv : bool) (x : key) (l : list kv) : Prop := Forall (fun e => dlt rv x (fst e)) l.
Definition no_tomb (l : list kv) : Prop := Forall (fun e => is_tomb (snd e) = false) l.

Lemma dcmp_eq rv a b : dcmp rv a b = Eq <-> a = b.
Proof.
  unfold dcmp. destruct rv; [|apply lex_cmp_eq].
  rewrite <- lex_cmp_eq. destruct (lex_cmp a b); cbn; split; congruence.
Qed.
Lemma dcmp_refl rv a : dcmp rv a a = Eq.
Proof. apply dcmp_eq; reflexivity. Qed.
Lemma dcmp_antisym rv a b : dcmp rv b a = CompOpp (dcmp rv a b).
Proof. unfold dcmp. destruct rv; rewrite (lex_cmp_antisym a b); reflexivity. Qed.
Lemma dcmp_gt_lt rv a b : dcmp rv a b = Gt <-> dlt rv b a.
Proof. unfold dlt. rewrite (dcmp_antisym rv a b). destruct (dcmp rv a b); cbn; split; congruence. Qed.
Lemma dlt_trans rv a b c : dlt rv a b -> dlt rv b c -> dlt rv a c.
Proof.
  unfold dlt, dcmp. destruct rv.
  - rewrite (lex_cmp_antisym b a), (lex_cmp_antisym c b), (lex_cmp_antisym c a).
    rewrite !CompOpp_involutive. intros H1 H2. eapply lex_cmp_lt_trans; eassumption.
  - apply lex_cmp_lt_trans.
Qed.
Lemma dlt_irrefl rv a : ~ dlt rv a a.
Proof. unfold dlt. rewrite dcmp_refl. discriminate. Qed.
Lemma dlt_neq rv a b : dlt rv a b -> a <> b.
Proof. intros H ->. eapply dlt_irrefl; eassumption. Qed.

Lemma eqb_sym a b : bytes_eqb a b = bytes_eqb b a.
Proof.
  destruct (bytes_eqb a b) eqn:E1, (bytes_eqb b a) eqn:E2; try reflexivity.
  - apply bytes_eqb_eq in E1; subst. rewrite (proj2 (bytes_eqb_eq b b) eq_refl) in E2. discriminate.
  - apply bytes_eqb_eq in E2; subst. rewrite (proj2 (bytes_eqb_eq a a) eq_refl) in E1. discriminate.
Qed.
Lemma eqb_refl a : bytes_eqb a a = true.
Proof. apply bytes_eqb_eq; reflexivity. Qed.
Lemma eqb_neq a b : a <> b -> bytes_eqb a b = false.
Proof. intros H. destruct (bytes_eqb a b) eqn:E; [apply bytes_eqb_eq in E; contradiction|reflexivity]. Qed.
Lemma eqb_dec (a b : key) : {a = b} + {a <> b}.
Proof. destruct (bytes_eqb a b) eqn:E; [left; apply bytes_eqb_eq; exact E|right; intros ->; rewrite eqb_refl in E; discriminate]. Qed.

(* ---------- sortedness basics ---------- *)
Lemma dsorted_inv rv e l : dsorted rv (e :: l) -> dsorted rv l /\ above rv (fst e) l.
Proof. intros H. inversion H; subst. split; assumption. Qed.
Lemma dsorted_cons rv e l : dsorted rv l -> above rv (fst e) l -> dsorted rv (e :: l).
Proof. intros. constructor; assumption. Qed.
Lemma above_trans rv a b l : dlt rv a b -> above rv b l -> above rv a l.
Proof. intros Hab H. eapply Forall_impl; [|exact H]. cbn. intros e He. eapply dlt_trans; eassumption. Qed.
Lemma above_get_none rv x l : above rv x l -> kv_get l x = None.
Proof.
  induction l as [|[k v] l IH]; intros H; cbn [kv_get]; [reflexivity|].
  inversion H; subst. cbn in H2. rewrite eqb_neq; [apply IH; assumption|].
  intros ->. eapply dlt_irrefl; eassumption.
Qed.
Lemma above_get_none_lt rv x y l : dlt rv x y -> above rv y l -> kv_get l x = None.
Proof. intros H1 H2. eapply above_get_none. eapply above_trans; eassumption. Qed.

Lemma kv_get_In rv l k v : dsorted rv l -> (kv_get l k = Some v <-> In (k, v) l).
Proof.
  induction l as [|[k' v'] l IH]; intros Hs; cbn [kv_get In].
  - split; [discriminate|contradiction].
  - apply dsorted_inv in Hs. destruct Hs as [Hs Ha]. cbn in Ha.
    destruct (bytes_eqb k' k) eqn:E.
    + apply bytes_eqb_eq in E; subst. split.
      * intros [= ->]. left; reflexivity.
      * intros [[= ->]|Hin]; [reflexivity|].
        exfalso. unfold above in Ha. rewrite Forall_forall in Ha. specialize (Ha _ Hin). cbn in Ha. eapply dlt_irrefl; eassumption.
    + rewrite (IH Hs). split; [intros; right; assumption|].
      intros [[= -> ->]|Hin]; [rewrite eqb_refl in E; discriminate|assumption].
Qed.

Lemma opt_ext {A} (a b : option A) : (forall v, a = Some v <-> b = Some v) -> a = b.
Proof.
  intros H. destruct a as [x|], b as [y|]; try reflexivity.
  - symmetry. apply H. reflexivity.
  - specialize (proj1 (H x) eq_refl). discriminate.
  - specialize (proj2 (H y) eq_refl). discriminate.
Qed.

(* a sorted association list is determined by its lookup function *)
Lemma dsorted_ext rv l1 : forall l2, dsorted rv l1 -> dsorted rv l2 ->
  (forall k, kv_get l1 k = kv_get l2 k) -> l1 = l2.
Proof.
  induction l1 as [|[k1 v1] l1 IH]; intros [|[k2 v2] l2] H1 H2 He.
  - reflexivity.
  - specialize (He k2). cbn [kv_get] in He. rewrite eqb_refl in He. discriminate.
  - specialize (He k1). cbn [kv_get] in He. rewrite eqb_refl in He. discriminate.
  - apply dsorted_inv in H1. destruct H1 as [H1 A1]. apply dsorted_inv in H2. destruct H2 as [H2 A2]. cbn in A1, A2.
    assert (Hk : k1 = k2).
    { destruct (dcmp rv k1 k2) eqn:C.
      - apply dcmp_eq in C; exact C.
      - exfalso. specialize (He k1). cbn [kv_get] in He. rewrite eqb_refl in He.
        rewrite (eqb_neq k2 k1) in He by (intros ->; rewrite dcmp_refl in C; discriminate).
        rewrite (above_get_none_lt rv k1 k2 l2 C A2) in He. discriminate.
      - exfalso. apply dcmp_gt_lt in C. specialize (He k2). cbn [kv_get] in He. rewrite eqb_refl in He.
        rewrite (eqb_neq k1 k2) in He by (intros ->; eapply dlt_irrefl; eassumption).
        rewrite (above_get_none_lt rv k2 k1 l1 C A1) in He. discriminate. }
    subst k2.
    assert (Hv : v1 = v2).
    { specialize (He k1). cbn [kv_get] in He. rewrite eqb_refl in He. congruence. }
    subst v2. f_equal. apply IH; try assumption.
    intros k. destruct (eqb_dec k1 k) as [->|Hne].
    + rewrite (above_get_none rv k l1 A1), (above_get_none rv k l2 A2). reflexivity.
    + specialize (He k). cbn [kv_get] in He. rewrite (eqb_neq _ _ Hne) in He. exact He.
Qed.

(* ---------- put / delete (ascending lists) ---------- *)
Notation sorted := (dsorted false).

Lemma lex_cmp_dcmp a b : lex_cmp a b = dcmp false a b.
Proof. reflexivity. Qed.

Lemma kv_get_put k v l k' : kv_get (kv_put k v l) k' = if bytes_eqb k k' then Some v else kv_get l k'.
Proof.
  induction l as [|[k0 v0] l IH]; cbn [kv_put kv_get]; [reflexivity|].
  destruct (lex_cmp k k0) eqn:C; cbn [kv_get].
  - apply lex_cmp_eq in C; subst k0. destruct (bytes_eqb k k'); reflexivity.
  - reflexivity.
  - rewrite IH. destruct (bytes_eqb k k') eqn:E; [|reflexivity].
    apply bytes_eqb_eq in E; subst k'. rewrite eqb_neq; [reflexivity|].
    intros ->. rewrite lex_cmp_refl in C. discriminate.
Qed.

Lemma above_put x k v l : dlt false x k -> above false x l -> above false x (kv_put k v l).
Proof.
  intros Hx. induction l as [|[k0 v0] l IH]; intros Ha; cbn [kv_put].
  - constructor; [exact Hx|constructor].
  - inversion Ha; subst. destruct (lex_cmp k k0).
    + constructor; assumption.
    + constructor; assumption.
    + constructor; [assumption|apply IH; assumption].
Qed.

Lemma sorted_put k v l : sorted l -> sorted (kv_put k v l).
Proof.
  induction l as [|[k0 v0] l IH]; intros Hs; cbn [kv_put].
  - constructor; constructor.
  - apply dsorted_inv in Hs. destruct Hs as [Hs Ha]. cbn in Ha.
    destruct (lex_cmp k k0) eqn:C.
    + apply lex_cmp_eq in C; subst k0. apply dsorted_cons; assumption.
    + apply dsorted_cons; [apply dsorted_cons; assumption|].
      constructor; [exact C|]. eapply above_trans; [exact C|exact Ha].
    + apply dsorted_cons; [apply IH; exact Hs|]. cbn.
      apply above_put; [|exact Ha]. apply (dcmp_gt_lt false k k0). exact C.
Qed.

Lemma kv_get_del k l k' : sorted l -> kv_get (kv_del k l) k' = if bytes_eqb k k' then None else kv_get l k'.
Proof.
  induction l as [|[k0 v0] l IH]; intros Hs; cbn [kv_del kv_get].
  - destruct (bytes_eqb k k'); reflexivity.
  - apply dsorted_inv in Hs. destruct Hs as [Hs Ha]. cbn in Ha.
    destruct (lex_cmp k k0) eqn:C; cbn [kv_get].
    + apply lex_cmp_eq in C; subst k0. destruct (bytes_eqb k k') eqn:E; [|reflexivity].
      apply bytes_eqb_eq in E; subst k'. eapply above_get_none; eassumption.
    + destruct (bytes_eqb k k') eqn:E; [|reflexivity].
      apply bytes_eqb_eq in E; subst k'. rewrite eqb_neq by (intros ->; rewrite lex_cmp_refl in C; discriminate).
      exact (above_get_none_lt false k k0 l C Ha).
    + rewrite (IH Hs). destruct (bytes_eqb k k') eqn:E; [|reflexivity].
      apply bytes_eqb_eq in E; subst k'. rewrite eqb_neq; [reflexivity|].
      intros ->. rewrite lex_cmp_refl in C. discriminate.
Qed.

Lemma above_del x k l : above false x l -> above false x (kv_del k l).
Proof.
  induction l as [|[k0 v0] l IH]; intros Ha; cbn [kv_del]; [constructor|].
  inversion Ha; subst. destruct (lex_cmp k k0); [assumption|assumption|constructor; [assumption|apply IH; assumption]].
Qed.

Lemma sorted_del k l : sorted l -> sorted (kv_del k l).
Proof.
  induction l as [|[k0 v0] l IH]; intros Hs; cbn [kv_del]; [constructor|].
  pose proof Hs as Hs0. apply dsorted_inv in Hs. destruct Hs as [Hs Ha].
  destruct (lex_cmp k k0); [exact Hs|exact Hs0|].
  apply dsorted_cons; [apply IH; exact Hs|apply above_del; exact Ha].
Qed.

(* ---------- overlay ---------- *)
Definition overlay_get (snap dirty : list kv) (k : key) : option val :=
  match kv_get dirty k with
  | Some v => if is_tomb v then None else Some v
  | None => kv_get snap k
  end.

Lemma sorted_overlay dirty : forall snap, sorted snap -> sorted (overlay snap dirty).
Proof.
  unfold overlay. induction dirty as [|[k v] d IH]; intros snap Hs; cbn [fold_left]; [exact Hs|].
  apply IH. unfold overlay_step; cbn [fst snd]. destruct (is_tomb v); [apply sorted_del|apply sorted_put]; exact Hs.
Qed.

Lemma kv_get_overlay rv dirty : forall snap k, sorted snap -> dsorted rv dirty ->
  kv_get (overlay snap dirty) k = overlay_get snap dirty k.
Proof.
  unfold overlay, overlay_get. induction dirty as [|[k0 v0] d IH]; intros snap k Hs Hd; cbn [fold_left kv_get]; [reflexivity|].
  apply dsorted_inv in Hd. destruct Hd as [Hd Ha]. cbn in Ha.
  assert (Hs' : sorted (overlay_step snap (k0, v0))).
  { unfold overlay_step; cbn [fst snd]. destruct (is_tomb v0); [apply sorted_del|apply sorted_put]; exact Hs. }
  rewrite (IH _ k Hs' Hd).
  destruct (bytes_eqb k0 k) eqn:E.
  - apply bytes_eqb_eq in E; subst k. rewrite (above_get_none rv k0 d Ha).
    unfold overlay_step; cbn [fst snd]. destruct (is_tomb v0).
    + rewrite (kv_get_del _ _ _ Hs), eqb_refl. reflexivity.
    + rewrite kv_get_put, eqb_refl. reflexivity.
  - destruct (kv_get d k); [reflexivity|].
    unfold overlay_step; cbn [fst snd]. destruct (is_tomb v0).
    + rewrite (kv_get_del _ _ _ Hs), E. reflexivity.
    + rewrite kv_get_put, E. reflexivity.
Qed.

(* ---------- range filter, reversal ---------- *)
Lemma above_filter rv x (f : kv -> bool) l : above rv x l -> above rv x (filter f l).
Proof.
  induction l as [|e l IH]; intros Ha; cbn [filter]; [constructor|].
  inversion Ha; subst. destruct (f e); [constructor; [assumption|apply IH; assumption]|apply IH; assumption].
Qed.
Lemma dsorted_filter rv (f : kv -> bool) l : dsorted rv l -> dsorted rv (filter f l).
Proof.
  induction l as [|e l IH]; intros Hs; cbn [filter]; [constructor|].
  apply dsorted_inv in Hs. destruct Hs as [Hs Ha].
  destruct (f e); [apply dsorted_cons; [apply IH; exact Hs|apply above_filter; exact Ha]|apply IH; exact Hs].
Qed.
Lemma dsorted_range rv lo hi l : dsorted rv l -> dsorted rv (range lo hi l).
Proof. apply dsorted_filter. Qed.

Lemma kv_get_range lo hi l k : kv_get (range lo hi l) k = if in_range lo hi k then kv_get l k else None.
Proof.
  unfold range. induction l as [|[k0 v0] l IH]; cbn [filter kv_get fst].
  - destruct (in_range lo hi k); reflexivity.
  - destruct (in_range lo hi k0) eqn:R; cbn [kv_get].
    + destruct (bytes_eqb k0 k) eqn:E; [|exact IH].
      apply bytes_eqb_eq in E; subst k0. rewrite R. reflexivity.
    + rewrite IH. destruct (bytes_eqb k0 k) eqn:E; [|reflexivity].
      apply bytes_eqb_eq in E; subst k0. rewrite R. reflexivity.
Qed.

Lemma dlt_flip a b : dlt true a b <-> dlt false b a.
Proof.
  unfold dlt, dcmp. rewrite (lex_cmp_antisym b a). destruct (lex_cmp b a); cbn; split; congruence.
Qed.

Lemma dsorted_app rv l1 l2 : dsorted rv l1 -> dsorted rv l2 ->
  (forall x y, In x l1 -> In y l2 -> dlt rv (fst x) (fst y)) -> dsorted rv (l1 ++ l2).
Proof.
  induction l1 as [|e l1 IH]; intros H1 H2 H; cbn [app]; [exact H2|].
  apply dsorted_inv in H1. destruct H1 as [H1 Ha].
  apply dsorted_cons.
  - apply IH; try assumption. intros x y Hx Hy. apply H; [right; exact Hx|exact Hy].
  - unfold above. apply Forall_app. split; [exact Ha|].
    apply Forall_forall. intros y Hy. apply H; [left; reflexivity|exact Hy].
Qed.

Lemma dsorted_rev l : sorted l -> dsorted true (rev l).
Proof.
  induction l as [|e l IH]; intros Hs; cbn [rev]; [constructor|].
  apply dsorted_inv in Hs. destruct Hs as [Hs Ha].
  apply dsorted_app; [apply IH; exact Hs|constructor; constructor|].
  intros x y Hx [<-|[]]. apply in_rev in Hx. apply dlt_flip.
  unfold above in Ha. rewrite Forall_forall in Ha. apply Ha. exact Hx.
Qed.

Lemma kv_get_rev l k : sorted l -> kv_get (rev l) k = kv_get l k.
Proof.
  intros Hs. apply opt_ext. intros v.
  rewrite (kv_get_In true (rev l) k v (dsorted_rev l Hs)), (kv_get_In false l k v Hs).
  rewrite <- in_rev. reflexivity.
Qed.

(* membership in the key list *)
Lemma key_mem_In k l : key_mem k l = true <-> In k l.
Proof.
  induction l as [|k0 l IH]; cbn [key_mem In]; [split; [discriminate|contradiction]|].
  rewrite Bool.orb_true_iff, IH, bytes_eqb_eq. reflexivity.
Qed.
