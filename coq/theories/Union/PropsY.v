(* Union/PropsY.v — C07: Dirty and SnapshotSeqNo of the buffer (outer layer `ystep` of ModelX.v: key length
   limit, Dirty, SnapshotSeqNo on top of the extended buffer). Only statements; proofs in ProofsY.v. *)
From Verif Require Import Base.Lex Union.Model Union.ModelX Union.ProofsMap Union.ProofsBuf Union.ProofsX Union.ProofsY.

(* The outer layer steps the extended buffer exactly as `xstep` does, or not at all (empty value, key longer than
   65535, entry too large, dead handle): every theorem about `xstep` states speaks about it. *)
Theorem C07_y_value_part : forall st o,
  y_x (fst (ystep st o)) = y_x st /\ y_sseq (fst (ystep st o)) = y_sseq st /\ y_dirty (fst (ystep st o)) = y_dirty st \/
  y_x (fst (ystep st o)) = fst (xstep (y_x st) o).
Proof. exact ystep_x. Qed.
Print Assumptions C07_y_value_part.

(* Dirty, for every legal operation sequence from the empty buffer (legal: RevertToCheckpoint only to a position
   between the top staging position and the end of the log): a buffer that is NOT dirty holds nothing outside
   its staging levels — the staging-blind view (SnapshotGetter) is empty — and no key carries a persistent flag.
   Nothing more: values written inside an open level do not make it dirty (C07_clean_buffer_may_hold_writes). *)
Theorem C07_dirty : forall ops, ylegal ops ybuf_empty ->
  let st := yrun ops ybuf_empty in
  y_dirty st = false ->
  (forall k, x_snap_get (y_x st) k = None) /\
  (forall k, match x_get_flags (y_x st) k with Some f => N.land f persistent_mask = 0 | None => True end).
Proof. exact dirty_spec. Qed.
Print Assumptions C07_dirty.

(* Dirty is sticky *)
Theorem C07_dirty_monotone : forall st o, y_dirty (fst (ystep st o)) = false -> y_dirty st = false.
Proof. exact dirty_mono. Qed.
Print Assumptions C07_dirty_monotone.

(* "not dirty" must not be read as "empty" (the confusion behind seeds C07-1/5/8): a clean buffer can hold the
   transaction's writes in an open staging level; Len, not Dirty, tells whether anything is buffered (C07_len_zero) *)
Theorem C07_clean_buffer_may_hold_writes : exists ops k v,
  ylegal ops ybuf_empty /\
  let st := yrun ops ybuf_empty in
  y_dirty st = false /\ buf_get (x_b (y_x st)) k = Some v /\ x_len (y_x st) = 1.
Proof. exact clean_buffer_may_hold_writes. Qed.
Print Assumptions C07_clean_buffer_may_hold_writes.

(* SnapshotSeqNo is a sound staleness detector for the staging-blind view: along every legal sequence from the
   empty buffer, an operation that leaves SnapshotSeqNo unchanged leaves every SnapshotGetter / SnapshotIter /
   SnapshotIterReverse result unchanged. *)
Theorem C07_snapshot_seq : forall ops o, ylegal (ops ++ [o]) ybuf_empty ->
  let st := yrun ops ybuf_empty in
  y_sseq (fst (ystep st o)) = y_sseq st ->
  (forall k, x_snap_get (y_x (fst (ystep st o))) k = x_snap_get (y_x st) k) /\
  (forall lo hi, x_snap_iter (y_x (fst (ystep st o))) lo hi = x_snap_iter (y_x st) lo hi) /\
  (forall lo hi, x_snap_iter_rev (y_x (fst (ystep st o))) lo hi = x_snap_iter_rev (y_x st) lo hi).
Proof. exact snapshot_seq_spec. Qed.
Print Assumptions C07_snapshot_seq.

(* Status of Set / SetWithFlags(k, v): an empty value is refused first (ErrCannotSetNilValue), then a key longer
   than 65535 (ErrKeyTooLarge), then len k + len v above the entry limit (ErrEntryTooLarge) — all three without
   any effect; otherwise the write is applied (WriteSeqNo moves, the value is readable) and the answer is
   ErrTxnTooLarge iff the new Size exceeds the buffer limit — the write stays applied. *)
Theorem C07_write_status : forall st k v f,
  let r := snd (ystep st (XWrite k v f)) in
  let st' := fst (ystep st (XWrite k v f)) in
  let x := y_x st in
  (is_tomb v = true -> r = 1%nat /\ st' = st) /\
  (is_tomb v = false -> max_key_len < len_n k -> r = 5%nat /\ st' = st) /\
  (is_tomb v = false -> len_n k <= max_key_len -> x_elim x < len_n k + len_n v -> r = 3%nat /\ st' = st) /\
  (is_tomb v = false -> len_n k <= max_key_len -> len_n k + len_n v <= x_elim x ->
     x_wseq (y_x st') = x_wseq x + 1 /\ buf_get (x_b (y_x st')) k = Some v /\
     (r = 4%nat <-> x_blim x < x_size (y_x st')) /\ (r = 0%nat <-> x_size (y_x st') <= x_blim x)).
Proof. exact write_status. Qed.
Print Assumptions C07_write_status.

(* ---------- non-vacuity ---------- *)
Example dirty_example :
  let ops := [XStaging; XWrite [97] [1] []; XCheckpoint; XWrite [98] [2] []; XRevert 1; XStaging; XDelete [99] [];
              XCleanup 2; XFlags [97] [9%nat]] in
  let st := yrun ops ybuf_empty in
  ylegal ops ybuf_empty /\ y_dirty st = false /\ y_sseq st = 1 /\ x_len (y_x st) = 1 /\    (* the revert above stages[0] moved SnapshotSeqNo *)
  y_dirty (fst (ystep st (XRelease 1))) = true /\ y_sseq (fst (ystep st (XRelease 1))) = 2 /\
  y_dirty (fst (ystep st (XFlags [97] [2%nat]))) = true /\        (* KeyLocked is persistent *)
  y_dirty (fst (ystep st (XCleanup 1))) = false /\ x_len (y_x (fst (ystep st (XCleanup 1)))) = 0.
Proof. split; [cbn; repeat split; lia|]. vm_compute. repeat split; reflexivity. Qed.

Example key_limit_example :
  let long := repeat 107 65536 in
  snd (ystep ybuf_empty (XWrite long [1] [])) = 5%nat /\ fst (ystep ybuf_empty (XWrite long [1] [])) = ybuf_empty /\
  fst (ystep ybuf_empty (XFlags long [2%nat])) = ybuf_empty /\
  snd (ystep ybuf_empty (XWrite (tl long) [1] [])) = 0%nat.
Proof. vm_compute. repeat split; reflexivity. Qed.
