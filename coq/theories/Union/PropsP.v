(* Union/PropsP.v — C07 for the pipelined buffer's read path. Only statements; proofs in ProofsP.v. *)
From Verif Require Import Base.Lex Union.Model Union.ModelP Union.ProofsMap Union.ProofsBuf Union.ProofsP Union.ProofsPropsP.

(* In every state reachable from a fresh pipelined buffer (any flushed store to start with) by any sequence of
   writes, staging / release / cleanup, batch gets, flush starts, flush completions and flush waits:
   PipelinedMemDB.get = the latest of (mutable buffer, flushing buffer, flushed store) — the batch-get cache
   never changes an answer, in particular a cached flushed tombstone stays a tombstone — and
   KVUnionStore.Get over it = that, overlaid on the snapshot, empty value = not exist. *)
Theorem C07_pipelined_get : forall store ops snap k,
  let st := prun ops (pbuf_empty store) in
  p_get st k = p_lookup st k /\
  pu_get snap st k =
    match (match p_lookup st k with Some v => Some v | None => kv_get snap k end) with
    | Some v => if is_tomb v then None else Some v
    | None => None
    end.
Proof. exact C07_pipelined_get_proof. Qed.
Print Assumptions C07_pipelined_get.

(* Flushing is invisible to reads: starting a flush (no staging level open), its completion, FlushWait and a
   batch get (cache fill) leave the lookup of every key unchanged in every reachable state. *)
Theorem C07_pipelined_flush_invisible : forall store ops o k,
  let st := prun ops (pbuf_empty store) in
  match o with
  | PFlush => b_stages (p_mem st) = []
  | PFlushDone | PFlushWait | PBatchGet _ => True
  | _ => False
  end ->
  p_lookup (fst (pstep st o)) k = p_lookup st k /\ p_get (fst (pstep st o)) k = p_get st k.
Proof. exact C07_pipelined_flush_invisible_proof. Qed.
Print Assumptions C07_pipelined_flush_invisible.

(* PipelinedMemDB.BatchGet and BufferBatchGetter over it, in ANY state and for arbitrary key lists (duplicates
   included): the buffer's map holds exactly the requested keys found in (mutable buffer, flushing buffer,
   flushed store) with those values (flushed deletions as empty values); the snapshot is handed exactly the
   requested keys found in none of them; the transaction's result is the overlay restricted to the requested
   keys — a flushed or buffered deletion hides the snapshot's value. *)
Theorem C07_pipelined_batch_get : forall st snap keys, no_tomb snap -> dsorted false snap ->
  (forall k, kv_get (fst (p_batch_get st keys)) k = if key_mem k keys then p_lookup st k else None) /\
  let '(handed, res) := pu_batch_get snap st keys in
  handed = filter (fun k => match p_lookup st k with None => true | Some _ => false end) keys /\
  dsorted false res /\
  forall k, kv_get res k =
    if key_mem k keys
    then match (match p_lookup st k with Some v => Some v | None => kv_get snap k end) with
         | Some v => if is_tomb v then None else Some v
         | None => None
         end
    else None.
Proof. exact C07_pipelined_batch_get_proof. Qed.
Print Assumptions C07_pipelined_batch_get.

(* Flush(true) is refused exactly when a staging level is open *)
Theorem C07_pipelined_flush_status : forall st, snd (pstep st PFlush) = 1%nat <-> b_stages (p_mem st) <> [].
Proof. exact flush_status. Qed.
Print Assumptions C07_pipelined_flush_status.

(* regression witness (seed C07-6): reading a cached empty value as "not in the flushed store" resurrects a
   key whose deletion has been flushed: Delete(a); Flush; FlushWait; BatchGet([a]); Get(a) over snapshot {a: x} *)
Theorem C07_pipelined_empty_as_miss_refuted : exists ops snap k,
  let st := prun ops (pbuf_empty []) in
  pu_get snap st k = None /\
  (match (match p_get_empty_as_miss st k with Some v => Some v | None => kv_get snap k end) with
   | Some v => if is_tomb v then None else Some v | None => None end) <> None.
Proof. exact C07_pipelined_empty_as_miss_refuted_proof. Qed.
Print Assumptions C07_pipelined_empty_as_miss_refuted.

Example pipelined_example :
  let snap := [([97], [1]); ([98], [2]); ([99], [3])] in
  let st := prun [PDel [97]; PSet [98] [9]; PFlush; PSet [100] [4]; PBatchGet [[97]; [98]]; PFlushDone; PFlush;
                  PFlushDone; PFlushWait; PBatchGet [[97]; [98]; [101]]; PStaging; PDel [100]; PCleanup 1] (pbuf_empty []) in
  pu_get snap st [97] = None /\ pu_get snap st [98] = Some [9] /\ pu_get snap st [99] = Some [3] /\
  pu_get snap st [100] = Some [4] /\ p_cache st = None /\ p_flushing st = None /\
  p_store st = [([97], []); ([98], [9]); ([100], [4])] /\
  pu_batch_get snap st [[97]; [97]; [99]; [100]] = ([[99]], [([99], [3]); ([100], [4])]).
Proof. vm_compute. repeat split; reflexivity. Qed.
