(* Union/ProofsPropsX.v — proofs of the statements of PropsX.v that need more than one lemma application. *)
From Verif Require Import Base.Lex Union.Model Union.ModelX Union.ProofsMap Union.ProofsBuf Union.ProofsX Union.ProofsSize Union.ProofsBatch.
From Coq Require Import Sorted ZifyN ZifyNat.
Notation sorted := (dsorted false).

Lemma C07_flags_undo_proof : forall st n stages' cp' k, sorted (x_kf st) ->
  let log := b_log (x_b st) in
  let cnt := (length log - n)%nat in
  x_get_flags (xrevert_to st n stages' cp') k =
    if is_some (kv_get (firstn cnt log) k) && negb (is_some (kv_get (skipn cnt log) k))
    then mask_flags (x_get_flags st k) else x_get_flags st k.
Proof. intros st n stages' cp' k Hs. exact (proj2 (xrevert_flags st n stages' cp' k Hs)). Qed.

Lemma C07_flags_survive_cleanup_proof : forall st ops k,
  xwf st -> kv_get (b_log (x_b st)) k <> None ->
  let st1 := fst (xstep st XStaging) in
  let h := staging_handle (x_b st) in
  Forall (fun o => scoped_op h (checkpoint_pos (x_b st)) (erase o)) ops ->
  handle_live (x_b (xrun ops st1)) h = true ->
  x_get_flags (fst (xstep (xrun ops st1) (XCleanup h))) k = x_get_flags (xrun ops st1) k.
Proof.
  intros st ops k Hwf Hk st1 h Ho Hl.
  pose proof (xinv_run _ _ ops st1 (invp_staging true (x_b st)) Ho) as [(x & extra & HL & HS & HF) _].
  assert (extra = []) by (eapply live_no_extra; [exact HS|exact Hl|reflexivity]).
  subst extra. cbn [app] in HS.
  assert (Hwf' : xwf (xrun ops st1)) by (apply xwf_run; apply (xwf_step st XStaging); exact Hwf).
  cbn [xstep]. rewrite Hl. cbn [fst]. unfold x_get_flags.
  rewrite (proj2 (xrevert_flags (xrun ops st1) _ _ _ k (proj1 Hwf'))).
  rewrite HS, HL. cbn [hd]. rewrite app_length.
  replace (length x + length (b_log (x_b st)) - length (b_log (x_b st)))%nat with (length x) by lia.
  rewrite skipn_app, skipn_all, Nat.sub_diag. cbn [skipn app].
  destruct (kv_get (b_log (x_b st)) k); [|congruence]. cbn [is_some negb]. rewrite Bool.andb_false_r. reflexivity.
Qed.

Lemma C07_cleanup_restores_flags_refuted_proof : exists st ops k,
  xwf st /\
  let st1 := fst (xstep st XStaging) in
  let h := staging_handle (x_b st) in
  Forall (fun o => scoped_op h (checkpoint_pos (x_b st)) (erase o)) ops /\
  handle_live (x_b (xrun ops st1)) h = true /\
  x_get_flags (fst (xstep (xrun ops st1) (XCleanup h))) k <> x_get_flags st k.
Proof.
  exists (xrun [XWrite [97] [120] []] xbuf_empty), [XFlags [97] [0%nat]], [97].
  split; [apply xwf_run; apply xwf_empty|].
  split; [repeat constructor|]. split; [vm_compute; reflexivity|].
  vm_compute. discriminate.
Qed.

Lemma C07_len_proof : forall ops,
  let st := xrun ops xbuf_empty in
  sorted (x_kf st) /\
  x_len st = N.of_nat (length (x_kf st)) /\
  (forall k, buf_get (x_b st) k <> None -> x_get_flags st k <> None).
Proof.
  intros ops st. destruct (xwf_run ops xbuf_empty xwf_empty) as (Hs & Hl & Hk).
  split; [exact Hs|]. split; [exact Hl|].
  intros k H. unfold x_get_flags. rewrite fl_get_kv_get. apply Hk. exact H.
Qed.

Lemma C07_snapshot_ignores_staging_proof : forall st ops k lo hi,
  b_stages (x_b st) = [] ->
  (x_snap_get st k = buf_get (x_b st) k) /\
  (let st1 := fst (xstep st XStaging) in
   Forall (fun o => scoped_op 1 (checkpoint_pos (x_b st)) (erase o)) ops ->
   x_snap_get (xrun ops st1) k = buf_get (x_b st) k /\
   x_snap_iter (xrun ops st1) lo hi = range lo hi (buf_map (x_b st)) /\
   x_snap_iter_rev (xrun ops st1) lo hi = rev (range lo hi (buf_map (x_b st)))).
Proof.
  intros st ops k lo hi H0. split.
  - unfold x_snap_get, base_log. rewrite H0. reflexivity.
  - intros st1 Ho.
    assert (Hi : invp true (b_log (x_b st)) [length (b_log (x_b st))] (x_b st1)).
    { pose proof (invp_staging true (x_b st)) as Hi. rewrite H0 in Hi. exact Hi. }
    apply (xinv_run _ _ ops st1) in Hi; [|exact Ho]. destruct Hi as [Hi _].
    pose proof (base_log_inv _ _ Hi) as E.
    unfold x_snap_get, x_snap_iter, x_snap_iter_rev, x_snap_map. rewrite E. repeat split; reflexivity.
Qed.

Lemma kv_get_fold_put (l : list (key * val)) k :
  kv_get (fold_right (fun e m => kv_put (fst e) (snd e) m) [] l) k = kv_get l k.
Proof.
  induction l as [|[k0 v0] l IH]; cbn [fold_right kv_get fst snd]; [reflexivity|].
  rewrite kv_get_put, IH. reflexivity.
Qed.

Lemma C07_snapshot_batch_get_proof : forall st snap keys, no_tomb snap -> dsorted false snap ->
  let '(handed, res) := x_snap_batch_get snap st keys in
  handed = filter (fun k => match x_snap_get st k with None => true | Some _ => false end) keys /\
  dsorted false res /\
  forall k, kv_get res k =
    if key_mem k keys
    then match (match x_snap_get st k with Some v => Some v | None => kv_get snap k end) with
         | Some v => if is_tomb v then None else Some v
         | None => None
         end
    else None.
Proof.
  intros st snap keys Hn Hs. unfold x_snap_batch_get.
  pose proof (Union.ProofsBatch.batch_get_spec snap (x_snap_map st) keys Hn Hs) as H.
  destruct (buffer_batch_get snap (x_snap_map st) keys) as [handed res].
  destruct H as (Hh & Hr & Hg). split; [|split; [exact Hr|]].
  - rewrite Hh. apply filter_ext. intros k. unfold Union.ProofsBatch.unbuffered, x_snap_map, x_snap_get.
    rewrite kv_get_fold_put. reflexivity.
  - intros k. rewrite Hg. destruct (key_mem k keys); [|reflexivity].
    unfold union_get, x_snap_map, x_snap_get. rewrite kv_get_fold_put. reflexivity.
Qed.

(* MemDB.BatchGet returns early when Len() = 0: sound, because every buffered key is counted *)
Lemma C07_len_zero_proof : forall ops,
  let st := xrun ops xbuf_empty in
  x_len st = 0 -> forall k, buf_get (x_b st) k = None /\ x_get_flags st k = None.
Proof.
  intros ops st H k. destruct (xwf_run ops xbuf_empty xwf_empty) as (Hs & Hl & Hk). fold st in Hs, Hl, Hk.
  rewrite Hl in H. assert (E : x_kf st = []) by (destruct (x_kf st); [reflexivity|cbn in H; lia]).
  split.
  - destruct (buf_get (x_b st) k) eqn:B; [|reflexivity]. exfalso.
    apply (Hk k); [unfold buf_get in B; congruence|rewrite E; reflexivity].
  - unfold x_get_flags, fl_get. rewrite E. reflexivity.
Qed.

(* ---------- SelectValueHistory / InspectStage ---------- *)
Lemma C07_history_proof : forall st k,
  hd_error (x_history st k) = buf_get (x_b st) k /\
  (forall v, In v (x_history st k) <-> In (k, v) (b_log (x_b st))).
Proof.
  intros st k. unfold x_history, buf_get. split.
  - induction (b_log (x_b st)) as [|[k0 v0] l IH]; cbn [filter map kv_get fst hd_error]; [reflexivity|].
    destruct (bytes_eqb k0 k); [reflexivity|exact IH].
  - intros v. rewrite in_map_iff. split.
    + intros ([k0 v0] & E & H). cbn in E. subst v0. apply filter_In in H. destruct H as [H1 H2].
      cbn in H2. apply bytes_eqb_eq in H2. subst k0. exact H1.
    + intros H. exists (k, v). split; [reflexivity|]. apply filter_In. split; [exact H|]. cbn. apply eqb_refl.
Qed.

Lemma key_mem_cons k k0 seen : key_mem k (k0 :: seen) = bytes_eqb k0 k || key_mem k seen.
Proof. reflexivity. Qed.

Lemma heads_only_spec l : forall seen k v,
  In (k, v) (heads_only seen l) <-> key_mem k seen = false /\ kv_get l k = Some v.
Proof.
  induction l as [|[k0 v0] r IH]; intros seen k v; cbn [heads_only kv_get].
  - split; [contradiction|intros [_ H]; discriminate].
  - destruct (key_mem k0 seen) eqn:M.
    + rewrite IH. destruct (bytes_eqb k0 k) eqn:E; [|reflexivity].
      apply bytes_eqb_eq in E; subst k0. rewrite M. split; intros [H _]; discriminate.
    + cbn [In]. rewrite IH, key_mem_cons. destruct (bytes_eqb k0 k) eqn:E; cbn [orb].
      * apply bytes_eqb_eq in E; subst k0. split.
        -- intros [[= ->]|[H _]]; [split; [exact M|reflexivity]|discriminate].
        -- intros [_ [= ->]]. left; reflexivity.
      * split.
        -- intros [[= -> ->]|H]; [rewrite eqb_refl in E; discriminate|exact H].
        -- intros H. right; exact H.
Qed.

Lemma heads_only_nodup l : forall seen, NoDup (map fst (heads_only seen l)).
Proof.
  induction l as [|[k0 v0] r IH]; intros seen; cbn [heads_only]; [constructor|].
  destruct (key_mem k0 seen); [apply IH|]. cbn [map fst]. constructor; [|apply IH].
  intros H. apply in_map_iff in H. destruct H as ([k v] & E & H). cbn in E. subst k.
  apply heads_only_spec in H. destruct H as [H _]. rewrite key_mem_cons, eqb_refl in H. discriminate.
Qed.

Lemma kv_get_firstn (l : list (key * val)) m k v : kv_get (firstn m l) k = Some v -> kv_get l k = Some v.
Proof.
  revert m. induction l as [|[k0 v0] r IH]; intros m H; destruct m; cbn [firstn kv_get] in *; try discriminate.
  destruct (bytes_eqb k0 k); [exact H|eapply IH; exact H].
Qed.

Lemma C07_inspect_stage_proof : forall st h,
  let b := x_b st in
  let pos := nth (length (b_stages b) - h) (b_stages b) O in
  let lvl := firstn (length (b_log b) - pos) (b_log b) in     (* the log entries of level h and above *)
  NoDup (map (fun e => fst (fst e)) (x_inspect_stage st h)) /\
  (forall k f v, In (k, f, v) (x_inspect_stage st h) <->
                 kv_get lvl k = Some v /\ f = match x_get_flags st k with Some f => f | None => 0 end) /\
  (forall k f v, In (k, f, v) (x_inspect_stage st h) -> buf_get b k = Some v).
Proof.
  intros st h b pos lvl. unfold x_inspect_stage. fold b. fold pos. fold lvl.
  assert (S : forall k f v, In (k, f, v) (map (fun e => (fst e, match fl_get (x_kf st) (fst e) with Some f => f | None => 0 end, snd e)) (heads_only [] lvl)) <->
              kv_get lvl k = Some v /\ f = match x_get_flags st k with Some f => f | None => 0 end).
  { intros k f v. rewrite in_map_iff. split.
    - intros ([k0 v0] & E & H). cbn [fst snd] in E. injection E as -> <- ->.
      apply heads_only_spec in H. destruct H as [_ H]. split; [exact H|reflexivity].
    - intros [H ->]. exists (k, v). split; [reflexivity|]. apply heads_only_spec. split; [reflexivity|exact H]. }
  split; [|split; [exact S|]].
  - rewrite map_map. cbn [fst]. apply heads_only_nodup.
  - intros k f v H. apply S in H. destruct H as [H _]. unfold buf_get. eapply kv_get_firstn. exact H.
Qed.

(* ---------- what a value write does to the histories ---------- *)
Lemma try_swap_history l : forall k v room l' k2, try_swap l k v room = Some l' ->
  map snd (filter (fun e => bytes_eqb (fst e) k2) l') =
    if bytes_eqb k k2 then v :: tl (map snd (filter (fun e => bytes_eqb (fst e) k2) l))
    else map snd (filter (fun e => bytes_eqb (fst e) k2) l).
Proof.
  induction l as [|[k' v'] l IH]; intros k v room l' k2 H; cbn [try_swap] in H; [discriminate|].
  destruct (bytes_eqb k' k) eqn:E.
  - destruct room; [discriminate|].
    destruct (negb (is_tomb v') && Nat.eqb (length v') (length v)); [|discriminate].
    injection H as <-. apply bytes_eqb_eq in E; subst k'. cbn [filter fst].
    destruct (bytes_eqb k k2); reflexivity.
  - destruct (try_swap l k v (pred room)) eqn:T; [|discriminate]. injection H as <-.
    cbn [filter fst]. specialize (IH _ _ _ _ k2 T).
    destruct (bytes_eqb k' k2) eqn:E2; cbn [map snd].
    + apply bytes_eqb_eq in E2; subst k2. rewrite eqb_sym, E in IH |- *. rewrite IH. reflexivity.
    + exact IH.
Qed.

Lemma C07_history_write_proof : forall st b k v k2,
  x_history st k2 = b_history (x_b st) k2 /\
  (k2 <> k -> b_history (write true b k v) k2 = b_history b k2) /\
  (b_history (write true b k v) k = v :: b_history b k \/
   (b_history (write true b k v) k = v :: tl (b_history b k) /\
    exists o, hd_error (b_history b k) = Some o /\ length o = length v /\ is_tomb o = false)).
Proof.
  intros st b k v k2. split; [reflexivity|]. unfold b_history, write.
  destruct (try_swap (b_log b) k v (room_of b)) as [l'|] eqn:T; cbn [b_log].
  - split.
    + intros Hn. rewrite (try_swap_history _ _ _ _ _ k2 T). rewrite eqb_neq by (intros E; apply Hn; symmetry; exact E). reflexivity.
    + right. split; [rewrite (try_swap_history _ _ _ _ _ k T), eqb_refl; reflexivity|].
      clear -T. revert T. generalize (room_of b). revert l'. induction (b_log b) as [|[k' v'] l IH]; intros l' room T; cbn [try_swap] in T; [discriminate|].
      cbn [filter fst]. destruct (bytes_eqb k' k) eqn:E.
      * destruct room; [discriminate|]. destruct (negb (is_tomb v') && Nat.eqb (length v') (length v)) eqn:B; [|discriminate].
        apply Bool.andb_true_iff in B. destruct B as [B1 B2]. apply Nat.eqb_eq in B2. apply Bool.negb_true_iff in B1.
        exists v'. cbn. repeat split; assumption.
      * destruct (try_swap l k v (pred room)) eqn:T2; [|discriminate]. eapply IH. exact T2.
  - split.
    + intros Hn. cbn [filter fst]. rewrite eqb_neq by (intros E; apply Hn; symmetry; exact E). reflexivity.
    + left. cbn [filter fst]. rewrite eqb_refl. reflexivity.
Qed.
