(* Union/ProofsIter.v — the cursor machine of UnionIter (update_cur / Next, collected) is the two-way merge,
   and the merge of two sorted inputs is the sorted overlay. *)
From Verif Require Import Base.Lex Union.Model Union.ProofsMap.
From Coq Require Import Sorted.

(* the merge written as a plain recursive function *)
Fixpoint merge (rv : bool) (d : list kv) : list kv -> list kv :=
  match d with
  | [] => fun s => s
  | (dk, dv) :: d' =>
      fix inner (s : list kv) : list kv :=
        match s with
        | [] => if is_tomb dv then merge rv d' [] else (dk, dv) :: merge rv d' []
        | (sk, sv) :: s' =>
            match dcmp rv dk sk with
            | Eq => if is_tomb dv then merge rv d' s' else (dk, dv) :: merge rv d' s'
            | Gt => (sk, sv) :: inner s'
            | Lt => if is_tomb dv then merge rv d' s else (dk, dv) :: merge rv d' s
            end
        end
  end.

Lemma merge_nil_l rv s : merge rv [] s = s.
Proof. reflexivity. Qed.

Lemma merge_cons_nil rv dk dv d' :
  merge rv ((dk, dv) :: d') [] = if is_tomb dv then merge rv d' [] else (dk, dv) :: merge rv d' [].
Proof. reflexivity. Qed.

Lemma merge_cons_cons rv dk dv d' sk sv s' :
  merge rv ((dk, dv) :: d') ((sk, sv) :: s') =
    match dcmp rv dk sk with
    | Eq => if is_tomb dv then merge rv d' s' else (dk, dv) :: merge rv d' s'
    | Gt => (sk, sv) :: merge rv ((dk, dv) :: d') s'
    | Lt => if is_tomb dv then merge rv d' ((sk, sv) :: s') else (dk, dv) :: merge rv d' ((sk, sv) :: s')
    end.
Proof. reflexivity. Qed.

(* ---------- cursor machine = merge ---------- *)
Lemma ucollect_merge rv : forall d s fuel, (length d + length s < fuel)%nat ->
  ucollect rv fuel (update_cur rv d s) = merge rv d s.
Proof.
  induction d as [|[dk dv] d' IHd].
  - (* dirty exhausted: the snapshot cursor is drained *)
    induction s as [|[sk sv] s' IHs]; intros fuel Hf.
    + destruct fuel; reflexivity.
    + destruct fuel as [|f]; [cbn in Hf; lia|].
      cbn [update_cur]. cbn [ucollect u_valid ucur_kv u_dirty u_s u_d hd_error ucur_next tl].
      rewrite merge_nil_l. f_equal. rewrite (IHs f) by (cbn in Hf |- *; lia). reflexivity.
  - induction s as [|[sk sv] s' IHs]; intros fuel Hf.
    + cbn [update_cur]. rewrite merge_cons_nil. destruct (is_tomb dv) eqn:T.
      * apply IHd. cbn in Hf |- *. lia.
      * destruct fuel as [|f]; [cbn in Hf; lia|].
        cbn [ucollect u_valid ucur_kv u_dirty u_s u_d hd_error ucur_next tl]. f_equal.
        apply IHd. cbn in Hf |- *. lia.
    + cbn [update_cur]. rewrite merge_cons_cons. destruct (dcmp rv dk sk) eqn:C.
      * destruct (is_tomb dv) eqn:T.
        -- apply IHd. cbn in Hf |- *. lia.
        -- destruct fuel as [|f]; [cbn in Hf; lia|].
           cbn [ucollect u_valid ucur_kv u_dirty u_s u_d hd_error ucur_next tl]. f_equal.
           apply IHd. cbn in Hf |- *. lia.
      * destruct (is_tomb dv) eqn:T.
        -- apply IHd. cbn in Hf |- *. lia.
        -- destruct fuel as [|f]; [cbn in Hf; lia|].
           cbn [ucollect u_valid ucur_kv u_dirty u_s u_d hd_error ucur_next tl]. f_equal.
           apply IHd. cbn in Hf |- *. lia.
      * destruct fuel as [|f]; [cbn in Hf; lia|].
        cbn [ucollect u_valid ucur_kv u_dirty u_s u_d hd_error ucur_next tl]. f_equal.
        apply IHs. cbn in Hf |- *. lia.
Qed.

Lemma union_iter_merge rv d s : union_iter rv d s = merge rv d s.
Proof. unfold union_iter. apply ucollect_merge. lia. Qed.

(* ---------- merge of sorted inputs ---------- *)
Lemma above_merge rv x : forall d s, above rv x d -> above rv x s -> above rv x (merge rv d s).
Proof.
  induction d as [|[dk dv] d' IHd]; [intros s _ Hs; exact Hs|].
  induction s as [|[sk sv] s' IHs]; intros Hd Hs.
  - rewrite merge_cons_nil. inversion Hd; subst.
    destruct (is_tomb dv); [apply IHd; [assumption|constructor]|constructor; [assumption|apply IHd; [assumption|constructor]]].
  - rewrite merge_cons_cons. inversion Hd; subst. inversion Hs; subst.
    destruct (dcmp rv dk sk).
    + destruct (is_tomb dv); [apply IHd; assumption|constructor; [assumption|apply IHd; assumption]].
    + destruct (is_tomb dv); [apply IHd; assumption|constructor; [assumption|apply IHd; assumption]].
    + constructor; [assumption|apply IHs; assumption].
Qed.

Lemma dsorted_merge rv : forall d s, dsorted rv d -> dsorted rv s -> dsorted rv (merge rv d s).
Proof.
  induction d as [|[dk dv] d' IHd]; [intros s _ Hs; exact Hs|].
  induction s as [|[sk sv] s' IHs]; intros Hd Hs.
  - rewrite merge_cons_nil. apply dsorted_inv in Hd. destruct Hd as [Hd Ha]. cbn in Ha.
    destruct (is_tomb dv); [apply IHd; [assumption|constructor]|].
    apply dsorted_cons; [apply IHd; [assumption|constructor]|apply above_merge; [assumption|constructor]].
  - rewrite merge_cons_cons.
    pose proof Hd as Hd0. pose proof Hs as Hs0.
    apply dsorted_inv in Hd. destruct Hd as [Hd Ha]. cbn in Ha.
    apply dsorted_inv in Hs. destruct Hs as [Hs Hb]. cbn in Hb.
    destruct (dcmp rv dk sk) eqn:C.
    + apply dcmp_eq in C; subst sk.
      destruct (is_tomb dv); [apply IHd; assumption|].
      apply dsorted_cons; [apply IHd; assumption|apply above_merge; assumption].
    + destruct (is_tomb dv); [apply IHd; assumption|].
      apply dsorted_cons; [apply IHd; assumption|]. cbn [fst].
      apply above_merge; [assumption|]. constructor; [exact C|eapply above_trans; [exact C|exact Hb]].
    + apply dcmp_gt_lt in C.
      apply dsorted_cons; [apply IHs; assumption|]. cbn [fst].
      apply above_merge; [|assumption]. constructor; [exact C|eapply above_trans; [exact C|exact Ha]].
Qed.

Lemma kv_get_merge rv k : forall d s, dsorted rv d -> dsorted rv s ->
  kv_get (merge rv d s) k = overlay_get s d k.
Proof.
  unfold overlay_get.
  induction d as [|[dk dv] d' IHd]; [intros s _ _; reflexivity|].
  induction s as [|[sk sv] s' IHs]; intros Hd Hs.
  - rewrite merge_cons_nil. apply dsorted_inv in Hd. destruct Hd as [Hd Ha]. cbn in Ha.
    cbn [kv_get]. destruct (bytes_eqb dk k) eqn:E.
    + apply bytes_eqb_eq in E; subst k. destruct (is_tomb dv) eqn:T.
      * rewrite (IHd [] Hd Hs), (above_get_none rv dk d' Ha). reflexivity.
      * cbn [kv_get]. rewrite eqb_refl. reflexivity.
    + destruct (is_tomb dv); [|cbn [kv_get]; rewrite E]; rewrite (IHd [] Hd Hs); reflexivity.
  - rewrite merge_cons_cons.
    pose proof Hd as Hd0. pose proof Hs as Hs0.
    apply dsorted_inv in Hd. destruct Hd as [Hd Ha]. cbn in Ha.
    apply dsorted_inv in Hs. destruct Hs as [Hs Hb]. cbn in Hb.
    destruct (dcmp rv dk sk) eqn:C.
    + (* same key in both: the buffer wins, a tombstone hides the snapshot entry *)
      apply dcmp_eq in C; subst sk. cbn [kv_get]. destruct (bytes_eqb dk k) eqn:E.
      * apply bytes_eqb_eq in E; subst k. destruct (is_tomb dv) eqn:T.
        -- rewrite (IHd s' Hd Hs), (above_get_none rv dk d' Ha), (above_get_none rv dk s' Hb). reflexivity.
        -- cbn [kv_get]. rewrite eqb_refl. reflexivity.
      * destruct (is_tomb dv); [|cbn [kv_get]; rewrite E]; rewrite (IHd s' Hd Hs); reflexivity.
    + (* buffered key first *)
      assert (Hsk : kv_get ((sk, sv) :: s') dk = None).
      { apply (above_get_none rv). constructor; [exact C|eapply above_trans; [exact C|exact Hb]]. }
      cbn [kv_get] in Hsk |- *. destruct (bytes_eqb dk k) eqn:E.
      * apply bytes_eqb_eq in E; subst k. destruct (is_tomb dv) eqn:T.
        -- rewrite (IHd _ Hd Hs0), (above_get_none rv dk d' Ha). cbn [kv_get]. exact Hsk.
        -- cbn [kv_get]. rewrite eqb_refl. reflexivity.
      * destruct (is_tomb dv); [|cbn [kv_get]; rewrite E]; rewrite (IHd _ Hd Hs0); reflexivity.
    + (* snapshot key first: it is not buffered *)
      apply dcmp_gt_lt in C.
      assert (Hdk : kv_get ((dk, dv) :: d') sk = None).
      { apply (above_get_none rv). constructor; [exact C|eapply above_trans; [exact C|exact Ha]]. }
      change (kv_get ((sk, sv) :: merge rv ((dk, dv) :: d') s') k)
        with (if bytes_eqb sk k then Some sv else kv_get (merge rv ((dk, dv) :: d') s') k).
      destruct (bytes_eqb sk k) eqn:E.
      * apply bytes_eqb_eq in E; subst k. rewrite Hdk. cbn [kv_get]. rewrite eqb_refl. reflexivity.
      * rewrite (IHs Hd0 Hs). destruct (kv_get ((dk, dv) :: d') k); [reflexivity|].
        cbn [kv_get]. rewrite E. reflexivity.
Qed.

(* ---------- the iterator of the union store ---------- *)
Lemma merge_is_overlay lo hi buf snap : sorted buf -> sorted snap ->
  merge false (range lo hi buf) (range lo hi snap) = range lo hi (overlay snap buf).
Proof.
  intros Hb Hs. apply (dsorted_ext false).
  - apply dsorted_merge; apply dsorted_range; assumption.
  - apply dsorted_range. apply sorted_overlay. exact Hs.
  - intros k. rewrite kv_get_merge by (apply dsorted_range; assumption).
    unfold overlay_get. rewrite !kv_get_range, (kv_get_overlay false buf snap k Hs Hb).
    unfold overlay_get. destruct (in_range lo hi k); reflexivity.
Qed.

Lemma merge_rev_is_overlay lo hi buf snap : sorted buf -> sorted snap ->
  merge true (rev (range lo hi buf)) (rev (range lo hi snap)) = rev (range lo hi (overlay snap buf)).
Proof.
  intros Hb Hs. apply (dsorted_ext true).
  - apply dsorted_merge; apply dsorted_rev; apply dsorted_range; assumption.
  - apply dsorted_rev. apply dsorted_range. apply sorted_overlay. exact Hs.
  - intros k. rewrite kv_get_merge by (apply dsorted_rev; apply dsorted_range; assumption).
    unfold overlay_get.
    rewrite !kv_get_rev by (try apply dsorted_range; try apply sorted_overlay; assumption).
    rewrite !kv_get_range, (kv_get_overlay false buf snap k Hs Hb).
    unfold overlay_get. destruct (in_range lo hi k); reflexivity.
Qed.

Lemma union_get_overlay snap buf k : sorted buf -> sorted snap -> no_tomb snap ->
  union_get snap buf k = kv_get (overlay snap buf) k.
Proof.
  intros Hb Hs Hn. rewrite (kv_get_overlay false buf snap k Hs Hb). unfold union_get, overlay_get.
  destruct (kv_get buf k) as [v|]; [reflexivity|].
  destruct (kv_get snap k) as [v|] eqn:G; [|reflexivity].
  apply (kv_get_In false snap k v Hs) in G. unfold no_tomb in Hn. rewrite Forall_forall in Hn.
  specialize (Hn _ G). cbn in Hn. rewrite Hn. reflexivity.
Qed.

(* the full statement of C07_iter *)
Lemma iter_spec lo hi buf snap : sorted buf -> sorted snap -> no_tomb snap ->
  us_iter buf snap lo hi = range lo hi (overlay snap buf) /\
  us_iter_rev buf snap lo hi = rev (range lo hi (overlay snap buf)) /\
  dsorted false (us_iter buf snap lo hi) /\
  dsorted true (us_iter_rev buf snap lo hi) /\
  (forall k v, In (k, v) (us_iter buf snap lo hi) <-> in_range lo hi k = true /\ union_get snap buf k = Some v) /\
  (forall k v, In (k, v) (us_iter_rev buf snap lo hi) <-> in_range lo hi k = true /\ union_get snap buf k = Some v).
Proof.
  intros Hb Hs Hn.
  assert (E1 : us_iter buf snap lo hi = range lo hi (overlay snap buf)).
  { unfold us_iter. rewrite union_iter_merge. apply merge_is_overlay; assumption. }
  assert (E2 : us_iter_rev buf snap lo hi = rev (range lo hi (overlay snap buf))).
  { unfold us_iter_rev. rewrite union_iter_merge. apply merge_rev_is_overlay; assumption. }
  assert (So : sorted (range lo hi (overlay snap buf))).
  { apply dsorted_range. apply sorted_overlay. exact Hs. }
  assert (M : forall k v, In (k, v) (range lo hi (overlay snap buf)) <->
                          in_range lo hi k = true /\ union_get snap buf k = Some v).
  { intros k v. rewrite <- (kv_get_In false _ k v So), kv_get_range, (union_get_overlay snap buf k Hb Hs Hn).
    destruct (in_range lo hi k); split; try tauto; try (intros [? ?]; assumption); try discriminate.
    intros [? ?]; discriminate. }
  split; [exact E1|]. split; [exact E2|].
  split; [rewrite E1; exact So|]. split; [rewrite E2; apply dsorted_rev; exact So|].
  split; intros k v.
  - rewrite E1. apply M.
  - rewrite E2, <- in_rev. apply M.
Qed.

(* ---------- failing inner iterators: what is yielded is a prefix of the merge ---------- *)
Lemma update_cur_f_spec rv fd fs : forall d di s si,
  update_cur_f rv fd fs d di s si = None \/
  exists di' si', update_cur_f rv fd fs d di s si = Some (update_cur rv d s, di', si').
Proof.
  induction d as [|[dk dv] d' IH]; intros di s si; cbn [update_cur_f update_cur].
  - right. exists di, si. destruct s; reflexivity.
  - destruct s as [|[sk sv] s'].
    + destruct (is_tomb dv); [|right; exists di, si; reflexivity].
      destruct (fails_at fd di); [left; reflexivity|apply IH].
    + destruct (dcmp rv dk sk).
      * destruct (is_tomb dv).
        -- destruct (fails_at fd di); [left; reflexivity|]. destruct (fails_at fs si); [left; reflexivity|apply IH].
        -- destruct (fails_at fs si); [left; reflexivity|right; exists di, (S si); reflexivity].
      * destruct (is_tomb dv); [|right; exists di, si; reflexivity].
        destruct (fails_at fd di); [left; reflexivity|apply IH].
      * right. exists di, si. reflexivity.
Qed.

Lemma update_cur_f_never rv : forall d di s si, exists di' si',
  update_cur_f rv 0 0 d di s si = Some (update_cur rv d s, di', si').
Proof.
  induction d as [|[dk dv] d' IH]; intros di s si; cbn [update_cur_f update_cur fails_at Nat.ltb Nat.leb andb].
  - exists di, si. destruct s; reflexivity.
  - destruct s as [|[sk sv] s'].
    + destruct (is_tomb dv); [apply IH|exists di, si; reflexivity].
    + destruct (dcmp rv dk sk).
      * destruct (is_tomb dv); [apply IH|exists di, (S si); reflexivity].
      * destruct (is_tomb dv); [apply IH|exists di, si; reflexivity].
      * exists di, si. reflexivity.
Qed.

Lemma ucollect_f_prefix rv fd fs : forall fuel c di si, exists rest,
  ucollect rv fuel c = fst (ucollect_f rv fd fs fuel (Some (c, di, si))) ++ rest /\
  (snd (ucollect_f rv fd fs fuel (Some (c, di, si))) = false -> rest = []).
Proof.
  induction fuel as [|f IH]; intros c di si; cbn [ucollect ucollect_f].
  - exists []. split; reflexivity.
  - destruct (u_valid c); [|exists []; split; reflexivity].
    destruct (ucur_kv c) as [e|]; [|exists []; split; reflexivity].
    unfold ucur_next. destruct (u_dirty c).
    + destruct (fails_at fd di).
      * destruct f; cbn [ucollect ucollect_f fst snd app]; [exists []; split; reflexivity|eexists; split; [reflexivity|discriminate]].
      * destruct (update_cur_f_spec rv fd fs (tl (u_d c)) (S di) (u_s c) si) as [E|(di' & si' & E)]; rewrite E.
        -- destruct f; cbn [ucollect ucollect_f fst snd app].
           ++ exists []. split; reflexivity.
           ++ eexists; split; [reflexivity|discriminate].
        -- destruct (IH (update_cur rv (tl (u_d c)) (u_s c)) di' si') as (rest & E1 & E2).
           destruct (ucollect_f rv fd fs f (Some (update_cur rv (tl (u_d c)) (u_s c), di', si'))) as [l err].
           cbn [fst snd] in *. exists rest. split; [rewrite E1; reflexivity|exact E2].
    + destruct (fails_at fs si).
      * destruct f; cbn [ucollect ucollect_f fst snd app]; [exists []; split; reflexivity|eexists; split; [reflexivity|discriminate]].
      * destruct (update_cur_f_spec rv fd fs (u_d c) di (tl (u_s c)) (S si)) as [E|(di' & si' & E)]; rewrite E.
        -- destruct f; cbn [ucollect ucollect_f fst snd app].
           ++ exists []. split; reflexivity.
           ++ eexists; split; [reflexivity|discriminate].
        -- destruct (IH (update_cur rv (u_d c) (tl (u_s c))) di' si') as (rest & E1 & E2).
           destruct (ucollect_f rv fd fs f (Some (update_cur rv (u_d c) (tl (u_s c)), di', si'))) as [l err].
           cbn [fst snd] in *. exists rest. split; [rewrite E1; reflexivity|exact E2].
Qed.

Lemma ucollect_f_never rv : forall fuel c di si,
  ucollect_f rv 0 0 fuel (Some (c, di, si)) = (ucollect rv fuel c, false).
Proof.
  induction fuel as [|f IH]; intros c di si; cbn [ucollect ucollect_f]; [reflexivity|].
  destruct (u_valid c); [|reflexivity]. destruct (ucur_kv c) as [e|]; [|reflexivity].
  unfold ucur_next. cbn [fails_at Nat.ltb Nat.leb andb]. destruct (u_dirty c).
  - destruct (update_cur_f_never rv (tl (u_d c)) (S di) (u_s c) si) as (di' & si' & E). rewrite E, IH. reflexivity.
  - destruct (update_cur_f_never rv (u_d c) di (tl (u_s c)) (S si)) as (di' & si' & E). rewrite E, IH. reflexivity.
Qed.

Lemma iter_error_path rv fd fs d s :
  (exists rest, union_iter rv d s = fst (union_iter_f rv fd fs d s) ++ rest /\
                (snd (union_iter_f rv fd fs d s) = false -> rest = [])) /\
  union_iter_f rv 0 0 d s = (union_iter rv d s, false).
Proof.
  unfold union_iter_f, union_iter. split.
  - destruct (update_cur_f_spec rv fd fs d 0 s 0) as [E|(di' & si' & E)]; rewrite E.
    + cbn [ucollect_f fst snd app]. eexists. split; [reflexivity|discriminate].
    + apply ucollect_f_prefix.
  - destruct (update_cur_f_never rv d 0 s 0) as (di' & si' & E). rewrite E. apply ucollect_f_never.
Qed.
