(* Union/ModelX.v — the buffer with what the union store shows besides values: key flags
   (kv/keyflags.go ApplyFlagsOps, UpdateFlags, flags kept by RevertVAddr), Len/Size counters as art.go keeps
   them, entry / buffer size limits, the write sequence number that invalidates iterators, and the reads that
   ignore staging levels (SnapshotGetter / SnapshotIter), IterWithFlags, SelectValueHistory, InspectStage.
   Built on Model.v: the value log and the staging positions are the `mbuf` of Model.v (in-place overwrite on). *)
From Verif Require Import Base.Lex Union.Model.

(* ---------- flags ---------- *)
(* bit numbers of kv.KeyFlags *)
Definition bit (i : N) : N := N.shiftl 1 i.
Definition fPresumeKNE := bit 0.        Definition fKeyLocked := bit 1.
Definition fNeedLocked := bit 2.        Definition fKeyLockedValExist := bit 3.
Definition fNeedCheckExists := bit 4.   Definition fPrewriteOnly := bit 5.
Definition fIgnoredIn2PC := bit 6.      Definition fReadable := bit 7.
Definition fNewlyInserted := bit 8.     Definition fAssertExist := bit 9.
Definition fAssertNotExist := bit 10.   Definition fNeedConstraintCheck := bit 11.
Definition fPreviousPresumeKNE := bit 12. Definition fKeyLockedInShareMode := bit 13.
Definition persistent_mask : N :=
  N.lor (N.lor fKeyLocked fKeyLockedValExist) (N.lor fNeedConstraintCheck fKeyLockedInShareMode).

Definition fset (f m : N) : N := N.lor f m.
Definition fclr (f m : N) : N := N.ldiff f m.

(* FlagsOp by its index in the const block (FlagsOp = 1 << index) *)
Definition apply_fop (f : N) (op : nat) : N :=
  match op with
  | 0 => fset f (N.lor fPresumeKNE fNeedCheckExists)          (* SetPresumeKeyNotExists *)
  | 1 => fclr f (N.lor fPresumeKNE fNeedCheckExists)          (* DelPresumeKeyNotExists *)
  | 2 => fset f fKeyLocked                                    (* SetKeyLocked *)
  | 3 => fclr f fKeyLocked                                    (* DelKeyLocked *)
  | 4 => fset f fNeedLocked                                   (* SetNeedLocked *)
  | 5 => fclr f fNeedLocked                                   (* DelNeedLocked *)
  | 6 => fclr (fset f fKeyLockedValExist) fNeedConstraintCheck  (* SetKeyLockedValueExists *)
  | 7 => fclr (fclr f fKeyLockedValExist) fNeedConstraintCheck  (* SetKeyLockedValueNotExists *)
  | 8 => fclr f fNeedCheckExists                              (* DelNeedCheckExists *)
  | 9 => fset f fPrewriteOnly                                 (* SetPrewriteOnly *)
  | 10 => fset f fIgnoredIn2PC                                (* SetIgnoredIn2PC *)
  | 11 => fset f fReadable                                    (* SetReadable *)
  | 12 => fset f fNewlyInserted                               (* SetNewlyInserted *)
  | 13 => fset (fclr f fAssertNotExist) fAssertExist          (* SetAssertExist *)
  | 14 => fset (fclr f fAssertExist) fAssertNotExist          (* SetAssertNotExist *)
  | 15 => fset (fset f fAssertNotExist) fAssertExist          (* SetAssertUnknown *)
  | 16 => fclr (fclr f fAssertExist) fAssertNotExist          (* SetAssertNone *)
  | 17 => fset f fNeedConstraintCheck                         (* SetNeedConstraintCheckInPrewrite *)
  | 18 => fclr f fNeedConstraintCheck                         (* DelNeedConstraintCheckInPrewrite *)
  | 19 => fset f fPreviousPresumeKNE                          (* SetPreviousPresumeKNE *)
  | 20 => fset f fKeyLockedInShareMode                        (* SetKeyLockedInShareMode *)
  | 21 => fclr f fKeyLockedInShareMode                        (* SetKeyLockedInExclusiveMode *)
  | _ => f
  end%nat.
Definition apply_fops (ops : list nat) (f : N) : N := fold_left apply_fop ops f.
Definition has_presume_kne (f : N) : bool := negb (N.land f (N.lor fPresumeKNE fPreviousPresumeKNE) =? 0).

(* the flag table: ascending association list key -> [flags] (a one-element value, to share Model.v's
   ordered-map functions); it holds exactly the leaves that are not marked deleted *)
Definition fl_get (kf : list kv) (k : key) : option N :=
  match kv_get kf k with Some v => Some (hd 0 v) | None => None end.
Definition fl_put (k : key) (f : N) (kf : list kv) : list kv := kv_put k [f] kf.

(* ---------- state ---------- *)
Record xbuf := mk_xbuf {
  x_b : mbuf;            (* value log (newest first) + staging positions *)
  x_kf : list kv;        (* flag table *)
  x_len : N;             (* ART.len *)
  x_size : N;            (* ART.size *)
  x_elim : N;            (* entrySizeLimit *)
  x_blim : N;            (* bufferSizeLimit *)
  x_wseq : N             (* WriteSeqNo *)
}.
Definition max_u64 : N := 18446744073709551615.
Definition xbuf_empty : xbuf := mk_xbuf mbuf_empty [] 0 0 max_u64 max_u64 0.

Inductive xop :=
| XWrite (k : key) (v : val) (fops : list nat)     (* Set / SetWithFlags; empty v = ErrCannotSetNilValue *)
| XDelete (k : key) (fops : list nat)              (* Delete / DeleteWithFlags: writes the tombstone *)
| XFlags (k : key) (fops : list nat)               (* UpdateFlags, UnmarkPresumeKeyNotExists *)
| XStaging
| XRelease (h : nat)
| XCleanup (h : nat)
| XCheckpoint
| XRevert (n : nat)
| XLimits (e b : N).                               (* SetEntrySizeLimit *)

Definition len_n (l : list N) : N := N.of_nat (length l).

(* art.setValue on a value (v = [] is the tombstone): returns the new state and the status
   0 ok, 3 ErrEntryTooLarge (nothing done), 4 ErrTxnTooLarge (the write stays applied) *)
Definition xwrite (st : xbuf) (k : key) (v : val) (fops : list nat) : xbuf * nat :=
  if (x_elim st <? len_n k + len_n v) then (st, 3%nat)
  else
    let b := x_b st in
    let '(len1, size1, f0) :=
      match fl_get (x_kf st) k with
      | Some f => (x_len st, x_size st, f)
      | None => (x_len st + 1, x_size st + len_n k, 0)      (* new leaf, or a leaf marked deleted *)
      end in
    let f1 := apply_fops (18%nat :: fops) f0 in               (* DelNeedConstraintCheckInPrewrite first *)
    let b' := write true b k v in
    let swapped := Nat.eqb (length (b_log b')) (length (b_log b)) in
    let oldlen := match buf_get b k with Some o => len_n o | None => 0 end in
    let size2 := if swapped then size1 else size1 + len_n v - oldlen in
    let st' := mk_xbuf b' (fl_put k f1 (x_kf st)) len1 size2 (x_elim st) (x_blim st) (x_wseq st + 1) in
    (st', if x_blim st <? size2 then 4%nat else 0%nat).

(* art.setValue with value == nil (UpdateFlags): no entry limit, no value, the buffer-limit error is dropped *)
Definition xflags (st : xbuf) (k : key) (fops : list nat) : xbuf :=
  let '(len1, size1, f0) :=
    match fl_get (x_kf st) k with
    | Some f => (x_len st, x_size st, f)
    | None => (x_len st + 1, x_size st + len_n k, 0)
    end in
  mk_xbuf (x_b st) (fl_put k (apply_fops fops f0) (x_kf st)) len1 size1 (x_elim st) (x_blim st) (x_wseq st + 1).

(* MemdbVlog.RevertToCheckpoint: pop the cnt newest entries, RevertVAddr for each *)
Fixpoint revert_entries (cnt : nat) (log : list kv) (kf : list kv) (len size : N) : list kv * list kv * N * N :=
  match cnt, log with
  | S c, (k, v) :: rest =>
      let size1 := size - len_n v in
      match kv_get rest k with
      | Some old => revert_entries c rest kf len (size1 + len_n old)
      | None =>
          let kept := N.land (match fl_get kf k with Some f => f | None => 0 end) persistent_mask in
          if kept =? 0 then revert_entries c rest (kv_del k kf) (len - 1) (size1 - len_n k)
          else revert_entries c rest (fl_put k kept kf) len size1
      end
  | _, _ => (log, kf, len, size)
  end.

Definition xrevert_to (st : xbuf) (n : nat) (stages' : list nat) (cp' : nat) : xbuf :=
  let log := b_log (x_b st) in
  let '(log', kf', len', size') := revert_entries (length log - n) log (x_kf st) (x_len st) (x_size st) in
  mk_xbuf (mk_mbuf log' stages' cp') kf' len' size' (x_elim st) (x_blim st) (x_wseq st + 1).

Definition xstep (st : xbuf) (o : xop) : xbuf * nat :=
  match o with
  | XWrite k v fops => if is_tomb v then (st, 1%nat) else xwrite st k v fops
  | XDelete k fops => xwrite st k [] fops
  | XFlags k fops => (xflags st k fops, 0%nat)
  | XStaging => (mk_xbuf (step true (x_b st) OStaging) (x_kf st) (x_len st) (x_size st) (x_elim st) (x_blim st) (x_wseq st), 0%nat)
  | XRelease h =>
      if handle_live (x_b st) h
      then (mk_xbuf (step true (x_b st) (ORelease h)) (x_kf st) (x_len st) (x_size st) (x_elim st) (x_blim st) (x_wseq st + 1), 0%nat)
      else (st, op_status (x_b st) (ORelease h))
  | XCleanup h =>
      if handle_live (x_b st) h
      then (xrevert_to st (hd O (b_stages (x_b st))) (tl (b_stages (x_b st)))
                       (Nat.min (b_cp (x_b st)) (hd O (b_stages (x_b st)))), 0%nat)
      else (st, op_status (x_b st) (OCleanup h))
  | XCheckpoint =>
      (mk_xbuf (step true (x_b st) OCheckpoint) (x_kf st) (x_len st) (x_size st) (x_elim st) (x_blim st) (x_wseq st), 0%nat)
  | XRevert n => (xrevert_to st n (b_stages (x_b st)) n, 0%nat)
  | XLimits e b => (mk_xbuf (x_b st) (x_kf st) (x_len st) (x_size st) e b (x_wseq st), 0%nat)
  end.

Definition xrun (ops : list xop) (st : xbuf) : xbuf := fold_left (fun s o => fst (xstep s o)) ops st.

(* ---------- observers ---------- *)
Definition x_get_flags (st : xbuf) (k : key) : option N := fl_get (x_kf st) k.
Definition x_has_presume_kne (st : xbuf) (k : key) : bool :=
  match fl_get (x_kf st) k with Some f => has_presume_kne f | None => false end.

(* IterWithFlags: every leaf that is not deleted, with its flags and its value (None = flags only) *)
Definition x_iter_flags (st : xbuf) (lo hi : key) : list (key * N * option val) :=
  map (fun e => (fst e, hd 0 (snd e), buf_get (x_b st) (fst e))) (range lo hi (x_kf st)).

(* the view that ignores the staging levels: the log below the outermost staging position *)
Definition base_log (b : mbuf) : list kv :=
  match rev (b_stages b) with
  | [] => b_log b
  | p0 :: _ => truncate p0 (b_log b)
  end.
Definition x_snap_get (st : xbuf) (k : key) : option val := kv_get (base_log (x_b st)) k.
Definition x_snap_map (st : xbuf) : list kv :=
  fold_right (fun e m => kv_put (fst e) (snd e) m) [] (base_log (x_b st)).
Definition x_snap_iter (st : xbuf) (lo hi : key) : list kv := range lo hi (x_snap_map st).
Definition x_snap_iter_rev (st : xbuf) (lo hi : key) : list kv := rev (range lo hi (x_snap_map st)).

(* SelectValueHistory walks the versions of the key, newest first *)
Definition x_history (st : xbuf) (k : key) : list val :=
  map snd (filter (fun e => bytes_eqb (fst e) k) (b_log (x_b st))).

(* InspectStage h: the log entries of level h and above, newest first, that are still the key's head *)
Fixpoint heads_only (seen : list key) (l : list kv) : list kv :=
  match l with
  | [] => []
  | (k, v) :: r => if key_mem k seen then heads_only seen r else (k, v) :: heads_only (k :: seen) r
  end.
Definition x_inspect_stage (st : xbuf) (h : nat) : list (key * N * val) :=
  let b := x_b st in
  let pos := nth (length (b_stages b) - h) (b_stages b) O in
  map (fun e => (fst e, match fl_get (x_kf st) (fst e) with Some f => f | None => 0 end, snd e))
      (heads_only [] (firstn (length (b_log b) - pos) (b_log b))).

(* the union store's reads on the extended state *)
Definition xm_get (snap : list kv) (st : xbuf) (k : key) : option val := m_get snap (x_b st) k.

(* ---------- thin outer layer: key length limit, Dirty, SnapshotSeqNo ---------- *)
(* art.Set rejects a key longer than MaxKeyLen = 65535 before anything else (ErrKeyTooLarge; UpdateFlags drops
   the error); ART.dirty and ART.SnapshotSeqNo are updated exactly where art.go updates them. They are
   compared with the code on every run; the theorems about this layer are in PropsY.v (C07_y_value_part, C07_dirty,
   C07_dirty_monotone, C07_clean_buffer_may_hold_writes, C07_snapshot_seq, C07_write_status). *)
Record ybuf := mk_ybuf { y_x : xbuf; y_dirty : bool; y_sseq : N }.
Definition ybuf_empty : ybuf := mk_ybuf xbuf_empty false 0.
Definition max_key_len : N := 65535.

Definition persistent_nonzero (st : xbuf) (k : key) : bool :=
  match fl_get (x_kf st) k with Some f => negb (N.land f persistent_mask =? 0) | None => false end.

Definition ystep (st : ybuf) (o : xop) : ybuf * nat :=
  let x := y_x st in
  let nostage := match b_stages (x_b x) with [] => true | _ => false end in
  let too_long (k : key) := max_key_len <? len_n k in
  (* effect of art.Set that got past the limit checks: dirty / SnapshotSeqNo when no level is open, dirty when
     the key ends up with a persistent flag *)
  let after_set (x' : xbuf) (k : key) (r : nat) :=
    (mk_ybuf x' (y_dirty st || nostage || persistent_nonzero x' k) (if nostage then y_sseq st + 1 else y_sseq st), r) in
  match o with
  | XWrite k v _ =>
      if is_tomb v then (st, 1%nat)
      else if too_long k then (st, 5%nat)
      else let '(x', r) := xstep x o in
           if Nat.eqb r 3 then (st, 3%nat) else after_set x' k r
  | XDelete k _ =>
      if too_long k then (st, 5%nat)
      else let '(x', r) := xstep x o in
           if Nat.eqb r 3 then (st, 3%nat) else after_set x' k r
  | XFlags k _ =>
      if too_long k then (st, 0%nat)
      else let '(x', r) := xstep x o in after_set x' k r
  | XRelease h =>
      let '(x', r) := xstep x o in
      if handle_live (x_b x) h then
        if Nat.eqb h 1
        then (mk_ybuf x' (y_dirty st || negb (Nat.eqb (hd O (b_stages (x_b x))) (length (b_log (x_b x))))) (y_sseq st + 1), r)
        else (mk_ybuf x' (y_dirty st) (y_sseq st), r)
      else (st, r)
  | XCleanup h =>
      let '(x', r) := xstep x o in
      if handle_live (x_b x) h then (mk_ybuf x' (y_dirty st) (if Nat.eqb h 1 then y_sseq st + 1 else y_sseq st), r)
      else (st, r)
  | XRevert n =>
      let '(x', r) := xstep x o in
      let bump := match rev (b_stages (x_b x)) with [] => true | p0 :: _ => Nat.ltb p0 n end in
      (mk_ybuf x' (y_dirty st) (if bump then y_sseq st + 1 else y_sseq st), r)
  | _ => let '(x', r) := xstep x o in (mk_ybuf x' (y_dirty st) (y_sseq st), r)
  end.

(* BufferSnapshotBatchGetter.BatchGet (the second copy of the merge loop in batch_getter.go) over the staging-blind
   view of the buffer *)
Definition x_snap_batch_get (snap : list kv) (st : xbuf) (keys : list key) : list key * list kv :=
  buffer_batch_get snap (x_snap_map st) keys.
Definition yrun (ops : list xop) (st : ybuf) : ybuf := fold_left (fun s o => fst (ystep s o)) ops st.

(* legality of RevertToCheckpoint(n), decided by the model: between the top staging position and the end of the log
   (the hypothesis `legal` of the Dirty / SnapshotSeqNo theorems; checked on every replayed program) *)
Definition revert_legalb (b : mbuf) (n : nat) : bool :=
  Nat.leb (hd O (b_stages b)) n && Nat.leb n (length (b_log b)).

(* the versions of a key in the value log, newest first (x_history st k = b_history (x_b st) k) *)
Definition b_history (b : mbuf) (k : key) : list val :=
  map snd (filter (fun e => bytes_eqb (fst e) k) (b_log b)).
