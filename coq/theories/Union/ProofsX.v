(* Union/ProofsX.v — the extended buffer (ModelX.v): its value part is Model.v's buffer, flags are a fold of
   the flag operations that undo does not roll back (except for a key that loses its first value), Len counts
   the existing keys, every content change moves the write sequence number, snapshot reads ignore staging. *)
From Verif Require Import Base.Lex Union.Model Union.ModelX Union.ProofsMap Union.ProofsBuf.
From Coq Require Import Sorted ZifyN ZifyNat.

Notation sorted := (dsorted false).

(* ---------- the value part is the buffer of Model.v ---------- *)
Definition erase (o : xop) : op :=
  match o with
  | XWrite k v _ => OSet k v
  | XDelete k _ => ODel k
  | XFlags _ _ => ORelease 0      (* handle 0: no effect on the value part *)
  | XStaging => OStaging
  | XRelease h => ORelease h
  | XCleanup h => OCleanup h
  | XCheckpoint => OCheckpoint
  | XRevert n => ORevert n
  | XLimits _ _ => ORelease 0
  end.

Lemma revert_entries_log cnt : forall log kf len size,
  fst (fst (fst (revert_entries cnt log kf len size))) = skipn cnt log.
Proof.
  induction cnt as [|c IH]; intros log kf len size; [destruct log; reflexivity|].
  destruct log as [|[k v] rest]; [reflexivity|]. cbn [revert_entries skipn].
  destruct (kv_get rest k); [apply IH|].
  destruct (N.land _ persistent_mask =? 0); apply IH.
Qed.

Lemma xrevert_b st n stages' cp' :
  x_b (xrevert_to st n stages' cp') = mk_mbuf (truncate n (b_log (x_b st))) stages' cp'.
Proof.
  unfold xrevert_to, truncate.
  pose proof (revert_entries_log (length (b_log (x_b st)) - n) (b_log (x_b st)) (x_kf st) (x_len st) (x_size st)) as H.
  destruct (revert_entries _ _ _ _ _) as [[[l kf] len] sz]. cbn in H. subst l. reflexivity.
Qed.

Lemma xwrite_b st k v fops :
  x_b (fst (xwrite st k v fops)) = x_b st \/ x_b (fst (xwrite st k v fops)) = write true (x_b st) k v.
Proof.
  unfold xwrite. destruct (x_elim st <? len_n k + len_n v); [left; reflexivity|].
  destruct (fl_get (x_kf st) k); right; reflexivity.
Qed.

Lemma xstep_b st o :
  x_b (fst (xstep st o)) = x_b st \/ x_b (fst (xstep st o)) = step true (x_b st) (erase o).
Proof.
  destruct o as [k v f|k f|k f| |h|h| |n|e b]; cbn [xstep erase step].
  - destruct (is_tomb v); [left; reflexivity|apply xwrite_b].
  - apply xwrite_b.
  - left. unfold xflags. destruct (fl_get (x_kf st) k); reflexivity.
  - right; reflexivity.
  - destruct (handle_live (x_b st) h); [right|left]; reflexivity.
  - destruct (handle_live (x_b st) h); [right; cbn [fst]; apply xrevert_b|left; reflexivity].
  - right; reflexivity.
  - right. cbn [fst]. apply xrevert_b.
  - left; reflexivity.
Qed.

Lemma xinv_step log0 base st o :
  invp true log0 base (x_b st) -> scoped_op (length base) (length log0) (erase o) ->
  invp true log0 base (x_b (fst (xstep st o))).
Proof.
  intros Hi Ho. destruct (xstep_b st o) as [E|E]; rewrite E; [exact Hi|].
  apply inv_step; [exact Hi|exact Ho].
Qed.

Lemma xinv_run log0 base ops : forall st,
  invp true log0 base (x_b st) -> Forall (fun o => scoped_op (length base) (length log0) (erase o)) ops ->
  invp true log0 base (x_b (xrun ops st)).
Proof.
  unfold xrun. induction ops as [|o ops IH]; intros st Hi Ho; cbn [fold_left]; [exact Hi|].
  inversion Ho; subst. apply IH; try assumption. apply xinv_step; assumption.
Qed.

(* ---------- flags ---------- *)
Lemma fl_get_put k f kf k' : fl_get (fl_put k f kf) k' = if bytes_eqb k k' then Some f else fl_get kf k'.
Proof. unfold fl_get, fl_put. rewrite kv_get_put. destruct (bytes_eqb k k'); reflexivity. Qed.

Lemma fl_get_del k kf k' : sorted kf -> fl_get (kv_del k kf) k' = if bytes_eqb k k' then None else fl_get kf k'.
Proof. intros H. unfold fl_get. rewrite (kv_get_del _ _ _ H). destruct (bytes_eqb k k'); reflexivity. Qed.

Definition dflt (f : option N) : N := match f with Some x => x | None => 0 end.

(* what one operation other than an effective Cleanup / Revert does to the flags of key k *)
Definition flag_effect (st : xbuf) (k : key) (o : xop) : option N :=
  let f := fl_get (x_kf st) k in
  match o with
  | XWrite k' v fops =>
      if bytes_eqb k' k && negb (is_tomb v) && negb (x_elim st <? len_n k' + len_n v)
      then Some (apply_fops (18%nat :: fops) (dflt f)) else f
  | XDelete k' fops =>
      if bytes_eqb k' k && negb (x_elim st <? len_n k' + len_n [])
      then Some (apply_fops (18%nat :: fops) (dflt f)) else f
  | XFlags k' fops => if bytes_eqb k' k then Some (apply_fops fops (dflt f)) else f
  | _ => f
  end.

Definition is_undo (st : xbuf) (o : xop) : bool :=
  match o with
  | XCleanup h => handle_live (x_b st) h
  | XRevert _ => true
  | _ => false
  end.

Lemma xwrite_flags st k' v fops k :
  fl_get (x_kf (fst (xwrite st k' v fops))) k =
    if bytes_eqb k' k && negb (x_elim st <? len_n k' + len_n v)
    then Some (apply_fops (18%nat :: fops) (dflt (fl_get (x_kf st) k))) else fl_get (x_kf st) k.
Proof.
  unfold xwrite. destruct (x_elim st <? len_n k' + len_n v); cbn [negb]; [rewrite Bool.andb_false_r; reflexivity|].
  rewrite Bool.andb_true_r.
  destruct (fl_get (x_kf st) k') as [f0|] eqn:G; cbn [fst x_kf]; rewrite fl_get_put;
    destruct (bytes_eqb k' k) eqn:E; try reflexivity;
    apply bytes_eqb_eq in E; subst k'; rewrite G; reflexivity.
Qed.

Lemma flags_step st o k : is_undo st o = false ->
  fl_get (x_kf (fst (xstep st o))) k = flag_effect st k o.
Proof.
  destruct o as [k' v f|k' f|k' f| |h|h| |n|e b]; cbn [is_undo xstep flag_effect]; intros H; try reflexivity; try discriminate.
  - destruct (is_tomb v); cbn [negb fst].
    + rewrite Bool.andb_false_r. reflexivity.
    + rewrite xwrite_flags, Bool.andb_true_r. reflexivity.
  - apply xwrite_flags.
  - unfold xflags. destruct (fl_get (x_kf st) k') as [f0|] eqn:G; cbn [fst x_kf]; rewrite fl_get_put;
      destruct (bytes_eqb k' k) eqn:E; try reflexivity;
      apply bytes_eqb_eq in E; subst k'; rewrite G; reflexivity.
  - destruct (handle_live (x_b st) h); reflexivity.
  - rewrite H. reflexivity.
Qed.

(* RevertVAddr keeps only the persistent flags of a key that loses its first value *)
Definition mask_flags (f : option N) : option N :=
  let kept := N.land (dflt f) persistent_mask in
  if kept =? 0 then None else Some kept.

Lemma kv_get_none_split (l : list kv) k c : kv_get l k = None ->
  kv_get (firstn c l) k = None /\ kv_get (skipn c l) k = None.
Proof.
  revert c. induction l as [|[k0 v0] l IH]; intros c H; [destruct c; split; reflexivity|].
  cbn [kv_get] in H. destruct (bytes_eqb k0 k) eqn:E; [discriminate|].
  destruct c; cbn [firstn skipn kv_get]; [rewrite E; split; [reflexivity|exact H]|].
  rewrite E. apply IH. exact H.
Qed.

Definition is_some {A} (o : option A) : bool := match o with Some _ => true | None => false end.

Lemma sorted_fl_put k f kf : sorted kf -> sorted (fl_put k f kf).
Proof. apply sorted_put. Qed.

Lemma revert_entries_flags cnt : forall log kf len size k, sorted kf ->
  let kf' := snd (fst (fst (revert_entries cnt log kf len size))) in
  sorted kf' /\
  fl_get kf' k =
    if is_some (kv_get (firstn cnt log) k) && negb (is_some (kv_get (skipn cnt log) k))
    then mask_flags (fl_get kf k) else fl_get kf k.
Proof.
  induction cnt as [|c IH]; intros log kf len size k Hs.
  - destruct log; cbn; split; try assumption; reflexivity.
  - destruct log as [|[k0 v0] rest]; [cbn; split; [assumption|reflexivity]|].
    cbn [revert_entries firstn skipn kv_get].
    destruct (kv_get rest k0) as [old|] eqn:G.
    + (* an older version of k0 remains: nothing happens to the flags *)
      destruct (IH rest kf len (size - len_n v0 + len_n old) k Hs) as [S1 F1]. split; [exact S1|].
      rewrite F1. destruct (bytes_eqb k0 k) eqn:E; [|reflexivity].
      apply bytes_eqb_eq in E; subst k0. cbn [is_some andb].
      (* k has an entry in rest: either among the popped ones, or below *)
      destruct (kv_get (firstn c rest) k) eqn:G1; [reflexivity|].
      destruct (kv_get (skipn c rest) k) eqn:G2; [reflexivity|].
      exfalso. assert (kv_get rest k = None); [|congruence].
      rewrite <- (firstn_skipn c rest). clear -G1 G2.
      induction (firstn c rest) as [|[a b] l IHl]; cbn [app kv_get] in *; [exact G2|].
      destruct (bytes_eqb a k); [discriminate|apply IHl; exact G1].
    + (* k0 loses its first value *)
      destruct (kv_get_none_split rest k0 c G) as [N1 N2].
      set (kept := N.land (match fl_get kf k0 with Some f => f | None => 0 end) persistent_mask).
      destruct (kept =? 0) eqn:K.
      * destruct (IH rest (kv_del k0 kf) (len - 1) (size - len_n v0 - len_n k0) k (sorted_del k0 kf Hs)) as [S1 F1].
        split; [exact S1|]. rewrite F1, (fl_get_del _ _ _ Hs).
        destruct (bytes_eqb k0 k) eqn:E.
        -- apply bytes_eqb_eq in E; subst k0. rewrite N1, N2. cbn [is_some andb negb].
           unfold mask_flags, dflt. fold kept. rewrite K. reflexivity.
        -- reflexivity.
      * destruct (IH rest (fl_put k0 kept kf) len (size - len_n v0) k (sorted_fl_put k0 kept kf Hs)) as [S1 F1].
        split; [exact S1|]. rewrite F1, fl_get_put.
        destruct (bytes_eqb k0 k) eqn:E.
        -- apply bytes_eqb_eq in E; subst k0. rewrite N1, N2. cbn [is_some andb negb].
           unfold mask_flags, dflt. fold kept. rewrite K. reflexivity.
        -- reflexivity.
Qed.

Lemma xrevert_flags st n stages' cp' k : sorted (x_kf st) ->
  let log := b_log (x_b st) in
  let cnt := (length log - n)%nat in
  sorted (x_kf (xrevert_to st n stages' cp')) /\
  fl_get (x_kf (xrevert_to st n stages' cp')) k =
    if is_some (kv_get (firstn cnt log) k) && negb (is_some (kv_get (skipn cnt log) k))
    then mask_flags (fl_get (x_kf st) k) else fl_get (x_kf st) k.
Proof.
  intros Hs log cnt. unfold xrevert_to. fold log. fold cnt.
  pose proof (revert_entries_flags cnt log (x_kf st) (x_len st) (x_size st) k Hs) as H.
  destruct (revert_entries cnt log (x_kf st) (x_len st) (x_size st)) as [[[l kf] len] sz]. exact H.
Qed.

(* ---------- well-formedness: flag table sorted, Len = its size, every buffered key is in it ---------- *)
Definition xwf (st : xbuf) : Prop :=
  sorted (x_kf st) /\
  x_len st = N.of_nat (length (x_kf st)) /\
  (forall k, kv_get (b_log (x_b st)) k <> None -> kv_get (x_kf st) k <> None).

Lemma length_put k v l : sorted l ->
  length (kv_put k v l) = if is_some (kv_get l k) then length l else S (length l).
Proof.
  induction l as [|[k0 v0] l IH]; intros Hs; cbn [kv_put kv_get]; [reflexivity|].
  apply dsorted_inv in Hs. destruct Hs as [Hs Ha]. cbn in Ha.
  destruct (lex_cmp k k0) eqn:C.
  - apply lex_cmp_eq in C; subst k0. rewrite eqb_refl. reflexivity.
  - rewrite eqb_neq by (intros ->; rewrite lex_cmp_refl in C; discriminate).
    rewrite (above_get_none_lt false k k0 l C Ha). reflexivity.
  - rewrite eqb_neq by (intros ->; rewrite lex_cmp_refl in C; discriminate).
    cbn [length]. rewrite (IH Hs). destruct (is_some (kv_get l k)); reflexivity.
Qed.

Lemma length_del k l : sorted l ->
  length (kv_del k l) = if is_some (kv_get l k) then pred (length l) else length l.
Proof.
  induction l as [|[k0 v0] l IH]; intros Hs; cbn [kv_del kv_get]; [reflexivity|].
  apply dsorted_inv in Hs. destruct Hs as [Hs Ha]. cbn in Ha.
  destruct (lex_cmp k k0) eqn:C.
  - apply lex_cmp_eq in C; subst k0. rewrite eqb_refl. reflexivity.
  - rewrite eqb_neq by (intros ->; rewrite lex_cmp_refl in C; discriminate).
    rewrite (above_get_none_lt false k k0 l C Ha). reflexivity.
  - rewrite eqb_neq by (intros ->; rewrite lex_cmp_refl in C; discriminate).
    cbn [length]. rewrite (IH Hs). destruct (kv_get l k) eqn:G; cbn [is_some]; [|reflexivity].
    destruct l; [discriminate|reflexivity].
Qed.

Lemma fl_get_kv_get kf k : fl_get kf k = None <-> kv_get kf k = None.
Proof. unfold fl_get. destruct (kv_get kf k); split; congruence. Qed.

Lemma xwf_put st k f b' len' size' e bl w :
  xwf st ->
  len' = (if is_some (fl_get (x_kf st) k) then x_len st else x_len st + 1) ->
  (forall k2, kv_get (b_log b') k2 <> None -> k2 = k \/ kv_get (b_log (x_b st)) k2 <> None) ->
  xwf (mk_xbuf b' (fl_put k f (x_kf st)) len' size' e bl w).
Proof.
  intros (Hs & Hl & Hk) Hlen Hb. unfold xwf; cbn [x_kf x_len x_b].
  split; [apply sorted_fl_put; exact Hs|]. split.
  - unfold fl_put. rewrite (length_put _ _ _ Hs), Hlen. unfold fl_get.
    destruct (kv_get (x_kf st) k); cbn [is_some]; lia.
  - intros k2 H2. unfold fl_put. rewrite kv_get_put. destruct (bytes_eqb k k2) eqn:E; [discriminate|].
    destruct (Hb k2 H2) as [->|H3]; [rewrite eqb_refl in E; discriminate|apply Hk; exact H3].
Qed.

Lemma write_keys ip b k v k2 : kv_get (b_log (write ip b k v)) k2 <> None -> k2 = k \/ kv_get (b_log b) k2 <> None.
Proof.
  intros H. fold (buf_get (write ip b k v) k2) in H. rewrite buf_get_write in H.
  destruct (bytes_eqb k k2) eqn:E; [left; symmetry; apply bytes_eqb_eq; exact E|right; exact H].
Qed.

Lemma xwf_write st k v fops : xwf st -> xwf (fst (xwrite st k v fops)).
Proof.
  intros H. unfold xwrite. destruct (x_elim st <? len_n k + len_n v); [exact H|].
  destruct (fl_get (x_kf st) k) eqn:G; cbn [fst]; apply xwf_put; try assumption;
    try (rewrite G; reflexivity); apply write_keys.
Qed.

Lemma revert_entries_wf cnt : forall log kf len size,
  sorted kf -> len = N.of_nat (length kf) ->
  (forall k, kv_get log k <> None -> kv_get kf k <> None) ->
  let r := revert_entries cnt log kf len size in
  let log' := fst (fst (fst r)) in let kf' := snd (fst (fst r)) in let len' := snd (fst r) in
  sorted kf' /\ len' = N.of_nat (length kf') /\ (forall k, kv_get log' k <> None -> kv_get kf' k <> None).
Proof.
  induction cnt as [|c IH]; intros log kf len size Hs Hl Hk.
  - destruct log; cbn; repeat split; assumption.
  - destruct log as [|[k0 v0] rest]; [cbn; repeat split; assumption|].
    cbn [revert_entries].
    assert (Hk0 : kv_get kf k0 <> None) by (apply Hk; cbn [kv_get]; rewrite eqb_refl; discriminate).
    assert (Hrest : forall k, kv_get rest k <> None -> kv_get kf k <> None).
    { intros k H. apply Hk. cbn [kv_get]. destruct (bytes_eqb k0 k); [discriminate|exact H]. }
    destruct (kv_get rest k0) as [old|] eqn:G.
    + apply IH; assumption.
    + destruct (N.land _ persistent_mask =? 0).
      * apply IH.
        -- apply sorted_del; exact Hs.
        -- rewrite (length_del _ _ Hs). destruct (kv_get kf k0) eqn:G0; [|congruence]. cbn [is_some].
           destruct kf; [discriminate|]. cbn [length pred] in *. lia.
        -- intros k H. rewrite (kv_get_del _ _ _ Hs). destruct (bytes_eqb k0 k) eqn:E.
           ++ apply bytes_eqb_eq in E; subst k0. congruence.
           ++ apply Hrest; exact H.
      * apply IH.
        -- apply sorted_fl_put; exact Hs.
        -- unfold fl_put. rewrite (length_put _ _ _ Hs). destruct (kv_get kf k0); [exact Hl|congruence].
        -- intros k H. unfold fl_put. rewrite kv_get_put. destruct (bytes_eqb k0 k); [discriminate|apply Hrest; exact H].
Qed.

Lemma xwf_revert st n stages' cp' : xwf st -> xwf (xrevert_to st n stages' cp').
Proof.
  intros (Hs & Hl & Hk). unfold xrevert_to.
  pose proof (revert_entries_wf (length (b_log (x_b st)) - n) (b_log (x_b st)) (x_kf st) (x_len st) (x_size st) Hs Hl Hk) as H.
  destruct (revert_entries _ _ _ _ _) as [[[l kf] len] sz]. exact H.
Qed.

Lemma xwf_step st o : xwf st -> xwf (fst (xstep st o)).
Proof.
  intros H. destruct o as [k v f|k f|k f| |h|h| |n|e b]; cbn [xstep].
  - destruct (is_tomb v); [exact H|apply xwf_write; exact H].
  - apply xwf_write; exact H.
  - unfold xflags. destruct (fl_get (x_kf st) k) eqn:G; cbn [fst]; apply xwf_put; try assumption;
      try (rewrite G; reflexivity); intros k2 H2; right; exact H2.
  - exact H.
  - destruct (handle_live (x_b st) h); [|exact H]. cbn [fst]. destruct H as (Hs & Hl & Hk).
    unfold xwf; cbn [x_kf x_len x_b step]. rewrite (proj1 (Bool.andb_true_iff _ _) eq_refl) || idtac.
    repeat split; try assumption.
    cbn [step]. destruct (handle_live (x_b st) h); exact Hk.
  - destruct (handle_live (x_b st) h); [apply xwf_revert; exact H|exact H].
  - destruct H as (Hs & Hl & Hk). unfold xwf; cbn. repeat split; assumption.
  - apply xwf_revert; exact H.
  - exact H.
Qed.

Lemma xwf_run ops : forall st, xwf st -> xwf (xrun ops st).
Proof.
  unfold xrun. induction ops as [|o ops IH]; intros st H; cbn [fold_left]; [exact H|].
  apply IH. apply xwf_step. exact H.
Qed.

Lemma xwf_empty : xwf xbuf_empty.
Proof. unfold xwf; cbn. repeat split; [constructor|]. intros k H. exact H. Qed.

(* ---------- every content change moves the write sequence number ---------- *)
Lemma wseq_step st o :
  (x_wseq st <= x_wseq (fst (xstep st o))) /\
  (x_wseq (fst (xstep st o)) = x_wseq st ->
   b_log (x_b (fst (xstep st o))) = b_log (x_b st) /\ x_kf (fst (xstep st o)) = x_kf st).
Proof.
  assert (Same : forall s : xbuf, (x_wseq s <= x_wseq s) /\
            (x_wseq s = x_wseq s -> b_log (x_b s) = b_log (x_b s) /\ x_kf s = x_kf s)).
  { intros s. split; [lia|intros _; split; reflexivity]. }
  assert (Bump : forall s s' : xbuf, x_wseq s' = x_wseq s + 1 ->
            (x_wseq s <= x_wseq s') /\
            (x_wseq s' = x_wseq s -> b_log (x_b s') = b_log (x_b s) /\ x_kf s' = x_kf s)).
  { intros s s' E. split; [lia|intros H; exfalso; lia]. }
  assert (Wr : forall k v f, (x_wseq st <= x_wseq (fst (xwrite st k v f))) /\
            (x_wseq (fst (xwrite st k v f)) = x_wseq st ->
             b_log (x_b (fst (xwrite st k v f))) = b_log (x_b st) /\ x_kf (fst (xwrite st k v f)) = x_kf st)).
  { intros k v f. unfold xwrite. destruct (x_elim st <? len_n k + len_n v); [apply Same|].
    destruct (fl_get (x_kf st) k); apply Bump; reflexivity. }
  assert (Rv : forall n stages' cp', x_wseq (xrevert_to st n stages' cp') = x_wseq st + 1).
  { intros n stages' cp'. unfold xrevert_to. destruct (revert_entries _ _ _ _ _) as [[[l kf] len] sz]. reflexivity. }
  destruct o as [k v f|k f|k f| |h|h| |n|e b]; cbn [xstep].
  - destruct (is_tomb v); [apply Same|apply Wr].
  - apply Wr.
  - cbn [fst]. apply Bump. unfold xflags. destruct (fl_get (x_kf st) k); reflexivity.
  - cbn [fst]. split; [cbn; lia|intros _; split; reflexivity].
  - destruct (handle_live (x_b st) h) eqn:L; cbn [fst]; [|apply Same].
    apply Bump. reflexivity.
  - destruct (handle_live (x_b st) h); cbn [fst]; [apply Bump; apply Rv|apply Same].
  - cbn [fst]. split; [cbn; lia|intros _; split; reflexivity].
  - cbn [fst]. apply Bump. apply Rv.
  - cbn [fst]. split; [cbn; lia|intros _; split; reflexivity].
Qed.

(* ---------- snapshot reads ignore the staging levels ---------- *)
Lemma base_log_inv log0 st :
  inv log0 [length log0] (x_b st) -> base_log (x_b st) = log0.
Proof.
  intros (x & extra & Hl & Hs & Hf). unfold base_log. rewrite Hs, rev_app_distr. cbn [rev app].
  rewrite Hl. apply truncate_exact.
Qed.
