(* MemBuf/Model.v — entry point of the C08 models: L0 = Staged.v (reference: stack of staging
   levels over an ordered map), L1 = VLog.v (key table + append-only value log with old links,
   the mechanism shared by ART and RBT).  Both are executable; both are extracted and run by the
   correspondence check against the real ART and RBT on the same operation sequences. *)
From Verif Require Export Base.Lex MemBuf.Flags MemBuf.KMap MemBuf.Ops MemBuf.Staged MemBuf.VLog.

(* one combined step for the extracted driver *)
Definition step01 (s0 : st0) (s1 : st1) (o : op) : (st0 * out) * (st1 * out) :=
  (step0 s0 o, step1 s1 o).
