(* MemBuf/Batched.v — the batched snapshot iterator (internal/unionstore/membuffer_snapshot.go:
   snapshotBatchedIter.fillBatch / Next).  It re-opens a plain snapshot iterator for every batch (32, 64, ...
   4096 entries) and resumes from a key derived from the last key of the previous batch:
   forward  — lower bound := lastKey ++ [0x00]  (the smallest key above lastKey);
   reverse  — upper bound := lastKey (exclusive); an empty lastKey ends the scan (fix f5829fa: an empty bound
              would read as "unbounded").
   A snapshot is the sorted list of (key, value) pairs of the base level. *)
From Verif Require Import Base.Lex MemBuf.KMap.

Definition sel (snap : kmap val) (lo hi : key) : kmap val := filter (fun p => in_bounds lo hi (fst p)) snap.
Definition plain (snap : kmap val) (rv : bool) (lo hi : key) : list (key * val) :=
  if rv then rev (sel snap lo hi) else sel snap lo hi.

Definition next_size (bs : nat) : nat := Nat.min (bs * 2) 4096.
Definition last_key (b : list (key * val)) : option key :=
  match rev b with [] => None | p :: _ => Some (fst p) end.

Fixpoint fwd (fuel : nat) (snap : kmap val) (lo hi : key) (bs : nat) : list (key * val) :=
  match fuel with
  | O => []
  | S f =>
      let b := firstn bs (sel snap lo hi) in
      match last_key b with
      | None => []
      | Some lk => b ++ fwd f snap (lk ++ [0%N]) hi (next_size bs)
      end
  end.

Fixpoint bwd (fuel : nat) (snap : kmap val) (lo hi : key) (bs : nat) : list (key * val) :=
  match fuel with
  | O => []
  | S f =>
      let b := firstn bs (rev (sel snap lo hi)) in
      match last_key b with
      | None => []
      | Some [] => b
      | Some lk => b ++ bwd f snap lo lk (next_size bs)
      end
  end.

Definition batched (fuel : nat) (snap : kmap val) (rv : bool) (lo hi : key) : list (key * val) :=
  if rv then bwd fuel snap lo hi 32 else fwd fuel snap lo hi 32.
