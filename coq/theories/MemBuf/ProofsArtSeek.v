(* MemBuf/ProofsArtSeek.v — baseIter.seek positions a bounded iteration at the first key >= the bound:
   seek_rank = the number of keys of the tree that are smaller than the bound *)
From Verif Require Import Base.Lex MemBuf.KMap MemBuf.ProofsKMap MemBuf.Art MemBuf.ProofsArt MemBuf.ProofsArtIns
  MemBuf.ProofsArtIns2 MemBuf.ProofsBatched.
From Coq Require Import Arith.
Local Open Scope nat_scope.

Definition below (k : key) (l : list key) : nat := length (filter (fun k' => lex_ltb k' k) l).

Lemma below_app k a b : below k (a ++ b) = below k a + below k b.
Proof. unfold below. rewrite filter_app, app_length. reflexivity. Qed.

Lemma below_none k l : (forall k', In k' l -> lex_ltb k' k = false) -> below k l = 0.
Proof.
  unfold below. induction l as [|x l IH]; intros H; [reflexivity|]. cbn. rewrite (H x (or_introl eq_refl)).
  apply IH. intros k' Hk. apply H. right. exact Hk.
Qed.

Lemma below_all k l : (forall k', In k' l -> lex_ltb k' k = true) -> below k l = length l.
Proof.
  unfold below. induction l as [|x l IH]; intros H; [reflexivity|]. cbn. rewrite (H x (or_introl eq_refl)). cbn. f_equal.
  apply IH. intros k' Hk. apply H. right. exact Hk.
Qed.

Lemma size_inorder_both :
  (forall t, size t = length (inorder t)) /\ (forall c, size_ch c = length (inorder_ch c)).
Proof.
  apply art_children_ind.
  - reflexivity.
  - intros plen pfx ipl ch IH. cbn [size inorder]. rewrite app_length, IH. destruct ipl; reflexivity.
  - reflexivity.
  - intros b t IHt r IHr. cbn [size_ch inorder_ch]. rewrite app_length, IHt, IHr. reflexivity.
Qed.

(* ---------- order facts about keys that share a path ---------- *)
Lemma ltb_app_same p a b : lex_ltb (p ++ a) (p ++ b) = lex_ltb a b.
Proof. unfold lex_ltb. rewrite lex_cmp_app_same. reflexivity. Qed.

Lemma ltb_nil_r a : lex_ltb a [] = false.
Proof. unfold lex_ltb. destruct a; reflexivity. Qed.

Lemma ltb_cons_lt b b' r r' : (b < b')%N -> lex_ltb (b :: r) (b' :: r') = true.
Proof. intros H. unfold lex_ltb. cbn [lex_cmp]. apply N.compare_lt_iff in H. rewrite H. reflexivity. Qed.

Lemma ltb_cons_gt b b' r r' : (b' < b)%N -> lex_ltb (b :: r) (b' :: r') = false.
Proof. intros H. unfold lex_ltb. cbn [lex_cmp]. apply N.compare_gt_iff in H. rewrite H. reflexivity. Qed.

(* after a common part C the first differing bytes decide *)
Lemma ltb_diverge C a b ra rb : lex_ltb (C ++ a :: ra) (C ++ b :: rb) = N.ltb a b || (N.eqb a b && lex_ltb ra rb).
Proof.
  rewrite ltb_app_same. unfold lex_ltb. cbn [lex_cmp].
  destruct (N.compare_spec a b) as [E|E|E].
  - subst. rewrite N.ltb_irrefl, N.eqb_refl. reflexivity.
  - apply N.ltb_lt in E. rewrite E. reflexivity.
  - destruct (N.ltb_spec a b); [lia|]. destruct (N.eqb_spec a b); [lia|]. reflexivity.
Qed.

Lemma gt_is_ltb a b : match lex_cmp a b with Gt => true | _ => false end = lex_ltb b a.
Proof. unfold lex_ltb. rewrite (lex_cmp_antisym a b). destruct (lex_cmp a b); reflexivity. Qed.

Lemma nth_firstn_lt (l : list N) i n : i < n -> nth i (firstn n l) 0%N = nth i l 0%N.
Proof.
  revert i n. induction l as [|x l IH]; intros i n H; [rewrite firstn_nil; reflexivity|].
  destruct n; [lia|]. destruct i; [reflexivity|]. cbn. apply IH. lia.
Qed.

(* ---------- the tree ---------- *)
Lemma seek_rank_spec_both :
  (forall t path x, wf path t -> seek_rank (path ++ x) (length path) t = below (path ++ x) (inorder t)) /\
  (forall c q b x, wf_ch q c -> seek_rank_ch (q ++ b :: x) (length q) b c = below (q ++ b :: x) (inorder_ch c)).
Proof.
  apply art_children_ind.
  - (* leaf *)
    intros k' path x (r & ->). cbn [seek_rank inorder]. unfold below. cbn [filter].
    replace (length path) with (length path + 0) by lia. rewrite valid_app, gt_is_ltb, ltb_app_same.
    destruct x as [|a x]; [cbn [length Nat.ltb Nat.leb andb]; rewrite ltb_nil_r; reflexivity|].
    cbn [length Nat.ltb Nat.leb andb]. destruct (lex_ltb r (a :: x)); reflexivity.
  - (* inner node *)
    intros plen pfx ipl ch IH path x (P & HP & Hpfx & Hi & Hc & Hcl). subst plen. cbn [seek_rank].
    assert (Hkeys : forall k, In k (inorder (Node (length P) pfx ipl ch)) -> exists y, k = path ++ P ++ y).
    { intros k. apply (node_keys_ext path P (length P) pfx ipl ch k Hi Hc). }
    assert (Hml : max_in_node < length P -> exists y, min_leaf (Node (length P) pfx ipl ch) = path ++ P ++ y).
    { intros Hlong. apply Hkeys. apply (proj1 min_leaf_in_both _ path).
      - exists P. repeat split; assumption.
      - destruct Hcl as [H|[H|[_ H]]]; [left; exact H|right; exact H|unfold max_in_node in Hlong; lia]. }
    destruct (match_deep_spec path x P pfx (Node (length P) pfx ipl ch) Hpfx Hml) as [MA MB].
    pose proof (lcp_le_r x P) as Lr. pose proof (lcp_le_l x P) as Ll.
    destruct (Nat.ltb_spec (match_deep (path ++ x) (length path) (length P) pfx (Node (length P) pfx ipl ch)) (length P)) as [Hlt|Hge].
    + (* the bound leaves the node's path segment: everything below is on one side *)
      assert (Hs : lcp x P < length P) by (destruct (Nat.lt_ge_cases (lcp x P) (length P)); [assumption|specialize (MB H); lia]).
      specialize (MA Hs). rewrite MA in *. set (mi := lcp x P) in *.
      pose proof (lcp_firstn x P) as EF. fold mi in EF.
      assert (Eb : prefix_byte (length path) mi pfx (Node (length P) pfx ipl ch) = nth mi P 0%N).
      { unfold prefix_byte. destruct (Nat.ltb_spec mi max_in_node) as [H20|H20].
        - subst pfx. apply nth_firstn_lt. exact H20.
        - destruct (Hml ltac:(lia)) as (y & ->). rewrite skipn_app_len. apply app_nth1. exact Hs. }
      rewrite Eb, app_length, byte_at_app.
      assert (HPs : exists C c Pt, P = C ++ c :: Pt /\ firstn mi x = C /\ nth mi P 0%N = c).
      { exists (firstn mi P), (nth mi P 0%N), (skipn (S mi) P). repeat split; [apply split_at; exact Hs|exact EF]. }
      destruct HPs as (C & c & Pt & EP & EC & Ec). rewrite Ec.
      destruct (Nat.eqb_spec (mi + length path) (length path + length x)) as [Hend|Hnend]; cbn [orb].
      * (* the bound ends inside the segment: it is a proper prefix of every key below *)
        symmetry. apply below_none. intros k Hk. destruct (Hkeys k Hk) as (y & ->).
        assert (Ex : x = C) by (rewrite <- EC; symmetry; apply firstn_all_eq; lia).
        rewrite ltb_app_same, EP, Ex, <- app_assoc. rewrite <- (app_nil_r C) at 2. rewrite ltb_app_same. apply ltb_nil_r.
      * assert (Hx : mi < length x) by lia.
        assert (EX : x = C ++ nth mi x 0%N :: skipn (S mi) x) by (rewrite <- EC; apply split_at; exact Hx).
        assert (Hneq : nth mi x 0%N <> c) by (rewrite <- Ec; apply lcp_nth_neq; assumption).
        set (a := nth mi x 0%N) in *. set (xt := skipn (S mi) x) in *.
        destruct (N.ltb_spec a c) as [Hb|Hb].
        -- symmetry. apply below_none. intros k Hk. destruct (Hkeys k Hk) as (y & ->).
           rewrite ltb_app_same, EP, EX, <- app_assoc. cbn [app]. rewrite ltb_diverge.
           destruct (N.ltb_spec c a); [lia|]. destruct (N.eqb_spec c a); [congruence|reflexivity].
        -- rewrite (proj1 size_inorder_both). symmetry. apply below_all. intros k Hk. destruct (Hkeys k Hk) as (y & ->).
           rewrite ltb_app_same, EP, EX, <- app_assoc. cbn [app]. rewrite ltb_diverge.
           assert (Hca : (c < a)%N) by lia. apply N.ltb_lt in Hca. rewrite Hca. reflexivity.
    + (* the whole segment matches *)
      assert (Hfull : lcp x P = length P).
      { destruct (Nat.lt_ge_cases (lcp x P) (length P)) as [H|H]; [specialize (MA H); lia|lia]. }
      pose proof (lcp_full_prefix x P Hfull) as Ex. set (x' := skipn (length P) x) in *.
      assert (Ek : path ++ x = (path ++ P) ++ x') by (rewrite Ex at 1; rewrite app_assoc; reflexivity).
      assert (Ed : length path + length P = length (path ++ P) + 0) by (rewrite app_length; lia).
      rewrite Ek, Ed, valid_app, byte_at_app. cbn [inorder]. rewrite below_app.
      destruct x' as [|b x''] eqn:Ex'.
      * (* the bound is exactly the node's path: the in-place leaf (if any) is the position *)
        cbn [length Nat.ltb Nat.leb]. rewrite app_nil_r.
        rewrite (below_none (path ++ P) (inorder_ch ch)).
        -- destruct ipl as [k0|]; [|reflexivity]. subst k0. unfold below. cbn [filter]. rewrite ltb_irrefl. reflexivity.
        -- intros k Hk. destruct (proj2 wf_ext_both _ _ _ Hc Hk) as (b & r & ->).
           rewrite <- (app_nil_r (path ++ P)) at 2. rewrite ltb_app_same. apply ltb_nil_r.
      * cbn [length Nat.ltb Nat.leb nth]. rewrite Nat.add_0_r. rewrite (IH (path ++ P) b x'' Hc). f_equal.
        destruct ipl as [k0|]; [|reflexivity]. subst k0. unfold below. cbn [filter].
        rewrite <- (app_nil_r (path ++ P)) at 1. rewrite ltb_app_same. reflexivity.
  - intros q b x _. reflexivity.
  - intros b' t IHt r IHr q b x (Ht & Hr & Hl). cbn [seek_rank_ch inorder_ch]. rewrite below_app.
    destruct (N.ltb_spec b' b) as [Hlt|Hge].
    + (* the whole child lies to the left *)
      rewrite (IHr q b x Hr). f_equal. rewrite (proj1 size_inorder_both). symmetry. apply below_all.
      intros k' Hk. destruct (proj1 wf_ext_both _ _ _ Ht Hk) as (y & ->). rewrite <- app_assoc. cbn [app].
      rewrite ltb_app_same. apply ltb_cons_lt. exact Hlt.
    + assert (Hrest : below (q ++ b :: x) (inorder_ch r) = 0).
      { apply below_none. intros k' Hk. destruct (ch_keys_above _ _ _ _ Hr Hl Hk) as (b2 & y & -> & Hb2).
        rewrite ltb_app_same. apply ltb_cons_gt. lia. }
      rewrite Hrest, Nat.add_0_r. destruct (N.eqb_spec b' b) as [->|Hne].
      * assert (Ek : q ++ b :: x = (q ++ [b]) ++ x) by (rewrite <- app_assoc; reflexivity).
        assert (Ed : S (length q) = length (q ++ [b])) by (rewrite app_length; cbn; lia).
        rewrite Ek, Ed. apply IHt. exact Ht.
      * symmetry. apply below_none. intros k' Hk. destruct (proj1 wf_ext_both _ _ _ Ht Hk) as (y & ->).
        rewrite <- app_assoc. cbn [app]. rewrite ltb_app_same. apply ltb_cons_gt. lia.
Qed.

(* ---------- the position is the first key >= the bound ---------- *)
Lemma filter_none' {A} (f : A -> bool) l : (forall x, In x l -> f x = false) -> filter f l = [].
Proof. induction l as [|x l IH]; intros H; [reflexivity|]. cbn. rewrite (H x (or_introl eq_refl)). apply IH. intros y Hy. apply H. right. exact Hy. Qed.

Lemma ltb_not_leb a b : lex_ltb a b = negb (lex_leb b a).
Proof. unfold lex_ltb, lex_leb. rewrite (lex_cmp_antisym a b). destruct (lex_cmp a b); reflexivity. Qed.

Lemma sorted_rank k l : lsorted l -> nth_error l (below k l) = find (fun k' => lex_leb k k') l.
Proof.
  induction l as [|x l IH]; intros S; [reflexivity|]. destruct S as [F S]. unfold below in *. cbn [filter find].
  rewrite ltb_not_leb. destruct (lex_leb k x) eqn:E; cbn [negb].
  - (* x >= k: nothing after x is below k *)
    rewrite Forall_forall in F. replace (filter (fun k' => lex_ltb k' k) l) with (@nil key); [reflexivity|].
    symmetry. apply filter_none'. intros y Hy. destruct (lex_ltb y k) eqn:Ey; [|reflexivity]. exfalso.
    apply ltb_lt in Ey. pose proof (lex_cmp_lt_trans _ _ _ (F y Hy) Ey) as T.
    unfold lex_leb in E. rewrite (lex_cmp_antisym x k), T in E. discriminate.
  - cbn [length nth_error]. apply IH. exact S.
Qed.

Theorem seek_first_spec o lo : wf_root o -> seek_first lo o = find (fun k => lex_leb lo k) (keys_of_tree o).
Proof.
  destruct o as [t|]; intros W; [|reflexivity]. cbn [seek_first keys_of_tree].
  change 0 with (@length N []). change lo with ([] ++ lo) at 1. rewrite (proj1 seek_rank_spec_both t [] lo W).
  cbn [app]. apply sorted_rank. exact (proj1 inorder_sorted_both t [] W).
Qed.
