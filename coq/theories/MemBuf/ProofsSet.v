(* MemBuf/ProofsSet.v — Set / UpdateFlags preserve the simulation *)
From Verif Require Import Base.Lex MemBuf.Flags MemBuf.KMap MemBuf.Ops MemBuf.Staged MemBuf.VLog
  MemBuf.ProofsKMap MemBuf.ProofsLog MemBuf.ProofsSim MemBuf.ProofsObs MemBuf.ProofsAcct.
From Coq Require Import Arith.

Lemma live_upsert k ent keys :
  ksorted keys ->
  live (kupsert k ent keys) = if k_del ent then kremove k (live keys) else kupsert k (k_flags ent) (live keys).
Proof. intros S. unfold live. rewrite kfmap_upsert by exact S. unfold live_ent. destruct (k_del ent); reflexivity. Qed.

Lemma live_find k keys :
  ksorted keys -> kfind k (live keys) = match kfind k keys with Some e => live_ent e | None => None end.
Proof. intros S. unfold live. apply kfind_kfmap. exact S. Qed.

Lemma keys_ok_upsert k ent keys l :
  keys_ok keys l -> k_head ent = head_of k l -> (k_del ent = true -> k_head ent = None /\ k_flags ent = 0%N) ->
  keys_ok (kupsert k ent keys) l.
Proof.
  intros K H D k'. destruct (bytes_eqb_dec k k') as [<-|N].
  - rewrite kfind_upsert_same. split; assumption.
  - rewrite kfind_upsert_other by exact N. apply K.
Qed.

Lemma keys_ok_cons k e keys l f :
  e_key e = k -> keys_ok keys l -> keys_ok (kupsert k (mkK (Some (S (length l))) f false) keys) (e :: l).
Proof.
  intros E K k'. cbn [head_of length]. rewrite E. destruct (bytes_eqb_dec k k') as [<-|N].
  - rewrite kfind_upsert_same, bytes_eqb_refl. cbn. split; [reflexivity|discriminate].
  - rewrite kfind_upsert_other by exact N. rewrite (bytes_eqb_neq k' k) by congruence. apply K.
Qed.

Lemma stages_nil_iff s1 s0 : Sim s1 s0 -> (match stages0 s0 with [] => true | _ => false end) = no_stage s1.
Proof.
  intros HS. pose proof (Rlev_len _ _ _ _ _ _ _ (sim_lev _ _ HS)) as L. unfold no_stage.
  destruct (stages0 s0); destruct (stages1 s1); cbn in L; try discriminate; reflexivity.
Qed.

Lemma N_of_nat_S n : N.of_nat (S n) = (N.of_nat n + 1)%N.
Proof. lia. Qed.

Lemma sim_touch s1 s0 k f1 : Sim s1 s0 -> Sim (touch1 k f1 s1) (touch0 k f1 s0).
Proof.
  intros HS. pose proof (sim_sorted _ _ HS) as So. pose proof (sim_keys _ _ HS k) as Kk.
  unfold touch1, touch0, with_kf0.
  set (ent := match kfind k (keys1 s1) with Some e => e | None => mkK None 0 true end).
  assert (Hh : k_head ent = head_of k (log1 s1)).
  { subst ent. destruct (kfind k (keys1 s1)); [apply Kk|symmetry; exact Kk]. }
  assert (Hlive : kfind k (live (keys1 s1)) = if k_del ent then None else Some (k_flags ent)).
  { rewrite live_find by exact So. subst ent. destruct (kfind k (keys1 s1)) as [e|]; [reflexivity|reflexivity]. }
  assert (Hdel : k_del ent = true -> kfind k (jof (log1 s1)) = None).
  { intros D. apply head_of_none_find. rewrite <- Hh. subst ent.
    destruct (kfind k (keys1 s1)) as [e|]; [apply Kk; exact D|reflexivity]. }
  constructor; cbn [log1 keys1 stages1 len1 size1 dirty1 elimit1 blimit1 regs1 lastcp1 base0 stages0 kf0 dirty0 elimit0 blimit0 regs0 lastcp0].
  - apply (sim_chain _ _ HS).
  - apply keys_ok_upsert; [apply (sim_keys _ _ HS)|exact Hh|discriminate].
  - apply ksorted_upsert. exact So.
  - apply (sim_lev _ _ HS).
  - apply (sim_lastcp _ _ HS).
  - rewrite live_upsert by exact So. cbn [k_del k_flags]. rewrite (sim_kf _ _ HS). reflexivity.
  - rewrite (sim_dirty _ _ HS), (stages_nil_iff _ _ HS). reflexivity.
  - apply (sim_el _ _ HS).
  - apply (sim_bl _ _ HS).
  - rewrite live_upsert by exact So. cbn [k_del k_flags]. rewrite (sim_len _ _ HS).
    destruct (k_del ent).
    + rewrite kupsert_length_new by exact Hlive. lia.
    + erewrite kupsert_length_old; [reflexivity|apply ksorted_kfmap; exact So|exact Hlive].
  - rewrite live_upsert by exact So. cbn [k_del k_flags]. rewrite (sim_size _ _ HS).
    destruct (k_del ent) eqn:D.
    + rewrite size_of_upsert_new by exact Hlive. rewrite (Hdel eq_refl). cbn [vlen]. lia.
    + erewrite size_of_upsert_old; [reflexivity|apply ksorted_kfmap; exact So|exact Hlive].
Qed.

(* with_top0 projections *)
Lemma with_top0_stages s j : stages0 (with_top0 s j) = setTopJ (stages0 s) j.
Proof. unfold with_top0. destruct (stages0 s); reflexivity. Qed.
Lemma with_top0_base s j : base0 (with_top0 s j) = setTopB (stages0 s) (base0 s) j.
Proof. unfold with_top0. destruct (stages0 s); reflexivity. Qed.
Lemma with_top0_kf s j : kf0 (with_top0 s j) = kf0 s.
Proof. unfold with_top0. destruct (stages0 s); reflexivity. Qed.
Lemma with_top0_dirty s j : dirty0 (with_top0 s j) = dirty0 s.
Proof. unfold with_top0. destruct (stages0 s); reflexivity. Qed.
Lemma with_top0_el s j : elimit0 (with_top0 s j) = elimit0 s.
Proof. unfold with_top0. destruct (stages0 s); reflexivity. Qed.
Lemma with_top0_bl s j : blimit0 (with_top0 s j) = blimit0 s.
Proof. unfold with_top0. destruct (stages0 s); reflexivity. Qed.
Lemma with_top0_regs s j : regs0 (with_top0 s j) = regs0 s.
Proof. unfold with_top0. destruct (stages0 s); reflexivity. Qed.
Lemma with_top0_lastcp s j : lastcp0 (with_top0 s j) = lastcp0 s.
Proof. unfold with_top0. destruct (stages0 s); reflexivity. Qed.
Lemma top0_topJ s : top0 s = topJ (stages0 s) (base0 s).
Proof. reflexivity. Qed.
Lemma lower0_lowerJ s : lower0 s = lowerJ (stages0 s) (base0 s).
Proof. reflexivity. Qed.

Local Open Scope nat_scope.

Lemma Rreg_cons e lj p lc r1 r0 : Rreg lj p lc r1 r0 -> Rreg (e :: lj) p lc r1 r0.
Proof. intros H. apply (Rreg_grow lj p lc r1 r0 [e]). exact H. Qed.

Definition lc_allows (lc : option nat) (a : nat) : bool := match lc with None => true | Some c => Nat.ltb c a end.

Lemma can_modify_pos s a : 1 <= a -> can_modify s a = Nat.ltb (top_pos (stages1 s)) a && lc_allows (lastcp1 s) a.
Proof.
  intros H. unfold can_modify, top_pos, lc_allows. f_equal. destruct (stages1 s); cbn [hd]; [|reflexivity].
  symmetry. apply Nat.ltb_lt. lia.
Qed.

Lemma kpos_head k l a : head_of k l = Some a -> kpos k (jof l) = a.
Proof.
  induction l as [|e r IH]; cbn [head_of jof map kpos]; [discriminate|]. fold (jof r).
  destruct (bytes_eqb k (e_key e)).
  - intros H. inversion H. cbn [length]. rewrite jof_length. reflexivity.
  - exact IH.
Qed.

Lemma set_at_split x v n o :
  set_at x v (n ++ o) = if Nat.leb x (length o) then n ++ set_at x v o else set_at (x - length o) v n ++ o.
Proof.
  destruct (Nat.leb_spec x (length o)).
  - induction n as [|e n IH]; [reflexivity|]. cbn [app]. rewrite set_at_cons, app_length.
    destruct (Nat.eqb_spec x (S (length n + length o))); [lia|]. rewrite IH. reflexivity.
  - replace x with ((x - length o) + length o) at 1 by lia. apply set_at_app. lia.
Qed.

(* an in-place overwrite above every token of the level leaves the saved copies intact *)
Lemma Rreg_inplace lj p lc r1 r0 x v :
  1 <= x -> Rreg lj p lc r1 r0 -> (forall c, In c r1 -> c < x + p) -> Rreg (set_at x v lj) p lc r1 r0.
Proof.
  intros Hx (F & M & L) Hlt. refine (conj _ (conj M L)).
  clear M L. induction F as [|c saved r1 r0 H F IH]; [constructor|]. constructor.
  - destruct H as (newer & older & -> & Hc & Hs). rewrite set_at_split.
    assert (Hc' : c < x + p) by (apply Hlt; left; reflexivity).
    destruct (Nat.leb_spec x (length older)) as [Q|Q]; [lia|].
    exists (set_at (x - length older) v newer), older. repeat split; assumption.
  - apply IH. intros c' Hin. apply Hlt. right. exact Hin.
Qed.

Lemma kfind_prefix k lj rest w x :
  kfind k (jof (lj ++ rest)) = Some w -> head_of k lj = Some x -> kfind k (jof lj) = Some w.
Proof.
  intros H Hx. rewrite jof_app, kfind_app in H. destruct (kfind k (jof lj)) eqn:Q; [exact H|].
  apply head_of_none_find in Q. congruence.
Qed.

Lemma vlen_jreplace k k' v v0 j :
  kfind k j = Some v0 -> length v0 = length v -> vlen (kfind k' j) = vlen (kfind k' (jreplace k v j)).
Proof.
  intros Hv Co. induction j as [|[k2 v2] r IH]; [reflexivity|]. cbn [jreplace kfind] in *.
  destruct (bytes_eqb k k2) eqn:E.
  - inversion Hv; subst v2. cbn [kfind]. apply bytes_eqb_eq in E. subst k2.
    destruct (bytes_eqb k' k); [cbn [vlen]; unfold blen; rewrite Co; reflexivity|reflexivity].
  - cbn [kfind]. destruct (bytes_eqb k' k2); [reflexivity|apply IH; exact Hv].
Qed.

Lemma sim_setvalue s1 s0 k v ent :
  Sim s1 s0 -> kfind k (keys1 s1) = Some ent -> k_del ent = false -> Sim (setvalue1 k v s1) (write0 k v s0).
Proof.
  intros HS Hf Hd.
  pose proof (sim_sorted _ _ HS) as So. pose proof (sim_chain _ _ HS) as Ch.
  pose proof (ent_head _ _ HS _ _ Hf) as Hh.
  destruct (Rlev_top _ _ _ _ _ _ _ (sim_lev _ _ HS)) as (lj & rest & El & Lr & Etop & Elow & Hreg & Rebuild).
  assert (Hlive : kfind k (live (keys1 s1)) = Some (k_flags ent)).
  { rewrite live_find by exact So. rewrite Hf. unfold live_ent. rewrite Hd. reflexivity. }
  (* the append case, shared *)
  assert (Append : forall oldlen : N,
     vlen (kfind k (jof (log1 s1))) = oldlen ->
     Sim (mk1 (mkE k (k_head ent) v :: log1 s1)
              (kupsert k (mkK (Some (S (length (log1 s1)))) (k_flags ent) (k_del ent)) (keys1 s1))
              (stages1 s1) (len1 s1) (size1 s1 + blen v - oldlen) (dirty1 s1) (elimit1 s1) (blimit1 s1)
              (wseq1 s1) (sseq1 s1) (regs1 s1) (lastcp1 s1))
         (with_top0 s0 ((k, v) :: jof lj))).
  { intros oldlen Hold.
    constructor; cbn [log1 keys1 stages1 len1 size1 dirty1 elimit1 blimit1 regs1 lastcp1];
      rewrite ?with_top0_stages, ?with_top0_base, ?with_top0_kf, ?with_top0_dirty, ?with_top0_el, ?with_top0_bl, ?with_top0_regs, ?with_top0_lastcp.
    - cbn [chain_ok e_old e_key]. split; [exact Hh|exact Ch].
    - rewrite Hd. apply keys_ok_cons; [reflexivity|apply (sim_keys _ _ HS)].
    - apply ksorted_upsert. exact So.
    - change ((k, v) :: jof lj) with (jof (mkE k (k_head ent) v :: lj)).
      rewrite El. change (mkE k (k_head ent) v :: lj ++ rest) with ((mkE k (k_head ent) v :: lj) ++ rest).
      apply Rebuild; [apply Rreg_cons; exact Hreg|reflexivity|reflexivity|auto].
    - apply (sim_lastcp _ _ HS).
    - rewrite live_upsert by exact So. cbn [k_del k_flags]. rewrite Hd, (sim_kf _ _ HS).
      symmetry. apply kupsert_same; [apply ksorted_kfmap; exact So|exact Hlive].
    - apply (sim_dirty _ _ HS).
    - apply (sim_el _ _ HS).
    - apply (sim_bl _ _ HS).
    - rewrite live_upsert by exact So. cbn [k_del k_flags]. rewrite Hd.
      rewrite kupsert_same; [apply (sim_len _ _ HS)|apply ksorted_kfmap; exact So|exact Hlive].
    - rewrite live_upsert by exact So. cbn [k_del k_flags]. rewrite Hd.
      rewrite kupsert_same; [|apply ksorted_kfmap; exact So|exact Hlive].
      cbn [jof map e_key e_val]. fold (jof (log1 s1)).
      pose proof (size_of_change (jof (log1 s1)) ((k, v) :: jof (log1 s1)) k _ (live (keys1 s1))
                    (ksorted_kfmap _ _ So) Hlive) as C.
      rewrite (sim_size _ _ HS), <- Hold.
      assert (Hx : forall k', k' <> k -> kfind k' ((k, v) :: jof (log1 s1)) = kfind k' (jof (log1 s1))).
      { intros k' N. cbn [kfind]. rewrite (bytes_eqb_neq k' k N). reflexivity. }
      specialize (C Hx). cbn [kfind] in C. rewrite bytes_eqb_refl in C. cbn [vlen] in C.
      clear -C. lia. }
  unfold setvalue1. rewrite Hf. unfold write0.
  destruct (k_head ent) as [a|] eqn:Ha.
  - (* the key has a value at address a *)
    symmetry in Hh. pose proof (head_of_bound _ _ _ Hh) as Hb.
    pose proof (value_at_head _ _ _ Hh) as Hv.
    rewrite (can_modify_pos _ _ (proj1 Hb)).
    assert (Hsplit : head_of k (log1 s1) = match head_of k lj with Some x => Some (x + length rest) | None => head_of k rest end).
    { rewrite El. apply head_of_app. }
    rewrite top0_topJ, Etop.
    destruct (head_of k lj) as [x|] eqn:Hx.
    + (* newest value lies in the current level *)
      assert (Ea : a = x + top_pos (stages1 s1)) by (rewrite <- Lr; congruence). subst a.
      pose proof (head_of_bound _ _ _ Hx) as Hbx.
      assert (Hlt : Nat.ltb (top_pos (stages1 s1)) (x + top_pos (stages1 s1)) = true) by (apply Nat.ltb_lt; lia).
      rewrite Hlt. cbn [andb].
      assert (Hvj : kfind k (jof lj) = Some (value_at (x + top_pos (stages1 s1)) (log1 s1))).
      { apply (kfind_prefix k lj rest _ x); [rewrite <- El; exact Hv|exact Hx]. }
      assert (Hun : unprotected0 k s0 = lc_allows (lastcp1 s1) (x + top_pos (stages1 s1))).
      { unfold unprotected0, lc_allows. rewrite (sim_lastcp _ _ HS). change (concat (stages0 s0) ++ base0 s0) with (all0 s0).
        rewrite (all_jof _ _ HS), (kpos_head _ _ _ Hh). reflexivity. }
      rewrite Hvj, Hun.
      destruct (coalesces (value_at (x + top_pos (stages1 s1)) (log1 s1)) v) eqn:Co;
        destruct (lc_allows (lastcp1 s1) (x + top_pos (stages1 s1))) eqn:La; cbn [andb];
        try (apply Append; rewrite Hv; reflexivity).
      * (* in place *)
        assert (Eset : set_at (x + top_pos (stages1 s1)) v (log1 s1) = set_at x v lj ++ rest).
        { rewrite El, <- Lr. apply set_at_app. lia. }
        constructor; cbn [log1 keys1 stages1 len1 size1 dirty1 elimit1 blimit1 regs1 lastcp1];
          rewrite ?with_top0_stages, ?with_top0_base, ?with_top0_kf, ?with_top0_dirty, ?with_top0_el, ?with_top0_bl, ?with_top0_regs, ?with_top0_lastcp.
        -- apply set_at_chain. exact Ch.
        -- intros k'. rewrite set_at_head_of. apply (sim_keys _ _ HS).
        -- exact So.
        -- rewrite Eset. rewrite <- (set_at_jof k v lj x Hx).
           apply Rebuild; [|reflexivity|reflexivity|auto].
           apply Rreg_inplace; [lia|exact Hreg|].
           intros c Hc. destruct Hreg as (_ & _ & L). destruct (L c Hc) as (cl & Ecl & Hle).
           unfold lc_allows in La. rewrite Ecl in La. apply Nat.ltb_lt in La. lia.
        -- apply (sim_lastcp _ _ HS).
        -- apply (sim_kf _ _ HS).
        -- apply (sim_dirty _ _ HS).
        -- apply (sim_el _ _ HS).
        -- apply (sim_bl _ _ HS).
        -- apply (sim_len _ _ HS).
        -- rewrite (sim_size _ _ HS). apply size_of_ext. intros k' f' _.
           rewrite (set_at_jof k v (log1 s1) _ Hh).
           unfold coalesces in Co. apply andb_true_iff in Co. destruct Co as [_ Co]. apply Nat.eqb_eq in Co.
           eapply vlen_jreplace; eassumption.
    + (* newest value lies below the current level: CanModify is false *)
      assert (Hr : head_of k rest = Some a) by congruence.
      pose proof (head_of_bound _ _ _ Hr) as Hb2. rewrite Lr in Hb2.
      assert (Hlt : Nat.ltb (top_pos (stages1 s1)) a = false) by (apply Nat.ltb_ge; lia).
      rewrite Hlt. cbn [andb].
      assert (Hnj : kfind k (jof lj) = None) by (apply head_of_none_find; exact Hx).
      rewrite Hnj. apply Append. rewrite Hv. reflexivity.
  - (* no value yet *)
    symmetry in Hh. pose proof (proj1 (head_of_none_find _ _) Hh) as Hn.
    assert (Hnj : kfind k (jof lj) = None).
    { rewrite El, jof_app, kfind_app in Hn. destruct (kfind k (jof lj)); [discriminate|reflexivity]. }
    rewrite top0_topJ, Etop, Hnj.
    apply (Append 0%N). rewrite Hn. reflexivity.
Qed.
