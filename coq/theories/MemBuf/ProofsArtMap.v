(* MemBuf/ProofsArtMap.v — the radix tree built by any sequence of inserts is the sorted key table of L1 *)
From Verif Require Import Base.Lex MemBuf.KMap MemBuf.ProofsKMap MemBuf.Art MemBuf.ProofsArt MemBuf.ProofsArtIns
  MemBuf.ProofsArtIns2.
From Coq Require Import Arith.
Local Open Scope nat_scope.

Lemma lex_lt_irrefl a : ~ lex_lt a a.
Proof. unfold lex_lt. rewrite lex_cmp_refl. discriminate. Qed.

Lemma lex_lt_asym a b : lex_lt a b -> lex_lt b a -> False.
Proof. intros H1 H2. apply (lex_lt_irrefl a). eapply lex_cmp_lt_trans; eassumption. Qed.

(* a strictly ascending list is determined by its elements *)
Lemma lsorted_ext a : forall b, lsorted a -> lsorted b -> (forall k, In k a <-> In k b) -> a = b.
Proof.
  induction a as [|x a IH]; intros [|y b] Sa Sb H.
  - reflexivity.
  - exfalso. apply (proj2 (H y)). left. reflexivity.
  - exfalso. apply (proj1 (H x)). left. reflexivity.
  - destruct Sa as [Fa Sa]. destruct Sb as [Fb Sb]. rewrite Forall_forall in Fa, Fb.
    assert (Exy : x = y).
    { destruct (proj1 (H x) (or_introl eq_refl)) as [E|Hx]; [symmetry; exact E|].
      destruct (proj2 (H y) (or_introl eq_refl)) as [E|Hy]; [exact E|].
      exfalso. exact (lex_lt_asym _ _ (Fa _ Hy) (Fb _ Hx)). }
    subst y. f_equal. apply IH; [exact Sa|exact Sb|]. intros k. split; intros Hk.
    + destruct (proj1 (H k) (or_intror Hk)) as [E|Hk']; [|exact Hk']. subst k. exfalso. exact (lex_lt_irrefl _ (Fa _ Hk)).
    + destruct (proj2 (H k) (or_intror Hk)) as [E|Hk']; [|exact Hk']. subst k. exfalso. exact (lex_lt_irrefl _ (Fb _ Hk)).
Qed.

(* the key column of a sorted association list *)
Section Keys.
Context {A : Type}.
Lemma keys_sorted (m : kmap A) : ksorted m -> lsorted (map fst m).
Proof.
  induction m as [|[k a] r IH]; intros S; [exact I|]. destruct S as [Sl Sr]. cbn [map fst lsorted]. split; [|exact (IH Sr)].
  apply Forall_forall. intros k' Hk. apply in_map_iff in Hk. destruct Hk as ([k2 a2] & <- & Hin).
  unfold klb in Sl. rewrite Forall_forall in Sl. exact (Sl _ Hin).
Qed.

Lemma keys_upsert k' a (m : kmap A) k : In k (map fst (kupsert k' a m)) <-> k = k' \/ In k (map fst m).
Proof.
  induction m as [|[k2 a2] r IH]; cbn [kupsert map fst In].
  - intuition congruence.
  - destruct (lex_cmp k' k2) eqn:E; cbn [map fst In].
    + apply lex_cmp_eq in E. subst k2. intuition congruence.
    + intuition congruence.
    + rewrite IH. intuition congruence.
Qed.
End Keys.

(* one insert at the root *)
Lemma insert_root_ok o k :
  wf_root o ->
  wf_root (insert_root k o) /\ forall k', In k' (keys_of_tree (insert_root k o)) <-> k' = k \/ In k' (keys_of_tree o).
Proof.
  intros H. unfold insert_root. cbn [wf_root keys_of_tree].
  assert (W : wf [] (match o with Some t => t | None => empty_root end)).
  { destruct o as [t|]; [exact H|]. exists []. repeat split. right. right. split; reflexivity. }
  destruct (proj1 insert_ok_both _ [] k W) as (W' & _ & M). cbn [app length] in W', M.
  split; [exact W'|]. intros k'. rewrite M. destruct o; cbn; tauto.
Qed.

Lemma build_app ks k : build (ks ++ [k]) = insert_root k (build ks).
Proof. unfold build. rewrite fold_left_app. reflexivity. Qed.

Lemma build_ok ks : wf_root (build ks) /\ forall k, In k (keys_of_tree (build ks)) <-> In k ks.
Proof.
  induction ks as [|k ks IH] using rev_ind; [split; [exact I|intros k; cbn; tauto]|].
  destruct IH as [W M]. rewrite build_app. destruct (insert_root_ok _ k W) as [W' M'].
  split; [exact W'|]. intros k'. rewrite M', M, in_app_iff. cbn. intuition congruence.
Qed.

(* the same keys upserted into L1's sorted table (any attached values) *)
Lemma table_keys {A} (vs : list (key * A)) :
  let m := fold_left (fun m kv => kupsert (fst kv) (snd kv) m) vs [] in
  ksorted m /\ forall k, In k (map fst m) <-> In k (map fst vs).
Proof.
  induction vs as [|[k a] vs IH] using rev_ind; [split; [exact I|intros k; cbn; tauto]|].
  cbn zeta in *. rewrite fold_left_app. cbn [fold_left fst snd]. destruct IH as [S M].
  split; [apply ksorted_upsert; exact S|]. intros k'. rewrite keys_upsert, M, map_app, in_app_iff. cbn. intuition congruence.
Qed.

Theorem tree_is_table {A} (vs : list (key * A)) :
  keys_of_tree (build (map fst vs)) = map fst (fold_left (fun m kv => kupsert (fst kv) (snd kv) m) vs []).
Proof.
  destruct (build_ok (map fst vs)) as [W M]. destruct (table_keys vs) as [S M2].
  apply lsorted_ext.
  - destruct (build (map fst vs)) as [t|]; [exact (proj1 inorder_sorted_both t [] W)|exact I].
  - apply keys_sorted. exact S.
  - intros k. rewrite M, M2. tauto.
Qed.
